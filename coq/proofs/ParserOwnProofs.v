(* If every translated function follows the hand-off discipline, no write ever targets a
   buffer the consumer holds, and no array is ever held through two views: for all event
   sequences, all loop iteration counts, all pool behaviours, all Finish timings (one view at a
   time: partial hand-back included). *)
From Vx Require Import base.Prelude base.ListX model.ParserOwnTypes gen.GenOwn model.ParserOwn.

Lemma mem_In x l : mem x l = true <-> In x l.
Proof.
  unfold mem. rewrite existsb_exists. split.
  - intros [y [Hy E]]. apply Z.eqb_eq in E. now subst.
  - intros H. exists x. split; [assumption|apply Z.eqb_refl].
Qed.

Lemma mem_false x l : mem x l = false <-> ~ In x l.
Proof. rewrite <- mem_In. destruct (mem x l); split; congruence. Qed.

Lemma bkind_eqb_eq a b : bkind_eqb a b = true <-> a = b.
Proof.
  destruct a, b; cbn; split; try congruence.
  - intros H. apply Nat.eqb_eq in H. now subst.
  - intros H. injection H as ->. apply Nat.eqb_refl.
Qed.

Lemma bkind_eqb_refl k : bkind_eqb k k = true.
Proof. now apply bkind_eqb_eq. Qed.

Lemma bkind_eqb_neq a b : a <> b -> bkind_eqb a b = false.
Proof. intros H. destruct (bkind_eqb a b) eqn:E; [apply bkind_eqb_eq in E; contradiction|reflexivity]. Qed.

Lemma kmem_In k l : kmem k l = true <-> In k l.
Proof.
  unfold kmem. rewrite existsb_exists. split.
  - intros [y [Hy E]]. apply bkind_eqb_eq in E. now subst.
  - intros H. exists k. split; [assumption|now apply bkind_eqb_eq].
Qed.

Lemma kdel_In k k' l : In k' (kdel k l) <-> In k' l /\ k' <> k.
Proof.
  unfold kdel. rewrite filter_In. split; intros [H1 H2]; split; auto.
  - intros E. subst. rewrite bkind_eqb_refl in H2. discriminate.
  - now rewrite bkind_eqb_neq.
Qed.

Lemma remove_id_In x y l : In y (remove_id x l) <-> In y l /\ y <> x.
Proof.
  unfold remove_id. rewrite filter_In. split; intros [H1 H2]; split; auto.
  - intros E. subst. rewrite Z.eqb_refl in H2. discriminate.
  - destruct (y =? x) eqn:E; [apply Z.eqb_eq in E; contradiction|reflexivity].
Qed.

(* one view leaves: what stays was there; without duplicates exactly the others stay *)
Lemma remove_one_sub x y l : In y (remove_one x l) -> In y l.
Proof.
  induction l as [|z t IH]; cbn; [tauto|]. destruct (z =? x); [now right|].
  intros [E|H]; [now left|right; now apply IH].
Qed.

Lemma remove_one_In x y l : NoDup l -> (In y (remove_one x l) <-> In y l /\ y <> x).
Proof.
  induction l as [|z t IH]; intros N; cbn; [tauto|].
  inversion N as [|? ? Hz Nt]; subst.
  destruct (z =? x) eqn:E.
  - apply Z.eqb_eq in E. subst. split.
    + intros H. split; [now right|]. intros ->. contradiction.
    + intros [[E|H] Hne]; [congruence|assumption].
  - apply Z.eqb_neq in E. cbn. rewrite (IH Nt). split.
    + intros [->|[H Hne]]; [split; [now left|assumption]|split; [now right|assumption]].
    + intros [[->|H] Hne]; [now left|right; now split].
Qed.

Lemma remove_one_NoDup x l : NoDup l -> NoDup (remove_one x l).
Proof.
  induction l as [|z t IH]; intros N; cbn; [constructor|].
  inversion N as [|? ? Hz Nt]; subst.
  destruct (z =? x); [assumption|]. constructor; [|now apply IH].
  intros H. apply Hz. now apply remove_one_sub in H.
Qed.

Lemma nodup_app (a b : list Z) :
  NoDup a -> NoDup b -> (forall x, In x a -> ~ In x b) -> NoDup (a ++ b).
Proof.
  induction a as [|x a IH]; intros Na Nb D; cbn; [assumption|].
  inversion Na as [|? ? Hx Na']; subst. constructor.
  - intros H. apply in_app_or in H as [H|H]; [contradiction|]. apply (D x); [now left|assumption].
  - apply IH; try assumption. intros y Hy. apply D. now right.
Qed.

(* the invariant while a function runs, relative to the scanner's two lists *)
Record linv (s : ost) (aliased given : list bkind) : Prop := {
  li_cons : forall k, In (cur s k) (consumer s) -> In k given;
  li_out : forall k, In (cur s k) (outgoing s) -> In k aliased;
  li_inj : forall k k', cur s k = cur s k' -> k = k';
  li_pool : forall k, ~ In (cur s k) (pool s);
  li_cur_lt : forall k, cur s k < next_fresh s;
  li_cons_lt : forall x, In x (consumer s) -> x < next_fresh s;
  li_pool_lt : forall x, In x (pool s) -> x < next_fresh s;
  li_out_lt : forall x, In x (outgoing s) -> x < next_fresh s;
  li_pc : forall x, In x (pool s) -> ~ In x (consumer s);
  li_po : forall x, In x (pool s) -> ~ In x (outgoing s);
  li_co : forall x, In x (consumer s) -> ~ In x (outgoing s);
  (* no array is held through two views *)
  li_nd_out : NoDup (outgoing s);
  li_nd_cons : NoDup (consumer s);
  li_nd_pool : NoDup (pool s)
}.

Lemma set_cur_same s k v : set_cur s k v k = v.
Proof. unfold set_cur. now rewrite bkind_eqb_refl. Qed.

Lemma set_cur_other s k v k' : k' <> k -> set_cur s k v k' = cur s k'.
Proof. intros H. unfold set_cur. now rewrite bkind_eqb_neq. Qed.

(* re-pointing field k to an id that nobody else holds *)
Lemma replace_linv s k v aliased given pool' nf' :
  linv s aliased given ->
  (forall k', cur s k' <> v) -> ~ In v (consumer s) -> ~ In v (outgoing s) -> ~ In v pool' ->
  v < nf' -> next_fresh s <= nf' ->
  (forall x, In x pool' -> In x (pool s)) -> NoDup pool' ->
  linv {| cur := set_cur s k v; outgoing := outgoing s; consumer := consumer s; pool := pool'; next_fresh := nf' |}
       (kdel k aliased) (kdel k given).
Proof.
  intros I Hne Hc Ho Hp Hlt Hnf Hsub Hnd.
  assert (D : forall k', k' = k \/ k' <> k).
  { intros k'. destruct (bkind_eqb k' k) eqn:E; [left; now apply bkind_eqb_eq|right].
    intros ->. rewrite bkind_eqb_refl in E. discriminate. }
  constructor; cbn [cur outgoing consumer pool next_fresh].
  - intros k' H. destruct (D k') as [->|Hk].
    + rewrite set_cur_same in H. contradiction.
    + rewrite set_cur_other in H by assumption. apply kdel_In. split; [now apply (li_cons _ _ _ I)|assumption].
  - intros k' H. destruct (D k') as [->|Hk].
    + rewrite set_cur_same in H. contradiction.
    + rewrite set_cur_other in H by assumption. apply kdel_In. split; [now apply (li_out _ _ _ I)|assumption].
  - intros k1 k2 H. destruct (D k1) as [->|H1]; destruct (D k2) as [->|H2].
    + reflexivity.
    + rewrite set_cur_same, set_cur_other in H by assumption. exfalso. now apply (Hne k2).
    + rewrite set_cur_same, set_cur_other in H by assumption. exfalso. now apply (Hne k1).
    + rewrite !set_cur_other in H by assumption. now apply (li_inj _ _ _ I).
  - intros k' H. destruct (D k') as [->|Hk].
    + rewrite set_cur_same in H. contradiction.
    + rewrite set_cur_other in H by assumption. apply (li_pool _ _ _ I k'). now apply Hsub.
  - intros k'. destruct (D k') as [->|Hk].
    + now rewrite set_cur_same.
    + rewrite set_cur_other by assumption. pose proof (li_cur_lt _ _ _ I k'). lia.
  - intros x H. pose proof (li_cons_lt _ _ _ I x H). lia.
  - intros x H. pose proof (li_pool_lt _ _ _ I x (Hsub x H)). lia.
  - intros x H. pose proof (li_out_lt _ _ _ I x H). lia.
  - intros x H. apply (li_pc _ _ _ I). now apply Hsub.
  - intros x H. apply (li_po _ _ _ I). now apply Hsub.
  - apply (li_co _ _ _ I).
  - apply (li_nd_out _ _ _ I).
  - apply (li_nd_cons _ _ _ I).
  - exact Hnd.
Qed.

Lemma fresh_linv s k aliased given :
  linv s aliased given ->
  linv {| cur := set_cur s k (next_fresh s); outgoing := outgoing s; consumer := consumer s; pool := pool s;
          next_fresh := next_fresh s + 1 |} (kdel k aliased) (kdel k given).
Proof.
  intros I. apply replace_linv; try assumption; try lia.
  - intros k' E. pose proof (li_cur_lt _ _ _ I k'). lia.
  - intros H. pose proof (li_cons_lt _ _ _ I _ H). lia.
  - intros H. pose proof (li_out_lt _ _ _ I _ H). lia.
  - intros H. pose proof (li_pool_lt _ _ _ I _ H). lia.
  - auto.
  - apply (li_nd_pool _ _ _ I).
Qed.

(* one action under the scanner *)
Lemma step_linv s a c aliased given al' gi' :
  linv s aliased given -> scan_step a aliased given = Some (al', gi') ->
  write_safe s a = true /\ linv (oact_step s a c) al' gi'.
Proof.
  intros I H. destruct a as [k| |k src|k]; cbn [scan_step] in H.
  - (* alias *)
    destruct (negb (kmem k given) && negb (kmem k aliased)) eqn:G; [|discriminate].
    injection H as <- <-. apply andb_prop in G as [Hg Ha]. apply negb_true_iff in Hg, Ha.
    split; [reflexivity|].
    assert (Hng : ~ In k given) by (intros Hin; apply kmem_In in Hin; congruence).
    assert (Hna : ~ In k aliased) by (intros Hin; apply kmem_In in Hin; congruence).
    constructor; cbn [oact_step cur outgoing consumer pool next_fresh];
      try apply I.
    + intros k' [E|Hin]; [left; symmetry; now apply (li_inj _ _ _ I)|right; now apply (li_out _ _ _ I)].
    + intros x [<-|Hin]; [apply (li_cur_lt _ _ _ I)|now apply (li_out_lt _ _ _ I)].
    + intros x Hp [<-|Hin]; [now apply (li_pool _ _ _ I k)|now apply (li_po _ _ _ I x)].
    + intros x Hc [<-|Hin]; [apply Hng; now apply (li_cons _ _ _ I)|now apply (li_co _ _ _ I x)].
    + constructor; [|apply (li_nd_out _ _ _ I)]. intros Hin. apply Hna. now apply (li_out _ _ _ I).
  - (* emit *) injection H as <- <-. split; [reflexivity|].
    constructor; cbn [oact_step cur outgoing consumer pool next_fresh]; try apply I.
    + intros k Hin. apply in_app_or in Hin as [Hin|Hin]; apply in_or_app;
        [left; now apply (li_out _ _ _ I)|right; now apply (li_cons _ _ _ I)].
    + intros k [].
    + intros x Hin. apply in_app_or in Hin as [Hin|Hin]; [now apply (li_out_lt _ _ _ I)|now apply (li_cons_lt _ _ _ I)].
    + intros x [].
    + intros x Hp Hin. apply in_app_or in Hin as [Hin|Hin]; [now apply (li_po _ _ _ I x)|now apply (li_pc _ _ _ I x)].
    + intros x _ [].
    + intros x _ [].
    + constructor.
    + apply nodup_app; [apply (li_nd_out _ _ _ I)|apply (li_nd_cons _ _ _ I)|].
      intros x Hx Hc. exact (li_co _ _ _ I x Hc Hx).
  - (* replace *) split; [reflexivity|]. destruct src; cbn [oact_step]; injection H as <- <-.
    + now apply fresh_linv.
    + destruct c as [id|]; [destruct (mem id (pool s)) eqn:Em|].
      * apply mem_In in Em. pose proof (li_nd_pool _ _ _ I) as Np.
        apply replace_linv; try assumption; try lia.
        -- intros k' E. apply (li_pool _ _ _ I k'). now rewrite E.
        -- now apply (li_pc _ _ _ I).
        -- now apply (li_po _ _ _ I).
        -- intros Hin. apply (remove_one_In id id _ Np) in Hin. tauto.
        -- now apply (li_pool_lt _ _ _ I).
        -- intros x Hin. now apply remove_one_sub in Hin.
        -- now apply remove_one_NoDup.
      * now apply fresh_linv.
      * now apply fresh_linv.
    + assumption.
  - (* write *)
    destruct (negb (kmem k given)) eqn:Hg; [|discriminate]. injection H as <- <-.
    apply negb_true_iff in Hg. split; [|assumption].
    cbn. apply negb_true_iff. apply mem_false. intros Hin.
    apply (li_cons _ _ _ I) in Hin. apply kmem_In in Hin. congruence.
Qed.

Lemma run_fn_scan acts : forall s aliased given al' gi' choices,
  linv s aliased given -> scan_acts acts aliased given = Some (al', gi') ->
  let '(s', ok, _) := run_fn s acts choices in ok = true /\ linv s' al' gi'.
Proof.
  induction acts as [|a t IH]; intros s aliased given al' gi' choices I H.
  - cbn in H. injection H as <- <-. cbn. split; [reflexivity|assumption].
  - cbn [scan_acts] in H. destruct (scan_step a aliased given) as [[al gi]|] eqn:Es; [|discriminate].
    cbn [run_fn].
    set (cr := match a, choices with OReplace _ PoolGet, c :: rest => (c, rest) | _, _ => (None, choices) end).
    destruct cr as [c rest] eqn:Ecr.
    destruct (step_linv s a c aliased given al gi I Es) as [Hw I'].
    specialize (IH (oact_step s a c) al gi al' gi' rest I' H).
    destruct (run_fn (oact_step s a c) t rest) as [[s' ok'] rest'].
    destruct IH as [-> I'']. rewrite Hw. split; [reflexivity|assumption].
Qed.

Lemma run_fn_safe acts : forall s aliased given choices,
  linv s aliased given -> handoff_scan acts aliased given = true ->
  let '(s', ok, _) := run_fn s acts choices in ok = true /\ linv s' [] [].
Proof.
  intros s aliased given choices I H. unfold handoff_scan in H.
  destruct (scan_acts acts aliased given) as [[al gi]|] eqn:E; [|discriminate].
  destruct al; [|discriminate]. destruct gi; [|discriminate].
  exact (run_fn_scan acts s aliased given [] [] choices I E).
Qed.

Lemma scan_acts_app a b : forall al gi,
  scan_acts (a ++ b) al gi =
  match scan_acts a al gi with Some (al', gi') => scan_acts b al' gi' | None => None end.
Proof.
  induction a as [|x a IH]; intros al gi; cbn [app scan_acts]; [reflexivity|].
  destruct (scan_step x al gi) as [[al1 gi1]|]; [apply IH|reflexivity].
Qed.

Lemma klist_eqb_eq a : forall b, klist_eqb a b = true -> a = b.
Proof.
  induction a as [|x a IH]; intros [|y b] H; cbn in H; try discriminate; [reflexivity|].
  apply andb_prop in H as [H1 H2]. apply bkind_eqb_eq in H1. subst. f_equal. now apply IH.
Qed.

(* a loop whose bodies all keep the scanner's state: any iterations keep it *)
Lemma loop_scan bodies al gi :
  forallb (body_keeps al gi) bodies = true ->
  forall it, scan_acts (concat (map (fun i => nth i bodies []) it)) al gi = Some (al, gi).
Proof.
  intros Hb it. induction it as [|i it IH]; cbn [map concat]; [reflexivity|].
  rewrite scan_acts_app.
  assert (E : scan_acts (nth i bodies []) al gi = Some (al, gi)).
  { destruct (Nat.lt_ge_cases i (length bodies)) as [Hl|Hg].
    - rewrite forallb_forall in Hb. pose proof (Hb _ (nth_In bodies [] Hl)) as Hk.
      unfold body_keeps in Hk. destruct (scan_acts (nth i bodies []) al gi) as [[al1 gi1]|]; [|discriminate].
      apply andb_prop in Hk as [H1 H2]. apply klist_eqb_eq in H1, H2. now subst.
    - rewrite nth_overflow by assumption. reflexivity. }
  rewrite E. exact IH.
Qed.

(* the looped scan is sound for every unrolling *)
Lemma lscan_unroll lp : forall al gi st,
  lscan lp al gi = Some st -> forall its, scan_acts (unroll lp its) al gi = Some st.
Proof.
  induction lp as [|sg lp IH]; intros al gi st H its.
  - cbn in *. assumption.
  - destruct sg as [l|bodies]; cbn [lscan unroll] in *.
    + rewrite scan_acts_app. destruct (scan_acts l al gi) as [[al1 gi1]|]; [|discriminate].
      now apply IH.
    + destruct (forallb (body_keeps al gi) bodies) eqn:Hb; [|discriminate].
      destruct its as [|it its']; [now apply IH|].
      rewrite scan_acts_app, (loop_scan bodies al gi Hb it). now apply IH.
Qed.

Lemma lpath_ok_unroll lp its : lpath_ok lp = true -> handoff_scan (call_lacts lp its) [] [] = true.
Proof.
  unfold lpath_ok, call_lacts, handoff_scan. intros H.
  destruct (lscan lp [] []) as [[al gi]|] eqn:E; [|discriminate].
  rewrite scan_acts_app, (lscan_unroll lp [] [] (al, gi) E its). exact H.
Qed.

Lemma oinit_linv : linv oinit [] [].
Proof.
  constructor; cbn [oinit cur outgoing consumer pool next_fresh]; try (intros; contradiction); try constructor.
  - intros k k'. destruct k, k'; try congruence; try lia. intros H. f_equal. lia.
  - intros k H. contradiction.
  - intros k. destruct k; lia.
Qed.

Lemma nth_own_ok n : forallb handoff_ok own_all = true -> handoff_ok (nth n own_all []) = true.
Proof.
  intros H. rewrite forallb_forall in H.
  destruct (Nat.lt_ge_cases n (length own_all)) as [Hl|Hg].
  - apply H. now apply nth_In.
  - rewrite nth_overflow by assumption. reflexivity.
Qed.

Lemma nth_path_ok n p : paths_ok own_paths = true -> handoff_ok (nth p (nth n own_paths []) []) = true.
Proof.
  intros H. unfold paths_ok in H. rewrite forallb_forall in H.
  destruct (Nat.lt_ge_cases n (length own_paths)) as [Hl|Hg].
  - pose proof (H _ (nth_In own_paths [] Hl)) as Hf. rewrite forallb_forall in Hf.
    destruct (Nat.lt_ge_cases p (length (nth n own_paths []))) as [Hl'|Hg'].
    + apply Hf. now apply nth_In.
    + rewrite nth_overflow by assumption. reflexivity.
  - rewrite (nth_overflow own_paths [] Hg). destruct p; reflexivity.
Qed.

Lemma nth_lpath_ok n p : lpaths_ok own_lpaths = true -> lpath_ok (nth p (nth n own_lpaths []) []) = true.
Proof.
  intros H. unfold lpaths_ok in H. rewrite forallb_forall in H.
  destruct (Nat.lt_ge_cases n (length own_lpaths)) as [Hl|Hg].
  - pose proof (H _ (nth_In own_lpaths [] Hl)) as Hf. rewrite forallb_forall in Hf.
    destruct (Nat.lt_ge_cases p (length (nth n own_lpaths []))) as [Hl'|Hg'].
    + apply Hf. now apply nth_In.
    + rewrite nth_overflow by assumption. reflexivity.
  - rewrite (nth_overflow own_lpaths [] Hg). destruct p; reflexivity.
Qed.

(* the consumer hands one view back *)
Lemma finish_linv s id :
  linv s [] [] -> In id (consumer s) ->
  linv {| cur := cur s; outgoing := outgoing s; consumer := remove_one id (consumer s); pool := id :: pool s;
          next_fresh := next_fresh s |} [] [].
Proof.
  intros I Em. pose proof (li_nd_cons _ _ _ I) as Nc.
  constructor; cbn [cur outgoing consumer pool next_fresh].
  - intros k Hin. apply remove_one_sub in Hin. now apply (li_cons _ _ _ I).
  - apply (li_out _ _ _ I).
  - apply (li_inj _ _ _ I).
  - intros k [E|Hin]; [|now apply (li_pool _ _ _ I k)].
    assert (Hc : In (cur s k) (consumer s)) by (now rewrite <- E).
    apply (li_cons _ _ _ I) in Hc. exact Hc.
  - apply (li_cur_lt _ _ _ I).
  - intros x Hin. apply remove_one_sub in Hin. now apply (li_cons_lt _ _ _ I).
  - intros x [<-|Hin]; [now apply (li_cons_lt _ _ _ I)|now apply (li_pool_lt _ _ _ I)].
  - apply (li_out_lt _ _ _ I).
  - intros x [<-|Hin] Hc.
    + apply (remove_one_In id id _ Nc) in Hc. tauto.
    + apply remove_one_sub in Hc. now apply (li_pc _ _ _ I x).
  - intros x [<-|Hin]; [now apply (li_co _ _ _ I)|now apply (li_po _ _ _ I)].
  - intros x Hin. apply remove_one_sub in Hin. now apply (li_co _ _ _ I).
  - apply (li_nd_out _ _ _ I).
  - now apply remove_one_NoDup.
  - constructor; [|apply (li_nd_pool _ _ _ I)]. intros Hp. exact (li_pc _ _ _ I id Hp Em).
Qed.

(* one event from a state between calls: safe, and the invariant holds again *)
Lemma ostep_linv :
  forallb handoff_ok own_all = true -> paths_ok own_paths = true -> lpaths_ok own_lpaths = true ->
  forall s e, linv s [] [] -> snd (ostep s e) = true /\ linv (fst (ostep s e)) [] [].
Proof.
  intros Hok Hpok Hlok s e I. destruct e as [n choices|n p choices|n p its choices|id]; cbn [ostep].
  - pose proof (run_fn_safe (call_acts (nth n own_all [])) s [] [] choices I (nth_own_ok n Hok)) as H.
    destruct (run_fn s (call_acts (nth n own_all [])) choices) as [[s' ok] rest]. exact H.
  - pose proof (run_fn_safe (call_acts (nth p (nth n own_paths []) [])) s [] [] choices I (nth_path_ok n p Hpok)) as H.
    destruct (run_fn s (call_acts (nth p (nth n own_paths []) [])) choices) as [[s' ok] rest]. exact H.
  - pose proof (run_fn_safe (call_lacts (nth p (nth n own_lpaths []) []) its) s [] [] choices I
                  (lpath_ok_unroll _ its (nth_lpath_ok n p Hlok))) as H.
    destruct (run_fn s (call_lacts (nth p (nth n own_lpaths []) []) its) choices) as [[s' ok] rest]. exact H.
  - destruct (mem id (consumer s)) eqn:Em; [|split; [reflexivity|exact I]].
    cbn. split; [reflexivity|]. apply mem_In in Em. now apply finish_linv.
Qed.

Theorem no_write_after_handoff :
  forallb handoff_ok own_all = true ->
  paths_ok own_paths = true ->
  lpaths_ok own_lpaths = true ->
  forall es, orun oinit es = true.
Proof.
  intros Hok Hpok Hlok es.
  assert (G : forall s, linv s [] [] -> orun s es = true).
  { induction es as [|e es IH]; intros s I; [reflexivity|]. cbn [orun].
    destruct (ostep_linv Hok Hpok Hlok s e I) as [H1 H2].
    destruct (ostep s e) as [s' ok]. cbn in H1, H2. subst ok. cbn. now apply IH. }
  apply G. exact oinit_linv.
Qed.

(* the discipline holds of the functions translated from this source *)
Lemma own_all_ok : forallb handoff_ok own_all = true.
Proof. vm_compute. reflexivity. Qed.

Lemma own_paths_ok : paths_ok own_paths = true.
Proof. vm_compute. reflexivity. Qed.

Lemma own_lpaths_ok : lpaths_ok own_lpaths = true.
Proof. vm_compute. reflexivity. Qed.

Lemma own_paths_within : paths_within own_all own_paths = true.
Proof. vm_compute. reflexivity. Qed.

Lemma own_lpaths_within : lpaths_within own_all own_paths own_lpaths = true.
Proof. vm_compute. reflexivity. Qed.

(* the invariant behind the theorem, exported: after any event sequence that ran safely the
   consumer holds none of the parser's current buffers - so whatever is called next, its writes
   are safe.  (Used for the converse direction below.) *)
Fixpoint ofinal (s : ost) (es : list oevent) : ost :=
  match es with [] => s | e :: t => ofinal (fst (ostep s e)) t end.

Lemma ofinal_linv : forallb handoff_ok own_all = true -> paths_ok own_paths = true -> lpaths_ok own_lpaths = true ->
  forall es s, linv s [] [] -> linv (ofinal s es) [] [].
Proof.
  intros Hok Hpok Hlok es. induction es as [|e es IH]; intros s I; [exact I|].
  cbn [ofinal]. apply IH. exact (proj2 (ostep_linv Hok Hpok Hlok s e I)).
Qed.

Theorem consumer_never_holds_current :
  forall es k, ~ In (cur (ofinal oinit es) k) (consumer (ofinal oinit es)).
Proof.
  intros es k Hin.
  pose proof (ofinal_linv own_all_ok own_paths_ok own_lpaths_ok es oinit oinit_linv) as I.
  exact (li_cons _ _ _ I k Hin).
Qed.

(* the pool invariant: after any event sequence the views in the pool, the views the consumer
   holds and the views of a pending sequence are pairwise different arrays, all different from
   the arrays the parser's fields point to - so sync.Pool.Get can only hand out an array nobody
   else holds, and Finish (one view at a time, any subset, any order) keeps it so *)
Theorem views_pairwise_disjoint :
  forall es, let s := ofinal oinit es in
  NoDup (pool s ++ consumer s ++ outgoing s) /\ forall k, ~ In (cur s k) (pool s ++ consumer s).
Proof.
  intros es s.
  pose proof (ofinal_linv own_all_ok own_paths_ok own_lpaths_ok es oinit oinit_linv) as I. fold s in I.
  split.
  - apply nodup_app; [apply (li_nd_pool _ _ _ I)| |].
    + apply nodup_app; [apply (li_nd_cons _ _ _ I)|apply (li_nd_out _ _ _ I)|apply (li_co _ _ _ I)].
    + intros x Hp Hin. apply in_app_or in Hin as [Hin|Hin];
        [exact (li_pc _ _ _ I x Hp Hin)|exact (li_po _ _ _ I x Hp Hin)].
  - intros k Hin. apply in_app_or in Hin as [Hin|Hin];
      [exact (li_pool _ _ _ I k Hin)|exact (li_cons _ _ _ I k Hin)].
Qed.

(* the class of defect path-sensitivity is about: a path that aliases a FIELD's buffer into a
   sequence, emits it and returns without re-pointing the field is rejected (for a pooled local
   the same path is accepted: the local dies at the return), and after it - from ANY state, for
   any kind - the next write through it hits a buffer the consumer holds. *)
Theorem early_return_unsafe : forall (s : ost) (k : bkind) (choices : list (option Z)),
  handoff_ok [OAlias k; OEmit] = is_loc k /\
  (let '(s1, _, _) := run_fn s [OAlias k; OEmit] choices in write_safe s1 (OWrite k)) = false.
Proof.
  intros s k choices. split.
  - destruct k; try reflexivity. unfold handoff_ok, handoff_scan, call_acts. cbn. now rewrite Nat.eqb_refl.
  - cbn [run_fn oact_step write_safe cur outgoing consumer pool next_fresh].
    destruct choices; cbn [write_safe cur consumer app mem existsb]; rewrite Z.eqb_refl; reflexivity.
Qed.

(* the class of defect the multiset of views is about: a buffer is attached to the sequence,
   the field / local is re-sliced (the SAME array under a new view) and attached again - one
   array handed out as two buffers.  The scanner rejects it for every kind, and from ANY state:
   the consumer gives both views back (Finish puts each into the pool), the next dispatch gets
   the array from the pool and delivers it, the dispatch after that gets the SAME array from the
   pool and writes into it while the consumer still holds the previous sequence. *)
Definition carve (k : bkind) : list oact := [OAlias k; OReplace k Reslice; OAlias k; OEmit].
Definition finish_view (s : ost) (id : Z) : ost := fst (ostep s (EFinish id)).

Theorem carved_views_unsafe : forall (s : ost) (k : bkind),
  handoff_ok (carve k) = false /\
  (let id := cur s k in
   let '(s1, _, _) := run_fn s (carve k) [] in
   let s2 := finish_view (finish_view s1 id) id in
   let '(s3, _, _) := run_fn s2 [OReplace k PoolGet; OAlias k; OEmit] [Some id] in
   let '(s4, ok, _) := run_fn s3 [OReplace k PoolGet; OWrite k] [Some id] in ok) = false.
Proof.
  intros s k. split.
  - unfold handoff_ok, handoff_scan, carve, call_acts.
    destruct k; cbn; try reflexivity. now rewrite Nat.eqb_refl.
  - unfold carve, finish_view.
    cbn [run_fn oact_step write_safe cur outgoing consumer pool next_fresh ostep fst mem existsb app remove_one andb].
    rewrite !Z.eqb_refl.
    cbn [orb fst consumer pool cur outgoing next_fresh mem existsb remove_one oact_step app].
    rewrite !Z.eqb_refl.
    cbn [orb fst consumer pool cur outgoing next_fresh mem existsb remove_one oact_step app run_fn write_safe andb].
    rewrite ?Z.eqb_refl.
    cbn [orb fst consumer pool cur outgoing next_fresh mem existsb remove_one oact_step app run_fn write_safe andb].
    rewrite !set_cur_same, ?Z.eqb_refl.
    cbn [orb fst consumer pool cur outgoing next_fresh mem existsb remove_one oact_step app run_fn write_safe andb].
    rewrite ?set_cur_same, ?Z.eqb_refl. reflexivity.
Qed.
