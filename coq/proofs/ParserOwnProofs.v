(* If every translated function follows the hand-off discipline, no write ever targets a
   buffer the consumer holds: for all event sequences, all pool behaviours, all Finish timings. *)
From Vx Require Import base.Prelude base.ListX model.ParserOwnTypes gen.GenOwn model.ParserOwn.

Lemma mem_In x l : mem x l = true <-> In x l.
Proof.
  unfold mem. rewrite existsb_exists. split.
  - intros [y [Hy E]]. apply Z.eqb_eq in E. now subst.
  - intros H. exists x. split; [assumption|apply Z.eqb_refl].
Qed.

Lemma mem_false x l : mem x l = false <-> ~ In x l.
Proof. rewrite <- mem_In. destruct (mem x l); split; congruence. Qed.

Lemma bkind_eqb_eq a b : bkind_eqb a b = true <-> a = b.
Proof. destruct a, b; cbn; split; congruence. Qed.

Lemma kmem_In k l : kmem k l = true <-> In k l.
Proof.
  unfold kmem. rewrite existsb_exists. split.
  - intros [y [Hy E]]. apply bkind_eqb_eq in E. now subst.
  - intros H. exists k. split; [assumption|now apply bkind_eqb_eq].
Qed.

Lemma kdel_In k k' l : In k' (kdel k l) <-> In k' l /\ k' <> k.
Proof.
  unfold kdel. rewrite filter_In. split; intros [H1 H2]; split; auto.
  - intros E. subst. rewrite (proj2 (bkind_eqb_eq k k) eq_refl) in H2. discriminate.
  - destruct (bkind_eqb k' k) eqn:E; [apply bkind_eqb_eq in E; contradiction|reflexivity].
Qed.

Lemma remove_id_In x y l : In y (remove_id x l) <-> In y l /\ y <> x.
Proof.
  unfold remove_id. rewrite filter_In. split; intros [H1 H2]; split; auto.
  - intros E. subst. rewrite Z.eqb_refl in H2. discriminate.
  - destruct (y =? x) eqn:E; [apply Z.eqb_eq in E; contradiction|reflexivity].
Qed.

(* the invariant while a function runs, relative to the scanner's two lists *)
Record linv (s : ost) (aliased given : list bkind) : Prop := {
  li_cons : forall k, In (cur s k) (consumer s) -> In k given;
  li_out : forall k, In (cur s k) (outgoing s) -> In k aliased;
  li_inj : forall k k', cur s k = cur s k' -> k = k';
  li_pool : forall k, ~ In (cur s k) (pool s);
  li_cur_lt : forall k, cur s k < next_fresh s;
  li_cons_lt : forall x, In x (consumer s) -> x < next_fresh s;
  li_pool_lt : forall x, In x (pool s) -> x < next_fresh s;
  li_out_lt : forall x, In x (outgoing s) -> x < next_fresh s;
  li_pc : forall x, In x (pool s) -> ~ In x (consumer s);
  li_po : forall x, In x (pool s) -> ~ In x (outgoing s);
  li_co : forall x, In x (consumer s) -> ~ In x (outgoing s)
}.

Lemma set_cur_same s k v : set_cur s k v k = v.
Proof. unfold set_cur. now rewrite (proj2 (bkind_eqb_eq k k) eq_refl). Qed.

Lemma set_cur_other s k v k' : k' <> k -> set_cur s k v k' = cur s k'.
Proof.
  intros H. unfold set_cur. destruct (bkind_eqb k' k) eqn:E; [apply bkind_eqb_eq in E; contradiction|reflexivity].
Qed.

(* re-pointing field k to an id that nobody else holds *)
Lemma replace_linv s k v aliased given pool' nf' :
  linv s aliased given ->
  (forall k', cur s k' <> v) -> ~ In v (consumer s) -> ~ In v (outgoing s) -> ~ In v pool' ->
  v < nf' -> next_fresh s <= nf' ->
  (forall x, In x pool' -> In x (pool s)) ->
  linv {| cur := set_cur s k v; outgoing := outgoing s; consumer := consumer s; pool := pool'; next_fresh := nf' |}
       (kdel k aliased) (kdel k given).
Proof.
  intros I Hne Hc Ho Hp Hlt Hnf Hsub.
  constructor; cbn [cur outgoing consumer pool next_fresh].
  - intros k' H. destruct (bkind_eqb k' k) eqn:E.
    + apply bkind_eqb_eq in E. subst. rewrite set_cur_same in H. contradiction.
    + assert (k' <> k) by (intros ->; rewrite (proj2 (bkind_eqb_eq k k) eq_refl) in E; discriminate).
      rewrite set_cur_other in H by assumption. apply kdel_In. split; [now apply (li_cons _ _ _ I)|assumption].
  - intros k' H. destruct (bkind_eqb k' k) eqn:E.
    + apply bkind_eqb_eq in E. subst. rewrite set_cur_same in H. contradiction.
    + assert (k' <> k) by (intros ->; rewrite (proj2 (bkind_eqb_eq k k) eq_refl) in E; discriminate).
      rewrite set_cur_other in H by assumption. apply kdel_In. split; [now apply (li_out _ _ _ I)|assumption].
  - intros k1 k2 H.
    destruct (bkind_eqb k1 k) eqn:E1; destruct (bkind_eqb k2 k) eqn:E2.
    + apply bkind_eqb_eq in E1, E2. congruence.
    + apply bkind_eqb_eq in E1. subst.
      assert (k2 <> k) by (intros ->; rewrite (proj2 (bkind_eqb_eq k k) eq_refl) in E2; discriminate).
      rewrite set_cur_same, set_cur_other in H by assumption. exfalso. now apply (Hne k2).
    + apply bkind_eqb_eq in E2. subst.
      assert (k1 <> k) by (intros ->; rewrite (proj2 (bkind_eqb_eq k k) eq_refl) in E1; discriminate).
      rewrite set_cur_same, set_cur_other in H by assumption. exfalso. now apply (Hne k1).
    + assert (k1 <> k) by (intros ->; rewrite (proj2 (bkind_eqb_eq k k) eq_refl) in E1; discriminate).
      assert (k2 <> k) by (intros ->; rewrite (proj2 (bkind_eqb_eq k k) eq_refl) in E2; discriminate).
      rewrite !set_cur_other in H by assumption. now apply (li_inj _ _ _ I).
  - intros k' H. destruct (bkind_eqb k' k) eqn:E.
    + apply bkind_eqb_eq in E. subst. rewrite set_cur_same in H. contradiction.
    + assert (k' <> k) by (intros ->; rewrite (proj2 (bkind_eqb_eq k k) eq_refl) in E; discriminate).
      rewrite set_cur_other in H by assumption. apply (li_pool _ _ _ I k'). now apply Hsub.
  - intros k'. destruct (bkind_eqb k' k) eqn:E.
    + apply bkind_eqb_eq in E. subst. now rewrite set_cur_same.
    + assert (k' <> k) by (intros ->; rewrite (proj2 (bkind_eqb_eq k k) eq_refl) in E; discriminate).
      rewrite set_cur_other by assumption. pose proof (li_cur_lt _ _ _ I k'). lia.
  - intros x H. pose proof (li_cons_lt _ _ _ I x H). lia.
  - intros x H. pose proof (li_pool_lt _ _ _ I x (Hsub x H)). lia.
  - intros x H. pose proof (li_out_lt _ _ _ I x H). lia.
  - intros x H. apply (li_pc _ _ _ I). now apply Hsub.
  - intros x H. apply (li_po _ _ _ I). now apply Hsub.
  - apply (li_co _ _ _ I).
Qed.

Lemma fresh_linv s k aliased given :
  linv s aliased given ->
  linv {| cur := set_cur s k (next_fresh s); outgoing := outgoing s; consumer := consumer s; pool := pool s;
          next_fresh := next_fresh s + 1 |} (kdel k aliased) (kdel k given).
Proof.
  intros I. apply replace_linv; try assumption; try lia.
  - intros k' E. pose proof (li_cur_lt _ _ _ I k'). lia.
  - intros H. pose proof (li_cons_lt _ _ _ I _ H). lia.
  - intros H. pose proof (li_out_lt _ _ _ I _ H). lia.
  - intros H. pose proof (li_pool_lt _ _ _ I _ H). lia.
  - auto.
Qed.

(* one action under the scanner *)
Lemma step_linv s a c aliased given t :
  linv s aliased given -> handoff_scan (a :: t) aliased given = true ->
  write_safe s a = true /\
  exists aliased' given', linv (oact_step s a c) aliased' given' /\ handoff_scan t aliased' given' = true.
Proof.
  intros I H. destruct a as [k| |k src|k]; cbn [handoff_scan] in H.
  - (* alias *) apply andb_prop in H as [Hg H]. apply negb_true_iff in Hg.
    split; [reflexivity|]. exists (k :: aliased), given. split; [|assumption].
    assert (Hng : ~ In k given) by (intros Hin; apply kmem_In in Hin; congruence).
    constructor; cbn [oact_step cur outgoing consumer pool next_fresh];
      try apply I.
    + intros k' [E|Hin]; [left; symmetry; now apply (li_inj _ _ _ I)|right; now apply (li_out _ _ _ I)].
    + intros x [<-|Hin]; [apply (li_cur_lt _ _ _ I)|now apply (li_out_lt _ _ _ I)].
    + intros x Hp [<-|Hin]; [now apply (li_pool _ _ _ I k)|now apply (li_po _ _ _ I x)].
    + intros x Hc [<-|Hin]; [apply Hng; now apply (li_cons _ _ _ I)|now apply (li_co _ _ _ I x)].
  - (* emit *) split; [reflexivity|]. exists [], (aliased ++ given). split; [|assumption].
    constructor; cbn [oact_step cur outgoing consumer pool next_fresh]; try apply I.
    + intros k Hin. apply in_app_or in Hin as [Hin|Hin]; apply in_or_app;
        [left; now apply (li_out _ _ _ I)|right; now apply (li_cons _ _ _ I)].
    + intros k [].
    + intros x Hin. apply in_app_or in Hin as [Hin|Hin]; [now apply (li_out_lt _ _ _ I)|now apply (li_cons_lt _ _ _ I)].
    + intros x [].
    + intros x Hp Hin. apply in_app_or in Hin as [Hin|Hin]; [now apply (li_po _ _ _ I x)|now apply (li_pc _ _ _ I x)].
    + intros x _ [].
    + intros x _ [].
  - (* replace *) split; [reflexivity|]. destruct src; cbn [oact_step].
    + exists (kdel k aliased), (kdel k given). split; [now apply fresh_linv|assumption].
    + destruct c as [id|]; [destruct (mem id (pool s)) eqn:Em|].
      * exists (kdel k aliased), (kdel k given). split; [|assumption].
        apply mem_In in Em. apply replace_linv; try assumption; try lia.
        -- intros k' E. apply (li_pool _ _ _ I k'). now rewrite E.
        -- now apply (li_pc _ _ _ I).
        -- now apply (li_po _ _ _ I).
        -- intros Hin. apply remove_id_In in Hin. tauto.
        -- now apply (li_pool_lt _ _ _ I).
        -- intros x Hin. apply remove_id_In in Hin. tauto.
      * exists (kdel k aliased), (kdel k given). split; [now apply fresh_linv|assumption].
      * exists (kdel k aliased), (kdel k given). split; [now apply fresh_linv|assumption].
    + exists aliased, given. split; assumption.
  - (* write *) apply andb_prop in H as [Hg H]. apply negb_true_iff in Hg.
    split.
    + cbn. apply negb_true_iff. apply mem_false. intros Hin.
      apply (li_cons _ _ _ I) in Hin. apply kmem_In in Hin. congruence.
    + exists aliased, given. split; assumption.
Qed.

Lemma run_fn_safe acts : forall s aliased given choices,
  linv s aliased given -> handoff_scan acts aliased given = true ->
  let '(s', ok, _) := run_fn s acts choices in ok = true /\ linv s' [] [].
Proof.
  induction acts as [|a t IH]; intros s aliased given choices I H.
  - cbn [handoff_scan] in H. destruct aliased; [|discriminate]. destruct given; [|discriminate].
    cbn. split; [reflexivity|assumption].
  - cbn [run_fn].
    set (cr := match a, choices with OReplace _ PoolGet, c :: rest => (c, rest) | _, _ => (None, choices) end).
    destruct cr as [c rest] eqn:Ecr.
    destruct (step_linv s a c aliased given t I H) as [Hw [al' [gi' [I' H']]]].
    specialize (IH (oact_step s a c) al' gi' rest I' H').
    destruct (run_fn (oact_step s a c) t rest) as [[s' ok'] rest'].
    destruct IH as [-> I'']. rewrite Hw. split; [reflexivity|assumption].
Qed.

Lemma oinit_linv : linv oinit [] [].
Proof.
  constructor; cbn; try (intros; contradiction); try (intros k; destruct k; lia).
  intros k k'. destruct k, k'; cbn; congruence.
Qed.

Lemma nth_own_ok n : forallb handoff_ok own_all = true -> handoff_ok (nth n own_all []) = true.
Proof.
  intros H. rewrite forallb_forall in H.
  destruct (Nat.lt_ge_cases n (length own_all)) as [Hl|Hg].
  - apply H. now apply nth_In.
  - rewrite nth_overflow by assumption. reflexivity.
Qed.

Lemma nth_path_ok n p : paths_ok own_paths = true -> handoff_ok (nth p (nth n own_paths []) []) = true.
Proof.
  intros H. unfold paths_ok in H. rewrite forallb_forall in H.
  destruct (Nat.lt_ge_cases n (length own_paths)) as [Hl|Hg].
  - pose proof (H _ (nth_In own_paths [] Hl)) as Hf. rewrite forallb_forall in Hf.
    destruct (Nat.lt_ge_cases p (length (nth n own_paths []))) as [Hl'|Hg'].
    + apply Hf. now apply nth_In.
    + rewrite nth_overflow by assumption. reflexivity.
  - rewrite (nth_overflow own_paths [] Hg). destruct p; reflexivity.
Qed.

Theorem no_write_after_handoff :
  forallb handoff_ok own_all = true ->
  paths_ok own_paths = true ->
  forall es, orun oinit es = true.
Proof.
  intros Hok Hpok es.
  assert (G : forall s, linv s [] [] -> orun s es = true).
  { induction es as [|e es IH]; intros s I; [reflexivity|]. cbn [orun].
    destruct e as [n choices|n p choices|id]; cbn [ostep].
    - pose proof (run_fn_safe (nth n own_all []) s [] [] choices I (nth_own_ok n Hok)) as H.
      destruct (run_fn s (nth n own_all []) choices) as [[s' ok] rest]. destruct H as [-> I'].
      cbn. now apply IH.
    - pose proof (run_fn_safe (nth p (nth n own_paths []) []) s [] [] choices I (nth_path_ok n p Hpok)) as H.
      destruct (run_fn s (nth p (nth n own_paths []) []) choices) as [[s' ok] rest]. destruct H as [-> I'].
      cbn. now apply IH.
    - destruct (mem id (consumer s)) eqn:Em; [|cbn; now apply IH].
      cbn. apply IH. apply mem_In in Em.
      constructor; cbn [cur outgoing consumer pool next_fresh].
      + intros k Hin. apply remove_id_In in Hin as [Hin _]. now apply (li_cons _ _ _ I).
      + apply (li_out _ _ _ I).
      + apply (li_inj _ _ _ I).
      + intros k [E|Hin]; [|now apply (li_pool _ _ _ I k)].
        assert (Hc : In (cur s k) (consumer s)) by (now rewrite <- E).
        apply (li_cons _ _ _ I) in Hc. exact Hc.
      + apply (li_cur_lt _ _ _ I).
      + intros x Hin. apply remove_id_In in Hin as [Hin _]. now apply (li_cons_lt _ _ _ I).
      + intros x [<-|Hin]; [now apply (li_cons_lt _ _ _ I)|now apply (li_pool_lt _ _ _ I)].
      + apply (li_out_lt _ _ _ I).
      + intros x [<-|Hin] Hc; apply remove_id_In in Hc as [Hc Hne]; [congruence|now apply (li_pc _ _ _ I x)].
      + intros x [<-|Hin]; [now apply (li_co _ _ _ I)|now apply (li_po _ _ _ I)].
      + intros x Hin. apply remove_id_In in Hin as [Hin _]. now apply (li_co _ _ _ I). }
  apply G. exact oinit_linv.
Qed.

(* the discipline holds of the functions translated from this source *)
Lemma own_all_ok : forallb handoff_ok own_all = true.
Proof. vm_compute. reflexivity. Qed.

Lemma own_paths_ok : paths_ok own_paths = true.
Proof. vm_compute. reflexivity. Qed.

Lemma own_paths_within : paths_within own_all own_paths = true.
Proof. vm_compute. reflexivity. Qed.

(* the invariant behind the theorem, exported: after any event sequence that ran safely the
   consumer holds none of the parser's current buffers - so whatever is called next, its writes
   are safe.  (Used for the converse direction below.) *)
Fixpoint ofinal (s : ost) (es : list oevent) : ost :=
  match es with [] => s | e :: t => ofinal (fst (ostep s e)) t end.

Lemma ofinal_linv : forallb handoff_ok own_all = true -> paths_ok own_paths = true ->
  forall es s, linv s [] [] -> linv (ofinal s es) [] [].
Proof.
  intros Hok Hpok es. induction es as [|e es IH]; intros s I; [exact I|].
  cbn [ofinal]. apply IH. destruct e as [n choices|n p choices|id]; cbn [ostep].
  - pose proof (run_fn_safe (nth n own_all []) s [] [] choices I (nth_own_ok n Hok)) as H.
    destruct (run_fn s (nth n own_all []) choices) as [[s' ok] rest]. cbn. apply H.
  - pose proof (run_fn_safe (nth p (nth n own_paths []) []) s [] [] choices I (nth_path_ok n p Hpok)) as H.
    destruct (run_fn s (nth p (nth n own_paths []) []) choices) as [[s' ok] rest]. cbn. apply H.
  - destruct (mem id (consumer s)) eqn:Em; [|exact I]. cbn. apply mem_In in Em.
    constructor; cbn [cur outgoing consumer pool next_fresh].
    + intros k Hin. apply remove_id_In in Hin as [Hin _]. now apply (li_cons _ _ _ I).
    + apply (li_out _ _ _ I).
    + apply (li_inj _ _ _ I).
    + intros k [E|Hin]; [|now apply (li_pool _ _ _ I k)].
      assert (Hc : In (cur s k) (consumer s)) by (now rewrite <- E).
      apply (li_cons _ _ _ I) in Hc. exact Hc.
    + apply (li_cur_lt _ _ _ I).
    + intros x Hin. apply remove_id_In in Hin as [Hin _]. now apply (li_cons_lt _ _ _ I).
    + intros x [<-|Hin]; [now apply (li_cons_lt _ _ _ I)|now apply (li_pool_lt _ _ _ I)].
    + apply (li_out_lt _ _ _ I).
    + intros x [<-|Hin] Hc; apply remove_id_In in Hc as [Hc Hne]; [congruence|now apply (li_pc _ _ _ I x)].
    + intros x [<-|Hin]; [now apply (li_co _ _ _ I)|now apply (li_po _ _ _ I)].
    + intros x Hin. apply remove_id_In in Hin as [Hin _]. now apply (li_co _ _ _ I).
Qed.

Theorem consumer_never_holds_current :
  forall es k, ~ In (cur (ofinal oinit es) k) (consumer (ofinal oinit es)).
Proof.
  intros es k Hin.
  pose proof (ofinal_linv own_all_ok own_paths_ok es oinit oinit_linv) as I.
  exact (li_cons _ _ _ I k Hin).
Qed.

(* the class of defect path-sensitivity is about: a path that aliases a buffer into a sequence,
   emits it and returns without re-pointing the field is rejected, and after it - from ANY
   state, for any buffer kind - the next write to that field hits a buffer the consumer holds *)
Theorem early_return_unsafe : forall (s : ost) (k : bkind) (choices : list (option Z)),
  handoff_ok [OAlias k; OEmit] = false /\
  (let '(s1, _, _) := run_fn s [OAlias k; OEmit] choices in write_safe s1 (OWrite k)) = false.
Proof.
  intros s k choices. split; [destruct k; reflexivity|].
  cbn [run_fn oact_step write_safe cur outgoing consumer pool next_fresh].
  destruct choices; cbn [write_safe cur consumer app mem existsb]; rewrite Z.eqb_refl; reflexivity.
Qed.
