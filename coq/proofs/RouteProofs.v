(* C15 — proofs about model/Route.v *)
From Coq Require Import Permutation Sorted.
From Vx Require Import base.Prelude base.ListX model.Route.
Local Open Scope Z_scope.

(* ================================================================ induction principles *)

Section TreeInd.
  Variable P : tree -> Prop.
  Hypothesis Hnode : forall w x y kids, Forall (fun k => P (k_tree k)) kids -> P (Node w x y kids).
  Fixpoint tree_ind' (t : tree) : P t :=
    match t with
    | Node w x y kids =>
        Hnode w x y kids
          ((fix go (ks : list (Z * Z * Z * tree)) : Forall (fun k => P (k_tree k)) ks :=
              match ks with
              | [] => Forall_nil _
              | k :: ks' => Forall_cons k (tree_ind' (k_tree k)) (go ks')
              end) kids)
    end.
End TreeInd.

Section CmdInd.
  Variable P : cmd -> Prop.
  Hypothesis Hnone : P CNone.
  Hypothesis Hleaf : forall c, (match c with CNone | CBatch _ _ => False | _ => True end) -> P c.
  Hypothesis Hbatch : forall b l, Forall P l -> P (CBatch b l).
  Fixpoint cmd_ind' (c : cmd) : P c :=
    match c with
    | CNone => Hnone
    | CBatch b l =>
        Hbatch b l ((fix go (l : list cmd) : Forall P l :=
                       match l with [] => Forall_nil _ | x :: l' => Forall_cons x (cmd_ind' x) (go l') end) l)
    | CRedraw => Hleaf CRedraw I | CRefresh => Hleaf CRefresh I | CQuit => Hleaf CQuit I
    | CConsume => Hleaf CConsume I | CDebug => Hleaf CDebug I
    | COut k n => Hleaf (COut k n) I | CFocus w => Hleaf (CFocus w) I
    end.
End CmdInd.

(* ================================================================ handle_cmd *)

Section Oracle.
Variable oracle : list entry -> wid -> event -> phase -> cmd.
Variable capturer : wid -> bool.

Notation handle_cmd := (handle_cmd oracle).
Notation call := (call oracle).
Notation calls := (calls oracle).
Notation route := (route oracle).
Notation focus_widget := (focus_widget oracle).

(* sequential composition of a ternary relation over a list of commands *)
Inductive seqP (P : core -> cmd -> core -> Prop) : core -> list cmd -> core -> Prop :=
| seqP_nil s : seqP P s [] s
| seqP_cons s x s1 l s2 : P s x s1 -> seqP P s1 l s2 -> seqP P s (x :: l) s2.

Definition is_plain_leaf (c : cmd) : Prop :=
  match c with CNone | CBatch _ _ | CFocus _ => False | _ => True end.

(* the one induction on fuel: everything else is derived from this principle *)
Lemma handle_cmd_rel (P : core -> cmd -> core -> Prop) :
  (forall s, P s CNone s) ->
  (forall s c, is_plain_leaf c -> P s c (apply_leaf s c)) ->
  (forall s b l s', seqP P s l s' -> P s (CBatch b l) s') ->
  (forall s w, focused s = w -> P s (CFocus w) (add_eff s (CFocus w))) ->
  (forall s w s1 s2, focused s <> w ->
     let s0 := add_eff s (CFocus w) in
     let r1 := oracle (log s0) (focused s0) EFocusOut Target in
     P (add_log s0 (focused s0, EFocusOut, Target, r1)) r1 s1 ->
     let s1' := set_focused s1 w in
     let r2 := oracle (log s1') w EFocusIn Target in
     P (add_log s1' (w, EFocusIn, Target, r2)) r2 s2 ->
     P s (CFocus w) s2) ->
  forall fuel s c s', handle_cmd fuel s c = Some s' -> P s c s'.
Proof.
  intros Hn Hl Hb Hfs Hf.
  induction fuel as [|f IH]; intros s c s' H; [discriminate|].
  destruct c; cbn [Route.handle_cmd] in H;
    try (injection H as <-; apply Hl; exact I).
  - injection H as <-. apply Hn.
  - (* focus *)
    cbn [focused add_eff] in H.
    destruct (focused s =? w) eqn:E.
    + injection H as <-. apply Hfs. lia.
    + match type of H with match ?X with _ => _ end = _ => destruct X as [s1|] eqn:E1; [|discriminate] end.
      eapply Hf; [lia| |].
      * apply IH. exact E1.
      * apply IH. exact H.
  - (* batch *)
    apply Hb. revert s H. induction l as [|x l IHl]; intros s H.
    + injection H as <-. constructor.
    + destruct (handle_cmd f s x) as [s1|] eqn:E1; [|discriminate].
      econstructor; [apply IH; exact E1|]. apply IHl. exact H.
Qed.

(* ---------------------------------------------------------------- extension of a core state *)

Definition ext4 (s s' : core) (d : list entry) (e : list cmd) : Prop :=
  log s' = log s ++ d /\ effs s' = effs s ++ e /\
  f_redraw s' = f_redraw s || existsb is_redraw e /\
  f_refresh s' = f_refresh s || existsb is_refresh e /\
  f_quit s' = f_quit s || existsb is_quit e /\
  f_debug s' = f_debug s || existsb is_debug e.

Definition ext (s s' : core) (d : list entry) (e : list cmd) : Prop :=
  ext4 s s' d e /\ f_consume s' = f_consume s || existsb is_consume e.

Lemma ext4_refl s : ext4 s s [] [].
Proof. unfold ext4; cbn; rewrite !app_nil_r, !orb_false_r; auto 10. Qed.

Lemma ext_refl s : ext s s [] [].
Proof. split; [apply ext4_refl|cbn; now rewrite orb_false_r]. Qed.

Lemma ext4_trans s1 s2 s3 d1 e1 d2 e2 :
  ext4 s1 s2 d1 e1 -> ext4 s2 s3 d2 e2 -> ext4 s1 s3 (d1 ++ d2) (e1 ++ e2).
Proof.
  intros (A1 & A2 & A3 & A4 & A5 & A6) (B1 & B2 & B3 & B4 & B5 & B6).
  unfold ext4. rewrite B1, B2, B3, B4, B5, B6, A1, A2, A3, A4, A5, A6.
  rewrite !existsb_app, !app_assoc, !orb_assoc. auto 10.
Qed.

Lemma ext_trans s1 s2 s3 d1 e1 d2 e2 :
  ext s1 s2 d1 e1 -> ext s2 s3 d2 e2 -> ext s1 s3 (d1 ++ d2) (e1 ++ e2).
Proof.
  intros (A & A') (B & B'). split; [eapply ext4_trans; eauto|].
  rewrite B', A', existsb_app, orb_assoc. reflexivity.
Qed.

Lemma ext_add_log s x : ext s (add_log s x) [x] [].
Proof. unfold ext, ext4; cbn; rewrite !app_nil_r, !orb_false_r; auto 10. Qed.

Lemma ext_add_eff_focus s w : ext s (add_eff s (CFocus w)) [] [CFocus w].
Proof. unfold ext, ext4; cbn; rewrite !app_nil_r, !orb_false_r; auto 10. Qed.

Lemma ext_set_focused s w : ext s (set_focused s w) [] [].
Proof. unfold ext, ext4; cbn; rewrite !app_nil_r, !orb_false_r; auto 10. Qed.

Lemma ext_apply_leaf s c : is_plain_leaf c -> ext s (apply_leaf s c) [] [c].
Proof.
  destruct c; cbn; intros H; try contradiction;
    unfold ext, ext4; cbn; rewrite ?app_nil_r, ?orb_false_r, ?orb_true_r; auto 10.
Qed.

Lemma ext4_set_consume s s' d e b : ext4 s s' d e -> ext4 s (set_consume s' b) d e.
Proof. unfold ext4; cbn; auto. Qed.

Lemma ext4_set_consume_l s s' d e b : ext4 s s' d e -> ext4 (set_consume s b) s' d e.
Proof. unfold ext4; cbn; auto. Qed.

Definition all_focus (d : list entry) : Prop := Forall (fun x => focus_entry x = true) d.

Lemma rets_app a b : rets (a ++ b) = rets a ++ rets b.
Proof. unfold rets. apply flat_map_app. Qed.

Lemma rets_cons x d : rets (x :: d) = leaves (e_ret x) ++ rets d.
Proof. reflexivity. Qed.

(* commands_once, local form: handling [c] appends to the log only deliveries made by
   focusWidget, and executes exactly the leaves of [c] and of the commands those deliveries
   returned, each once *)
Lemma handle_cmd_ext fuel s c s' :
  handle_cmd fuel s c = Some s' ->
  exists d e, ext s s' d e /\ all_focus d /\ Permutation e (leaves c ++ rets d).
Proof.
  revert fuel s c s'.
  apply (handle_cmd_rel (fun s c s' => exists d e, ext s s' d e /\ all_focus d /\ Permutation e (leaves c ++ rets d))).
  - intros s. exists [], []. split; [apply ext_refl|]. split; [constructor|constructor].
  - intros s c Hc. exists [], [c]. split; [apply ext_apply_leaf; exact Hc|]. split; [constructor|].
    destruct c; cbn in Hc; try contradiction; cbn; apply Permutation_refl.
  - intros s b l s' H. cbn [leaves].
    induction H as [s|s x s1 l s2 (d1 & e1 & X1 & F1 & P1) _ (d2 & e2 & X2 & F2 & P2)].
    + exists [], []. split; [apply ext_refl|]. split; constructor.
    + exists (d1 ++ d2), (e1 ++ e2). split; [eapply ext_trans; eauto|]. split; [apply Forall_app; auto|].
      cbn [flat_map]. rewrite rets_app.
      eapply Permutation_trans; [apply Permutation_app; eassumption|].
      rewrite <- !app_assoc. apply Permutation_app_head.
      rewrite !app_assoc. apply Permutation_app_tail. apply Permutation_app_comm.
  - intros s w _. exists [], [CFocus w]. split; [apply ext_add_eff_focus|]. split; [constructor|apply Permutation_refl].
  - intros s w s1 s2 _ s0 r1 (d1 & e1 & X1 & F1 & P1) s1' r2 (d2 & e2 & X2 & F2 & P2).
    exists (((focused s0, EFocusOut, Target, r1) :: d1) ++ ((w, EFocusIn, Target, r2) :: d2)),
           ([CFocus w] ++ e1 ++ e2).
    split.
    + pose proof (ext_trans _ _ _ _ _ _ _ (ext_add_eff_focus s w)
                    (ext_trans _ _ _ _ _ _ _ (ext_add_log s0 (focused s0, EFocusOut, Target, r1)) X1)) as Y1.
      pose proof (ext_trans _ _ _ _ _ _ _ (ext_set_focused s1 w)
                    (ext_trans _ _ _ _ _ _ _ (ext_add_log s1' (w, EFocusIn, Target, r2)) X2)) as Y2.
      pose proof (ext_trans _ _ _ _ _ _ _ Y1 Y2) as Y. cbn [app] in Y. cbn [app]. exact Y.
    + split.
      * apply Forall_app; split; constructor; auto.
      * cbn [leaves app]. apply perm_skip. rewrite rets_cons, rets_app, rets_cons. cbn [e_ret snd].
        rewrite app_assoc. apply Permutation_app; assumption.
Qed.

(* ---------------------------------------------------------------- one call, loops of calls *)

Lemma call_ext fuel s w ev ph s' :
  call fuel s w ev ph = Some s' ->
  let r := oracle (log s) w ev ph in
  exists d e, ext s s' ((w, ev, ph, r) :: d) e /\ all_focus d /\ Permutation e (rets ((w, ev, ph, r) :: d)).
Proof.
  intros H. cbv zeta. unfold Route.call in H. set (r := oracle (log s) w ev ph) in *.
  destruct (handle_cmd_ext _ _ _ _ H) as (d & e & X & F & P).
  exists d, e. split; [|split; [exact F|exact P]].
  pose proof (ext_trans _ _ _ _ _ _ _ (ext_add_log s (w, ev, ph, r)) X) as Y. exact Y.
Qed.

(* [seg l D]: D consists of the calls of l, in order, each followed by focus deliveries only *)
Inductive seg : list call3 -> list entry -> Prop :=
| seg_nil : seg [] []
| seg_cons w ev ph r nested l D :
    all_focus nested -> seg l D -> seg ((w, ev, ph) :: l) ((w, ev, ph, r) :: nested ++ D).

Lemma calls_ext fuel l : forall s s',
  calls fuel s l = Some s' ->
  exists D e, ext s s' D e /\ seg l D /\ Permutation e (rets D).
Proof.
  induction l as [|[[w ev] ph] l IH]; intros s s' H; cbn [Route.calls] in H.
  - injection H as <-. exists [], []. split; [apply ext_refl|]. split; constructor.
  - destruct (call fuel s w ev ph) as [s1|] eqn:E; [|discriminate]. cbn [obind] in H.
    destruct (call_ext _ _ _ _ _ _ E) as (d & e & X & F & P).
    destruct (IH _ _ H) as (D & e2 & X2 & S2 & P2).
    exists (((w, ev, ph, oracle (log s) w ev ph) :: d) ++ D), (e ++ e2).
    split; [eapply ext_trans; eauto|]. split.
    + cbn [app]. constructor; assumption.
    + rewrite rets_app. apply Permutation_app; assumption.
Qed.

(* [routedI l D b]: like seg, but the loop stops (b = true) after the first call during whose
   handling a ConsumeEventCmd was executed *)
Inductive routedI : list call3 -> list entry -> bool -> Prop :=
| RI_nil : routedI [] [] false
| RI_stop w ev ph r nested l :
    all_focus nested -> consuming (w, ev, ph, r) nested = true ->
    routedI ((w, ev, ph) :: l) ((w, ev, ph, r) :: nested) true
| RI_next w ev ph r nested l D b :
    all_focus nested -> consuming (w, ev, ph, r) nested = false -> routedI l D b ->
    routedI ((w, ev, ph) :: l) ((w, ev, ph, r) :: nested ++ D) b.

Lemma existsb_perm {A} (f : A -> bool) l l' : Permutation l l' -> existsb f l = existsb f l'.
Proof.
  induction 1; cbn; auto.
  - now rewrite IHPermutation.
  - destruct (f x), (f y); reflexivity.
  - congruence.
Qed.

Lemma route_ext fuel l : forall s s' b,
  f_consume s = false ->
  route fuel s l = Some (s', b) ->
  exists D e, ext4 s s' D e /\ f_consume s' = false /\ routedI l D b /\ Permutation e (rets D).
Proof.
  induction l as [|[[w ev] ph] l IH]; intros s s' b Hc H; cbn [Route.route] in H.
  - injection H as <- <-. exists [], []. split; [apply ext4_refl|]. split; [exact Hc|]. split; constructor.
  - destruct (call fuel s w ev ph) as [s1|] eqn:E; [|discriminate]. cbn [obind] in H.
    destruct (call_ext _ _ _ _ _ _ E) as (d & e & [X Xc] & F & P).
    rewrite Hc, orb_false_l in Xc.
    assert (Hcons : consuming (w, ev, ph, oracle (log s) w ev ph) d = f_consume s1).
    { unfold consuming. rewrite Xc. symmetry. apply existsb_perm. exact P. }
    destruct (f_consume s1) eqn:C.
    + injection H as <- <-. exists ((w, ev, ph, oracle (log s) w ev ph) :: d), e.
      split; [apply ext4_set_consume; exact X|]. split; [reflexivity|]. split; [|exact P].
      constructor; assumption.
    + destruct (IH _ _ _ C H) as (D & e2 & X2 & C2 & R2 & P2).
      exists (((w, ev, ph, oracle (log s) w ev ph) :: d) ++ D), (e ++ e2).
      split; [eapply ext4_trans; eauto|]. split; [exact C2|]. split.
      * cbn [app]. constructor; assumption.
      * rewrite rets_app. apply Permutation_app; assumption.
Qed.

Lemma routedI_app_false l1 l2 D1 D2 b :
  routedI l1 D1 false -> routedI l2 D2 b -> routedI (l1 ++ l2) (D1 ++ D2) b.
Proof.
  intros H. remember false as f eqn:Ef. revert Ef. induction H; intros Ef H2; try discriminate.
  - exact H2.
  - cbn [app]. rewrite <- app_assoc. constructor; auto.
Qed.

Lemma routedI_app_true l1 l2 D1 :
  routedI l1 D1 true -> routedI (l1 ++ l2) D1 true.
Proof.
  intros H. remember true as f eqn:Ef. revert Ef. induction H; intros Ef; try discriminate.
  - cbn [app]. constructor; auto.
  - cbn [app]. constructor; auto.
Qed.

(* ---------------------------------------------------------------- routedI implies the checker *)

Lemma event_eqb_refl e : event_eqb e e = true.
Proof. destruct e; cbn; rewrite ?Z.eqb_refl; reflexivity. Qed.

Lemma phase_eqb_refl p : phase_eqb p p = true.
Proof. destruct p; reflexivity. Qed.

Lemma event_eqb_eq a b : event_eqb a b = true -> a = b.
Proof.
  destruct a, b; cbn; intros H; try discriminate; try reflexivity.
  - apply Z.eqb_eq in H. congruence.
  - apply andb_true_iff in H as [H1 H2]. apply Z.eqb_eq in H1, H2. congruence.
Qed.

Lemma phase_eqb_eq a b : phase_eqb a b = true -> a = b.
Proof. destruct a, b; cbn; intros H; try discriminate; reflexivity. Qed.

Lemma span_focus_app nested rest :
  all_focus nested ->
  match rest with [] => True | x :: _ => focus_entry x = false end ->
  span_focus (nested ++ rest) = (nested, rest).
Proof.
  intros F Hr. induction F as [|x nested Hx F IH]; cbn [app].
  - destruct rest as [|x rest]; [reflexivity|]. cbn [span_focus]. now rewrite Hr.
  - cbn [span_focus]. rewrite Hx, IH. reflexivity.
Qed.

Definition seq_calls (ev : event) (seq : list (wid * phase)) : list call3 :=
  map (fun p => (fst p, ev, snd p)) seq.

Lemma routedI_head ev seq D b :
  is_focus_ev ev = false -> routedI (seq_calls ev seq) D b ->
  match D with [] => True | x :: _ => focus_entry x = false end.
Proof.
  intros Hev H. inversion H; subst; auto;
    destruct seq as [|[w0 p0] seq]; cbn in *; try discriminate;
    match goal with E : _ :: _ = _ :: _ |- _ => injection E as -> -> -> _ end;
    unfold focus_entry; cbn; now rewrite Hev.
Qed.

Lemma routedI_routed_b ev (Hev : is_focus_ev ev = false) : forall seq D b n,
  routedI (seq_calls ev seq) D b -> (length D < n)%nat -> routed_b n ev seq D = true.
Proof.
  induction seq as [|[w ph] seq IH]; intros D b n H Hn.
  - inversion H; subst. destruct n; [lia|reflexivity].
  - destruct n; [lia|]. cbn [seq_calls map fst snd] in H. inversion H; subst.
    + cbn [routed_b e_wid e_ev e_ph fst snd]. rewrite Z.eqb_refl, event_eqb_refl, phase_eqb_refl. cbn [andb].
      rewrite <- (app_nil_r nested) at 1. rewrite span_focus_app by (auto; exact I).
      match goal with Hc : consuming _ _ = true |- _ => rewrite Hc end. reflexivity.
    + cbn [routed_b e_wid e_ev e_ph fst snd]. rewrite Z.eqb_refl, event_eqb_refl, phase_eqb_refl. cbn [andb].
      match goal with Hr : routedI (map _ seq) _ _ |- _ => pose proof (routedI_head _ _ _ _ Hev Hr) as Hh end.
      rewrite span_focus_app by auto.
      match goal with Hc : consuming _ _ = false |- _ => rewrite Hc end.
      eapply IH; [eassumption|]. cbn [length] in Hn. rewrite app_length in Hn. lia.
Qed.

(* ---------------------------------------------------------------- who is focused *)

Lemma apply_leaf_log s c : log (apply_leaf s c) = log s.
Proof. destruct c; reflexivity. Qed.
Lemma apply_leaf_focused s c : focused (apply_leaf s c) = focused s.
Proof. destruct c; reflexivity. Qed.

Lemma handle_cmd_focused_same fuel s c s' :
  handle_cmd fuel s c = Some s' ->
  (length (log s) <= length (log s'))%nat /\
  (length (log s') = length (log s) -> focused s' = focused s).
Proof.
  revert fuel s c s'.
  apply (handle_cmd_rel (fun s c s' => (length (log s) <= length (log s'))%nat /\
                                      (length (log s') = length (log s) -> focused s' = focused s))).
  - intros s. split; auto.
  - intros s c _. rewrite apply_leaf_log, apply_leaf_focused. split; auto.
  - intros s b l s' H. induction H as [s|s x s1 l s2 [L1 F1] _ [L2 F2]].
    + split; auto.
    + split; [lia|]. intros E. rewrite F2 by lia. apply F1. lia.
  - intros s w _. cbn. split; auto.
  - intros s w s1 s2 _ s0 r1 [L1 _] s1' r2 [L2 _].
    cbn [add_log log s0 add_eff s1' set_focused] in L1, L2. rewrite app_length in L1, L2. cbn [length] in L1, L2.
    split; [lia|]. intros E. lia.
Qed.

Lemma all_focus_none d : all_focus d -> existsb focus_entry d = false -> d = [].
Proof.
  intros F E. destruct d as [|x d]; [reflexivity|]. inversion F as [|? ? Hx _]; subst.
  cbn in E. rewrite Hx in E. discriminate.
Qed.

Lemma call_focused_same fuel s w ev ph s' d :
  call fuel s w ev ph = Some s' ->
  log s' = log s ++ (w, ev, ph, oracle (log s) w ev ph) :: d -> d = [] -> focused s' = focused s.
Proof.
  unfold Route.call. intros H L ->.
  destruct (handle_cmd_focused_same _ _ _ _ H) as [_ F]. cbn [add_log log focused] in F.
  apply F. rewrite L. reflexivity.
Qed.

Lemma route_focused fuel l : forall s s' b D,
  f_consume s = false ->
  route fuel s l = Some (s', b) -> log s' = log s ++ D -> existsb focus_entry D = false ->
  focused s' = focused s.
Proof.
  induction l as [|[[w ev] ph] l IH]; intros s s' b D Hc H L E; cbn [Route.route] in H.
  - injection H as <- <-. reflexivity.
  - destruct (call fuel s w ev ph) as [s1|] eqn:E1; [|discriminate]. cbn [obind] in H.
    destruct (call_ext _ _ _ _ _ _ E1) as (d & e & [[X _] _] & F & _).
    destruct (f_consume s1) eqn:C.
    + injection H as <- <-. cbn [set_consume log focused] in *.
      rewrite X in L. apply app_inv_head in L. subst D.
      cbn [existsb] in E. apply orb_false_iff in E as [_ E].
      eapply call_focused_same; eauto. apply all_focus_none; auto.
    + destruct (route_ext _ _ _ _ _ C H) as (D2 & e2 & [X2 _] & _).
      rewrite X2, X, <- app_assoc in L. apply app_inv_head in L. subst D.
      cbn [app existsb] in E. apply orb_false_iff in E as [_ E]. rewrite existsb_app in E.
      apply orb_false_iff in E as [Ed ED].
      rewrite (IH _ _ _ _ C H X2 ED).
      eapply call_focused_same; eauto. apply all_focus_none; auto.
Qed.

(* ---------------------------------------------------------------- key_route_order *)

Lemma seq_calls_route_seq ev ws tgt :
  seq_calls ev (route_seq capturer ws tgt) =
  capture_calls capturer ev ws ++ [(tgt, ev, Target)] ++ bubble_calls ev ws.
Proof.
  unfold seq_calls, route_seq, capture_calls, bubble_calls.
  rewrite !map_app, !map_map. reflexivity.
Qed.

Definition same_outer (s s' : st) : Prop :=
  root s' = root s /\ path s' = path s /\ last_frame s' = last_frame s /\
  last_hits s' = last_hits s /\ mouse s' = mouse s.

(* three routing phases over fixed capture and bubble lists; the target is read after the
   capture phase *)
Lemma three_phase fuel c0 ev caps bubs (tgt_of : core -> wid) c' :
  f_consume c0 = false ->
  obind (route fuel c0 caps)
    (fun r1 => if snd r1 then Some (fst r1)
     else obind (route fuel (fst r1) [(tgt_of (fst r1), ev, Target)])
       (fun r2 => if snd r2 then Some (fst r2)
        else obind (route fuel (fst r2) bubs) (fun r3 => Some (fst r3)))) = Some c' ->
  exists D e tgt b,
    ext4 c0 c' D e /\ f_consume c' = false /\ Permutation e (rets D) /\
    routedI (caps ++ [(tgt, ev, Target)] ++ bubs) D b /\
    exists c1 b1 D1 D2, route fuel c0 caps = Some (c1, b1) /\ log c1 = log c0 ++ D1 /\
                        D = D1 ++ D2 /\ tgt = tgt_of c1.
Proof.
  intros Hc H.
  destruct (route fuel c0 caps) as [[c1 b1]|] eqn:E1; [|discriminate]. cbn [obind fst snd] in H.
  destruct (route_ext _ _ _ _ _ Hc E1) as (D1 & e1 & X1 & C1 & R1 & P1).
  destruct b1.
  { injection H as <-. exists D1, e1, (tgt_of c1), true.
    split; [exact X1|]. split; [exact C1|]. split; [exact P1|]. split.
    - apply routedI_app_true. exact R1.
    - exists c1, true, D1, []. rewrite app_nil_r. destruct X1 as [L _]. auto. }
  destruct (route fuel c1 [(tgt_of c1, ev, Target)]) as [[c2 b2]|] eqn:E2; [|discriminate]. cbn [obind fst snd] in H.
  destruct (route_ext _ _ _ _ _ C1 E2) as (D2 & e2 & X2 & C2 & R2 & P2).
  destruct b2.
  { injection H as <-. exists (D1 ++ D2), (e1 ++ e2), (tgt_of c1), true.
    split; [eapply ext4_trans; eauto|]. split; [exact C2|].
    split; [rewrite rets_app; apply Permutation_app; assumption|].
    split.
    - apply routedI_app_false; [exact R1|]. apply (routedI_app_true _ bubs) in R2. exact R2.
    - exists c1, false, D1, D2. destruct X1 as [L _]. auto. }
  destruct (route fuel c2 bubs) as [[c3 b3]|] eqn:E3; [|discriminate]. cbn [obind fst snd] in H.
  injection H as <-.
  destruct (route_ext _ _ _ _ _ C2 E3) as (D3 & e3 & X3 & C3 & R3 & P3).
  exists (D1 ++ D2 ++ D3), (e1 ++ e2 ++ e3), (tgt_of c1), b3.
  split; [eapply ext4_trans; [eauto|eapply ext4_trans; eauto]|]. split; [exact C3|].
  split; [rewrite !rets_app; repeat apply Permutation_app; assumption|].
  split.
  - apply routedI_app_false; [exact R1|]. apply routedI_app_false; assumption.
  - exists c1, false, D1, (D2 ++ D3). destruct X1 as [L _]. auto.
Qed.

Lemma set_consume_false_ext4 c : ext4 c (set_consume c false) [] [].
Proof. apply ext4_set_consume, ext4_refl. Qed.

(* key_route_order *)
Lemma key_route_order fuel s ev s' :
  focus_handle oracle capturer fuel s ev = Some s' ->
  exists D e tgt b,
    ext4 (co s) (co s') D e /\ f_consume (co s') = false /\ same_outer s s' /\
    Permutation e (rets D) /\
    routedI (seq_calls ev (route_seq capturer (path s) tgt)) D b /\
    (existsb focus_entry D = false -> tgt = focused (co s)).
Proof.
  unfold focus_handle. intros H.
  assert (H' : exists c', s' = with_co s c' /\
     obind (route fuel (set_consume (co s) false) (capture_calls capturer ev (path s)))
       (fun r1 => if snd r1 then Some (fst r1)
        else obind (route fuel (fst r1) [(focused (fst r1), ev, Target)])
          (fun r2 => if snd r2 then Some (fst r2)
           else obind (route fuel (fst r2) (bubble_calls ev (path s))) (fun r3 => Some (fst r3)))) = Some c').
  { destruct (route fuel (set_consume (co s) false) (capture_calls capturer ev (path s))) as [[c1 b1]|]; [|discriminate].
    cbn [obind fst snd] in *. destruct b1; [injection H as <-; eauto|].
    destruct (route fuel c1 [(focused c1, ev, Target)]) as [[c2 b2]|]; [|discriminate].
    cbn [obind fst snd] in *. destruct b2; [injection H as <-; eauto|].
    destruct (route fuel c2 (bubble_calls ev (path s))) as [[c3 b3]|]; [|discriminate].
    cbn [obind fst snd] in *. injection H as <-; eauto. }
  destruct H' as (c' & -> & H').
  destruct (three_phase _ _ _ _ _ _ _ (eq_refl : f_consume (set_consume (co s) false) = false) H')
    as (D & e & tgt & b & X & C & P & R & c1 & b1 & D1 & D2 & E1 & L1 & -> & ->).
  exists (D1 ++ D2), e, (focused c1), b. cbn [co with_co].
  split; [exact X|]. split; [exact C|].
  split; [unfold same_outer; cbn; auto|]. split; [exact P|].
  split; [rewrite seq_calls_route_seq; exact R|].
  intros E. rewrite existsb_app in E. apply orb_false_iff in E as [E _].
  change (focused c1 = focused (set_consume (co s) false)).
  eapply route_focused; [|exact E1|exact L1|exact E]. reflexivity.
Qed.

(* ---------------------------------------------------------------- mouse_route_order *)

(* the enter/leave notifications of mouseHandler.update *)
Definition hover_calls (old new : list hit) : list call3 :=
  map (fun h => (h_wid h, ELeave, Target)) (filter (fun h => negb (hit_mem h new)) old) ++
  map (fun h => (h_wid h, EEnter, Target)) (filter (fun h => negb (hit_mem h old)) new).

Lemma mouse_update_spec fuel s t s' :
  mouse_update oracle fuel s t = Some s' ->
  match mouse s with
  | None => s' = s
  | Some m =>
      exists D e, ext (co s) (co s') D e /\ seg (hover_calls (last_hits s) (hits_at t m)) D /\
                  Permutation e (rets D) /\ last_hits s' = hits_at t m /\
                  root s' = root s /\ path s' = path s /\ last_frame s' = last_frame s /\ mouse s' = mouse s
  end.
Proof.
  unfold mouse_update. destruct (mouse s) as [m|] eqn:Em; [|intros H; injection H as <-; reflexivity].
  intros H.
  match type of H with obind (Route.calls _ _ _ ?l) _ = _ => destruct (calls fuel (co s) l) as [c|] eqn:E; [|discriminate] end.
  cbn [obind] in H. injection H as <-.
  destruct (calls_ext _ _ _ _ E) as (D & e & X & S & P).
  exists D, e. cbn. rewrite Em. repeat split; auto; apply X.
Qed.

Lemma ext_ext4 s s' d e : ext s s' d e -> ext4 s s' d e.
Proof. intros [H _]. exact H. Qed.

Lemma mouse_route_order fuel s c r s' :
  mouse_handle oracle capturer fuel s c r = Some s' ->
  exists Dh Dr e b,
    ext4 (co s) (co s') (Dh ++ Dr) e /\ Permutation e (rets (Dh ++ Dr)) /\
    seg (hover_calls (last_hits s) (hits_at (last_frame s) (c, r))) Dh /\
    last_hits s' = hits_at (last_frame s) (c, r) /\ mouse s' = Some (c, r) /\
    root s' = root s /\ path s' = path s /\ last_frame s' = last_frame s /\
    match map h_wid (hits_at (last_frame s) (c, r)) with
    | [] => Dr = []
    | ws => routedI (seq_calls (EMouse c r) (route_seq capturer ws (last ws 0))) Dr b /\ f_consume (co s') = false
    end.
Proof.
  unfold mouse_handle. intros H.
  destruct (mouse_update oracle fuel (with_mouse s (Some (c, r))) (last_frame s)) as [s1|] eqn:E1; [|discriminate].
  cbn [obind] in H.
  pose proof (mouse_update_spec _ _ _ _ E1) as U. cbn [mouse with_mouse] in U.
  destruct U as (Dh & eh & Xh & Sh & Ph & Lh & Rh & Pa & Fr & Mo).
  cbn [co last_hits root path last_frame with_mouse] in *.
  rewrite <- Lh.
  destruct (last_hits s1) as [|h0 hs] eqn:EL.
  - injection H as <-. exists Dh, [], eh, false. rewrite app_nil_r.
    split; [apply ext_ext4; exact Xh|]. split; [exact Ph|]. split; [rewrite <- Lh in Sh; exact Sh|].
    split; [exact EL|]. split; [exact Mo|]. split; [exact Rh|]. split; [exact Pa|]. split; [exact Fr|].
    reflexivity.
  - assert (H' : exists c', s' = with_co s1 c' /\
      obind (route fuel (set_consume (co s1) false) (capture_calls capturer (EMouse c r) (map h_wid (h0 :: hs))))
        (fun r1 => if snd r1 then Some (fst r1)
         else obind (route fuel (fst r1) [((fun _ => last (map h_wid (h0 :: hs)) 0) (fst r1), EMouse c r, Target)])
           (fun r2 => if snd r2 then Some (fst r2)
            else obind (route fuel (fst r2) (bubble_calls (EMouse c r) (map h_wid (h0 :: hs)))) (fun r3 => Some (fst r3)))) = Some c').
    { cbv beta.
      destruct (route fuel (set_consume (co s1) false) (capture_calls capturer (EMouse c r) (map h_wid (h0 :: hs)))) as [[c1 b1]|]; [|discriminate].
      cbn [obind fst snd] in *. destruct b1; [injection H as <-; eauto|].
      destruct (route fuel c1 [(last (map h_wid (h0 :: hs)) 0, EMouse c r, Target)]) as [[c2 b2]|]; [|discriminate].
      cbn [obind fst snd] in *. destruct b2; [injection H as <-; eauto|].
      destruct (route fuel c2 (bubble_calls (EMouse c r) (map h_wid (h0 :: hs)))) as [[c3 b3]|]; [|discriminate].
      cbn [obind fst snd] in *. injection H as <-; eauto. }
    destruct H' as (c' & -> & H').
    destruct (three_phase fuel (set_consume (co s1) false) (EMouse c r) _ _
                (fun _ => last (map h_wid (h0 :: hs)) 0) c' eq_refl H')
      as (D & e & tgt & b & X & C & P & R & c1 & b1 & D1 & D2 & _ & _ & _ & ->).
    exists Dh, D, (eh ++ e), b. cbn [co with_co last_hits mouse root path last_frame].
    split; [eapply ext4_trans; [apply ext_ext4; exact Xh|exact X]|].
    split; [rewrite rets_app; apply Permutation_app; assumption|].
    split; [rewrite <- Lh in Sh; exact Sh|]. split; [exact EL|]. split; [exact Mo|].
    split; [exact Rh|]. split; [exact Pa|]. split; [exact Fr|].
    cbn [map]. cbn [map] in R. split; [|exact C]. rewrite seq_calls_route_seq. exact R.
Qed.

(* ---------------------------------------------------------------- a relation kept by every call
   is kept by every input *)

Section Kept.
  Variable K : core -> core -> Prop.
  Variable okev : event -> Prop.
  Variable okcmd : cmd -> Prop.
  Hypothesis Krefl : forall c, K c c.
  Hypothesis Ktrans : forall a b c, K a b -> K b c -> K a c.
  Hypothesis Kcall : forall fuel c w ev ph c', okev ev -> call fuel c w ev ph = Some c' -> K c c'.
  Hypothesis Kcmd : forall fuel c x c', okcmd x -> handle_cmd fuel c x = Some c' -> K c c'.
  Hypothesis Kflag : forall c b, K c (set_consume c b) /\ K c (set_redraw c b) /\ K c (set_refresh c b) /\ K c (set_debug c b).
  Hypothesis Kfocusset : forall fuel c w c1 c',
     call fuel c (focused c) EFocusOut Target = Some c1 ->
     call fuel (set_focused c1 w) w EFocusIn Target = Some c' -> focused c <> w -> K c c'.

  Let Kc c b : K c (set_consume c b) := proj1 (Kflag c b).
  Let Kr c b : K c (set_redraw c b) := proj1 (proj2 (Kflag c b)).
  Let Kf c b : K c (set_refresh c b) := proj1 (proj2 (proj2 (Kflag c b))).
  Let Kd c b : K c (set_debug c b) := proj2 (proj2 (proj2 (Kflag c b))).

  Lemma K_calls fuel l : forall c c', Forall (fun x => okev (snd (fst x))) l -> calls fuel c l = Some c' -> K c c'.
  Proof.
    induction l as [|[[w ev] ph] l IH]; intros c c' F H; cbn [Route.calls] in H.
    - injection H as <-. apply Krefl.
    - destruct (call fuel c w ev ph) as [c1|] eqn:E; [|discriminate]. cbn [obind] in H.
      inversion F; subst. eapply Ktrans; [eapply Kcall; eauto|]. apply IH; auto.
  Qed.

  Lemma K_route fuel l : forall c c' b, Forall (fun x => okev (snd (fst x))) l -> route fuel c l = Some (c', b) -> K c c'.
  Proof.
    induction l as [|[[w ev] ph] l IH]; intros c c' b F H; cbn [Route.route] in H.
    - injection H as <- <-. apply Krefl.
    - destruct (call fuel c w ev ph) as [c1|] eqn:E; [|discriminate]. cbn [obind] in H.
      inversion F; subst. eapply Ktrans; [eapply Kcall; eauto|].
      destruct (f_consume c1).
      + injection H as <- <-. apply Kc.
      + eapply IH; eauto.
  Qed.

  Lemma K_three fuel c0 ev caps bubs (tgt_of : core -> wid) c' :
    okev ev -> Forall (fun x => okev (snd (fst x))) caps -> Forall (fun x => okev (snd (fst x))) bubs ->
    obind (route fuel c0 caps)
      (fun r1 => if snd r1 then Some (fst r1)
       else obind (route fuel (fst r1) [(tgt_of (fst r1), ev, Target)])
         (fun r2 => if snd r2 then Some (fst r2)
          else obind (route fuel (fst r2) bubs) (fun r3 => Some (fst r3)))) = Some c' ->
    K c0 c'.
  Proof.
    intros Hev Fc Fb H.
    destruct (route fuel c0 caps) as [[c1 b1]|] eqn:E1; [|discriminate]. cbn [obind fst snd] in H.
    pose proof (K_route _ _ _ _ _ Fc E1) as K1.
    destruct b1; [injection H as <-; exact K1|].
    destruct (route fuel c1 [(tgt_of c1, ev, Target)]) as [[c2 b2]|] eqn:E2; [|discriminate]. cbn [obind fst snd] in H.
    assert (K2 : K c1 c2) by (eapply K_route; [|exact E2]; repeat constructor; exact Hev).
    destruct b2; [injection H as <-; eapply Ktrans; eauto|].
    destruct (route fuel c2 bubs) as [[c3 b3]|] eqn:E3; [|discriminate]. cbn [obind fst snd] in H.
    injection H as <-. eapply Ktrans; [exact K1|]. eapply Ktrans; [exact K2|]. eapply K_route; eauto.
  Qed.

  Lemma Forall_map_ev {A} (f : A -> wid) ev ph (l : list A) :
    okev ev -> Forall (fun x : call3 => okev (snd (fst x))) (map (fun a => (f a, ev, ph)) l).
  Proof. intros H. induction l; cbn; constructor; auto. Qed.

  Lemma K_focus_handle fuel s ev s' :
    okev ev -> focus_handle oracle capturer fuel s ev = Some s' -> K (co s) (co s').
  Proof.
    intros Hev H. unfold focus_handle in H.
    eapply Ktrans; [apply (Kc (co s) false)|].
    assert (H' : exists c', co s' = c' /\
       obind (route fuel (set_consume (co s) false) (capture_calls capturer ev (path s)))
         (fun r1 => if snd r1 then Some (fst r1)
          else obind (route fuel (fst r1) [(focused (fst r1), ev, Target)])
            (fun r2 => if snd r2 then Some (fst r2)
             else obind (route fuel (fst r2) (bubble_calls ev (path s))) (fun r3 => Some (fst r3)))) = Some c').
    { destruct (route fuel (set_consume (co s) false) (capture_calls capturer ev (path s))) as [[c1 b1]|]; [|discriminate].
      cbn [obind fst snd] in *. destruct b1; [injection H as <-; eauto|].
      destruct (route fuel c1 [(focused c1, ev, Target)]) as [[c2 b2]|]; [|discriminate].
      cbn [obind fst snd] in *. destruct b2; [injection H as <-; eauto|].
      destruct (route fuel c2 (bubble_calls ev (path s))) as [[c3 b3]|]; [|discriminate].
      cbn [obind fst snd] in *. injection H as <-; eauto. }
    destruct H' as (c' & -> & H').
    eapply K_three; [exact Hev| | |exact H']; apply Forall_map_ev; exact Hev.
  Qed.

  Hypothesis ok_hover : okev EEnter /\ okev ELeave.
  Hypothesis ok_mouse : forall c r, okev (EMouse c r).
  Hypothesis ok_init : okev EInit.

  Lemma K_mouse_update fuel s t s' : mouse_update oracle fuel s t = Some s' -> K (co s) (co s').
  Proof.
    unfold mouse_update. destruct (mouse s); [|intros H; injection H as <-; apply Krefl].
    intros H.
    match type of H with obind (Route.calls _ _ _ ?l) _ = _ => destruct (calls fuel (co s) l) as [c|] eqn:E; [|discriminate] end.
    cbn [obind] in H. injection H as <-. cbn [co with_co with_hits].
    eapply K_calls; [|exact E]. apply Forall_app; split; apply Forall_map_ev; apply ok_hover.
  Qed.

  Lemma K_mouse_exit fuel s s' : mouse_exit oracle fuel s = Some s' -> K (co s) (co s').
  Proof.
    unfold mouse_exit. intros H.
    match type of H with obind (Route.calls _ _ _ ?l) _ = _ => destruct (calls fuel (co s) l) as [c|] eqn:E; [|discriminate] end.
    cbn [obind] in H. injection H as <-. cbn [co with_co with_hits].
    eapply K_calls; [|exact E]. apply Forall_map_ev; apply ok_hover.
  Qed.

  Lemma K_mouse_handle fuel s c r s' : mouse_handle oracle capturer fuel s c r = Some s' -> K (co s) (co s').
  Proof.
    unfold mouse_handle. intros H.
    destruct (mouse_update oracle fuel (with_mouse s (Some (c, r))) (last_frame s)) as [s1|] eqn:E1; [|discriminate].
    cbn [obind] in H. pose proof (K_mouse_update _ _ _ _ E1) as K1. cbn [co with_mouse] in K1.
    eapply Ktrans; [exact K1|].
    destruct (last_hits s1) as [|h0 hs]; [injection H as <-; apply Krefl|].
    eapply Ktrans; [apply (Kc (co s1) false)|].
    assert (H' : exists c', co s' = c' /\
      obind (route fuel (set_consume (co s1) false) (capture_calls capturer (EMouse c r) (map h_wid (h0 :: hs))))
        (fun r1 => if snd r1 then Some (fst r1)
         else obind (route fuel (fst r1) [((fun _ => last (map h_wid (h0 :: hs)) 0) (fst r1), EMouse c r, Target)])
           (fun r2 => if snd r2 then Some (fst r2)
            else obind (route fuel (fst r2) (bubble_calls (EMouse c r) (map h_wid (h0 :: hs)))) (fun r3 => Some (fst r3)))) = Some c').
    { cbv beta.
      destruct (route fuel (set_consume (co s1) false) (capture_calls capturer (EMouse c r) (map h_wid (h0 :: hs)))) as [[c1 b1]|]; [|discriminate].
      cbn [obind fst snd] in *. destruct b1; [injection H as <-; eauto|].
      destruct (route fuel c1 [(last (map h_wid (h0 :: hs)) 0, EMouse c r, Target)]) as [[c2 b2]|]; [|discriminate].
      cbn [obind fst snd] in *. destruct b2; [injection H as <-; eauto|].
      destruct (route fuel c2 (bubble_calls (EMouse c r) (map h_wid (h0 :: hs)))) as [[c3 b3]|]; [|discriminate].
      cbn [obind fst snd] in *. injection H as <-; eauto. }
    destruct H' as (c' & -> & H').
    eapply (K_three fuel _ (EMouse c r) _ _ (fun _ => last (map h_wid (h0 :: hs)) 0));
      [apply ok_mouse| | |exact H']; apply Forall_map_ev; apply ok_mouse.
  Qed.

  Lemma K_focus_widget fuel c w c' : focus_widget fuel c w = Some c' -> K c c'.
  Proof.
    unfold Route.focus_widget. destruct (focused c =? w) eqn:E; [intros H; injection H as <-; apply Krefl|].
    intros H. destruct (call fuel c (focused c) EFocusOut Target) as [c1|] eqn:E1; [|discriminate].
    cbn [obind] in H. eapply Kfocusset; eauto. lia.
  Qed.

  Lemma K_update_path fuel s t s' : update_path oracle fuel s t = Some s' -> K (co s) (co s').
  Proof.
    unfold update_path. destruct (child_has_focus t (focused (co s))).
    - intros H; injection H as <-. apply Krefl.
    - intros H. destruct (focus_widget fuel (co s) (root s)) as [c|] eqn:E; [|discriminate].
      cbn [obind] in H. injection H as <-. cbn. eapply K_focus_widget; eauto.
  Qed.

  Lemma K_frame fuel s t s' : frame oracle fuel s t = Some s' -> K (co s) (co s').
  Proof.
    unfold frame. destruct (negb (f_redraw (co s))); [intros H; injection H as <-; apply Krefl|].
    intros H.
    destruct (mouse_update oracle fuel (with_co s (set_redraw (co s) false)) t) as [s1|] eqn:E1; [|discriminate].
    cbn [obind] in H.
    match type of H with obind (update_path _ _ ?s2 _) _ = _ => destruct (update_path oracle fuel s2 (sort_tree t)) as [s3|] eqn:E3; [|discriminate] end.
    cbn [obind] in H. injection H as <-. cbn [co with_frame].
    apply K_mouse_update in E1. apply K_update_path in E3. cbn [co with_co] in E1, E3.
    eapply Ktrans; [apply (Kr (co s) false)|]. eapply Ktrans; [exact E1|].
    eapply Ktrans; [|exact E3].
    eapply Ktrans; [apply (Kr (co s1) false)|]. eapply Ktrans; [apply Kf|]. apply Kd.
  Qed.

  Definition input_ok (i : input) : Prop := match i with IEv e => okev e | PCmd c => okcmd c | _ => True end.

  Lemma K_step fuel s i s' : input_ok i -> step oracle capturer fuel s i = Some s' -> K (co s) (co s').
  Proof.
    intros Hi H. destruct i; cbn [step] in H.
    - eapply K_focus_handle; eauto.
    - eapply K_mouse_handle; eauto.
    - destruct (call fuel (co s) (root s) EEnter Target) as [c|] eqn:E; [|discriminate].
      cbn [obind] in H. injection H as <-. cbn. eapply Kcall; [|exact E]. apply ok_hover.
    - apply K_mouse_exit in H. exact H.
    - injection H as <-. cbn. apply Kr.
    - eapply K_frame; eauto.
    - destruct (focus_handle oracle capturer fuel s EInit) as [s1|] eqn:E; [|discriminate].
      cbn [obind] in H. injection H as <-. cbn. eapply K_focus_handle; [|exact E]. apply ok_init.
    - eapply K_mouse_update; eauto.
    - eapply K_update_path; eauto.
    - injection H as <-. apply Krefl.
    - destruct (update_path oracle fuel s (sort_tree t)) as [s1|] eqn:E; [|discriminate].
      cbn [obind] in H. injection H as <-. cbn. eapply K_update_path; eauto.
    - eapply K_mouse_exit; eauto.
    - injection H as <-. apply Krefl.
    - destruct (focus_widget fuel (co s) w) as [c|] eqn:E; [|discriminate].
      cbn [obind] in H. injection H as <-. cbn. eapply K_focus_widget; eauto.
    - destruct (handle_cmd fuel (co s) c) as [c'|] eqn:E; [|discriminate].
      cbn [obind] in H. injection H as <-. cbn. eapply Kcmd; eauto.
  Qed.

  Lemma K_run fuel l : forall s s', Forall input_ok l -> run oracle capturer fuel s l = Some s' -> K (co s) (co s').
  Proof.
    induction l as [|i l IH]; intros s s' F H; cbn [run] in H.
    - injection H as <-. apply Krefl.
    - destruct (step oracle capturer fuel s i) as [s1|] eqn:E; [|discriminate]. cbn [obind] in H.
      inversion F; subst. pose proof (K_step _ _ _ _ H2 E) as K1.
      destruct (negb (is_tick i) && f_quit (co s1)).
      + injection H as <-. exact K1.
      + eapply Ktrans; [exact K1|]. apply IH; auto.
  Qed.
End Kept.

(* ---------------------------------------------------------------- commands_once, history form *)

Definition K_cmds (c c' : core) : Prop :=
  exists D e, log c' = log c ++ D /\ effs c' = effs c ++ e /\ Permutation e (rets D).

Lemma K_cmds_refl c : K_cmds c c.
Proof. exists [], []. rewrite !app_nil_r. repeat split; constructor. Qed.

Lemma K_cmds_trans a b c : K_cmds a b -> K_cmds b c -> K_cmds a c.
Proof.
  intros (D1 & e1 & L1 & E1 & P1) (D2 & e2 & L2 & E2 & P2).
  exists (D1 ++ D2), (e1 ++ e2). rewrite L2, E2, L1, E1, !app_assoc. repeat split.
  rewrite rets_app. apply Permutation_app; assumption.
Qed.

Lemma K_cmds_of_ext c c' D e : ext c c' D e -> Permutation e (rets D) -> K_cmds c c'.
Proof. intros [(L & E & _) _] P. exists D, e. auto. Qed.

Lemma commands_once_run fuel l s s' :
  Forall (fun i => match i with PCmd _ => False | _ => True end) l ->
  run oracle capturer fuel s l = Some s' -> K_cmds (co s) (co s').
Proof.
  intros F. eapply (K_run K_cmds (fun _ => True) (fun _ => False)).
  - apply K_cmds_refl.
  - apply K_cmds_trans.
  - intros fu c w ev ph c' _ H. destruct (call_ext _ _ _ _ _ _ H) as (d & e & X & _ & P).
    eapply K_cmds_of_ext; eauto.
  - intros fu c x c' [].
  - intros c b. repeat split; exists [], []; cbn; rewrite !app_nil_r; repeat split; constructor.
  - intros fu c w c1 c' H1 H2 _.
    destruct (call_ext _ _ _ _ _ _ H1) as (d1 & e1 & X1 & _ & P1).
    destruct (call_ext _ _ _ _ _ _ H2) as (d2 & e2 & X2 & _ & P2).
    eapply K_cmds_trans; [eapply K_cmds_of_ext; eauto|].
    eapply K_cmds_trans; [|eapply K_cmds_of_ext; eauto].
    exists [], []. cbn. rewrite !app_nil_r. repeat split; constructor.
  - split; exact I.
  - intros; exact I.
  - exact I.
  - eapply Forall_impl; [|exact F]. intros i Hi. destruct i; cbn; auto.
Qed.

(* ---------------------------------------------------------------- focus_change_once *)

Lemma focus_chain_app : forall n l1 l2 f g,
  (length l1 <= n)%nat -> focus_chain f l1 = Some g -> focus_chain f (l1 ++ l2) = focus_chain g l2.
Proof.
  induction n as [|n IH]; intros l1 l2 f g Hn H.
  - destruct l1; [|cbn in Hn; lia]. cbn in H. injection H as ->. reflexivity.
  - destruct l1 as [|[a ea] l1]; [cbn in H; injection H as ->; reflexivity|].
    destruct ea; try discriminate.
    destruct l1 as [|[b eb] l1]; [discriminate|]. destruct eb; try discriminate.
    cbn [focus_chain app] in *. destruct ((a =? f) && negb (b =? f)); [|discriminate].
    apply IH; auto. cbn in Hn. lia.
Qed.

Lemma focus_log_app a b : focus_log (a ++ b) = focus_log a ++ focus_log b.
Proof. unfold focus_log. now rewrite filter_app, map_app. Qed.

Lemma focus_log_nonfocus x d : is_focus_ev (e_ev x) = false -> focus_log (x :: d) = focus_log d.
Proof. unfold focus_log. cbn [filter]. intros ->. reflexivity. Qed.

Definition K_chain (c c' : core) : Prop :=
  exists D, log c' = log c ++ D /\ focus_chain (focused c) (focus_log D) = Some (focused c').

Lemma K_chain_refl c : K_chain c c.
Proof. exists []. rewrite app_nil_r. split; reflexivity. Qed.

Lemma K_chain_trans a b c : K_chain a b -> K_chain b c -> K_chain a c.
Proof.
  intros (D1 & L1 & C1) (D2 & L2 & C2). exists (D1 ++ D2). rewrite L2, L1, app_assoc. split; [reflexivity|].
  rewrite focus_log_app. erewrite focus_chain_app; eauto.
Qed.

(* the guard of the finding "focus-in-focusout": no handler answers a FocusOut with a
   command that contains a FocusWidgetCmd *)
Definition no_focus_from_focusout : Prop :=
  forall lg w ph, existsb is_focus_cmd (leaves (oracle lg w EFocusOut ph)) = false.

Lemma no_focus_cmd_same fuel s c s' :
  handle_cmd fuel s c = Some s' -> existsb is_focus_cmd (leaves c) = false ->
  log s' = log s /\ focused s' = focused s.
Proof.
  revert fuel s c s'.
  apply (handle_cmd_rel (fun s c s' => existsb is_focus_cmd (leaves c) = false -> log s' = log s /\ focused s' = focused s)).
  - auto.
  - intros s c _ _. rewrite apply_leaf_log, apply_leaf_focused. auto.
  - intros s b l s' H. cbn [leaves]. induction H as [s|s x s1 l s2 H1 _ IH]; [auto|].
    cbn [flat_map]. rewrite existsb_app. intros E. apply orb_false_iff in E as [E1 E2].
    destruct (H1 E1) as [L1 F1]. destruct (IH E2) as [L2 F2]. split; congruence.
  - intros s w _ E. discriminate.
  - intros s w s1 s2 _ s0 r1 _ s1' r2 _ E. discriminate.
Qed.

Lemma handle_cmd_chain (G : no_focus_from_focusout) fuel s c s' :
  handle_cmd fuel s c = Some s' -> K_chain s s'.
Proof.
  intros H.
  enough (K_chain s s' /\ (existsb is_focus_cmd (leaves c) = false -> log s' = log s /\ focused s' = focused s)) by tauto.
  revert fuel s c s' H.
  apply (handle_cmd_rel (fun s c s' => K_chain s s' /\
           (existsb is_focus_cmd (leaves c) = false -> log s' = log s /\ focused s' = focused s))).
  - intros; split; [apply K_chain_refl|auto].
  - intros s c _. split; [|rewrite apply_leaf_log, apply_leaf_focused; auto].
    exists []. rewrite app_nil_r, apply_leaf_log, apply_leaf_focused. split; reflexivity.
  - intros s b l s' H. cbn [leaves]. induction H as [s|s x s1 l s2 [K1 N1] _ [K2 N2]].
    + split; [apply K_chain_refl|auto].
    + split; [eapply K_chain_trans; eauto|].
      cbn [flat_map]. rewrite existsb_app. intros E. apply orb_false_iff in E as [E1 E2].
      destruct (N1 E1) as [L1 F1]. destruct (N2 E2) as [L2 F2]. split; congruence.
  - intros s w _. split; [|discriminate]. exists []. cbn. rewrite app_nil_r. split; reflexivity.
  - intros s w s1 s2 Hne s0 r1 [_ N1] s1' r2 [(D2 & L2 & C2) _]. split; [|discriminate].
    destruct (N1 (G _ _ _)) as [L1 F1].
    cbn [focused s0 add_eff add_log log set_focused s1'] in *.
    exists ([(focused s, EFocusOut, Target, r1)] ++ (w, EFocusIn, Target, r2) :: D2).
    split; [rewrite L2, L1, <- !app_assoc; reflexivity|].
    cbn [app focus_log filter e_ev fst snd is_focus_ev map e_wid focus_chain].
    rewrite Z.eqb_refl. cbn [andb].
    assert (Hw : (w =? focused s) = false) by lia. rewrite Hw. cbn [negb]. exact C2.
Qed.

Lemma call_chain (G : no_focus_from_focusout) fuel c w ev ph c' :
  is_focus_ev ev = false -> call fuel c w ev ph = Some c' -> K_chain c c'.
Proof.
  unfold Route.call. intros Hev H. destruct (handle_cmd_chain G _ _ _ _ H) as (D & L & C).
  cbn [add_log log focused] in *. exists ((w, ev, ph, oracle (log c) w ev ph) :: D).
  split; [rewrite L, <- app_assoc; reflexivity|]. rewrite focus_log_nonfocus by exact Hev. exact C.
Qed.

Lemma focus_change_once_run (G : no_focus_from_focusout) fuel l s s' :
  Forall (fun i => match i with IEv e => is_focus_ev e = false | _ => True end) l ->
  run oracle capturer fuel s l = Some s' -> K_chain (co s) (co s').
Proof.
  intros F. eapply (K_run K_chain (fun ev => is_focus_ev ev = false) (fun _ => True)).
  - apply K_chain_refl.
  - apply K_chain_trans.
  - intros; eapply call_chain; eauto.
  - intros; eapply handle_cmd_chain; eauto.
  - intros c b. repeat split; exists []; cbn; rewrite app_nil_r; split; reflexivity.
  - intros fu c w c1 c' H1 H2 Hne.
    (* this is focusWidget: the same steps as a CFocus command without the effect record *)
    unfold Route.call in H1, H2.
    pose proof (no_focus_cmd_same _ _ _ _ H1 (G _ _ _)) as [L1 F1].
    destruct (handle_cmd_chain G _ _ _ _ H2) as (D2 & L2 & C2).
    cbn [add_log log focused set_focused] in *.
    exists ([(focused c, EFocusOut, Target, oracle (log c) (focused c) EFocusOut Target)] ++
            (w, EFocusIn, Target, oracle (log c1) w EFocusIn Target) :: D2).
    split; [rewrite L2, L1, <- !app_assoc; reflexivity|].
    cbn [app focus_log filter e_ev fst snd is_focus_ev map e_wid focus_chain].
    rewrite Z.eqb_refl. cbn [andb].
    assert (Hw : (w =? focused c) = false) by lia. rewrite Hw. cbn [negb]. exact C2.
  - split; reflexivity.
  - reflexivity.
  - reflexivity.
  - eapply Forall_impl; [|exact F]. intros i Hi. destruct i; cbn; auto.
Qed.

(* ---------------------------------------------------------------- updatePath *)

Inductive is_path : tree -> list wid -> Prop :=
| path_here t : is_path t [t_wid t]
| path_kid w x y kids k l : In k kids -> is_path (k_tree k) l -> is_path (Node w x y kids) (w :: l).

Lemma child_has_focus_chain_to t f :
  child_has_focus t f = option_map (@rev wid) (chain_to t f).
Proof.
  induction t as [w x y kids IH] using tree_ind'. cbn [child_has_focus chain_to].
  destruct (w =? f); [reflexivity|].
  match goal with |- match ?A with _ => _ end = option_map _ (option_map _ ?B) =>
    assert (E : A = option_map (@rev wid) B) end.
  { induction IH as [|k kids Hk _ IHk]; [reflexivity|].
    rewrite Hk. destruct (chain_to (k_tree k) f); cbn [option_map]; [reflexivity|exact IHk]. }
  rewrite E. match goal with |- context [option_map (cons w) ?B] => destruct B end; cbn; reflexivity.
Qed.

Lemma chain_to_path t f l :
  chain_to t f = Some l -> is_path t l /\ last l 0 = f /\ hd 0 l = t_wid t.
Proof.
  revert l. induction t as [w x y kids IH] using tree_ind'. intros l. cbn [chain_to].
  destruct (w =? f) eqn:E.
  - intros H; injection H as <-. split; [apply (path_here (Node w x y kids))|]. cbn. split; [lia|reflexivity].
  - match goal with |- option_map _ ?B = _ -> _ => destruct B as [p|] eqn:EB; [|discriminate] end.
    cbn [option_map]. intros H; injection H as <-.
    assert (exists k, In k kids /\ chain_to (k_tree k) f = Some p) as (k & Hin & Hk).
    { clear IH. induction kids as [|k kids IHk]; [discriminate|].
      destruct (chain_to (k_tree k) f) as [q|] eqn:Eq.
      - injection EB as <-. exists k. split; [left; reflexivity|exact Eq].
      - destruct (IHk EB) as (k' & Hin & Hk'). exists k'. split; [right; exact Hin|exact Hk']. }
    rewrite Forall_forall in IH. destruct (IH k Hin p Hk) as (P & L & Hd).
    split; [econstructor; eauto|]. split; [|reflexivity].
    destruct p as [|a p]; [inversion P|]. cbn [last] in *. exact L.
Qed.

Lemma chain_to_found t f : In f (ids t) -> exists l, chain_to t f = Some l.
Proof.
  induction t as [w x y kids IH] using tree_ind'. cbn [ids chain_to]. intros [->|H].
  - rewrite Z.eqb_refl. eauto.
  - destruct (w =? f); [eauto|].
    apply in_flat_map in H as (k & Hin & Hk).
    match goal with |- exists l, option_map _ ?B = _ => assert (exists p, B = Some p) as [p ->] end; [|cbn; eauto].
    induction kids as [|k0 kids IHk]; [destruct Hin|].
    inversion IH as [|? ? Hk0 IH']; subst.
    destruct (chain_to (k_tree k0) f) as [q|] eqn:Eq; [eauto|].
    destruct Hin as [->|Hin].
    + destruct (Hk0 Hk) as [l El]. congruence.
    + apply IHk; auto.
Qed.

Lemma update_path_found fuel s t l :
  chain_to t (focused (co s)) = Some l ->
  update_path oracle fuel s t =
  Some (with_path s ((if root s =? t_wid t then [] else [root s]) ++ l)).
Proof.
  intros H. unfold update_path. rewrite child_has_focus_chain_to, H. cbn [option_map].
  destruct (root s =? t_wid t); cbn [negb].
  - now rewrite rev_involutive.
  - now rewrite rev_app_distr, rev_involutive.
Qed.

Lemma update_path_lost fuel s t :
  chain_to t (focused (co s)) = None ->
  update_path oracle fuel s t =
  obind (focus_widget fuel (co s) (root s)) (fun c => Some (with_path (with_co s c) [root s])).
Proof. intros H. unfold update_path. rewrite child_has_focus_chain_to, H. reflexivity. Qed.

(* ---------------------------------------------------------------- hit lists and widgets *)

Inductive sub {A} : list A -> list A -> Prop :=
| sub_nil : sub [] []
| sub_skip x a b : sub a b -> sub a (x :: b)
| sub_keep x a b : sub a b -> sub (x :: a) (x :: b).

Lemma sub_nil_l {A} (l : list A) : sub [] l.
Proof. induction l; [apply sub_nil|apply sub_skip; auto]. Qed.

Lemma sub_refl {A} (l : list A) : sub l l.
Proof. induction l; [apply sub_nil|apply sub_keep; auto]. Qed.

Lemma sub_app {A} (a b c d : list A) : sub a b -> sub c d -> sub (a ++ c) (b ++ d).
Proof.
  intros H1 H2. induction H1; cbn; [exact H2|apply sub_skip; auto|apply sub_keep; auto].
Qed.

Lemma sub_In {A} (a b : list A) x : sub a b -> In x a -> In x b.
Proof. induction 1; cbn; intuition. Qed.

Lemma sub_NoDup {A} (a b : list A) : sub a b -> NoDup b -> NoDup a.
Proof.
  induction 1; intros N; auto.
  - inversion N; auto.
  - inversion N; subst. constructor; auto. intros Hin. eapply sub_In in Hin; eauto.
Qed.

Lemma hit_test_sub t : forall c r, sub (map h_wid (hit_test t c r)) (ids t).
Proof.
  induction t as [w x y kids IH] using tree_ind'. intros c r. cbn [hit_test ids map h_wid snd].
  apply sub_keep. induction IH as [|k kids Hk _ IHk]; [constructor|].
  cbn [flat_map]. rewrite map_app. apply sub_app; [|exact IHk].
  destruct (contains (k_col k) (k_row k) (k_tree k) c r); [apply Hk|apply sub_nil_l].
Qed.

Lemma hits_at_NoDup t m : NoDup (ids t) -> NoDup (map h_wid (hits_at t m)).
Proof.
  intros N. unfold hits_at. destruct (contains 0 0 t (fst m) (snd m)); [|constructor].
  eapply sub_NoDup; [apply hit_test_sub|exact N].
Qed.

(* Surface.render sorts the children but keeps the widgets *)
Lemma insert_z_perm k l : Permutation (insert_z k l) (k :: l).
Proof.
  induction l as [|x l IH]; cbn; [apply Permutation_refl|].
  destruct (k_z k <? k_z x); [apply Permutation_refl|].
  eapply Permutation_trans; [apply perm_skip; exact IH|apply perm_swap].
Qed.

Lemma sort_tree_ids t : Permutation (ids (sort_tree t)) (ids t).
Proof.
  induction t as [w x y kids IH] using tree_ind'. cbn [sort_tree ids]. apply perm_skip.
  match goal with |- Permutation (flat_map _ (?G kids [])) _ =>
    assert (E : forall acc, Permutation (flat_map (fun k => ids (k_tree k)) (G kids acc))
                              (flat_map (fun k => ids (k_tree k)) kids ++ flat_map (fun k => ids (k_tree k)) acc)) end.
  { induction IH as [|k kids Hk _ IHk]; intros acc; [apply Permutation_refl|].
    eapply Permutation_trans; [apply IHk|]. cbn [flat_map].
    eapply Permutation_trans.
    - apply Permutation_app_head. apply Permutation_flat_map. apply insert_z_perm.
    - cbn [flat_map k_tree snd]. rewrite <- !app_assoc.
      eapply Permutation_trans; [apply Permutation_app_swap_app|].
      apply Permutation_app; [exact Hk|apply Permutation_refl]. }
  specialize (E []). cbn [flat_map] in E. rewrite app_nil_r in E. exact E.
Qed.

Lemma sort_tree_NoDup t : NoDup (ids t) -> NoDup (ids (sort_tree t)).
Proof. intros N. eapply Permutation_NoDup; [apply Permutation_sym, sort_tree_ids|exact N]. Qed.

(* ---------------------------------------------------------------- hover_balanced *)

Definition hover_of_calls (w : wid) (l : list call3) : list event :=
  map (fun c => snd (fst c)) (filter (fun c : call3 => (fst (fst c) =? w) && is_hover_ev (snd (fst c))) l).

Definition wmem (w : wid) (hs : list hit) : bool := existsb (Z.eqb w) (map h_wid hs).

Lemma hover_state_app l1 : forall b l2,
  hover_state b (l1 ++ l2) = match hover_state b l1 with Some b' => hover_state b' l2 | None => None end.
Proof.
  induction l1 as [|e l1 IH]; intros b l2; [reflexivity|].
  destruct e; cbn [app hover_state]; try apply IH; destruct b; auto.
Qed.

Lemma hover_log_app w a b : hover_log w (a ++ b) = hover_log w a ++ hover_log w b.
Proof. unfold hover_log. now rewrite filter_app, map_app. Qed.

Lemma focus_entry_not_hover x : focus_entry x = true -> is_hover_ev (e_ev x) = false.
Proof. unfold focus_entry. destruct (e_ev x); cbn; auto; discriminate. Qed.

Lemma hover_log_focus w D : all_focus D -> hover_log w D = [].
Proof.
  induction 1 as [|x D Hx _ IH]; [reflexivity|].
  unfold hover_log in *. cbn [filter]. rewrite (focus_entry_not_hover _ Hx), andb_false_r. exact IH.
Qed.

Lemma seg_hover w l D : seg l D -> hover_log w D = hover_of_calls w l.
Proof.
  induction 1 as [|w0 ev ph r nested l D F _ IH]; [reflexivity|].
  change ((w0, ev, ph, r) :: nested ++ D) with ([(w0, ev, ph, r)] ++ nested ++ D).
  rewrite !hover_log_app, (hover_log_focus _ _ F), IH. unfold hover_log, hover_of_calls.
  cbn [filter map e_wid e_ev fst snd app]. destruct ((w0 =? w) && is_hover_ev ev); reflexivity.
Qed.

Lemma routedI_hover w l D b :
  routedI l D b -> Forall (fun c : call3 => is_hover_ev (snd (fst c)) = false) l -> hover_log w D = [].
Proof.
  induction 1 as [|w0 ev ph r nested l F _|w0 ev ph r nested l D b F _ _ IH]; intros Hl; [reflexivity| |];
    inversion Hl as [|? ? Hev Hl']; subst; cbn [fst snd] in Hev.
  - change ((w0, ev, ph, r) :: nested) with ([(w0, ev, ph, r)] ++ nested).
    rewrite hover_log_app, (hover_log_focus _ _ F). unfold hover_log. cbn. now rewrite Hev, andb_false_r.
  - change ((w0, ev, ph, r) :: nested ++ D) with ([(w0, ev, ph, r)] ++ nested ++ D).
    rewrite !hover_log_app, (hover_log_focus _ _ F), (IH Hl'). unfold hover_log. cbn. now rewrite Hev, andb_false_r.
Qed.

Lemma hit_eqb_eq a b : hit_eqb a b = true <-> a = b.
Proof.
  destruct a as [[a1 a2] a3], b as [[b1 b2] b3]. unfold hit_eqb. cbn.
  rewrite !andb_true_iff, !Z.eqb_eq. split; [intros [[-> ->] ->]; reflexivity|intros H; injection H; auto].
Qed.

Lemma hit_mem_In h l : hit_mem h l = true <-> In h l.
Proof.
  unfold hit_mem. rewrite existsb_exists. split.
  - intros (x & Hin & E). apply hit_eqb_eq in E. subst. exact Hin.
  - intros Hin. exists h. split; [exact Hin|]. now apply hit_eqb_eq.
Qed.

Definition find_w (w : wid) (hs : list hit) : list hit := filter (fun h => h_wid h =? w) hs.

Lemma wmem_false_find w hs : wmem w hs = false -> find_w w hs = [].
Proof.
  unfold wmem, find_w. induction hs as [|h hs IH]; [reflexivity|]. cbn.
  intros E. apply orb_false_iff in E as [E1 E2]. rewrite Z.eqb_sym, E1. auto.
Qed.

Lemma find_w_cons w h hs : find_w w (h :: hs) = if h_wid h =? w then h :: find_w w hs else find_w w hs.
Proof. reflexivity. Qed.
Lemma wmem_cons w h hs : wmem w (h :: hs) = (w =? h_wid h) || wmem w hs.
Proof. reflexivity. Qed.

Lemma find_w_nodup w hs :
  NoDup (map h_wid hs) ->
  (find_w w hs = [] /\ wmem w hs = false) \/
  (exists h, find_w w hs = [h] /\ h_wid h = w /\ In h hs /\ wmem w hs = true).
Proof.
  induction hs as [|h hs IH]; intros N; [left; auto|].
  inversion N as [|? ? Hnin N']; subst. rewrite find_w_cons, wmem_cons.
  destruct (h_wid h =? w) eqn:E.
  - right. exists h. apply Z.eqb_eq in E.
    assert (wmem w hs = false) as Hm.
    { unfold wmem. destruct (existsb (Z.eqb w) (map h_wid hs)) eqn:Em; [|reflexivity].
      apply existsb_exists in Em as (x & Hin & Ex). apply Z.eqb_eq in Ex. subst. contradiction. }
    rewrite (wmem_false_find _ _ Hm). subst w. rewrite Z.eqb_refl. repeat split; auto. left; reflexivity.
  - rewrite Z.eqb_sym, E. cbn [orb].
    destruct (IH N') as [[A B]|(h' & A & B & C & D)]; [left; auto|right].
    exists h'. repeat split; auto. right; exact C.
Qed.

Lemma hover_of_calls_app w a b : hover_of_calls w (a ++ b) = hover_of_calls w a ++ hover_of_calls w b.
Proof. unfold hover_of_calls. now rewrite filter_app, map_app. Qed.

Lemma hover_of_calls_map w ev (Hev : is_hover_ev ev = true) (P : hit -> bool) hs :
  hover_of_calls w (map (fun h => (h_wid h, ev, Target)) (filter P hs)) =
  map (fun _ => ev) (filter P (find_w w hs)).
Proof.
  unfold hover_of_calls, find_w. induction hs as [|h hs IH]; [reflexivity|]. cbn [filter].
  destruct (P h) eqn:EP; cbn [map filter fst snd]; rewrite ?Hev, ?andb_true_r;
    destruct (h_wid h =? w); cbn [map filter]; rewrite ?EP; cbn [map]; rewrite ?IH; reflexivity.
Qed.

(* the heart of hover_balanced: one update moves every widget from "hovered iff in the old
   hit list" to "hovered iff in the new hit list" with alternating notifications *)
Lemma hover_calls_state w old new :
  NoDup (map h_wid old) -> NoDup (map h_wid new) ->
  hover_state (wmem w old) (hover_of_calls w (hover_calls old new)) = Some (wmem w new).
Proof.
  intros No Nn. unfold hover_calls.
  rewrite hover_of_calls_app, !hover_of_calls_map by reflexivity.
  destruct (find_w_nodup w old No) as [[Fo Mo]|(h & Fo & Wo & Io & Mo)];
  destruct (find_w_nodup w new Nn) as [[Fn Mn]|(h' & Fn & Wn & In' & Mn)];
    rewrite Fo, Fn, Mo, Mn; cbn [filter map app].
  - reflexivity.
  - assert (E : hit_mem h' old = false).
    { destruct (hit_mem h' old) eqn:E; [|reflexivity]. apply hit_mem_In in E.
      assert (In h' (find_w w old)) by (apply filter_In; split; [exact E|lia]). rewrite Fo in H. destruct H. }
    rewrite E. reflexivity.
  - assert (E : hit_mem h new = false).
    { destruct (hit_mem h new) eqn:E; [|reflexivity]. apply hit_mem_In in E.
      assert (In h (find_w w new)) by (apply filter_In; split; [exact E|lia]). rewrite Fn in H. destruct H. }
    rewrite E. reflexivity.
  - destruct (hit_mem h new) eqn:E1.
    + apply hit_mem_In in E1.
      assert (In h (find_w w new)) as Hin by (apply filter_In; split; [exact E1|lia]).
      rewrite Fn in Hin. destruct Hin as [<-|[]].
      assert (hit_mem h' old = true) as -> by (apply hit_mem_In; exact Io). reflexivity.
    + destruct (hit_mem h' old) eqn:E2.
      * apply hit_mem_In in E2.
        assert (In h' (find_w w old)) as Hin by (apply filter_In; split; [exact E2|lia]).
        rewrite Fo in Hin. destruct Hin as [<-|[]].
        apply hit_mem_In in In'. congruence.
      * reflexivity.
Qed.

(* mouseExit: everybody in the hit list gets MouseLeave *)
Lemma hover_exit_state w old :
  NoDup (map h_wid old) ->
  hover_state (wmem w old) (hover_of_calls w (map (fun h => (h_wid h, ELeave, Target)) old)) = Some false.
Proof.
  intros No. pose proof (hover_calls_state w old [] No (NoDup_nil _)) as H.
  unfold hover_calls in H. cbn [filter map app] in H. rewrite app_nil_r in H.
  assert (E : filter (fun h => negb (hit_mem h [])) old = old).
  { clear. induction old as [|a old IH]; [reflexivity|]. cbn [filter].
    change (hit_mem a []) with false. cbn [negb]. now rewrite IH. }
  rewrite E in H. exact H.
Qed.

Lemma focus_widget_ext fuel c w c' :
  focus_widget fuel c w = Some c' ->
  exists D e, ext c c' D e /\ all_focus D /\ Permutation e (rets D).
Proof.
  unfold Route.focus_widget. destruct (focused c =? w).
  - intros H; injection H as <-. exists [], []. split; [apply ext_refl|]. split; constructor.
  - intros H. destruct (call fuel c (focused c) EFocusOut Target) as [c1|] eqn:E1; [|discriminate].
    cbn [obind] in H.
    destruct (call_ext _ _ _ _ _ _ E1) as (d1 & e1 & X1 & F1 & P1).
    destruct (call_ext _ _ _ _ _ _ H) as (d2 & e2 & X2 & F2 & P2).
    cbn [log set_focused] in *.
    pose proof (ext_trans _ _ _ _ _ _ _ X1 (ext_trans _ _ _ _ _ _ _ (ext_set_focused c1 w) X2)) as Y.
    eexists _, _. split; [exact Y|]. split.
    + apply Forall_app; split; constructor; auto.
    + rewrite !rets_app. change (rets []) with (@nil cmd). cbn [app]. apply Permutation_app; assumption.
Qed.

Lemma update_path_shape fuel s t s' :
  update_path oracle fuel s t = Some s' ->
  exists D, log (co s') = log (co s) ++ D /\ all_focus D /\ root s' = root s /\
            last_frame s' = last_frame s /\ last_hits s' = last_hits s /\ mouse s' = mouse s.
Proof.
  unfold update_path. destruct (child_has_focus t (focused (co s))).
  - intros H; injection H as <-. exists []. cbn. rewrite app_nil_r. repeat split; constructor.
  - intros H. destruct (focus_widget fuel (co s) (root s)) as [c|] eqn:E; [|discriminate].
    cbn [obind] in H. injection H as <-.
    destruct (focus_widget_ext _ _ _ _ E) as (D & e & [(L & _) _] & F & _).
    exists D. cbn. auto 10.
Qed.

Lemma mouse_exit_spec fuel s s' :
  mouse_exit oracle fuel s = Some s' ->
  exists D, log (co s') = log (co s) ++ D /\
            seg (map (fun h => (h_wid h, ELeave, Target)) (last_hits s)) D /\ last_hits s' = [] /\
            root s' = root s /\ last_frame s' = last_frame s /\ mouse s' = mouse s.
Proof.
  unfold mouse_exit. intros H.
  match type of H with obind (Route.calls _ _ _ ?l) _ = _ => destruct (calls fuel (co s) l) as [c|] eqn:E; [|discriminate] end.
  cbn [obind] in H. injection H as <-.
  destruct (calls_ext _ _ _ _ E) as (D & e & [(L & _) _] & S & _).
  exists D. cbn. auto 10.
Qed.

Section Hover.
  Variable excl : wid -> Prop.   (* widgets the statement does not speak about *)
  Variable r : wid.              (* the App's root widget *)

  Definition hov_inv (s : st) : Prop :=
    root s = r /\ NoDup (ids (last_frame s)) /\ NoDup (map h_wid (last_hits s)) /\
    forall w, ~ excl w -> hover_state false (hover_log w (log (co s))) = Some (wmem w (last_hits s)).

  Definition hov_good (i : input) : Prop :=
    match tree_of_input i with Some t => NoDup (ids t) | None => True end /\
    match i with IEv e => is_hover_ev e = false | ITermFocusIn => excl r | _ => True end.

  Lemma hov_upd s s' D :
    hov_inv s -> log (co s') = log (co s) ++ D ->
    (forall w, ~ excl w -> hover_state (wmem w (last_hits s)) (hover_log w D) = Some (wmem w (last_hits s'))) ->
    NoDup (ids (last_frame s')) -> NoDup (map h_wid (last_hits s')) -> root s' = r -> hov_inv s'.
  Proof.
    intros (R & Nf & Nh & H) L Hd Nf' Nh' R'. split; [exact R'|]. split; [exact Nf'|]. split; [exact Nh'|].
    intros w Hw. rewrite L, hover_log_app, hover_state_app, (H w Hw). apply Hd. exact Hw.
  Qed.

  (* a step that neither notifies nor changes the hit list *)
  Lemma hov_quiet s s' D :
    hov_inv s -> log (co s') = log (co s) ++ D -> (forall w, hover_log w D = []) ->
    NoDup (ids (last_frame s')) -> last_hits s' = last_hits s -> root s' = r -> hov_inv s'.
  Proof.
    intros J L Hq Nf' Hh R'. eapply hov_upd; eauto.
    - intros w _. rewrite Hq, Hh. reflexivity.
    - rewrite Hh. apply J.
  Qed.

  Lemma hov_mouse_update fuel s t s' :
    hov_inv s -> NoDup (ids t) -> mouse_update oracle fuel s t = Some s' -> hov_inv s'.
  Proof.
    intros J Nt H. pose proof (mouse_update_spec _ _ _ _ H) as U.
    destruct (mouse s) as [m|]; [|subst; exact J].
    destruct U as (D & e & [(L & _) _] & S & _ & Lh & Rh & _ & Fr & _).
    destruct J as (R & Nf & Nh & Hv).
    eapply hov_upd; [repeat split; eauto|exact L| | | |congruence].
    - intros w _. rewrite (seg_hover _ _ _ S), Lh. apply hover_calls_state; [exact Nh|].
      apply hits_at_NoDup. exact Nt.
    - rewrite Fr. exact Nf.
    - rewrite Lh. apply hits_at_NoDup. exact Nt.
  Qed.

  Lemma hov_mouse_exit fuel s s' :
    hov_inv s -> mouse_exit oracle fuel s = Some s' -> hov_inv s' /\ last_hits s' = [].
  Proof.
    intros J H. destruct (mouse_exit_spec _ _ _ H) as (D & L & S & Lh & Rh & Fr & _).
    split; [|exact Lh]. destruct J as (R & Nf & Nh & Hv).
    eapply hov_upd; [repeat split; eauto|exact L| | | |congruence].
    - intros w _. rewrite (seg_hover _ _ _ S), Lh. apply hover_exit_state. exact Nh.
    - rewrite Fr. exact Nf.
    - rewrite Lh. constructor.
  Qed.

  Lemma hov_update_path fuel s t s' :
    hov_inv s -> update_path oracle fuel s t = Some s' -> hov_inv s'.
  Proof.
    intros J H. destruct (update_path_shape _ _ _ _ H) as (D & L & F & Rh & Fr & Lh & _).
    eapply hov_quiet; eauto.
    - intros w. apply hover_log_focus. exact F.
    - rewrite Fr. apply J.
    - rewrite Rh. apply J.
  Qed.

  Lemma hov_frame_set s t : hov_inv s -> NoDup (ids t) -> hov_inv (with_frame s t).
  Proof. intros (R & _ & Nh & H) Nt. repeat split; auto. Qed.

  Lemma hov_co_flags s c :
    hov_inv s -> log c = log (co s) -> hov_inv (with_co s c).
  Proof. intros (R & Nf & Nh & H) L. repeat split; auto. cbn. rewrite L. exact H. Qed.

  Lemma seq_calls_not_hover ev seq :
    is_hover_ev ev = false -> Forall (fun c : call3 => is_hover_ev (snd (fst c)) = false) (seq_calls ev seq).
  Proof. intros H. unfold seq_calls. induction seq; cbn; constructor; auto. Qed.

  Lemma hov_focus_handle fuel s ev s' :
    hov_inv s -> is_hover_ev ev = false -> focus_handle oracle capturer fuel s ev = Some s' -> hov_inv s'.
  Proof.
    intros J Hev H.
    destruct (key_route_order _ _ _ _ H) as (D & e & tgt & b & (L & _) & _ & (Rh & _ & Fr & Lh & _) & _ & RI & _).
    eapply hov_quiet; eauto.
    - intros w. eapply routedI_hover; [exact RI|]. apply seq_calls_not_hover. exact Hev.
    - rewrite Fr. apply J.
    - rewrite Rh. apply J.
  Qed.

  Lemma hov_step fuel s i s' :
    hov_inv s -> hov_good i -> step oracle capturer fuel s i = Some s' -> hov_inv s'.
  Proof.
    intros J [Gt Gi] H. destruct i; cbn [step] in H; cbn [tree_of_input] in Gt.
    - eapply hov_focus_handle; eauto.
    - (* mouse *)
      destruct (mouse_route_order _ _ _ _ _ H) as (Dh & Dr & e & b & (L & _) & _ & S & Lh & _ & Rh & _ & Fr & M).
      destruct J as (R & Nf & Nh & Hv).
      eapply hov_upd; [repeat split; eauto|exact L| | | |congruence].
      + intros w _. rewrite hover_log_app, hover_state_app, (seg_hover _ _ _ S), Lh.
        rewrite hover_calls_state by (auto; apply hits_at_NoDup; exact Nf).
        assert (hover_log w Dr = []) as ->; [|reflexivity].
        destruct (map h_wid (hits_at (last_frame s) (col, row))); [subst; reflexivity|].
        destruct M as [RI _]. eapply routedI_hover; [exact RI|]. apply seq_calls_not_hover. reflexivity.
      + rewrite Fr. exact Nf.
      + rewrite Lh. apply hits_at_NoDup. exact Nf.
    - (* terminal FocusIn: MouseEnter to the root widget *)
      destruct (call fuel (co s) (root s) EEnter Target) as [c|] eqn:E; [|discriminate].
      cbn [obind] in H. injection H as <-.
      destruct (call_ext _ _ _ _ _ _ E) as (d & e & [(L & _) _] & F & _).
      destruct J as (R & Nf & Nh & Hv).
      eapply hov_upd; [repeat split; eauto|exact L| |exact Nf|exact Nh|exact R].
      intros w Hw. cbn [last_hits with_co].
      match goal with |- context [hover_log w (?x :: d)] => change (x :: d) with ([x] ++ d) end.
      rewrite hover_log_app, (hover_log_focus _ _ F), app_nil_r. unfold hover_log. cbn [filter e_wid e_ev fst snd].
      assert ((root s =? w) = false) as ->; [|reflexivity].
      apply Z.eqb_neq. intros E'. apply Hw. rewrite <- E', R. exact Gi.
    - (* terminal FocusOut *)
      eapply hov_mouse_exit; [|exact H]. destruct J as (R & Nf & Nh & Hv). repeat split; auto.
    - injection H as <-. apply hov_co_flags; auto.
    - (* frame *)
      unfold frame in H. destruct (negb (f_redraw (co s))); [injection H as <-; exact J|].
      destruct (mouse_update oracle fuel (with_co s (set_redraw (co s) false)) t) as [s1|] eqn:E1; [|discriminate].
      cbn [obind] in H.
      match type of H with obind (update_path _ _ ?s2 _) _ = _ => destruct (update_path oracle fuel s2 (sort_tree t)) as [s3|] eqn:E3; [|discriminate] end.
      cbn [obind] in H. injection H as <-.
      apply hov_frame_set; [|apply sort_tree_NoDup; exact Gt].
      eapply hov_update_path; [|exact E3]. apply hov_co_flags; [|reflexivity].
      eapply hov_mouse_update; [|exact Gt|exact E1]. apply hov_co_flags; auto.
    - (* start *)
      destruct (focus_handle oracle capturer fuel s EInit) as [s1|] eqn:E; [|discriminate].
      cbn [obind] in H. injection H as <-. apply hov_frame_set; [|exact Gt].
      eapply hov_focus_handle; [exact J| |exact E]. reflexivity.
    - eapply hov_mouse_update; eauto.
    - eapply hov_update_path; eauto.
    - injection H as <-. apply hov_frame_set; auto.
    - destruct (update_path oracle fuel s (sort_tree t)) as [s1|] eqn:E; [|discriminate].
      cbn [obind] in H. injection H as <-. apply hov_frame_set; [|apply sort_tree_NoDup; exact Gt].
      eapply hov_update_path; eauto.
    - eapply hov_mouse_exit; eauto.
    - injection H as <-. destruct J as (R & Nf & Nh & Hv). repeat split; auto.
    - destruct (focus_widget fuel (co s) w) as [c|] eqn:E; [|discriminate].
      cbn [obind] in H. injection H as <-.
      destruct (focus_widget_ext _ _ _ _ E) as (D & e & [(L & _) _] & F & _).
      eapply hov_quiet; eauto; try apply J. intros w0. apply hover_log_focus. exact F.
    - destruct (handle_cmd fuel (co s) c) as [c'|] eqn:E; [|discriminate].
      cbn [obind] in H. injection H as <-.
      destruct (handle_cmd_ext _ _ _ _ E) as (D & e & [(L & _) _] & F & _).
      eapply hov_quiet; eauto; try apply J. intros w0. apply hover_log_focus. exact F.
  Qed.

  Lemma hov_run fuel l : forall s s',
    hov_inv s -> Forall hov_good l -> run oracle capturer fuel s l = Some s' -> hov_inv s'.
  Proof.
    induction l as [|i l IH]; intros s s' J F H; cbn [run] in H.
    - injection H as <-. exact J.
    - destruct (step oracle capturer fuel s i) as [s1|] eqn:E; [|discriminate]. cbn [obind] in H.
      inversion F; subst. pose proof (hov_step _ _ _ _ J H2 E) as J1.
      destruct (negb (is_tick i) && f_quit (co s1)); [injection H as <-; exact J1|eauto].
  Qed.
End Hover.

(* ---------------------------------------------------------------- packaged statements *)

Lemma routedI_length_b ev (Hev : is_focus_ev ev = false) seq D b :
  routedI (seq_calls ev seq) D b -> routed_b (S (length D)) ev seq D = true.
Proof. intros H. eapply routedI_routed_b; eauto. Qed.

Lemma key_route_order_b fuel s ev s' :
  is_focus_ev ev = false ->
  focus_handle oracle capturer fuel s ev = Some s' ->
  exists D tgt,
    log (co s') = log (co s) ++ D /\ same_outer s s' /\ f_consume (co s') = false /\
    routed_b (S (length D)) ev (route_seq capturer (path s) tgt) D = true /\
    (existsb focus_entry D = false -> tgt = focused (co s)).
Proof.
  intros Hev H. destruct (key_route_order _ _ _ _ H) as (D & e & tgt & b & (L & _) & C & O & _ & RI & T).
  exists D, tgt. repeat split; auto; try apply O. eapply routedI_length_b; eauto.
Qed.

Lemma mouse_route_order_b fuel s c r s' :
  mouse_handle oracle capturer fuel s c r = Some s' ->
  exists Dh Dr,
    log (co s') = log (co s) ++ Dh ++ Dr /\
    seg (hover_calls (last_hits s) (hits_at (last_frame s) (c, r))) Dh /\
    last_hits s' = hits_at (last_frame s) (c, r) /\
    match map h_wid (hits_at (last_frame s) (c, r)) with
    | [] => Dr = []
    | ws => routed_b (S (length Dr)) (EMouse c r) (route_seq capturer ws (last ws 0)) Dr = true
    end.
Proof.
  intros H. destruct (mouse_route_order _ _ _ _ _ H) as (Dh & Dr & e & b & (L & _) & _ & S & Lh & _ & _ & _ & _ & M).
  exists Dh, Dr. repeat split; auto.
  destruct (map h_wid (hits_at (last_frame s) (c, r))); [exact M|].
  destruct M as [RI _]. eapply routedI_length_b; eauto.
Qed.

(* one focus change whose two handlers do not themselves move the focus *)
Lemma focus_widget_exact fuel c w c' :
  focus_widget fuel c w = Some c' ->
  if focused c =? w then c' = c
  else
    let r1 := oracle (log c) (focused c) EFocusOut Target in
    forall r2, r2 = oracle (log c ++ [(focused c, EFocusOut, Target, r1)]) w EFocusIn Target ->
    existsb is_focus_cmd (leaves r1) = false -> existsb is_focus_cmd (leaves r2) = false ->
    log c' = log c ++ [(focused c, EFocusOut, Target, r1); (w, EFocusIn, Target, r2)] /\ focused c' = w.
Proof.
  unfold Route.focus_widget. destruct (focused c =? w); [intros H; injection H as <-; reflexivity|].
  intros H. destruct (call fuel c (focused c) EFocusOut Target) as [c1|] eqn:E1; [|discriminate].
  cbn [obind] in H. cbv zeta. intros r2 Er2 N1 N2.
  unfold Route.call in E1, H.
  destruct (no_focus_cmd_same _ _ _ _ E1 N1) as [L1 F1]. cbn [add_log log focused] in L1, F1.
  assert (E2 : r2 = oracle (log (set_focused c1 w)) w EFocusIn Target).
  { rewrite Er2. cbn [set_focused log]. rewrite L1. reflexivity. }
  rewrite E2 in N2.
  destruct (no_focus_cmd_same _ _ _ _ H N2) as [L2 F2]. cbn [add_log log focused set_focused] in L2, F2.
  split; [|exact F2]. rewrite L2, E2. cbn [set_focused log]. rewrite L1, <- app_assoc. reflexivity.
Qed.

Lemma init_hov_inv excl r : hov_inv excl r (init_st r).
Proof.
  unfold hov_inv, init_st. cbn. split; [reflexivity|]. split; [repeat constructor; auto|]. split; [constructor|].
  intros; reflexivity.
Qed.

(* hover_balanced for App.Run histories *)
Lemma hover_balanced_run fuel r l s' :
  Forall (fun i => match tree_of_input i with Some t => NoDup (ids t) | None => True end) l ->
  Forall (fun i => match i with IEv e => is_hover_ev e = false | _ => True end) l ->
  run oracle capturer fuel (init_st r) l = Some s' ->
  forall w, w <> r \/ ~ In ITermFocusIn l ->
    hover_state false (hover_log w (log (co s'))) = Some (wmem w (last_hits s')).
Proof.
  intros Ft Fe H w Hw.
  pose (excl := fun x : wid => x = r /\ In ITermFocusIn l).
  assert (J : hov_inv excl r s').
  { eapply hov_run; [apply init_hov_inv| |exact H].
    rewrite Forall_forall in *. intros i Hi. split; [apply Ft; exact Hi|].
    specialize (Fe i Hi). destruct i; auto. split; [reflexivity|exact Hi]. }
  destruct J as (_ & _ & _ & Hv). apply Hv. unfold excl. tauto.
Qed.

Lemma termfocusout_clears fuel s s' :
  step oracle capturer fuel s ITermFocusOut = Some s' -> last_hits s' = [] /\ mouse s' = None.
Proof.
  cbn [step]. intros H. destruct (mouse_exit_spec _ _ _ H) as (D & _ & _ & Lh & _ & _ & M). auto.
Qed.

Lemma pointer_outside_clears fuel s c r s' :
  contains 0 0 (last_frame s) c r = false ->
  mouse_handle oracle capturer fuel s c r = Some s' -> last_hits s' = [].
Proof.
  intros Hc H. destruct (mouse_route_order _ _ _ _ _ H) as (_ & _ & _ & _ & _ & _ & _ & Lh & _).
  rewrite Lh. unfold hits_at. cbn [fst snd]. now rewrite Hc.
Qed.

Lemma wmem_nil w : wmem w [] = false.
Proof. reflexivity. Qed.

(* ---------------------------------------------------------------- who is under the pointer *)

Definition cont (c r ox oy : Z) (k : Z * Z * Z * tree) : bool :=
  contains_abs (ox + k_col k) (oy + k_row k) (k_tree k) c r.

Lemma under_all_unfold w x y kids ox oy c r :
  under_all (Node w x y kids) ox oy c r =
  w :: flat_map (fun k => if cont c r ox oy k then under_all (k_tree k) (ox + k_col k) (oy + k_row k) c r else []) kids.
Proof. reflexivity. Qed.

Lemma under_top_unfold w x y kids ox oy c r :
  under_top (Node w x y kids) ox oy c r =
  w :: fold_left (fun acc k => if cont c r ox oy k then under_top (k_tree k) (ox + k_col k) (oy + k_row k) c r else acc) kids [].
Proof.
  reflexivity.
Qed.

Lemma hit_test_unfold w x y kids lc lr :
  map h_wid (hit_test (Node w x y kids) lc lr) =
  w :: flat_map (fun k => if contains (k_col k) (k_row k) (k_tree k) lc lr
                          then map h_wid (hit_test (k_tree k) (local lc (k_col k)) (local lr (k_row k))) else []) kids.
Proof.
  cbn [hit_test map h_wid snd]. f_equal. induction kids as [|k kids IH]; [reflexivity|].
  cbn [flat_map]. rewrite map_app, IH. destruct (contains _ _ _ _ _); reflexivity.
Qed.

(* sizes are uint16 values *)
Inductive wf16 : tree -> Prop :=
| wf16_node w x y kids : 0 <= x <= 65535 -> 0 <= y <= 65535 ->
    Forall (fun k => wf16 (k_tree k)) kids -> wf16 (Node w x y kids).

Lemma local_exact x o wdt : 0 <= x < 65536 -> 0 <= wdt <= 65535 -> o <= x < o + wdt -> local x o = x - o.
Proof.
  intros Hx Hw Hc. unfold local, u16. rewrite Zminus_mod_idemp_r. apply Z.mod_small. lia.
Qed.

Lemma contains_shift oc orow t lc lr ox oy c r :
  lc = c - ox -> lr = r - oy ->
  contains oc orow t lc lr = contains_abs (ox + oc) (oy + orow) t c r.
Proof.
  intros -> ->. unfold contains, contains_abs.
  repeat match goal with |- context [?a <=? ?b] => destruct (Z.leb_spec a b) end;
  repeat match goal with |- context [?a <? ?b] => destruct (Z.ltb_spec a b) end; try reflexivity; lia.
Qed.

Lemma contains_true oc orow t lc lr :
  contains oc orow t lc lr = true -> oc <= lc < oc + t_width t /\ orow <= lr < orow + t_height t.
Proof. unfold contains. rewrite !andb_true_iff, !Z.leb_le, !Z.ltb_lt. lia. Qed.

(* hitTest's translation to local uint16 coordinates is exact: the hit list is the list of
   surfaces that contain the point in absolute terminal coordinates *)
Lemma hit_test_abs c r : forall t, wf16 t -> forall ox oy lc lr,
  lc = c - ox -> lr = r - oy -> 0 <= lc < 65536 -> 0 <= lr < 65536 ->
  map h_wid (hit_test t lc lr) = under_all t ox oy c r.
Proof.
  induction t as [w x y kids IH] using tree_ind'. intros W ox oy lc lr Elc Elr Hlc Hlr.
  rewrite hit_test_unfold, under_all_unfold. f_equal.
  inversion W as [? ? ? ? _ _ Wk]; subst. clear W.
  induction IH as [|k kids Hk _ IHk]; [reflexivity|].
  inversion Wk as [|? ? Wk0 Wk']; subst.
  cbn [flat_map]. rewrite (IHk Wk'). f_equal.
  unfold cont. rewrite <- (contains_shift (k_col k) (k_row k) (k_tree k) (c - ox) (r - oy) ox oy c r eq_refl eq_refl).
  destruct (contains (k_col k) (k_row k) (k_tree k) (c - ox) (r - oy)) eqn:E; [|reflexivity].
  apply contains_true in E as [Ec Er].
  remember (k_tree k) as kt eqn:Et. destruct kt as [w' x' y' kids'].
  inversion Wk0 as [? ? ? ? Hx' Hy' _]; subst. cbn [t_width t_height] in Ec, Er.
  rewrite (local_exact (c - ox) (k_col k) x') by lia. rewrite (local_exact (r - oy) (k_row k) y') by lia.
  apply Hk; [exact Wk0|lia|lia|lia|lia].
Qed.

Lemma hits_at_pointer_all t c r :
  wf16 t -> map h_wid (hits_at t (c, r)) = pointer_all t c r.
Proof.
  intros W. unfold hits_at, pointer_all. cbn [fst snd].
  rewrite (contains_shift 0 0 t c r 0 0 c r) by lia. cbn [Z.add].
  destruct (contains_abs 0 0 t c r) eqn:E; [|reflexivity].
  unfold contains_abs in E. rewrite !andb_true_iff, !Z.leb_le, !Z.ltb_lt in E.
  inversion W; subst. cbn [t_width t_height] in E.
  apply hit_test_abs; [exact W| | | |]; unfold u16; rewrite ?Z.mod_small by lia; lia.
Qed.

(* the chain that descends into the LAST child containing the point *)
Inductive top_chain (c r : Z) : tree -> Z -> Z -> list wid -> Prop :=
| tc_leaf t ox oy :
    Forall (fun k => cont c r ox oy k = false) (t_kids t) -> top_chain c r t ox oy [t_wid t]
| tc_kid w x y pre k post ox oy l :
    cont c r ox oy k = true -> Forall (fun k' => cont c r ox oy k' = false) post ->
    top_chain c r (k_tree k) (ox + k_col k) (oy + k_row k) l ->
    top_chain c r (Node w x y (pre ++ k :: post)) ox oy (w :: l).

Lemma split_last {A} (P : A -> bool) (l : list A) :
  Forall (fun x => P x = false) l \/
  exists pre k post, l = pre ++ k :: post /\ P k = true /\ Forall (fun x => P x = false) post.
Proof.
  induction l as [|a l IH]; [left; constructor|].
  destruct IH as [F|(pre & k & post & -> & Pk & F)].
  - destruct (P a) eqn:Pa; [right; exists [], a, l; auto|left; constructor; auto].
  - right. exists (a :: pre), k, post. auto.
Qed.

Lemma fold_none {A B} (P : A -> bool) (f : A -> B) (l : list A) acc :
  Forall (fun x => P x = false) l -> fold_left (fun acc k => if P k then f k else acc) l acc = acc.
Proof. intros F. revert acc. induction F as [|a l Ha _ IH]; intros acc; [reflexivity|]. cbn. rewrite Ha. apply IH. Qed.

Lemma fold_some {A B} (P : A -> bool) (f : A -> B) pre k post acc :
  P k = true -> Forall (fun x => P x = false) post ->
  fold_left (fun acc k => if P k then f k else acc) (pre ++ k :: post) acc = f k.
Proof. intros Pk F. rewrite fold_left_app. cbn [fold_left]. rewrite Pk. apply fold_none. exact F. Qed.

Lemma under_top_chain c r : forall t ox oy, top_chain c r t ox oy (under_top t ox oy c r).
Proof.
  induction t as [w x y kids IH] using tree_ind'. intros ox oy. rewrite under_top_unfold.
  destruct (split_last (cont c r ox oy) kids) as [F|(pre & k & post & -> & Pk & F)].
  - rewrite fold_none by exact F. apply (tc_leaf c r (Node w x y kids)). exact F.
  - rewrite (fold_some (cont c r ox oy) (fun k => under_top (k_tree k) (ox + k_col k) (oy + k_row k) c r)) by assumption.
    apply tc_kid; auto. rewrite Forall_forall in IH. apply IH. apply in_or_app. right. left. reflexivity.
Qed.

Lemma under_all_nonempty t ox oy c r : under_all t ox oy c r <> [].
Proof. destruct t. rewrite under_all_unfold. discriminate. Qed.

Lemma flat_none {A B} (P : A -> bool) (f : A -> list B) l :
  Forall (fun x => P x = false) l -> flat_map (fun k => if P k then f k else []) l = [].
Proof. induction 1 as [|a l Ha _ IH]; [reflexivity|]. cbn. now rewrite Ha, IH. Qed.

Lemma last_app_ne {A} (a b : list A) d : b <> [] -> last (a ++ b) d = last b d.
Proof.
  intros Hb. induction a as [|x a IH]; [reflexivity|]. cbn [app].
  destruct (a ++ b) eqn:E; [destruct a; cbn in E; [contradiction|discriminate]|].
  cbn [last]. exact IH.
Qed.

(* overlapping siblings: the target (last element of the hit list) is the last element of
   the chain through the last containing children *)
Lemma under_all_last c r : forall t ox oy d,
  last (under_all t ox oy c r) d = last (under_top t ox oy c r) d.
Proof.
  induction t as [w x y kids IH] using tree_ind'. intros ox oy d.
  rewrite under_all_unfold, under_top_unfold.
  destruct (split_last (cont c r ox oy) kids) as [F|(pre & k & post & -> & Pk & F)].
  - rewrite fold_none by exact F.
    rewrite (flat_none (cont c r ox oy) (fun k => under_all (k_tree k) (ox + k_col k) (oy + k_row k) c r)) by exact F.
    reflexivity.
  - rewrite (fold_some (cont c r ox oy) (fun k => under_top (k_tree k) (ox + k_col k) (oy + k_row k) c r)) by assumption.
    rewrite flat_map_app. cbn [flat_map]. rewrite Pk.
    rewrite (flat_none (cont c r ox oy) (fun k => under_all (k_tree k) (ox + k_col k) (oy + k_row k) c r) post) by exact F.
    rewrite app_nil_r.
    assert (Hk : forall d, last (under_all (k_tree k) (ox + k_col k) (oy + k_row k) c r) d =
                           last (under_top (k_tree k) (ox + k_col k) (oy + k_row k) c r) d).
    { rewrite Forall_forall in IH. intros d'. apply IH. apply in_or_app. right. left. reflexivity. }
    pose proof (under_all_nonempty (k_tree k) (ox + k_col k) (oy + k_row k) c r) as Ne.
    assert (Nt : under_top (k_tree k) (ox + k_col k) (oy + k_row k) c r <> []).
    { destruct (k_tree k). rewrite under_top_unfold. discriminate. }
    change (w :: ?a ++ ?b) with ((w :: a) ++ b).
    rewrite last_app_ne by exact Ne.
    destruct (under_top (k_tree k) (ox + k_col k) (oy + k_row k) c r) as [|a l] eqn:Et; [contradiction|].
    rewrite Hk. cbn [last]. reflexivity.
Qed.

(* the chain is always part of the hit list, and it is the whole hit list exactly when no two
   siblings contain the point *)
Lemma under_top_sub c r : forall t ox oy, sub (under_top t ox oy c r) (under_all t ox oy c r).
Proof.
  induction t as [w x y kids IH] using tree_ind'. intros ox oy.
  rewrite under_all_unfold, under_top_unfold. apply sub_keep.
  destruct (split_last (cont c r ox oy) kids) as [F|(pre & k & post & -> & Pk & F)].
  - rewrite fold_none by exact F. apply sub_nil_l.
  - rewrite (fold_some (cont c r ox oy) (fun k => under_top (k_tree k) (ox + k_col k) (oy + k_row k) c r)) by assumption.
    rewrite flat_map_app. cbn [flat_map]. rewrite Pk.
    apply (sub_app [] _ _ _ (sub_nil_l _)).
    rewrite <- (app_nil_r (under_top _ _ _ _ _)). apply sub_app; [|apply sub_nil_l].
    rewrite Forall_forall in IH. apply IH. apply in_or_app. right. left. reflexivity.
Qed.

Lemma sub_length {A} (a b : list A) : sub a b -> (length a <= length b)%nat.
Proof. induction 1; cbn; lia. Qed.

Lemma sub_same_length {A} (a b : list A) : sub a b -> length a = length b -> a = b.
Proof.
  induction 1 as [|x a b H IH|x a b H IH]; intros E; [reflexivity| |].
  - apply sub_length in H. cbn in E. lia.
  - cbn in E. f_equal. apply IH. lia.
Qed.

Lemma pointer_single t c r :
  length (pointer_all t c r) = length (pointer_chain t c r) -> pointer_all t c r = pointer_chain t c r.
Proof.
  unfold pointer_all, pointer_chain. destruct (contains_abs 0 0 t c r); [|reflexivity].
  intros E. symmetry. apply sub_same_length; [apply under_top_sub|symmetry; exact E].
Qed.

(* ---------------------------------------------------------------- z order after a render *)

Definition le_z (a b : Z * Z * Z * tree) : Prop := k_z a <= k_z b.

Inductive sorted_tree : tree -> Prop :=
| st_node w x y kids : StronglySorted le_z kids -> Forall (fun k => sorted_tree (k_tree k)) kids ->
    sorted_tree (Node w x y kids).

Lemma insert_z_sorted k l : StronglySorted le_z l -> StronglySorted le_z (insert_z k l).
Proof.
  induction 1 as [|a l S IH F]; cbn [insert_z]; [repeat constructor|].
  destruct (k_z k <? k_z a) eqn:E.
  - constructor; [constructor; assumption|]. apply Z.ltb_lt in E.
    constructor; [unfold le_z; lia|]. eapply Forall_impl; [|exact F]. unfold le_z. intros; lia.
  - constructor; [exact IH|]. apply Z.ltb_ge in E.
    eapply Permutation_Forall; [apply Permutation_sym, insert_z_perm|]. constructor; [exact E|exact F].
Qed.

Lemma sort_tree_sorted t : sorted_tree (sort_tree t).
Proof.
  induction t as [w x y kids IH] using tree_ind'. cbn [sort_tree].
  match goal with |- sorted_tree (Node w x y (?G kids [])) =>
    assert (E : forall acc, StronglySorted le_z acc -> Forall (fun k => sorted_tree (k_tree k)) acc ->
                            StronglySorted le_z (G kids acc) /\ Forall (fun k => sorted_tree (k_tree k)) (G kids acc)) end.
  { induction IH as [|k kids Hk _ IHk]; intros acc S F; [auto|].
    apply IHk; [apply insert_z_sorted; exact S|].
    eapply Permutation_Forall; [apply Permutation_sym, insert_z_perm|]. constructor; [exact Hk|exact F]. }
  destruct (E [] (SSorted_nil _) (Forall_nil _)) as [S F]. constructor; assumption.
Qed.

Lemma sorted_before_last {A} (R : A -> A -> Prop) pre k post :
  StronglySorted R (pre ++ k :: post) -> Forall (fun a => R a k) pre.
Proof.
  induction pre as [|a pre IH]; cbn [app]; intros S; [constructor|].
  inversion S as [|? ? S' F]; subst. constructor; [|apply IH; exact S'].
  rewrite Forall_forall in F. apply F. apply in_or_app. right. left. reflexivity.
Qed.

(* after a render: at each level the chain descends into the containing child with the
   highest z (the last of those with equal z) *)
Inductive top_chain_z (c r : Z) : tree -> Z -> Z -> list wid -> Prop :=
| tcz_leaf t ox oy :
    Forall (fun k => cont c r ox oy k = false) (t_kids t) -> top_chain_z c r t ox oy [t_wid t]
| tcz_kid w x y pre k post ox oy l :
    cont c r ox oy k = true -> Forall (fun k' => cont c r ox oy k' = false) post ->
    Forall (fun k' => k_z k' <= k_z k) pre ->
    top_chain_z c r (k_tree k) (ox + k_col k) (oy + k_row k) l ->
    top_chain_z c r (Node w x y (pre ++ k :: post)) ox oy (w :: l).

Lemma top_chain_sorted c r t ox oy l :
  top_chain c r t ox oy l -> sorted_tree t -> top_chain_z c r t ox oy l.
Proof.
  induction 1 as [t ox oy F|w x y pre k post ox oy l Pk F _ IH]; intros S.
  - apply tcz_leaf. exact F.
  - inversion S as [? ? ? ? SS FS]; subst. apply tcz_kid; auto.
    + apply (sorted_before_last le_z _ _ _ SS).
    + apply IH. rewrite Forall_forall in FS. apply FS. apply in_or_app. right. left. reflexivity.
Qed.

End Oracle.

(* ================================================================ fuel: finite scripts terminate *)

Lemma tail_cost_beyond script k : (length script <= k)%nat -> tail_cost script k = O.
Proof. intros H. unfold tail_cost. rewrite skipn_all2 by exact H. reflexivity. Qed.

Lemma tail_cost_step script : forall k, (k < length script)%nat ->
  tail_cost script k = (S (cdepth (nth k script CNone)) + tail_cost script (S k))%nat.
Proof.
  unfold tail_cost. induction script as [|x script IH]; intros k H; [cbn in H; lia|].
  destruct k; [reflexivity|]. cbn [skipn nth]. apply IH. cbn in H. lia.
Qed.

Lemma tail_cost_mono script : forall k k', (k <= k')%nat -> (tail_cost script k' <= tail_cost script k)%nat.
Proof.
  intros k k' H. induction H as [|k' H IH]; [lia|].
  destruct (Nat.lt_ge_cases k' (length script)) as [L|L].
  - rewrite (tail_cost_step script k' L) in IH. lia.
  - rewrite (tail_cost_beyond script (S k')) by lia. lia.
Qed.

Lemma nth_beyond script k : (length script <= k)%nat -> nth k script CNone = CNone.
Proof. intros H. apply nth_overflow. exact H. Qed.

Lemma handle_cmd_log_mono oracle fuel s c s' :
  handle_cmd oracle fuel s c = Some s' -> (length (log s) <= length (log s'))%nat.
Proof. intros H. apply (handle_cmd_focused_same oracle _ _ _ _ H). Qed.

(* with a finite script the recursion of handleCommand/focusWidget ends: this fuel is enough *)
Lemma handle_cmd_total script : forall fuel s c,
  (cdepth c + tail_cost script (length (log s)) + 1 <= fuel)%nat ->
  exists s', handle_cmd (script_oracle script) fuel s c = Some s'.
Proof.
  induction fuel as [|f IH]; intros s c H; [lia|].
  assert (Hcall : forall s0 w ev ph, (tail_cost script (length (log s0)) + 1 <= f)%nat ->
             exists s', call (script_oracle script) f s0 w ev ph = Some s').
  { intros s0 w ev ph H0. unfold call, script_oracle. apply IH.
    cbn [add_log log]. rewrite app_length. cbn [length].
    replace (length (log s0) + 1)%nat with (S (length (log s0))) by lia.
    destruct (Nat.lt_ge_cases (length (log s0)) (length script)) as [L|L].
    - rewrite (tail_cost_step script _ L) in H0. lia.
    - rewrite (nth_beyond script _ L). rewrite (tail_cost_beyond script (S (length (log s0)))) by lia. cbn. lia. }
  destruct c; cbn [handle_cmd]; eauto.
  - (* focus *)
    cbn [cdepth] in H. cbn [add_eff focused log].
    destruct (focused s =? w); [eauto|].
    destruct (Hcall (add_eff s (CFocus w)) (focused s) EFocusOut Target) as [s1 E1]; [cbn [add_eff log]; lia|].
    unfold call in E1. cbn [add_eff log focused] in E1. rewrite E1.
    assert (L1 : (length (log s) <= length (log s1))%nat).
    { apply handle_cmd_log_mono in E1. cbn [add_log log] in E1. rewrite app_length in E1. cbn in E1. lia. }
    destruct (Hcall (set_focused s1 w) w EFocusIn Target) as [s2 E2].
    { cbn [set_focused log]. pose proof (tail_cost_mono script _ _ L1). lia. }
    unfold call in E2. eauto.
  - (* batch *)
    cbn [cdepth] in H. revert s H. induction l as [|x l IHl]; intros s H; [eauto|].
    cbn [fold_right] in H.
    destruct (IH s x) as [s1 E1]; [lia|]. rewrite E1.
    apply IHl. apply handle_cmd_log_mono in E1. pose proof (tail_cost_mono script _ _ E1). lia.
Qed.

Section Total.
  Variable script : list cmd.
  Variable capt : wid -> bool.
  Variable fuel : nat.
  Hypothesis Hfuel : (tail_cost script 0 + 1 <= fuel)%nat.
  Let Orc := script_oracle script.

  Lemma call_total s w ev ph : exists s', call Orc fuel s w ev ph = Some s'.
  Proof.
    unfold call, Orc, script_oracle. apply handle_cmd_total.
    cbn [add_log log]. rewrite app_length. cbn [length].
    replace (length (log s) + 1)%nat with (S (length (log s))) by lia.
    pose proof (tail_cost_mono script 0 (length (log s)) (Nat.le_0_l _)) as M.
    destruct (Nat.lt_ge_cases (length (log s)) (length script)) as [L|L].
    - rewrite (tail_cost_step script _ L) in M. lia.
    - rewrite (nth_beyond script _ L). rewrite (tail_cost_beyond script (S (length (log s)))) by lia. cbn. lia.
  Qed.

  Lemma calls_total l : forall s, exists s', calls Orc fuel s l = Some s'.
  Proof.
    induction l as [|[[w ev] ph] l IH]; intros s; cbn [calls]; [eauto|].
    destruct (call_total s w ev ph) as [s1 ->]. cbn [obind]. apply IH.
  Qed.

  Lemma route_total l : forall s, exists r, route Orc fuel s l = Some r.
  Proof.
    induction l as [|[[w ev] ph] l IH]; intros s; cbn [route]; [eauto|].
    destruct (call_total s w ev ph) as [s1 ->]. cbn [obind]. destruct (f_consume s1); [eauto|apply IH].
  Qed.

  Lemma focus_widget_total s w : exists s', focus_widget Orc fuel s w = Some s'.
  Proof.
    unfold focus_widget. destruct (focused s =? w); [eauto|].
    destruct (call_total s (focused s) EFocusOut Target) as [s1 ->]. cbn [obind]. apply call_total.
  Qed.

  Lemma focus_handle_total s ev : exists s', focus_handle Orc capt fuel s ev = Some s'.
  Proof.
    unfold focus_handle.
    destruct (route_total (capture_calls capt ev (path s)) (set_consume (co s) false)) as [[c1 b1] ->].
    cbn [obind fst snd]. destruct b1; [eauto|].
    destruct (route_total [(focused c1, ev, Target)] c1) as [[c2 b2] ->].
    cbn [obind fst snd]. destruct b2; [eauto|].
    destruct (route_total (bubble_calls ev (path s)) c2) as [[c3 b3] ->]. cbn [obind fst snd]. eauto.
  Qed.

  Lemma mouse_update_total s t : exists s', mouse_update Orc fuel s t = Some s'.
  Proof.
    unfold mouse_update. destruct (mouse s); [|eauto].
    match goal with |- context [calls Orc fuel ?c ?l] => destruct (calls_total l c) as [c' ->] end.
    cbn [obind]. eauto.
  Qed.

  Lemma mouse_exit_total s : exists s', mouse_exit Orc fuel s = Some s'.
  Proof.
    unfold mouse_exit.
    match goal with |- context [calls Orc fuel ?c ?l] => destruct (calls_total l c) as [c' ->] end.
    cbn [obind]. eauto.
  Qed.

  Lemma mouse_handle_total s c r : exists s', mouse_handle Orc capt fuel s c r = Some s'.
  Proof.
    unfold mouse_handle.
    destruct (mouse_update_total (with_mouse s (Some (c, r))) (last_frame s)) as [s1 ->]. cbn [obind].
    destruct (last_hits s1) as [|h0 hs]; [eauto|].
    match goal with |- context [route Orc fuel ?c0 ?l] => destruct (route_total l c0) as [[c1 b1] ->] end.
    cbn [obind fst snd]. destruct b1; [eauto|].
    match goal with |- context [route Orc fuel ?c0 ?l] => destruct (route_total l c0) as [[c2 b2] ->] end.
    cbn [obind fst snd]. destruct b2; [eauto|].
    match goal with |- context [route Orc fuel ?c0 ?l] => destruct (route_total l c0) as [[c3 b3] ->] end.
    cbn [obind fst snd]. eauto.
  Qed.

  Lemma update_path_total s t : exists s', update_path Orc fuel s t = Some s'.
  Proof.
    unfold update_path. destruct (child_has_focus t (focused (co s))); [eauto|].
    destruct (focus_widget_total (co s) (root s)) as [c ->]. cbn [obind]. eauto.
  Qed.

  Lemma frame_total s t : exists s', frame Orc fuel s t = Some s'.
  Proof.
    unfold frame. destruct (negb (f_redraw (co s))); [eauto|].
    destruct (mouse_update_total (with_co s (set_redraw (co s) false)) t) as [s1 ->]. cbn [obind].
    match goal with |- context [update_path Orc fuel ?s2 ?t2] => destruct (update_path_total s2 t2) as [s3 ->] end.
    cbn [obind]. eauto.
  Qed.

  Lemma step_total s i : (input_depth i + tail_cost script 0 + 1 <= fuel)%nat -> exists s', step Orc capt fuel s i = Some s'.
  Proof.
    intros Hi. destruct i; cbn [step].
    - apply focus_handle_total.
    - apply mouse_handle_total.
    - destruct (call_total (co s) (root s) EEnter Target) as [c ->]. cbn [obind]. eauto.
    - apply mouse_exit_total.
    - eauto.
    - apply frame_total.
    - destruct (focus_handle_total s EInit) as [s1 ->]. cbn [obind]. eauto.
    - apply mouse_update_total.
    - apply update_path_total.
    - eauto.
    - destruct (update_path_total s (sort_tree t)) as [s1 ->]. cbn [obind]. eauto.
    - apply mouse_exit_total.
    - eauto.
    - destruct (focus_widget_total (co s) w) as [c ->]. cbn [obind]. eauto.
    - cbn [input_depth] in Hi.
      destruct (handle_cmd_total script fuel (co s) c) as [c' E].
      { pose proof (tail_cost_mono script 0 (length (log (co s))) (Nat.le_0_l _)). lia. }
      fold Orc in E. rewrite E. cbn [obind]. eauto.
  Qed.

  Lemma run_total l : forall s,
    Forall (fun i => (input_depth i + tail_cost script 0 + 1 <= fuel)%nat) l ->
    exists s', run Orc capt fuel s l = Some s'.
  Proof.
    induction l as [|i l IH]; intros s F; cbn [run]; [eauto|].
    inversion F; subst. destruct (step_total s i) as [s1 ->]; [assumption|]. cbn [obind].
    destruct (negb (is_tick i) && f_quit (co s1)); [eauto|apply IH; assumption].
  Qed.
End Total.

(* the fuel the model is run with is enough: the out-of-fuel value is never produced *)
Lemma model_fuel_run script capt l s :
  Forall (fun i => input_depth i = O) l ->
  exists s', run (script_oracle script) capt (model_fuel script) s l = Some s'.
Proof.
  intros F. apply run_total; [unfold model_fuel; lia|].
  eapply Forall_impl; [|exact F]. intros i ->. unfold model_fuel. lia.
Qed.

Lemma model_fuel_step script capt i s :
  exists s', step (script_oracle script) capt (model_fuel script + input_depth i) s i = Some s'.
Proof. apply step_total; unfold model_fuel; lia. Qed.

(* ================================================================ the unexcused clauses of the
   observation predicate hold for every run of the model *)

Section Obs.
Variable oracle : list entry -> wid -> event -> phase -> cmd.
Variable capturer : wid -> bool.

(* ---------------------------------------------------------------- focus_after *)

Lemma focus_after_app f a b : focus_after f (a ++ b) = focus_after (focus_after f a) b.
Proof. unfold focus_after. apply fold_left_app. Qed.

Lemma focus_after_cons_non f x d : is_focusin_entry x = false -> focus_after f (x :: d) = focus_after f d.
Proof. unfold focus_after. cbn [fold_left]. intros ->. reflexivity. Qed.

Lemma focus_after_cons_in f x d : is_focusin_entry x = true -> focus_after f (x :: d) = focus_after (e_wid x) d.
Proof. unfold focus_after. cbn [fold_left]. intros ->. reflexivity. Qed.

Definition K_fa (c c' : core) : Prop :=
  exists D, log c' = log c ++ D /\ focused c' = focus_after (focused c) D.

Lemma K_fa_refl c : K_fa c c.
Proof. exists []. rewrite app_nil_r. split; reflexivity. Qed.

Lemma K_fa_trans a b c : K_fa a b -> K_fa b c -> K_fa a c.
Proof.
  intros (D1 & L1 & F1) (D2 & L2 & F2). exists (D1 ++ D2). rewrite L2, L1, app_assoc. split; [reflexivity|].
  rewrite focus_after_app, <- F1. exact F2.
Qed.

Lemma K_fa_same c c' : log c' = log c -> focused c' = focused c -> K_fa c c'.
Proof. intros L F. exists []. rewrite app_nil_r. split; [exact L|exact F]. Qed.

Lemma K_fa_focus_pair c e1 c1 D1 w e2 c' D2 :
  is_focusin_entry e1 = false -> is_focusin_entry e2 = true -> e_wid e2 = w ->
  log c1 = (log c ++ [e1]) ++ D1 -> focused c1 = focus_after (focused c) D1 ->
  log c' = (log c1 ++ [e2]) ++ D2 -> focused c' = focus_after w D2 ->
  K_fa c c'.
Proof.
  intros N1 N2 Ew L1 F1 L2 F2. exists ((e1 :: D1) ++ e2 :: D2). split.
  - rewrite L2, L1, <- !app_assoc. reflexivity.
  - rewrite focus_after_app, (focus_after_cons_non _ _ _ N1), <- F1, (focus_after_cons_in _ _ _ N2), Ew. exact F2.
Qed.

Lemma handle_cmd_fa fuel s c s' : handle_cmd oracle fuel s c = Some s' -> K_fa s s'.
Proof.
  revert fuel s c s'. apply (handle_cmd_rel oracle (fun s c s' => K_fa s s')).
  - intros; apply K_fa_refl.
  - intros s c _. apply K_fa_same; [apply apply_leaf_log|apply apply_leaf_focused].
  - intros s b l s' H. induction H as [s|s x s1 l s2 K1 _ K2]; [apply K_fa_refl|eapply K_fa_trans; eauto].
  - intros s w _. apply K_fa_same; reflexivity.
  - intros s w s1 s2 Hne s0 r1 (D1 & L1 & F1) s1' r2 (D2 & L2 & F2).
    cbn [focused s0 add_eff add_log log set_focused s1'] in *.
    eapply (K_fa_focus_pair s _ s1 D1 w _ s2 D2); [| | |exact L1|exact F1|exact L2|exact F2]; reflexivity.
Qed.

Lemma call_fa fuel c w ev ph c' :
  is_focus_ev ev = false -> call oracle fuel c w ev ph = Some c' -> K_fa c c'.
Proof.
  unfold call. intros Hev H. destruct (handle_cmd_fa _ _ _ _ H) as (D & L & F).
  cbn [add_log log focused] in *. exists ((w, ev, ph, oracle (log c) w ev ph) :: D).
  split; [rewrite L, <- app_assoc; reflexivity|].
  rewrite focus_after_cons_non; [exact F|]. unfold is_focusin_entry. cbn [e_ev fst snd].
  destruct ev; try reflexivity; discriminate.
Qed.

Lemma focusset_fa fuel c w c1 c' :
  call oracle fuel c (focused c) EFocusOut Target = Some c1 ->
  call oracle fuel (set_focused c1 w) w EFocusIn Target = Some c' -> K_fa c c'.
Proof.
  unfold call. intros H1 H2.
  destruct (handle_cmd_fa _ _ _ _ H1) as (D1 & L1 & F1). destruct (handle_cmd_fa _ _ _ _ H2) as (D2 & L2 & F2).
  cbn [add_log log focused set_focused] in *.
  eapply (K_fa_focus_pair c _ c1 D1 w _ c' D2); [| | |exact L1|exact F1|exact L2|exact F2]; reflexivity.
Qed.

Lemma K_fa_flags c b :
  K_fa c (set_consume c b) /\ K_fa c (set_redraw c b) /\ K_fa c (set_refresh c b) /\ K_fa c (set_debug c b).
Proof. repeat split; apply K_fa_same; reflexivity. Qed.

(* the widget that holds the focus is always the one that received the last FocusIn *)
Lemma focused_last_focusin_run fuel l s s' :
  Forall (fun i => match i with IEv e => is_focus_ev e = false | _ => True end) l ->
  run oracle capturer fuel s l = Some s' ->
  exists D, log (co s') = log (co s) ++ D /\ focused (co s') = focus_after (focused (co s)) D.
Proof.
  intros F H.
  refine (K_run oracle capturer K_fa (fun ev => is_focus_ev ev = false) (fun _ => True)
            K_fa_refl K_fa_trans _ _ K_fa_flags _ _ _ _ fuel l s s' _ H).
  - intros; eapply call_fa; eauto.
  - intros; eapply handle_cmd_fa; eauto.
  - intros; eapply focusset_fa; eauto.
  - split; reflexivity.
  - reflexivity.
  - reflexivity.
  - eapply Forall_impl; [|exact F]. intros i Hi. destruct i; cbn; auto.
Qed.

Lemma focused_last_focusin_step fuel s i s' :
  match i with IEv e => is_focus_ev e = false | _ => True end ->
  step oracle capturer fuel s i = Some s' ->
  exists D, log (co s') = log (co s) ++ D /\ focused (co s') = focus_after (focused (co s)) D.
Proof.
  intros Hi H.
  refine (K_step oracle capturer K_fa (fun ev => is_focus_ev ev = false) (fun _ => True)
            K_fa_refl K_fa_trans _ _ K_fa_flags _ _ _ _ fuel s i s' _ H).
  - intros; eapply call_fa; eauto.
  - intros; eapply handle_cmd_fa; eauto.
  - intros; eapply focusset_fa; eauto.
  - split; reflexivity.
  - reflexivity.
  - reflexivity.
  - destruct i; cbn; auto.
Qed.

Lemma route_fa fuel l c c' b :
  Forall (fun x : call3 => is_focus_ev (snd (fst x)) = false) l ->
  route oracle fuel c l = Some (c', b) -> K_fa c c'.
Proof.
  apply (K_route oracle K_fa (fun ev => is_focus_ev ev = false)).
  - apply K_fa_refl.
  - apply K_fa_trans.
  - intros; eapply call_fa; eauto.
  - apply K_fa_flags.
Qed.

(* ---------------------------------------------------------------- key_route_obs *)

Lemma focus_entry_no_target ev x : is_focus_ev ev = false -> focus_entry x = true -> is_target_of ev x = false.
Proof.
  intros Hev Hx. unfold is_target_of. destruct (event_eqb (e_ev x) ev) eqn:E; [|reflexivity].
  apply event_eqb_eq in E. unfold focus_entry in Hx. apply andb_true_iff in Hx as [Hx _].
  rewrite E in Hx. congruence.
Qed.

Lemma all_focus_no_target ev d : is_focus_ev ev = false -> all_focus d -> Forall (fun x => is_target_of ev x = false) d.
Proof. intros Hev F. eapply Forall_impl; [|exact F]. intros x Hx. apply focus_entry_no_target; auto. Qed.

Lemma routedI_no_target ev l D b :
  is_focus_ev ev = false -> routedI l D b ->
  Forall (fun c : call3 => phase_eqb (snd c) Target = false) l ->
  Forall (fun x => is_target_of ev x = false) D.
Proof.
  intros Hev H. induction H as [|w ev0 ph r nested l F _|w ev0 ph r nested l D b F _ _ IH]; intros Hl.
  - constructor.
  - inversion Hl as [|? ? Hp _]; subst. cbn [snd] in Hp. constructor.
    + unfold is_target_of. cbn [e_ph e_ev fst snd]. rewrite Hp. apply andb_false_r.
    + apply all_focus_no_target; auto.
  - inversion Hl as [|? ? Hp Hl']; subst. cbn [snd] in Hp. constructor.
    + unfold is_target_of. cbn [e_ph e_ev fst snd]. rewrite Hp. apply andb_false_r.
    + apply Forall_app. split; [apply all_focus_no_target; auto|apply IH; exact Hl'].
Qed.

Lemma before_target_app ev D1 x R :
  Forall (fun x => is_target_of ev x = false) D1 -> is_target_of ev x = true ->
  before_target ev (D1 ++ x :: R) = D1.
Proof.
  intros F Hx. induction F as [|a D1 Ha _ IH]; cbn [app before_target].
  - now rewrite Hx.
  - rewrite Ha, IH. reflexivity.
Qed.

Lemma capture_calls_phase ev ws :
  Forall (fun c : call3 => phase_eqb (snd c) Target = false) (capture_calls capturer ev ws).
Proof. unfold capture_calls. induction (filter capturer ws); cbn; constructor; auto. Qed.

Lemma calls_ev_ok {A} (f : A -> wid) ev ph (l : list A) :
  is_focus_ev ev = false ->
  Forall (fun x : call3 => is_focus_ev (snd (fst x)) = false) (map (fun a => (f a, ev, ph)) l).
Proof. intros H. induction l; cbn; constructor; auto. Qed.

Lemma routedI_single w ev ph D b :
  routedI [(w, ev, ph)] D b -> exists r rest, D = (w, ev, ph, r) :: rest.
Proof. intros H. inversion H; subst; eauto. Qed.

(* focusHandler.handleEvent: the calls are routed along the stored path and the target call goes
   to the widget that holds the focus when the target phase starts *)
Lemma key_route_obs_model fuel s ev s' :
  is_focus_ev ev = false ->
  focus_handle oracle capturer fuel s ev = Some s' ->
  exists D, log (co s') = log (co s) ++ D /\
            key_route_obs capturer (path s) (focused (co s)) ev D = true.
Proof.
  intros Hev H. unfold focus_handle in H.
  remember (set_consume (co s) false) as c0 eqn:Ec0.
  assert (Lc0 : log c0 = log (co s)) by (subst c0; reflexivity).
  assert (Fc0 : focused c0 = focused (co s)) by (subst c0; reflexivity).
  assert (Cc0 : f_consume c0 = false) by (subst c0; reflexivity).
  destruct (route oracle fuel c0 (capture_calls capturer ev (path s))) as [[c1 b1]|] eqn:E1; [|discriminate].
  cbn [obind fst snd] in H.
  destruct (route_ext oracle _ _ _ _ _ Cc0 E1) as (D1 & e1 & X1 & C1 & R1 & _).
  assert (L1 : log c1 = log (co s) ++ D1) by (destruct X1 as [L _]; rewrite L, Lc0; reflexivity).
  assert (FA : focused c1 = focus_after (focused (co s)) D1).
  { destruct (route_fa _ _ _ _ _ (calls_ev_ok _ ev Capture _ Hev) E1) as (D1' & L1' & F1').
    rewrite Lc0 in L1'. rewrite L1 in L1'. apply app_inv_head in L1'. subst D1'. rewrite F1', Fc0. reflexivity. }
  assert (NT : Forall (fun x => is_target_of ev x = false) D1).
  { eapply routedI_no_target; [exact Hev|exact R1|apply capture_calls_phase]. }
  destruct b1.
  { injection H as <-. exists D1. split; [exact L1|]. unfold key_route_obs.
    eapply routedI_length_b; [exact Hev|]. rewrite seq_calls_route_seq. apply routedI_app_true. exact R1. }
  destruct (route oracle fuel c1 [(focused c1, ev, Target)]) as [[c2 b2]|] eqn:E2; [|discriminate].
  cbn [obind fst snd] in H.
  destruct (route_ext oracle _ _ _ _ _ C1 E2) as (D2 & e2 & X2 & C2 & R2 & _).
  assert (L2 : log c2 = log (co s) ++ D1 ++ D2) by (destruct X2 as [L _]; rewrite L, L1, app_assoc; reflexivity).
  assert (KT : forall R, key_target (focused (co s)) ev (D1 ++ D2 ++ R) = focused c1).
  { intros R. destruct (routedI_single _ _ _ _ _ R2) as (r & rest & ->). unfold key_target. cbn [app].
    rewrite before_target_app; [symmetry; exact FA|exact NT|].
    unfold is_target_of. cbn [e_ev e_ph fst snd]. now rewrite event_eqb_refl. }
  destruct b2.
  { injection H as <-. exists (D1 ++ D2). split; [exact L2|]. unfold key_route_obs.
    eapply routedI_length_b; [exact Hev|]. rewrite seq_calls_route_seq.
    replace (D1 ++ D2) with (D1 ++ D2 ++ []) at 1 by now rewrite app_nil_r.
    rewrite KT. apply routedI_app_false; [exact R1|].
    apply (routedI_app_true _ (bubble_calls ev (path s))) in R2. exact R2. }
  destruct (route oracle fuel c2 (bubble_calls ev (path s))) as [[c3 b3]|] eqn:E3; [|discriminate].
  cbn [obind fst snd] in H. injection H as <-.
  destruct (route_ext oracle _ _ _ _ _ C2 E3) as (D3 & e3 & X3 & C3 & R3 & _).
  exists (D1 ++ D2 ++ D3). split.
  - destruct X3 as [L _]. cbn [co with_co]. rewrite L, L2, <- !app_assoc. reflexivity.
  - unfold key_route_obs. eapply routedI_length_b; [exact Hev|]. rewrite seq_calls_route_seq, KT.
    apply routedI_app_false; [exact R1|]. apply routedI_app_false; [exact R2|exact R3].
Qed.

(* ---------------------------------------------------------------- mouse_route_obs *)

Lemma seg_hover_or_focus l D :
  seg l D -> Forall (fun c : call3 => is_hover_ev (snd (fst c)) = true) l ->
  Forall (fun x => is_hover_ev (e_ev x) = true \/ focus_entry x = true) D.
Proof.
  induction 1 as [|w ev ph r nested l D F _ IH]; intros Hl; [constructor|].
  inversion Hl as [|? ? Hev Hl']; subst. cbn [fst snd] in Hev. constructor; [left; exact Hev|].
  apply Forall_app. split; [|apply IH; exact Hl'].
  eapply Forall_impl; [|exact F]. intros x Hx. right. exact Hx.
Qed.

Lemma hover_calls_all_hover old new :
  Forall (fun c : call3 => is_hover_ev (snd (fst c)) = true) (hover_calls old new).
Proof.
  unfold hover_calls. apply Forall_app. split.
  - induction (filter (fun h => negb (hit_mem h new)) old); cbn; constructor; auto.
  - induction (filter (fun h => negb (hit_mem h old)) new); cbn; constructor; auto.
Qed.

Lemma routedI_not_hover l D b :
  routedI l D b -> Forall (fun c : call3 => is_hover_ev (snd (fst c)) = false) l ->
  Forall (fun x => is_hover_ev (e_ev x) = false) D.
Proof.
  induction 1 as [|w ev ph r nested l F _|w ev ph r nested l D b F _ _ IH]; intros Hl; [constructor| |];
    inversion Hl as [|? ? Hev Hl']; subst; cbn [fst snd] in Hev.
  - constructor; [exact Hev|]. eapply Forall_impl; [|exact F]. intros x Hx. apply focus_entry_not_hover. exact Hx.
  - constructor; [exact Hev|]. apply Forall_app. split; [|apply IH; exact Hl'].
    eapply Forall_impl; [|exact F]. intros x Hx. apply focus_entry_not_hover. exact Hx.
Qed.

Lemma filter_all {A} (P : A -> bool) l : Forall (fun x => P x = true) l -> filter P l = l.
Proof. induction 1 as [|a l Ha _ IH]; cbn; [reflexivity|]. now rewrite Ha, IH. Qed.

Lemma mouse_rd_app Dh Dr :
  Forall (fun x => is_hover_ev (e_ev x) = true \/ focus_entry x = true) Dh ->
  Forall (fun x => is_hover_ev (e_ev x) = false) Dr ->
  match Dr with [] => True | x :: _ => focus_entry x = false end ->
  mouse_rd (Dh ++ Dr) = Dr.
Proof.
  intros Fh Fr Hd. unfold mouse_rd. rewrite filter_app.
  rewrite (filter_all _ Dr) by (eapply Forall_impl; [|exact Fr]; cbn; intros x ->; reflexivity).
  induction Fh as [|a Dh Ha _ IH]; cbn [filter app].
  - destruct Dr as [|x Dr]; [reflexivity|]. cbn [drop_focus]. now rewrite Hd.
  - destruct Ha as [Ha|Ha].
    + rewrite Ha. cbn [negb]. exact IH.
    + rewrite (focus_entry_not_hover _ Ha). cbn [negb app drop_focus]. rewrite Ha. exact IH.
Qed.

(* mouseHandler.handleEvent: routed along the surfaces under the pointer, the target is the
   deepest widget of the topmost chain *)
Lemma mouse_route_obs_model fuel s c r s' :
  wf16 (last_frame s) ->
  mouse_handle oracle capturer fuel s c r = Some s' ->
  exists D, log (co s') = log (co s) ++ D /\ mouse_route_obs capturer (last_frame s) c r D = true.
Proof.
  intros W H.
  destruct (mouse_route_order oracle capturer _ _ _ _ _ H) as (Dh & Dr & e & b & (L & _) & _ & S & _ & _ & _ & _ & _ & M).
  exists (Dh ++ Dr). split; [exact L|]. unfold mouse_route_obs.
  pose proof (seg_hover_or_focus _ _ S (hover_calls_all_hover _ _)) as Fh.
  rewrite <- (hits_at_pointer_all _ c r W).
  destruct (map h_wid (hits_at (last_frame s) (c, r))) as [|w0 ws] eqn:Eh.
  - subst Dr. rewrite mouse_rd_app; [reflexivity|exact Fh|constructor|exact I].
  - destruct M as [RI _].
    rewrite mouse_rd_app; [|exact Fh| |].
    + assert (El : last (pointer_chain (last_frame s) c r) 0 = last (w0 :: ws) 0).
      { rewrite <- Eh, (hits_at_pointer_all _ c r W). unfold pointer_chain, pointer_all.
        destruct (contains_abs 0 0 (last_frame s) c r); [|reflexivity]. symmetry. apply under_all_last. }
      rewrite El. eapply routedI_length_b; [reflexivity|exact RI].
    + eapply routedI_not_hover; [exact RI|]. apply seq_calls_not_hover. reflexivity.
    + eapply routedI_head; [|exact RI]. reflexivity.
Qed.

(* ---------------------------------------------------------------- the hover observer *)

Definition hov_tracks (h : hov_st) (s : st) : Prop :=
  hv_frame h = last_frame s /\ hv_mouse h = mouse s /\ hv_set h = map h_wid (last_hits s) /\
  wf16 (last_frame s).

Definition tree_wf (i : input) : Prop := match tree_of_input i with Some t => wf16 t | None => True end.

Lemma insert_z_Forall (P : Z * Z * Z * tree -> Prop) k l : P k -> Forall P l -> Forall P (insert_z k l).
Proof.
  intros Hk Hl. eapply Permutation_Forall; [apply Permutation_sym, insert_z_perm|]. constructor; assumption.
Qed.

Lemma sort_tree_wf16 t : wf16 t -> wf16 (sort_tree t).
Proof.
  induction t as [w x y kids IH] using tree_ind'. intros W. inversion W as [? ? ? ? Hx Hy Wk]; subst.
  cbn [sort_tree]. constructor; [exact Hx|exact Hy|].
  match goal with |- Forall _ (?G kids []) =>
    assert (E : forall acc, Forall (fun k => wf16 (k_tree k)) acc -> Forall (fun k => wf16 (k_tree k)) (G kids acc)) end.
  { clear W. induction IH as [|k kids Hk _ IHk]; intros acc Fa; [exact Fa|].
    inversion Wk as [|? ? Wk0 Wk']; subst. apply (IHk Wk').
    apply insert_z_Forall; [cbn [k_tree snd]; apply Hk; exact Wk0|exact Fa]. }
  apply E. constructor.
Qed.

Lemma tracks_same h s s' :
  hov_tracks h s -> last_frame s' = last_frame s -> last_hits s' = last_hits s -> mouse s' = mouse s ->
  hov_tracks h s'.
Proof. intros (A & B & C & D) E1 E2 E3. unfold hov_tracks. rewrite E1, E2, E3. auto. Qed.

Lemma tracks_frame h s t :
  hov_tracks h s -> wf16 t -> hov_tracks (mkHov t (hv_mouse h) (hv_set h)) (with_frame s t).
Proof. intros (A & B & C & D) W. unfold hov_tracks. cbn. auto. Qed.

Lemma tracks_mouse_update fuel s t s' h :
  hov_tracks h s -> wf16 t -> mouse_update oracle fuel s t = Some s' ->
  hov_tracks (mkHov (hv_frame h) (hv_mouse h) (hov_at t (hv_mouse h) (hv_set h))) s'.
Proof.
  intros (A & B & C & D) W H. pose proof (mouse_update_spec oracle _ _ _ _ H) as U.
  destruct (mouse s) as [[c r]|] eqn:Em.
  - destruct U as (D0 & e & _ & _ & _ & Lh & _ & _ & Fr & Mo).
    unfold hov_tracks. cbn [hv_frame hv_mouse hv_set]. rewrite B. cbn [hov_at].
    split; [congruence|]. split; [congruence|]. split; [|rewrite Fr; exact D].
    rewrite Lh. symmetry. apply hits_at_pointer_all. exact W.
  - subst s'. unfold hov_tracks. cbn [hv_frame hv_mouse hv_set]. rewrite B. cbn [hov_at]. rewrite Em. auto.
Qed.

Lemma tracks_mouse_exit fuel s s' h :
  hov_tracks h s -> mouse_exit oracle fuel s = Some s' ->
  hov_tracks (mkHov (hv_frame h) (hv_mouse h) []) s'.
Proof.
  intros (A & B & C & D) H. destruct (mouse_exit_spec oracle _ _ _ H) as (D0 & _ & _ & Lh & _ & Fr & Mo).
  unfold hov_tracks. cbn [hv_frame hv_mouse hv_set]. rewrite Lh, Fr, Mo. auto.
Qed.

Lemma tracks_update_path fuel s t s' h :
  hov_tracks h s -> update_path oracle fuel s t = Some s' -> hov_tracks h s'.
Proof.
  intros T H. destruct (update_path_shape oracle _ _ _ _ H) as (D & _ & _ & _ & Fr & Lh & Mo).
  eapply tracks_same; eauto.
Qed.

Lemma tracks_focus_handle fuel s ev s' h :
  hov_tracks h s -> focus_handle oracle capturer fuel s ev = Some s' -> hov_tracks h s'.
Proof.
  intros T H. destruct (key_route_order oracle capturer _ _ _ _ H) as (D & e & tgt & b & _ & _ & (_ & _ & Fr & Lh & Mo) & _).
  eapply tracks_same; eauto.
Qed.

(* the observer's tracker follows the mouse handler's state through every input *)
Lemma hov_tracks_step fuel s i s' h :
  hov_tracks h s -> tree_wf i -> step oracle capturer fuel s i = Some s' ->
  hov_tracks (hov_track (f_redraw (co s)) h i) s'.
Proof.
  intros T Wt H. destruct i; cbn [step] in H; cbn [hov_track]; unfold tree_wf in Wt; cbn [tree_of_input] in Wt.
  - eapply tracks_focus_handle; eauto.
  - destruct (mouse_route_order oracle capturer _ _ _ _ _ H) as (Dh & Dr & e & b & _ & _ & _ & Lh & Mo & _ & _ & Fr & _).
    destruct T as (A & B & C & D). unfold hov_tracks. cbn [hv_frame hv_mouse hv_set].
    rewrite Lh, Mo, Fr, A. split; [reflexivity|]. split; [reflexivity|]. split; [|exact D].
    symmetry. apply hits_at_pointer_all. exact D.
  - destruct (call oracle fuel (co s) (root s) EEnter Target) as [c|]; [|discriminate].
    cbn [obind] in H. injection H as <-. eapply tracks_same; eauto.
  - assert (T0 : hov_tracks (mkHov (hv_frame h) None (hv_set h)) (with_mouse s None)).
    { destruct T as (A & B & C & D). unfold hov_tracks. cbn. auto. }
    apply (tracks_mouse_exit _ _ _ _ T0 H).
  - injection H as <-. eapply tracks_same; eauto.
  - unfold frame in H. destruct (f_redraw (co s)); cbn [negb] in H; [|injection H as <-; exact T].
    destruct (mouse_update oracle fuel (with_co s (set_redraw (co s) false)) t) as [s1|] eqn:E1; [|discriminate].
    cbn [obind] in H.
    match type of H with obind (update_path _ _ ?s2 _) _ = _ => destruct (update_path oracle fuel s2 (sort_tree t)) as [s3|] eqn:E3; [|discriminate] end.
    cbn [obind] in H. injection H as <-.
    assert (T0 : hov_tracks h (with_co s (set_redraw (co s) false))) by (eapply tracks_same; eauto).
    pose proof (tracks_mouse_update _ _ _ _ _ T0 Wt E1) as T1.
    assert (T2 : hov_tracks (mkHov (hv_frame h) (hv_mouse h) (hov_at t (hv_mouse h) (hv_set h))) s3).
    { eapply tracks_update_path; [|exact E3]. eapply tracks_same; [exact T1| | |]; reflexivity. }
    apply (tracks_frame _ _ (sort_tree t) T2). apply sort_tree_wf16. exact Wt.
  - destruct (focus_handle oracle capturer fuel s EInit) as [s1|] eqn:E; [|discriminate].
    cbn [obind] in H. injection H as <-. apply tracks_frame; [|exact Wt]. eapply tracks_focus_handle; eauto.
  - eapply tracks_mouse_update; eauto.
  - eapply tracks_update_path; eauto.
  - injection H as <-. apply tracks_frame; auto.
  - destruct (update_path oracle fuel s (sort_tree t)) as [s1|] eqn:E; [|discriminate].
    cbn [obind] in H. injection H as <-. apply tracks_frame; [|apply sort_tree_wf16; exact Wt].
    eapply tracks_update_path; eauto.
  - eapply tracks_mouse_exit; eauto.
  - injection H as <-. destruct T as (A & B & C & D). unfold hov_tracks. cbn. auto.
  - destruct (focus_widget oracle fuel (co s) w) as [c|]; [|discriminate].
    cbn [obind] in H. injection H as <-. eapply tracks_same; eauto.
  - destruct (handle_cmd oracle fuel (co s) c) as [c'|]; [|discriminate].
    cbn [obind] in H. injection H as <-. eapply tracks_same; eauto.
Qed.

Definition is_termfocusin (i : input) : bool := match i with ITermFocusIn => true | _ => false end.

(* hover_obs holds after every history that starts with nobody hovered *)
Lemma hover_obs_model fuel r l s0 s' h :
  root s0 = r -> log (co s0) = [] -> last_hits s0 = [] -> NoDup (ids (last_frame s0)) ->
  Forall (fun i => match tree_of_input i with Some t => NoDup (ids t) | None => True end) l ->
  Forall (fun i => match i with IEv e => is_hover_ev e = false | _ => True end) l ->
  run oracle capturer fuel s0 l = Some s' ->
  hov_tracks h s' ->
  hover_obs (fun w => (w =? r) && existsb is_termfocusin l) (log (co s')) (hv_set h) = true.
Proof.
  intros R0 L0 H0 N0 Ft Fe H (_ & _ & Hs & _).
  pose (excl := fun x : wid => x = r /\ In ITermFocusIn l).
  assert (J0 : hov_inv excl r s0).
  { unfold hov_inv. rewrite L0, H0. repeat split; auto. constructor. }
  assert (J : hov_inv excl r s').
  { eapply (hov_run oracle capturer); [exact J0| |exact H].
    rewrite Forall_forall in *. intros i Hi. split; [apply Ft; exact Hi|].
    specialize (Fe i Hi). destruct i; auto. split; [reflexivity|exact Hi]. }
  destruct J as (_ & _ & _ & Hv).
  unfold hover_obs. apply forallb_forall. intros w _.
  destruct ((w =? r) && existsb is_termfocusin l) eqn:E; [apply orb_true_r|]. rewrite orb_false_r.
  rewrite Hv.
  - rewrite Hs. unfold wmem. cbn [option_eqb]. apply Bool.eqb_reflx.
  - unfold excl. intros [-> Hin]. rewrite Z.eqb_refl in E. cbn [andb] in E.
    assert (existsb is_termfocusin l = true) by (apply existsb_exists; exists ITermFocusIn; auto). congruence.
Qed.

End Obs.
