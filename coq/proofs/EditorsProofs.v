(* C17 proofs: the TextField and textinput models refine the ideal grapheme line editor. *)
From Coq Require Import ZifyBool.
From Vx Require Import base.Prelude base.ListX model.IdealEditor model.Editors.

(* ------------------------------------------------------------------ generic lemmas *)

Lemma zlist_eqb_eq (a b : text) : zlist_eqb a b = true <-> a = b.
Proof.
  unfold zlist_eqb. revert b; induction a as [|x a IH]; intros [|y b]; simpl; split; intros H;
    try reflexivity; try discriminate.
  - apply andb_true_iff in H as [H1 H2]. apply Z.eqb_eq in H1. apply IH in H2. congruence.
  - injection H as -> ->. apply andb_true_iff; split; [apply Z.eqb_refl | now apply IH].
Qed.

Lemma zlist_eqb_refl (a : text) : zlist_eqb a a = true.
Proof. now apply zlist_eqb_eq. Qed.

Lemma zlen_rev {A} (l : list A) : zlen (rev l) = zlen l.
Proof. unfold zlen; now rewrite rev_length. Qed.

Lemma zlen_firstn {A} (l : list A) k : 0 <= k -> zlen (firstn (Z.to_nat k) l) = Z.min k (zlen l).
Proof. intros H; unfold zlen; rewrite firstn_length; lia. Qed.

Lemma firstn_zlen_app {A} (a b : list A) : firstn (Z.to_nat (zlen a)) (a ++ b) = a.
Proof.
  unfold zlen; rewrite Nat2Z.id.
  rewrite firstn_app, Nat.sub_diag, firstn_all; simpl; now rewrite app_nil_r.
Qed.

Lemma skipn_zlen_app {A} (a b : list A) : skipn (Z.to_nat (zlen a)) (a ++ b) = b.
Proof.
  unfold zlen; rewrite Nat2Z.id.
  rewrite skipn_app, Nat.sub_diag, skipn_all; reflexivity.
Qed.

Lemma firstn_zlen_app' {A} (a : list A) : firstn (Z.to_nat (zlen a)) a = a.
Proof. unfold zlen; rewrite Nat2Z.id; apply firstn_all. Qed.

Lemma skipn_zlen_app' {A} (a : list A) : skipn (Z.to_nat (zlen a)) a = [].
Proof. unfold zlen; rewrite Nat2Z.id; apply skipn_all. Qed.

Lemma concat_nonempty_nil (cs : list text) :
  Forall (fun c => c <> []) cs -> concat cs = [] -> cs = [].
Proof.
  intros HF H; destruct cs as [|c t]; [reflexivity|].
  inversion HF as [|? ? Hc _]; subst. simpl in H. apply app_eq_nil in H as [H _]. contradiction.
Qed.

(* ================================================================== the ideal editor *)

Section IdealFacts.
  Context {G : Type}.
  Implicit Types (l r : list G) (e : ideal G).

  Lemma i_skip_right_text p l r : i_text (i_skip_right p l r) = rev l ++ r.
  Proof.
    revert l; induction r as [|g r IH]; intros l; simpl; [reflexivity|].
    destruct (p g); [|reflexivity]. rewrite IH; simpl. now rewrite <- app_assoc.
  Qed.

  Lemma i_skip_left_text p l r : i_text (i_skip_left p l r) = rev l ++ r.
  Proof.
    revert r; induction l as [|g l IH]; intros r; simpl; [reflexivity|].
    destruct (p g); [|reflexivity]. rewrite IH; simpl. now rewrite <- app_assoc.
  Qed.

  Lemma i_skip_left_left p l r : i_left (i_skip_left p l r) = i_drop_while p l.
  Proof.
    revert r; induction l as [|g l IH]; intros r; simpl; [reflexivity|].
    destruct (p g); [apply IH|reflexivity].
  Qed.

  Lemma i_drop_while_incl p l g : In g (i_drop_while p l) -> In g l.
  Proof.
    induction l as [|x l IH]; simpl; [auto|]. destruct (p x); [right; auto|auto].
  Qed.

  Lemma i_make_text (t : list G) k : i_text (i_make t k) = t.
  Proof. unfold i_make, i_text; cbn. now rewrite rev_involutive, firstn_skipn. Qed.

  Definition iop_ins (o : iop G) : list G :=
    match o with IIns gs | ISet gs => gs | _ => [] end.

  (* an ideal step never invents clusters: what it holds afterwards it held before or
     was given by the operation *)
  Lemma in_i_text e g : In g (i_text e) <-> In g (i_left e) \/ In g (i_right e).
  Proof. unfold i_text; rewrite in_app_iff, <- in_rev; tauto. Qed.

  Lemma in_tl (l : list G) g : In g (tl l) -> In g l.
  Proof. destruct l; simpl; auto. Qed.

  Lemma i_step_incl isw e o g :
    In g (i_text (i_step isw e o)) -> In g (i_text e) \/ In g (iop_ins o).
  Proof.
    destruct e as [l r].
    assert (Hsr : forall p l0 r0, In g (i_text (i_skip_right p l0 r0)) -> In g l0 \/ In g r0).
    { intros p l0 r0; rewrite i_skip_right_text, in_app_iff, <- in_rev; tauto. }
    assert (Hsl : forall p l0 r0, In g (i_text (i_skip_left p l0 r0)) -> In g l0 \/ In g r0).
    { intros p l0 r0; rewrite i_skip_left_text, in_app_iff, <- in_rev; tauto. }
    pose proof (in_tl l g) as Htl. pose proof (in_tl r g) as Htr.
    pose proof (i_drop_while_incl isw (i_drop_while (fun g0 => negb (isw g0)) l) g) as Hd1.
    pose proof (i_drop_while_incl (fun g0 => negb (isw g0)) l g) as Hd2.
    destruct o; cbn [i_step i_left i_right iop_ins]; rewrite (in_i_text (mkIdeal l r)); cbn [i_left i_right].
    all: try solve [rewrite in_i_text; cbn [i_left i_right];
                    repeat (rewrite in_app_iff || rewrite <- in_rev || cbn [In app rev]); tauto].
    all: try solve [destruct l; rewrite in_i_text; cbn [i_left i_right In]; tauto].
    all: try solve [destruct r; rewrite in_i_text; cbn [i_left i_right In]; tauto].
    - intros H. apply Hsr in H. rewrite <- in_i_text in H. apply Hsr in H. tauto.
    - intros H. apply Hsl in H. rewrite <- in_i_text in H. apply Hsl in H. tauto.
    - rewrite i_make_text, in_i_text; cbn [i_left i_right]; tauto.
    - tauto.
  Qed.
End IdealFacts.

Lemma i_step_in_alpha {G} (A : list G) isw (e : ideal G) o :
  in_alpha A (i_text e) -> in_alpha A (iop_ins o) -> in_alpha A (i_text (i_step isw e o)).
Proof.
  unfold in_alpha; rewrite !Forall_forall. intros H1 H2 g Hg.
  apply i_step_incl in Hg as [Hg|Hg]; auto.
Qed.

(* ================================================================== TextField *)

Section TextFieldProofs.
  Variable seg : text -> option (list text).
  Variable A : list text.                           (* the cluster alphabet *)
  Notation inA := (in_alpha A).
  (* boundary stability of the segmentation oracle on the alphabet *)
  Hypothesis seg_stable : forall cs, inA cs -> seg (concat cs) = Some cs.

  Definition tf_rel (st : tf) (e : ideal text) : Prop :=
    inA (i_text e) /\ tf_value st = concat (i_text e) /\
    tf_cursor st = i_index e /\ tf_n st = zlen (i_text e).

  Lemma tf_of_ideal_rel e : inA (i_text e) -> tf_rel (tf_of_ideal e) e.
  Proof. intros H; repeat split; auto. Qed.

  Notation tf_op_ok := (tf_op_ok A).

  Lemma inA_app a b : inA (a ++ b) <-> inA a /\ inA b.
  Proof. apply Forall_app. Qed.
  Lemma inA_rev a : inA a -> inA (rev a).
  Proof. apply Forall_rev. Qed.
  Lemma inA_rev' a : inA (rev a) -> inA a.
  Proof. intros H; rewrite <- (rev_involutive a); now apply inA_rev. Qed.

  (* --- the four grapheme-walking loops --- *)

  Lemma ins_walk_spec a r i s :
    ins_walk (a ++ r) i (i + zlen a) s = concat a ++ s ++ concat r.
  Proof.
    revert i; induction a as [|c a IH]; intros i.
    - rewrite zlen_nil, Z.add_0_r; simpl. destruct r as [|c t]; simpl.
      + now rewrite app_nil_r.
      + now rewrite Z.ltb_irrefl.
    - rewrite zlen_cons. cbn [app ins_walk concat].
      pose proof (zlen_nonneg a). destruct (i <? i + (zlen a + 1)) eqn:E; [|lia].
      replace (i + (zlen a + 1)) with ((i + 1) + zlen a) by lia.
      rewrite IH, <- app_assoc; reflexivity.
  Qed.

  Lemma del_right_walk_past r i c : c < i -> del_right_walk r i c = concat r.
  Proof.
    revert i; induction r as [|x r IH]; intros i H; simpl; [reflexivity|].
    destruct (i =? c) eqn:E; [lia|]. rewrite IH by lia; reflexivity.
  Qed.

  Lemma del_right_walk_spec a x r i :
    del_right_walk (a ++ x :: r) i (i + zlen a) = concat (a ++ r).
  Proof.
    revert i; induction a as [|c a IH]; intros i.
    - rewrite zlen_nil, Z.add_0_r; simpl. rewrite Z.eqb_refl. apply del_right_walk_past; lia.
    - rewrite zlen_cons. cbn [app del_right_walk concat].
      pose proof (zlen_nonneg a). destruct (i =? i + (zlen a + 1)) eqn:E; [lia|].
      replace (i + (zlen a + 1)) with ((i + 1) + zlen a) by lia. now rewrite IH.
  Qed.

  Lemma del_left_walk_past r i c : c <= i -> del_left_walk r i c = concat r.
  Proof.
    revert i; induction r as [|x r IH]; intros i H; simpl; [reflexivity|].
    destruct (i + 1 =? c) eqn:E; [lia|]. rewrite IH by lia; reflexivity.
  Qed.

  Lemma del_left_walk_spec a x r i :
    del_left_walk (a ++ x :: r) i (i + zlen a + 1) = concat (a ++ r).
  Proof.
    revert i; induction a as [|c a IH]; intros i.
    - rewrite zlen_nil, Z.add_0_r; simpl. rewrite Z.eqb_refl. apply del_left_walk_past; lia.
    - rewrite zlen_cons. cbn [app del_left_walk concat].
      pose proof (zlen_nonneg a). destruct (i + 1 =? i + (zlen a + 1) + 1) eqn:E; [lia|].
      replace (i + (zlen a + 1) + 1) with ((i + 1) + zlen a + 1) by lia. now rewrite IH.
  Qed.

  Lemma kill_walk_spec a x r i :
    kill_walk (a ++ x :: r) i (i + zlen a) = concat a.
  Proof.
    revert i; induction a as [|c a IH]; intros i.
    - rewrite zlen_nil, Z.add_0_r; simpl. now rewrite Z.eqb_refl.
    - rewrite zlen_cons. cbn [app kill_walk concat].
      pose proof (zlen_nonneg a). destruct (i =? i + (zlen a + 1)) eqn:E; [lia|].
      replace (i + (zlen a + 1)) with ((i + 1) + zlen a) by lia. now rewrite IH.
  Qed.

  (* --- building related states --- *)

  Lemma tf_rel_intro l r v c n0 :
    inA (rev l ++ r) -> v = concat (rev l ++ r) -> c = zlen l -> n0 = zlen (rev l ++ r) ->
    tf_rel (mkTf v c n0) (mkIdeal l r).
  Proof. intros H -> -> ->; repeat split; auto. Qed.

  Lemma tf_recount_stable cs c n0 :
    inA cs -> tf_recount seg (mkTf (concat cs) c n0) = Some (mkTf (concat cs) c (zlen cs)).
  Proof. intros H. unfold tf_recount; cbn [tf_value tf_cursor]. now rewrite (seg_stable _ H). Qed.

  Lemma tf_CursorTo_rel st e k :
    tf_rel st e -> 0 <= k ->
    tf_rel (tf_CursorTo st k) (i_make (i_text e) k).
  Proof.
    intros (HA & Hv & Hc & Hn) Hk. unfold tf_CursorTo, i_make.
    apply tf_rel_intro; rewrite ?rev_involutive, ?firstn_skipn; auto.
    rewrite zlen_rev, zlen_firstn, Hn by assumption.
    destruct (zlen (i_text e) <? k) eqn:E; lia.
  Qed.

  Lemma i_make_index (l r : list text) :
    i_make (rev l ++ r) (zlen l) = mkIdeal l r.
  Proof.
    unfold i_make. rewrite <- zlen_rev, firstn_zlen_app, skipn_zlen_app, rev_involutive; reflexivity.
  Qed.

  Definition tf_st (l r : list text) : tf := mkTf (concat (rev l ++ r)) (zlen l) (zlen (rev l ++ r)).

  Lemma tf_rel_eq st l r : tf_rel st (mkIdeal l r) <-> st = tf_st l r /\ inA (rev l ++ r).
  Proof.
    unfold tf_rel, tf_st, i_text, i_index; cbn [i_left i_right]. split.
    - intros (HA & Hv & Hc & Hn). destruct st; cbn in *; subst; auto.
    - intros [-> HA]; cbn; auto.
  Qed.

  (* --- one operation of each kind, on the state that mirrors the zipper (l, r) --- *)

  Lemma tf_Insert_st l r ks :
    inA (rev l ++ r) -> inA ks ->
    tf_InsertStringAtCursor seg (tf_st l r) (concat ks) = Some (tf_st (rev ks ++ l) r).
  Proof.
    intros HA Hks. unfold tf_InsertStringAtCursor, tf_insert_raw, tf_st; cbn [tf_value tf_cursor tf_n].
    rewrite (seg_stable _ Hks), (seg_stable _ HA).
    replace (zlen l) with (0 + zlen (rev l)) at 1 by (rewrite zlen_rev; lia).
    rewrite ins_walk_spec.
    assert (HA' : inA (rev (rev ks ++ l) ++ r)).
    { rewrite rev_app_distr, rev_involutive, <- app_assoc.
      apply inA_app in HA as [H1 H2]. apply inA_app; split; [auto|]. apply inA_app; auto. }
    assert (E : concat (rev l) ++ concat ks ++ concat r = concat (rev (rev ks ++ l) ++ r)).
    { rewrite rev_app_distr, rev_involutive, <- app_assoc, !concat_app; reflexivity. }
    rewrite E, tf_recount_stable by assumption. f_equal. f_equal.
    rewrite zlen_app, zlen_rev; lia.
  Qed.

  Lemma inA_drop_mid a x b : inA (a ++ x :: b) -> inA (a ++ b).
  Proof. intros H; apply inA_app in H as [H1 H2]; apply inA_app; split; auto; now inversion H2. Qed.

  Lemma tf_DeleteRight_cons l x r :
    inA (rev l ++ x :: r) -> tf_DeleteRight seg (tf_st l (x :: r)) = Some (tf_st l r).
  Proof.
    intros HA. unfold tf_DeleteRight, tf_st; cbn [tf_value tf_cursor tf_n].
    rewrite zlen_app, zlen_rev, zlen_cons. pose proof (zlen_nonneg r).
    destruct (zlen l + (zlen r + 1) =? zlen l) eqn:E; [lia|].
    rewrite (seg_stable _ HA).
    replace (zlen l) with (0 + zlen (rev l)) at 1 by (rewrite zlen_rev; lia).
    rewrite del_right_walk_spec, tf_recount_stable by (eapply inA_drop_mid; eauto). reflexivity.
  Qed.

  Lemma tf_DeleteRight_nil l : tf_DeleteRight seg (tf_st l []) = Some (tf_st l []).
  Proof.
    unfold tf_DeleteRight, tf_st; cbn [tf_value tf_cursor tf_n].
    rewrite app_nil_r, zlen_rev, Z.eqb_refl; reflexivity.
  Qed.

  Lemma tf_DeleteLeft_cons x l r :
    inA (rev (x :: l) ++ r) -> tf_DeleteLeft seg (tf_st (x :: l) r) = Some (tf_st l r).
  Proof.
    intros HA. unfold tf_DeleteLeft, tf_st; cbn [tf_value tf_cursor tf_n].
    rewrite zlen_cons. pose proof (zlen_nonneg l).
    destruct (zlen l + 1 =? 0) eqn:E; [lia|].
    rewrite (seg_stable _ HA). cbn [rev] in *. rewrite <- app_assoc in *. cbn [app] in *.
    replace (zlen l + 1) with (0 + zlen (rev l) + 1) at 1 by (rewrite zlen_rev; lia).
    rewrite del_left_walk_spec, tf_recount_stable by (eapply inA_drop_mid; eauto).
    cbn [tf_value tf_cursor tf_n]. f_equal. f_equal. lia.
  Qed.

  Lemma tf_DeleteLeft_nil r : tf_DeleteLeft seg (tf_st [] r) = Some (tf_st [] r).
  Proof. reflexivity. Qed.

  Lemma tf_Kill_cons l x r :
    inA (rev l ++ x :: r) -> tf_Kill seg (tf_st l (x :: r)) = Some (tf_st l []).
  Proof.
    intros HA. unfold tf_Kill, tf_st; cbn [tf_value tf_cursor tf_n].
    rewrite zlen_app, zlen_rev, zlen_cons. pose proof (zlen_nonneg r).
    destruct (zlen l =? zlen l + (zlen r + 1)) eqn:E; [lia|].
    rewrite (seg_stable _ HA).
    replace (zlen l) with (0 + zlen (rev l)) at 1 by (rewrite zlen_rev; lia).
    apply inA_app in HA as [H1 _].
    rewrite kill_walk_spec, tf_recount_stable, app_nil_r by assumption. reflexivity.
  Qed.

  Lemma tf_Kill_nil l : tf_Kill seg (tf_st l []) = Some (tf_st l []).
  Proof.
    unfold tf_Kill, tf_st; cbn [tf_value tf_cursor tf_n].
    rewrite app_nil_r, zlen_rev, Z.eqb_refl; reflexivity.
  Qed.

  Lemma tf_CursorTo_st l r k :
    0 <= k -> tf_CursorTo (tf_st l r) k =
              let e := i_make (rev l ++ r) k in tf_st (i_left e) (i_right e).
  Proof.
    intros Hk. unfold tf_CursorTo, tf_st, i_make; cbn [tf_value tf_cursor tf_n i_left i_right].
    rewrite rev_involutive, firstn_skipn, zlen_rev, zlen_firstn by assumption.
    f_equal. destruct (zlen (rev l ++ r) <? k) eqn:E; lia.
  Qed.

  Lemma tf_st_concat_inj l r l' r' :
    inA (rev l ++ r) -> inA (rev l' ++ r') ->
    concat (rev l ++ r) = concat (rev l' ++ r') -> rev l ++ r = rev l' ++ r'.
  Proof.
    intros H1 H2 E. apply seg_stable in H1, H2. rewrite E in H1. congruence.
  Qed.

  Lemma tf_abs_ins_ok o : tf_op_ok o -> inA (iop_ins (tf_abs seg o)).
  Proof.
    destruct o as [s|k| |s|i| | | | |s]; cbn; try (intros; constructor); try destruct k; try constructor.
    - intros (ks & Hks & ->). now rewrite (seg_stable _ Hks).
    - intros (ks & Hks & ->). now rewrite (seg_stable _ Hks).
    - intros [].
  Qed.

  Lemma i_step_inA isw e o : inA (i_text e) -> inA (iop_ins o) -> inA (i_text (i_step isw e o)).
  Proof.
    unfold inA; rewrite !Forall_forall. intros H1 H2 g Hg.
    apply i_step_incl in Hg as [Hg|Hg]; auto.
  Qed.

  (* one operation on the state mirroring the zipper (l, r) yields the state mirroring
     the zipper after the ideal step *)
  Lemma tf_handle_st l r o :
    inA (rev l ++ r) -> tf_op_ok o ->
    let e' := i_step (fun _ => false) (mkIdeal l r) (tf_abs seg o) in
    exists log, tf_handle seg (tf_st l r) o = Some (tf_st (i_left e') (i_right e'), log).
  Proof.
    intros HA Hok.
    destruct o as [s|k| |s|i| | | | |s]; cbn [tf_handle tf_abs tf_iop_of tf_op_text i_step i_left i_right].
    - destruct Hok as (ks & Hks & ->). rewrite (seg_stable _ Hks), tf_Insert_st by assumption.
      cbn. eauto.
    - destruct k; cbn [tf_iop_of i_step i_left i_right].
      + (* Home *) rewrite tf_CursorTo_st by lia. cbn. eauto.
      + (* End *) cbn [tf_n tf_st]. rewrite tf_CursorTo_st by apply zlen_nonneg.
        unfold i_make. rewrite firstn_zlen_app' , skipn_zlen_app'. cbn [i_left i_right].
        rewrite rev_app_distr, rev_involutive. eauto.
      + (* Right *) cbn [tf_cursor tf_st]. pose proof (zlen_nonneg l). rewrite tf_CursorTo_st by lia.
        destruct r as [|x r].
        * unfold i_make. rewrite app_nil_r.
          rewrite firstn_all2, skipn_all2 by (rewrite rev_length; unfold zlen; lia).
          cbn [i_left i_right]. rewrite rev_involutive. eauto.
        * replace (rev l ++ x :: r) with (rev (x :: l) ++ r) by (cbn; now rewrite <- app_assoc).
          replace (zlen l + 1) with (zlen (x :: l)) by (now rewrite zlen_cons).
          rewrite i_make_index. cbn. eauto.
      + (* Left *) destruct l as [|x l].
        * cbn. eauto.
        * cbn [tf_cursor tf_st]. rewrite zlen_cons. pose proof (zlen_nonneg l).
          destruct (zlen l + 1 =? 0) eqn:E; [lia|]. rewrite tf_CursorTo_st by lia.
          replace (rev (x :: l) ++ r) with (rev l ++ x :: r) by (cbn; now rewrite <- app_assoc).
          replace (zlen l + 1 - 1) with (zlen l) by lia.
          rewrite i_make_index. cbn. eauto.
      + (* Delete *) destruct r as [|x r]; [rewrite tf_DeleteRight_nil | rewrite tf_DeleteRight_cons by assumption]; cbn; eauto.
      + (* Backspace *) destruct l as [|x l]; [rewrite tf_DeleteLeft_nil | rewrite tf_DeleteLeft_cons by assumption]; cbn; eauto.
      + (* Kill *) destruct r as [|x r]; [rewrite tf_Kill_nil | rewrite tf_Kill_cons by assumption]; cbn; eauto.
      + (* Enter *) cbn. eauto.
    - cbn. eauto.
    - destruct Hok as (ks & Hks & ->). rewrite (seg_stable _ Hks), tf_Insert_st by assumption.
      cbn. eauto.
    - cbn in Hok. rewrite tf_CursorTo_st by assumption. cbn. eauto.
    - destruct r as [|x r]; [rewrite tf_DeleteRight_nil | rewrite tf_DeleteRight_cons by assumption]; cbn; eauto.
    - destruct l as [|x l]; [rewrite tf_DeleteLeft_nil | rewrite tf_DeleteLeft_cons by assumption]; cbn; eauto.
    - destruct r as [|x r]; [rewrite tf_Kill_nil | rewrite tf_Kill_cons by assumption]; cbn; eauto.
    - cbn. eauto.
    - destruct Hok.
  Qed.

  Theorem tf_run_refines e0 os :
    inA (i_text e0) -> Forall tf_op_ok os ->
    exists st' log, tf_run seg (tf_of_ideal e0) os = Some (st', log) /\
      let e' := i_run (fun _ => false) e0 (map (tf_abs seg) os) in
      st' = tf_of_ideal e' /\ inA (i_text e').
  Proof.
    intros HA Hos. revert e0 HA. induction Hos as [|o os Ho _ IH]; intros e0 HA.
    - cbn. eauto.
    - destruct e0 as [l r]. cbn [tf_run map i_run fold_left].
      change (tf_of_ideal (mkIdeal l r)) with (tf_st l r).
      destruct (tf_handle_st l r o HA Ho) as [log1 H1]. rewrite H1.
      set (e1 := i_step (fun _ => false) (mkIdeal l r) (tf_abs seg o)) in *.
      assert (HA1 : inA (i_text e1)) by (apply i_step_inA; [exact HA | now apply tf_abs_ins_ok]).
      destruct (IH e1 HA1) as (st' & log2 & H2 & H3).
      change (tf_st (i_left e1) (i_right e1)) with (tf_of_ideal e1). rewrite H2.
      exists st', (log1 ++ log2). split; [reflexivity|]. exact H3.
  Qed.

  (* the reading of the refinement: text, cursor index, cached count, range *)
  Corollary tf_refines_ideal e0 os :
    inA (i_text e0) -> Forall tf_op_ok os ->
    exists st' log, tf_run seg (tf_of_ideal e0) os = Some (st', log) /\
      let e' := i_run (fun _ => false) e0 (map (tf_abs seg) os) in
      seg (tf_value st') = Some (i_text e') /\ tf_cursor st' = i_index e' /\
      tf_n st' = zlen (i_text e') /\ 0 <= tf_cursor st' <= zlen (i_text e').
  Proof.
    intros HA Hos. destruct (tf_run_refines e0 os HA Hos) as (st' & log & H1 & H2 & H3).
    exists st', log. split; [exact H1|]. cbv zeta in *. rewrite H2. cbn [tf_of_ideal tf_value tf_cursor tf_n].
    repeat split; auto using seg_stable.
    - apply zlen_nonneg.
    - unfold i_index, i_text. rewrite zlen_app, zlen_rev. pose proof (zlen_nonneg (i_right (i_run (fun _ => false) e0 (map (tf_abs seg) os)))). lia.
  Qed.
End TextFieldProofs.

(* OnChange iff the value changed, OnSubmit iff Enter: for any oracle and any state *)
Lemma tf_callbacks_exact seg st o st' log :
  tf_handle seg st o = Some (st', log) -> tf_cb_ok o (tf_value st) (tf_value st') log = true.
Proof.
  assert (Hcc : forall r, tf_check_changed (tf_value st) r = Some (st', log) ->
                log = if zlist_eqb (tf_value st') (tf_value st) then [] else [CbChange (tf_value st')]).
  { intros [x|]; cbn; [|discriminate]. intros H; injection H as <- <-. reflexivity. }
  assert (Hq : forall r, tf_quiet r = Some (st', log) -> log = []).
  { intros [x|]; cbn; [|discriminate]. intros H; now injection H. }
  assert (Hsym : forall a b, zlist_eqb a b = zlist_eqb b a).
  { intros a b. destruct (zlist_eqb a b) eqn:E1, (zlist_eqb b a) eqn:E2; auto.
    - apply zlist_eqb_eq in E1; subst. now rewrite zlist_eqb_refl in E2.
    - apply zlist_eqb_eq in E2; subst. now rewrite zlist_eqb_refl in E1. }
  assert (Hone : forall v, list_eqb cb_eqb [CbChange v] [CbChange v] = true).
  { intros v; cbn. now rewrite zlist_eqb_refl. }
  destruct o as [s|k| |s|i| | | | |s]; cbn [tf_handle tf_cb_ok tf_is_event andb negb].
  - intros H; apply Hcc in H; subst. rewrite (Hsym (tf_value st)).
    destruct (zlist_eqb (tf_value st') (tf_value st)); cbn; rewrite ?zlist_eqb_refl; auto.
  - destruct k; cbn [tf_is_event andb].
    all: try (intros H; injection H as <- <-; cbn [tf_CursorTo tf_value]; now rewrite zlist_eqb_refl).
    + destruct (tf_cursor st =? 0); intros H; injection H as <- <-; cbn [tf_CursorTo tf_value]; now rewrite zlist_eqb_refl.
    + intros H; apply Hcc in H; subst. rewrite (Hsym (tf_value st)).
      destruct (zlist_eqb (tf_value st') (tf_value st)); cbn; rewrite ?zlist_eqb_refl; auto.
    + intros H; apply Hcc in H; subst. rewrite (Hsym (tf_value st)).
      destruct (zlist_eqb (tf_value st') (tf_value st)); cbn; rewrite ?zlist_eqb_refl; auto.
    + intros H; apply Hcc in H; subst. rewrite (Hsym (tf_value st)).
      destruct (zlist_eqb (tf_value st') (tf_value st)); cbn; rewrite ?zlist_eqb_refl; auto.
    + intros H; injection H as <- <-. cbn. now rewrite zlist_eqb_refl.
  - intros H; injection H as <- <-. now rewrite zlist_eqb_refl.
  - intros H; apply Hq in H; now subst.
  - intros H; injection H as <- <-; reflexivity.
  - intros H; apply Hq in H; now subst.
  - intros H; apply Hq in H; now subst.
  - intros H; apply Hq in H; now subst.
  - intros H; injection H as <- <-; reflexivity.
  - intros H; injection H as <- <-; reflexivity.
Qed.

(* ================================================================== textinput *)

Lemma zslice_mid {B} (a b c : list B) : zslice (a ++ b ++ c) (zlen a) (zlen a + zlen b) = Some b.
Proof.
  unfold zslice. pose proof (zlen_nonneg a); pose proof (zlen_nonneg b); pose proof (zlen_nonneg c).
  rewrite !zlen_app.
  destruct ((zlen a <? 0) || (zlen a + zlen b <? zlen a) || (zlen a + (zlen b + zlen c) <? zlen a + zlen b)) eqn:E; [lia|].
  rewrite skipn_zlen_app. replace (zlen a + zlen b - zlen a) with (zlen b) by lia.
  now rewrite firstn_zlen_app.
Qed.

Lemma zslice_prefix {B} (a c : list B) : zslice (a ++ c) 0 (zlen a) = Some a.
Proof. apply (zslice_mid [] a c). Qed.

Lemma zslice_suffix {B} (a b : list B) n : n = zlen (a ++ b) -> zslice (a ++ b) (zlen a) n = Some b.
Proof.
  intros ->. pose proof (zslice_mid a b []) as H. rewrite app_nil_r in H.
  rewrite zlen_app. exact H.
Qed.

Lemma zinsert_mid {B} (a b vs : list B) : zinsert (a ++ b) (zlen a) vs = Some (a ++ vs ++ b).
Proof.
  unfold zinsert. pose proof (zlen_nonneg a); pose proof (zlen_nonneg b). rewrite zlen_app.
  destruct ((zlen a <? 0) || (zlen a + zlen b <? zlen a)) eqn:E; [lia|].
  now rewrite firstn_zlen_app, skipn_zlen_app.
Qed.

Lemma zup_mid {B} (a b : list B) : zup (a ++ b) (zlen a) = Some b.
Proof.
  unfold zup. pose proof (zlen_nonneg a); pose proof (zlen_nonneg b). rewrite zlen_app.
  destruct (zlen a + zlen b <=? zlen a) eqn:E.
  - f_equal. symmetry. apply zlen_zero_nil; lia.
  - destruct (zlen a <? 0) eqn:E2; [lia|]. now rewrite skipn_zlen_app.
Qed.

Lemma zdown_mid {B} (a b : list B) : zdown (a ++ b) (zlen a - 1) = Some (rev a).
Proof.
  unfold zdown. pose proof (zlen_nonneg a); pose proof (zlen_nonneg b). rewrite zlen_app.
  destruct (zlen a - 1 <? 0) eqn:E.
  - f_equal. assert (a = []) as -> by (apply zlen_zero_nil; lia). reflexivity.
  - destruct (zlen a + zlen b <=? zlen a - 1) eqn:E2; [lia|].
    replace (zlen a - 1 + 1) with (zlen a) by lia. now rewrite firstn_zlen_app.
Qed.

Lemma zinsert_st {B} (l r vs : list B) : zinsert (rev l ++ r) (zlen l) vs = Some (rev l ++ vs ++ r).
Proof. rewrite <- (zlen_rev l). apply zinsert_mid. Qed.
Lemma zup_st {B} (l r : list B) : zup (rev l ++ r) (zlen l) = Some r.
Proof. rewrite <- (zlen_rev l). apply zup_mid. Qed.
Lemma zdown_st {B} (l r : list B) : zdown (rev l ++ r) (zlen l - 1) = Some l.
Proof. rewrite <- (zlen_rev l), zdown_mid. now rewrite rev_involutive. Qed.
Lemma zslice_pre_st {B} (l r : list B) : zslice (rev l ++ r) 0 (zlen l) = Some (rev l).
Proof. rewrite <- (zlen_rev l). apply zslice_prefix. Qed.
Lemma zslice_suf_st {B} (l r : list B) n : n = zlen l + zlen r -> zslice (rev l ++ r) (zlen l) n = Some r.
Proof. intros ->. rewrite <- (zlen_rev l). apply zslice_suffix. now rewrite zlen_app. Qed.

Section TextInputProofs.
  Variable chars : text -> option (list cluster).
  Variable alnum : Z -> bool.
  Variable A : list cluster.
  Notation inA := (in_alpha A).
  Notation isw := (ti_isw alnum).
  Hypothesis chars_stable : forall cs, inA cs -> chars (cl_text cs) = Some cs.

  Definition nonempty (c : cluster) : Prop := fst c <> [].

  Lemma alpha_nonempty c : In c A -> nonempty c.
  Proof.
    intros Hc Hnil. assert (H1 : inA [c]) by (constructor; [exact Hc|constructor]).
    apply chars_stable in H1. unfold cl_text in H1; cbn in H1. rewrite Hnil in H1; cbn in H1.
    assert (H0 : inA []) by constructor. apply chars_stable in H0. cbn in H0. congruence.
  Qed.

  Lemma inA_nonempty cs : inA cs -> Forall nonempty cs.
  Proof. intros H; eapply Forall_impl; [|exact H]. apply alpha_nonempty. Qed.

  Lemma is_alnum_isw c : nonempty c -> is_alnum alnum c = Some (isw c).
  Proof.
    unfold nonempty, is_alnum, ti_isw. destruct (fst c) as [|r [|r2 t]]; intros H; try reflexivity. contradiction.
  Qed.

  Lemma cl_text_nil_inv cs : inA cs -> cl_text cs = [] -> cs = [].
  Proof.
    intros H E. apply inA_nonempty in H. destruct cs as [|c t]; [reflexivity|].
    inversion H as [|? ? Hc _]; subst. unfold cl_text in E; cbn in E.
    apply app_eq_nil in E as [E _]. contradiction.
  Qed.

  (* --- the word loops --- *)

  Lemma skip_fwd_spec want p r l :
    Forall nonempty r -> (forall c, In c r -> Bool.eqb (isw c) want = p c) ->
    skip_while alnum want 1 r (zlen l) = Some (i_index (i_skip_right p l r)).
  Proof.
    revert l; induction r as [|c r IH]; intros l Hne Hp; cbn [skip_while i_skip_right]; [reflexivity|].
    inversion Hne as [|? ? Hc Hr]; subst. rewrite (is_alnum_isw c Hc), (Hp c (or_introl eq_refl)).
    destruct (p c); [|reflexivity].
    replace (zlen l + 1) with (zlen (c :: l)) by (now rewrite zlen_cons).
    apply IH; auto. intros c' Hc'; apply Hp; now right.
  Qed.

  Lemma skip_back_spec want p l cur :
    Forall nonempty l -> (forall c, In c l -> Bool.eqb (isw c) want = p c) ->
    skip_while alnum want (-1) l cur = Some (cur - zlen l + zlen (i_drop_while p l)).
  Proof.
    revert cur; induction l as [|c l IH]; intros cur Hne Hp; cbn [skip_while i_drop_while].
    - f_equal; rewrite zlen_nil; lia.
    - inversion Hne as [|? ? Hc Hl]; subst. rewrite (is_alnum_isw c Hc), (Hp c (or_introl eq_refl)).
      destruct (p c).
      + rewrite IH; auto. * f_equal; rewrite zlen_cons; lia. * intros c' Hc'; apply Hp; now right.
      + f_equal; lia.
  Qed.

  Lemma back_word2_spec l r :
    Forall nonempty l ->
    exists k, back_word2 alnum l (zlen l - 1) = Some k /\
              Z.max 0 k = i_index (i_skip_left isw l r) /\ k <= zlen l.
  Proof.
    revert r; induction l as [|c l IH]; intros r Hne; cbn [back_word2 i_skip_left].
    - exists (-1). rewrite zlen_nil. repeat split; cbn; lia.
    - inversion Hne as [|? ? Hc Hl]; subst. rewrite (is_alnum_isw c Hc). rewrite zlen_cons.
      pose proof (zlen_nonneg l). destruct (isw c).
      + replace (zlen l + 1 - 1 - 1) with (zlen l - 1) by lia.
        destruct (IH (c :: r) Hl) as (k & H1 & H2 & H3). exists k; repeat split; auto; lia.
      + exists (zlen l + 1). repeat split; [f_equal; lia| |lia].
        unfold i_index; cbn [i_left]. rewrite zlen_cons; lia.
  Qed.

  Lemma negb_eqb_false b : Bool.eqb b false = negb b.
  Proof. now destruct b. Qed.
  Lemma eqb_true_id b : Bool.eqb b true = b.
  Proof. now destruct b. Qed.

  (* --- states mirroring a zipper --- *)

  Definition ti_st (l r : list cluster) (off : Z) (paste : text) (prompt : list cluster) : ti :=
    mkTi (rev l ++ r) (zlen l) off paste prompt.

  Lemma ti_clamp_val content c off p pr :
    ti_clamp (mkTi content c off p pr) = mkTi content (Z.max 0 (Z.min c (zlen content))) off p pr.
  Proof.
    unfold ti_clamp, ti_set; cbn [ti_content ti_cursor ti_offset ti_paste ti_prompt].
    f_equal. pose proof (zlen_nonneg content).
    destruct (zlen content <? c) eqn:E1; [destruct (zlen content <? 0) eqn:E2 | destruct (c <? 0) eqn:E2]; lia.
  Qed.

  Lemma ti_clamp_st l r off p pr : ti_clamp (ti_st l r off p pr) = ti_st l r off p pr.
  Proof.
    unfold ti_st. rewrite ti_clamp_val. f_equal. rewrite zlen_app, zlen_rev.
    pose proof (zlen_nonneg l); pose proof (zlen_nonneg r). lia.
  Qed.

  Lemma ti_st_of_ideal (e : ideal cluster) off p pr :
    ti_st (i_left e) (i_right e) off p pr = ti_of_ideal e off p pr.
  Proof. reflexivity. Qed.

  (* a state whose content is the text of e and whose cursor clamps to the index of e *)
  Lemma ti_clamp_ideal (e : ideal cluster) c off p pr :
    Z.max 0 (Z.min c (zlen (i_text e))) = i_index e ->
    ti_clamp (mkTi (i_text e) c off p pr) = ti_of_ideal e off p pr.
  Proof. intros H. rewrite ti_clamp_val, H. reflexivity. Qed.

  Lemma ins_each_spec l r ks :
    ins_each (rev l ++ r) (zlen l) ks = Some (rev (rev ks ++ l) ++ r, zlen (rev ks ++ l)).
  Proof.
    revert l; induction ks as [|c ks IH]; intros l; cbn [ins_each rev app]; [reflexivity|].
    rewrite zinsert_st. replace (rev l ++ [c] ++ r) with (rev (c :: l) ++ r) by (cbn; now rewrite <- app_assoc).
    replace (zlen l + 1) with (zlen (c :: l)) by (now rewrite zlen_cons).
    rewrite IH. now rewrite <- (app_assoc (rev ks) [c] l).
  Qed.

  Definition pasteA (p : text) : Prop := exists ps, inA ps /\ p = cl_text ps.

  Lemma cl_text_app a b : cl_text (a ++ b) = cl_text a ++ cl_text b.
  Proof. unfold cl_text. now rewrite map_app, concat_app. Qed.

  Lemma index_le_text (e : ideal cluster) : 0 <= i_index e <= zlen (i_text e).
  Proof.
    unfold i_index, i_text. rewrite zlen_app, zlen_rev.
    pose proof (zlen_nonneg (i_left e)); pose proof (zlen_nonneg (i_right e)); lia.
  Qed.

  (* Update on the state mirroring (l, r) gives the state mirroring the ideal step *)
  Lemma ti_clamp_zip l r c off p pr :
    Z.max 0 (Z.min c (zlen l + zlen r)) = zlen l ->
    ti_clamp (mkTi (rev l ++ r) c off p pr) = ti_of_ideal (mkIdeal l r) off p pr.
  Proof.
    intros H. apply (ti_clamp_ideal (mkIdeal l r)). unfold i_text, i_index; cbn [i_left i_right].
    now rewrite zlen_app, zlen_rev.
  Qed.

  Ltac znil := change (zlen (@nil cluster)) with 0 in *.

  Lemma ti_update_st l r off paste pr ev :
    inA (rev l ++ r) -> pasteA paste -> ti_op_ok A (OEv ev) ->
    let ap := ti_abs_step chars paste (OEv ev) in
    let e' := i_step isw (mkIdeal l r) (fst ap) in
    ti_update chars alnum (ti_st l r off paste pr) ev = Some (ti_of_ideal e' off (snd ap) pr).
  Proof.
    intros HA HP Hok. pose proof (inA_nonempty _ HA) as Hne.
    assert (Hl : Forall nonempty l).
    { apply Forall_app in Hne as [H _]. rewrite <- (rev_involutive l). now apply Forall_rev. }
    assert (Hr : Forall nonempty r) by (apply Forall_app in Hne as [_ H]; exact H).
    pose proof (zlen_nonneg l) as Hl0. pose proof (zlen_nonneg r) as Hr0.
    unfold ti_update, ti_st.
    destruct ev as [ | |s|k|md s| ]; cbn [ti_abs_step ti_abs1 fst snd i_step i_left i_right ti_update_body
                                           ti_content ti_cursor ti_offset ti_paste ti_prompt];
      unfold ti_set; cbn [ti_content ti_cursor ti_offset ti_paste ti_prompt].
    - (* paste end *)
      destruct HP as (ps & Hps & ->). unfold chars_or_nil. rewrite (chars_stable _ Hps), zinsert_st.
      apply f_equal. replace (rev l ++ ps ++ r) with (rev (rev ps ++ l) ++ r)
        by (now rewrite rev_app_distr, rev_involutive, <- app_assoc).
      apply ti_clamp_zip. rewrite zlen_app, zlen_rev. pose proof (zlen_nonneg ps). lia.
    - (* release *) reflexivity.
    - (* paste chunk *) reflexivity.
    - destruct k; cbn [ti_abs1 i_step i_left i_right ti_set ti_content ti_cursor ti_offset ti_paste ti_prompt];
        unfold ti_set; cbn [ti_content ti_cursor ti_offset ti_paste ti_prompt].
      + (* Home *) apply f_equal. apply (ti_clamp_ideal (mkIdeal [] (rev l ++ r))).
        unfold i_index, i_text; cbn. pose proof (zlen_nonneg (rev l ++ r)). lia.
      + (* End *) apply f_equal.
        assert (E : rev l ++ r = rev (rev r ++ l) ++ []) by (now rewrite rev_app_distr, rev_involutive, app_nil_r).
        rewrite E.
        apply (ti_clamp_zip (rev r ++ l) []). repeat (rewrite zlen_app || rewrite zlen_rev). znil. lia.
      + (* Right *) apply f_equal. destruct r as [|x r].
        * apply ti_clamp_zip. znil; lia.
        * replace (rev l ++ x :: r) with (rev (x :: l) ++ r) by (cbn [rev]; now rewrite <- app_assoc).
          apply ti_clamp_zip. rewrite !zlen_cons in *. pose proof (zlen_nonneg r). lia.
      + (* Left *) apply f_equal. destruct l as [|x l].
        * apply ti_clamp_zip. znil; lia.
        * replace (rev (x :: l) ++ r) with (rev l ++ x :: r) by (cbn [rev]; now rewrite <- app_assoc).
          apply ti_clamp_zip. rewrite !zlen_cons in *. pose proof (zlen_nonneg l). lia.
      + (* word forward *)
        rewrite zup_st.
        rewrite (skip_fwd_spec false (fun g => negb (isw g)) r l Hr) by (intros; apply negb_eqb_false).
        set (e1 := i_skip_right (fun g => negb (isw g)) l r).
        assert (T1 : rev l ++ r = i_text e1) by (symmetry; apply i_skip_right_text).
        rewrite T1. unfold i_text at 1. change (i_index e1) with (zlen (i_left e1)). rewrite zup_st.
        assert (Hr1 : Forall nonempty (i_right e1)).
        { rewrite T1 in Hne. unfold i_text in Hne. now apply Forall_app in Hne as [_ H]. }
        rewrite (skip_fwd_spec true isw (i_right e1) (i_left e1) Hr1) by (intros; apply eqb_true_id).
        set (e2 := i_skip_right isw (i_left e1) (i_right e1)).
        assert (T2 : i_text e1 = i_text e2) by (symmetry; apply i_skip_right_text).
        apply f_equal. rewrite T2.
        apply ti_clamp_ideal. pose proof (index_le_text e2). lia.
      + (* word backward *)
        rewrite zlen_app, zlen_rev.
        destruct (zlen l + zlen r <=? zlen l - 1) eqn:E; [lia|]. clear E.
        rewrite zdown_st.
        rewrite (skip_back_spec false (fun g => negb (isw g)) l _ Hl) by (intros; apply negb_eqb_false).
        set (e1 := i_skip_left (fun g => negb (isw g)) l r).
        assert (L1 : i_drop_while (fun g => negb (isw g)) l = i_left e1) by (symmetry; apply i_skip_left_left).
        assert (T1 : rev l ++ r = i_text e1) by (symmetry; apply i_skip_left_text).
        rewrite L1, T1.
        replace (zlen l - 1 - zlen l + zlen (i_left e1)) with (zlen (i_left e1) - 1) by lia.
        unfold i_text at 1. rewrite zdown_st.
        assert (Hl1 : Forall nonempty (i_left e1)).
        { rewrite T1 in Hne. unfold i_text in Hne. apply Forall_app in Hne as [H _].
          rewrite <- (rev_involutive (i_left e1)). now apply Forall_rev. }
        destruct (back_word2_spec (i_left e1) (i_right e1) Hl1) as (k & Hk1 & Hk2 & Hk3). rewrite Hk1.
        set (e2 := i_skip_left isw (i_left e1) (i_right e1)) in *.
        assert (T2 : i_text e1 = i_text e2) by (symmetry; apply i_skip_left_text).
        apply f_equal. rewrite T2.
        apply ti_clamp_ideal. pose proof (index_le_text e2). pose proof (index_le_text e1).
        rewrite <- T2. unfold i_index at 2 in H0. lia.
      + (* Delete *)
        rewrite zlen_app, zlen_rev. destruct r as [|x r].
        * znil; rewrite Z.add_0_r, Z.eqb_refl, zslice_pre_st. apply f_equal. cbn [tl].
          rewrite <- (app_nil_r (rev l)). apply ti_clamp_zip. znil; lia.
        * rewrite zlen_cons. pose proof (zlen_nonneg r). destruct (zlen l =? zlen l + (zlen r + 1)) eqn:E; [lia|]. clear E.
          rewrite zslice_pre_st.
          replace (rev l ++ x :: r) with (rev (x :: l) ++ r) by (cbn [rev]; now rewrite <- app_assoc).
          replace (zlen l + 1) with (zlen (x :: l)) by (now rewrite zlen_cons).
          rewrite zslice_suf_st by (rewrite zlen_cons; lia).
          apply f_equal. cbn [tl]. apply ti_clamp_zip. lia.
      + (* kill to end *)
        rewrite zslice_pre_st. apply f_equal.
        rewrite <- (app_nil_r (rev l)). apply ti_clamp_zip. znil; lia.
      + (* kill to start *)
        rewrite zslice_suf_st by (now rewrite zlen_app, zlen_rev). apply f_equal.
        apply (ti_clamp_zip [] r). znil; lia.
      + (* backspace *)
        destruct l as [|x l]; [reflexivity|].
        rewrite zlen_cons in *. pose proof (zlen_nonneg l). destruct (zlen l + 1 =? 0) eqn:E; [lia|]. clear E.
        rewrite zlen_app, zlen_rev, zlen_cons. replace (zlen l + 1 - 1) with (zlen l) by lia.
        replace (rev (x :: l) ++ r) with (rev l ++ x :: r) by (cbn [rev]; now rewrite <- app_assoc).
        rewrite zslice_pre_st. cbn [tl].
        destruct r as [|y r].
        * znil; rewrite Z.add_0_r, Z.eqb_refl. apply f_equal.
          rewrite <- (app_nil_r (rev l)). apply ti_clamp_zip. znil; lia.
        * rewrite zlen_cons. pose proof (zlen_nonneg r). destruct (zlen l + 1 =? zlen l + 1 + (zlen r + 1)) eqn:E; [lia|]. clear E.
          replace (rev l ++ x :: y :: r) with (rev (x :: l) ++ y :: r) by (cbn [rev]; now rewrite <- app_assoc).
          replace (zlen l + 1) with (zlen (x :: l)) by (now rewrite zlen_cons).
          rewrite zslice_suf_st by (rewrite !zlen_cons; lia).
          apply f_equal. apply ti_clamp_zip. rewrite !zlen_cons. lia.
      + (* kill word *)
        destruct l as [|x l0]; [reflexivity|]. set (l := x :: l0) in *.
        assert (Hlpos : zlen l = zlen l0 + 1) by (unfold l; now rewrite zlen_cons).
        pose proof (zlen_nonneg l0). destruct (zlen l =? 0) eqn:E; [lia|]. clear E.
        rewrite zdown_st.
        rewrite (skip_back_spec false (fun g => negb (isw g)) l _ Hl) by (intros; apply negb_eqb_false).
        replace (zlen l - zlen l + zlen (i_drop_while (fun g => negb (isw g)) l))
          with (zlen (i_drop_while (fun g => negb (isw g)) l)) by lia.
        set (e1 := i_skip_left (fun g => negb (isw g)) l r).
        assert (L1 : i_drop_while (fun g => negb (isw g)) l = i_left e1) by (symmetry; apply i_skip_left_left).
        assert (T1 : rev l ++ r = i_text e1) by (symmetry; apply i_skip_left_text).
        rewrite L1. rewrite T1 at 1. unfold i_text at 1. rewrite zdown_st.
        assert (Hl1 : Forall nonempty (i_left e1)).
        { rewrite T1 in Hne. unfold i_text in Hne. apply Forall_app in Hne as [Hx _].
          rewrite <- (rev_involutive (i_left e1)). now apply Forall_rev. }
        rewrite (skip_back_spec true isw (i_left e1) _ Hl1) by (intros; apply eqb_true_id).
        replace (zlen (i_left e1) - zlen (i_left e1) + zlen (i_drop_while isw (i_left e1)))
          with (zlen (i_drop_while isw (i_left e1))) by lia.
        set (e2 := i_skip_left isw (i_left e1) (i_right e1)).
        assert (L2 : i_drop_while isw (i_left e1) = i_left e2) by (symmetry; apply i_skip_left_left).
        assert (T2 : i_text e1 = i_text e2) by (symmetry; apply i_skip_left_text).
        rewrite L2. rewrite T1 at 1. rewrite T2. unfold i_text at 1. rewrite zslice_pre_st.
        rewrite zslice_suf_st by (now rewrite zlen_app, zlen_rev).
        apply f_equal. rewrite <- L2, <- L1.
        apply ti_clamp_zip.
        pose proof (zlen_nonneg (i_drop_while isw (i_drop_while (fun g => negb (isw g)) l))). lia.
    - (* default *)
      destruct md; [reflexivity|]. cbn in Hok. destruct Hok as (ks & Hks & ->).
      unfold chars_or_nil. rewrite (chars_stable _ Hks).
      destruct (cl_text ks) eqn:E.
      + apply cl_text_nil_inv in E; [|exact Hks]. subst ks. cbn [rev app].
        apply f_equal. apply ti_clamp_zip. lia.
      + rewrite ins_each_spec. apply f_equal. cbn [i_step i_left i_right].
        unfold ti_set; cbn [ti_offset ti_paste ti_prompt].
        apply ti_clamp_zip. pose proof (zlen_nonneg (rev ks ++ l)). lia.
    - (* other *) apply f_equal. apply ti_clamp_zip. lia.
  Qed.

  Lemma ti_set_content_st m ks :
    inA ks -> ti_set_content chars m (cl_text ks) =
              Some (ti_of_ideal (mkIdeal (rev ks) []) (ti_offset m) (ti_paste m) (ti_prompt m)).
  Proof.
    intros H. unfold ti_set_content, ti_of_ideal, ti_set, i_text, i_index; cbn [i_left i_right].
    now rewrite (chars_stable _ H), rev_involutive, app_nil_r, zlen_rev.
  Qed.
End TextInputProofs.

(* --- Draw terminates: the fuel of the model always suffices --- *)

Lemma scroll_loop_fuel fuel cs cursor offset col w :
  (Z.to_nat (cursor - offset) < fuel)%nat -> scroll_loop fuel cs cursor offset col w <> None.
Proof.
  revert offset; induction fuel as [|f IH]; intros offset Hf; [lia|].
  cbn [scroll_loop].
  destruct ((width_to_cursor cs cursor offset + col + scrolloff >=? w) && (offset <? cursor)) eqn:E; [|discriminate].
  apply IH. apply andb_true_iff in E as [_ E]. lia.
Qed.

Lemma ti_draw_no_hang m w : ti_draw m w <> DrawHang.
Proof.
  unfold ti_draw. destruct (w =? 0); [discriminate|].
  destruct (prompt_walk (ti_prompt m) 0 w) as [col|]; [|discriminate].
  destruct (scroll_loop (scroll_fuel m) (ti_content m) (ti_cursor m) (ti_offset m) col w) eqn:E; [discriminate|].
  exfalso. revert E. apply scroll_loop_fuel. unfold scroll_fuel. lia.
Qed.

Section TextInputRun.
  Variable chars : text -> option (list cluster).
  Variable alnum : Z -> bool.
  Variable A : list cluster.
  Notation inA := (in_alpha A).
  Notation isw := (ti_isw alnum).
  Hypothesis chars_stable : forall cs, inA cs -> chars (cl_text cs) = Some cs.

  Lemma ti_abs_step_ok paste o :
    pasteA A paste -> ti_op_ok A o ->
    inA (iop_ins (fst (ti_abs_step chars paste o))) /\ pasteA A (snd (ti_abs_step chars paste o)).
  Proof.
    intros HP Hok. assert (Hnil : inA []) by constructor.
    destruct o as [ev|s|w]; [destruct ev as [ | |s|k|md s| ] | |]; cbn [ti_abs_step ti_abs1 fst snd iop_ins]; auto.
    - destruct HP as (ps & Hps & ->). unfold chars_or_nil. rewrite (chars_stable _ Hps). split; auto.
      exists []; split; auto.
    - destruct Hok as (ks & Hks & ->). destruct HP as (ps & Hps & ->). split; auto.
      exists (ps ++ ks). split; [apply Forall_app; auto|]. now rewrite cl_text_app.
    - destruct k; cbn; auto.
    - destruct md; cbn [iop_ins]; auto. destruct Hok as (ks & Hks & ->).
      unfold chars_or_nil. rewrite (chars_stable _ Hks). auto.
    - destruct Hok as (ks & Hks & ->). unfold chars_or_nil. rewrite (chars_stable _ Hks). auto.
  Qed.

  Lemma ti_step_st e off paste pr o :
    inA (i_text e) -> pasteA A paste -> ti_op_ok A o ->
    let ap := ti_abs_step chars paste o in
    exists off' shown,
      ti_step chars alnum (ti_of_ideal e off paste pr) o =
      TiOk (ti_of_ideal (i_step isw e (fst ap)) off' (snd ap) pr) shown.
  Proof.
    intros HA HP Hok. destruct e as [l r]. destruct o as [ev|s|w]; cbn [ti_step].
    - change (ti_of_ideal (mkIdeal l r) off paste pr) with (ti_st l r off paste pr).
      rewrite (ti_update_st chars alnum A chars_stable l r off paste pr ev HA HP Hok). eauto.
    - destruct Hok as (ks & Hks & ->). rewrite (ti_set_content_st chars A chars_stable _ ks Hks).
      cbn [ti_abs_step ti_abs1 fst snd i_step]. unfold chars_or_nil. rewrite (chars_stable _ Hks).
      cbn [ti_of_ideal ti_offset ti_paste ti_prompt]. eauto.
    - pose proof (ti_draw_no_hang (ti_of_ideal (mkIdeal l r) off paste pr) w) as Hh.
      destruct (ti_draw (ti_of_ideal (mkIdeal l r) off paste pr) w) as [|o shown]; [contradiction|].
      cbn. exists o, shown. reflexivity.
  Qed.

  Theorem ti_run_refines e0 off paste pr os :
    inA (i_text e0) -> pasteA A paste -> Forall (ti_op_ok A) os ->
    exists off', ti_run chars alnum (ti_of_ideal e0 off paste pr) os =
      Some (ti_of_ideal (i_run isw e0 (ti_abs chars paste os)) off'
                        (fold_left (fun p o => snd (ti_abs_step chars p o)) os paste) pr) /\
      inA (i_text (i_run isw e0 (ti_abs chars paste os))).
  Proof.
    intros HA HP Hos. revert e0 off paste HA HP. induction Hos as [|o os Ho _ IH]; intros e0 off paste HA HP.
    - cbn. eauto.
    - cbn [ti_run ti_abs i_run fold_left].
      destruct (ti_step_st e0 off paste pr o HA HP Ho) as (off1 & shown & H1). rewrite H1.
      destruct (ti_abs_step_ok paste o HP Ho) as [Hi Hp1].
      apply IH; [now apply i_step_in_alpha | exact Hp1].
  Qed.
End TextInputRun.

(* ================================================================== a concrete stable oracle
   (non-vacuity of the stability hypothesis): longest-known-prefix tokenisation over an
   alphabet in which a cluster is determined by its first rune *)

Fixpoint strip_prefix (p t : text) : option text :=
  match p, t with
  | [], _ => Some t
  | x :: p', y :: t' => if x =? y then strip_prefix p' t' else None
  | _ :: _, [] => None
  end.

Fixpoint match_first (A : list cluster) (t : text) : option (cluster * text) :=
  match A with
  | [] => None
  | c :: A' => match fst c with
               | [] => match_first A' t
               | _ => match strip_prefix (fst c) t with
                      | Some rest => Some (c, rest)
                      | None => match_first A' t
                      end
               end
  end.

Fixpoint chars_tab_fuel (fuel : nat) (A : list cluster) (t : text) : option (list cluster) :=
  match t with
  | [] => Some []
  | _ => match fuel with
         | O => None
         | S f => match match_first A t with
                  | Some (c, rest) => match chars_tab_fuel f A rest with
                                      | Some cs => Some (c :: cs)
                                      | None => None
                                      end
                  | None => None
                  end
         end
  end.
Definition chars_tab (A : list cluster) (t : text) : option (list cluster) :=
  chars_tab_fuel (length t) A t.
Definition seg_tab (A : list cluster) (t : text) : option (list text) :=
  match chars_tab A t with Some cs => Some (map fst cs) | None => None end.

(* no empty cluster, and two clusters with the same first rune are the same cluster *)
Definition head_distinct (A : list cluster) : Prop :=
  (forall c, In c A -> fst c <> []) /\
  (forall c d, In c A -> In d A -> hd 0 (fst c) = hd 0 (fst d) -> c = d).

Lemma strip_prefix_app p t : strip_prefix p (p ++ t) = Some t.
Proof. induction p as [|x p IH]; simpl; [reflexivity|]. now rewrite Z.eqb_refl. Qed.

Lemma strip_prefix_head p t rest : strip_prefix p t = Some rest -> p <> [] -> hd 0 p = hd 0 t.
Proof.
  destruct p as [|x p]; [congruence|]. destruct t as [|y t]; simpl; [discriminate|].
  destruct (x =? y) eqn:E; [|discriminate]. intros _ _. lia.
Qed.

Lemma match_first_stable A c t :
  head_distinct A -> In c A -> match_first A (fst c ++ t) = Some (c, t).
Proof.
  intros [Hne Hd] Hc.
  assert (G : forall B, (forall d, In d B -> In d A) -> In c B -> match_first B (fst c ++ t) = Some (c, t)).
  { induction B as [|d B IH]; intros Hsub HcB; [destruct HcB|]. cbn [match_first].
    assert (HdA : In d A) by (apply Hsub; now left).
    pose proof (Hne d HdA) as Hdne. destruct (fst d) as [|x dt] eqn:Ed; [contradiction|].
    rewrite <- Ed. destruct (strip_prefix (fst d) (fst c ++ t)) as [rest|] eqn:Es.
    - assert (d = c) as ->.
      { apply Hd; auto. apply strip_prefix_head in Es; [|now rewrite Ed].
        rewrite Es. pose proof (Hne c Hc). destruct (fst c); [contradiction|reflexivity]. }
      rewrite strip_prefix_app in Es. injection Es as <-. reflexivity.
    - destruct HcB as [->|HcB]; [now rewrite strip_prefix_app in Es|].
      apply IH; auto. intros d' Hd'. apply Hsub; now right. }
  apply G; auto.
Qed.

Lemma chars_tab_fuel_stable A cs fuel :
  head_distinct A -> in_alpha A cs -> (length (cl_text cs) <= fuel)%nat ->
  chars_tab_fuel fuel A (cl_text cs) = Some cs.
Proof.
  intros HD. revert fuel; induction cs as [|c cs IH]; intros fuel HA Hf.
  - destruct fuel; reflexivity.
  - inversion HA as [|? ? Hc Hcs]; subst. unfold cl_text in *; cbn [map concat] in *.
    pose proof (proj1 HD c Hc) as Hne. rewrite app_length in Hf.
    destruct (fst c) as [|x ct] eqn:Ec; [contradiction|]. cbn [app length] in *.
    destruct fuel as [|f]; [lia|]. cbn [chars_tab_fuel].
    change (x :: ct ++ concat (map fst cs)) with ((x :: ct) ++ concat (map fst cs)).
    rewrite <- Ec, match_first_stable by assumption. rewrite IH; auto. lia.
Qed.

Lemma chars_tab_stable A cs : head_distinct A -> in_alpha A cs -> chars_tab A (cl_text cs) = Some cs.
Proof. intros HD HA. apply chars_tab_fuel_stable; auto. Qed.

Lemma in_alpha_map_fst (A : list cluster) (ts : list text) :
  in_alpha (map fst A) ts -> exists cs, in_alpha A cs /\ map fst cs = ts.
Proof.
  induction ts as [|t ts IH]; intros H.
  - exists []; split; [constructor|reflexivity].
  - inversion H as [|? ? Ht Hts]; subst. apply in_map_iff in Ht as (c & <- & Hc).
    destruct (IH Hts) as (cs & H1 & <-). exists (c :: cs). split; [constructor; auto|reflexivity].
Qed.

Lemma seg_tab_stable A ts : head_distinct A -> in_alpha (map fst A) ts -> seg_tab A (concat ts) = Some ts.
Proof.
  intros HD H. destruct (in_alpha_map_fst A ts H) as (cs & H1 & <-).
  unfold seg_tab. fold (cl_text cs). now rewrite chars_tab_stable.
Qed.

(* the alphabet of the examples: narrow letters and digits, punctuation, wide CJK, a
   combining sequence, a ZWJ sequence, a flag *)
Definition demo_alpha : list cluster :=
  [([97], 1); ([98], 1); ([49], 1); ([32], 1); ([45], 1); ([19990], 2); ([30028], 2);
   ([101; 769], 1); ([128105; 8205; 128103], 2); ([127462; 127482], 2)].
Definition demo_alnum (r : Z) : bool := existsb (Z.eqb r) [97; 98; 49; 19990; 30028; 101].

Lemma demo_alpha_head_distinct : head_distinct demo_alpha.
Proof.
  split.
  - intros c Hc. cbn in Hc. repeat (destruct Hc as [<-|Hc]; [discriminate|]). destruct Hc.
  - intros c d Hc Hd. cbn in Hc, Hd.
    repeat (destruct Hc as [<-|Hc]; [repeat (destruct Hd as [<-|Hd]; [cbn; intros; (reflexivity || discriminate)|]); destruct Hd|]).
    destruct Hc.
Qed.

(* ================================================================== drawn cursor column *)

Definition widths_ok (cs : list cluster) : Prop := Forall (fun c => 0 <= snd c) cs.

Lemma cl_width_cons c cs : cl_width (c :: cs) = snd c + cl_width cs.
Proof. reflexivity. Qed.

Lemma cl_width_nonneg cs : widths_ok cs -> 0 <= cl_width cs.
Proof. induction 1 as [|c cs Hc _ IH]; [cbn; lia | rewrite cl_width_cons; lia]. Qed.

Lemma firstn_succ_cons {B} (x : B) l k : 0 < k -> firstn (Z.to_nat k) (x :: l) = x :: firstn (Z.to_nat (k - 1)) l.
Proof. intros H. replace (Z.to_nat k) with (S (Z.to_nat (k - 1))) by lia. reflexivity. Qed.

Lemma u16_small x : 0 <= x < 65536 -> u16 x = x.
Proof. intros H; unfold u16; now apply Z.mod_small. Qed.

(* TextField.Draw *)
Lemma tf_draw_walk_spec cs : forall i col ccol cursor,
  widths_ok cs -> 0 <= col -> col + cl_width cs < 65536 ->
  tf_draw_walk cs i col ccol cursor =
  (i + zlen cs, col + cl_width cs,
   if (i <? cursor) && (cursor <=? i + zlen cs)
   then col + cl_width (firstn (Z.to_nat (cursor - i)) cs) else ccol).
Proof.
  induction cs as [|c cs IH]; intros i col ccol cursor Hw Hc Hf.
  - cbn [tf_draw_walk]. rewrite zlen_nil. cbn [cl_width fold_right].
    destruct ((i <? cursor) && (cursor <=? i + 0)) eqn:E; [lia|]. repeat f_equal; lia.
  - inversion Hw as [|? ? Hc0 Hw']; subst. pose proof (cl_width_nonneg cs Hw') as Hn.
    rewrite cl_width_cons in Hf. cbn [tf_draw_walk].
    rewrite (u16_small (snd c)) by lia. rewrite (u16_small (col + snd c)) by lia.
    rewrite IH by (auto; lia). rewrite zlen_cons, cl_width_cons. pose proof (zlen_nonneg cs) as Hz.
    f_equal; [f_equal; lia|].
    destruct (i + 1 =? cursor) eqn:E1.
    + assert (cursor = i + 1) as -> by lia.
      destruct ((i + 1 <? i + 1) && (i + 1 <=? i + 1 + zlen cs)) eqn:E2; [lia|].
      destruct ((i <? i + 1) && (i + 1 <=? i + (zlen cs + 1))) eqn:E3; [|lia].
      rewrite firstn_succ_cons by lia. replace (i + 1 - i - 1) with 0 by lia.
      cbn [Z.to_nat firstn]. rewrite cl_width_cons. cbn [cl_width fold_right]. lia.
    + destruct ((i + 1 <? cursor) && (cursor <=? i + 1 + zlen cs)) eqn:E2.
      * destruct ((i <? cursor) && (cursor <=? i + (zlen cs + 1))) eqn:E3; [|lia].
        rewrite firstn_succ_cons by lia. rewrite cl_width_cons.
        replace (cursor - i - 1) with (cursor - (i + 1)) by lia. lia.
      * destruct ((i <? cursor) && (cursor <=? i + (zlen cs + 1))) eqn:E3; [lia|reflexivity].
Qed.

Theorem tf_drawn_cursor_column chars st maxw maxh cs :
  maxw <> 0 -> maxh <> 0 -> chars (tf_value st) = Some cs -> widths_ok cs ->
  cl_width cs < maxw -> maxw <= 65535 -> 0 <= tf_cursor st <= zlen cs ->
  tf_draw chars st maxw maxh = Some (cl_width (firstn (Z.to_nat (tf_cursor st)) cs)).
Proof.
  intros Hw Hh Hc Hok Hfit Hmax Hcur. unfold tf_draw.
  destruct ((maxw =? 0) || (maxh =? 0)) eqn:E; [lia|]. rewrite Hc.
  rewrite tf_draw_walk_spec by (auto; lia).
  destruct (0 + zlen cs <? tf_cursor st) eqn:E1; [lia|].
  destruct ((0 <? tf_cursor st) && (tf_cursor st <=? 0 + zlen cs)) eqn:E2.
  - f_equal. rewrite Z.sub_0_r. lia.
  - assert (tf_cursor st = 0) as -> by lia. reflexivity.
Qed.

(* textinput Draw *)
Section TextInputDraw.
  Lemma prompt_walk_fit p : forall col w,
    widths_ok p -> col + cl_width p < w -> prompt_walk p col w = Some (col + cl_width p).
  Proof.
    induction p as [|c p IH]; intros col w Hw Hf; cbn [prompt_walk].
    - cbn; f_equal; lia.
    - inversion Hw as [|? ? Hc Hw']; subst. pose proof (cl_width_nonneg p Hw').
      rewrite cl_width_cons in *. destruct (col + snd c >=? w) eqn:E; [lia|].
      rewrite IH by (auto; lia). f_equal; lia.
  Qed.

  Lemma wtc_bounds cs : forall i cursor offset w0,
    widths_ok cs -> w0 <= wtc cs i cursor offset w0 <= w0 + cl_width cs.
  Proof.
    induction cs as [|c cs IH]; intros i cursor offset w0 Hw; cbn [wtc].
    - cbn; lia.
    - inversion Hw as [|? ? Hc Hw']; subst. pose proof (cl_width_nonneg cs Hw'). rewrite cl_width_cons.
      destruct (i <? offset).
      + specialize (IH (i + 1) cursor offset w0 Hw'). lia.
      + destruct (i =? cursor); [lia|].
        specialize (IH (i + 1) cursor offset (w0 + snd c) Hw'). lia.
  Qed.

  Lemma draw_walk_fit cs : forall i col ccol cursor w,
    widths_ok cs -> 0 <= i -> col + cl_width cs < w ->
    draw_walk cs i col ccol cursor 0 w =
    if (i <? cursor) && (cursor <=? i + zlen cs)
    then col + cl_width (firstn (Z.to_nat (cursor - i)) cs) else ccol.
  Proof.
    induction cs as [|c cs IH]; intros i col ccol cursor w Hw Hi Hf.
    - cbn [draw_walk]. rewrite zlen_nil. destruct ((i <? cursor) && (cursor <=? i + 0)) eqn:E; [lia|reflexivity].
    - inversion Hw as [|? ? Hc0 Hw']; subst. pose proof (cl_width_nonneg cs Hw') as Hn.
      rewrite cl_width_cons in Hf. cbn [draw_walk].
      destruct (i <? 0) eqn:E0; [lia|]. destruct (col + snd c >=? w) eqn:E4; [lia|].
      rewrite IH by (auto; lia). rewrite zlen_cons. pose proof (zlen_nonneg cs) as Hz.
      destruct (i + 1 =? cursor) eqn:E1.
      + assert (cursor = i + 1) as -> by lia.
        destruct ((i + 1 <? i + 1) && (i + 1 <=? i + 1 + zlen cs)) eqn:E2; [lia|].
        destruct ((i <? i + 1) && (i + 1 <=? i + (zlen cs + 1))) eqn:E3; [|lia].
        rewrite firstn_succ_cons by lia. replace (i + 1 - i - 1) with 0 by lia.
      cbn [Z.to_nat firstn]. rewrite cl_width_cons. cbn [cl_width fold_right]. lia.
      + destruct ((i + 1 <? cursor) && (cursor <=? i + 1 + zlen cs)) eqn:E2.
        * destruct ((i <? cursor) && (cursor <=? i + (zlen cs + 1))) eqn:E3; [|lia].
          rewrite firstn_succ_cons by lia. rewrite cl_width_cons.
          replace (cursor - i - 1) with (cursor - (i + 1)) by lia. lia.
        * destruct ((i <? cursor) && (cursor <=? i + (zlen cs + 1))) eqn:E3; [lia|reflexivity].
  Qed.

  Theorem ti_drawn_cursor_column m w :
    widths_ok (ti_prompt m) -> widths_ok (ti_content m) ->
    0 <= ti_cursor m <= zlen (ti_content m) -> ti_offset m = 0 ->
    cl_width (ti_prompt m) + cl_width (ti_content m) + scrolloff < w ->
    ti_draw m w = DrawDone 0 (Some (cl_width (ti_prompt m) +
                                    cl_width (firstn (Z.to_nat (ti_cursor m)) (ti_content m)))).
  Proof.
    intros Hp Hc Hcur Hoff Hfit. unfold ti_draw, scrolloff in *.
    pose proof (cl_width_nonneg _ Hp) as Hp0. pose proof (cl_width_nonneg _ Hc) as Hc0.
    destruct (w =? 0) eqn:E; [lia|]. rewrite prompt_walk_fit by (auto; lia). rewrite Hoff.
    pose proof (wtc_bounds (ti_content m) 0 (ti_cursor m) 0 0 Hc) as Hb. fold (width_to_cursor (ti_content m) (ti_cursor m) 0) in Hb.
    unfold scroll_fuel. cbn [scroll_loop]. unfold scrolloff.
    destruct ((width_to_cursor (ti_content m) (ti_cursor m) 0 + (0 + cl_width (ti_prompt m)) + 4 >=? w) && (0 <? ti_cursor m)) eqn:E1; [lia|].
    unfold scroll_back, scrolloff.
    assert (E2 : (if (if ti_cursor m - 4 - 0 <? 0 then ti_cursor m - 4 else 0) <? 0 then 0
                  else if ti_cursor m - 4 - 0 <? 0 then ti_cursor m - 4 else 0) = 0).
    { destruct (ti_cursor m - 4 - 0 <? 0) eqn:E3; [|reflexivity]. destruct (ti_cursor m - 4 <? 0) eqn:E4; lia. }
    rewrite E2. rewrite draw_walk_fit by (auto; lia).
    destruct ((0 <? ti_cursor m) && (ti_cursor m <=? 0 + zlen (ti_content m))) eqn:E5.
    - rewrite Z.sub_0_r. repeat f_equal; lia.
    - assert (ti_cursor m = 0) as -> by lia. cbn. repeat f_equal; lia.
  Qed.
End TextInputDraw.

(* ================================================================== the Draw fix *)

(* before the fix the scroll loop had no bound: in a window at most scrolloff columns
   wider than the prompt it never terminates, whatever the content *)
Lemma scroll_loop_orig_hangs fuel cs cursor offset col w :
  widths_ok cs -> w <= col + scrolloff -> scroll_loop_orig fuel cs cursor offset col w = None.
Proof.
  intros Hw Hn. revert offset; induction fuel as [|f IH]; intros offset; cbn [scroll_loop_orig];
    pose proof (wtc_bounds cs 0 cursor offset 0 Hw) as Hb; fold (width_to_cursor cs cursor offset) in Hb;
    destruct (width_to_cursor cs cursor offset + col + scrolloff >=? w) eqn:E; try lia; auto.
Qed.

Lemma scroll_loop_orig_ge fuel cs cursor col w : forall offset o,
  scroll_loop_orig fuel cs cursor offset col w = Some o -> offset <= o.
Proof.
  induction fuel as [|f IH]; intros offset o; cbn [scroll_loop_orig];
    destruct (width_to_cursor cs cursor offset + col + scrolloff >=? w); try discriminate.
  - intros H; injection H as <-; lia.
  - intros H; apply IH in H; lia.
  - intros H; injection H as <-; lia.
Qed.

Lemma scroll_back_past cursor o : cursor <= o -> scroll_back cursor o = scroll_back cursor cursor.
Proof.
  intros H. unfold scroll_back, scrolloff.
  destruct (cursor - 4 - o <? 0) eqn:E1; [|lia]. destruct (cursor - 4 - cursor <? 0) eqn:E2; [reflexivity|lia].
Qed.

(* whenever the unfixed loop terminates, the fixed loop ends in the same scroll offset
   once the scroll-back step that follows it has run: the fix changes nothing but the hang *)
Theorem draw_fix_conservative fuel cs cursor col w : forall offset o,
  scroll_loop_orig fuel cs cursor offset col w = Some o ->
  exists o', scroll_loop (S (Z.to_nat (cursor - offset))) cs cursor offset col w = Some o' /\
             scroll_back cursor o' = scroll_back cursor o.
Proof.
  induction fuel as [|f IH]; intros offset o H; cbn [scroll_loop_orig] in H; cbn [scroll_loop];
    destruct (width_to_cursor cs cursor offset + col + scrolloff >=? w) eqn:E; try discriminate.
  - injection H as <-. exists offset; auto.
  - destruct (offset <? cursor) eqn:E2; cbn [andb].
    + destruct (IH _ _ H) as (o' & H1 & H2). exists o'. split; [|exact H2].
      replace (Z.to_nat (cursor - offset)) with (S (Z.to_nat (cursor - (offset + 1)))) by lia. exact H1.
    + exists offset. split; [reflexivity|]. apply scroll_loop_orig_ge in H.
      rewrite (scroll_back_past cursor offset), (scroll_back_past cursor o) by lia. reflexivity.
  - injection H as <-. exists offset; auto.
Qed.

(* ================================================================== refutations kept on record *)

(* assigning the exported field Value directly leaves the cached count stale: End does
   not reach the end of the text *)
Lemma tf_direct_value_witness :
  let seg := seg_tab demo_alpha in
  let os := [TSetValue [97; 98]; TKey TkEnd] in
  tf_run seg tf_empty os = Some (mkTf [97; 98] 0 0, []) /\
  i_run (fun _ => false) (mkIdeal [] []) (map (tf_abs seg) os) = mkIdeal [[98]; [97]] [].
Proof. vm_compute. split; reflexivity. Qed.

(* the scroll offset is sticky: after a Draw in a narrow window, a Draw in a window in
   which prompt + text + scrolloff fit still shows the tail only *)
Lemma ti_sticky_offset_witness :
  let chars := chars_tab demo_alpha in
  let s := repeat 97 20 in
  exists m, ti_run chars demo_alnum (ti_new []) [OEv (EDefault false s); ODraw 10] = Some m /\
            ti_offset m = 15 /\ ti_cursor m = 20 /\ cl_width (ti_content m) = 20 /\
            ti_draw m 80 = DrawDone 15 (Some 5).
Proof. vm_compute. eexists; repeat split; reflexivity. Qed.

(* the scroll margin applies even with the cursor at the end of the text: 7 narrow
   characters in a 10-column window fit, yet the widget scrolls *)
Lemma ti_scroll_margin_witness :
  let chars := chars_tab demo_alpha in
  exists m, ti_run chars demo_alnum (ti_new []) [OEv (EDefault false (repeat 97 7))] = Some m /\
            ti_offset m = 0 /\ ti_cursor m = 7 /\ cl_width (ti_content m) = 7 /\
            ti_draw m 10 = DrawDone 2 (Some 5).
Proof. vm_compute. eexists; repeat split; reflexivity. Qed.

(* ================================================================== readings used by props/C17.v *)

Corollary ti_refines_ideal chars alnum A :
  (forall cs, in_alpha A cs -> chars (cl_text cs) = Some cs) ->
  forall e0 off paste pr os,
    in_alpha A (i_text e0) -> (exists ps, in_alpha A ps /\ paste = cl_text ps) ->
    Forall (ti_op_ok A) os ->
    exists m', ti_run chars alnum (ti_of_ideal e0 off paste pr) os = Some m' /\
      let e' := i_run (ti_isw alnum) e0 (ti_abs chars paste os) in
      ti_content m' = i_text e' /\ ti_cursor m' = i_index e' /\
      chars (cl_text (ti_content m')) = Some (ti_content m') /\
      0 <= ti_cursor m' <= zlen (ti_content m').
Proof.
  intros Hst e0 off paste pr os HA HP Hos.
  destruct (ti_run_refines chars alnum A Hst e0 off paste pr os HA HP Hos) as (off' & H1 & H2).
  eexists; split; [exact H1|]. cbv zeta. cbn [ti_of_ideal ti_content ti_cursor].
  repeat split; auto.
  - apply (index_le_text (i_run (ti_isw alnum) e0 (ti_abs chars paste os))).
  - apply (index_le_text (i_run (ti_isw alnum) e0 (ti_abs chars paste os))).
Qed.

Corollary tf_cursor_in_range seg A :
  (forall cs, in_alpha A cs -> seg (concat cs) = Some cs) ->
  forall e0 os st' log, in_alpha A (i_text e0) -> Forall (tf_op_ok A) os ->
    tf_run seg (tf_of_ideal e0) os = Some (st', log) ->
    exists cs, seg (tf_value st') = Some cs /\ 0 <= tf_cursor st' <= zlen cs /\ tf_n st' = zlen cs.
Proof.
  intros Hst e0 os st' log HA Hos Hrun.
  destruct (tf_refines_ideal seg A Hst e0 os HA Hos) as (st2 & log2 & H1 & H2 & H3 & H4 & H5).
  rewrite Hrun in H1; injection H1 as <- <-. eauto.
Qed.

Corollary ti_cursor_in_range chars alnum A :
  (forall cs, in_alpha A cs -> chars (cl_text cs) = Some cs) ->
  forall e0 off paste pr os m',
    in_alpha A (i_text e0) -> (exists ps, in_alpha A ps /\ paste = cl_text ps) ->
    Forall (ti_op_ok A) os ->
    ti_run chars alnum (ti_of_ideal e0 off paste pr) os = Some m' ->
    0 <= ti_cursor m' <= zlen (ti_content m').
Proof.
  intros Hst e0 off paste pr os m' HA HP Hos Hrun.
  destruct (ti_refines_ideal chars alnum A Hst e0 off paste pr os HA HP Hos) as (m2 & H1 & _ & _ & _ & H5).
  rewrite Hrun in H1; injection H1 as <-. exact H5.
Qed.

(* the callback protocol spelled out *)
Corollary tf_callbacks_reading seg st o st' log :
  tf_handle seg st o = Some (st', log) ->
  match o with
  | TKey TkEnter => log = [CbSubmit (tf_value st)]
  | TText _ | TKey _ | TIgnored =>
      (tf_value st' <> tf_value st -> log = [CbChange (tf_value st')]) /\
      (tf_value st' = tf_value st -> log = [])
  | _ => log = []
  end.
Proof.
  intros H. pose proof (tf_callbacks_exact seg st o st' log H) as Hc.
  assert (Hnil : forall l, list_eqb cb_eqb l [] = true -> l = []) by (intros [|? ?]; [reflexivity|discriminate]).
  assert (Hone : forall l c, list_eqb cb_eqb l [c] = true -> l = [c]).
  { intros [|a [|b t]] c; cbn; try discriminate; [|intros E; apply andb_true_iff in E as [_ E]; discriminate].
    rewrite andb_true_r. destruct a, c; cbn; try discriminate; intros E; apply zlist_eqb_eq in E; now subst. }
  assert (Hev : tf_is_event o = true -> o <> TKey TkEnter ->
                tf_cb_ok o (tf_value st) (tf_value st') log = true ->
                (tf_value st' <> tf_value st -> log = [CbChange (tf_value st')]) /\
                (tf_value st' = tf_value st -> log = [])).
  { intros He Hne Hok.
    assert (Hok' : (if negb (zlist_eqb (tf_value st) (tf_value st'))
                    then list_eqb cb_eqb log [CbChange (tf_value st')] else list_eqb cb_eqb log []) = true).
    { destruct o as [s|k| |s|i| | | | |s]; try discriminate; try exact Hok.
      destruct k; try exact Hok. congruence. }
    destruct (zlist_eqb (tf_value st) (tf_value st')) eqn:E; cbn in Hok'.
    - apply zlist_eqb_eq in E. split; [congruence|]. intros _. now apply Hnil.
    - split; [intros _; now apply Hone|]. intros E2. rewrite E2, zlist_eqb_refl in E. discriminate. }
  destruct o as [s|k| |s|i| | | | |s]; cbn [tf_cb_ok tf_is_event andb] in Hc; auto.
  - apply Hev; auto; discriminate.
  - destruct k; try (apply Hev; auto; discriminate). now apply Hone.
  - apply Hev; auto; discriminate.
Qed.

(* ================================================================== frames of a history *)

(* The scroll offset survives between frames.  What follows: which frames reset it, which
   leave it alone, that the specification's own scroll record (ti_scrolled_next, computed
   from the Draw observations alone) never says "unscrolled" while the model's offset is
   not 0, and hence that every history of observations that agrees with the model satisfies
   the frame clause of the guarded property (ti_draws_ok false). *)

Lemma cluster_eqb_eq (a b : cluster) : cluster_eqb a b = true -> a = b.
Proof.
  destruct a as [a1 a2], b as [b1 b2]; unfold cluster_eqb; cbn [fst snd]. intros H.
  apply andb_true_iff in H as [H1 H2]. apply zlist_eqb_eq in H1. f_equal; [exact H1 | lia].
Qed.

Lemma clusters_eqb_eq (a b : list cluster) : clusters_eqb a b = true -> a = b.
Proof.
  unfold clusters_eqb. revert b; induction a as [|x a IH]; intros [|y b]; cbn [list_eqb]; intros H;
    try discriminate; [reflexivity|].
  apply andb_true_iff in H as [H1 H2]. f_equal; [now apply cluster_eqb_eq | now apply IH].
Qed.

Lemma widths_okb_ok cs : widths_okb cs = true -> widths_ok cs.
Proof.
  unfold widths_okb, widths_ok. intros H. apply Forall_forall. intros c Hc.
  rewrite forallb_forall in H. specialize (H c Hc). lia.
Qed.

Section Keeps.
  Variable chars : text -> option (list cluster).
  Variable alnum : Z -> bool.

  Lemma ti_update_body_keeps m e m1 b :
    ti_update_body chars alnum m e = Some (m1, b) ->
    ti_offset m1 = ti_offset m /\ ti_prompt m1 = ti_prompt m.
  Proof.
    destruct e as [| |s|k|md s|]; cbn [ti_update_body]; cbv zeta; try destruct k;
    repeat match goal with
      | |- context [match ?x with _ => _ end] => destruct x eqn:?
      end; intros H; inversion H; subst; cbn; auto.
  Qed.

  Lemma ti_update_keeps m e m' :
    ti_update chars alnum m e = Some m' -> ti_offset m' = ti_offset m /\ ti_prompt m' = ti_prompt m.
  Proof.
    unfold ti_update. destruct (ti_update_body chars alnum m e) as [[m1 [|]]|] eqn:E; try discriminate;
      intros H; injection H as <-; apply ti_update_body_keeps in E; [exact E|].
    unfold ti_clamp, ti_set; cbn [ti_offset ti_prompt]. exact E.
  Qed.

  Lemma ti_set_content_keeps m s m' :
    ti_set_content chars m s = Some m' -> ti_offset m' = ti_offset m /\ ti_prompt m' = ti_prompt m.
  Proof.
    unfold ti_set_content. destruct (chars s); [|discriminate]. intros H; injection H as <-. cbn; auto.
  Qed.
End Keeps.

(* ---------- frames ---------- *)

Lemma prompt_walk_full p : forall col w,
  widths_ok p -> col < w -> w <= col + cl_width p -> prompt_walk p col w = None.
Proof.
  induction p as [|c p IH]; intros col w Hw Hc Hf; cbn [prompt_walk].
  - cbn in Hf. lia.
  - inversion Hw as [|? ? Hc0 Hw']; subst. rewrite cl_width_cons in Hf.
    destruct (col + snd c >=? w) eqn:E; [reflexivity|]. apply IH; auto; lia.
Qed.

(* a frame that does not reach the text leaves the offset alone *)
Lemma ti_draw_not_reached m w :
  widths_ok (ti_prompt m) -> ti_not_reached (ti_prompt m) w = true ->
  ti_draw m w = DrawDone (ti_offset m) None.
Proof.
  intros Hp H. unfold ti_not_reached in H. unfold ti_draw.
  destruct (w =? 0) eqn:E; [reflexivity|].
  rewrite prompt_walk_full by (auto; lia). reflexivity.
Qed.

(* a frame that reaches the text ends in scroll_back of wherever the scroll loop stopped *)
Lemma ti_draw_reached m w :
  widths_ok (ti_prompt m) -> ti_reached (ti_prompt m) w = true ->
  exists o1 c, ti_draw m w = DrawDone (scroll_back (ti_cursor m) o1) (Some c).
Proof.
  intros Hp H. unfold ti_reached in H. pose proof (ti_draw_no_hang m w) as Hh. unfold ti_draw in *.
  destruct (w =? 0) eqn:E; [lia|]. rewrite prompt_walk_fit in * by (auto; lia).
  destruct (scroll_loop (scroll_fuel m) (ti_content m) (ti_cursor m) (ti_offset m) (0 + cl_width (ti_prompt m)) w) as [o1|];
    [eauto | congruence].
Qed.

Lemma scroll_back_reset cursor o : cursor <= scrolloff -> scroll_back cursor o = 0.
Proof.
  unfold scroll_back, scrolloff. intros H.
  destruct (cursor - 4 - o <? 0) eqn:E1.
  - destruct (cursor - 4 <? 0) eqn:E2; lia.
  - destruct (o <? 0) eqn:E2; lia.
Qed.

(* the resetting frame: cursor within the first scrolloff graphemes *)
Lemma ti_draw_resets m w :
  widths_ok (ti_prompt m) -> ti_reached (ti_prompt m) w = true -> ti_cursor m <= scrolloff ->
  exists c, ti_draw m w = DrawDone 0 (Some c).
Proof.
  intros Hp Hr Hc. destruct (ti_draw_reached m w Hp Hr) as (o1 & c & H).
  rewrite scroll_back_reset in H by exact Hc. eauto.
Qed.

(* an unscrolled view in which everything fits stays unscrolled (any cursor) *)
Lemma ti_draw_fits_keeps0 m w :
  widths_ok (ti_prompt m) -> widths_ok (ti_content m) -> ti_offset m = 0 ->
  ti_fits_margin (ti_prompt m) (ti_content m) w = true ->
  exists c, ti_draw m w = DrawDone 0 (Some c).
Proof.
  intros Hp Hc Hoff Hfit. unfold ti_fits_margin in Hfit. unfold ti_draw, scrolloff in *.
  pose proof (cl_width_nonneg _ Hp) as Hp0. pose proof (cl_width_nonneg _ Hc) as Hc0.
  destruct (w =? 0) eqn:E; [lia|]. rewrite prompt_walk_fit by (auto; lia). rewrite Hoff.
  pose proof (wtc_bounds (ti_content m) 0 (ti_cursor m) 0 0 Hc) as Hb.
  fold (width_to_cursor (ti_content m) (ti_cursor m) 0) in Hb.
  unfold scroll_fuel. cbn [scroll_loop]. unfold scrolloff.
  destruct ((width_to_cursor (ti_content m) (ti_cursor m) 0 + (0 + cl_width (ti_prompt m)) + 4 >=? w) && (0 <? ti_cursor m)) eqn:E1; [lia|].
  assert (E2 : scroll_back (ti_cursor m) 0 = 0).
  { unfold scroll_back, scrolloff. destruct (ti_cursor m - 4 - 0 <? 0) eqn:E3; [|reflexivity].
    destruct (ti_cursor m - 4 <? 0) eqn:E4; lia. }
  rewrite E2. eauto.
Qed.

(* the spec's scroll record is sound for the model: while it says "unscrolled", the
   model's offset is 0 *)
Lemma ti_scrolled_next_sound m w scrolled o shown :
  widths_ok (ti_prompt m) -> widths_ok (ti_content m) ->
  (scrolled = false -> ti_offset m = 0) ->
  ti_draw m w = DrawDone o shown ->
  ti_scrolled_next (ti_prompt m) w scrolled (ti_content m) (ti_cursor m) = false -> o = 0.
Proof.
  intros Hp Hc Hinv Hd. unfold ti_scrolled_next.
  destruct (ti_reached (ti_prompt m) w && (ti_cursor m <=? scrolloff)) eqn:E1.
  - intros _. apply andb_true_iff in E1 as [E1 E2].
    destruct (ti_draw_resets m w Hp E1 ltac:(lia)) as (c & H). congruence.
  - destruct (ti_fits_margin (ti_prompt m) (ti_content m) w || ti_not_reached (ti_prompt m) w) eqn:E2; [|discriminate].
    intros Hs. specialize (Hinv Hs). apply orb_true_iff in E2 as [E2|E2].
    + destruct (ti_draw_fits_keeps0 m w Hp Hc Hinv E2) as (c & H). congruence.
    + rewrite (ti_draw_not_reached m w Hp E2) in Hd. congruence.
Qed.

(* Every history of observations that agrees with the model satisfies the frame clause of
   the guarded property. *)
Theorem ti_agree_frames_ok al : forall steps m scrolled,
  widths_okb (ti_prompt m) = true -> ti_obs_widths_ok steps = true ->
  (scrolled = false -> ti_offset m = 0) ->
  ti_agree al m steps = true ->
  ti_draws_ok false (ti_prompt m) (ti_offset m) scrolled steps = true.
Proof.
  induction steps as [|[[o tbl] [[[[[ocl ocur] ooff] oout] oshown] reseg]] rest IH];
    intros m scrolled Hp Hw Hinv Hag; [reflexivity|].
  cbn [ti_obs_widths_ok forallb] in Hw. apply andb_true_iff in Hw as [Hw0 Hw].
  fold (ti_obs_widths_ok rest) in Hw.
  pose proof (widths_okb_ok _ Hp) as Hp'. pose proof (widths_okb_ok _ Hw0) as Hocl.
  cbn [ti_agree] in Hag. cbn [ti_draws_ok].
  destruct o as [e|s|w]; cbn [ti_step] in Hag.
  - destruct (ti_update (tbl_lookup tbl) (tbl_alnum al) m e) as [m'|] eqn:E.
    + destruct (ti_update_keeps _ _ _ _ _ E) as [Ho Hpr].
      repeat (apply andb_true_iff in Hag as [Hag ?]).
      assert (oout = 0) as -> by lia. cbn [Z.eqb]. assert (ooff = ti_offset m') as -> by lia.
      rewrite <- Hpr. apply IH; auto; [now rewrite Hpr | rewrite Ho; exact Hinv].
    + assert (oout = 1) as -> by lia. reflexivity.
  - destruct (ti_set_content (tbl_lookup tbl) m s) as [m'|] eqn:E.
    + destruct (ti_set_content_keeps _ _ _ _ E) as [Ho Hpr].
      repeat (apply andb_true_iff in Hag as [Hag ?]).
      assert (oout = 0) as -> by lia. cbn [Z.eqb]. assert (ooff = ti_offset m') as -> by lia.
      rewrite <- Hpr. apply IH; auto; [now rewrite Hpr | rewrite Ho; exact Hinv].
    + assert (oout = 1) as -> by lia. reflexivity.
  - destruct (ti_draw m w) as [|o shown] eqn:E; [exfalso; revert E; apply ti_draw_no_hang|].
    repeat (apply andb_true_iff in Hag as [Hag ?]).
    cbn [ti_content ti_cursor ti_offset] in *.
    match goal with H : clusters_eqb _ _ = true |- _ => apply clusters_eqb_eq in H; rename H into Hcl end.
    assert (Hcur : ocur = ti_cursor m) by lia. assert (Hoff : ooff = o) by lia.
    assert (Hout : oout = 0) by lia. assert (Hsh : oshown = shown_code shown) by lia.
    subst ocl ocur ooff oout oshown.
    apply andb_true_iff; split.
    + unfold ti_draw_ok. cbn [Z.eqb andb].
      match goal with |- (if ?c then _ else _) = true => destruct c eqn:Ec end; [|reflexivity].
      repeat (apply andb_true_iff in Ec as [Ec ?]).
      assert (Hz0 : ti_offset m = 0).
      { destruct (ti_offset m =? 0) eqn:E0; [lia|]. destruct scrolled; [discriminate|]. now apply Hinv. }
      unfold ti_fits_margin in *.
      rewrite (ti_drawn_cursor_column m w) in E by (auto; lia). injection E as <- <-.
      cbn [shown_code]. lia.
    + change (ti_prompt m) with (ti_prompt (mkTi (ti_content m) (ti_cursor m) o (ti_paste m) (ti_prompt m))).
      change o with (ti_offset (mkTi (ti_content m) (ti_cursor m) o (ti_paste m) (ti_prompt m))) at 2.
      apply IH; auto. cbn [ti_offset ti_prompt].
      intros Hs. eapply ti_scrolled_next_sound; eauto.
Qed.

(* ================================================================== programmatic edits whose
   argument is derived from the text the widget holds (SetContent / InsertStringAtCursor /
   Reset or Enter and the old text again): the widgets have no "unchanged" shortcut — the
   result depends on the argument alone, not on the state the argument happens to equal *)

Lemma derived_in_alpha {G} (A cur ks : list G) : in_alpha A cur -> derived_from A cur ks -> in_alpha A ks.
Proof.
  unfold in_alpha, derived_from. rewrite !Forall_forall. intros H1 H2 c Hc.
  destruct (H2 c Hc) as [H|H]; auto.
Qed.

Lemma firstn_In_c17 {G} (l : list G) k c : In c (firstn k l) -> In c l.
Proof. rewrite <- (firstn_skipn k l) at 2. rewrite in_app_iff; auto. Qed.
Lemma skipn_In_c17 {G} (l : list G) k c : In c (skipn k l) -> In c l.
Proof. rewrite <- (firstn_skipn k l) at 2. rewrite in_app_iff; auto. Qed.

Lemma derived_same {G} (A cur : list G) : derived_from A cur cur.
Proof. unfold derived_from. rewrite Forall_forall. auto. Qed.
Lemma derived_firstn {G} (A cur : list G) k : derived_from A cur (firstn k cur).
Proof. unfold derived_from. rewrite Forall_forall. intros c Hc. left. eapply firstn_In_c17; eauto. Qed.
Lemma derived_skipn {G} (A cur : list G) k : derived_from A cur (skipn k cur).
Proof. unfold derived_from. rewrite Forall_forall. intros c Hc. left. eapply skipn_In_c17; eauto. Qed.
Lemma derived_app {G} (A cur a b : list G) : derived_from A cur a -> derived_from A cur b -> derived_from A cur (a ++ b).
Proof. unfold derived_from. intros; apply Forall_app; auto. Qed.
Lemma derived_alpha {G} (A cur ks : list G) : in_alpha A ks -> derived_from A cur ks.
Proof. unfold derived_from, in_alpha. intros H; eapply Forall_impl; [|exact H]. cbn; auto. Qed.

(* SetContent in EVERY state (whatever the content, the cursor, the scroll offset, the paste
   buffer): the content is the segmentation of the argument and the cursor is at its end *)
Lemma ti_set_content_every_state chars alnum (A : list cluster) :
  (forall cs, in_alpha A cs -> chars (cl_text cs) = Some cs) ->
  forall (m : ti) ks, in_alpha A ks ->
    ti_step chars alnum m (OSetContent (cl_text ks)) =
    TiOk (mkTi ks (zlen ks) (ti_offset m) (ti_paste m) (ti_prompt m)) None.
Proof.
  intros Hst m ks Hks. cbn [ti_step]. unfold ti_set_content. rewrite (Hst _ Hks). reflexivity.
Qed.

(* after any history the content consists of alphabet clusters *)
Lemma ti_run_content_in_alpha chars alnum (A : list cluster) :
  (forall cs, in_alpha A cs -> chars (cl_text cs) = Some cs) ->
  forall e0 off paste pr os m',
    in_alpha A (i_text e0) -> (exists ps, in_alpha A ps /\ paste = cl_text ps) ->
    Forall (ti_op_ok A) os ->
    ti_run chars alnum (ti_of_ideal e0 off paste pr) os = Some m' -> in_alpha A (ti_content m').
Proof.
  intros Hst e0 off paste pr os m' HA HP Hos Hrun.
  destruct (ti_run_refines chars alnum A Hst e0 off paste pr os HA HP Hos) as (off' & H1 & H2).
  rewrite Hrun in H1. injection H1 as ->. exact H2.
Qed.

Theorem ti_setcontent_derived chars alnum (A : list cluster) :
  (forall cs, in_alpha A cs -> chars (cl_text cs) = Some cs) ->
  forall e0 off paste pr os m',
    in_alpha A (i_text e0) -> (exists ps, in_alpha A ps /\ paste = cl_text ps) ->
    Forall (ti_op_ok A) os ->
    ti_run chars alnum (ti_of_ideal e0 off paste pr) os = Some m' ->
    forall ks, derived_from A (ti_content m') ks ->
      ti_step chars alnum m' (OSetContent (cl_text ks)) =
        TiOk (mkTi ks (zlen ks) (ti_offset m') (ti_paste m') (ti_prompt m')) None /\
      i_step (ti_isw alnum) (i_make (ti_content m') (ti_cursor m')) (ISet ks) = i_make ks (zlen ks).
Proof.
  intros Hst e0 off paste pr os m' HA HP Hos Hrun ks Hks.
  pose proof (ti_run_content_in_alpha chars alnum A Hst e0 off paste pr os m' HA HP Hos Hrun) as Hc.
  split.
  - apply (ti_set_content_every_state chars alnum A Hst). eapply derived_in_alpha; eauto.
  - cbn [i_step]. unfold i_make. now rewrite firstn_zlen_app', skipn_zlen_app'.
Qed.

Corollary ti_setcontent_same_text chars alnum (A : list cluster) :
  (forall cs, in_alpha A cs -> chars (cl_text cs) = Some cs) ->
  forall e0 off paste pr os m',
    in_alpha A (i_text e0) -> (exists ps, in_alpha A ps /\ paste = cl_text ps) ->
    Forall (ti_op_ok A) os ->
    ti_run chars alnum (ti_of_ideal e0 off paste pr) os = Some m' ->
    exists m'', ti_run chars alnum m' [OSetContent (cl_text (ti_content m'))] = Some m'' /\
      ti_content m'' = ti_content m' /\ ti_cursor m'' = zlen (ti_content m').
Proof.
  intros Hst e0 off paste pr os m' HA HP Hos Hrun.
  destruct (ti_setcontent_derived chars alnum A Hst e0 off paste pr os m' HA HP Hos Hrun
              (ti_content m') (derived_same A _)) as [H _].
  cbn [ti_run]. rewrite H. eexists; split; [reflexivity|]. split; reflexivity.
Qed.

(* ---------------- TextField *)

Lemma i_run_app {G} isw (e : ideal G) a b : i_run isw e (a ++ b) = i_run isw (i_run isw e a) b.
Proof. unfold i_run. apply fold_left_app. Qed.

Theorem tf_reinsert_derived seg (A : list text) :
  (forall cs, in_alpha A cs -> seg (concat cs) = Some cs) ->
  forall e0 os, in_alpha A (i_text e0) -> Forall (tf_op_ok A) os ->
    let e' := i_run (fun _ => false) e0 (map (tf_abs seg) os) in
    forall ks, derived_from A (i_text e') ks ->
      (exists log, tf_run seg (tf_of_ideal e0) (os ++ [TInsertApi (concat ks)]) =
                   Some (tf_of_ideal (i_step (fun _ => false) e' (IIns ks)), log)) /\
      (exists log, tf_run seg (tf_of_ideal e0) (os ++ [TResetApi; TInsertApi (concat ks)]) =
                   Some (mkTf (concat ks) (zlen ks) (zlen ks), log)) /\
      (exists log, tf_run seg (tf_of_ideal e0) (os ++ [TKey TkEnter; TText (concat ks)]) =
                   Some (mkTf (concat ks) (zlen ks) (zlen ks), log)).
Proof.
  intros Hst e0 os HA Hos e' ks Hks.
  destruct (tf_run_refines seg A Hst e0 os HA Hos) as (st0 & log0 & _ & _ & HA').
  fold e' in HA'.
  assert (HksA : in_alpha A ks) by (eapply derived_in_alpha; eauto).
  assert (Hins : tf_op_ok A (TInsertApi (concat ks))) by (exists ks; auto).
  assert (Htxt : tf_op_ok A (TText (concat ks))) by (exists ks; auto).
  assert (Habs : tf_abs seg (TInsertApi (concat ks)) = IIns ks).
  { unfold tf_abs; cbn [tf_op_text tf_iop_of]. now rewrite (Hst _ HksA). }
  assert (Habs2 : tf_abs seg (TText (concat ks)) = IIns ks).
  { unfold tf_abs; cbn [tf_op_text tf_iop_of]. now rewrite (Hst _ HksA). }
  assert (Hend : forall tail, Forall (tf_op_ok A) tail ->
            exists log, tf_run seg (tf_of_ideal e0) (os ++ tail) =
              Some (tf_of_ideal (i_run (fun _ => false) e' (map (tf_abs seg) tail)), log)).
  { intros tail Ht.
    destruct (tf_run_refines seg A Hst e0 (os ++ tail) HA) as (st & log & H1 & H2 & _).
    - apply Forall_app; auto.
    - exists log. rewrite H1. f_equal. f_equal. rewrite H2, map_app, i_run_app. reflexivity. }
  split; [|split].
  - destruct (Hend [TInsertApi (concat ks)]) as (log & H); [repeat constructor; auto|].
    exists log. rewrite H. cbn [map]. rewrite Habs. reflexivity.
  - destruct (Hend [TResetApi; TInsertApi (concat ks)]) as (log & H); [repeat constructor; auto|].
    exists log. rewrite H. cbn [map]. rewrite Habs. unfold i_run; cbn [fold_left tf_abs tf_iop_of i_step i_left i_right].
    unfold tf_of_ideal, i_text, i_index; cbn [i_left i_right].
    now rewrite app_nil_r, app_nil_r, rev_involutive, zlen_rev.
  - destruct (Hend [TKey TkEnter; TText (concat ks)]) as (log & H); [repeat constructor; auto|].
    exists log. rewrite H. cbn [map]. rewrite Habs2. unfold i_run; cbn [fold_left tf_abs tf_iop_of i_step i_left i_right].
    unfold tf_of_ideal, i_text, i_index; cbn [i_left i_right].
    now rewrite app_nil_r, app_nil_r, rev_involutive, zlen_rev.
Qed.
