(* C17 proofs: the TextField and textinput models refine the ideal grapheme line editor. *)
From Coq Require Import ZifyBool.
From Vx Require Import base.Prelude base.ListX model.IdealEditor model.Editors.

(* ------------------------------------------------------------------ generic lemmas *)

Lemma zlist_eqb_eq (a b : text) : zlist_eqb a b = true <-> a = b.
Proof.
  unfold zlist_eqb. revert b; induction a as [|x a IH]; intros [|y b]; simpl; split; intros H;
    try reflexivity; try discriminate.
  - apply andb_true_iff in H as [H1 H2]. apply Z.eqb_eq in H1. apply IH in H2. congruence.
  - injection H as -> ->. apply andb_true_iff; split; [apply Z.eqb_refl | now apply IH].
Qed.

Lemma zlist_eqb_refl (a : text) : zlist_eqb a a = true.
Proof. now apply zlist_eqb_eq. Qed.

Lemma zlen_rev {A} (l : list A) : zlen (rev l) = zlen l.
Proof. unfold zlen; now rewrite rev_length. Qed.

Lemma zlen_firstn {A} (l : list A) k : 0 <= k -> zlen (firstn (Z.to_nat k) l) = Z.min k (zlen l).
Proof. intros H; unfold zlen; rewrite firstn_length; lia. Qed.

Lemma firstn_zlen_app {A} (a b : list A) : firstn (Z.to_nat (zlen a)) (a ++ b) = a.
Proof.
  unfold zlen; rewrite Nat2Z.id.
  rewrite firstn_app, Nat.sub_diag, firstn_all; simpl; now rewrite app_nil_r.
Qed.

Lemma skipn_zlen_app {A} (a b : list A) : skipn (Z.to_nat (zlen a)) (a ++ b) = b.
Proof.
  unfold zlen; rewrite Nat2Z.id.
  rewrite skipn_app, Nat.sub_diag, skipn_all; reflexivity.
Qed.

Lemma concat_nonempty_nil (cs : list text) :
  Forall (fun c => c <> []) cs -> concat cs = [] -> cs = [].
Proof.
  intros HF H; destruct cs as [|c t]; [reflexivity|].
  inversion HF as [|? ? Hc _]; subst. simpl in H. apply app_eq_nil in H as [H _]. contradiction.
Qed.

(* ================================================================== the ideal editor *)

Section IdealFacts.
  Context {G : Type}.
  Implicit Types (l r : list G) (e : ideal G).

  Lemma i_skip_right_text p l r : i_text (i_skip_right p l r) = rev l ++ r.
  Proof.
    revert l; induction r as [|g r IH]; intros l; simpl; [reflexivity|].
    destruct (p g); [|reflexivity]. rewrite IH; simpl. now rewrite <- app_assoc.
  Qed.

  Lemma i_skip_left_text p l r : i_text (i_skip_left p l r) = rev l ++ r.
  Proof.
    revert r; induction l as [|g l IH]; intros r; simpl; [reflexivity|].
    destruct (p g); [|reflexivity]. rewrite IH; simpl. now rewrite <- app_assoc.
  Qed.

  Lemma i_skip_left_left p l r : i_left (i_skip_left p l r) = i_drop_while p l.
  Proof.
    revert r; induction l as [|g l IH]; intros r; simpl; [reflexivity|].
    destruct (p g); [apply IH|reflexivity].
  Qed.

  Lemma i_drop_while_incl p l g : In g (i_drop_while p l) -> In g l.
  Proof.
    induction l as [|x l IH]; simpl; [auto|]. destruct (p x); [right; auto|auto].
  Qed.

  Lemma i_make_text (t : list G) k : i_text (i_make t k) = t.
  Proof. unfold i_make, i_text; cbn. now rewrite rev_involutive, firstn_skipn. Qed.

  Definition iop_ins (o : iop G) : list G :=
    match o with IIns gs | ISet gs => gs | _ => [] end.

  (* an ideal step never invents clusters: what it holds afterwards it held before or
     was given by the operation *)
  Lemma in_i_text e g : In g (i_text e) <-> In g (i_left e) \/ In g (i_right e).
  Proof. unfold i_text; rewrite in_app_iff, <- in_rev; tauto. Qed.

  Lemma in_tl (l : list G) g : In g (tl l) -> In g l.
  Proof. destruct l; simpl; auto. Qed.

  Lemma i_step_incl isw e o g :
    In g (i_text (i_step isw e o)) -> In g (i_text e) \/ In g (iop_ins o).
  Proof.
    destruct e as [l r].
    assert (Hsr : forall p l0 r0, In g (i_text (i_skip_right p l0 r0)) -> In g l0 \/ In g r0).
    { intros p l0 r0; rewrite i_skip_right_text, in_app_iff, <- in_rev; tauto. }
    assert (Hsl : forall p l0 r0, In g (i_text (i_skip_left p l0 r0)) -> In g l0 \/ In g r0).
    { intros p l0 r0; rewrite i_skip_left_text, in_app_iff, <- in_rev; tauto. }
    pose proof (in_tl l g) as Htl. pose proof (in_tl r g) as Htr.
    pose proof (i_drop_while_incl isw (i_drop_while (fun g0 => negb (isw g0)) l) g) as Hd1.
    pose proof (i_drop_while_incl (fun g0 => negb (isw g0)) l g) as Hd2.
    destruct o; cbn [i_step i_left i_right iop_ins]; rewrite (in_i_text (mkIdeal l r)); cbn [i_left i_right].
    all: try solve [rewrite in_i_text; cbn [i_left i_right];
                    repeat (rewrite in_app_iff || rewrite <- in_rev || cbn [In app rev]); tauto].
    all: try solve [destruct l; rewrite in_i_text; cbn [i_left i_right In]; tauto].
    all: try solve [destruct r; rewrite in_i_text; cbn [i_left i_right In]; tauto].
    - intros H. apply Hsr in H. rewrite <- in_i_text in H. apply Hsr in H. tauto.
    - intros H. apply Hsl in H. rewrite <- in_i_text in H. apply Hsl in H. tauto.
    - rewrite i_make_text, in_i_text; cbn [i_left i_right]; tauto.
    - tauto.
  Qed.
End IdealFacts.

(* ================================================================== TextField *)

Section TextFieldProofs.
  Variable seg : text -> option (list text).
  Variable A : list text.                           (* the cluster alphabet *)
  Definition inA (cs : list text) : Prop := Forall (fun c => In c A) cs.
  (* boundary stability of the segmentation oracle on the alphabet *)
  Hypothesis seg_stable : forall cs, inA cs -> seg (concat cs) = Some cs.

  Definition tf_rel (st : tf) (e : ideal text) : Prop :=
    inA (i_text e) /\ tf_value st = concat (i_text e) /\
    tf_cursor st = i_index e /\ tf_n st = zlen (i_text e).

  (* the TextField state that holds what the ideal editor holds *)
  Definition tf_of_ideal (e : ideal text) : tf :=
    mkTf (concat (i_text e)) (i_index e) (zlen (i_text e)).

  Lemma tf_of_ideal_rel e : inA (i_text e) -> tf_rel (tf_of_ideal e) e.
  Proof. intros H; repeat split; auto. Qed.

  (* operations within the hypothesis: inserted material is a concatenation of alphabet
     clusters; CursorTo takes a uint; Value is not assigned behind the widget's back *)
  Definition tf_op_ok (o : tf_op) : Prop :=
    match o with
    | TText s | TInsertApi s => exists ks, inA ks /\ s = concat ks
    | TCursorToApi i => 0 <= i
    | TSetValue _ => False
    | _ => True
    end.

  Lemma inA_app a b : inA (a ++ b) <-> inA a /\ inA b.
  Proof. apply Forall_app. Qed.
  Lemma inA_rev a : inA a -> inA (rev a).
  Proof. apply Forall_rev. Qed.
  Lemma inA_rev' a : inA (rev a) -> inA a.
  Proof. intros H; rewrite <- (rev_involutive a); now apply inA_rev. Qed.

  (* --- the four grapheme-walking loops --- *)

  Lemma ins_walk_spec a r i s :
    ins_walk (a ++ r) i (i + zlen a) s = concat a ++ s ++ concat r.
  Proof.
    revert i; induction a as [|c a IH]; intros i.
    - rewrite zlen_nil, Z.add_0_r; simpl. destruct r as [|c t]; simpl.
      + now rewrite app_nil_r.
      + now rewrite Z.ltb_irrefl.
    - rewrite zlen_cons. cbn [app ins_walk concat].
      pose proof (zlen_nonneg a). destruct (i <? i + (zlen a + 1)) eqn:E; [|lia].
      replace (i + (zlen a + 1)) with ((i + 1) + zlen a) by lia.
      rewrite IH, <- app_assoc; reflexivity.
  Qed.

  Lemma del_right_walk_past r i c : c < i -> del_right_walk r i c = concat r.
  Proof.
    revert i; induction r as [|x r IH]; intros i H; simpl; [reflexivity|].
    destruct (i =? c) eqn:E; [lia|]. rewrite IH by lia; reflexivity.
  Qed.

  Lemma del_right_walk_spec a x r i :
    del_right_walk (a ++ x :: r) i (i + zlen a) = concat (a ++ r).
  Proof.
    revert i; induction a as [|c a IH]; intros i.
    - rewrite zlen_nil, Z.add_0_r; simpl. rewrite Z.eqb_refl. apply del_right_walk_past; lia.
    - rewrite zlen_cons. cbn [app del_right_walk concat].
      pose proof (zlen_nonneg a). destruct (i =? i + (zlen a + 1)) eqn:E; [lia|].
      replace (i + (zlen a + 1)) with ((i + 1) + zlen a) by lia. now rewrite IH.
  Qed.

  Lemma del_left_walk_past r i c : c <= i -> del_left_walk r i c = concat r.
  Proof.
    revert i; induction r as [|x r IH]; intros i H; simpl; [reflexivity|].
    destruct (i + 1 =? c) eqn:E; [lia|]. rewrite IH by lia; reflexivity.
  Qed.

  Lemma del_left_walk_spec a x r i :
    del_left_walk (a ++ x :: r) i (i + zlen a + 1) = concat (a ++ r).
  Proof.
    revert i; induction a as [|c a IH]; intros i.
    - rewrite zlen_nil, Z.add_0_r; simpl. rewrite Z.eqb_refl. apply del_left_walk_past; lia.
    - rewrite zlen_cons. cbn [app del_left_walk concat].
      pose proof (zlen_nonneg a). destruct (i + 1 =? i + (zlen a + 1) + 1) eqn:E; [lia|].
      replace (i + (zlen a + 1) + 1) with ((i + 1) + zlen a + 1) by lia. now rewrite IH.
  Qed.

  Lemma kill_walk_spec a x r i :
    kill_walk (a ++ x :: r) i (i + zlen a) = concat a.
  Proof.
    revert i; induction a as [|c a IH]; intros i.
    - rewrite zlen_nil, Z.add_0_r; simpl. now rewrite Z.eqb_refl.
    - rewrite zlen_cons. cbn [app kill_walk concat].
      pose proof (zlen_nonneg a). destruct (i =? i + (zlen a + 1)) eqn:E; [lia|].
      replace (i + (zlen a + 1)) with ((i + 1) + zlen a) by lia. now rewrite IH.
  Qed.

  (* --- building related states --- *)

  Lemma tf_rel_intro l r v c n0 :
    inA (rev l ++ r) -> v = concat (rev l ++ r) -> c = zlen l -> n0 = zlen (rev l ++ r) ->
    tf_rel (mkTf v c n0) (mkIdeal l r).
  Proof. intros H -> -> ->; repeat split; auto. Qed.

  Lemma tf_recount_stable cs c n0 :
    inA cs -> tf_recount seg (mkTf (concat cs) c n0) = Some (mkTf (concat cs) c (zlen cs)).
  Proof. intros H. unfold tf_recount; cbn [tf_value tf_cursor]. now rewrite (seg_stable _ H). Qed.

  Lemma tf_CursorTo_rel st e k :
    tf_rel st e -> 0 <= k ->
    tf_rel (tf_CursorTo st k) (i_make (i_text e) k).
  Proof.
    intros (HA & Hv & Hc & Hn) Hk. unfold tf_CursorTo, i_make.
    apply tf_rel_intro; rewrite ?rev_involutive, ?firstn_skipn; auto.
    rewrite zlen_rev, zlen_firstn, Hn by assumption.
    destruct (zlen (i_text e) <? k) eqn:E; lia.
  Qed.

  Lemma i_make_index (l r : list text) :
    i_make (rev l ++ r) (zlen l) = mkIdeal l r.
  Proof.
    unfold i_make. rewrite <- zlen_rev, firstn_zlen_app, skipn_zlen_app, rev_involutive; reflexivity.
  Qed.

  Definition tf_st (l r : list text) : tf := mkTf (concat (rev l ++ r)) (zlen l) (zlen (rev l ++ r)).

  Lemma tf_rel_eq st l r : tf_rel st (mkIdeal l r) <-> st = tf_st l r /\ inA (rev l ++ r).
  Proof.
    unfold tf_rel, tf_st, i_text, i_index; cbn [i_left i_right]. split.
    - intros (HA & Hv & Hc & Hn). destruct st; cbn in *; subst; auto.
    - intros [-> HA]; cbn; auto.
  Qed.

  (* --- one operation of each kind, on the state that mirrors the zipper (l, r) --- *)

  Lemma tf_Insert_st l r ks :
    inA (rev l ++ r) -> inA ks ->
    tf_InsertStringAtCursor seg (tf_st l r) (concat ks) = Some (tf_st (rev ks ++ l) r).
  Proof.
    intros HA Hks. unfold tf_InsertStringAtCursor, tf_insert_raw, tf_st; cbn [tf_value tf_cursor tf_n].
    rewrite (seg_stable _ Hks), (seg_stable _ HA).
    replace (zlen l) with (0 + zlen (rev l)) at 1 by (rewrite zlen_rev; lia).
    rewrite ins_walk_spec.
    assert (HA' : inA (rev (rev ks ++ l) ++ r)).
    { rewrite rev_app_distr, rev_involutive, <- app_assoc.
      apply inA_app in HA as [H1 H2]. apply inA_app; split; [auto|]. apply inA_app; auto. }
    assert (E : concat (rev l) ++ concat ks ++ concat r = concat (rev (rev ks ++ l) ++ r)).
    { rewrite rev_app_distr, rev_involutive, <- app_assoc, !concat_app; reflexivity. }
    rewrite E, tf_recount_stable by assumption. f_equal. f_equal.
    rewrite zlen_app, zlen_rev; lia.
  Qed.

  Lemma inA_drop_mid a x b : inA (a ++ x :: b) -> inA (a ++ b).
  Proof. intros H; apply inA_app in H as [H1 H2]; apply inA_app; split; auto; now inversion H2. Qed.

  Lemma tf_DeleteRight_cons l x r :
    inA (rev l ++ x :: r) -> tf_DeleteRight seg (tf_st l (x :: r)) = Some (tf_st l r).
  Proof.
    intros HA. unfold tf_DeleteRight, tf_st; cbn [tf_value tf_cursor tf_n].
    rewrite zlen_app, zlen_rev, zlen_cons. pose proof (zlen_nonneg r).
    destruct (zlen l + (zlen r + 1) =? zlen l) eqn:E; [lia|].
    rewrite (seg_stable _ HA).
    replace (zlen l) with (0 + zlen (rev l)) at 1 by (rewrite zlen_rev; lia).
    rewrite del_right_walk_spec, tf_recount_stable by (eapply inA_drop_mid; eauto). reflexivity.
  Qed.

  Lemma tf_DeleteRight_nil l : tf_DeleteRight seg (tf_st l []) = Some (tf_st l []).
  Proof.
    unfold tf_DeleteRight, tf_st; cbn [tf_value tf_cursor tf_n].
    rewrite app_nil_r, zlen_rev, Z.eqb_refl; reflexivity.
  Qed.

  Lemma tf_DeleteLeft_cons x l r :
    inA (rev (x :: l) ++ r) -> tf_DeleteLeft seg (tf_st (x :: l) r) = Some (tf_st l r).
  Proof.
    intros HA. unfold tf_DeleteLeft, tf_st; cbn [tf_value tf_cursor tf_n].
    rewrite zlen_cons. pose proof (zlen_nonneg l).
    destruct (zlen l + 1 =? 0) eqn:E; [lia|].
    rewrite (seg_stable _ HA). cbn [rev] in *. rewrite <- app_assoc in *. cbn [app] in *.
    replace (zlen l + 1) with (0 + zlen (rev l) + 1) at 1 by (rewrite zlen_rev; lia).
    rewrite del_left_walk_spec, tf_recount_stable by (eapply inA_drop_mid; eauto).
    cbn [tf_value tf_cursor tf_n]. f_equal. f_equal. lia.
  Qed.

  Lemma tf_DeleteLeft_nil r : tf_DeleteLeft seg (tf_st [] r) = Some (tf_st [] r).
  Proof. reflexivity. Qed.

  Lemma tf_Kill_cons l x r :
    inA (rev l ++ x :: r) -> tf_Kill seg (tf_st l (x :: r)) = Some (tf_st l []).
  Proof.
    intros HA. unfold tf_Kill, tf_st; cbn [tf_value tf_cursor tf_n].
    rewrite zlen_app, zlen_rev, zlen_cons. pose proof (zlen_nonneg r).
    destruct (zlen l =? zlen l + (zlen r + 1)) eqn:E; [lia|].
    rewrite (seg_stable _ HA).
    replace (zlen l) with (0 + zlen (rev l)) at 1 by (rewrite zlen_rev; lia).
    apply inA_app in HA as [H1 _].
    rewrite kill_walk_spec, tf_recount_stable, app_nil_r by assumption. reflexivity.
  Qed.

  Lemma tf_Kill_nil l : tf_Kill seg (tf_st l []) = Some (tf_st l []).
  Proof.
    unfold tf_Kill, tf_st; cbn [tf_value tf_cursor tf_n].
    rewrite app_nil_r, zlen_rev, Z.eqb_refl; reflexivity.
  Qed.

  Lemma tf_CursorTo_st l r k :
    0 <= k -> tf_CursorTo (tf_st l r) k =
              let e := i_make (rev l ++ r) k in tf_st (i_left e) (i_right e).
  Proof.
    intros Hk. unfold tf_CursorTo, tf_st, i_make; cbn [tf_value tf_cursor tf_n i_left i_right].
    rewrite rev_involutive, firstn_skipn, zlen_rev, zlen_firstn by assumption.
    f_equal. destruct (zlen (rev l ++ r) <? k) eqn:E; lia.
  Qed.

  Lemma tf_st_concat_inj l r l' r' :
    inA (rev l ++ r) -> inA (rev l' ++ r') ->
    concat (rev l ++ r) = concat (rev l' ++ r') -> rev l ++ r = rev l' ++ r'.
  Proof.
    intros H1 H2 E. apply seg_stable in H1, H2. rewrite E in H1. congruence.
  Qed.
End TextFieldProofs.
