(* C12 - the renderer's own output satisfies the side condition [toks_ok] of the simulation
   theorem (EmuBridge.v / EmuRefine.v).

   [toks_ok] = every token is in the vocabulary of term_caps (GateProofs.render_allowed), its
   numbers and parameters are as the wire needs them ([tok_ok]), and every glyph is written
   where it fits before the right edge of the reference terminal ([fits]).  The last part is
   a cursor-tracking induction over the render loop: the reference terminal's cursor column
   is the renderer's column whenever the renderer does not reposition, CUP puts it there
   otherwise, the pen delta does not move it, and a cell of span w is written at column c
   only with c + w <= cols because RenderSpec.row_ok lets no wide cell overhang the row.
   Only the cursor column and the size of the terminal are tracked - nothing about what the
   terminal displays is needed (so: no [settled] / [in_sync], only [dims_ok]). *)
From Vx Require Import base.Prelude base.ListX model.Colour model.RenderTypes model.Render model.RefTerm
  model.RenderSpec model.RenderCheck model.Gate model.EmuSpec model.EmuBridge model.EmuWire.
From Vx Require Import proofs.ColourProofs proofs.GateProofs proofs.RenderDelta proofs.RenderRow proofs.RenderFrame
  proofs.RenderHistory proofs.EmuRefine.
Require Import ZifyBool Lia.
Local Open Scope Z_scope.

Section Fits.
Variable tw : list Z -> Z.

(* the positional part of toks_ok *)
Fixpoint fits_all (r : term) (ks : list tok) : Prop :=
  match ks with
  | [] => True
  | k :: rest => fits tw r k /\ fits_all (interp1 tw r k) rest
  end.

Lemma toks_ok_of ks : forall r,
  forallb (allowed term_caps) ks = true -> forallb tok_ok ks = true -> fits_all r ks ->
  toks_ok tw r ks.
Proof.
  induction ks as [|k ks IH]; intros r Ha Ht Hf; cbn [toks_ok]; [exact I|].
  cbn [forallb] in Ha, Ht. apply andb_prop in Ha as [Ha1 Ha2]. apply andb_prop in Ht as [Ht1 Ht2].
  destruct Hf as [Hf1 Hf2]. split; [split; [exact Ha1|split; [exact Ht1|exact Hf1]]|].
  apply IH; assumption.
Qed.

(* [run t ks c]: every glyph of ks is written where it fits, the cursor column ends at c and
   the size of the terminal is not touched *)
Definition run (t : term) (ks : list tok) (c : Z) : Prop :=
  fits_all t ks /\ tm_col (interp tw t ks) = c /\
  tm_cols (interp tw t ks) = tm_cols t /\ tm_rows (interp tw t ks) = tm_rows t.

Lemma interp_cons t k ks : interp tw t (k :: ks) = interp tw (interp1 tw t k) ks.
Proof. reflexivity. Qed.

Lemma fits_all_app a : forall r b, fits_all r a -> fits_all (interp tw r a) b -> fits_all r (a ++ b).
Proof.
  induction a as [|k a IH]; intros r b Ha Hb; cbn [app]; [exact Hb|].
  destruct Ha as [H1 H2]. cbn [fits_all]. split; [exact H1|]. apply IH; [exact H2|].
  rewrite interp_cons in Hb. exact Hb.
Qed.

Lemma run_nil t : run t [] (tm_col t).
Proof. unfold run, interp; cbn [fits_all fold_left]. repeat split. Qed.

Lemma run_app t a b c1 c2 : run t a c1 -> run (interp tw t a) b c2 -> run t (a ++ b) c2.
Proof.
  intros [F1 [_ [C1 R1]]] [F2 [K2 [C2 R2]]]. unfold run. rewrite interp_app.
  split; [now apply fits_all_app|]. split; [exact K2|]. split; congruence.
Qed.

(* tokens that write no text *)
Lemma neutral_fits ks : forall t, forallb grid_neutral ks = true -> fits_all t ks.
Proof.
  induction ks as [|k ks IH]; intros t H; cbn [fits_all]; [exact I|].
  cbn [forallb] in H. apply andb_prop in H as [Hk Hks]. split; [|now apply IH].
  destruct k; try discriminate; exact I.
Qed.

Lemma pen_only_run ks : forall t, forallb pen_only ks = true -> run t ks (tm_col t).
Proof.
  induction ks as [|k ks IH]; intros t H; [apply run_nil|].
  cbn [forallb] in H. apply andb_prop in H as [Hk Hks].
  specialize (IH (interp1 tw t k) Hks). destruct IH as [F [K [C R]]].
  unfold run. rewrite interp_cons. cbn [fits_all].
  destruct k; try discriminate; (split; [split; [exact I|exact F]|]); split; try exact K; split; assumption.
Qed.

Lemma put_glyph_cur t g k :
  1 <= k -> tm_col t + k <= tm_cols t ->
  tm_col (put_glyph t g k) = tm_col t + k /\ tm_cols (put_glyph t g k) = tm_cols t /\
  tm_rows (put_glyph t g k) = tm_rows t.
Proof.
  intros Hk Hfit. unfold put_glyph.
  destruct (k <? 1) eqn:E1; [lia|]. destruct (tm_cols t <? tm_col t + k) eqn:E2; [lia|].
  cbn. repeat split.
Qed.

Lemma cell_text_run cp t n col :
  tm_col t = col -> col + span n <= tm_cols t -> adv_ok tw cp n = true ->
  run t [cell_text cp n] (col + span n).
Proof.
  intros Hc Hfit Hadv. pose proof (span_pos n) as Hs.
  unfold run. rewrite interp_cons. unfold interp at 1 2 3; cbn [fold_left fits_all].
  unfold adv_ok in Hadv. unfold cell_text in *.
  destruct (eff_width n =? 0) eqn:E0.
  - assert (Hsp : span n = 1) by (unfold span; lia).
    cbn [fits interp1]. destruct (put_glyph_cur t [32] 1 ltac:(lia) ltac:(lia)) as [A [B C]].
    repeat split; try assumption; lia.
  - destruct ((1 <? eff_width n) && cap_explicit_width cp) eqn:E1.
    + assert (Hsp : eff_width n = span n) by (unfold span; lia).
      cbn [fits interp1]. rewrite Hsp.
      destruct (put_glyph_cur t (c_g n) (span n) ltac:(lia) ltac:(lia)) as [A [B C]].
      repeat split; try assumption; lia.
    + apply Z.eqb_eq in Hadv. cbn [fits interp1]. rewrite Hadv.
      destruct (put_glyph_cur t (c_g n) (span n) ltac:(lia) ltac:(lia)) as [A [B C]].
      repeat split; try assumption; lia.
Qed.

Section Loop.
Variable measure : list Z -> Z.
Variable cp : caps.
Notation row_ok := (row_ok tw measure cp).

(* the token group of one written cell *)
Lemma write_run t row col (repos : bool) pen n :
  0 <= col -> col + span n <= tm_cols t ->
  (repos = false -> tm_col t = col) ->
  adv_ok tw cp n = true ->
  let closing := repos && nonempty (s_link pen) in
  let pre := when repos (when closing [KLink [] []] ++ [KCup (row + 1) (col + 1)]) in
  let pen1 := if closing then clear_link pen else pen in
  run t (pre ++ emit_delta cp pen1 (c_st n) ++ [cell_text cp n]) (col + span n).
Proof.
  intros Hcol Hfit Hcur Hadv. cbv zeta. pose proof (span_pos n) as Hs.
  set (closing := repos && nonempty (s_link pen)).
  set (pre := when repos (when closing [KLink [] []] ++ [KCup (row + 1) (col + 1)])).
  assert (H1 : run t pre col).
  { unfold pre. destruct repos; cbn [when].
    - destruct closing; cbn [when app]; unfold run, interp; cbn [fold_left fits_all fits interp1];
        cbn [tm_col tm_cols tm_rows set_cur set_link]; repeat split; unfold clampz; lia.
    - rewrite <- (Hcur eq_refl). apply run_nil. }
  apply (run_app t pre _ col); [exact H1|].
  destruct H1 as [_ [K1 [C1 R1]]].
  set (t1 := interp tw t pre) in *.
  apply (run_app t1 _ _ col).
  - rewrite <- K1. apply pen_only_run. apply emit_delta_pen_only.
  - pose proof (pen_only_run (emit_delta cp (if closing then clear_link pen else pen) (c_st n)) t1
                  (emit_delta_pen_only cp _ _)) as [_ [K2 [C2 R2]]].
    apply cell_text_run; [congruence| |exact Hadv]. rewrite C2, C1. exact Hfit.
Qed.

Lemma cells_run (refresh : bool) (row : Z) : forall ns ls col skip repos pen t,
  col + zlen ns = tm_cols t -> 0 <= col -> 0 <= skip ->
  row_ok ns skip = true ->
  (repos = false -> tm_col t = col + skip) ->
  let '(o, _, _) := render_cells cp refresh row ns ls col skip repos pen in
  fits_all t o /\ tm_cols (interp tw t o) = tm_cols t /\ tm_rows (interp tw t o) = tm_rows t.
Proof.
  induction ns as [|n ns IH]; intros ls col skip repos pen t Hcols Hcol Hskip Hok Hcur.
  - cbn [render_cells]. unfold interp; cbn [fold_left fits_all]. repeat split.
  - destruct ls as [|l ls]; [cbn [render_cells]; unfold interp; cbn [fold_left fits_all]; repeat split|].
    rewrite zlen_cons in Hcols. cbn [render_cells].
    destruct (0 <? skip) eqn:Es.
    + cbn [RenderSpec.row_ok] in Hok. rewrite Es in Hok.
      specialize (IH ls (col + 1) (skip - 1) repos pen t ltac:(lia) ltac:(lia) ltac:(lia) Hok
                     ltac:(intros E; specialize (Hcur E); lia)).
      destruct (render_cells cp refresh row ns ls (col + 1) (skip - 1) repos pen) as [[o l'] p]. exact IH.
    + assert (skip = 0) by lia. subst skip. clear Hskip Es.
      destruct (row_ok_head tw measure cp n ns Hok) as [Hsx [Hadv [Hwf Hok']]].
      rewrite Hsx.
      pose proof (span_pos n) as Hsp.
      pose proof (row_ok_skip tw measure cp ns (span n - 1) ltac:(lia) Hok') as Hfit.
      destruct (cell_eqb n l && negb refresh).
      * specialize (IH ls (col + 1) (span n - 1) true pen t ltac:(lia) ltac:(lia) ltac:(lia) Hok'
                       ltac:(intros E; discriminate)).
        destruct (render_cells cp refresh row ns ls (col + 1) (span n - 1) true pen) as [[o l'] p]. exact IH.
      * pose proof (write_run t row col repos pen n Hcol ltac:(lia)
                      ltac:(intros E; specialize (Hcur E); lia) Hadv) as Hw.
        cbv zeta in Hw. destruct Hw as [F3 [K3 [C3 R3]]].
        set (toks := when repos (when (repos && nonempty (s_link pen)) [KLink [] []] ++ [KCup (row + 1) (col + 1)]) ++
                     emit_delta cp (if repos && nonempty (s_link pen) then clear_link pen else pen) (c_st n) ++
                     [cell_text cp n]) in *.
        specialize (IH ls (col + 1) (span n - 1) false (c_st n) (interp tw t toks)
                       ltac:(lia) ltac:(lia) ltac:(lia) Hok' ltac:(intros _; lia)).
        destruct (render_cells cp refresh row ns ls (col + 1) (span n - 1) false (c_st n)) as [[o l'] p].
        destruct IH as [F [C R]]. rewrite interp_app.
        split; [apply fits_all_app; assumption|]. split; congruence.
Qed.

Lemma rows_run (refresh : bool) : forall nss lss row pen t,
  (forall ns, In ns nss -> zlen ns = tm_cols t /\ row_ok ns 0 = true) ->
  let '(o, _, _) := render_rows cp refresh row nss lss pen in
  fits_all t o /\ tm_cols (interp tw t o) = tm_cols t /\ tm_rows (interp tw t o) = tm_rows t.
Proof.
  induction nss as [|ns nss IH]; intros lss row pen t Hns.
  - cbn [render_rows]. unfold interp; cbn [fold_left fits_all]. repeat split.
  - destruct lss as [|ls lss]; [cbn [render_rows]; unfold interp; cbn [fold_left fits_all]; repeat split|].
    cbn [render_rows].
    destruct (Hns ns (or_introl eq_refl)) as [Hnl Hok].
    pose proof (cells_run refresh row ns ls 0 0 true pen t ltac:(lia) ltac:(lia) ltac:(lia) Hok
                  ltac:(intros E; discriminate)) as H1.
    destruct (render_cells cp refresh row ns ls 0 0 true pen) as [[o1 l1] p1].
    destruct H1 as [F1 [C1 R1]].
    assert (Hns' : forall ns0, In ns0 nss -> zlen ns0 = tm_cols (interp tw t o1) /\ row_ok ns0 0 = true).
    { intros ns0 Hin. rewrite C1. apply Hns. now right. }
    specialize (IH lss (row + 1) p1 (interp tw t o1) Hns').
    destruct (render_rows cp refresh (row + 1) nss lss p1) as [[o2 l2] p2].
    destruct IH as [F2 [C2 R2]]. rewrite interp_app.
    split; [apply fits_all_app; assumption|]. split; congruence.
Qed.

(* ---------- the numbers and parameters written ---------- *)
Hypothesis Hrgb : cap_rgb cp = false.

Lemma colour_ok_params c : colour_ok (col_params cp c) = true.
Proof.
  unfold col_params. rewrite Hrgb. pose proof (fallback_params_len c) as H.
  unfold color_params in *. destruct (is_indexed (as_index c)).
  - cbn [colour_ok]. unfold u8. pose proof (Z.mod_pos_bound (as_index c) 256 ltac:(lia)). lia.
  - destruct (is_rgb (as_index c)); [|reflexivity].
    unfold zlen in H. cbn [length] in H. lia.
Qed.

Lemma delta_tok_ok pen n : link_ok n = true -> forallb tok_ok (emit_delta cp pen n) = true.
Proof.
  intros Hl. unfold emit_delta, emit_fg, emit_bg, emit_ul, emit_attr, emit_uls, emit_link.
  rewrite !forallb_app. repeat (apply andb_true_intro; split).
  - destruct (s_fg pen =? s_fg n); [reflexivity|]. cbn [forallb tok_ok]. now rewrite colour_ok_params.
  - destruct (s_bg pen =? s_bg n); [reflexivity|]. cbn [forallb tok_ok]. now rewrite colour_ok_params.
  - destruct (cap_styled_ul cp); [|reflexivity]. destruct (s_ul pen =? s_ul n); reflexivity.
  - apply forallb_forall. intros k Hk. apply in_map_iff in Hk as [c [<- _]]. reflexivity.
  - destruct (s_uls pen =? s_uls n); [reflexivity|].
    destruct (cap_styled_ul cp); [reflexivity|]. destruct (s_uls n =? 0); reflexivity.
  - destruct (_ || _); [|reflexivity]. cbn [forallb tok_ok]. unfold link_ok in Hl.
    destruct (nonempty (s_link n)); cbn [negb orb] in Hl; [rewrite Hl|]; reflexivity.
Qed.

Lemma cells_tok_ok (refresh : bool) (row : Z) : forall ns ls col skip repos pen,
  0 <= row -> row + 1 < 9223372036854775808 ->
  0 <= col -> col + zlen ns < 9223372036854775808 -> 0 <= skip ->
  row_ok ns skip = true -> row_wire_ok ns skip = true ->
  let '(o, _, _) := render_cells cp refresh row ns ls col skip repos pen in
  forallb tok_ok o = true.
Proof.
  intros ns ls col skip repos pen Hr0 Hr1. revert ls col skip repos pen.
  induction ns as [|n ns IH]; intros ls col skip repos pen Hcol Hlim Hskip Hok Hwire; [reflexivity|].
  destruct ls as [|l ls]; [reflexivity|].
  rewrite zlen_cons in Hlim. pose proof (zlen_nonneg ns) as Hnn. cbn [render_cells].
  cbn [row_wire_ok] in Hwire.
  destruct (0 <? skip) eqn:Es.
  - cbn [RenderSpec.row_ok] in Hok. rewrite Es in Hok.
    specialize (IH ls (col + 1) (skip - 1) repos pen ltac:(lia) ltac:(lia) ltac:(lia) Hok Hwire).
    destruct (render_cells cp refresh row ns ls (col + 1) (skip - 1) repos pen) as [[o l'] p]. exact IH.
  - assert (skip = 0) by lia. subst skip. clear Hskip Es.
    destruct (row_ok_head tw measure cp n ns Hok) as [Hsx [Hadv [Hwf Hok']]].
    rewrite Hsx. pose proof (span_pos n) as Hsp.
    apply andb_prop in Hwire as [Hlk Hwire'].
    destruct (cell_eqb n l && negb refresh).
    + specialize (IH ls (col + 1) (span n - 1) true pen ltac:(lia) ltac:(lia) ltac:(lia) Hok' Hwire').
      destruct (render_cells cp refresh row ns ls (col + 1) (span n - 1) true pen) as [[o l'] p]. exact IH.
    + specialize (IH ls (col + 1) (span n - 1) false (c_st n) ltac:(lia) ltac:(lia) ltac:(lia) Hok' Hwire').
      destruct (render_cells cp refresh row ns ls (col + 1) (span n - 1) false (c_st n)) as [[o l'] p].
      rewrite !forallb_app. rewrite IH, (delta_tok_ok _ _ Hlk). cbn [forallb].
      assert (Hct : tok_ok (cell_text cp n) = true).
      { unfold cell_text. destruct (eff_width n =? 0); [reflexivity|].
        destruct ((1 <? eff_width n) && cap_explicit_width cp); reflexivity. }
      rewrite Hct.
      assert (Hcup : tok_ok (KCup (row + 1) (col + 1)) = true) by (cbn [tok_ok]; unfold small; lia).
      destruct repos; cbn [when andb]; [destruct (nonempty (s_link pen))|]; cbn [when app forallb];
        rewrite ?Hcup; reflexivity.
Qed.

Lemma rows_tok_ok (refresh : bool) : forall nss lss row pen,
  0 <= row -> row + zlen nss < 9223372036854775808 ->
  (forall ns, In ns nss -> zlen ns < 9223372036854775808 /\ row_ok ns 0 = true /\ row_wire_ok ns 0 = true) ->
  let '(o, _, _) := render_rows cp refresh row nss lss pen in
  forallb tok_ok o = true.
Proof.
  induction nss as [|ns nss IH]; intros lss row pen Hr0 Hr1 Hns; [reflexivity|].
  destruct lss as [|ls lss]; [reflexivity|]. cbn [render_rows].
  rewrite zlen_cons in Hr1. pose proof (zlen_nonneg nss) as Hnn.
  destruct (Hns ns (or_introl eq_refl)) as [Hl [Hok Hwire]].
  pose proof (cells_tok_ok refresh row ns ls 0 0 true pen Hr0 ltac:(lia) ltac:(lia) ltac:(lia) ltac:(lia) Hok Hwire) as H1.
  destruct (render_cells cp refresh row ns ls 0 0 true pen) as [[o1 l1] p1].
  specialize (IH lss (row + 1) p1 ltac:(lia) ltac:(lia) ltac:(intros ns0 Hin; apply Hns; now right)).
  destruct (render_rows cp refresh (row + 1) nss lss p1) as [[o2 l2] p2].
  rewrite forallb_app. now rewrite H1, IH.
Qed.
End Loop.

(* ---------- the writer ---------- *)
Lemma show_cursor_tok_ok c :
  cu_vis c = true -> cursor_wire_ok c = true -> forallb tok_ok (show_cursor c) = true.
Proof.
  intros Hv H. unfold cursor_wire_ok in H. rewrite Hv in H. cbn [negb orb] in H.
  unfold show_cursor. cbn [forallb tok_ok]. lia.
Qed.

Lemma show_cursor_neutral c : forallb grid_neutral (show_cursor c) = true.
Proof. reflexivity. Qed.

Lemma flush_tok_ok s body :
  forallb tok_ok body = true -> cursor_wire_ok (v_cnext s) = true -> forallb tok_ok (flush s body) = true.
Proof.
  intros Hb Hc. pose proof (fun H => show_cursor_tok_ok (v_cnext s) H Hc) as Hsc.
  destruct (flush_cases s body) as [[_ E]|[_ E]]; rewrite E; clear E.
  - destruct (cu_vis (v_cnext s)); cbn [negb andb].
    + destruct (cursor_moved (v_cnext s) (v_clast s)); [now apply Hsc|reflexivity].
    + destruct (cu_vis (v_clast s)); reflexivity.
  - rewrite !forallb_app, Hb.
    destruct (cu_vis (v_clast s)); destruct (cap_sync (v_caps s)); destruct (cu_vis (v_cnext s));
      cbn [when andb forallb tok_ok app]; rewrite ?forallb_app, ?Hsc by reflexivity; reflexivity.
Qed.

(* the positional part for one Render, under any capability set: only the shape of the two
   screens and C01's content hypotheses are needed *)
Theorem render_fits measure cp s r :
  v_caps s = cp -> dims_ok s r -> content_ok tw measure cp s ->
  fits_all r (snd (do_render s)).
Proof.
  intros Hcp [Hnr [_ [Hnc _]]] Hok.
  unfold do_render, render_body. rewrite Hcp.
  assert (ROWS : forall t1, tm_cols t1 = tm_cols r ->
    let '(o, _, _) := render_rows cp (v_refresh s) 0 (v_next s) (v_last s) style0 in
    fits_all t1 o /\ tm_cols (interp tw t1 o) = tm_cols t1 /\ tm_rows (interp tw t1 o) = tm_rows t1).
  { intros t1 C. apply (rows_run measure cp (v_refresh s) (v_next s) (v_last s) 0 style0 t1).
    intros ns Hin. split; [rewrite C; now apply Hnc|now apply Hok]. }
  destruct (render_rows cp (v_refresh s) 0 (v_next s) (v_last s) style0) as [[o l] pen].
  cbn [snd].
  set (shape := when (negb (zlist_eqb (v_mlast s) (v_mnext s))) [KMouseShape (v_mnext s)]).
  set (cl := when (nonempty (s_link pen)) [KLink [] []]).
  set (sc := when (cu_vis (v_cnext s) && negb (cu_vis (v_clast s))) (show_cursor (v_cnext s))).
  assert (Nshape : forallb grid_neutral shape = true) by (unfold shape; destruct (negb _); reflexivity).
  assert (Ncl : forallb grid_neutral cl = true) by (unfold cl; destruct (nonempty _); reflexivity).
  assert (Nsc : forallb grid_neutral sc = true) by (unfold sc; destruct (_ && _); reflexivity).
  destruct (flush_cases s (shape ++ o ++ cl ++ sc)) as [[_ E]|[_ E]]; rewrite E; clear E.
  - apply neutral_fits.
    destruct (cu_vis (v_cnext s)); destruct (cu_vis (v_clast s)); cbn [negb andb];
      try destruct (cursor_moved (v_cnext s) (v_clast s)); reflexivity.
  - set (pro := when (cu_vis (v_clast s)) [KHideCursor] ++ when (cap_sync (v_caps s)) [KSyncOn]).
    set (epi := [KSgrReset] ++ when (cu_vis (v_cnext s) && cu_vis (v_clast s)) (show_cursor (v_cnext s)) ++
                when (cap_sync (v_caps s)) [KSyncOff]).
    assert (Npro : forallb grid_neutral pro = true).
    { unfold pro. destruct (cu_vis (v_clast s)); destruct (cap_sync (v_caps s)); reflexivity. }
    assert (Nepi : forallb grid_neutral epi = true).
    { unfold epi. destruct (cu_vis (v_cnext s) && cu_vis (v_clast s)); destruct (cap_sync (v_caps s)); reflexivity. }
    replace (pro ++ (shape ++ o ++ cl ++ sc) ++ epi) with ((pro ++ shape) ++ o ++ (cl ++ sc ++ epi))
      by (rewrite <- !app_assoc; reflexivity).
    assert (N1 : forallb grid_neutral (pro ++ shape) = true) by (rewrite forallb_app, Npro, Nshape; reflexivity).
    assert (N3 : forallb grid_neutral (cl ++ sc ++ epi) = true)
      by (rewrite !forallb_app, Ncl, Nsc, Nepi; reflexivity).
    apply fits_all_app; [now apply neutral_fits|].
    destruct (interp_neutral tw (pro ++ shape) r N1) as [_ [_ C1]].
    specialize (ROWS (interp tw r (pro ++ shape)) C1). destruct ROWS as [F _].
    apply fits_all_app; [exact F|]. now apply neutral_fits.
Qed.

(* one Render under the emulator's capability set: the whole side condition *)
Theorem render_toks_ok measure s r :
  v_caps s = term_caps -> dims_ok s r -> size_ok (tm_rows r) (tm_cols r) ->
  content_ok tw measure term_caps s -> wire_ok s = true ->
  toks_ok tw r (snd (do_render s)).
Proof.
  intros Hcp Hd [Hsr Hsc] Hok Hwire.
  pose proof Hd as [Hnr [_ [Hnc _]]].
  unfold wire_ok in Hwire. apply andb_prop in Hwire as [Hwr Hwc]. rewrite forallb_forall in Hwr.
  apply toks_ok_of.
  - pose proof (render_allowed s) as H. rewrite Hcp in H. exact H.
  - unfold do_render, render_body. rewrite Hcp.
    pose proof (rows_tok_ok measure term_caps eq_refl (v_refresh s) (v_next s) (v_last s) 0 style0
                  ltac:(lia) ltac:(lia)) as H.
    assert (Hns : forall ns, In ns (v_next s) -> zlen ns < 9223372036854775808 /\
                    row_ok tw measure term_caps ns 0 = true /\ row_wire_ok ns 0 = true).
    { intros ns Hin. split; [rewrite (Hnc ns Hin); exact Hsc|]. split; [now apply Hok|now apply Hwr]. }
    specialize (H Hns).
    destruct (render_rows term_caps (v_refresh s) 0 (v_next s) (v_last s) style0) as [[o l] pen].
    cbn [snd]. apply flush_tok_ok; [|exact Hwc].
    rewrite !forallb_app, H.
    destruct (negb (zlist_eqb (v_mlast s) (v_mnext s))); destruct (nonempty (s_link pen));
      destruct (cu_vis (v_cnext s) && negb (cu_vis (v_clast s))) eqn:Ev; cbn [when forallb tok_ok andb existsb negb];
      try reflexivity;
      (apply andb_prop in Ev as [Ev _]; rewrite (show_cursor_tok_ok _ Ev Hwc); reflexivity).
  - exact (render_fits measure term_caps s r Hcp Hd Hok).
Qed.

Theorem frame_toks_ok measure s r ops e :
  v_caps s = term_caps -> dims_ok s r -> size_ok (tm_rows r) (tm_cols r) ->
  content_ok tw measure term_caps (fold_left apply_op ops s) ->
  wire_ok (fold_left apply_op ops s) = true ->
  toks_ok tw r (snd (do_frame s ops e)).
Proof.
  intros Hcp [Hnr [Hnl [Hnc Hlc]]] Hsz Hok Hwire.
  destruct (ops_keep ops s) as [A [B [Cc [D [E [F G]]]]]]. cbv zeta in *.
  set (s1 := fold_left apply_op ops s) in *.
  assert (Hd1 : dims_ok s1 r).
  { split; [unfold zlen in *; lia|]. split; [congruence|]. split; [now apply G|now rewrite B]. }
  unfold do_frame. fold s1. destruct e as [| |rows cols].
  - apply (render_toks_ok measure s1 r); auto. congruence.
  - unfold do_refresh. apply (render_toks_ok measure (set_refresh s1) r); auto. cbn. congruence.
  - exact I.
Qed.

End Fits.

(* ---------- histories ---------- *)
(* emu_history_ok without the side condition: what remains are decidable hypotheses on the
   application's content ([wire_ok]) and on the sizes ([size_ok]) *)
Fixpoint emu_history_full (tw measure : list Z -> Z) (s : vstate) (r : term) (t : T.term) (fs : list frame) : Prop :=
  match fs with
  | [] => True
  | (ops, e) :: rest =>
      let s1 := fold_left apply_op ops s in
      match e with
      | FResize rows cols =>
          1 <= rows -> 1 <= cols -> size_ok rows cols ->
          forall r2 t2 e2, resized r r2 rows cols ->
            TP.WFs0 e2 cols rows t2 -> vaxis_modes t2 = true -> emu_rel t2 r2 ->
            emu_history_full tw measure (do_resize s1 rows cols) r2 t2 rest
      | _ =>
          content_ok tw measure term_caps s1 -> wire_ok s1 = true ->
          let '(s', o) := do_frame s ops e in
          exists t', emu_toks tw t o = T.TOk t' /\
            grid_shows term_caps (v_next s1) (grid_of t') = true /\
            cursor_shows (tm_rows r) (tm_cols r) (v_cnext s1) (ecursor_of t') = true /\
            emu_history_full tw measure s' (interp tw r o) t' rest
      end
  end.

Theorem emu_history_full_correct tw measure : forall fs s r t e w h,
  v_caps s = term_caps -> settled s r -> (v_refresh s = false -> in_sync measure term_caps s r) ->
  size_ok (tm_rows r) (tm_cols r) ->
  TP.WFs0 e w h t -> vaxis_modes t = true -> emu_rel t r ->
  emu_history_full tw measure s r t fs.
Proof.
  induction fs as [|[ops fe] rest IH]; intros s r t e w h Hcp Hs Hsy Hsz HW HM HR; cbn [emu_history_full]; [exact I|].
  cbv zeta. destruct (ops_keep ops s) as [A [B [Cc [D [E [F G]]]]]]. cbv zeta in *.
  pose proof (frame_toks_ok tw measure s r ops fe Hcp (proj1 Hs) Hsz) as Htoks.
  set (s1 := fold_left apply_op ops s) in *.
  pose proof (ops_settled ops s r Hs) as Hs1. fold s1 in Hs1.
  assert (Hsy1 : v_refresh s1 = false -> in_sync measure term_caps s1 r).
  { intros Hr. rewrite D in Hr. exact (ops_in_sync measure term_caps ops s r (Hsy Hr)). }
  assert (Hcp1 : v_caps s1 = term_caps) by congruence.
  assert (Frame : forall s2, v_caps s2 = term_caps -> settled s2 r ->
            (v_refresh s2 = false -> in_sync measure term_caps s2 r) -> v_next s2 = v_next s1 -> v_cnext s2 = v_cnext s1 ->
            content_ok tw measure term_caps s2 ->
            let '(s', o) := do_render s2 in
            toks_ok tw r o ->
            exists t', emu_toks tw t o = T.TOk t' /\
              grid_shows term_caps (v_next s1) (grid_of t') = true /\
              cursor_shows (tm_rows r) (tm_cols r) (v_cnext s1) (ecursor_of t') = true /\
              emu_history_full tw measure s' (interp tw r o) t' rest).
  { intros s2 C2 S2 Y2 N2 CN2 Hok.
    pose proof (render_correct tw measure term_caps s2 r C2 S2 Y2 Hok) as H.
    destruct (do_render s2) as [s' o]. cbv zeta in H. intros Htok.
    destruct H as [S' [Y' [R' [N' [C' [SN [CR SY]]]]]]].
    destruct (emu_simulates_refterm_list tw e w h o t r HW HM HR Htok) as [t' [E' [W' [M' [Rl' _]]]]].
    exists t'. split; [exact E'|].
    assert (Hdims : tm_rows (interp tw r o) = tm_rows r /\ tm_cols (interp tw r o) = tm_cols r).
    { destruct S' as [[D1 _] _]. destruct S2 as [[D1' _] _]. rewrite N' in D1.
      destruct Rl' as [Q1 Q2 _ _ _ _ _ _]. destruct HR as [P1 P2 _ _ _ _ _ _].
      rewrite <- Q1, <- Q2, <- P1, <- P2.
      rewrite (TP.WFs_height e w h t' W'), (TP.WFs_width e w h t' W'), (TP.WFs_height e w h t HW), (TP.WFs_width e w h t HW).
      split; reflexivity. }
    destruct Hdims as [Hdr Hdc].
    split.
    { rewrite <- N2. apply (emu_shows_view term_caps e w h s2 t' (interp tw r o) W' Rl'); [|exact SN].
      destruct S' as [[D1 [D2 [D3 D4]]] _]. rewrite N' in D1, D3.
      split; [exact D1|]. split; [|split; [exact D3|]].
      - destruct S2 as [[_ [L2 _]] _]. exact L2.
      - destruct S2 as [[_ [_ [_ L4]]] _]. rewrite Hdc. exact L4. }
    split.
    { rewrite <- CN2, <- Hdr, <- Hdc. apply emu_shows_cursor; auto.
      destruct S' as [_ [_ [Hc1 _]]]. exact Hc1. }
    apply (IH s' (interp tw r o) t' e w h C' S' (fun _ => Y')); auto.
    rewrite Hdr, Hdc. exact Hsz. }
  destruct fe as [| |rows cols].
  - intros Hok Hwire. specialize (Htoks Hok Hwire). unfold do_frame in *. fold s1 in Htoks |- *.
    specialize (Frame s1 Hcp1 Hs1 Hsy1 eq_refl eq_refl Hok).
    destruct (do_render s1) as [s' o]. exact (Frame Htoks).
  - intros Hok Hwire. specialize (Htoks Hok Hwire). unfold do_frame, do_refresh in *. fold s1 in Htoks |- *.
    specialize (Frame (set_refresh s1) Hcp1 Hs1 ltac:(intros Hr; discriminate) eq_refl eq_refl Hok).
    destruct (do_render (set_refresh s1)) as [s' o]. exact (Frame Htoks).
  - intros Hr Hc Hsz2 r2 t2 e2 Hres W2 M2 R2. apply (IH _ r2 t2 e2 cols rows); auto.
    + exact (resize_settled s1 r r2 rows cols Hr Hc Hs1 Hres).
    + cbn. intros Hf; discriminate.
    + destruct Hres as [Q1 [Q2 _]]. rewrite Q1, Q2. exact Hsz2.
Qed.

