(* C07, quirks: for every environment, probe result and list of replies the model of
   handleSequence + New's loop + applyQuirks + New's order + enableModes/disableModes +
   RenderedWidth's method choice yields ONE flag set: the closed-form specification
   (Quirks.spec_flags), and modes, capabilities and widths all agree with it. *)
From Vx Require Import base.Prelude base.ListX model.Parser model.Gate model.CapReplies model.Quirks
  proofs.CapRepliesProofs.
From Vx Require model.Input.
Import Input.
Require Import ZifyBool.

(* ---- what the input goroutine posts for one reply ---- *)
Definition sreply_events (r : sreply) : list emit :=
  match r with
  | SRpm m v => rpm_events (m, v)
  | SXtversion name => [Ev (ETermID (gostring name))]
  | SDa3 d => if zlist_eqb (gostring d) hex_VTE then [Ev (ECap CSmulx)] else []
  end.

Section Run.
Variable dec : item -> ikey.
Variable b64 : list Z -> option (list Z).

Lemma run_sreply_items r s : q_stalled s = None ->
  forall rest, run dec b64 s (sreply_items r ++ rest) =
               bind (Ok s (sreply_events r)) (fun s' => run dec b64 s' rest).
Proof.
  intros Hq rest. destruct r as [m v|name|d]; cbn [sreply_items sreply_events].
  - now apply run_rpm_items.
  - cbn [app run]. unfold handle, handle_dcs. cbn. rewrite post_free by assumption. reflexivity.
  - cbn [app run]. unfold handle, handle_dcs.
    change (124 =? 114) with false. change (124 =? 124) with true. change (zlen [33] <? 1) with false.
    change (zget [33] 0) with (Some 33). cbn [need]. change (33 =? 33) with true. cbv iota.
    destruct (zlist_eqb (gostring d) hex_VTE).
    + rewrite post_free by assumption. reflexivity.
    + reflexivity.
Qed.

Lemma run_sreplies rs : forall s, q_stalled s = None ->
  run dec b64 s (flat_map sreply_items rs ++ [da1_item]) = Ok s (flat_map sreply_events rs ++ [Ev EDA1]).
Proof.
  induction rs as [|r t IH]; intros s Hq; cbn [flat_map app].
  - now apply run_da1.
  - rewrite <- app_assoc. rewrite run_sreply_items by assumption. cbn [bind]. rewrite IH by assumption.
    now rewrite app_assoc.
Qed.
End Run.

(* ---- what New's loop learns from one reply ---- *)
Definition learn1 (su : startup) (e : event) : startup := fst (startup_event false su e).
Definition learn (su : startup) (r : sreply) : startup := fold_left learn1 (events_of (sreply_events r)) su.

Lemma collect_nostop evs : forall su rest, existsb is_da1 evs = false ->
  collect_caps false su (evs ++ rest) = collect_caps false (fold_left learn1 evs su) rest.
Proof.
  induction evs as [|e t IH]; intros su rest H; [reflexivity|].
  cbn [existsb] in H. apply Bool.orb_false_elim in H as [H1 H2].
  cbn [app collect_caps fold_left]. destruct (startup_event_caps su e) as [Hs _].
  unfold learn1 at 2. destruct (startup_event false su e) as [su1 stop]. cbn [fst snd] in *.
  rewrite Hs, H1. now apply IH.
Qed.

Lemma sreply_events_no_da1 r : existsb is_da1 (events_of (sreply_events r)) = false.
Proof.
  destruct r as [m v|name|d]; cbn [sreply_events].
  - unfold rpm_events. destruct (mode_cap _); [|reflexivity]. destruct (rpm_advertises _ _); reflexivity.
  - reflexivity.
  - destruct (zlist_eqb _ _); reflexivity.
Qed.

Lemma collect_sreplies rs : forall su,
  collect_caps false su (events_of (flat_map sreply_events rs ++ [Ev EDA1])) = (fold_left learn rs su, [], true).
Proof.
  induction rs as [|r t IH]; intros su; [reflexivity|].
  cbn [flat_map fold_left]. rewrite <- app_assoc, events_of_app.
  rewrite collect_nostop by apply sreply_events_no_da1. apply IH.
Qed.

(* the fields of what one reply teaches *)
Definition adv1 (r : sreply) : bool := match r with SRpm m v => (m =? 2027) && rpm_advertises 2027 v | _ => false end.
Definition vte1 (r : sreply) : bool := match r with SDa3 d => zlist_eqb (gostring d) hex_VTE | _ => false end.
Definition id1 (cur : list Z) (r : sreply) : list Z := match r with SXtversion name => gostring name | _ => cur end.

Lemma learn_fields su r :
  c_unicode (su_caps (learn su r)) = c_unicode (su_caps su) || adv1 r /\
  c_explicit (su_caps (learn su r)) = c_explicit (su_caps su) /\
  c_nozwj (su_caps (learn su r)) = c_nozwj (su_caps su) /\
  c_smulx (su_caps (learn su r)) = c_smulx (su_caps su) || vte1 r /\
  su_termid (learn su r) = id1 (su_termid su) r.
Proof.
  unfold learn. destruct r as [m v|name|d]; cbn [sreply_events adv1 vte1 id1].
  - unfold rpm_events, mode_cap. cbn [fst snd].
    destruct (Z.eqb_spec m 2026) as [->|N1]; [|destruct (Z.eqb_spec m 2027) as [->|N2]; [|destruct (Z.eqb_spec m 2031) as [->|N3]]].
    + destruct (rpm_advertises 2026 v); cbn; rewrite ?orb_false_r; auto.
    + destruct (rpm_advertises 2027 v); cbn; rewrite ?orb_false_r, ?orb_true_r; auto.
    + destruct (rpm_advertises 2031 v); cbn; rewrite ?orb_false_r; auto.
    + cbn. rewrite ?orb_false_r; auto.
  - cbn. rewrite ?orb_false_r; auto.
  - destruct (zlist_eqb (gostring d) hex_VTE); cbn; rewrite ?orb_false_r, ?orb_true_r; auto.
Qed.

Lemma spec_adv_existsb rs : spec_adv2027 rs = existsb adv1 rs.
Proof. reflexivity. Qed.
Lemma spec_vte_existsb rs : spec_vte rs = existsb vte1 rs.
Proof. reflexivity. Qed.
Lemma spec_termid_fold rs : forall cur, spec_termid cur rs = fold_left id1 rs cur.
Proof. induction rs as [|r t IH]; intros cur; [reflexivity|]. destruct r; cbn [spec_termid fold_left id1]; apply IH. Qed.

Lemma learned_fields rs : forall su,
  c_unicode (su_caps (fold_left learn rs su)) = c_unicode (su_caps su) || spec_adv2027 rs /\
  c_explicit (su_caps (fold_left learn rs su)) = c_explicit (su_caps su) /\
  c_nozwj (su_caps (fold_left learn rs su)) = c_nozwj (su_caps su) /\
  c_smulx (su_caps (fold_left learn rs su)) = c_smulx (su_caps su) || spec_vte rs /\
  su_termid (fold_left learn rs su) = spec_termid (su_termid su) rs.
Proof.
  induction rs as [|r t IH]; intros su.
  - cbn. rewrite !orb_false_r. auto.
  - cbn [fold_left]. destruct (IH (learn su r)) as (H1 & H2 & H3 & H4 & H5).
    destruct (learn_fields su r) as (L1 & L2 & L3 & L4 & L5).
    rewrite H1, H2, H3, H4, H5, L1, L2, L3, L4, L5.
    change (spec_adv2027 (r :: t)) with (adv1 r || spec_adv2027 t).
    change (spec_vte (r :: t)) with (vte1 r || spec_vte t).
    rewrite !orb_assoc. repeat split; try reflexivity.
    destruct r; reflexivity.
Qed.

(* New's loop on any reply list: it ends (DA1 arrives) and has learned exactly this *)
Theorem collected_spec ew rs :
  exists su, collected ew rs = Some su /\
    c_unicode (su_caps su) = spec_adv2027 rs /\ c_explicit (su_caps su) = ew /\ c_nozwj (su_caps su) = false /\
    c_smulx (su_caps su) = spec_vte rs /\ su_termid su = spec_termid [] rs.
Proof.
  unfold collected. rewrite run_sreplies by reflexivity. rewrite collect_sreplies.
  eexists. split; [reflexivity|].
  destruct (learned_fields rs (mkStartup (set_explicit caps0 ew) [] [])) as (H1 & H2 & H3 & H4 & H5).
  rewrite H1, H2, H3, H4, H5. repeat split; reflexivity.
Qed.

(* ---- applyQuirks in closed form ---- *)
Lemma tmux_not_kitty id : zlist_eqb id s_tmux34 = true -> prefixb s_kitty id = false.
Proof.
  unfold zlist_eqb, s_tmux34, s_kitty. destruct id as [|a id]; [discriminate|].
  cbn [list_eqb prefixb]. intros H. apply andb_prop in H as [H _].
  apply Z.eqb_eq in H. subst a. reflexivity.
Qed.

Lemma flags_set_unicode cp b : flags_of (set_unicode cp b) = mkW b (c_explicit cp) (c_nozwj cp).
Proof. reflexivity. Qed.
Lemma flags_set_explicit cp b : flags_of (set_explicit cp b) = mkW (c_unicode cp) b (c_nozwj cp).
Proof. reflexivity. Qed.
Lemma flags_set_nozwj cp b : flags_of (set_nozwj cp b) = mkW (c_unicode cp) (c_explicit cp) b.
Proof. reflexivity. Qed.

Theorem apply_quirks_env_closed env su :
  let su' := apply_quirks_env env su in
  let id := su_termid su in
  su_termid su' = id /\ c_smulx (su_caps su') = c_smulx (su_caps su) /\
  flags_of (su_caps su') =
    mkW (e_unicode env || (negb (e_wcwidth env) && (c_unicode (su_caps su) || zlist_eqb id s_tmux34)))
        (c_explicit (su_caps su) && negb (e_wcwidth env) && negb (e_nozwj env))
        (negb (e_no_nozwj env) && (e_nozwj env || c_nozwj (su_caps su) || prefixb s_kitty id)).
Proof.
  cbn zeta. unfold apply_quirks_env, apply_quirks, env_quirks. cbn [su_termid su_caps su_appid].
  fold s_kitty s_tmux34.
  destruct su as [cp ap id]. cbn [su_termid su_caps su_appid].
  pose proof (tmux_not_kitty id) as Htk.
  destruct cp; destruct env as [wc un nz dn].
  cbn [e_wcwidth e_unicode e_nozwj e_no_nozwj].
  destruct (prefixb s_kitty id) eqn:Ek; destruct (zlist_eqb id s_tmux34) eqn:Et;
    try (specialize (Htk eq_refl); discriminate);
    destruct wc, un, nz, dn; cbn; repeat split; try reflexivity;
    repeat match goal with |- context [?a || true] => rewrite (orb_true_r a) end;
    repeat match goal with |- context [?a || false] => rewrite (orb_false_r a) end;
    repeat match goal with |- context [?a && true] => rewrite (andb_true_r a) end;
    repeat match goal with |- context [?a && false] => rewrite (andb_false_r a) end; reflexivity.
Qed.

(* ---- the whole model satisfies the property predicate ---- *)
Lemma zlist_eqb_refl l : zlist_eqb l l = true.
Proof. induction l as [|a l IH]; [reflexivity|]. cbn. now rewrite Z.eqb_refl, IH. Qed.
Lemma wflags_eqb_refl f : wflags_eqb f f = true.
Proof. destruct f as [[] [] []]; reflexivity. Qed.

Lemma counts_ok_model f : counts_ok f (phase_counts (b2n (uses_2027 f)) f) = true.
Proof. unfold counts_ok, phase_counts. destruct (uses_2027 f); reflexivity. Qed.

Theorem quirk_model_spec env ew rs probes :
  exists o, quirk_model env ew rs probes = Some o /\
    o_termid o = spec_termid [] rs /\ o_smulx o = spec_vte rs /\
    o_flags o = spec_flags env ew rs /\ o_flags2 o = o_flags o /\
    o_counts o = phase_counts (b2n (uses_2027 (o_flags o))) (o_flags o) /\
    o_w1 o = map (probe_width (width_method (w_unicode (o_flags o)) (w_explicit (o_flags o)) (w_nozwj (o_flags o)))) probes /\
    o_w2 o = o_w1 o.
Proof.
  unfold quirk_model, quirk_model_steps, new_steps.
  destruct (collected_spec ew rs) as (su & Hc & Hu & He & Hn & Hs & Hid). rewrite Hc.
  cbn [run_new].
  destruct (apply_quirks_env_closed env su) as (Q1 & Q2 & Q3). cbn zeta in *.
  eexists. split; [reflexivity|]. cbn [o_termid o_smulx o_flags o_flags2 o_counts o_w1 o_w2].
  rewrite Q1, Q2, Q3, Hu, He, Hn, Hs, Hid. rewrite orb_false_r.
  repeat split; reflexivity.
Qed.

Theorem quirk_model_ok env ew rs probes :
  exists o, quirk_model env ew rs probes = Some o /\ qobs_ok env ew rs probes o = true.
Proof.
  destruct (quirk_model_spec env ew rs probes) as (o & Hm & H1 & H2 & H3 & H4 & H5 & H6 & H7).
  exists o. split; [exact Hm|]. unfold qobs_ok.
  rewrite H1, H2, H4, H7, H6, H5, zlist_eqb_refl, Bool.eqb_reflx, counts_ok_model, !zlist_eqb_refl.
  rewrite H3, !wflags_eqb_refl. reflexivity.
Qed.

(* no mismatch implies no violation: an observation equal to the model's satisfies the predicate *)
Lemma zlist_eqb_eq a : forall b, zlist_eqb a b = true -> a = b.
Proof.
  induction a as [|x a IH]; intros [|y b] H; try discriminate; [reflexivity|].
  cbn in H. apply andb_prop in H as [H1 H2]. apply Z.eqb_eq in H1. subst. f_equal. now apply IH.
Qed.
Lemma wflags_eqb_eq a b : wflags_eqb a b = true -> a = b.
Proof.
  destruct a as [a1 a2 a3], b as [b1 b2 b3]. unfold wflags_eqb. cbn.
  intros H. apply andb_prop in H as [H H3]. apply andb_prop in H as [H1 H2].
  apply Bool.eqb_prop in H1, H2, H3. now subst.
Qed.
Lemma pairs_eqb_eq a : forall b, list_eqb pair_eqb a b = true -> a = b.
Proof.
  induction a as [|[x1 x2] a IH]; intros [|[y1 y2] b] H; try discriminate; [reflexivity|].
  cbn in H. apply andb_prop in H as [H1 H2]. apply andb_prop in H1 as [Ha Hb].
  apply Z.eqb_eq in Ha, Hb. cbn in Ha, Hb. subst. f_equal. now apply IH.
Qed.
Lemma qobs_eqb_eq a b : qobs_eqb a b = true -> a = b.
Proof.
  destruct a, b. unfold qobs_eqb. cbn. intros H.
  repeat (apply andb_prop in H as [H ?]).
  repeat match goal with
  | X : zlist_eqb _ _ = true |- _ => apply zlist_eqb_eq in X
  | X : wflags_eqb _ _ = true |- _ => apply wflags_eqb_eq in X
  | X : list_eqb pair_eqb _ _ = true |- _ => apply pairs_eqb_eq in X
  | X : Bool.eqb _ _ = true |- _ => apply Bool.eqb_prop in X
  end. now subst.
Qed.

Theorem quirk_agree_implies_ok env ew rs probes o :
  c07_quirk_mismatches [(env, ew, rs, probes, o)] = [] -> c07_quirk_violations [(env, ew, rs, probes, o)] = [].
Proof.
  unfold c07_quirk_mismatches, c07_quirk_violations, bad_indices.
  destruct (quirk_model_ok env ew rs probes) as (m & Hm & Hok).
  cbn. rewrite Hm. destruct (qobs_eqb m o) eqn:E; cbn; [|discriminate].
  intros _. apply qobs_eqb_eq in E. subst o. now rewrite Hok.
Qed.

(* ---- the order of New matters: with enableModes before applyQuirks the predicate fails ---- *)
Definition tmux34_replies : list sreply := [SXtversion s_tmux34].
Definition env0 : qenv := mkQenv false false false false.

Theorem quirks_after_enable_refuted :
  exists o, quirk_model_steps [NEnable; NQuirks] env0 false tmux34_replies [] = Some o /\
            qobs_ok env0 false tmux34_replies [] o = false /\
            w_unicode (o_flags o) = true /\ o_counts o = [(0, 0); (0, 1); (1, 0); (0, 1)].
Proof. eexists. split; [vm_compute; reflexivity|]. vm_compute. repeat split. Qed.

(* for EVERY order of the two steps that applies the quirks first, the flags enableModes reads
   are the final ones *)
Theorem run_new_quirks_first env su :
  run_new env new_steps su 0 =
  (apply_quirks_env env su, b2n (uses_2027 (flags_of (su_caps (apply_quirks_env env su))))).
Proof. reflexivity. Qed.
