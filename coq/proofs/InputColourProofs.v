(* Proofs about the content side of the colour queries (model/InputColour.v). *)
From Vx Require Import base.Prelude base.ListX model.Parser model.Mouse model.Input model.InputCheck
  model.InputColour proofs.InputProofs.

(* ================= 1. the scan against the terminal-side reading of a report ================= *)

Lemma lit_some p : forall s r, lit p s = Some r -> s = p ++ r.
Proof.
  induction p as [|x p IH]; intros s r H; cbn in *.
  - injection H as <-. reflexivity.
  - destruct s as [|y s']; [discriminate|]. destruct (x =? y) eqn:E; [|discriminate].
    apply Z.eqb_eq in E. subst y. rewrite (IH _ _ H). reflexivity.
Qed.

Lemma lit_app p r : lit p (p ++ r) = Some r.
Proof. induction p as [|x p IH]; cbn; [reflexivity|]. rewrite Z.eqb_refl. exact IH. Qed.

Lemma prefixb_app p r : prefixb p (p ++ r) = true.
Proof. induction p as [|x p IH]; cbn; [reflexivity|]. rewrite Z.eqb_refl. exact IH. Qed.

Lemma skipn_app_exact {A} (p r : list A) : skipn (length p) (p ++ r) = r.
Proof. induction p as [|x p IH]; cbn; [reflexivity|exact IH]. Qed.

(* the next rune, if any, is not a hexadecimal digit *)
Definition nonhex_next (r : list Z) : Prop :=
  match r with [] => True | c :: _ => is_hex c = false end.
Definition no47 (f : list Z) : Prop := Forall (fun x => x <> 47) f.

Lemma span_hex_spec s : forall ds rest, span_hex s = (ds, rest) ->
  s = ds ++ rest /\ forallb is_hex ds = true /\ nonhex_next rest.
Proof.
  induction s as [|d t IH]; intros ds rest H; cbn in H.
  - injection H as <- <-. repeat split; reflexivity.
  - destruct (is_hex d) eqn:Ed.
    + destruct (span_hex t) as [a b] eqn:Et. injection H as <- <-.
      destruct (IH a b eq_refl) as (-> & Ha & Hb). cbn. rewrite Ed, Ha. repeat split; assumption.
    + injection H as <- <-. split; [reflexivity|]. split; [reflexivity|exact Ed].
Qed.

Lemma span_hex_app ds : forall r, forallb is_hex ds = true -> nonhex_next r -> span_hex (ds ++ r) = (ds, r).
Proof.
  induction ds as [|d t IH]; intros r Hd Hr; cbn [app span_hex].
  - destruct r as [|c r']; [reflexivity|]. cbn [nonhex_next] in Hr. cbn [span_hex]. rewrite Hr. reflexivity.
  - cbn [forallb] in Hd. apply andb_true_iff in Hd as [Hd Ht]. rewrite Hd, (IH r Ht Hr). reflexivity.
Qed.

Lemma hex_not_sep d : is_hex d = true -> d <> 47.
Proof. unfold is_hex. intros H ->. cbv in H. discriminate. Qed.
Lemma hex_not_space d : is_hex d = true -> sc_space d = false.
Proof.
  unfold is_hex, sc_space. intros H.
  repeat match goal with |- context [?a <=? ?b] => destruct (Z.leb_spec a b) end;
  repeat match goal with |- context [?a =? ?b] => destruct (Z.eqb_spec a b) end;
  cbn in *; try reflexivity; try discriminate; lia.
Qed.
Lemma hex_not_sign d : is_hex d = true -> (d =? 43) = false /\ (d =? 45) = false.
Proof.
  unfold is_hex. intros H. split; apply Z.eqb_neq; intros ->; cbv in H; discriminate.
Qed.

Lemma all_hex_no47 ds : forallb is_hex ds = true -> no47 ds.
Proof.
  induction ds as [|d t IH]; intros H; constructor; cbn in H; apply andb_true_iff in H as [H1 H2].
  - apply hex_not_sep; exact H1.
  - apply IH; exact H2.
Qed.

Lemma skip_space_spec s : forall s1, skip_space s = Some s1 ->
  exists sp, s = sp ++ s1 /\ forallb sc_space sp = true /\ no47 sp.
Proof.
  induction s as [|r t IH]; intros s1 H; cbn in H.
  - injection H as <-. exists []. repeat split; constructor.
  - destruct (r =? 10) eqn:E10; [discriminate|]. destruct (sc_space r) eqn:Es.
    + destruct (IH _ H) as (sp & -> & Hs & Hn). exists (r :: sp). cbn. rewrite Es, Hs. repeat split.
      constructor; [|exact Hn]. intros ->. cbv in Es. discriminate.
    + injection H as <-. exists []. repeat split; constructor.
Qed.

Lemma drop_space_app sp : forall y, forallb sc_space sp = true -> drop_space (sp ++ y) = drop_space y.
Proof.
  induction sp as [|r t IH]; intros y H; cbn; [reflexivity|].
  cbn in H. apply andb_true_iff in H as [H1 H2]. rewrite H1. apply IH; exact H2.
Qed.

(* a successful %x: the input is  <field> ++ rest, the field has no '/', and read as a
   '/'-separated field (whatever non-digit follows it) it stands for the low byte of the value *)
Lemma scan_hex_spec s v rest : scan_hex s = Some (v, rest) ->
  exists f, s = f ++ rest /\ no47 f /\ nonhex_next rest /\
    forall r', nonhex_next r' -> chan_value (f ++ r') = Some (u8 v).
Proof.
  unfold scan_hex. destruct (skip_space s) as [s1|] eqn:Esk; [|discriminate].
  destruct (skip_space_spec _ _ Esk) as (sp & -> & Hsp & Hn47).
  destruct (take_sign s1) as [neg s2] eqn:Esg.
  destruct (span_hex s2) as [ds rest'] eqn:Esp.
  destruct (span_hex_spec _ _ _ Esp) as (-> & Hds & Hrest).
  intros H.
  assert (Hne : ds <> []) by (intros ->; discriminate H).
  set (un := hexval ds).
  assert (H' : (if neg then if un <=? two63 then Some (- un, rest') else None
                else if un <? two63 then Some (un, rest') else None) = Some (v, rest)).
  { destruct ds; [congruence|exact H]. }
  clear H. rename H' into H.
  (* the sign part as a list *)
  assert (Hsg : exists sg, s1 = sg ++ ds ++ rest' /\ no47 sg /\
            (forall y, take_sign (sg ++ ds ++ y) = (neg, ds ++ y)) /\
            (forall y, drop_space (sg ++ ds ++ y) = sg ++ ds ++ y)).
  { clear H un. destruct ds as [|d0 dt]; [congruence|].
    assert (Hd0 : is_hex d0 = true) by (cbn [forallb] in Hds; apply andb_true_iff in Hds; tauto).
    destruct (hex_not_sign _ Hd0) as [Hp Hm]. pose proof (hex_not_space _ Hd0) as Hs0.
    unfold take_sign in Esg. destruct s1 as [|c t]; [cbn [app] in Esg; discriminate Esg|].
    destruct (c =? 43) eqn:E43; [|destruct (c =? 45) eqn:E45].
    - injection Esg as <- Ht. subst t. apply Z.eqb_eq in E43. subst c. exists [43]. repeat split.
      constructor; [discriminate|constructor].
    - injection Esg as <- Ht. subst t. apply Z.eqb_eq in E45. subst c. exists [45]. repeat split.
      constructor; [discriminate|constructor].
    - injection Esg as <- Hc Ht. subst c t. exists []. cbn [app]. repeat split.
      + constructor.
      + intros y. cbn [take_sign]. rewrite Hp, Hm. reflexivity.
      + intros y. cbn [drop_space]. rewrite Hs0. reflexivity. }
  destruct Hsg as (sg & -> & Hsg47 & Hts & Hdr).
  assert (Hval : forall r', nonhex_next r' ->
            chan_value ((sp ++ sg ++ ds) ++ r') = Some (u8 (if neg then - un else un))).
  { intros r' Hr'. unfold chan_value. rewrite <- !app_assoc.
    rewrite (drop_space_app sp _ Hsp), Hdr, Hts, (span_hex_app ds r' Hds Hr'). cbn [fst].
    destruct ds; [congruence|reflexivity]. }
  assert (Hf47 : no47 (sp ++ sg ++ ds)).
  { apply Forall_app. split; [exact Hn47|]. apply Forall_app. split; [exact Hsg47|apply all_hex_no47; exact Hds]. }
  exists (sp ++ sg ++ ds).
  destruct neg.
  - destruct (un <=? two63); [|discriminate]. injection H as <- <-.
    repeat split; [rewrite <- !app_assoc; reflexivity|exact Hf47|exact Hrest|exact Hval].
  - destruct (un <? two63); [|discriminate]. injection H as <- <-.
    repeat split; [rewrite <- !app_assoc; reflexivity|exact Hf47|exact Hrest|exact Hval].
Qed.

(* fields: splitting at the first separator *)
Lemma fields_cons_form c s : exists h t, fields c s = h :: t.
Proof.
  destruct s as [|x s']; cbn; [eauto|]. destruct (x =? c); [eauto|].
  destruct (fields c s'); eauto.
Qed.

Lemma fields_app_nosep c f : forall r, Forall (fun x => x <> c) f ->
  fields c (f ++ r) = match fields c r with h :: t => (f ++ h) :: t | [] => [f] end.
Proof.
  induction f as [|x f IH]; intros r Hf; cbn [app].
  - destruct (fields_cons_form c r) as (h & t & ->). reflexivity.
  - pose proof (Forall_inv Hf) as Hx. pose proof (Forall_inv_tail Hf) as Ht.
    cbn [fields]. destruct (Z.eqb_spec x c) as [->|_]; [contradiction|].
    rewrite (IH r Ht). destruct (fields_cons_form c r) as (h & t & ->). reflexivity.
Qed.

Lemma fields_sep c t : fields c (c :: t) = [] :: fields c t.
Proof. cbn. rewrite Z.eqb_refl. reflexivity. Qed.

Lemma fields_head_nonhex r : nonhex_next r ->
  exists h t, fields 47 r = h :: t /\ nonhex_next h.
Proof.
  intros Hr. destruct r as [|x r']; cbn.
  - exists [], []. split; [reflexivity|exact I].
  - destruct (x =? 47); [exists [], (fields 47 r'); split; [reflexivity|exact I]|].
    destruct (fields_cons_form 47 r') as (h & t & ->). exists (x :: h), t. split; [reflexivity|exact Hr].
Qed.

(* SOUNDNESS OF THE SCAN: whenever the caller's Sscanf accepts a payload, the payload is a report
   (terminal-side reading) that begins with the expected text, and the caller's colour is the
   colour it reports *)
Lemma sscanf_is_report head p r g b :
  sscanf_rgb (head ++ rgb_lit) p = Some (r, g, b) ->
  report_colour head p = Some (rgb_colour (u8 r) (u8 g) (u8 b)).
Proof.
  unfold sscanf_rgb.
  destruct (lit (head ++ rgb_lit) p) as [s1|] eqn:E1; [|discriminate].
  destruct (scan_hex s1) as [[r0 s2]|] eqn:E2; [|discriminate].
  destruct (lit [47] s2) as [s3|] eqn:E3; [|discriminate].
  destruct (scan_hex s3) as [[g0 s4]|] eqn:E4; [|discriminate].
  destruct (lit [47] s4) as [s5|] eqn:E5; [|discriminate].
  destruct (scan_hex s5) as [[b0 s6]|] eqn:E6; [|discriminate].
  intros H. injection H as <- <- <-.
  apply lit_some in E1. apply lit_some in E3. apply lit_some in E5. cbn [app] in E3, E5.
  destruct (scan_hex_spec _ _ _ E2) as (f1 & -> & H1 & _ & V1).
  destruct (scan_hex_spec _ _ _ E4) as (f2 & -> & H2 & _ & V2).
  destruct (scan_hex_spec _ _ _ E6) as (f3 & -> & H3 & N3 & V3).
  subst s2 s4 p.
  unfold report_colour. rewrite prefixb_app, skipn_app_exact.
  rewrite (fields_app_nosep 47 f1 _ H1), fields_sep.
  rewrite (fields_app_nosep 47 f2 _ H2), fields_sep.
  rewrite (fields_app_nosep 47 f3 _ H3).
  destruct (fields_head_nonhex s6 N3) as (h & t & -> & Hh).
  rewrite !app_nil_r.
  pose proof (V1 [] I) as W1. pose proof (V2 [] I) as W2. rewrite app_nil_r in W1, W2.
  rewrite W1, W2, (V3 h Hh). reflexivity.
Qed.

(* ---------- the strict form is accepted, with exactly its colour ---------- *)
Lemma hexv_range d : is_hex d = true -> 0 <= hexv d < 16.
Proof.
  unfold is_hex, hexv. intros H.
  repeat match goal with |- context [?a <=? ?b] => destruct (Z.leb_spec a b) end;
  repeat match goal with H : context [?a <=? ?b] |- _ => destruct (Z.leb_spec a b) end;
  cbn in *; try discriminate; lia.
Qed.

Lemma hexval_acc_bound ds : forall a, forallb is_hex ds = true -> 0 <= a ->
  0 <= fold_left (fun a d => a * 16 + hexv d) ds a < (a + 1) * 16 ^ (zlen ds).
Proof.
  induction ds as [|d t IH]; intros a H Ha; cbn [fold_left].
  - change (zlen (@nil Z)) with 0. lia.
  - cbn in H. apply andb_true_iff in H as [Hd Ht]. pose proof (hexv_range d Hd) as Hr.
    specialize (IH (a * 16 + hexv d) Ht ltac:(lia)).
    rewrite zlen_cons. pose proof (zlen_nonneg t).
    rewrite Z.pow_add_r by lia. change (16 ^ 1) with 16.
    assert (0 < 16 ^ zlen t) by (apply Z.pow_pos_nonneg; lia). nia.
Qed.

Lemma strict_field_spec f : strict_field f = true ->
  forallb is_hex f = true /\ f <> [] /\ 0 <= hexval f < two63.
Proof.
  unfold strict_field. intros H. apply andb_true_iff in H as [H H4]. apply andb_true_iff in H as [Hh H1].
  apply Z.leb_le in H1, H4. split; [exact Hh|]. split.
  - intros ->. change (zlen (@nil Z)) with 0 in H1. lia.
  - pose proof (hexval_acc_bound f 0 Hh ltac:(lia)) as Hb. unfold hexval. unfold two63.
    assert (16 ^ zlen f <= 16 ^ 4) by (apply Z.pow_le_mono_r; lia).
    change (16 ^ 4) with 65536 in *. lia.
Qed.

Lemma scan_hex_strict f r : strict_field f = true -> nonhex_next r ->
  scan_hex (f ++ r) = Some (hexval f, r).
Proof.
  intros Hf Hr. destruct (strict_field_spec f Hf) as (Hh & Hne & Hb).
  destruct f as [|d t]; [congruence|].
  assert (Hd : is_hex d = true) by (cbn in Hh; apply andb_true_iff in Hh; tauto).
  destruct (hex_not_sign _ Hd) as [Hp Hm]. pose proof (hex_not_space _ Hd) as Hs.
  unfold scan_hex. cbn [app skip_space].
  assert (H10 : (d =? 10) = false).
  { apply Z.eqb_neq. intros ->. cbv in Hd. discriminate. }
  rewrite H10, Hs. cbn [take_sign]. rewrite Hp, Hm.
  change (d :: t ++ r) with ((d :: t) ++ r). rewrite (span_hex_app (d :: t) r Hh Hr).
  destruct (Z.ltb_spec (hexval (d :: t)) two63); [reflexivity|lia].
Qed.

Fixpoint join (c : Z) (l : list (list Z)) : list Z :=
  match l with
  | [] => []
  | [f] => f
  | f :: t => f ++ c :: join c t
  end.

Lemma join_cons2 c f h r : join c (f :: h :: r) = f ++ c :: join c (h :: r).
Proof. reflexivity. Qed.

Lemma fields_join c s : join c (fields c s) = s.
Proof.
  induction s as [|x t IH]; [reflexivity|].
  cbn [fields]. destruct (fields_cons_form c t) as (h & r & E). rewrite E in *.
  destruct (Z.eqb_spec x c) as [->|Hx].
  - rewrite join_cons2, IH. reflexivity.
  - destruct r as [|h2 r2].
    + cbn [join] in *. rewrite IH. reflexivity.
    + rewrite join_cons2 in *. cbn [app]. rewrite IH. reflexivity.
Qed.

Lemma fields3_join c s f1 f2 f3 : fields c s = [f1; f2; f3] -> s = f1 ++ c :: f2 ++ c :: f3.
Proof. intros H. rewrite <- (fields_join c s), H. reflexivity. Qed.

Lemma prefixb_split a : forall p, prefixb a p = true -> p = a ++ skipn (length a) p.
Proof.
  induction a as [|x a IH]; intros p H; [reflexivity|].
  destruct p as [|y p']; cbn in H; [discriminate|]. apply andb_true_iff in H as [E H].
  apply Z.eqb_eq in E. subst y. cbn [length skipn app]. rewrite <- (IH _ H). reflexivity.
Qed.

Lemma nonhex_47 t : nonhex_next (47 :: t).
Proof. reflexivity. Qed.

(* the strict form every terminal sends is accepted, with exactly the colour it reports *)
Lemma strict_is_answer q p v : strict_report (cq_head q) p = Some v -> cq_answer q p = v.
Proof.
  unfold strict_report, cq_answer.
  destruct (prefixb (cq_head q ++ rgb_lit) p) eqn:Ep; [|discriminate].
  rewrite (prefixb_split _ _ Ep) at 2.
  destruct (fields 47 (skipn (length (cq_head q ++ rgb_lit)) p)) as [|f1 [|f2 [|f3 [|f4 t]]]] eqn:Ef; try discriminate.
  destruct (strict_field f1) eqn:S1; [|discriminate].
  destruct (strict_field f2) eqn:S2; [|discriminate].
  destruct (strict_field f3) eqn:S3; [|discriminate].
  cbn [andb]. intros H. injection H as <-.
  rewrite (fields3_join _ _ _ _ _ Ef). unfold sscanf_rgb. rewrite lit_app.
  rewrite (scan_hex_strict f1 _ S1 (nonhex_47 _)). cbn [lit]. rewrite Z.eqb_refl.
  rewrite (scan_hex_strict f2 _ S2 (nonhex_47 _)). cbn [lit]. rewrite Z.eqb_refl.
  rewrite <- (app_nil_r f3) at 1. rewrite (scan_hex_strict f3 [] S3 I). reflexivity.
Qed.

(* ================= 2. what handleSequence does to the reply channels ================= *)

Definition chans (s : vxstate) := (vcaps s, q_stalled s, ch_color s, ch_fg s, ch_bg s).

Section Chans.
Variable dec : item -> ikey.
Variable b64 : list Z -> option (list Z).

(* capabilities and reply channels as in b; the queue may have lost free slots *)
Definition same_ch (b s : vxstate) : Prop :=
  vcaps s = vcaps b /\ ch_color s = ch_color b /\ ch_fg s = ch_fg b /\ ch_bg s = ch_bg b /\
  (q_stalled b = None -> q_stalled s = None).
Definition kept (b : vxstate) (o : outcome) : Prop := forall s' es, o = Ok s' es -> same_ch b s'.

Lemma k_ret b s : same_ch b s -> kept b (ret s).
Proof. intros H s' es E. injection E as <- <-. exact H. Qed.
Lemma same_set_q b s n : same_ch b s -> q_stalled s = Some n -> same_ch b (set_q s (Some (n - 1))).
Proof.
  intros (a & c & d & e & f) Hq. repeat split; try assumption. intros Hb. rewrite (f Hb) in Hq. discriminate.
Qed.
Lemma k_post b e s : same_ch b s -> kept b (post e s).
Proof.
  intros H s' es. unfold post. destruct (q_stalled s) as [n|] eqn:Eq; [destruct (0 <? n)|];
    intros E; try discriminate; injection E as <- <-; [apply same_set_q; assumption|exact H].
Qed.
Lemma k_try_post b e s : same_ch b s -> kept b (try_post e s).
Proof.
  intros H s' es. unfold try_post. destruct (q_stalled s) as [n|] eqn:Eq; [destruct (0 <? n)|];
    intros E; injection E as <- <-; [apply same_set_q; assumption|exact H|exact H].
Qed.
Lemma k_post_key b it s : same_ch b s -> kept b (post_key dec it s).
Proof. apply k_post. Qed.
Lemma k_send_size_done b s : same_ch b s -> kept b (send_size_done s).
Proof.
  intros H s' es. unfold send_size_done. destruct (size_done s <? 1);
    intros E; injection E as <- <-; exact H.
Qed.
Lemma k_send_cursor b r c s : same_ch b s -> kept b (send_cursor r c s).
Proof.
  intros H s' es. unfold send_cursor. destruct (w_cursor s); intros E; injection E as <- <-; exact H.
Qed.
Lemma k_send_clip b v s : same_ch b s -> kept b (send_clip v s).
Proof.
  intros H s' es. unfold send_clip. destruct (w_clip s); intros E; injection E as <- <-; exact H.
Qed.
Lemma k_panic b es : kept b (Panic es).
Proof. intros s' es' E. discriminate. Qed.
Lemma k_need {A} b (o : option A) f : (forall x, kept b (f x)) -> kept b (need o f).
Proof. intros H. destruct o; [apply H|apply k_panic]. Qed.
Lemma k_bind b o f : kept b o -> (forall s1, same_ch b s1 -> kept b (f s1)) -> kept b (bind o f).
Proof.
  intros Ho Hf s' es. destruct o as [s1 es1|es1|es1]; cbn [bind]; try discriminate.
  specialize (Hf s1 (Ho s1 es1 eq_refl)). destruct (f s1) as [s2 es2|es2|es2] eqn:Ef; try discriminate.
  intros E. injection E as <- <-. exact (Hf s2 es2 eq_refl).
Qed.
Lemma k_da1 b ps : forall s, same_ch b s -> kept b (da1_loop ps s).
Proof.
  induction ps as [|p t IH]; intros s H; cbn [da1_loop]; [apply k_ret; exact H|].
  apply k_need. intros v. apply k_bind; [|exact IH].
  destruct (v =? 4); [apply k_post|apply k_ret]; exact H.
Qed.

Ltac kside := first [ assumption | (split; [|split; [|split; [|split]]]; first [reflexivity | exact (fun h => h)])
                    | match goal with H : same_ch _ _ |- _ => exact H end ].
Ltac kleaf :=
  first [ apply k_ret; kside | apply k_post; kside | apply k_try_post; kside | apply k_post_key; kside
        | apply k_send_size_done; kside | apply k_send_cursor; kside | apply k_send_clip; kside
        | apply k_da1; kside | apply k_panic ].
Ltac kcrush :=
  repeat first
    [ kleaf
    | match goal with
      | |- kept _ (bind _ _) => apply k_bind; [|intros ? ?; cbv beta]
      | |- kept _ (need _ _) => apply k_need; intros ?; cbv beta
      | |- kept _ (if ?c then _ else _) => destruct c eqn:?
      | |- kept _ (match ?c with _ => _ end) => destruct c eqn:?
      end ].

Lemma same_refl s : same_ch s s.
Proof. repeat split. exact (fun h => h). Qed.

Lemma k_csi inter ps fin s : kept s (handle_csi dec inter ps fin s).
Proof. pose proof (same_refl s). unfold handle_csi, decrpm, decrpm_gen. cbv zeta. kcrush. Qed.

Lemma k_dcs fin inter ps data s : kept s (handle_dcs fin inter ps data s).
Proof. pose proof (same_refl s). unfold handle_dcs. kcrush. Qed.

(* the next content of a 1-slot reply channel *)
Definition chan_next (pre : list Z) (cap : bool) (cur : option (list Z)) (it : item) : option (list Z) :=
  match it with
  | IOsc p => if prefixb pre (gostring p) && cap then offer cur (gostring p) else cur
  | _ => cur
  end.

Definition chan_upd (s : vxstate) (it : item) (s' : vxstate) : Prop :=
  (q_stalled s = None -> q_stalled s' = None) /\
  vcaps s' = vcaps s /\
  ch_color s' = chan_next [52] (c_osc4 (vcaps s)) (ch_color s) it /\
  ch_fg s' = chan_next [49; 48] (c_osc10 (vcaps s)) (ch_fg s) it /\
  ch_bg s' = chan_next [49; 49] (c_osc11 (vcaps s)) (ch_bg s) it.

Lemma bind_ok o f s' es : bind o f = Ok s' es ->
  exists s1 es1 es2, o = Ok s1 es1 /\ f s1 = Ok s' es2.
Proof.
  destruct o as [s1 es1|es1|es1]; cbn [bind]; try discriminate.
  destruct (f s1) as [s2 es2|es2|es2] eqn:Ef; try discriminate.
  intros E. injection E as <- <-. eauto.
Qed.

Lemma post_same e s s' es : post e s = Ok s' es -> same_ch s s'.
Proof. intros E. exact (k_post s e s (same_refl s) s' es E). Qed.

Lemma osc_chans payload s s' es : handle_osc b64 payload s = Ok s' es -> chan_upd s (IOsc payload) s'.
Proof.
  unfold handle_osc. cbv zeta. set (pl := gostring payload). intros E.
  destruct (bind_ok _ _ _ _ E) as (s1 & e1 & e1' & EA & E1). clear E.
  destruct (bind_ok _ _ _ _ E1) as (s2 & e2 & e2' & EB & E2). clear E1.
  destruct (bind_ok _ _ _ _ E2) as (s3 & e3 & e3' & EC & ED). clear E2.
  assert (HD : same_ch s3 s').
  { revert ED. generalize s' e3'. change (kept s3
      (if prefixb [53; 50] pl
       then let vals := split_on 59 [] pl in
            if negb (zlen vals =? 3) then ret s3
            else need (zget vals 2) (fun v2 => match b64 v2 with None => ret s3 | Some b => send_clip b s3 end)
       else if prefixb [49; 55; 54] pl
            then let vals := split_on 59 [] pl in
                 if negb (zlen vals =? 2) then ret s3 else need (zget vals 1) (fun v1 => try_post (EAppID v1) s3)
            else ret s3)).
    pose proof (same_refl s3). cbv zeta. kcrush. }
  unfold chan_upd, chan_next. fold pl.
  assert (HA : (q_stalled s = None -> q_stalled s1 = None) /\
               vcaps s1 = vcaps s /\ ch_fg s1 = ch_fg s /\ ch_bg s1 = ch_bg s /\
               ch_color s1 = if prefixb [52] pl && c_osc4 (vcaps s) then offer (ch_color s) pl else ch_color s).
  { destruct (prefixb [52] pl).
    - unfold osc_color in EA. apply post_same in EA. destruct EA as (Ha & Hb & Hc & Hd & Hl).
      rewrite Ha, Hb, Hc, Hd. destruct (c_osc4 (vcaps s)); repeat split; exact Hl.
    - injection EA as <- _. repeat split. exact (fun h => h). }
  destruct HA as (A0 & A1 & A2 & A3 & A4).
  assert (HB : (q_stalled s1 = None -> q_stalled s2 = None) /\
               vcaps s2 = vcaps s1 /\ ch_color s2 = ch_color s1 /\ ch_bg s2 = ch_bg s1 /\
               ch_fg s2 = if prefixb [49; 48] pl && c_osc10 (vcaps s1) then offer (ch_fg s1) pl else ch_fg s1).
  { destruct (prefixb [49; 48] pl).
    - unfold osc_color in EB. apply post_same in EB. destruct EB as (Ha & Hb & Hc & Hd & Hl).
      rewrite Ha, Hb, Hc, Hd. destruct (c_osc10 (vcaps s1)); repeat split; exact Hl.
    - injection EB as <- _. repeat split. exact (fun h => h). }
  destruct HB as (B0 & B1 & B2 & B3 & B4).
  assert (HC : (q_stalled s2 = None -> q_stalled s3 = None) /\
               vcaps s3 = vcaps s2 /\ ch_color s3 = ch_color s2 /\ ch_fg s3 = ch_fg s2 /\
               ch_bg s3 = if prefixb [49; 49] pl && c_osc11 (vcaps s2) then offer (ch_bg s2) pl else ch_bg s2).
  { destruct (prefixb [49; 49] pl).
    - unfold osc_color in EC. apply post_same in EC. destruct EC as (Ha & Hb & Hc & Hd & Hl).
      rewrite Ha, Hb, Hc, Hd. destruct (c_osc11 (vcaps s2)); repeat split; exact Hl.
    - injection EC as <- _. repeat split. exact (fun h => h). }
  destruct HC as (C0 & C1 & C2 & C3 & C4).
  destruct HD as (D1 & D2 & D3 & D4 & D0).
  repeat split.
  - auto.
  - congruence.
  - rewrite D2, C2, B2, A4. reflexivity.
  - rewrite D3, C3, B4, A2, A1. reflexivity.
  - rewrite D4, C4, B3, A3, B1, A1. reflexivity.
Qed.

(* every delivered sequence: a reply channel changes only by the offer of the payload of a
   report with the channel's OSC number, while the capability is known *)
Lemma handle_chans s it s' es : handle dec b64 s it = Ok s' es -> chan_upd s it s'.
Proof.
  assert (G : forall o, kept s o -> o = Ok s' es -> match it with IOsc _ => True | _ => chan_upd s it s' end).
  { intros o Hk E. destruct (Hk s' es E) as (a & b & c & d & e). destruct it; try exact I; repeat split; assumption. }
  pose proof (same_refl s) as Hs.
  destruct it; cbn [handle]; intros E;
    try (refine (G _ _ E); first [ apply k_csi | apply k_dcs | kcrush ]; fail).
  exact (osc_chans _ _ _ _ E).
Qed.

Lemma handle_live s it s' es : q_stalled s = None ->
  handle dec b64 s it = Ok s' es -> q_stalled s' = None.
Proof. intros Hl E. exact (proj1 (handle_chans _ _ _ _ E) Hl). Qed.
End Chans.

(* ================= 3. the callers: every answer comes from a report for what was asked ========= *)

(* a payload no caller makes a colour of *)
Definition harmless (v : list Z) : Prop := forall q, cq_answer q v = 0.

Lemma nil_harmless : harmless [].
Proof. intros q. unfold cq_answer, sscanf_rgb. destruct q; reflexivity. Qed.

(* a call that passed its guards *)
Definition blocking (q : cq) : Prop := match q with QColor c => col_indexed c = true | _ => True end.

Lemma cq_pre_none cp q : cq_pre cp q = None ->
  blocking q /\ match q with QColor _ => c_osc4 cp | QFg => c_osc10 cp | QBg => c_osc11 cp end = true.
Proof.
  destruct q as [c| |]; cbn [cq_pre blocking].
  - destruct (c_osc4 cp); cbn [negb]; [|discriminate]. destruct (col_indexed c); [auto|].
    destruct (col_rgb c); discriminate.
  - destruct (c_osc10 cp); [auto|discriminate].
  - destruct (c_osc11 cp); [auto|discriminate].
Qed.

Definition parked (s : vxstate) : list (list Z) :=
  let o (x : option (list Z)) := match x with Some v => [v] | None => [] end in
  o (ch_color s) ++ o (ch_fg s) ++ o (ch_bg s).

Definition known (seen : list (list Z)) (v : list Z) : Prop := In v seen \/ harmless v.

(* an answer computed from a payload that is known *)
Definition good_ret (seen : list (list Z)) (x : kstep) : Prop :=
  match x with
  | KRet q col => exists v, known seen v /\ blocking q /\ col = cq_answer q v
  | _ => False
  end.

Lemma good_ret_ok seen q col : good_ret seen (KRet q col) -> ret_ok seen q col = true.
Proof.
  intros (v & Hv & Hb & ->). unfold ret_ok.
  destruct (cq_answer q v =? 0) eqn:E0; [reflexivity|]. cbn [orb].
  assert (Hin : In v seen).
  { destruct Hv as [H|H]; [exact H|]. rewrite (H q) in E0. discriminate. }
  assert (Hf : from_report seen q (cq_answer q v) = true).
  { unfold from_report. apply existsb_exists. exists v. split; [exact Hin|].
    unfold cq_answer in *. destruct (sscanf_rgb (cq_head q ++ rgb_lit) v) as [[[r g] b]|] eqn:Es.
    - rewrite (sscanf_is_report _ _ _ _ _ Es). apply Z.eqb_refl.
    - discriminate. }
  destruct q as [c| |]; [cbn [blocking] in Hb; rewrite Hb|..]; exact Hf.
Qed.

Lemma take_waiter_spec k w q w' : take_waiter k w = Some (q, w') ->
  In q w /\ cq_chan q = k /\ forall P : cq -> Prop, Forall P w -> Forall P w'.
Proof.
  revert q w'. induction w as [|x t IH]; intros q w' H; cbn in H; [discriminate|].
  destruct (cq_chan x =? k) eqn:E.
  - injection H as <- <-. apply Z.eqb_eq in E. repeat split; [left; reflexivity|exact E|].
    intros P HP. exact (Forall_inv_tail HP).
  - destruct (take_waiter k t) as [[y t']|] eqn:Et; [|discriminate]. injection H as <- <-.
    destruct (IH _ _ eq_refl) as (Hi & Hc & Hf). repeat split; [right; exact Hi|exact Hc|].
    intros P HP. constructor; [exact (Forall_inv HP)|exact (Hf P (Forall_inv_tail HP))].
Qed.

Definition kinv (seen : list (list Z)) (st : kst) : Prop :=
  let '(s, w, out) := st in
  Forall blocking w /\ Forall (known seen) (parked s) /\ Forall (good_ret seen) out.

Section Settle1.
  Variable k : Z.
  Variable get : vxstate -> option (list Z).
  Variable set : vxstate -> option (list Z) -> vxstate.
  Hypothesis set_caps : forall s, vcaps (set s None) = vcaps s.
  Hypothesis set_queue : forall s, q_stalled (set s None) = q_stalled s.
  Hypothesis set_parked : forall s v, In v (parked (set s None)) -> In v (parked s).
  Hypothesis get_parked : forall s v, get s = Some v -> In v (parked s).

  Lemma settle1_inv seen st : kinv seen st -> kinv seen (settle1 k get set st).
  Proof.
    destruct st as [[s w] out]. intros (Hw & Hp & Ho). unfold settle1.
    destruct (get s) as [v|] eqn:Eg; [|repeat split; assumption].
    destruct (take_waiter k w) as [[q w']|] eqn:Et; [|repeat split; assumption].
    destruct (take_waiter_spec _ _ _ _ Et) as (Hin & _ & Hf).
    repeat split.
    - apply Hf. exact Hw.
    - apply Forall_forall. intros x Hx. apply set_parked in Hx.
      exact (proj1 (Forall_forall _ _) Hp x Hx).
    - apply Forall_app. split; [exact Ho|]. constructor; [|constructor].
      exists v. repeat split.
      + exact (proj1 (Forall_forall _ _) Hp v (get_parked _ _ Eg)).
      + exact (proj1 (Forall_forall _ _) Hw q Hin).
  Qed.

  Lemma settle1_frame st : vcaps (fst (fst (settle1 k get set st))) = vcaps (fst (fst st)) /\
                           q_stalled (fst (fst (settle1 k get set st))) = q_stalled (fst (fst st)).
  Proof.
    destruct st as [[s w] out]. unfold settle1. destruct (get s); [|split; reflexivity].
    destruct (take_waiter k w) as [[q w']|]; [|split; reflexivity]. cbn [fst]. split; [apply set_caps|apply set_queue].
  Qed.
End Settle1.

Lemma in_parked_color s v : ch_color s = Some v -> In v (parked s).
Proof. intros H. unfold parked. rewrite H. left. reflexivity. Qed.
Lemma in_parked_fg s v : ch_fg s = Some v -> In v (parked s).
Proof. intros H. unfold parked. rewrite H. apply in_or_app. right. apply in_or_app. left. left. reflexivity. Qed.
Lemma in_parked_bg s v : ch_bg s = Some v -> In v (parked s).
Proof. intros H. unfold parked. rewrite H. apply in_or_app. right. apply in_or_app. right. left. reflexivity. Qed.

Lemma parked_drop_color s v : In v (parked (set_ch_color s None)) -> In v (parked s).
Proof. unfold parked. cbn. intros H. apply in_or_app. right. exact H. Qed.
Lemma parked_drop_fg s v : In v (parked (set_ch_fg s None)) -> In v (parked s).
Proof.
  unfold parked. cbn. intros H. apply in_app_or in H as [H|H]; apply in_or_app; [left; exact H|].
  right. apply in_or_app. right. exact H.
Qed.
Lemma parked_drop_bg s v : In v (parked (set_ch_bg s None)) -> In v (parked s).
Proof.
  unfold parked. cbn. intros H. apply in_app_or in H as [H|H]; apply in_or_app; [left; exact H|].
  right. apply in_app_or in H as [H|H]; [|destruct H]. apply in_or_app. left. exact H.
Qed.

Lemma settle_inv seen s w s2 w2 rets : settle s w = (s2, w2, rets) ->
  Forall blocking w -> Forall (known seen) (parked s) ->
  vcaps s2 = vcaps s /\ q_stalled s2 = q_stalled s /\
  Forall blocking w2 /\ Forall (known seen) (parked s2) /\ Forall (good_ret seen) rets.
Proof.
  intros E Hw Hp. unfold settle in E.
  set (st0 := (s, w, @nil kstep)) in *.
  set (st1 := settle1 0 ch_color set_ch_color st0) in *.
  set (st2 := settle1 1 ch_fg set_ch_fg st1) in *.
  assert (I0 : kinv seen st0) by (repeat split; [exact Hw|exact Hp|constructor]).
  assert (I1 : kinv seen st1).
  { apply settle1_inv; [exact parked_drop_color|exact in_parked_color|exact I0]. }
  assert (I2 : kinv seen st2).
  { apply settle1_inv; [exact parked_drop_fg|exact in_parked_fg|exact I1]. }
  assert (I3 : kinv seen (settle1 2 ch_bg set_ch_bg st2)).
  { apply settle1_inv; [exact parked_drop_bg|exact in_parked_bg|exact I2]. }
  destruct (settle1_frame 0 ch_color set_ch_color (fun _ => eq_refl) (fun _ => eq_refl) st0) as [F1 G1].
  destruct (settle1_frame 1 ch_fg set_ch_fg (fun _ => eq_refl) (fun _ => eq_refl) st1) as [F2 G2].
  destruct (settle1_frame 2 ch_bg set_ch_bg (fun _ => eq_refl) (fun _ => eq_refl) st2) as [F3 G3].
  fold st1 in F1, G1. fold st2 in F2, G2. rewrite E in *. cbn [fst] in F3, G3.
  destruct I3 as (A & B & C).
  split; [rewrite F3, F2, F1; reflexivity|]. split; [rewrite G3, G2, G1; reflexivity|].
  repeat split; assumption.
Qed.

Lemma known_mono x seen v : known seen v -> known (x :: seen) v.
Proof. intros [H|H]; [left; right; exact H|right; exact H]. Qed.

Definition seen_after (seen : list (list Z)) (it : item) : list (list Z) :=
  match it with IOsc p => gostring p :: seen | _ => seen end.

Lemma answers_ok_item seen it tr : answers_ok seen (KItem it :: tr) = answers_ok (seen_after seen it) tr.
Proof. destruct it; reflexivity. Qed.

Lemma known_after seen it v : known seen v -> known (seen_after seen it) v.
Proof. destruct it; cbn [seen_after]; auto using known_mono. Qed.

Lemma opt_next_known seen pre cap cur it :
  Forall (known seen) (match cur with Some v => [v] | None => [] end) ->
  Forall (known (seen_after seen it)) (match chan_next pre cap cur it with Some v => [v] | None => [] end).
Proof.
  intros H. assert (H' : Forall (known (seen_after seen it)) (match cur with Some v => [v] | None => [] end)).
  { eapply Forall_impl; [|exact H]. intros v. apply known_after. }
  unfold chan_next. destruct it; try exact H'.
  destruct (prefixb pre (gostring payload) && cap); [|exact H'].
  destruct cur as [v|]; cbn [offer]; [exact H'|]. constructor; [|constructor]. left. left. reflexivity.
Qed.

Lemma parked_next seen s it s1 : chan_upd s it s1 -> Forall (known seen) (parked s) ->
  Forall (known (seen_after seen it)) (parked s1).
Proof.
  intros (_ & _ & Hc & Hf & Hb) Hp. unfold parked in *. rewrite Hc, Hf, Hb.
  apply Forall_app in Hp as [P1 Hp]. apply Forall_app in Hp as [P2 P3].
  apply Forall_app. split; [apply opt_next_known; exact P1|].
  apply Forall_app. split; apply opt_next_known; assumption.
Qed.

Lemma answers_ok_rets seen rets tr : Forall (good_ret seen) rets ->
  answers_ok seen (rets ++ tr) = answers_ok seen tr.
Proof.
  induction rets as [|x t IH]; intros H; [reflexivity|].
  pose proof (Forall_inv H) as Hx. destruct x as [it|q|q col]; try contradiction.
  cbn [app answers_ok]. rewrite (good_ret_ok _ _ _ Hx), (IH (Forall_inv_tail H)). reflexivity.
Qed.

Lemma pre_ret_ok seen cp q v : cq_pre cp q = Some v -> ret_ok seen q v = true.
Proof.
  unfold ret_ok. destruct q as [c| |]; cbn [cq_pre].
  - destruct (c_osc4 cp); cbn [negb]; [|intros H; injection H as <-; reflexivity].
    destruct (col_indexed c); [discriminate|]. destruct (col_rgb c); intros H; injection H as <-.
    + rewrite Z.eqb_refl. cbn [andb]. apply orb_true_r.
    + reflexivity.
  - destruct (c_osc10 cp); [discriminate|]. intros H; injection H as <-; reflexivity.
  - destruct (c_osc11 cp); [discriminate|]. intros H; injection H as <-; reflexivity.
Qed.

Section Runs.
Variable dec : item -> ikey.
Variable b64 : list Z -> option (list Z).

(* SAFETY, for every state, every schedule of calls against delivered sequences, every payload:
   a colour handed to a caller is Color(0), or the colour of a report that names what the caller
   asked for and that was delivered before the call returned (or was parked at the start); an RGB
   colour passed to QueryColor comes back as it is *)
Theorem krun_answers_ok l : forall s w seen,
  Forall blocking w -> Forall (known seen) (parked s) ->
  answers_ok seen (fst (fst (krun dec b64 s w l))) = true.
Proof.
  induction l as [|x t IH]; intros s w seen Hw Hp; [reflexivity|].
  destruct x as [it|q|q col]; cbn [krun].
  - destruct (handle dec b64 s it) as [s1 es1|es1|es1] eqn:Eh; [|destruct it; reflexivity..].
    destruct (settle s1 w) as [[s2 w2] rets] eqn:Es.
    pose proof (parked_next seen s it s1 (handle_chans dec b64 _ _ _ _ Eh) Hp) as Hp1.
    destruct (settle_inv _ _ _ _ _ _ Es Hw Hp1) as (_ & _ & Hw2 & Hp2 & Hr).
    specialize (IH s2 w2 (seen_after seen it) Hw2 Hp2).
    destruct (krun dec b64 s2 w2 t) as [[tr code] fin]. cbn [fst] in *.
    rewrite answers_ok_item, (answers_ok_rets _ _ _ Hr). exact IH.
  - destruct (cq_pre (vcaps s) q) as [v|] eqn:Epre.
    + specialize (IH s w seen Hw Hp). destruct (krun dec b64 s w t) as [[tr code] fin]. cbn [fst] in *.
      cbn [answers_ok]. rewrite (pre_ret_ok seen _ _ _ Epre). exact IH.
    + destruct (settle s (w ++ [q])) as [[s2 w2] rets] eqn:Es.
      assert (Hw' : Forall blocking (w ++ [q])).
      { apply Forall_app. split; [exact Hw|]. constructor; [|constructor]. exact (proj1 (cq_pre_none _ _ Epre)). }
      destruct (settle_inv _ _ _ _ _ _ Es Hw' Hp) as (_ & _ & Hw2 & Hp2 & Hr).
      specialize (IH s2 w2 seen Hw2 Hp2).
      destruct (krun dec b64 s2 w2 t) as [[tr code] fin]. cbn [fst] in *.
      cbn [answers_ok]. rewrite (answers_ok_rets _ _ _ Hr). exact IH.
  - apply IH; assumption.
Qed.
End Runs.

(* ================= 4. the answer half: a call that meets no leftovers ================= *)

Definition q_get (q : cq) : vxstate -> option (list Z) :=
  match q with QColor _ => ch_color | QFg => ch_fg | QBg => ch_bg end.
Definition q_set (q : cq) : vxstate -> option (list Z) -> vxstate :=
  match q with QColor _ => set_ch_color | QFg => set_ch_fg | QBg => set_ch_bg end.
Definition q_cap (q : cq) (cp : caps) : bool :=
  match q with QColor _ => c_osc4 cp | QFg => c_osc10 cp | QBg => c_osc11 cp end.

Lemma settle1_nowait k get set s w out : take_waiter k w = None ->
  settle1 k get set (s, w, out) = (s, w, out).
Proof. intros H. unfold settle1. rewrite H. destruct (get s); reflexivity. Qed.
Lemma settle1_none k get set s w out : get s = None -> settle1 k get set (s, w, out) = (s, w, out).
Proof. intros H. unfold settle1. rewrite H. reflexivity. Qed.
Lemma settle1_take k get set s w out v q w' : get s = Some v -> take_waiter k w = Some (q, w') ->
  settle1 k get set (s, w, out) = (set s None, w', out ++ [KRet q (cq_answer q v)]).
Proof. intros H1 H2. unfold settle1. rewrite H1, H2. reflexivity. Qed.

Lemma settle_nil s : settle s [] = (s, [], []).
Proof. unfold settle. rewrite !settle1_nowait by reflexivity. reflexivity. Qed.

(* one caller blocked: it takes what is in its channel, whatever lies in the other two *)
Lemma settle_single s q :
  settle s [q] = match q_get q s with
                 | Some v => (q_set q s None, [], [KRet q (cq_answer q v)])
                 | None => (s, [q], [])
                 end.
Proof.
  unfold settle. destruct q as [c| |]; cbn [q_get q_set].
  - destruct (ch_color s) as [v|] eqn:E.
    + rewrite (settle1_take 0 ch_color set_ch_color s [QColor c] [] v (QColor c) [] E eq_refl).
      rewrite !settle1_nowait by reflexivity. reflexivity.
    + rewrite (settle1_none 0 ch_color set_ch_color s [QColor c] [] E).
      rewrite !settle1_nowait by reflexivity. reflexivity.
  - rewrite (settle1_nowait 0 ch_color set_ch_color s [QFg] []) by reflexivity.
    destruct (ch_fg s) as [v|] eqn:E.
    + rewrite (settle1_take 1 ch_fg set_ch_fg s [QFg] [] v QFg [] E eq_refl).
      rewrite !settle1_nowait by reflexivity. reflexivity.
    + rewrite (settle1_none 1 ch_fg set_ch_fg s [QFg] [] E).
      rewrite !settle1_nowait by reflexivity. reflexivity.
  - rewrite (settle1_nowait 0 ch_color set_ch_color s [QBg] []) by reflexivity.
    rewrite (settle1_nowait 1 ch_fg set_ch_fg s [QBg] []) by reflexivity.
    destruct (ch_bg s) as [v|] eqn:E.
    + rewrite (settle1_take 2 ch_bg set_ch_bg s [QBg] [] v QBg [] E eq_refl). reflexivity.
    + rewrite (settle1_none 2 ch_bg set_ch_bg s [QBg] [] E). reflexivity.
Qed.

Lemma settle_frame s w s2 w2 rets : settle s w = (s2, w2, rets) ->
  vcaps s2 = vcaps s /\ q_stalled s2 = q_stalled s.
Proof.
  intros E. unfold settle in E.
  set (st0 := (s, w, @nil kstep)) in *.
  set (st1 := settle1 0 ch_color set_ch_color st0) in *.
  set (st2 := settle1 1 ch_fg set_ch_fg st1) in *.
  destruct (settle1_frame 0 ch_color set_ch_color (fun _ => eq_refl) (fun _ => eq_refl) st0) as [F1 G1].
  destruct (settle1_frame 1 ch_fg set_ch_fg (fun _ => eq_refl) (fun _ => eq_refl) st1) as [F2 G2].
  destruct (settle1_frame 2 ch_bg set_ch_bg (fun _ => eq_refl) (fun _ => eq_refl) st2) as [F3 G3].
  fold st1 in F1, G1. fold st2 in F2, G2. rewrite E in *. cbn [fst] in F3, G3.
  split; [rewrite F3, F2, F1; reflexivity|rewrite G3, G2, G1; reflexivity].
Qed.

Lemma cq_eqb_refl q : cq_eqb q q = true.
Proof. destruct q; cbn; [apply Z.eqb_refl|reflexivity..]. Qed.

Section Fresh.
Variable dec : item -> ikey.
Variable b64 : list Z -> option (list Z).

(* a report never makes handleSequence panic, and with the queue being read never block *)
Lemma osc_ok s p : q_stalled s = None -> exists s' es, handle dec b64 s (IOsc p) = Ok s' es.
Proof.
  intros Hl. pose proof (handle_safe dec b64 s (IOsc p) eq_refl) as Hs.
  destruct (handle dec b64 s (IOsc p)) as [s' es|es|es]; cbn in Hs; [eauto|contradiction|].
  exfalso. apply Hs. exact Hl.
Qed.

Lemma q_get_next q s it s1 : chan_upd s it s1 ->
  q_get q s1 = chan_next (chan_prefix q) (q_cap q (vcaps s)) (q_get q s) it.
Proof. intros (_ & _ & Hc & Hf & Hb). destruct q; assumption. Qed.

(* the caller q is blocked alone, nothing in its channel *)
Lemma fresh_wait_run l : forall s q,
  q_stalled s = None -> q_get q s = None -> q_cap q (vcaps s) = true ->
  fresh_wait q (fst (fst (krun dec b64 s [q] l))) = true.
Proof.
  induction l as [|x t IH]; intros s q Hl Hg Hc; [reflexivity|].
  destruct x as [it|q2|q2 col]; cbn [krun].
  - destruct (handle dec b64 s it) as [s1 es1|es1|es1] eqn:Eh.
    + pose proof (handle_chans dec b64 _ _ _ _ Eh) as Hu.
      pose proof (q_get_next q _ _ _ Hu) as Hn. rewrite Hg, Hc in Hn.
      assert (Hl1 : q_stalled s1 = None) by (exact (proj1 Hu Hl)).
      assert (Hc1 : q_cap q (vcaps s1) = true) by (rewrite (proj1 (proj2 Hu)); exact Hc).
      rewrite settle_single.
      destruct (targets q it) eqn:Et.
      * destruct it; try discriminate. rename payload into p. cbn [targets] in Et.
        unfold chan_next in Hn. rewrite Et in Hn. cbn [andb offer] in Hn. rewrite Hn.
        destruct (krun dec b64 (q_set q s1 None) [] t) as [[tr code] fin]. cbn [fst app fresh_wait].
        cbn [targets]. rewrite Et, cq_eqb_refl. cbn [andb strict_ok].
        destruct (strict_report (cq_head q) (gostring p)) as [v|] eqn:Es; [|reflexivity].
        rewrite (strict_is_answer _ _ _ Es). apply Z.eqb_refl.
      * assert (Hn' : q_get q s1 = None).
        { rewrite Hn. unfold chan_next. destruct it; try reflexivity. cbn [targets] in Et. rewrite Et. reflexivity. }
        rewrite Hn'. specialize (IH s1 q Hl1 Hn' Hc1).
        destruct (krun dec b64 s1 [q] t) as [[tr code] fin]. cbn [fst app fresh_wait] in *.
        rewrite Et. exact IH.
    + cbn [fst fresh_wait]. destruct (targets q it) eqn:Et; [|reflexivity].
      destruct it; try discriminate. rename payload into p.
      destruct (osc_ok s p Hl) as (s' & es & E). rewrite E in Eh. discriminate.
    + cbn [fst fresh_wait]. destruct (targets q it) eqn:Et; [|reflexivity].
      destruct it; try discriminate. rename payload into p.
      destruct (osc_ok s p Hl) as (s' & es & E). rewrite E in Eh. discriminate.
  - destruct (cq_pre (vcaps s) q2).
    + destruct (krun dec b64 s [q] t) as [[tr code] fin]. reflexivity.
    + destruct (settle s ([q] ++ [q2])) as [[s2 w2] rets].
      destruct (krun dec b64 s2 w2 t) as [[tr code] fin]. reflexivity.
  - apply IH; assumption.
Qed.

(* nothing parked, nobody waiting *)
Lemma fresh_run l : forall s,
  q_stalled s = None -> ch_color s = None -> ch_fg s = None -> ch_bg s = None ->
  fresh_ok (vcaps s) (fst (fst (krun dec b64 s [] l))) = true.
Proof.
  induction l as [|x t IH]; intros s Hl H0 H1 H2; [reflexivity|].
  destruct x as [it|q|q col]; cbn [krun].
  - destruct (handle dec b64 s it) as [s1 es1|es1|es1] eqn:Eh.
    + rewrite settle_nil. destruct (is_osc it) eqn:Eo.
      * destruct (krun dec b64 s1 [] t) as [[tr code] fin]. cbn [fst app fresh_ok]. rewrite Eo. reflexivity.
      * destruct (handle_chans dec b64 _ _ _ _ Eh) as (Hl1 & Hcp & Hc & Hf & Hb).
        assert (Hno : forall pre cap cur, chan_next pre cap cur it = cur) by (intros; destruct it; try reflexivity; discriminate).
        rewrite Hno in Hc, Hf, Hb.
        specialize (IH s1 (Hl1 Hl) ltac:(congruence) ltac:(congruence) ltac:(congruence)). rewrite Hcp in IH.
        destruct (krun dec b64 s1 [] t) as [[tr code] fin]. cbn [fst app fresh_ok] in *. rewrite Eo. exact IH.
    + cbn [fst fresh_ok]. destruct (is_osc it); reflexivity.
    + cbn [fst fresh_ok]. destruct (is_osc it); reflexivity.
  - destruct (cq_pre (vcaps s) q) as [v|] eqn:Ep.
    + destruct (krun dec b64 s [] t) as [[tr code] fin]. cbn [fst fresh_ok]. rewrite Ep, cq_eqb_refl, Z.eqb_refl. reflexivity.
    + cbn [app]. rewrite settle_single.
      assert (Hg : q_get q s = None) by (destruct q; assumption). rewrite Hg.
      destruct (cq_pre_none _ _ Ep) as [_ Hc].
      pose proof (fresh_wait_run t s q Hl Hg ltac:(destruct q; exact Hc)) as Hw.
      destruct (krun dec b64 s [q] t) as [[tr code] fin]. cbn [fst app fresh_ok] in *. rewrite Ep. exact Hw.
  - apply IH; assumption.
Qed.

(* the outcome: with the queue being read, handleSequence stops (panic, or wedged) only on a
   sequence the parser cannot deliver *)
Lemma forallb_app_false {A} (f : A -> bool) a b : forallb f b = false -> forallb f (a ++ b) = false.
Proof. intros H. rewrite forallb_app, H. apply andb_false_r. Qed.

Lemma items_app a b : items_of_ksteps (a ++ b) = items_of_ksteps a ++ items_of_ksteps b.
Proof. unfold items_of_ksteps. apply flat_map_app. Qed.

Lemma krun_code l : forall s w, q_stalled s = None ->
  snd (fst (krun dec b64 s w l)) = 0 \/
  ((snd (fst (krun dec b64 s w l)) = 1 \/ snd (fst (krun dec b64 s w l)) = 2) /\
   forallb wf_item (items_of_ksteps (fst (fst (krun dec b64 s w l)))) = false).
Proof.
  induction l as [|x t IH]; intros s w Hl; [left; reflexivity|].
  destruct x as [it|q|q col]; cbn [krun].
  - pose proof (handle_safe dec b64 s it) as Hs.
    destruct (handle dec b64 s it) as [s1 es1|es1|es1] eqn:Eh.
    + destruct (settle s1 w) as [[s2 w2] rets] eqn:Es.
      destruct (settle_frame _ _ _ _ _ Es) as [_ Hq].
      specialize (IH s2 w2 ltac:(rewrite Hq; exact (handle_live dec b64 _ _ _ _ Hl Eh))).
      destruct (krun dec b64 s2 w2 t) as [[tr code] fin]. cbn [fst snd] in *.
      destruct IH as [IH|[IH1 IH2]]; [left; exact IH|right]. split; [exact IH1|].
      change (KItem it :: rets ++ tr) with ([KItem it] ++ rets ++ tr). rewrite !items_app.
      apply forallb_app_false. apply forallb_app_false. exact IH2.
    + right. cbn [fst snd]. split; [left; reflexivity|]. cbn. destruct (wf_item it) eqn:Ew; [exfalso; exact (Hs Ew)|reflexivity].
    + right. cbn [fst snd]. split; [right; reflexivity|]. cbn. destruct (wf_item it) eqn:Ew; [exfalso; exact (Hs Ew Hl)|reflexivity].
  - destruct (cq_pre (vcaps s) q).
    + specialize (IH s w Hl). destruct (krun dec b64 s w t) as [[tr code] fin]. cbn [fst snd] in *.
      destruct IH as [IH|[IH1 IH2]]; [left; exact IH|right]. split; [exact IH1|exact IH2].
    + destruct (settle s (w ++ [q])) as [[s2 w2] rets] eqn:Es.
      destruct (settle_frame _ _ _ _ _ Es) as [_ Hq].
      specialize (IH s2 w2 ltac:(rewrite Hq; exact Hl)).
      destruct (krun dec b64 s2 w2 t) as [[tr code] fin]. cbn [fst snd] in *.
      destruct IH as [IH|[IH1 IH2]]; [left; exact IH|right]. split; [exact IH1|].
      change (KCall q :: rets ++ tr) with ([KCall q] ++ rets ++ tr). rewrite !items_app.
      apply forallb_app_false. apply forallb_app_false. exact IH2.
  - apply IH. exact Hl.
Qed.
End Fresh.

(* ================= 5. the model satisfies the predicate of the "colour" stream ================= *)

(* For EVERY case input (capabilities, start state a snapshot describes, steps) the observation
   the MODEL predicts satisfies the property predicate of the stream: a case on which the
   implementation agrees with the model is a case on which the property holds, and the predicate
   raises no false alarm on code the model describes. *)
Theorem colour_predicate_sound bits sn0 steps obs :
  ccase_violation ((bits, sn0), steps, ccase_obs (ccase_model ((bits, sn0), steps, obs))) = false.
Proof.
  unfold ccase_model. set (s0 := state_of_snap (caps_of_bits bits) None sn0).
  assert (Hl : q_stalled s0 = None).
  { unfold s0. destruct sn0 as [[[[[[[[p rq] rs] [[[c r] x] y]] uc] sd] lc] lf] lb]. reflexivity. }
  assert (Hcp : vcaps s0 = caps_of_bits bits).
  { unfold s0. destruct sn0 as [[[[[[[[p rq] rs] [[[c r] x] y]] uc] sd] lc] lf] lb]. reflexivity. }
  assert (Hp : Forall (known []) (parked s0)).
  { unfold s0. destruct sn0 as [[[[[[[[p rq] rs] [[[c r] x] y]] uc] sd] lc] lf] lb].
    unfold parked. cbn. destruct (0 <? lc), (0 <? lf), (0 <? lb); cbn;
      repeat (first [apply Forall_nil | apply Forall_cons; [right; exact nil_harmless|]]). }
  pose proof (krun_answers_ok key_dummy b64_none steps s0 [] [] (Forall_nil _) Hp) as Ha.
  pose proof (krun_code key_dummy b64_none steps s0 [] Hl) as Hc.
  assert (Hf : snap_clean sn0 = true ->
               fresh_ok (caps_of_bits bits) (fst (fst (krun key_dummy b64_none s0 [] steps))) = true).
  { intros Hcl. rewrite <- Hcp. apply fresh_run; [exact Hl|..];
      unfold s0; destruct sn0 as [[[[[[[[p rq] rs] [[[c r] x] y]] uc] sd] lc] lf] lb];
      cbn in Hcl; apply andb_true_iff in Hcl as [Hcl H3]; apply andb_true_iff in Hcl as [H1 H2];
      apply Z.eqb_eq in H1, H2, H3; subst; reflexivity. }
  destruct (krun key_dummy b64_none s0 [] steps) as [[tr code] fin]. cbn [fst snd] in *.
  unfold ccase_obs, ccase_violation.
  destruct Hc as [->|[[->| ->] Hw]].
  - change (0 =? 1) with false. change (0 =? 2) with false. cbn [orb]. cbv iota.
    rewrite Ha. cbn [andb]. destruct (snap_clean sn0); [rewrite (Hf eq_refl)|]; reflexivity.
  - exact Hw.
  - exact Hw.
Qed.

(* ================= 6. corollaries in readable form ================= *)

(* a payload the caller makes a colour of is a report for what the caller asked *)
Theorem answer_is_report q p : cq_answer q p <> 0 ->
  report_colour (cq_head q) p = Some (cq_answer q p).
Proof.
  unfold cq_answer. destruct (sscanf_rgb (cq_head q ++ rgb_lit) p) as [[[r g] b]|] eqn:E; [|congruence].
  intros _. exact (sscanf_is_report _ _ _ _ _ E).
Qed.

Lemma u8_index j : 0 <= j < 256 -> u8 (index_colour j) = j.
Proof.
  intros H. unfold u8, index_colour. replace (j + 16777216) with (j + 65536 * 256) by lia.
  rewrite Z.mod_add by lia. apply Z.mod_small. exact H.
Qed.

Fixpoint differs (a b : list Z) : bool :=
  match a, b with
  | x :: a', y :: b' => if x =? y then differs a' b' else true
  | _, _ => false
  end.

Lemma differs_lit a : forall b p r, differs a b = true -> lit (a ++ p) (b ++ r) = None.
Proof.
  induction a as [|x a IH]; intros b p r H; [discriminate|].
  destruct b as [|y b]; [discriminate|]. cbn in *. destruct (x =? y); [apply IH; exact H|reflexivity].
Qed.

Definition dec_distinct (i j : Z) : bool := (i =? j) || differs (dec_u8 j ++ [59]) (dec_u8 i ++ [59]).
Lemma dec_distinct_all : forallb (fun i => forallb (dec_distinct i) byte_range) byte_range = true.
Proof. vm_compute. reflexivity. Qed.

(* a report that names palette entry i is never an answer to a query for another entry j (both
   below 256: the argument of IndexColor is a uint8), whatever follows the index *)
Theorem other_entry_unknown i j rest : 0 <= i < 256 -> 0 <= j < 256 -> i <> j ->
  cq_answer (QColor (index_colour j)) ([52; 59] ++ dec_u8 i ++ [59] ++ rest) = 0.
Proof.
  intros Hi Hj Hne. unfold cq_answer, sscanf_rgb. cbn [cq_head]. rewrite (u8_index j Hj).
  pose proof dec_distinct_all as Hall. rewrite forallb_forall in Hall.
  specialize (Hall i (in_byte_range i Hi)). rewrite forallb_forall in Hall.
  specialize (Hall j (in_byte_range j Hj)). unfold dec_distinct in Hall.
  destruct (Z.eqb_spec i j) as [->|_]; [contradiction|]. cbn [orb] in Hall.
  cbn [app lit]. rewrite !Z.eqb_refl.
  replace (dec_u8 j ++ 59 :: rgb_lit) with ((dec_u8 j ++ [59]) ++ rgb_lit) by (rewrite <- app_assoc; reflexivity).
  replace (dec_u8 i ++ 59 :: rest) with ((dec_u8 i ++ [59]) ++ rest) by (rewrite <- app_assoc; reflexivity).
  rewrite (differs_lit _ _ _ _ Hall). reflexivity.
Qed.

Lemma prefixb_app_l a b : forall p, prefixb (a ++ b) p = true -> prefixb a p = true.
Proof.
  induction a as [|x a IH]; intros p H; [reflexivity|].
  destruct p as [|y p]; cbn in *; [discriminate|]. apply andb_true_iff in H as [E H]. rewrite E. apply IH. exact H.
Qed.

Lemma strict_targets q p v : strict_report (cq_head q) (gostring p) = Some v -> targets q (IOsc p) = true.
Proof.
  unfold strict_report. destruct (prefixb (cq_head q ++ rgb_lit) (gostring p)) eqn:E; [|discriminate].
  intros _. cbn [targets]. destruct q as [c| |]; cbn [cq_head chan_prefix] in *.
  - rewrite <- app_assoc in E. exact (prefixb_app_l [52] _ _ E).
  - exact (prefixb_app_l [49; 48] ([59] ++ rgb_lit) _ E).
  - exact (prefixb_app_l [49; 49] ([59] ++ rgb_lit) _ E).
Qed.

(* THE ANSWER HALF at run level: in every state in which the application reads its queue and
   nothing is parked in the reply channel, a call that passes its guards and is then sent the
   strict report for what it asked returns exactly the reported colour, and nothing stays behind *)
Theorem strict_reply_answers dec b64 s q p v :
  q_stalled s = None -> q_get q s = None -> cq_pre (vcaps s) q = None ->
  strict_report (cq_head q) (gostring p) = Some v ->
  exists fin, krun dec b64 s [] [KCall q; KItem (IOsc p)] = ([KCall q; KItem (IOsc p); KRet q v], 0, Some fin)
              /\ q_get q fin = None.
Proof.
  intros Hl Hg Hpre Hs. cbn [krun]. rewrite Hpre. cbn [app]. rewrite settle_single, Hg.
  destruct (osc_ok dec b64 s p Hl) as (s1 & es & Eh). rewrite Eh.
  pose proof (handle_chans dec b64 _ _ _ _ Eh) as Hu.
  pose proof (q_get_next q _ _ _ Hu) as Hn. rewrite Hg in Hn.
  destruct (cq_pre_none _ _ Hpre) as [_ Hc].
  assert (Hc' : q_cap q (vcaps s) = true) by (destruct q; exact Hc).
  pose proof (strict_targets _ _ _ Hs) as Ht. cbn [targets] in Ht.
  unfold chan_next in Hn. rewrite Ht, Hc' in Hn. cbn [andb offer] in Hn.
  rewrite settle_single, Hn. cbn [app]. rewrite (strict_is_answer _ _ _ Hs).
  exists (q_set q s1 None). split; [reflexivity|]. destruct q; reflexivity.
Qed.
