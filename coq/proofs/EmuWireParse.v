(* C12 - [enc_tok] against the parser model.  For every token of the vocabulary of term_caps
   whose numbers and strings are as the wire needs them, the parser model of C02, started in a
   clean ground state on the token's serialisation [ser k], consumes it entirely, is in a
   clean ground state again and delivers [wire_items k]: one sequence whose conversion to an
   emulator item is [enc_tok tw k], or - for text - the code points one by one.  For a token
   list, Parser.parse_bytes (the run of one read: adjacent printed code points joined) on the
   bytes [ser_bytes ks] delivers one print per maximal run of adjacent text tokens; if uniseg
   cuts every such run back into the graphemes of the cells with the widths [tw]
   ([seg_agrees]) the emulator receives exactly [flat_map (enc_tok tw) ks] (and the end of
   input, which update ignores). *)
From Coq Require Import Lia ZifyBool.
From Vx Require Import base.Prelude base.ListX gen.GenModes model.ParserTypes gen.GenParser model.Parser
  model.Vt500Spec proofs.ParserTable proofs.ParserConform proofs.ParserSem
  model.RenderTypes model.Render model.RenderCheck model.RenderBytes proofs.RenderBytesDigits proofs.RenderBytesProofs
  proofs.RenderBytesUtf8.
From Vx Require Import model.Gate model.EmuSpec model.EmuBridge model.EmuBytes.
From Vx Require proofs.TermBytes.
From Vx Require Import proofs.EmuRefine proofs.EmuResize.

(* the conversion is the one of C05's bytes theorem *)
Lemma of_item_is_termbytes seg it : of_item seg it = TermBytes.of_item seg it.
Proof. destruct it; reflexivity. Qed.

(* ---------- one token ---------- *)
(* from any clean state the serialisation is consumed entirely, delivers [o], leaves a clean state *)
Definition delivers (k : tok) (o : list item) : Prop :=
  forall p, clean p -> exists p', feed p (ser k) = (p', o, true) /\ clean p'.

Lemma delivers_csi k priv pss is f :
  ser k = csi_seq priv (pstr pss) is f ->
  (priv = [] \/ exists m, priv = [m] /\ 60 <= m <= 63) -> pss_ok pss ->
  Forall (fun r => 32 <= r <= 47) is -> 64 <= f <= 126 ->
  delivers k [ICsi (priv ++ is) pss f].
Proof.
  intros E Hp Hok Hi Hf p Hc. rewrite E.
  destruct (csi_tok_clean p priv pss is f Hc Hp Hok Hi Hf) as [p' [F C]]. eauto.
Qed.

Lemma delivers_osc k pl :
  ser k = osc_seq pl -> Forall (fun r => 32 <= r) pl -> pl <> [] -> delivers k [IOsc pl].
Proof.
  intros E Hpl Hne p Hc. rewrite E. destruct (osc_clean p pl Hc Hpl Hne) as [p' [F C]]. eauto.
Qed.

Lemma small_of n : EmuBridge.small n = true -> RenderBytesDigits.small n.
Proof. unfold EmuBridge.small, RenderBytesDigits.small. lia. Qed.

Lemma delivers_cup r c : RenderBytesDigits.small r -> RenderBytesDigits.small c -> delivers (KCup r c) (wire_items (KCup r c)).
Proof.
  intros Hr Hc.
  apply (delivers_csi _ [] [[r]; [c]] [] 72); [ser_eq|now left|pss_ok_tac|constructor|lia].
Qed.

Lemma delivers_sgr_reset : delivers KSgrReset (wire_items KSgrReset).
Proof. apply (delivers_csi _ [] [] [] 109); [reflexivity|now left|split; constructor|constructor|lia]. Qed.

Lemma delivers_show : delivers KShowCursor (wire_items KShowCursor).
Proof. apply (delivers_csi _ [63] [[25]] [] 104); [reflexivity|priv63|pss_ok_tac|constructor|lia]. Qed.
Lemma delivers_hide : delivers KHideCursor (wire_items KHideCursor).
Proof. apply (delivers_csi _ [63] [[25]] [] 108); [reflexivity|priv63|pss_ok_tac|constructor|lia]. Qed.

Lemma delivers_cursor_style n : RenderBytesDigits.small n -> delivers (KCursorStyle n) (wire_items (KCursorStyle n)).
Proof.
  intros Hn. apply (delivers_csi _ [] [[n]] [32] 113); [ser_eq|now left|pss_ok_tac|repeat constructor; lia|lia].
Qed.

Lemma delivers_attr n : existsb (Z.eqb n) (map fst attr_table) = true -> delivers (KSgr n) (wire_items (KSgr n)).
Proof.
  intros H. apply existsb_exists in H. destruct H as [x [Hin Hx]]. apply Z.eqb_eq in Hx. subst x.
  cbn in Hin.
  repeat (destruct Hin as [<-|Hin];
    [apply (delivers_csi _ [] [[_]] [] 109); [reflexivity|now left|pss_ok_tac|constructor|lia]|]).
  destruct Hin.
Qed.

Lemma delivers_fg ps : colour_ok ps = true -> delivers (KFg ps) (wire_items (KFg ps)).
Proof.
  intros H. destruct ps as [|n [|b t]]; cbn [colour_ok] in H; try discriminate.
  - apply (delivers_csi _ [] [[39]] [] 109); [reflexivity|now left|pss_ok_tac|constructor|lia].
  - assert (Hn : RenderBytesDigits.small n) by (unfold RenderBytesDigits.small; lia).
    cbn [wire_items wire_colour].
    destruct (n <? 8) eqn:E8; [|destruct (n <? 16) eqn:E16].
    + apply (delivers_csi _ [] [[30 + n]] [] 109); [|now left|pss_ok_tac|constructor|lia].
      unfold ser, ser_colour. rewrite E8. apply fg_lo_ser. lia.
    + apply (delivers_csi _ [] [[90 + (n - 8)]] [] 109); [|now left|pss_ok_tac|constructor|lia].
      unfold ser, ser_colour. rewrite E8, E16. apply fg_hi_ser. lia.
    + apply (delivers_csi _ [] [[38; 5; n]] [] 109); [|now left|pss_ok_tac|constructor|lia].
      unfold ser, ser_colour. rewrite E8, E16. ser_eq.
Qed.

Lemma delivers_bg ps : colour_ok ps = true -> delivers (KBg ps) (wire_items (KBg ps)).
Proof.
  intros H. destruct ps as [|n [|b t]]; cbn [colour_ok] in H; try discriminate.
  - apply (delivers_csi _ [] [[49]] [] 109); [reflexivity|now left|pss_ok_tac|constructor|lia].
  - assert (Hn : RenderBytesDigits.small n) by (unfold RenderBytesDigits.small; lia).
    cbn [wire_items wire_colour].
    destruct (n <? 8) eqn:E8; [|destruct (n <? 16) eqn:E16].
    + apply (delivers_csi _ [] [[40 + n]] [] 109); [|now left|pss_ok_tac|constructor|lia].
      unfold ser, ser_colour. rewrite E8. apply bg_lo_ser. lia.
    + apply (delivers_csi _ [] [[100 + (n - 8)]] [] 109); [|now left|pss_ok_tac|constructor|lia].
      unfold ser, ser_colour. rewrite E8, E16. apply bg_hi_ser. lia.
    + apply (delivers_csi _ [] [[48; 5; n]] [] 109); [|now left|pss_ok_tac|constructor|lia].
      unfold ser, ser_colour. rewrite E8, E16. ser_eq.
Qed.

Lemma delivers_link p u : printable p = true -> printable u = true -> delivers (KLink p u) (wire_items (KLink p u)).
Proof.
  intros Hp Hu. apply printable_forall in Hp, Hu.
  apply (delivers_osc _ ([56; 59] ++ p ++ [59] ++ u)).
  - ser_eq.
  - repeat (constructor; [lia|]). apply Forall_app. split; [exact Hp|]. constructor; [lia|exact Hu].
  - discriminate.
Qed.

Lemma delivers_shape s : printable s = true -> delivers (KMouseShape s) (wire_items (KMouseShape s)).
Proof.
  intros Hs. apply printable_forall in Hs.
  apply (delivers_osc _ ([50; 50; 59] ++ s)).
  - ser_eq.
  - repeat (constructor; [lia|]). exact Hs.
  - discriminate.
Qed.

Lemma delivers_text g : printable g = true -> delivers (KText g) (wire_items (KText g)).
Proof.
  intros Hg p Hc. apply printable_forall in Hg.
  destruct (text_clean g p Hc Hg) as [p' [F C]]. eauto.
Qed.

Lemma delivers_space : delivers KSpace (wire_items KSpace).
Proof.
  intros p Hc. destruct (text_clean [32] p Hc) as [p' [F C]]; [repeat constructor; lia|]. eauto.
Qed.

(* B, one token: the C02 parser model on [ser k] delivers [wire_items k] and is clean again *)
Theorem tok_delivers k : tok_wire_ok k = true -> delivers k (wire_items k).
Proof.
  unfold tok_wire_ok. intros H.
  apply andb_prop in H as [H Hu]. apply andb_prop in H as [H Hw]. apply andb_prop in H as [Ha Ho].
  destruct k; cbn [allowed term_caps cap_rgb cap_styled_ul cap_sync cap_explicit_width orb andb] in Ha;
    try discriminate; cbn [tok_ok] in Ho; cbn [tok_wfb] in Hw.
  - apply andb_prop in Ho as [H1 H2]. apply delivers_cup; now apply small_of.
  - apply delivers_sgr_reset.
  - now apply delivers_fg.
  - now apply delivers_bg.
  - now apply delivers_attr.
  - apply andb_prop in Hw as [Hw _]. apply andb_prop in Hw as [H1 H2]. now apply delivers_link.
  - now apply delivers_text.
  - apply delivers_space.
  - apply delivers_show.
  - apply delivers_hide.
  - apply delivers_cursor_style. unfold RenderBytesDigits.small. lia.
  - now apply delivers_shape.
Qed.

(* ... and what it delivers is [enc_tok], sequence by sequence (text: see below) *)
Theorem wire_items_enc tw seg k : tok_wire_ok k = true -> tok_cluster tw k = None ->
  of_items seg (wire_items k) = enc_tok tw k.
Proof.
  unfold tok_wire_ok. intros H Hc.
  apply andb_prop in H as [H Hu]. apply andb_prop in H as [H Hw]. apply andb_prop in H as [Ha Ho].
  destruct k; cbn [allowed term_caps cap_rgb cap_styled_ul cap_sync cap_explicit_width orb andb] in Ha;
    try discriminate; cbn [tok_cluster] in Hc; try discriminate; try reflexivity.
  - cbn [tok_ok] in Ho. destruct ps as [|n [|b t]]; cbn [colour_ok] in Ho; try discriminate; [reflexivity|].
    cbn [wire_items wire_colour enc_tok enc_colour]. destruct (n <? 8); [reflexivity|]. destruct (n <? 16); reflexivity.
  - cbn [tok_ok] in Ho. destruct ps as [|n [|b t]]; cbn [colour_ok] in Ho; try discriminate; [reflexivity|].
    cbn [wire_items wire_colour enc_tok enc_colour]. destruct (n <? 8); [reflexivity|]. destruct (n <? 16); reflexivity.
Qed.

(* ---------- token lists ---------- *)
Definition all_items (ks : list tok) : list item := flat_map wire_items ks.

Theorem ser_all_delivers ks : forall p, forallb tok_wire_ok ks = true -> clean p ->
  exists p', feed p (ser_all ks) = (p', all_items ks, true) /\ clean p'.
Proof.
  induction ks as [|k ks IH]; intros p Hw Hc.
  - exists p. cbn. auto.
  - cbn [forallb] in Hw. apply andb_prop in Hw as [Hk Hks].
    destruct (tok_delivers k Hk p Hc) as [p1 [F1 C1]].
    destruct (IH p1 Hks C1) as [p2 [F2 C2]].
    exists p2. unfold ser_all, all_items. cbn [flat_map]. rewrite feed_app, F1.
    fold (ser_all ks). rewrite F2. split; [reflexivity|exact C2].
Qed.

(* end of input in a clean state: nothing is pending *)
Lemma finish_clean p : clean p -> finish p = [IEof].
Proof.
  intros [Hst [Hex Hod]]. unfold finish. rewrite step_is_spec_step.
  unfold spec_step. cbn [andb]. cbv zeta. unfold spec_anywhere. rewrite Z.eqb_refl.
  unfold run_trans. cbn [exec_acts]. cbn. rewrite Hex. reflexivity.
Qed.

Theorem parse_ser_bytes ks : forallb tok_wire_ok ks = true ->
  parse_bytes (ser_bytes ks) = canon (all_items ks ++ [IEof]).
Proof.
  intros Hw.
  assert (Hu : forallb tok_utf8b ks = true).
  { apply forallb_forall. intros k Hk. rewrite forallb_forall in Hw. specialize (Hw k Hk).
    unfold tok_wire_ok in Hw. apply andb_prop in Hw. tauto. }
  unfold parse_bytes, ser_bytes. rewrite decode_utf8 by (apply ser_all_ok; exact Hu).
  unfold parse_runes.
  destruct (ser_all_delivers ks pinit Hw clean_init) as [p' [F C]]. rewrite F.
  rewrite (finish_clean p' C). reflexivity.
Qed.

(* ---------- joining adjacent text ---------- *)
Definition solid (it : item) : Prop :=
  match it with IPrint _ | IError => False | _ => True end.

Lemma canon_solid it X : solid it -> canon (it :: X) = it :: canon X.
Proof. destruct it; cbn; tauto. Qed.

Lemma canon_prints_app g X : g <> [] ->
  canon (map (fun r => IPrint [r]) g ++ X) =
  match canon X with IPrint b :: t' => IPrint (g ++ b) :: t' | t' => IPrint g :: t' end.
Proof.
  induction g as [|r g IH]; intros Hne; [congruence|].
  destruct g as [|r2 g2].
  - cbn [map app canon]. destruct (canon X) as [|[] ?]; reflexivity.
  - change (map (fun r => IPrint [r]) (r :: r2 :: g2) ++ X)
      with (IPrint [r] :: (map (fun r => IPrint [r]) (r2 :: g2) ++ X)).
    cbn [canon]. rewrite IH by discriminate.
    destruct (canon X) as [|[] ?]; reflexivity.
Qed.

Section Group.
Variable tw : list Z -> Z.
Variable seg : segm.

Definition grp_item (g : grp) : list item :=
  match g with GRun cl => [IPrint (run_text cl)] | GTok k => wire_items k end.
Definition grp_enc (g : grp) : list T.titem :=
  match g with GRun cl => map (fun c => T.TPrint (fst c) (snd c)) cl | GTok k => enc_tok tw k end.

(* every token between two runs is a token of the list that is not text *)
Lemma group_toks ks : forall k, In (GTok k) (group tw ks) -> In k ks /\ tok_cluster tw k = None.
Proof.
  induction ks as [|k0 ks IH]; intros k H; cbn [group] in H; [destruct H|].
  destruct (tok_cluster tw k0) as [c|] eqn:Ec.
  - assert (In (GTok k) (group tw ks)).
    { destruct (group tw ks) as [|[cl|k'] r']; cbn [In] in H |- *.
      - destruct H as [H|[]]; discriminate.
      - destruct H as [H|H]; [discriminate|]. now right.
      - destruct H as [H|H]; [discriminate|]. exact H. }
    destruct (IH k H0). split; [now right|assumption].
  - destruct H as [H|H]; [inversion H; subst; split; [now left|exact Ec]|].
    destruct (IH k H). split; [now right|assumption].
Qed.

Lemma enc_group ks : flat_map (enc_tok tw) ks = flat_map grp_enc (group tw ks).
Proof.
  induction ks as [|k ks IH]; [reflexivity|]. cbn [flat_map group]. rewrite IH.
  destruct (tok_cluster tw k) as [c|] eqn:Ec.
  - assert (Hk : enc_tok tw k = [T.TPrint (fst c) (snd c)]).
    { destruct k; cbn [tok_cluster] in Ec; inversion Ec; subst; reflexivity. }
    rewrite Hk. destruct (group tw ks) as [|[cl|k'] r']; reflexivity.
  - reflexivity.
Qed.

(* text tokens are not empty *)
Definition text_full (ks : list tok) : Prop :=
  forall k c, In k ks -> tok_cluster tw k = Some c -> fst c <> [].

Lemma canon_group ks : forallb tok_wire_ok ks = true -> text_full ks ->
  canon (all_items ks ++ [IEof]) = flat_map grp_item (group tw ks) ++ [IEof].
Proof.
  induction ks as [|k ks IH]; intros Hw Hfull; [reflexivity|].
  cbn [forallb] in Hw. apply andb_prop in Hw as [Hk Hks].
  assert (Hfull' : text_full ks) by (intros k' c' Hin; apply Hfull; now right).
  specialize (IH Hks Hfull').
  unfold all_items. cbn [flat_map group]. fold (all_items ks). rewrite <- app_assoc.
  destruct (tok_cluster tw k) as [c|] eqn:Ec.
  - (* text *)
    assert (Hne : fst c <> []) by (apply (Hfull k c); [now left|exact Ec]).
    assert (Hit : wire_items k = map (fun r => IPrint [r]) (fst c)).
    { destruct k; cbn [tok_cluster] in Ec; inversion Ec; subst; reflexivity. }
    rewrite Hit, canon_prints_app by exact Hne. rewrite IH.
    destruct (group tw ks) as [|[cl|k'] r'] eqn:Eg.
    + cbn [flat_map app grp_item run_text map concat fst]. rewrite app_nil_r. reflexivity.
    + cbn [flat_map app grp_item]. unfold run_text. cbn [map concat]. reflexivity.
    + cbn [flat_map grp_item].
      assert (Hk' : In k' ks /\ tok_cluster tw k' = None) by (apply group_toks; rewrite Eg; now left).
      destruct Hk' as [Hin Hn].
      assert (Hwk' : tok_wire_ok k' = true) by (rewrite forallb_forall in Hks; now apply Hks).
      assert (Hsolid : exists it, wire_items k' = [it] /\ solid it).
      { clear - Hwk' Hn. unfold tok_wire_ok in Hwk'.
        apply andb_prop in Hwk' as [H _]. apply andb_prop in H as [H _]. apply andb_prop in H as [Ha Ho].
        destruct k'; cbn [allowed term_caps cap_rgb cap_styled_ul cap_sync cap_explicit_width orb andb] in Ha;
          try discriminate; cbn [tok_cluster] in Hn; try discriminate;
          try (eexists; split; [reflexivity|exact I]).
        - cbn [tok_ok] in Ho. destruct ps as [|n [|b t]]; cbn [colour_ok] in Ho; try discriminate;
            cbn [wire_items wire_colour]; [eexists; split; [reflexivity|exact I]|].
          destruct (n <? 8); [|destruct (n <? 16)]; eexists; split; try reflexivity; exact I.
        - cbn [tok_ok] in Ho. destruct ps as [|n [|b t]]; cbn [colour_ok] in Ho; try discriminate;
            cbn [wire_items wire_colour]; [eexists; split; [reflexivity|exact I]|].
          destruct (n <? 8); [|destruct (n <? 16)]; eexists; split; try reflexivity; exact I. }
      destruct Hsolid as [it [Eit Hs]]. rewrite Eit. cbn [app].
      destruct it; cbn in Hs; try tauto; cbn [run_text map concat fst]; rewrite app_nil_r; reflexivity.
  - (* a sequence *)
    assert (Hsolid : exists it, wire_items k = [it] /\ solid it).
    { clear - Hk Ec. unfold tok_wire_ok in Hk.
      apply andb_prop in Hk as [H _]. apply andb_prop in H as [H _]. apply andb_prop in H as [Ha Ho].
      destruct k; cbn [allowed term_caps cap_rgb cap_styled_ul cap_sync cap_explicit_width orb andb] in Ha;
        try discriminate; cbn [tok_cluster] in Ec; try discriminate;
        try (eexists; split; [reflexivity|exact I]).
      - cbn [tok_ok] in Ho. destruct ps as [|n [|b t]]; cbn [colour_ok] in Ho; try discriminate;
          cbn [wire_items wire_colour]; [eexists; split; [reflexivity|exact I]|].
        destruct (n <? 8); [|destruct (n <? 16)]; eexists; split; try reflexivity; exact I.
      - cbn [tok_ok] in Ho. destruct ps as [|n [|b t]]; cbn [colour_ok] in Ho; try discriminate;
          cbn [wire_items wire_colour]; [eexists; split; [reflexivity|exact I]|].
        destruct (n <? 8); [|destruct (n <? 16)]; eexists; split; try reflexivity; exact I. }
    destruct Hsolid as [it [Eit Hs]]. cbn [flat_map grp_item]. rewrite Eit. cbn [app].
    rewrite canon_solid by exact Hs. rewrite IH. reflexivity.
Qed.

Lemma list_eqb_cluster a b : list_eqb cluster_eqb a b = true -> a = b.
Proof.
  revert b. induction a as [|x a IH]; intros [|y b] H; cbn in H; try discriminate; [reflexivity|].
  apply andb_prop in H as [H1 H2]. unfold cluster_eqb in H1. apply andb_prop in H1 as [H3 H4].
  destruct x, y. cbn in *. apply zlist_eqb_true in H3. f_equal; [|now apply IH]. f_equal; [exact H3|lia].
Qed.

Lemma text_fullb_full ks : text_fullb ks = true -> text_full ks.
Proof.
  unfold text_fullb. rewrite forallb_forall. intros H k c Hin Hc. specialize (H k Hin).
  destruct k; cbn [tok_cluster] in Hc; inversion Hc; subst; cbn [fst]; [|discriminate].
  destruct g; [discriminate|discriminate].
Qed.

Lemma items_group ks : forallb tok_wire_ok ks = true ->
  forallb (fun g => match g with
                    | GRun cl => list_eqb cluster_eqb (seg (run_text cl)) cl
                    | GTok _ => true
                    end) (group tw ks) = true ->
  of_items seg (flat_map grp_item (group tw ks)) = flat_map grp_enc (group tw ks).
Proof.
  intros Hw Hs.
  assert (Hg : forall g, In g (group tw ks) -> of_items seg (grp_item g) = grp_enc g).
  { intros [cl|k] Hin.
    - rewrite forallb_forall in Hs. specialize (Hs _ Hin). cbv beta iota in Hs.
      apply list_eqb_cluster in Hs. cbn [grp_item grp_enc of_items flat_map of_item]. rewrite app_nil_r, Hs. reflexivity.
    - destruct (group_toks ks k Hin) as [Hk Hn].
      cbn [grp_item grp_enc]. apply wire_items_enc; [|exact Hn].
      rewrite forallb_forall in Hw. now apply Hw. }
  induction (group tw ks) as [|g l IH]; [reflexivity|].
  cbn [flat_map]. unfold of_items in *. rewrite flat_map_app.
  rewrite (Hg g (or_introl eq_refl)). f_equal. apply IH.
  - cbn [forallb] in Hs. apply andb_prop in Hs. tauto.
  - intros g' Hin. apply Hg. now right.
Qed.

(* B, token lists: the emulator receives [enc_tok] of every token, then the end of input *)
Theorem wire_exact ks : forallb tok_wire_ok ks = true -> seg_agrees tw seg ks = true ->
  of_items seg (parse_bytes (ser_bytes ks)) = flat_map (enc_tok tw) ks ++ [T.TOther].
Proof.
  intros Hw Hs. unfold seg_agrees in Hs. apply andb_prop in Hs as [Hf Hs].
  rewrite (parse_ser_bytes ks Hw), (canon_group ks Hw (text_fullb_full ks Hf)).
  unfold of_items. rewrite flat_map_app. fold (of_items seg (flat_map grp_item (group tw ks))).
  rewrite (items_group ks Hw Hs), <- enc_group. reflexivity.
Qed.

End Group.
