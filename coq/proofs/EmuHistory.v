(* C12 - histories with the resize case proved: the emulator is resized by T.resize (the model
   of term.go resize), Vaxis repaints.  No reference terminal is left in the statement: it is a
   ghost of the proof (chosen after every resize as [ref_resized]). *)
From Vx Require Import base.Prelude base.ListX model.Colour model.RenderTypes model.Render model.RefTerm
  model.RenderSpec model.RenderCheck model.Gate model.EmuSpec model.EmuBridge model.EmuWire.
From Vx Require Import proofs.ColourProofs proofs.GateProofs proofs.RenderDelta proofs.RenderRow proofs.RenderFrame
  proofs.RenderHistory proofs.EmuRefine proofs.EmuToksOk proofs.EmuResize.
Require Import ZifyBool Lia.
Local Open Scope Z_scope.

(* ---------- the induction, once ---------- *)
(* generic in: [hyp], what is asked of the emulator state at the moment of a resize; [Inv], an
   invariant of the emulator state the tokens keep and a resize re-establishes; [feedf], how a
   frame's tokens reach the emulator (as delivered sequences, or as bytes through the parser),
   with [fhyp], the per-frame hypothesis under which [feedf] is [emu_toks] *)
Section Gen.
Variables (hyp Inv : T.term -> Prop).
Variable feedf : T.term -> list tok -> T.tres T.term.
Variable fhyp : vstate -> list tok -> Prop.
Variables (tw measure : list Z -> Z).
Hypothesis Inv_keeps : forall t t', keeps_prim t t' -> Inv t -> Inv t'.
Hypothesis Inv_resize : forall e w h t r w2 h2,
  TP.WFs0 e w h t -> vaxis_modes t = true -> emu_rel t r -> tm_pen r = tpen0 -> tm_link r = ([], []) ->
  1 <= w2 -> 1 <= h2 -> Inv t -> hyp t ->
  exists t2, T.resize t w2 h2 = T.TOk t2 /\ TP.WFs0 e w2 h2 t2 /\ vaxis_modes t2 = true /\
    emu_rel t2 (ref_resized r t2) /\ resized r (ref_resized r t2) h2 w2 /\ Inv t2.
Hypothesis feed_ok : forall t r o s1, toks_ok tw r o -> fhyp s1 o -> feedf t o = emu_toks tw t o.

Fixpoint hist_gen (s : vstate) (rows cols : Z) (t : T.term) (fs : list frame) : Prop :=
  match fs with
  | [] => True
  | (ops, e) :: rest =>
      let s1 := fold_left apply_op ops s in
      match e with
      | FResize rows2 cols2 =>
          1 <= rows2 -> 1 <= cols2 -> size_ok rows2 cols2 -> hyp t ->
          exists t2, T.resize t cols2 rows2 = T.TOk t2 /\
            hist_gen (do_resize s1 rows2 cols2) rows2 cols2 t2 rest
      | _ =>
          content_ok tw measure term_caps s1 -> wire_ok s1 = true ->
          let '(s', o) := do_frame s ops e in
          fhyp s1 o ->
          exists t', feedf t o = T.TOk t' /\
            grid_shows term_caps (v_next s1) (grid_of t') = true /\
            cursor_shows rows cols (v_cnext s1) (ecursor_of t') = true /\
            hist_gen s' rows cols t' rest
      end
  end.

Theorem hist_gen_correct : forall fs s r t e w h,
  v_caps s = term_caps -> settled s r -> (v_refresh s = false -> in_sync measure term_caps s r) ->
  size_ok (tm_rows r) (tm_cols r) ->
  TP.WFs0 e w h t -> vaxis_modes t = true -> emu_rel t r -> Inv t ->
  hist_gen s (tm_rows r) (tm_cols r) t fs.
Proof.
  induction fs as [|[ops fe] rest IH]; intros s r t e w h Hcp Hs Hsy Hsz HW HM HR HI; cbn [hist_gen]; [exact I|].
  cbv zeta. destruct (ops_keep ops s) as [A [B [Cc [D [E [F G]]]]]]. cbv zeta in *.
  pose proof (frame_toks_ok tw measure s r ops fe Hcp (proj1 Hs) Hsz) as Htoks.
  set (s1 := fold_left apply_op ops s) in *.
  pose proof (ops_settled ops s r Hs) as Hs1. fold s1 in Hs1.
  assert (Hsy1 : v_refresh s1 = false -> in_sync measure term_caps s1 r).
  { intros Hr. rewrite D in Hr. exact (ops_in_sync measure term_caps ops s r (Hsy Hr)). }
  assert (Hcp1 : v_caps s1 = term_caps) by congruence.
  assert (Frame : forall s2, v_caps s2 = term_caps -> settled s2 r ->
            (v_refresh s2 = false -> in_sync measure term_caps s2 r) -> v_next s2 = v_next s1 -> v_cnext s2 = v_cnext s1 ->
            content_ok tw measure term_caps s2 ->
            let '(s', o) := do_render s2 in
            toks_ok tw r o -> fhyp s1 o ->
            exists t', feedf t o = T.TOk t' /\
              grid_shows term_caps (v_next s1) (grid_of t') = true /\
              cursor_shows (tm_rows r) (tm_cols r) (v_cnext s1) (ecursor_of t') = true /\
              hist_gen s' (tm_rows r) (tm_cols r) t' rest).
  { intros s2 C2 S2 Y2 N2 CN2 Hok.
    pose proof (render_correct tw measure term_caps s2 r C2 S2 Y2 Hok) as H.
    destruct (do_render s2) as [s' o]. cbv zeta in H. intros Htok Hfh.
    destruct H as [S' [Y' [R' [N' [C' [SN [CR SY]]]]]]].
    destruct (emu_simulates_refterm_list tw e w h o t r HW HM HR Htok) as [t' [E' [W' [M' [Rl' K']]]]].
    exists t'. split; [rewrite (feed_ok t r o s1 Htok Hfh); exact E'|].
    assert (Hdims : tm_rows (interp tw r o) = tm_rows r /\ tm_cols (interp tw r o) = tm_cols r).
    { destruct Rl' as [Q1 Q2 _ _ _ _ _ _]. destruct HR as [P1 P2 _ _ _ _ _ _].
      rewrite <- Q1, <- Q2, <- P1, <- P2.
      rewrite (TP.WFs_height e w h t' W'), (TP.WFs_width e w h t' W'), (TP.WFs_height e w h t HW), (TP.WFs_width e w h t HW).
      split; reflexivity. }
    destruct Hdims as [Hdr Hdc].
    split.
    { rewrite <- N2. apply (emu_shows_view term_caps e w h s2 t' (interp tw r o) W' Rl'); [|exact SN].
      destruct S' as [[D1 [D2 [D3 D4]]] _]. rewrite N' in D1, D3.
      split; [exact D1|]. split; [|split; [exact D3|]].
      - destruct S2 as [[_ [L2 _]] _]. exact L2.
      - destruct S2 as [[_ [_ [_ L4]]] _]. rewrite Hdc. exact L4. }
    split.
    { rewrite <- CN2, <- Hdr, <- Hdc. apply emu_shows_cursor; auto.
      destruct S' as [_ [_ [Hc1 _]]]. exact Hc1. }
    assert (H : hist_gen s' (tm_rows (interp tw r o)) (tm_cols (interp tw r o)) t' rest).
    { apply (IH s' (interp tw r o) t' e w h C' S' (fun _ => Y')); auto.
      - rewrite Hdr, Hdc. exact Hsz.
      - exact (Inv_keeps t t' K' HI). }
    rewrite Hdr, Hdc in H. exact H. }
  destruct fe as [| |rows cols].
  - intros Hok Hwire. specialize (Htoks Hok Hwire). unfold do_frame in *. fold s1 in Htoks |- *.
    specialize (Frame s1 Hcp1 Hs1 Hsy1 eq_refl eq_refl Hok).
    destruct (do_render s1) as [s' o]. exact (Frame Htoks).
  - intros Hok Hwire. specialize (Htoks Hok Hwire). unfold do_frame, do_refresh in *. fold s1 in Htoks |- *.
    specialize (Frame (set_refresh s1) Hcp1 Hs1 ltac:(intros Hr; discriminate) eq_refl eq_refl Hok).
    destruct (do_render (set_refresh s1)) as [s' o]. exact (Frame Htoks).
  - intros Hr Hc Hsz2 Hh.
    destruct Hs1 as [Hd1 [Hr1 [Hc1 [Hp1 [Hl1 Hrest1]]]]].
    destruct (Inv_resize e w h t r cols rows HW HM HR Hp1 Hl1 Hc Hr HI Hh) as (t2 & E2 & W2 & M2 & R2 & Hres & I2).
    exists t2. split; [exact E2|].
    pose proof Hres as [Q1 [Q2 _]].
    assert (H : hist_gen (do_resize s1 rows cols)
                  (tm_rows (ref_resized r t2)) (tm_cols (ref_resized r t2)) t2 rest).
    { apply (IH _ (ref_resized r t2) t2 e cols rows); auto.
      + apply (resize_settled s1 r (ref_resized r t2) rows cols Hr Hc); [|exact Hres].
        split; [exact Hd1|]. split; [exact Hr1|]. split; [exact Hc1|]. split; [exact Hp1|]. split; [exact Hl1|exact Hrest1].
      + cbn. intros Hf; discriminate.
      + rewrite Q1, Q2. exact Hsz2. }
    rewrite Q1, Q2 in H. exact H.
Qed.
End Gen.

(* the two resize lemmas in the shape the induction wants *)
Lemma inv_resize_pen : forall e w h t r w2 h2,
  TP.WFs0 e w h t -> vaxis_modes t = true -> emu_rel t r -> tm_pen r = tpen0 -> tm_link r = ([], []) ->
  1 <= w2 -> 1 <= h2 -> True -> True ->
  exists t2, T.resize t w2 h2 = T.TOk t2 /\ TP.WFs0 e w2 h2 t2 /\ vaxis_modes t2 = true /\
    emu_rel t2 (ref_resized r t2) /\ resized r (ref_resized r t2) h2 w2 /\ True.
Proof.
  intros e0 w0 h0 t0 r0 w2 h2 W M R _ _ Hw Hh _ _.
  destruct (resize_rel e0 w0 h0 t0 r0 w2 h2 W M R Hw Hh) as (t2 & A & B & C & D & E).
  exists t2. auto 8.
Qed.

Lemma inv_resize_alt : forall e w h t r w2 h2,
  TP.WFs0 e w h t -> vaxis_modes t = true -> emu_rel t r -> tm_pen r = tpen0 -> tm_link r = ([], []) ->
  1 <= w2 -> 1 <= h2 -> alt_plain t -> True ->
  exists t2, T.resize t w2 h2 = T.TOk t2 /\ TP.WFs0 e w2 h2 t2 /\ vaxis_modes t2 = true /\
    emu_rel t2 (ref_resized r t2) /\ resized r (ref_resized r t2) h2 w2 /\ alt_plain t2.
Proof.
  intros e0 w0 h0 t0 r0 w2 h2 W M R P0 L0 Hw Hh Ha _.
  exact (resize_rel_alt e0 w0 h0 t0 r0 w2 h2 W M R Hw Hh P0 L0 Ha).
Qed.

(* ---------- tokens as delivered sequences ---------- *)
(* [hyp] is what is asked of the emulator state at the moment of a resize *)
Fixpoint emu_history_resize (hyp : T.term -> Prop) (tw measure : list Z -> Z) (s : vstate) (rows cols : Z)
    (t : T.term) (fs : list frame) : Prop :=
  match fs with
  | [] => True
  | (ops, e) :: rest =>
      let s1 := fold_left apply_op ops s in
      match e with
      | FResize rows2 cols2 =>
          1 <= rows2 -> 1 <= cols2 -> size_ok rows2 cols2 -> hyp t ->
          exists t2, T.resize t cols2 rows2 = T.TOk t2 /\
            emu_history_resize hyp tw measure (do_resize s1 rows2 cols2) rows2 cols2 t2 rest
      | _ =>
          content_ok tw measure term_caps s1 -> wire_ok s1 = true ->
          let '(s', o) := do_frame s ops e in
          exists t', emu_toks tw t o = T.TOk t' /\
            grid_shows term_caps (v_next s1) (grid_of t') = true /\
            cursor_shows rows cols (v_cnext s1) (ecursor_of t') = true /\
            emu_history_resize hyp tw measure s' rows cols t' rest
      end
  end.

Lemma hist_gen_resize hyp tw measure : forall fs s rows cols t,
  hist_gen hyp (emu_toks tw) (fun _ _ => True) tw measure s rows cols t fs ->
  emu_history_resize hyp tw measure s rows cols t fs.
Proof.
  induction fs as [|[ops fe] rest IH]; intros s rows cols t H; [exact I|].
  cbn [hist_gen emu_history_resize] in *. cbv zeta in *.
  destruct fe as [| |rows2 cols2].
  - intros Hok Hw. specialize (H Hok Hw). destruct (do_frame s ops FRender) as [s' o].
    destruct (H I) as (t' & A & B & C & D). exists t'. auto.
  - intros Hok Hw. specialize (H Hok Hw). destruct (do_frame s ops FRefresh) as [s' o].
    destruct (H I) as (t' & A & B & C & D). exists t'. auto.
  - intros H1 H2 H3 H4. destruct (H H1 H2 H3 H4) as (t2 & A & B). exists t2. auto.
Qed.

(* the general form: from any well-formed start state in Vaxis' modes related to a reference
   terminal; nothing is asked at a resize *)
Theorem emu_history_resize_correct tw measure fs s r t e w h :
  v_caps s = term_caps -> settled s r -> (v_refresh s = false -> in_sync measure term_caps s r) ->
  size_ok (tm_rows r) (tm_cols r) ->
  TP.WFs0 e w h t -> vaxis_modes t = true -> emu_rel t r ->
  emu_history_resize (fun _ => True) tw measure s (tm_rows r) (tm_cols r) t fs.
Proof.
  intros. apply hist_gen_resize.
  apply (hist_gen_correct (fun _ => True) (fun _ => True)) with (e := e) (w := w) (h := h); auto.
  exact inv_resize_pen.
Qed.

(* a Vaxis application: on the alternate screen over a primary screen in the default style no
   hypothesis is left at a resize *)
Theorem emu_history_resize_alt tw measure fs s r t e w h :
  v_caps s = term_caps -> settled s r -> (v_refresh s = false -> in_sync measure term_caps s r) ->
  size_ok (tm_rows r) (tm_cols r) ->
  TP.WFs0 e w h t -> vaxis_modes t = true -> emu_rel t r -> alt_plain t ->
  emu_history_resize (fun _ => True) tw measure s (tm_rows r) (tm_cols r) t fs.
Proof.
  intros. apply hist_gen_resize.
  apply (hist_gen_correct (fun _ => True) alt_plain) with (e := e) (w := w) (h := h); auto.
  - exact alt_plain_keeps.
  - exact inv_resize_alt.
Qed.

(* ---------- start states without a reference terminal ---------- *)
Lemma start_rel e w h t : TP.WFs0 e w h t -> start_ok t = true ->
  emu_rel t (ref_start t) /\ tm_rows (ref_start t) = h /\ tm_cols (ref_start t) = w /\
  tm_pen (ref_start t) = tpen0 /\ tm_link (ref_start t) = ([], []) /\ tm_vis (ref_start t) = false /\
  tm_mouse (ref_start t) = [].
Proof.
  intros W H. unfold start_ok in H. apply andb_prop in H as [H H3]. apply andb_prop in H as [H1 H2].
  pose proof (TP.WFs_height e w h t W) as Hh. pose proof (TP.WFs_width e w h t W) as Hw.
  split.
  - unfold ref_start. apply (emu_rel_resized e w h); auto.
    + intros Hl. rewrite Hl in H3. cbn in H3. lia.
    + cbn. now apply pen_showsb_ok.
    + cbn. destruct (T.m_tcem (T.t_md t)); [discriminate|reflexivity].
  - unfold ref_start, ref_resized. cbn. rewrite Hh, Hw. repeat split.
Qed.

Lemma vinit_settled rows cols r : 1 <= rows -> 1 <= cols ->
  tm_rows r = rows -> tm_cols r = cols -> tm_pen r = tpen0 -> tm_link r = ([], []) -> tm_vis r = false -> tm_mouse r = [] ->
  settled (vinit term_caps rows cols) r.
Proof.
  intros Hr Hc R C P L V M.
  unfold settled, dims_ok, vinit, blank_grid. cbn [v_next v_last v_clast v_mlast cu_vis].
  repeat split; try lia; try assumption; try (rewrite zlen_repeat by lia; congruence);
    intros r0 Hin; apply zrepeat_In in Hin; subst r0; rewrite zlen_repeat by lia; congruence.
Qed.

Theorem app_in_term_resize tw measure rows cols t0 e fs :
  1 <= rows -> 1 <= cols -> size_ok rows cols ->
  TP.WFs0 e cols rows t0 -> vaxis_modes t0 = true -> start_ok t0 = true -> alt_plainb t0 = true ->
  emu_history_resize (fun _ => True) tw measure (vinit term_caps rows cols) rows cols t0 fs.
Proof.
  intros Hr Hc Hsz W M S A.
  destruct (start_rel e cols rows t0 W S) as (R & Q1 & Q2 & Q3 & Q4 & Q5 & Q6).
  assert (H : emu_history_resize (fun _ => True) tw measure (vinit term_caps rows cols)
                (tm_rows (ref_start t0)) (tm_cols (ref_start t0)) t0 fs).
  { apply (emu_history_resize_alt tw measure fs _ (ref_start t0) t0 e cols rows); auto.
    - now apply vinit_settled.
    - intros Hf; discriminate.
    - rewrite Q1, Q2. exact Hsz.
    - now apply alt_plainb_ok. }
  rewrite Q1, Q2 in H. exact H.
Qed.

Theorem app_in_term_resize_any tw measure rows cols t0 e fs :
  1 <= rows -> 1 <= cols -> size_ok rows cols ->
  TP.WFs0 e cols rows t0 -> vaxis_modes t0 = true -> start_ok t0 = true ->
  emu_history_resize (fun _ => True) tw measure (vinit term_caps rows cols) rows cols t0 fs.
Proof.
  intros Hr Hc Hsz W M S.
  destruct (start_rel e cols rows t0 W S) as (R & Q1 & Q2 & Q3 & Q4 & Q5 & Q6).
  assert (H : emu_history_resize (fun _ => True) tw measure (vinit term_caps rows cols)
                (tm_rows (ref_start t0)) (tm_cols (ref_start t0)) t0 fs).
  { apply (emu_history_resize_correct tw measure fs _ (ref_start t0) t0 e cols rows); auto.
    - now apply vinit_settled.
    - intros Hf; discriminate.
    - rewrite Q1, Q2. exact Hsz. }
  rewrite Q1, Q2 in H. exact H.
Qed.
