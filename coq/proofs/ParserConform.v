(* The interpreter over the translated tables is the reference step function. *)
From Vx Require Import base.Prelude model.ParserTypes gen.GenParser model.Parser model.Vt500Spec proofs.ParserTable.

(* ---- the interpreter over the tables is the reference step function (lenient ST) ---- *)

Lemma run_fn_table f r p :
  run_fn f r p =
  match find_clause (f_clauses f) r None with
  | None => None
  | Some c =>
      let '(p0, o0, _) := exec_acts (f_pre f) r p in
      let '(p1, o1, g) := exec_acts (c_acts c) r p0 in
      let '(p2, o2, _) := exec_acts (f_post f) r p1 in
      Some (p2, o0 ++ o1 ++ o2, match g with Some s => Some s | None => c_next c end)
  end.
Proof. reflexivity. Qed.

(* pre-actions never contain an early return *)
Definition no_goto (l : list act) : bool :=
  forallb (fun a => match a with AIfIgnoreSTGoto _ => false | _ => true end) l.

Lemma exec_acts_app l1 l2 r p :
  no_goto l1 = true ->
  exec_acts (l1 ++ l2) r p =
  let '(p1, o1, _) := exec_acts l1 r p in
  let '(p2, o2, g) := exec_acts l2 r p1 in (p2, o1 ++ o2, g).
Proof.
  revert p; induction l1 as [|a l1 IH]; intros p H; cbn [app].
  - cbn [exec_acts]. destruct (exec_acts l2 r p) as [[p2 o2] g]; reflexivity.
  - cbn [no_goto forallb] in H. apply andb_prop in H as [Ha Hl].
    destruct a; try discriminate; cbn [exec_acts];
      match goal with |- context [do_act ?a r p] => destruct (do_act a r p) as [p1 o1] end;
      rewrite IH by exact Hl;
      destruct (exec_acts l1 r p1) as [[p2 o2] g2];
      destruct (exec_acts l2 r p2) as [[p3 o3] g3]; now rewrite app_assoc.
Qed.

Lemma pre_no_goto s : no_goto (f_pre (state_fn s)) = true.
Proof. destruct s; reflexivity. Qed.

Theorem step_is_spec_step p r : step p r = spec_step false p r.
Proof.
  unfold step, spec_step. cbn [andb]. cbv zeta.
  remember (set_timer p false) as q eqn:Hq.
  rewrite !run_fn_table.
  pose proof (anywhere_conforms r) as Ha. unfold table_trans_fn in Ha.
  destruct anywhere_pre_post as [Hpre Hpost].
  destruct (find_clause (f_clauses fn_anywhere) r None) as [c|] eqn:Ec.
  - rewrite <- Ha. rewrite Hpre, Hpost. cbn [exec_acts app].
    unfold run_trans. cbn [fst snd app].
    destruct (exec_acts (c_acts c) r q) as [[p1 o1] g]. rewrite app_nil_r.
    destruct g; reflexivity.
  - rewrite <- Ha.
    pose proof (state_table_conforms (st q) r) as Hs. unfold table_trans_fn in Hs.
    destruct (find_clause (f_clauses (state_fn (st q))) r None) as [c|] eqn:Ec2; [|discriminate].
    injection Hs as Hs. rewrite <- Hs. unfold run_trans. cbn [fst snd].
    rewrite exec_acts_app by apply pre_no_goto.
    rewrite state_post_conforms.
    destruct (exec_acts (f_pre (state_fn (st q))) r q) as [[p0 o0] g0].
    destruct (exec_acts (c_acts c) r p0) as [[p1 o1] g1].
    destruct (exec_acts (spec_post (st q)) r p1) as [[p2 o2] g2].
    rewrite <- app_assoc.
    destruct g1; reflexivity.
Qed.

Lemma feed_is_spec_feed rs : forall p, feed p rs = spec_feed false p rs.
Proof.
  induction rs as [|r t IH]; intros p; cbn [feed spec_feed]; [reflexivity|].
  rewrite step_is_spec_step. destruct (spec_step false p r) as [[p1 o1] go].
  destruct go; [rewrite IH|]; reflexivity.
Qed.

Lemma timer_fire_is_spec p : timer_fire p = spec_timer_fire p.
Proof. unfold timer_fire, spec_timer_fire. destruct (timer p); reflexivity. Qed.

Lemma feed_segments_is_spec segs : forall p, feed_segments p segs = spec_feed_segments false p segs.
Proof.
  induction segs as [|s t IH]; intros p; cbn [feed_segments spec_feed_segments]; [reflexivity|].
  rewrite feed_is_spec_feed. destruct (spec_feed false p (decode_all s)) as [[p1 o1] go].
  destruct go; [|reflexivity]. destruct t as [|s2 t]; [reflexivity|].
  rewrite timer_fire_is_spec. destruct (spec_timer_fire p1) as [p2 o2].
  rewrite IH. reflexivity.
Qed.

Theorem parse_segments_is_spec segs : parse_segments segs = spec_parse_segments false segs.
Proof.
  unfold parse_segments, spec_parse_segments. rewrite feed_segments_is_spec.
  destruct (spec_feed_segments false pinit segs) as [[p o] go].
  destruct go; [|reflexivity]. unfold finish. rewrite step_is_spec_step.
  destruct (spec_step false p eof_rune) as [[p1 o1] g]. reflexivity.
Qed.

(* ---- where strict and lenient ST suppression can differ ---- *)
Theorem strict_differs_only_on_empty_string p r :
  ~ (r = 27 /\ is_string_state (st p) = true /\ ignoreST p = false) ->
  spec_step true p r = spec_step false p r.
Proof.
  intros H. unfold spec_step. cbn [andb].
  destruct (r =? 27) eqn:Er; [|reflexivity].
  apply Z.eqb_eq in Er.
  change (st (set_timer p false)) with (st p).
  destruct (is_string_state (st p)) eqn:Es; [|reflexivity].
  destruct (ignoreST p) eqn:Ei; [|exfalso; apply H; auto].
  replace (set_ignoreST (set_timer p false) true) with (set_timer p false); [reflexivity|].
  destruct p; cbn in *; subst; reflexivity.
Qed.
