(* C14 — proofs about model/Widgets.v: the layout contract of the built-in widgets. *)
From Vx Require Import base.Prelude base.ListX model.Surface model.Widgets proofs.SurfaceProofs.
From Coq Require Import ZifyBool.

Lemma u16_range x : 0 <= u16 x < 65536.
Proof. unfold u16; apply Z.mod_pos_bound; lia. Qed.

Lemma u16_small x : 0 <= x < 65536 -> u16 x = x.
Proof. intros H; unfold u16; apply Z.mod_small; exact H. Qed.

(* ------------------------------------------------------------------ findContainerSize *)

Lemma line_width_acc_range l : forall acc, 0 <= acc < 65536 ->
  0 <= fold_left (fun w (ch : wcell) => u16 (w + u16 (snd ch))) l acc < 65536.
Proof.
  induction l as [|c t IH]; intros acc H; cbn [fold_left]; [exact H|].
  apply IH, u16_range.
Qed.

Lemma line_width_range l : 0 <= line_width l < 65536.
Proof. apply line_width_acc_range; lia. Qed.

(* the loop invariant: 0 <= w <= maxw, 0 <= h <= maxh; and the height is exactly
   min(maxh, h + number of remaining lines) *)
Lemma container_size_inv lines maxw maxh : 0 <= maxw < 65536 -> 0 <= maxh < 65536 ->
  forall w h, 0 <= w <= maxw -> 0 <= h <= maxh ->
  let '(w', h') := container_size lines maxw maxh w h in
  0 <= w' <= maxw /\ h' = Z.min maxh (h + zlen lines).
Proof.
  intros Hmw Hmh. induction lines as [|l t IH]; intros w h Hw Hh; cbn [container_size].
  - split; [lia | unfold zlen; cbn [length Z.of_nat]; lia].
  - rewrite zlen_cons. pose proof (zlen_nonneg t) as Hn.
    destruct (h >=? maxh) eqn:E; [split; lia|].
    rewrite (u16_small (h + 1)) by lia.
    pose proof (line_width_range l) as Hl.
    set (w1 := if w <? line_width l then line_width l else w).
    set (w2 := if w1 >? maxw then maxw else w1).
    assert (Hw2 : 0 <= w2 <= maxw) by (subst w2 w1; destruct (w <? line_width l) eqn:E1;
      [destruct (line_width l >? maxw) eqn:E2 | destruct (w >? maxw) eqn:E2]; lia).
    specialize (IH w2 (h + 1) Hw2 ltac:(lia)).
    destruct (container_size t maxw maxh w2 (h + 1)) as [w' h'].
    destruct IH as [IH1 IH2]; split; [exact IH1 | lia].
Qed.

Lemma container_size_spec lines maxw maxh : 0 <= maxw < 65536 -> 0 <= maxh < 65536 ->
  let '(w, h) := container_size lines maxw maxh 0 0 in
  0 <= w <= maxw /\ h = Z.min maxh (zlen lines).
Proof.
  intros Hmw Hmh. pose proof (container_size_inv lines maxw maxh Hmw Hmh 0 0 ltac:(lia) ltac:(lia)) as H.
  destruct (container_size lines maxw maxh 0 0); exact H.
Qed.

(* the code before the fix returned max+1 rows: 4 lines under Max.Height = 2 *)
Lemma old_container_size_refuted :
  container_size_old [[(4, 1)]; [(5, 1)]; [(6, 1)]; [(7, 1)]] 10 2 0 0 = (1, 3).
Proof. vm_compute; reflexivity. Qed.

(* ------------------------------------------------------------------ painting keeps the shape *)

Definition keeps (s s' : wsurface) : Prop :=
  wf_tree s' /\ s_w s' = s_w s /\ s_h s' = s_h s /\ s_kids s' = s_kids s.

Lemma keeps_refl s : wf_tree s -> keeps s s.
Proof. intros H; repeat split; auto. Qed.

Lemma keeps_trans a b c : keeps a b -> keeps b c -> keeps a c.
Proof. unfold keeps; intros (?&?&?&?) (?&?&?&?); repeat split; congruence. Qed.

Lemma write_cell_keeps (s : wsurface) col row c :
  wf_tree s -> 0 <= col -> 0 <= row -> exists s', write_cell s col row c = Some s' /\ keeps s s'.
Proof.
  intros H Hc Hr. destruct (write_cell_wf_tree s col row c H Hc Hr) as (s' & E & ? & ? & ? & ?).
  exists s'; repeat split; assumption.
Qed.

Lemma draw_trunc_line_keeps chars : forall (s : wsurface) col row maxw,
  wf_tree s -> 0 <= col -> 0 <= row ->
  exists s', draw_trunc_line s chars col row maxw = Some s' /\ keeps s s'.
Proof.
  induction chars as [|[g cw] t IH]; intros s col row maxw Hwf Hc Hr; cbn [draw_trunc_line].
  - exists s; split; [reflexivity | apply keeps_refl, Hwf].
  - destruct (col >=? maxw); [exists s; split; [reflexivity | apply keeps_refl, Hwf]|].
    destruct (u16 (col + u16 cw) >=? maxw).
    + apply write_cell_keeps; assumption.
    + destruct (write_cell_keeps s col row (g, cw) Hwf Hc Hr) as (s1 & E1 & K1). rewrite E1.
      destruct (IH s1 (u16 (col + u16 cw)) row maxw (proj1 K1) (proj1 (u16_range _)) Hr) as (s2 & E2 & K2).
      exists s2; split; [exact E2 | eapply keeps_trans; eassumption].
Qed.

Lemma draw_wrap_line_keeps chars : forall (s : wsurface) col row maxw,
  wf_tree s -> 0 <= col -> 0 <= row ->
  exists s', draw_wrap_line s chars col row maxw = Some s' /\ keeps s s'.
Proof.
  induction chars as [|[g cw] t IH]; intros s col row maxw Hwf Hc Hr; cbn [draw_wrap_line].
  - exists s; split; [reflexivity | apply keeps_refl, Hwf].
  - destruct (col >=? maxw); [exists s; split; [reflexivity | apply keeps_refl, Hwf]|].
    destruct (write_cell_keeps s col row (g, cw) Hwf Hc Hr) as (s1 & E1 & K1). rewrite E1.
    destruct (IH s1 (u16 (col + u16 cw)) row maxw (proj1 K1) (proj1 (u16_range _)) Hr) as (s2 & E2 & K2).
    exists s2; split; [exact E2 | eapply keeps_trans; eassumption].
Qed.

Lemma draw_lines_keeps soft lines : forall (s : wsurface) row maxw maxh,
  wf_tree s -> 0 <= row ->
  exists s', draw_lines soft s lines row maxw maxh = Some s' /\ keeps s s'.
Proof.
  induction lines as [|l t IH]; intros s row maxw maxh Hwf Hr; cbn [draw_lines].
  - exists s; split; [reflexivity | apply keeps_refl, Hwf].
  - destruct (row >? maxh); [exists s; split; [reflexivity | apply keeps_refl, Hwf]|].
    assert (H1 : exists s1, (if soft then draw_wrap_line s l 0 row maxw else draw_trunc_line s l 0 row maxw) = Some s1 /\ keeps s s1).
    { destruct soft; [apply draw_wrap_line_keeps | apply draw_trunc_line_keeps]; auto; lia. }
    destruct H1 as (s1 & E1 & K1). rewrite E1.
    destruct (IH s1 (u16 (row + 1)) maxw maxh (proj1 K1) (proj1 (u16_range _))) as (s2 & E2 & K2).
    exists s2; split; [exact E2 | eapply keeps_trans; eassumption].
Qed.

(* ------------------------------------------------------------------ text / richtext *)

(* Draw of Text/RichText for every list of lines, every character width, every constraint:
   no panic, a well-formed surface, width within the maximum and height exactly
   min(Max.Height, number of lines). *)
Lemma text_draw_spec soft lines maxw maxh : 0 <= maxw < 65536 -> 0 <= maxh < 65536 ->
  exists s, text_draw soft lines maxw maxh = DOk s /\ wf_tree s /\
            0 <= s_w s <= maxw /\ s_h s = Z.min maxh (zlen lines) /\ s_kids s = [].
Proof.
  intros Hmw Hmh. unfold text_draw.
  pose proof (container_size_spec lines maxw maxh Hmw Hmh) as Hcs.
  destruct (container_size lines maxw maxh 0 0) as [w h]. destruct Hcs as [Hw Hh].
  pose proof (zlen_nonneg lines) as Hn.
  assert (Hwf0 : wf_tree (fill (fun c : wcell => c) (new_surface wblank w h))).
  { apply fill_wf_tree, new_surface_wf_tree; lia. }
  destruct (draw_lines_keeps soft lines _ 0 maxw maxh Hwf0 ltac:(lia)) as (s' & E & K).
  rewrite E. exists s'. destruct K as (K1 & K2 & K3 & K4).
  split; [reflexivity|]. split; [exact K1|].
  rewrite K2, K3, K4. cbn. repeat split; lia.
Qed.

(* ------------------------------------------------------------------ center *)

(* the centring arithmetic, in uint16 as in the code: if the child fits, it lies inside and
   the right (bottom) margin exceeds the left (top) margin by 0 or 1 *)
Lemma center_offset maxv cv : 0 <= cv <= maxv -> maxv < 65536 ->
  let off := u16 (maxv - cv) / 2 in
  0 <= off /\ off + cv <= maxv /\ 0 <= (maxv - cv - off) - off <= 1.
Proof.
  intros H1 H2. rewrite u16_small by lia. cbv zeta.
  pose proof (Z.div_mod (maxv - cv) 2 ltac:(lia)) as Hd.
  pose proof (Z.mod_pos_bound (maxv - cv) 2 ltac:(lia)) as Hm. lia.
Qed.

(* when the child does not fit the unsigned subtraction wraps: the offset is >= 32768 - cv/2,
   e.g. a 3-row child in 2 rows is placed at row 32767 *)
Lemma center_offset_misfit : u16 (2 - 3) / 2 = 32767.
Proof. vm_compute; reflexivity. Qed.

Lemma center_draw_spec (child : Z -> Z -> cres) maxw maxh :
  0 <= maxw < 65535 -> 0 <= maxh < 65535 ->
  match child maxw maxh with
  | CPanic => center_draw child maxw maxh = DPanic
  | CErr => center_draw child maxw maxh = DOk empty_surface
  | COk chS =>
      exists s, center_draw child maxw maxh = DOk s /\ s_w s = maxw /\ s_h s = maxh /\
                wf_node s /\
                s_kids s = [(u16 (maxw - s_w chS) / 2, u16 (maxh - s_h chS) / 2, 0, chS)]
  end.
Proof.
  intros Hw Hh. unfold center_draw.
  replace ((maxh =? 65535) || (maxw =? 65535)) with false by lia.
  destruct (child maxw maxh) as [| |chS]; try reflexivity.
  cbv zeta.
  exists (add_child (new_surface wblank maxw maxh) (u16 (maxw - s_w chS) / 2) (u16 (maxh - s_h chS) / 2) chS).
  split; [reflexivity|].
  destruct (add_child_shape (new_surface wblank maxw maxh) (u16 (maxw - s_w chS) / 2) (u16 (maxh - s_h chS) / 2) chS)
    as (E1 & E2 & E3 & E4).
  unfold wf_node. rewrite E1, E2, E3, E4. cbn [new_surface s_w s_h s_kids s_buf app].
  repeat split; try lia. rewrite zlen_repeat by nia. lia.
Qed.

Lemma empty_surface_wf : wf_tree empty_surface.
Proof. apply wf_tree_intro; [unfold wf_node; cbn; lia | constructor]. Qed.

Lemma center_draw_ok (child : Z -> Z -> cres) maxw maxh chS :
  0 <= maxw < 65535 -> 0 <= maxh < 65535 -> child maxw maxh = COk chS -> wf_tree chS ->
  exists s, center_draw child maxw maxh = DOk s /\ wf_tree s /\ s_w s = maxw /\ s_h s = maxh /\
            s_kids s = [(u16 (maxw - s_w chS) / 2, u16 (maxh - s_h chS) / 2, 0, chS)].
Proof.
  intros Hw Hh Ec Hc. pose proof (center_draw_spec child maxw maxh Hw Hh) as H. rewrite Ec in H.
  destruct H as (s & E & E1 & E2 & Hn & Ek). exists s; repeat split; try assumption.
  apply wf_tree_intro; [exact Hn|]. rewrite Ek. constructor; [exact Hc | constructor].
Qed.

(* ------------------------------------------------------------------ button *)

Lemma button_draw_spec lines maxw maxh : 0 <= maxw < 65535 -> 0 <= maxh < 65535 ->
  exists s chS, button_draw lines maxw maxh = DOk s /\ wf_tree s /\ s_w s = maxw /\ s_h s = maxh /\
    s_kids s = [(u16 (maxw - s_w chS) / 2, u16 (maxh - s_h chS) / 2, 0, chS)] /\
    wf_tree chS /\ 0 <= s_w chS <= maxw /\ 0 <= s_h chS <= maxh.
Proof.
  intros Hw Hh. unfold button_draw.
  replace ((maxh =? 65535) || (maxw =? 65535)) with false by lia.
  destruct (text_draw_spec true lines maxw maxh ltac:(lia) ltac:(lia)) as (chS & Et & Hc & Hcw & Hch & _).
  destruct (center_draw_ok (fun mw mh => cres_of (text_draw true lines mw mh)) maxw maxh chS Hw Hh) as (s & E & Hs & E1 & E2 & Ek).
  { cbv beta. rewrite Et. reflexivity. } { exact Hc. }
  rewrite E. exists (fill (fun c : wcell => c) s), chS.
  destruct (fill_shape (fun c : wcell => c) s) as (F1 & F2 & F3).
  rewrite F1, F2, F3. pose proof (zlen_nonneg lines).
  repeat split; try assumption; try lia. apply fill_wf_tree, Hs.
Qed.

(* ------------------------------------------------------------------ textfield *)

Lemma field_loop_keeps chars : forall (s : wsurface) col, wf_tree s -> 0 <= col ->
  exists s', field_loop s chars col = Some s' /\ keeps s s'.
Proof.
  induction chars as [|[g cw] t IH]; intros s col Hwf Hc; cbn [field_loop].
  - exists s; split; [reflexivity | apply keeps_refl, Hwf].
  - destruct (write_cell_keeps s col 0 (g, cw) Hwf Hc ltac:(lia)) as (s1 & E1 & K1). rewrite E1.
    destruct (IH s1 (u16 (col + u16 cw)) (proj1 K1) (proj1 (u16_range _))) as (s2 & E2 & K2).
    exists s2; split; [exact E2 | eapply keeps_trans; eassumption].
Qed.

Lemma field_draw_spec chars maxw maxh : 0 <= maxw < 65536 -> 0 <= maxh < 65536 ->
  exists s, field_draw chars maxw maxh = DOk s /\ wf_tree s /\
            0 <= s_w s <= maxw /\ 0 <= s_h s <= maxh /\
            (maxw <> 0 -> maxh <> 0 -> s_w s = maxw /\ s_h s = 1).
Proof.
  intros Hw Hh. unfold field_draw. destruct ((maxw =? 0) || (maxh =? 0)) eqn:E.
  - exists empty_surface; split; [reflexivity|]. split; [apply empty_surface_wf|]. cbn; repeat split; lia.
  - destruct (field_loop_keeps chars (new_surface wblank maxw 1) 0) as (s & Es & K & K1 & K2 & K3).
    { apply new_surface_wf_tree; lia. } { lia. }
    rewrite Es. exists s; split; [reflexivity|]. split; [exact K|]. rewrite K1, K2. cbn. repeat split; lia.
Qed.

(* ------------------------------------------------------------------ list.Dynamic (initial state) *)

Definition dres_wf (r : dres) : Prop := match r with DOk c => wf_tree c | DPanic => True end.

Lemma list_loop_spec rs : forall (s : wsurface) off ah gap maxh,
  wf_tree s -> Forall dres_wf rs ->
  match list_loop s rs off ah gap maxh with
  | Some s' => wf_tree s' /\ s_w s' = s_w s /\ s_h s' = s_h s
  | None => In DPanic rs
  end.
Proof.
  induction rs as [|r t IH]; intros s off ah gap maxh Hs Hrs; cbn [list_loop].
  - auto.
  - inversion Hrs as [|? ? Hr Ht]; subst. destruct r as [|chS]; [left; reflexivity|].
    cbn [dres_wf] in Hr.
    pose proof (add_child_wf_tree s off ah chS Hs Hr) as Hs'.
    destruct (add_child_shape s off ah chS) as (A1 & A2 & _ & _).
    destruct (ah + s_h chS + gap >=? maxh); [repeat split; assumption|].
    specialize (IH (add_child s off ah chS) off (ah + s_h chS + gap) gap maxh Hs' Ht).
    destruct (list_loop (add_child s off ah chS) t off (ah + s_h chS + gap) gap maxh).
    + destruct IH as (I1 & I2 & I3); repeat split; [exact I1 | congruence | congruence].
    + right; exact IH.
Qed.

Lemma gutter_keeps n : forall (s : wsurface) row, wf_tree s -> 0 <= row ->
  exists s', gutter s n row = Some s' /\ keeps s s'.
Proof.
  induction n as [|n IH]; intros s row Hs Hr; cbn [gutter].
  - exists s; split; [reflexivity | apply keeps_refl, Hs].
  - destruct (write_cell_keeps s 0 row (g_space, 1) Hs ltac:(lia) Hr) as (s1 & E1 & K1). rewrite E1.
    destruct (write_cell_keeps s1 1 row (g_space, 1) (proj1 K1) ltac:(lia) Hr) as (s2 & E2 & K2). rewrite E2.
    destruct (IH s2 (row + 1) (proj1 K2) ltac:(lia)) as (s3 & E3 & K3).
    exists s3; split; [exact E3 | eapply keeps_trans; [eapply keeps_trans|]; eassumption].
Qed.

Lemma cursor_col_keeps n : forall (s : wsurface) row, wf_tree s -> 0 <= row ->
  exists s', cursor_col s n row = Some s' /\ keeps s s'.
Proof.
  induction n as [|n IH]; intros s row Hs Hr; cbn [cursor_col].
  - exists s; split; [reflexivity | apply keeps_refl, Hs].
  - destruct (write_cell_keeps s 0 row (g_cursor, 1) Hs ltac:(lia) Hr) as (s1 & E1 & K1). rewrite E1.
    destruct (IH s1 (row + 1) (proj1 K1) ltac:(lia)) as (s3 & E3 & K3).
    exists s3; split; [exact E3 | eapply keeps_trans; eassumption].
Qed.

Lemma list_finish_spec drawcur (s : wsurface) maxw : wf_tree s -> 0 <= maxw < 65536 ->
  exists s', list_finish drawcur s maxw = Some s' /\ wf_tree s' /\ s_w s' = s_w s /\ s_h s' = s_h s.
Proof.
  intros Hs Hw. unfold list_finish. destruct drawcur; cbn [negb].
  2:{ exists s; repeat split; auto. }
  destruct (gutter_keeps (Z.to_nat (s_h s)) s 0 Hs ltac:(lia)) as (s1 & E1 & K1 & K2 & K3 & K4). rewrite E1.
  destruct (s_kids s1) as [|[[[c0 r0] z0] ch] rest] eqn:Ek.
  - exists s1; repeat split; assumption.
  - pose proof (wf_tree_kids s1 K1) as Hk. rewrite Ek in Hk. inversion Hk as [|? ? Hch Hrest]; subst.
    cbn [kid_surf] in Hch. pose proof (wf_tree_node ch Hch) as (Hcw & Hchh & _).
    destruct (cursor_col_keeps (Z.to_nat (s_h ch)) (new_surface wblank maxw (s_h ch)) 0) as (cur & Ec & C1 & _).
    { apply new_surface_wf_tree; lia. } { lia. }
    rewrite Ec. eexists; split; [reflexivity|]. cbn [s_w s_h]. split; [|split; assumption].
    apply wf_tree_unfold; split.
    + pose proof (wf_tree_node s1 K1) as Hn. unfold wf_node in *. cbn [s_w s_h s_buf]. exact Hn.
    + constructor; [cbn [kid_surf]; apply add_child_wf_tree; assumption | exact Hrest].
Qed.

(* ------------------------------------------------------------------ every widget tree *)

Lemma wspec_ind' (P : wspec -> Prop) :
  (forall r s l, P (WText r s l)) -> (forall c, P c -> P (WCenter c)) ->
  (forall l, P (WButton l)) -> (forall c, P (WField c)) ->
  (forall d g items, Forall P items -> P (WList d g items)) -> forall w, P w.
Proof.
  intros H1 H2 H3 H4 H5. fix IH 1. intros [r s l|c|l|c|d g items].
  - apply H1. - apply H2, IH. - apply H3. - apply H4.
  - apply H5. induction items as [|i t IHt]; constructor; [apply IH | apply IHt].
Qed.

Lemma contract_panic_needs_bounded ws maxw maxh :
  contract_panic ws maxw maxh = true -> needs_bounded ws = true.
Proof. destruct ws; cbn; auto; discriminate. Qed.

(* The layout contract for every tree of built-in widgets and every constraint:
   Draw panics only where a widget that documents "bounded constraints required" receives an
   unbounded one; otherwise it returns a well-formed surface tree no larger than the maximum. *)
Definition draw_contract (ws : wspec) (maxw maxh : Z) : Prop :=
  match draw ws maxw maxh with
  | DOk s => wf_tree s /\ 0 <= s_w s <= maxw /\ 0 <= s_h s <= maxh
  | DPanic => contract_panic ws maxw maxh = true
  end.

Lemma draw_contract_all : forall ws maxw maxh,
  0 <= maxw < 65536 -> 0 <= maxh < 65536 -> draw_contract ws maxw maxh.
Proof.
  induction ws as [r soft lines|ch IH|lines|chars|drawcur gap items IH] using wspec_ind';
    intros maxw maxh Hw Hh; unfold draw_contract.
  - cbn [draw]. destruct (text_draw_spec soft lines maxw maxh Hw Hh) as (s & E & Hs & Hsw & Hsh & _).
    rewrite E. pose proof (zlen_nonneg lines). repeat split; try assumption; lia.
  - cbn [draw contract_panic].
    destruct ((maxh =? 65535) || (maxw =? 65535)) eqn:Eu.
    + unfold center_draw. rewrite Eu. reflexivity.
    + specialize (IH maxw maxh Hw Hh). unfold draw_contract in IH.
      destruct (draw ch maxw maxh) as [|chS] eqn:Ed.
      * pose proof (center_draw_spec (fun mw mh => cres_of (draw ch mw mh)) maxw maxh ltac:(lia) ltac:(lia)) as H.
        cbv beta in H. rewrite Ed in H. cbn [cres_of] in H. rewrite H. cbn [orb]. exact IH.
      * destruct (center_draw_ok (fun mw mh => cres_of (draw ch mw mh)) maxw maxh chS ltac:(lia) ltac:(lia))
          as (s & E & Hs & E1 & E2 & _).
        { cbv beta. rewrite Ed. reflexivity. } { apply IH. }
        rewrite E. repeat split; try assumption; lia.
  - cbn [draw contract_panic].
    destruct ((maxh =? 65535) || (maxw =? 65535)) eqn:Eu.
    + unfold button_draw. rewrite Eu. reflexivity.
    + destruct (button_draw_spec lines maxw maxh ltac:(lia) ltac:(lia)) as (s & chS & E & Hs & E1 & E2 & _).
      rewrite E. repeat split; try assumption; lia.
  - cbn [draw]. destruct (field_draw_spec chars maxw maxh Hw Hh) as (s & E & Hs & H1 & H2 & _).
    rewrite E. repeat split; try assumption; lia.
  - cbn [draw contract_panic].
    destruct ((maxh =? 65535) || (maxw =? 65535)) eqn:Eu; [reflexivity|]. cbn [orb].
    set (off := if drawcur then 2 else 0).
    set (rs := map (fun it => draw it (u16 (maxw - off)) 65535) items).
    assert (Hrs : Forall dres_wf rs).
    { subst rs. apply Forall_map. eapply Forall_impl; [|exact IH]. intros it Hit.
      specialize (Hit (u16 (maxw - off)) 65535 (u16_range _) ltac:(lia)). unfold draw_contract in Hit.
      destruct (draw it (u16 (maxw - off)) 65535); cbn [dres_wf]; tauto. }
    pose proof (list_loop_spec rs (new_surface wblank maxw maxh) off 0 gap maxh
                  (new_surface_wf_tree wblank maxw maxh Hw Hh) Hrs) as Hl.
    destruct (list_loop (new_surface wblank maxw maxh) rs off 0 gap maxh) as [s|].
    + destruct Hl as (L1 & L2 & L3).
      destruct (list_finish_spec drawcur s maxw L1 Hw) as (s' & E & F1 & F2 & F3). rewrite E.
      cbn [new_surface s_w s_h] in L2, L3. repeat split; try assumption; lia.
    + subst rs. apply in_map_iff in Hl. destruct Hl as (it & Hd & Hin).
      rewrite Forall_forall in IH. specialize (IH it Hin (u16 (maxw - off)) 65535 (u16_range _) ltac:(lia)).
      unfold draw_contract in IH. rewrite Hd in IH.
      apply existsb_exists. exists it; split; [exact Hin|].
      eapply contract_panic_needs_bounded; exact IH.
Qed.

(* ------------------------------------------------------------------ centring *)

(* Center for an arbitrary child widget (any function of the constraint) that honours the
   contract: the child is the single sub-surface, placed inside, margins equal within one *)
Lemma center_margins (child : Z -> Z -> cres) maxw maxh chS :
  0 <= maxw < 65535 -> 0 <= maxh < 65535 -> child maxw maxh = COk chS ->
  0 <= s_w chS <= maxw -> 0 <= s_h chS <= maxh ->
  exists s offX offY, center_draw child maxw maxh = DOk s /\ s_w s = maxw /\ s_h s = maxh /\
    s_kids s = [(offX, offY, 0, chS)] /\
    0 <= offX /\ offX + s_w chS <= maxw /\ 0 <= (maxw - s_w chS - offX) - offX <= 1 /\
    0 <= offY /\ offY + s_h chS <= maxh /\ 0 <= (maxh - s_h chS - offY) - offY <= 1.
Proof.
  intros Hw Hh Ec Hcw Hch.
  pose proof (center_draw_spec child maxw maxh Hw Hh) as H. rewrite Ec in H.
  destruct H as (s & E & E1 & E2 & _ & Ek).
  exists s, (u16 (maxw - s_w chS) / 2), (u16 (maxh - s_h chS) / 2).
  pose proof (center_offset maxw (s_w chS) Hcw ltac:(lia)) as Hx.
  pose proof (center_offset maxh (s_h chS) Hch ltac:(lia)) as Hy.
  cbv zeta in Hx, Hy. repeat split; try assumption; lia.
Qed.

(* Center over any tree of built-in widgets: the child always fits *)
Lemma center_builtin_margins ch maxw maxh chS :
  0 <= maxw < 65535 -> 0 <= maxh < 65535 -> draw ch maxw maxh = DOk chS ->
  exists s offX offY, draw (WCenter ch) maxw maxh = DOk s /\ s_w s = maxw /\ s_h s = maxh /\
    s_kids s = [(offX, offY, 0, chS)] /\
    0 <= offX /\ offX + s_w chS <= maxw /\ 0 <= (maxw - s_w chS - offX) - offX <= 1 /\
    0 <= offY /\ offY + s_h chS <= maxh /\ 0 <= (maxh - s_h chS - offY) - offY <= 1.
Proof.
  intros Hw Hh Ed.
  pose proof (draw_contract_all ch maxw maxh ltac:(lia) ltac:(lia)) as Hc. unfold draw_contract in Hc.
  rewrite Ed in Hc. destruct Hc as (_ & Hcw & Hch).
  cbn [draw]. apply center_margins; try assumption. cbv beta. rewrite Ed. reflexivity.
Qed.

Lemma button_margins lines maxw maxh :
  0 <= maxw < 65535 -> 0 <= maxh < 65535 ->
  exists s offX offY chS, button_draw lines maxw maxh = DOk s /\ s_w s = maxw /\ s_h s = maxh /\
    s_kids s = [(offX, offY, 0, chS)] /\ text_draw true lines maxw maxh = DOk chS /\
    0 <= offX /\ offX + s_w chS <= maxw /\ 0 <= (maxw - s_w chS - offX) - offX <= 1 /\
    0 <= offY /\ offY + s_h chS <= maxh /\ 0 <= (maxh - s_h chS - offY) - offY <= 1.
Proof.
  intros Hw Hh. unfold button_draw.
  replace ((maxh =? 65535) || (maxw =? 65535)) with false by lia.
  destruct (text_draw_spec true lines maxw maxh ltac:(lia) ltac:(lia)) as (chS & Et & Hc & Hcw & Hch & _).
  pose proof (zlen_nonneg lines) as Hn.
  destruct (center_margins (fun mw mh => cres_of (text_draw true lines mw mh)) maxw maxh chS Hw Hh)
    as (s & offX & offY & E & E1 & E2 & Ek & M).
  { cbv beta. rewrite Et. reflexivity. } { exact Hcw. } { lia. }
  rewrite E. exists (fill (fun c : wcell => c) s), offX, offY, chS.
  destruct (fill_shape (fun c : wcell => c) s) as (F1 & F2 & F3). rewrite F1, F2, F3.
  repeat split; try assumption; tauto.
Qed.

(* ------------------------------------------------------------------ the model meets draw_ok *)

Lemma wsparse_inc l : forall i prev, prev < i -> sp_increasing prev (wsparse i l) = true.
Proof.
  induction l as [|c t IH]; intros i prev H; cbn [wsparse sp_increasing]; [reflexivity|].
  destruct (wcell_eqb c wblank); [apply IH; lia|].
  cbn [sp_increasing]. rewrite IH by lia. lia.
Qed.

Lemma wsparse_bound l : forall i n, i + zlen l <= n ->
  forallb (fun p : Z * wcell => fst p <? n) (wsparse i l) = true.
Proof.
  induction l as [|c t IH]; intros i n H; cbn [wsparse forallb]; [reflexivity|].
  rewrite zlen_cons in H. pose proof (zlen_nonneg t).
  destruct (wcell_eqb c wblank); [apply IH; lia|].
  cbn [forallb fst]. rewrite IH by lia. lia.
Qed.

Lemma observe_shape (s : wsurface) : o_w (observe s) = s_w s /\ o_h (observe s) = s_h s /\
  o_kids (observe s) = map (fun k : Z * Z * Z * wsurface => let '(c, r, z, ch) := k in (c, r, z, observe ch)) (s_kids s).
Proof. destruct s; cbn; auto. Qed.

Lemma observe_wf : forall s : wsurface, wf_tree s -> otree_wf (observe s) = true.
Proof.
  induction s as [w h buf kids IH] using surface_ind'. intros Hwf.
  apply wf_tree_unfold in Hwf. destruct Hwf as ((Hw & Hh & Hl) & Hk). cbn [s_w s_h s_buf] in *.
  cbn [observe otree_wf].
  rewrite wsparse_inc by lia. rewrite wsparse_bound by lia.
  replace ((0 <=? w) && (w <? 65536) && (0 <=? h) && (h <? 65536) && (zlen buf =? w * h)) with true by lia.
  cbn [andb]. rewrite forallb_forall. intros k Hin. apply in_map_iff in Hin.
  destruct Hin as ([[[c r] z] ch] & <- & Hin).
  rewrite Forall_forall in IH, Hk. apply (IH _ Hin), (Hk _ Hin).
Qed.

Lemma centred_ok pw ph offX offY (chS : wsurface) :
  0 <= offX -> offX + s_w chS <= pw -> 0 <= (pw - s_w chS - offX) - offX <= 1 ->
  0 <= offY -> offY + s_h chS <= ph -> 0 <= (ph - s_h chS - offY) - offY <= 1 ->
  centred pw ph (offX, offY, 0, observe chS) = true.
Proof.
  intros. unfold centred. destruct (observe_shape chS) as (-> & -> & _). lia.
Qed.

(* ---- list.Dynamic: every item surface is within the width the list passed to the item *)

Definition item_surf (drawcur : bool) (k : Z * Z * Z * wsurface) : wsurface :=
  if drawcur && (kid_col k =? 0)
  then match s_kids (kid_surf k) with [k'] => kid_surf k' | _ => kid_surf k end
  else kid_surf k.

Lemma item_tree_observe drawcur c r z (ch : wsurface) :
  o_w (item_tree drawcur (c, r, z, observe ch)) = s_w (item_surf drawcur (c, r, z, ch)).
Proof.
  unfold item_tree, item_surf. cbn [kid_col kid_surf].
  destruct (observe_shape ch) as (Ew & _ & Ek).
  destruct (drawcur && (c =? 0)); [|exact Ew].
  rewrite Ek. destruct (s_kids ch) as [|[[[c1 r1] z1] ch1] [|k2 rest]]; cbn [map]; try exact Ew.
  cbn [kid_otree kid_surf]. apply observe_shape.
Qed.

Definition dres_within (W : Z) (r : dres) : Prop := match r with DOk c => s_w c <= W | DPanic => True end.
Definition placed (off W : Z) (k : Z * Z * Z * wsurface) : Prop := kid_col k = off /\ s_w (kid_surf k) <= W.

Lemma list_loop_placed rs W : forall (s s' : wsurface) off ah gap maxh,
  Forall (dres_within W) rs -> Forall (placed off W) (s_kids s) ->
  list_loop s rs off ah gap maxh = Some s' -> Forall (placed off W) (s_kids s').
Proof.
  induction rs as [|r t IH]; intros s s' off ah gap maxh Hrs Hk; cbn [list_loop].
  - intros E; injection E as <-. exact Hk.
  - inversion Hrs as [|? ? Hr Ht]; subst. destruct r as [|chS]; [discriminate|]. cbn [dres_within] in Hr.
    assert (Hk1 : Forall (placed off W) (s_kids (add_child s off ah chS))).
    { destruct (add_child_shape s off ah chS) as (_ & _ & _ & ->). apply Forall_app; split; [exact Hk|].
      constructor; [split; [reflexivity | exact Hr] | constructor]. }
    destruct (ah + s_h chS + gap >=? maxh).
    + intros E; injection E as <-. exact Hk1.
    + intros E. exact (IH _ _ _ _ _ _ Ht Hk1 E).
Qed.

Lemma placed_item_surf drawcur W k : placed (list_off drawcur) W k -> s_w (item_surf drawcur k) <= W.
Proof.
  intros [Hc Hw]. unfold item_surf. rewrite Hc. destruct drawcur; cbn [list_off andb Z.eqb]; exact Hw.
Qed.

Lemma list_finish_items drawcur (s s' : wsurface) maxw W : wf_tree s -> 0 <= maxw < 65536 ->
  list_finish drawcur s maxw = Some s' -> Forall (placed (list_off drawcur) W) (s_kids s) ->
  Forall (fun k => s_w (item_surf drawcur k) <= W) (s_kids s').
Proof.
  intros Hs Hw. unfold list_finish. destruct drawcur; cbn [negb].
  2:{ intros E Hk; injection E as <-. eapply Forall_impl; [|exact Hk]. apply placed_item_surf. }
  destruct (gutter_keeps (Z.to_nat (s_h s)) s 0 Hs ltac:(lia)) as (s1 & E1 & K1 & _ & _ & Hk1). rewrite E1.
  rewrite <- Hk1.
  destruct (s_kids s1) as [|[[[c0 r0] z0] ch] rest] eqn:Ek.
  - intros E _; injection E as <-. rewrite Ek. constructor.
  - pose proof (wf_tree_kids s1 K1) as Hkk. rewrite Ek in Hkk. inversion Hkk as [|? ? Hch Hrest]; subst.
    cbn [kid_surf] in Hch. pose proof (wf_tree_node ch Hch) as (Hcw & Hchh & _).
    destruct (cursor_col_keeps (Z.to_nat (s_h ch)) (new_surface wblank maxw (s_h ch)) 0) as (cur & Ec & _ & _ & _ & Ck).
    { apply new_surface_wf_tree; lia. } { lia. }
    rewrite Ec. intros E Hk; injection E as <-. cbn [s_kids].
    inversion Hk as [|? ? [_ Hw0] Hr]; subst. cbn [kid_surf] in Hw0. constructor.
    + unfold item_surf. cbn [kid_col kid_surf andb Z.eqb].
      destruct (add_child_shape cur 2 0 ch) as (_ & _ & _ & ->). rewrite Ck. cbn [new_surface s_kids app kid_surf].
      exact Hw0.
    + eapply Forall_impl; [|exact Hr]. apply (placed_item_surf true).
Qed.

Lemma items_within (items : list wspec) W :
  0 <= W < 65536 -> Forall (dres_within W) (map (fun it => draw it W 65535) items).
Proof.
  intros HW. apply Forall_map. apply Forall_forall. intros it _.
  pose proof (draw_contract_all it W 65535 HW ltac:(lia)) as Hit. unfold draw_contract in Hit.
  destruct (draw it W 65535); cbn [dres_within]; [exact I | lia].
Qed.

Lemma items_wf (items : list wspec) W :
  0 <= W < 65536 -> Forall dres_wf (map (fun it => draw it W 65535) items).
Proof.
  intros HW. apply Forall_map. apply Forall_forall. intros it _.
  pose proof (draw_contract_all it W 65535 HW ltac:(lia)) as Hit. unfold draw_contract in Hit.
  destruct (draw it W 65535); cbn [dres_wf]; tauto.
Qed.

Lemma list_kids_ok drawcur W (s : wsurface) :
  Forall (fun k => s_w (item_surf drawcur k) <= W) (s_kids s) ->
  forallb (fun k => o_w (item_tree drawcur k) <=? W) (o_kids (observe s)) = true.
Proof.
  intros H. destruct (observe_shape s) as (_ & _ & ->).
  apply forallb_forall. intros k Hin. apply in_map_iff in Hin. destruct Hin as ([[[c r] z] ch] & <- & Hin).
  rewrite Forall_forall in H. specialize (H _ Hin). rewrite item_tree_observe. lia.
Qed.

(* every widget of the drawn tree is within the maximum it was given, Center/Button centre *)
Lemma tree_ok_draw : forall ws maxw maxh s, 0 <= maxw < 65536 -> 0 <= maxh < 65536 ->
  draw ws maxw maxh = DOk s -> tree_ok ws maxw maxh (observe s) = true.
Proof.
  induction ws as [r soft lines|ch IH|lines|chars|drawcur gap items];
    intros maxw maxh s Hw Hh Ed;
    match type of Ed with draw ?w _ _ = _ => pose proof (draw_contract_all w maxw maxh Hw Hh) as Hc end;
    unfold draw_contract in Hc; rewrite Ed in Hc; destruct Hc as (Hwf & Hsw & Hsh);
    cbn [tree_ok]; destruct (observe_shape s) as (Eow & Eoh & Ek); rewrite Eow, Eoh;
    replace ((s_w s <=? maxw) && (s_h s <=? maxh)) with true by lia; cbn [andb]; try reflexivity.
  - (* Center *)
    cbn [draw] in Ed.
    destruct ((maxh =? 65535) || (maxw =? 65535)) eqn:Eu; [unfold center_draw in Ed; rewrite Eu in Ed; discriminate|].
    destruct (draw ch maxw maxh) as [|chS] eqn:Edc.
    + pose proof (center_draw_spec (fun mw mh => cres_of (draw ch mw mh)) maxw maxh ltac:(lia) ltac:(lia)) as H.
      cbv beta in H. rewrite Edc in H. cbn [cres_of] in H. congruence.
    + destruct (center_builtin_margins ch maxw maxh chS ltac:(lia) ltac:(lia) Edc)
        as (s2 & offX & offY & E2 & E3 & E4 & Ek2 & M).
      cbn [draw] in E2. rewrite E2 in Ed. injection Ed as <-.
      rewrite Ek, Ek2. cbn [map kid_otree]. rewrite E3, E4.
      rewrite centred_ok by tauto. cbn [andb]. apply IH; assumption.
  - (* Button *)
    cbn [draw] in Ed.
    destruct ((maxh =? 65535) || (maxw =? 65535)) eqn:Eu; [unfold button_draw in Ed; rewrite Eu in Ed; discriminate|].
    destruct (button_margins lines maxw maxh ltac:(lia) ltac:(lia))
      as (s2 & offX & offY & chS & E2 & E3 & E4 & Ek2 & _ & M).
    rewrite E2 in Ed. injection Ed as <-.
    rewrite Ek, Ek2. cbn [map]. rewrite E3, E4. apply centred_ok; tauto.
  - (* list.Dynamic *)
    cbn [draw] in Ed.
    destruct ((maxh =? 65535) || (maxw =? 65535)) eqn:Eu; [discriminate|].
    fold (list_off drawcur) in Ed.
    set (W := u16 (maxw - list_off drawcur)) in *.
    assert (HW : 0 <= W < 65536) by apply u16_range.
    pose proof (new_surface_wf_tree wblank maxw maxh Hw Hh) as Hs0.
    pose proof (list_loop_spec _ (new_surface wblank maxw maxh) (list_off drawcur) 0 gap maxh Hs0 (items_wf items W HW)) as Hl.
    destruct (list_loop (new_surface wblank maxw maxh) _ (list_off drawcur) 0 gap maxh) as [s1|] eqn:El; [|discriminate].
    destruct Hl as (L1 & _ & _).
    destruct (list_finish drawcur s1 maxw) as [s2|] eqn:Ef; [|discriminate]. injection Ed as <-.
    apply list_kids_ok.
    eapply list_finish_items; [exact L1 | exact Hw | exact Ef|].
    eapply list_loop_placed; [apply (items_within items W HW) | | exact El]. constructor.
Qed.

(* for every input the model's own observation passes the decidable contract check that the
   differential run applies to the implementation's observations *)
Lemma draw_run_ok ws maxw maxh : 0 <= maxw < 65536 -> 0 <= maxh < 65536 ->
  draw_ok ((ws, maxw, maxh), draw_run (ws, maxw, maxh)) = true.
Proof.
  intros Hw Hh. unfold draw_ok, draw_run.
  pose proof (draw_contract_all ws maxw maxh Hw Hh) as Hc. unfold draw_contract in Hc.
  destruct (draw ws maxw maxh) as [|s] eqn:Ed.
  - cbn. exact Hc.
  - destruct Hc as (Hwf & _).
    replace (0 =? 1) with false by reflexivity.
    rewrite (observe_wf s Hwf), (tree_ok_draw ws maxw maxh s Hw Hh Ed). reflexivity.
Qed.

(* no panic at all for Text, RichText and TextField, and none for a Center/Button under bounded
   constraints *)
Lemma no_panic_leaves : forall rich soft lines chars maxw maxh,
  0 <= maxw < 65536 -> 0 <= maxh < 65536 ->
  draw (WText rich soft lines) maxw maxh <> DPanic /\ draw (WField chars) maxw maxh <> DPanic /\
  (maxw < 65535 -> maxh < 65535 ->
   draw (WCenter (WText rich soft lines)) maxw maxh <> DPanic /\ draw (WButton lines) maxw maxh <> DPanic).
Proof.
  intros rich soft lines chars maxw maxh Hw Hh.
  pose proof (draw_contract_all (WText rich soft lines) maxw maxh Hw Hh) as H1.
  pose proof (draw_contract_all (WField chars) maxw maxh Hw Hh) as H2.
  pose proof (draw_contract_all (WCenter (WText rich soft lines)) maxw maxh Hw Hh) as H3.
  pose proof (draw_contract_all (WButton lines) maxw maxh Hw Hh) as H4.
  unfold draw_contract in *.
  split; [intros E; rewrite E in H1; discriminate|].
  split; [intros E; rewrite E in H2; discriminate|].
  intros Hbw Hbh.
  assert (Hu : (maxh =? 65535) || (maxw =? 65535) = false) by lia.
  split; intros E; [rewrite E in H3 | rewrite E in H4]; cbn [contract_panic] in *; rewrite Hu in *; discriminate.
Qed.
