(* C14 — proofs about model/Widgets.v: the layout contract of the built-in widgets. *)
From Vx Require Import base.Prelude base.ListX model.Surface model.Widgets proofs.SurfaceProofs.
From Coq Require Import ZifyBool.

Lemma u16_range x : 0 <= u16 x < 65536.
Proof. unfold u16; apply Z.mod_pos_bound; lia. Qed.

Lemma u16_small x : 0 <= x < 65536 -> u16 x = x.
Proof. intros H; unfold u16; apply Z.mod_small; exact H. Qed.

(* ------------------------------------------------------------------ findContainerSize *)

Lemma line_width_acc_range l : forall acc, 0 <= acc < 65536 ->
  0 <= fold_left (fun w (ch : wcell) => u16 (w + u16 (snd ch))) l acc < 65536.
Proof.
  induction l as [|c t IH]; intros acc H; cbn [fold_left]; [exact H|].
  apply IH, u16_range.
Qed.

Lemma line_width_range l : 0 <= line_width l < 65536.
Proof. apply line_width_acc_range; lia. Qed.

(* the loop invariant: 0 <= w <= maxw, 0 <= h <= maxh; and the height is exactly
   min(maxh, h + number of remaining lines) *)
Lemma container_size_inv lines maxw maxh : 0 <= maxw < 65536 -> 0 <= maxh < 65536 ->
  forall w h, 0 <= w <= maxw -> 0 <= h <= maxh ->
  let '(w', h') := container_size lines maxw maxh w h in
  0 <= w' <= maxw /\ h' = Z.min maxh (h + zlen lines).
Proof.
  intros Hmw Hmh. induction lines as [|l t IH]; intros w h Hw Hh; cbn [container_size].
  - split; [lia | unfold zlen; cbn [length Z.of_nat]; lia].
  - rewrite zlen_cons. pose proof (zlen_nonneg t) as Hn.
    destruct (h >=? maxh) eqn:E; [split; lia|].
    rewrite (u16_small (h + 1)) by lia.
    pose proof (line_width_range l) as Hl.
    set (w1 := if w <? line_width l then line_width l else w).
    set (w2 := if w1 >? maxw then maxw else w1).
    assert (Hw2 : 0 <= w2 <= maxw) by (subst w2 w1; destruct (w <? line_width l) eqn:E1;
      [destruct (line_width l >? maxw) eqn:E2 | destruct (w >? maxw) eqn:E2]; lia).
    specialize (IH w2 (h + 1) Hw2 ltac:(lia)).
    destruct (container_size t maxw maxh w2 (h + 1)) as [w' h'].
    destruct IH as [IH1 IH2]; split; [exact IH1 | lia].
Qed.

Lemma container_size_spec lines maxw maxh : 0 <= maxw < 65536 -> 0 <= maxh < 65536 ->
  let '(w, h) := container_size lines maxw maxh 0 0 in
  0 <= w <= maxw /\ h = Z.min maxh (zlen lines).
Proof.
  intros Hmw Hmh. pose proof (container_size_inv lines maxw maxh Hmw Hmh 0 0 ltac:(lia) ltac:(lia)) as H.
  destruct (container_size lines maxw maxh 0 0); exact H.
Qed.

(* the code before the fix returned max+1 rows: 4 lines under Max.Height = 2 *)
Lemma old_container_size_refuted :
  container_size_old [[(4, 1)]; [(5, 1)]; [(6, 1)]; [(7, 1)]] 10 2 0 0 = (1, 3).
Proof. vm_compute; reflexivity. Qed.

(* ------------------------------------------------------------------ painting keeps the shape *)

Definition keeps (s s' : wsurface) : Prop :=
  wf_tree s' /\ s_w s' = s_w s /\ s_h s' = s_h s /\ s_kids s' = s_kids s.

Lemma keeps_refl s : wf_tree s -> keeps s s.
Proof. intros H; repeat split; auto. Qed.

Lemma keeps_trans a b c : keeps a b -> keeps b c -> keeps a c.
Proof. unfold keeps; intros (?&?&?&?) (?&?&?&?); repeat split; congruence. Qed.

Lemma write_cell_keeps (s : wsurface) col row c :
  wf_tree s -> 0 <= col -> 0 <= row -> exists s', write_cell s col row c = Some s' /\ keeps s s'.
Proof.
  intros H Hc Hr. destruct (write_cell_wf_tree s col row c H Hc Hr) as (s' & E & ? & ? & ? & ?).
  exists s'; repeat split; assumption.
Qed.

Lemma draw_trunc_line_keeps chars : forall (s : wsurface) col row maxw,
  wf_tree s -> 0 <= col -> 0 <= row ->
  exists s', draw_trunc_line s chars col row maxw = Some s' /\ keeps s s'.
Proof.
  induction chars as [|[g cw] t IH]; intros s col row maxw Hwf Hc Hr; cbn [draw_trunc_line].
  - exists s; split; [reflexivity | apply keeps_refl, Hwf].
  - destruct (col >=? maxw); [exists s; split; [reflexivity | apply keeps_refl, Hwf]|].
    destruct (u16 (col + u16 cw) >=? maxw).
    + apply write_cell_keeps; assumption.
    + destruct (write_cell_keeps s col row (g, cw) Hwf Hc Hr) as (s1 & E1 & K1). rewrite E1.
      destruct (IH s1 (u16 (col + u16 cw)) row maxw (proj1 K1) (proj1 (u16_range _)) Hr) as (s2 & E2 & K2).
      exists s2; split; [exact E2 | eapply keeps_trans; eassumption].
Qed.

Lemma draw_wrap_line_keeps chars : forall (s : wsurface) col row maxw,
  wf_tree s -> 0 <= col -> 0 <= row ->
  exists s', draw_wrap_line s chars col row maxw = Some s' /\ keeps s s'.
Proof.
  induction chars as [|[g cw] t IH]; intros s col row maxw Hwf Hc Hr; cbn [draw_wrap_line].
  - exists s; split; [reflexivity | apply keeps_refl, Hwf].
  - destruct (col >=? maxw); [exists s; split; [reflexivity | apply keeps_refl, Hwf]|].
    destruct (write_cell_keeps s col row (g, cw) Hwf Hc Hr) as (s1 & E1 & K1). rewrite E1.
    destruct (IH s1 (u16 (col + u16 cw)) row maxw (proj1 K1) (proj1 (u16_range _)) Hr) as (s2 & E2 & K2).
    exists s2; split; [exact E2 | eapply keeps_trans; eassumption].
Qed.

Lemma draw_lines_keeps soft lines : forall (s : wsurface) row maxw maxh,
  wf_tree s -> 0 <= row ->
  exists s', draw_lines soft s lines row maxw maxh = Some s' /\ keeps s s'.
Proof.
  induction lines as [|l t IH]; intros s row maxw maxh Hwf Hr; cbn [draw_lines].
  - exists s; split; [reflexivity | apply keeps_refl, Hwf].
  - destruct (row >? maxh); [exists s; split; [reflexivity | apply keeps_refl, Hwf]|].
    assert (H1 : exists s1, (if soft then draw_wrap_line s l 0 row maxw else draw_trunc_line s l 0 row maxw) = Some s1 /\ keeps s s1).
    { destruct soft; [apply draw_wrap_line_keeps | apply draw_trunc_line_keeps]; auto; lia. }
    destruct H1 as (s1 & E1 & K1). rewrite E1.
    destruct (IH s1 (u16 (row + 1)) maxw maxh (proj1 K1) (proj1 (u16_range _))) as (s2 & E2 & K2).
    exists s2; split; [exact E2 | eapply keeps_trans; eassumption].
Qed.

(* ------------------------------------------------------------------ text / richtext *)

(* Draw of Text/RichText for every list of lines, every character width, every constraint:
   no panic, a well-formed surface, width within the maximum and height exactly
   min(Max.Height, number of lines). *)
Lemma text_draw_spec soft lines maxw maxh : 0 <= maxw < 65536 -> 0 <= maxh < 65536 ->
  exists s, text_draw soft lines maxw maxh = DOk s /\ wf_tree s /\
            0 <= s_w s <= maxw /\ s_h s = Z.min maxh (zlen lines) /\ s_kids s = [].
Proof.
  intros Hmw Hmh. unfold text_draw.
  pose proof (container_size_spec lines maxw maxh Hmw Hmh) as Hcs.
  destruct (container_size lines maxw maxh 0 0) as [w h]. destruct Hcs as [Hw Hh].
  pose proof (zlen_nonneg lines) as Hn.
  assert (Hwf0 : wf_tree (fill (fun c : wcell => c) (new_surface wblank w h))).
  { apply fill_wf_tree, new_surface_wf_tree; lia. }
  destruct (draw_lines_keeps soft lines _ 0 maxw maxh Hwf0 ltac:(lia)) as (s' & E & K).
  rewrite E. exists s'. destruct K as (K1 & K2 & K3 & K4).
  split; [reflexivity|]. split; [exact K1|].
  rewrite K2, K3, K4. cbn. repeat split; lia.
Qed.

(* ------------------------------------------------------------------ center *)

(* the centring arithmetic, in uint16 as in the code: if the child fits, it lies inside and
   the right (bottom) margin exceeds the left (top) margin by 0 or 1 *)
Lemma center_offset maxv cv : 0 <= cv <= maxv -> maxv < 65536 ->
  let off := u16 (maxv - cv) / 2 in
  0 <= off /\ off + cv <= maxv /\ 0 <= (maxv - cv - off) - off <= 1.
Proof.
  intros H1 H2. rewrite u16_small by lia. cbv zeta.
  pose proof (Z.div_mod (maxv - cv) 2 ltac:(lia)) as Hd.
  pose proof (Z.mod_pos_bound (maxv - cv) 2 ltac:(lia)) as Hm. lia.
Qed.

(* when the child does not fit the unsigned subtraction wraps: the offset is >= 32768 - cv/2,
   e.g. a 3-row child in 2 rows is placed at row 32767 *)
Lemma center_offset_misfit : u16 (2 - 3) / 2 = 32767.
Proof. vm_compute; reflexivity. Qed.

Lemma center_draw_spec (child : Z -> Z -> cres) maxw maxh :
  0 <= maxw < 65535 -> 0 <= maxh < 65535 ->
  match child maxw maxh with
  | CPanic => center_draw child maxw maxh = DPanic
  | CErr => center_draw child maxw maxh = DOk empty_surface
  | COk chS =>
      exists s, center_draw child maxw maxh = DOk s /\ s_w s = maxw /\ s_h s = maxh /\
                wf_node s /\
                s_kids s = [(u16 (maxw - s_w chS) / 2, u16 (maxh - s_h chS) / 2, 0, chS)]
  end.
Proof.
  intros Hw Hh. unfold center_draw.
  replace ((maxh =? 65535) || (maxw =? 65535)) with false by lia.
  destruct (child maxw maxh) as [| |chS]; try reflexivity.
  cbv zeta.
  exists (add_child (new_surface wblank maxw maxh) (u16 (maxw - s_w chS) / 2) (u16 (maxh - s_h chS) / 2) chS).
  split; [reflexivity|].
  destruct (add_child_shape (new_surface wblank maxw maxh) (u16 (maxw - s_w chS) / 2) (u16 (maxh - s_h chS) / 2) chS)
    as (E1 & E2 & E3 & E4).
  unfold wf_node. rewrite E1, E2, E3, E4. cbn [new_surface s_w s_h s_kids s_buf app].
  repeat split; try lia. rewrite zlen_repeat by nia. lia.
Qed.
