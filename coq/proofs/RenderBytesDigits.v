(* Decimal rendering (strconv) against the parser's parameter decoder: a control sequence
   whose parameter string is the decimal rendering of numbers, joined by ':' and ';', decodes
   to exactly those numbers. *)
From Coq Require Import Lia ZifyBool.
From Vx Require Import base.Prelude base.ListX model.ParserTypes model.Parser model.RenderTypes
  model.RenderCheck model.RenderBytes proofs.ParserSem.
Ltac Zify.zify_post_hook ::= Z.div_mod_to_equations.

Definition dd (n : Z) : list Z := dec_digits 20 n.
Definition small (n : Z) : Prop := 0 <= n < 9223372036854775808.

Lemma rdec_dd n : 0 <= n -> rdec n = dd n.
Proof. intros H. unfold rdec, dd. destruct (n <? 0) eqn:E; [lia|reflexivity]. Qed.

Lemma i64_small x : small x -> i64 x = x.
Proof. unfold small, i64. intros H. cbv zeta. destruct (_ <? _) eqn:E; lia. Qed.

Lemma dec_digits_S f n : dec_digits (S f) n = if n <? 10 then [48 + n] else dec_digits f (n / 10) ++ [48 + n mod 10].
Proof. reflexivity. Qed.

(* every character is a digit, and there is at least one *)
Lemma dec_digits_digits f : forall n, 0 <= n -> Forall (fun r => 48 <= r <= 57) (dec_digits f n).
Proof.
  induction f as [|f IH]; intros n Hn; [constructor|].
  rewrite dec_digits_S. destruct (n <? 10) eqn:E.
  - constructor; [lia|constructor].
  - apply Forall_app. split; [apply IH; lia|]. constructor; [lia|constructor].
Qed.

Lemma dec_digits_nonempty f n : dec_digits (S f) n <> [].
Proof.
  rewrite dec_digits_S. destruct (n <? 10); [discriminate|].
  intros H. apply app_eq_nil in H. destruct H as [_ H]. discriminate.
Qed.

Lemma dd_digits n : 0 <= n -> Forall (fun r => 48 <= r <= 57) (dd n).
Proof. apply dec_digits_digits. Qed.
Lemma dd_nonempty n : dd n <> [].
Proof. apply dec_digits_nonempty. Qed.

(* the parameter decoder reads a decimal rendering back *)
Lemma csi_params_digit d t ps cur acc : 48 <= d <= 57 ->
  csi_params (d :: t) ps cur acc = csi_params t (i64 (i64 (ps * 10) + (d - 48))) cur acc.
Proof.
  intros H. cbn [csi_params]. destruct (d =? 59) eqn:E1; [lia|]. destruct (d =? 58) eqn:E2; [lia|]. reflexivity.
Qed.

Lemma csi_params_dec f : forall n rest cur acc,
  small n -> n < 10 ^ Z.of_nat f ->
  csi_params (dec_digits f n ++ rest) 0 cur acc = csi_params rest n cur acc.
Proof.
  induction f as [|f IH]; intros n rest cur acc Hs Hf.
  - cbn in Hf. unfold small in Hs. assert (n = 0) by lia. subst. reflexivity.
  - rewrite dec_digits_S. destruct (n <? 10) eqn:E.
    + cbn [app]. rewrite csi_params_digit by (unfold small in Hs; lia).
      f_equal. unfold small in Hs. rewrite (i64_small (0 * 10)) by (unfold small; lia).
      rewrite i64_small by (unfold small; lia). lia.
    + rewrite <- app_assoc. cbn [app].
      assert (Hp : 10 ^ Z.of_nat (S f) = 10 * 10 ^ Z.of_nat f).
      { rewrite Nat2Z.inj_succ, Z.pow_succ_r by lia. reflexivity. }
      unfold small in Hs.
      rewrite IH by (unfold small; lia).
      rewrite csi_params_digit by lia. f_equal.
      rewrite (i64_small (n / 10 * 10)) by (unfold small; lia).
      rewrite i64_small by (unfold small; lia). lia.
Qed.

Lemma csi_params_dd n rest cur acc : small n ->
  csi_params (dd n ++ rest) 0 cur acc = csi_params rest n cur acc.
Proof.
  intros H. apply csi_params_dec; [exact H|]. unfold small in H.
  change (Z.of_nat 20) with 20. lia.
Qed.

(* sub-parameters joined by ':', parameters joined by ';' *)
Fixpoint sub_str (p : list Z) : list Z :=
  match p with [] => [] | [n] => dd n | n :: t => dd n ++ 58 :: sub_str t end.
Fixpoint pstr (ps : list (list Z)) : list Z :=
  match ps with [] => [] | [p] => sub_str p | p :: t => sub_str p ++ 59 :: pstr t end.

Lemma sub_str_chars p : Forall small p -> Forall (fun r => 48 <= r <= 59) (sub_str p).
Proof.
  induction p as [|n t IH]; intros H; [constructor|].
  inversion H as [|? ? Hn Ht]; subst.
  assert (Hd : Forall (fun r => 48 <= r <= 59) (dd n)).
  { eapply Forall_impl; [|apply dd_digits; unfold small in Hn; lia]. cbn. intros; lia. }
  destruct t as [|m t']; [exact Hd|].
  change (sub_str (n :: m :: t')) with (dd n ++ 58 :: sub_str (m :: t')).
  apply Forall_app. split; [exact Hd|]. constructor; [lia|]. apply IH. exact Ht.
Qed.

Lemma pstr_chars ps : Forall (Forall small) ps -> Forall (fun r => 48 <= r <= 59) (pstr ps).
Proof.
  induction ps as [|p t IH]; intros H; [constructor|].
  inversion H as [|? ? Hp Ht]; subst.
  destruct t as [|q t']; [apply sub_str_chars; exact Hp|].
  change (pstr (p :: q :: t')) with (sub_str p ++ 59 :: pstr (q :: t')).
  apply Forall_app. split; [apply sub_str_chars; exact Hp|]. constructor; [lia|]. apply IH. exact Ht.
Qed.

Lemma csi_params_sub p : forall rest cur acc, p <> [] -> Forall small p ->
  csi_params (sub_str p ++ rest) 0 cur acc = csi_params rest (last p 0) (cur ++ removelast p) acc.
Proof.
  induction p as [|n t IH]; intros rest cur acc Hne H; [congruence|].
  inversion H as [|? ? Hn Ht]; subst.
  destruct t as [|m t'].
  - cbn [sub_str last removelast]. rewrite app_nil_r. apply csi_params_dd. exact Hn.
  - change (sub_str (n :: m :: t')) with (dd n ++ 58 :: sub_str (m :: t')).
    rewrite <- app_assoc. rewrite csi_params_dd by exact Hn.
    cbn [app csi_params]. change (58 =? 59) with false. change (58 =? 58) with true. cbv iota.
    rewrite IH by (try discriminate; exact Ht).
    change (last (n :: m :: t') 0) with (last (m :: t') 0).
    change (removelast (n :: m :: t')) with (n :: removelast (m :: t')).
    rewrite <- app_assoc. reflexivity.
Qed.

Lemma csi_params_pstr ps : forall acc, ps <> [] -> Forall (fun p => p <> []) ps -> Forall (Forall small) ps ->
  csi_params (pstr ps) 0 [] acc = acc ++ ps.
Proof.
  induction ps as [|p t IH]; intros acc Hne Hn Hs; [congruence|].
  inversion Hn as [|? ? Hp Hnt]; subst. inversion Hs as [|? ? Hsp Hst]; subst.
  destruct t as [|q t'].
  - cbn [pstr]. rewrite <- (app_nil_r (sub_str p)). rewrite csi_params_sub by assumption.
    cbn [csi_params app]. rewrite <- app_removelast_last by exact Hp. reflexivity.
  - change (pstr (p :: q :: t')) with (sub_str p ++ 59 :: pstr (q :: t')).
    rewrite csi_params_sub by assumption.
    cbn [csi_params app]. change (59 =? 59) with true. cbv iota.
    rewrite <- app_removelast_last by exact Hp.
    rewrite IH by (try discriminate; assumption). rewrite <- app_assoc. reflexivity.
Qed.

Lemma pstr_nonempty ps : ps <> [] -> Forall (fun p => p <> []) ps -> pstr ps <> [].
Proof.
  intros Hne Hn. destruct ps as [|p t]; [congruence|]. inversion Hn as [|? ? Hp _]; subst.
  assert (Hs : sub_str p <> []).
  { destruct p as [|n u]; [congruence|]. destruct u; cbn [sub_str]; [apply dd_nonempty|].
    intros H. apply app_eq_nil in H. destruct H as [H _]. revert H. apply dd_nonempty. }
  destruct t; cbn [pstr]; [exact Hs|]. intros H. apply app_eq_nil in H. destruct H as [H _]. auto.
Qed.

Theorem csi_decode_pstr ps : ps <> [] -> Forall (fun p => p <> []) ps -> Forall (Forall small) ps ->
  csi_decode (pstr ps) = ps.
Proof.
  intros Hne Hn Hs. unfold csi_decode.
  destruct (pstr ps) eqn:E; [exfalso; revert E; apply pstr_nonempty; assumption|].
  rewrite <- E. apply (csi_params_pstr ps [] Hne Hn Hs).
Qed.

(* atoi reads a decimal rendering back *)
Lemma fold_digits f : forall n a, 0 <= n -> n < 10 ^ Z.of_nat f ->
  fold_left (fun a d => a * 10 + (d - 48)) (dec_digits f n) a = a * 10 ^ Z.of_nat (length (dec_digits f n)) + n.
Proof.
  induction f as [|f IH]; intros n a Hn Hf.
  - cbn [dec_digits fold_left length]. change (Z.of_nat 0) with 0 in *. rewrite Z.pow_0_r in *. lia.
  - rewrite dec_digits_S. destruct (n <? 10) eqn:E.
    + cbn [fold_left length]. change (Z.of_nat 1) with 1. lia.
    + assert (Hp : 10 ^ Z.of_nat (S f) = 10 * 10 ^ Z.of_nat f).
      { rewrite Nat2Z.inj_succ, Z.pow_succ_r by lia. reflexivity. }
      rewrite fold_left_app. rewrite IH by lia. cbn [fold_left].
      rewrite app_length. cbn [length]. rewrite Nat.add_1_r, Nat2Z.inj_succ, Z.pow_succ_r by lia. lia.
Qed.

Lemma atoi_dd n : small n -> atoi (dd n) = Some n.
Proof.
  intros Hs. unfold atoi. destruct (dd n) eqn:E; [exfalso; revert E; apply dd_nonempty|]. rewrite <- E.
  assert (Hd : forallb is_digit (dd n) = true).
  { apply forallb_forall. intros x Hx. pose proof (dd_digits n ltac:(unfold small in Hs; lia)) as F.
    rewrite Forall_forall in F. specialize (F x Hx). unfold is_digit, in_range. lia. }
  rewrite Hd. f_equal. unfold dd. rewrite fold_digits; [lia|unfold small in Hs; lia|].
  unfold small in Hs. change (Z.of_nat 20) with 20. lia.
Qed.

Lemma dd_no_semi n : 0 <= n -> Forall (fun r => r <> 59) (dd n).
Proof. intros H. eapply Forall_impl; [|apply dd_digits; exact H]. cbn. intros; lia. Qed.
