(* C10, Part F — proofs over model/ConcLock.v *)
From Vx Require Import base.Prelude gen.GenAccess model.ConcLock.
Local Open Scope nat_scope.

Lemma lrun_app : forall N blk a b s,
  lrun N blk (a ++ b) s = match lrun N blk a s with Some s' => lrun N blk b s' | None => None end.
Proof.
  induction a as [|l a IH]; intros b s; simpl; [reflexivity|].
  destruct (lstep N blk l s); [apply IH|reflexivity].
Qed.

(* mutual exclusion of the mutex *)
Definition lmutex (s : lstate) : Prop := ~ (lwk s = WHold /\ ldr s = DIn).

Lemma lmutex_step : forall N blk l s s', lmutex s -> lstep N blk l s = Some s' -> lmutex s'.
Proof.
  intros N blk l s s' M H. unfold lmutex in *. destruct s as [q w d]. destruct l; simpl in *.
  - destruct w, d; inversion H; subst; simpl; intros [A B]; discriminate.
  - destruct w; [discriminate|]. destruct (Nat.ltb q N); [|destruct blk; [discriminate|]]; inversion H; subst; simpl; intros [A B]; discriminate.
  - destruct (Nat.ltb q N); [|discriminate]. inversion H; subst; simpl. exact M.
  - destruct d; inversion H; subst; simpl; intros [A B]; discriminate.
  - destruct d, w; inversion H; subst; simpl; intros [A B]; discriminate.
  - destruct d; inversion H; subst; simpl; intros [A B]; discriminate.
  - destruct d, q; inversion H; subst; simpl; intros [A B]; discriminate.
Qed.

Lemma lmutex_reach : forall N blk s, lreach N blk s -> lmutex s.
Proof.
  intros N blk s [tr H]. revert s H. induction tr as [|l tr IH] using rev_ind; intros s H.
  - simpl in H. inversion H; subst. unfold lmutex, linit. simpl. intros [A _]. discriminate.
  - rewrite lrun_app in H. destruct (lrun N blk tr (linit)) as [s1|] eqn:E1; [|discriminate]. simpl in H.
    destruct (lstep N blk l s1) as [s2|] eqn:E2; [|discriminate]. inversion H; subst. eapply lmutex_step; [apply IH; reflexivity|exact E2].
Qed.

(* With the non-blocking post under the lock: whenever the main goroutine is waiting for the mutex in
   Draw, it can take it now, or the worker's next step (its post) is enabled whatever the state of the
   queue and releases the mutex; inside Draw it can always return.  No deadlock, for every queue size,
   every fill level, every schedule. *)
Theorem lock_progress : forall N s, lreach N false s ->
  (ldr s = DWant ->
     (exists s', lstep N false LDLock s = Some s' /\ ldr s' = DIn) \/
     (exists s1 s2, lstep N false LWPost s = Some s1 /\ lstep N false LDLock s1 = Some s2 /\ ldr s2 = DIn)) /\
  (ldr s = DIn -> exists s', lstep N false LDUnlock s = Some s' /\ ldr s' = DPoll).
Proof.
  intros N s R. destruct s as [q w d]. split; simpl; intros Hd; subst d.
  - destruct w.
    + left. eexists. split; reflexivity.
    + right. destruct (Nat.ltb q N); eexists; eexists; (split; [reflexivity|split; reflexivity]).
  - eexists. split; reflexivity.
Qed.

Lemma lfill_run : forall N blk k q w d, q + k <= N ->
  lrun N blk (repeat LFill k) (mkLS q w d) = Some (mkLS (q + k) w d).
Proof.
  induction k as [|k IH]; intros q w d H; simpl.
  - rewrite Nat.add_0_r. reflexivity.
  - assert (L : Nat.ltb q N = true) by (apply Nat.ltb_lt; lia). rewrite L. simpl. rewrite IH by lia. f_equal. f_equal. lia.
Qed.

(* With PostEventBlocking under the lock the deadlock is reachable for every queue size: the queue is
   filled, the worker ticks and waits for room holding the mutex, main calls Draw and waits for the
   mutex: no step of anybody is enabled any more, so Draw never returns on any continuation. *)
Theorem lock_blocking_refuted : forall N,
  exists s, lrun N true (repeat LFill N ++ [LTick; LDraw]) (linit) = Some s /\ ldr s = DWant /\
            (forall l, lstep N true l s = None) /\
            (forall tr s', lrun N true tr s = Some s' -> ldr s' = DWant).
Proof.
  intros N. exists (mkLS N WHold DWant).
  assert (Stuck : forall l, lstep N true l (mkLS N WHold DWant) = None).
  { intros l. destruct l; simpl; try reflexivity; rewrite Nat.ltb_irrefl; reflexivity. }
  split.
  - rewrite lrun_app. unfold linit. rewrite (lfill_run N true N 0 WIdle DPoll) by lia. simpl. reflexivity.
  - split; [reflexivity|]. split; [exact Stuck|].
    intros tr s' H. destruct tr as [|l tr]; simpl in H; [inversion H; reflexivity|]. rewrite Stuck in H. discriminate.
Qed.

(* the translated table: no post under a lock is a blocking one *)
Lemma gen_no_blocking_under_lock : gen_blocking_under_lock = false.
Proof. vm_compute. reflexivity. Qed.

Lemma lock_exec_nonblocking : forall N, lock_exec N false = true.
Proof.
  intros N. unfold lock_exec.
  set (s1 := fold_left (fun s _ => ltry N false LFill s) (repeat tt N) linit).
  assert (H : lwk s1 = WIdle /\ ldr s1 = DPoll).
  { unfold s1. assert (G : forall k s, lwk s = WIdle /\ ldr s = DPoll -> lwk (fold_left (fun s _ => ltry N false LFill s) (repeat tt k) s) = WIdle /\ ldr (fold_left (fun s _ => ltry N false LFill s) (repeat tt k) s) = DPoll).
    { induction k; intros s H; simpl; [exact H|]. apply IHk. unfold ltry. simpl. destruct (Nat.ltb (lqn s) N); simpl; exact H. }
    apply G. split; reflexivity. }
  destruct s1 as [q w d]. simpl in H. destruct H; subst. unfold ltry. simpl.
  destruct (Nat.ltb q N); simpl; reflexivity.
Qed.
