(* The pen delta of the renderer is correct: interpreting emit_delta pen n on a terminal whose
   pen shows [pen] leaves it showing [n] (for every pair of styles, every capability set),
   and touches nothing else. *)
From Vx Require Import base.Prelude base.ListX model.Colour model.RenderTypes model.Render model.RefTerm model.RenderSpec.

Lemma zlist_eqb_eq a b : zlist_eqb a b = true <-> a = b.
Proof.
  unfold zlist_eqb. revert b; induction a as [|x a IH]; intros [|y b]; cbn [list_eqb]; split; intros H;
    try reflexivity; try discriminate.
  - apply andb_prop in H as [H1 H2]. apply Z.eqb_eq in H1. apply IH in H2. congruence.
  - injection H as -> ->. apply andb_true_intro; split; [apply Z.eqb_refl|now apply IH].
Qed.

Lemma zlist_eqb_refl a : zlist_eqb a a = true.
Proof. now apply zlist_eqb_eq. Qed.

(* ---------- attributes: a finite domain (uint8 x uint8), closed by computation ---------- *)
Definition sgr_attr_z (a n : Z) : Z := t_attr (sgr_plain {| t_fg := []; t_bg := []; t_ul := []; t_uls := 0; t_attr := a |} n).

Fixpoint zrange_l (n : nat) (from : Z) : list Z :=
  match n with O => [] | S k => from :: zrange_l k (from + 1) end.

Lemma zrange_l_In n : forall from x, from <= x < from + Z.of_nat n -> In x (zrange_l n from).
Proof.
  induction n as [|n IH]; intros from x H; [lia|]. cbn [zrange_l].
  destruct (Z.eq_dec x from) as [->|Hne]; [now left|right]. apply IH. lia.
Qed.

Definition attr_pair_ok (a b : Z) : bool :=
  fold_left sgr_attr_z (attr_codes a b) (a - a mod 2) =? b - b mod 2.

Lemma attr_pairs_all :
  forallb (fun a => forallb (attr_pair_ok a) (zrange_l 256 0)) (zrange_l 256 0) = true.
Proof. vm_compute. reflexivity. Qed.

Lemma attr_codes_correct a b :
  0 <= a < 256 -> 0 <= b < 256 ->
  fold_left sgr_attr_z (attr_codes a b) (a - a mod 2) = b - b mod 2.
Proof.
  intros Ha Hb. pose proof attr_pairs_all as H. rewrite forallb_forall in H.
  specialize (H a (zrange_l_In 256 0 a ltac:(lia))). rewrite forallb_forall in H.
  specialize (H b (zrange_l_In 256 0 b ltac:(lia))). now apply Z.eqb_eq in H.
Qed.

(* attribute codes never are 4 or 24, so they leave everything but t_attr alone *)
Lemma attr_codes_range a b : Forall (fun n => n <> 4 /\ n <> 24) (attr_codes a b).
Proof.
  unfold attr_codes. destruct (a =? b); [constructor|].
  repeat (apply Forall_app; split); unfold whenz;
    repeat match goal with |- context [if ?c then _ else _] => destruct c end;
    repeat constructor; lia.
Qed.

Lemma sgr_plain_attr_only p n :
  n <> 4 -> n <> 24 ->
  sgr_plain p n = {| t_fg := t_fg p; t_bg := t_bg p; t_ul := t_ul p; t_uls := t_uls p;
                     t_attr := sgr_attr_z (t_attr p) n |}.
Proof.
  intros H4 H24. unfold sgr_attr_z, sgr_plain.
  repeat match goal with |- context [if ?c then _ else _] => destruct c eqn:? end;
    try reflexivity; try (apply Z.eqb_eq in Heqb; lia);
    try (match goal with H : (n =? 4) = true |- _ => apply Z.eqb_eq in H; lia end);
    try (match goal with H : (n =? 24) = true |- _ => apply Z.eqb_eq in H; lia end);
    destruct p; reflexivity.
Qed.

Lemma fold_sgr_attr codes : forall p,
  Forall (fun n => n <> 4 /\ n <> 24) codes ->
  fold_left sgr_plain codes p =
  {| t_fg := t_fg p; t_bg := t_bg p; t_ul := t_ul p; t_uls := t_uls p;
     t_attr := fold_left sgr_attr_z codes (t_attr p) |}.
Proof.
  induction codes as [|n t IH]; intros p H; cbn [fold_left]; [destruct p; reflexivity|].
  inversion H as [|? ? [H4 H24] Ht]; subst. rewrite IH by assumption.
  rewrite sgr_plain_attr_only by assumption. reflexivity.
Qed.

(* ---------- tokens that only touch the pen / link ---------- *)
Definition pen_only (k : tok) : bool :=
  match k with
  | KFg _ | KBg _ | KUl _ | KSgr _ | KUlStyle _ | KLink _ _ | KSgrReset => true
  | _ => false
  end.

Definition pen_step (pl : tpen * tlink) (k : tok) : tpen * tlink :=
  match k with
  | KSgrReset => (tpen0, snd pl)
  | KFg ps => (pen_fg (fst pl) ps, snd pl)
  | KBg ps => (pen_bg (fst pl) ps, snd pl)
  | KUl ps => (pen_ul (fst pl) ps, snd pl)
  | KSgr n => (sgr_plain (fst pl) n, snd pl)
  | KUlStyle n => (pen_uls (fst pl) n, snd pl)
  | KLink ps url => (fst pl, match url with [] => ([], []) | _ => (ps, url) end)
  | _ => pl
  end.

Definition with_pl (t : term) (pl : tpen * tlink) : term := set_link (set_pen t (fst pl)) (snd pl).
Definition pen_attr p x := {| t_fg := t_fg p; t_bg := t_bg p; t_ul := t_ul p; t_uls := t_uls p; t_attr := x |}.

Section Delta.
Variable tw : list Z -> Z.
Variable cp : caps.

Lemma interp_app t a b : interp tw t (a ++ b) = interp tw (interp tw t a) b.
Proof. unfold interp. apply fold_left_app. Qed.

Lemma with_pl_id t : with_pl t (tm_pen t, tm_link t) = t.
Proof. destruct t; reflexivity. Qed.

Lemma interp_pen_only ks : forall t,
  forallb pen_only ks = true ->
  interp tw t ks = with_pl t (fold_left pen_step ks (tm_pen t, tm_link t)).
Proof.
  induction ks as [|k ks IH]; intros t H; cbn [fold_left].
  - unfold interp; cbn. now rewrite with_pl_id.
  - cbn [forallb] in H. apply andb_prop in H as [Hk Hks].
    unfold interp in *. cbn [fold_left]. rewrite IH by assumption.
    destruct k; try discriminate; destruct t; reflexivity.
Qed.

Definition style_wf (s : style) : Prop := 0 <= s_attr s < 256.

Lemma fg_part pen n P L :
  t_fg P = col_params cp (s_fg pen) ->
  fold_left pen_step (emit_fg cp pen n) (P, L) = (pen_fg P (col_params cp (s_fg n)), L).
Proof.
  intros H. unfold emit_fg. destruct (s_fg pen =? s_fg n) eqn:E; [|reflexivity].
  apply Z.eqb_eq in E. cbn. rewrite <- E, <- H. destruct P; reflexivity.
Qed.

Lemma bg_part pen n P L :
  t_bg P = col_params cp (s_bg pen) ->
  fold_left pen_step (emit_bg cp pen n) (P, L) = (pen_bg P (col_params cp (s_bg n)), L).
Proof.
  intros H. unfold emit_bg. destruct (s_bg pen =? s_bg n) eqn:E; [|reflexivity].
  apply Z.eqb_eq in E. cbn. rewrite <- E, <- H. destruct P; reflexivity.
Qed.

Lemma ul_part pen n P L :
  t_ul P = t_ul (shown cp pen) ->
  fold_left pen_step (emit_ul cp pen n) (P, L) = (pen_ul P (t_ul (shown cp n)), L).
Proof.
  unfold emit_ul, shown; cbn [t_ul]. intros H. destruct (cap_styled_ul cp).
  - destruct (s_ul pen =? s_ul n) eqn:E; [|reflexivity].
    apply Z.eqb_eq in E. cbn. rewrite <- E, <- H. destruct P; reflexivity.
  - cbn. rewrite <- H. destruct P; reflexivity.
Qed.

Lemma fold_pen_step_sgr codes : forall P L,
  fold_left pen_step (map KSgr codes) (P, L) = (fold_left sgr_plain codes P, L).
Proof. induction codes as [|c t IH]; intros P L; cbn [map fold_left]; [reflexivity|]. cbn [pen_step fst snd]. apply IH. Qed.

Lemma attr_part pen n P L :
  style_wf pen -> style_wf n ->
  t_attr P = t_attr (shown cp pen) ->
  fold_left pen_step (emit_attr pen n) (P, L) = (pen_attr P (t_attr (shown cp n)), L).
Proof.
  intros Wp Wn H. unfold emit_attr. rewrite fold_pen_step_sgr.
  rewrite fold_sgr_attr by apply attr_codes_range.
  rewrite H. unfold shown; cbn [t_attr]. rewrite attr_codes_correct by assumption. reflexivity.
Qed.

Lemma uls_part pen n P L :
  t_uls P = t_uls (shown cp pen) ->
  fold_left pen_step (emit_uls cp pen n) (P, L) = (pen_uls P (t_uls (shown cp n)), L).
Proof.
  unfold emit_uls, shown; cbn [t_uls]. intros H.
  destruct (s_uls pen =? s_uls n) eqn:E.
  - apply Z.eqb_eq in E. cbn. rewrite <- E, <- H. destruct P; reflexivity.
  - destruct (cap_styled_ul cp); [reflexivity|].
    destruct (s_uls n =? 0) eqn:E0; cbn; unfold sgr_plain; cbn; reflexivity.
Qed.

Lemma link_part pen n P :
  fold_left pen_step (emit_link pen n) (P, shown_link pen) = (P, shown_link n).
Proof.
  unfold emit_link, shown_link.
  destruct (negb (zlist_eqb (s_link pen) (s_link n)) ||
            nonempty (s_link n) && negb (zlist_eqb (s_linkp pen) (s_linkp n))) eqn:E.
  - cbn. destruct (s_link n); reflexivity.
  - apply orb_false_elim in E as [E1 E2]. apply negb_false_iff in E1. apply zlist_eqb_eq in E1.
    cbn. rewrite E1. destruct (nonempty (s_link n)) eqn:En; [|reflexivity].
    cbn in E2. apply negb_false_iff in E2. apply zlist_eqb_eq in E2. now rewrite E2.
Qed.

Theorem delta_fold pen n :
  style_wf pen -> style_wf n ->
  fold_left pen_step (emit_delta cp pen n) (shown cp pen, shown_link pen) = (shown cp n, shown_link n).
Proof.
  intros Wp Wn. unfold emit_delta. rewrite !fold_left_app.
  rewrite fg_part by reflexivity.
  rewrite bg_part by reflexivity.
  rewrite ul_part by reflexivity.
  rewrite attr_part by (assumption || reflexivity).
  rewrite uls_part by reflexivity.
  rewrite link_part. reflexivity.
Qed.

Lemma emit_delta_pen_only pen n : forallb pen_only (emit_delta cp pen n) = true.
Proof.
  unfold emit_delta, emit_fg, emit_bg, emit_ul, emit_attr, emit_uls, emit_link.
  rewrite !forallb_app.
  repeat (apply andb_true_intro; split);
    repeat match goal with |- context [if ?c then _ else _] => destruct c end; try reflexivity.
  apply forallb_forall. intros k Hk. apply in_map_iff in Hk as [c [<- _]]. reflexivity.
Qed.

Definition tracks (t : term) (pen : style) : Prop :=
  tm_pen t = shown cp pen /\ tm_link t = shown_link pen.

(* the theorem used by the render proofs *)
Theorem delta_correct t pen n :
  style_wf pen -> style_wf n -> tracks t pen ->
  interp tw t (emit_delta cp pen n) = with_pl t (shown cp n, shown_link n).
Proof.
  intros Wp Wn [Hp Hl]. rewrite interp_pen_only by apply emit_delta_pen_only.
  rewrite Hp, Hl, delta_fold by assumption. reflexivity.
Qed.
End Delta.
