(* C13: child output cut at any point — the parser state is carried across the pieces, and what is written for a
   forwarded event depends on the child's STREAM so far (the pieces glued together), not on where it was cut. *)
From Vx Require Import base.Prelude gen.GenKeys gen.GenTermKeys model.Keys model.ParserTypes gen.GenParser model.Parser
  model.TermMouse model.TermKeys model.TermHist proofs.ParserSem proofs.TermKeysProofs proofs.TermKeysChild
  proofs.TermHistProofs.
Local Open Scope Z_scope.

(* reading a stream in two pieces through the carried state = reading it at once *)
Lemma cfeed_app c a b :
  cfeed c (a ++ b) = let '(c1, o1) := cfeed c a in let '(c2, o2) := cfeed c1 b in (c2, o1 ++ o2).
Proof.
  destruct c as [p alive]. unfold cfeed. destruct alive; [|reflexivity].
  rewrite feed_app. destruct (feed p a) as [[p1 o1] go]. destruct go.
  - destruct (feed p1 b) as [[p2 o2] go2]. reflexivity.
  - now rewrite app_nil_r.
Qed.

Lemma cfeed_nil c : cfeed c [] = (c, []).
Proof. destruct c as [p alive]. unfold cfeed. destruct alive; reflexivity. Qed.

(* everything the child's pieces deliver = what its whole stream delivers; the carried state likewise *)
Lemma cut_hist_output : forall h c,
  child_output (cut_hist c h) = stream_items c (cut_stream h) /\ cut_carry c h = fst (cfeed c (cut_stream h)).
Proof.
  unfold stream_items. induction h as [|s t IH]; intros c; cbn [cut_hist cut_stream cut_carry child_output].
  - rewrite cfeed_nil. split; reflexivity.
  - destruct s as [rs|e].
    + rewrite cfeed_app. destruct (cfeed c rs) as [c1 o1] eqn:E1. cbn [child_output fst].
      destruct (IH c1) as [IHo IHc]. rewrite IHo, IHc.
      destruct (cfeed c1 (cut_stream t)) as [c2 o2]. split; reflexivity.
    + cbn [child_output]. apply IH.
Qed.

Lemma cut_hist_app : forall h1 h2 c,
  cut_hist c (h1 ++ h2) = cut_hist c h1 ++ cut_hist (cut_carry c h1) h2.
Proof.
  induction h1 as [|s t IH]; intros h2 c; cbn [app cut_hist cut_carry]; [reflexivity|].
  destruct s as [rs|e].
  - destruct (cfeed c rs) as [c1 o1]. cbn [fst app]. now rewrite IH.
  - cbn [app]. now rewrite IH.
Qed.

Lemma cut_hist_events : forall h c, count_events (cut_hist c h) = cut_events h.
Proof.
  induction h as [|s t IH]; intros c; cbn [cut_hist cut_events count_events]; [reflexivity|].
  destruct s as [rs|e].
  - destruct (cfeed c rs) as [c1 o1]. cbn [count_events]. apply IH.
  - cbn [count_events]. now rewrite IH.
Qed.

(* cut_no_memory: ANY chunking of the child's output, interleaved with forwarded events, on one emulator with
   one parser: what is written for each event is the encoder's output under the child's last word on each mode at
   that moment, and the final mode state is a function of the glued stream alone *)
Theorem cut_run_spec (u : uni) h c md0 rs outs md' :
  cut_run u (asked_from md0 rs) c h = Some (outs, md') ->
  outs = hist_spec u md0 rs (cut_hist c h) /\
  md' = asked_from md0 (rs ++ reqs_of (stream_items c (cut_stream h))).
Proof.
  unfold cut_run. intros H. apply hist_run_spec in H. destruct H as [-> ->].
  destruct (cut_hist_output h c) as [-> _]. split; reflexivity.
Qed.

(* pointwise: the event after the pieces h1 sees exactly the requests COMPLETED in the glued stream of h1 —
   wherever h1 was cut, whatever was forwarded in between *)
Theorem cut_event_output (u : uni) h1 e h2 c outs md' :
  cut_run u modes0 c (h1 ++ CEvt e :: h2) = Some (outs, md') ->
  nth (cut_events h1) outs [] = term_update u (asked (reqs_of (stream_items c (cut_stream h1)))) e.
Proof.
  unfold cut_run. rewrite cut_hist_app. cbn [cut_hist]. intros H.
  apply hist_event_output in H. rewrite cut_hist_events in H.
  destruct (cut_hist_output h1 c) as [Ho _]. rewrite Ho in H. exact H.
Qed.

(* the cutting is irrelevant: two histories whose child streams before an event are the same bytes answer that
   event with the same bytes *)
Theorem cut_chunking_irrelevant (u : uni) c h1 h1' e h2 h2' outs outs' md' md'' :
  cut_stream h1 = cut_stream h1' ->
  cut_run u modes0 c (h1 ++ CEvt e :: h2) = Some (outs, md') ->
  cut_run u modes0 c (h1' ++ CEvt e :: h2') = Some (outs', md'') ->
  nth (cut_events h1) outs [] = nth (cut_events h1') outs' [].
Proof.
  intros Hs H H'. apply cut_event_output in H. apply cut_event_output in H'. rewrite H, H', Hs. reflexivity.
Qed.

(* a sequence split across two reads is that sequence: k pieces and one piece leave the same emulator *)
Theorem cut_pieces_glue (u : uni) c md (l : list (list Z)) :
  cut_run u md c (map CRaw l) = cut_run u md c [CRaw (concat l)].
Proof.
  unfold cut_run.
  assert (G : forall h md, (forall s, In s h -> exists rs, s = CRaw rs) ->
            hist_run u md (cut_hist c h) = match child_items (child_output (cut_hist c h)) md with
                                          | Some md' => Some ([], md') | None => None end).
  { intros h. generalize c. induction h as [|s t IH]; intros c0 md0 Hall; [reflexivity|].
    destruct (Hall s (or_introl eq_refl)) as [rs ->]. cbn [cut_hist].
    destruct (cfeed c0 rs) as [c1 o1]. cbn [hist_run child_output]. rewrite child_items_app.
    destruct (child_items o1 md0) as [md1|]; [|reflexivity].
    apply IH. intros s Hs. apply Hall. right. exact Hs. }
  rewrite G by (intros s Hs; apply in_map_iff in Hs as (rs & <- & _); eexists; reflexivity).
  rewrite G by (intros s [<-|[]]; eexists; reflexivity).
  destruct (cut_hist_output (map CRaw l) c) as [-> _]. destruct (cut_hist_output [CRaw (concat l)] c) as [-> _].
  cbn [cut_stream]. rewrite app_nil_r.
  replace (cut_stream (map CRaw l)) with (concat l); [reflexivity|].
  induction l as [|x t IH]; [reflexivity|]. cbn [map cut_stream concat]. now rewrite IH.
Qed.

(* ---------- tie to the one-piece model (parse_bytes) ---------- *)
Lemma reqs_of_canon : forall l, reqs_of (canon l) = reqs_of l.
Proof.
  induction l as [|x t IH]; [reflexivity|].
  destruct x; cbn [canon reqs_of item_req]; rewrite <- ?IH; try reflexivity.
  destruct (canon t) as [|y t']; [reflexivity|]. destruct y; reflexivity.
Qed.

Lemma reqs_of_finish p : reqs_of (finish p) = [].
Proof.
  destruct p as [s e i pa ig od ad d tm].
  destruct s; destruct e as [[]|]; cbv; reflexivity.
Qed.

(* the requests a fresh parser completes in a stream are those of the one-piece parse of that stream *)
Lemma stream_reqs_parse rs :
  reqs_of (stream_items carried0 rs) = reqs_of (canon (parse_runes rs)).
Proof.
  unfold stream_items, carried0, cfeed, parse_runes. rewrite reqs_of_canon.
  destruct (feed pinit rs) as [[p o] go]. cbn [snd]. destruct go; rewrite reqs_of_app.
  - now rewrite reqs_of_finish, app_nil_r.
  - cbn. now rewrite app_nil_r.
Qed.

Lemma decode_all_ascii7 bs : forallb (fun b => (0 <=? b) && (b <? 128)) bs = true -> decode_all bs = bs.
Proof.
  unfold decode_all.
  assert (G : forall n l, (length l <= n)%nat -> forallb (fun b => (0 <=? b) && (b <? 128)) l = true -> decode_fuel n l = l).
  { induction n as [|n IH]; intros l Hl Ha.
    - destruct l; [reflexivity|cbn [length] in Hl; lia].
    - destruct l as [|b t]; [reflexivity|]. cbn [forallb] in Ha. apply andb_prop in Ha as [Hb Ht].
      cbn [decode_fuel decode1]. assert (E : (b <? 128) = true) by lia. rewrite E.
      cbn [length] in Hl. rewrite IH by (try lia; exact Ht). reflexivity. }
  intros H. apply G; [lia|exact H].
Qed.

(* 7-bit child output (every mode-setting control function) cut at ANY byte offsets: the emulator ends in the
   modes the one-piece reading of the same bytes asks for *)
Theorem cut_bytes_any_offsets (u : uni) (l : list (list Z)) outs md' :
  forallb (fun b => (0 <=? b) && (b <? 128)) (concat l) = true ->
  cut_run u modes0 carried0 (map CRaw l) = Some (outs, md') ->
  md' = asked (reqs_of (parse_bytes (concat l))).
Proof.
  intros Ha H. rewrite cut_pieces_glue in H. change modes0 with (asked_from modes0 []) in H.
  apply cut_run_spec in H. destruct H as [_ ->]. cbn [cut_stream app]. rewrite app_nil_r.
  unfold parse_bytes. rewrite (decode_all_ascii7 _ Ha), stream_reqs_parse. reflexivity.
Qed.

(* the model's observation of any cut history passes the history predicate *)
Theorem cut_model_no_violation u seg c h : (forall r, seg [r] = [[r]]) -> oracle_ok u ->
  hist_violation u (model_obs u seg modes0 (cut_hist c h)) = false.
Proof. intros Hs Ho. apply hist_model_no_violation; assumption. Qed.
