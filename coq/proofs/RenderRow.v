(* One row of the render loop against the reference terminal. *)
From Vx Require Import base.Prelude base.ListX model.Colour model.RenderTypes model.Render model.RefTerm
  model.RenderSpec proofs.RenderDelta.
Require Import ZifyBool.

Section Row.
Variable tw : list Z -> Z.
Variable measure : list Z -> Z.
Variable cp : caps.

Notation tracks := (tracks cp).
Notation head_disp := (head_disp cp).
Notation view_cells := (view_cells cp).
Notation row_ok := (row_ok tw measure cp).

Definition stable (t t' : term) : Prop :=
  tm_rows t' = tm_rows t /\ tm_cols t' = tm_cols t /\ tm_vis t' = tm_vis t /\
  tm_shape t' = tm_shape t /\ tm_sync t' = tm_sync t /\ tm_mouse t' = tm_mouse t.

Lemma stable_refl t : stable t t. Proof. repeat split. Qed.
Lemma stable_trans a b c : stable a b -> stable b c -> stable a c.
Proof. unfold stable; intuition congruence. Qed.

(* a cell of screenLast that claims something about the terminal row T at column p *)
Definition cell_wf (c : cell) : Prop :=
  c_mw c = measure (c_g c) /\ 0 <= s_attr (c_st c) < 256.
Definition claim (T : Z -> disp) (p : Z) (l : cell) : Prop :=
  cell_wf l /\ forall j, 0 <= j < span l -> T (p + j) = head_disp l j.

Lemma span_pos c : 1 <= span c.
Proof. unfold span; lia. Qed.

(* ---------- facts about the specification functions ---------- *)
Lemma row_ok_skip ns : forall skip, 0 <= skip -> row_ok ns skip = true -> skip <= zlen ns.
Proof.
  induction ns as [|n t IH]; intros skip Hs H; cbn [RenderSpec.row_ok] in H.
  - rewrite zlen_nil. lia.
  - rewrite zlen_cons. destruct (0 <? skip) eqn:E.
    + specialize (IH (skip - 1) ltac:(lia) H). lia.
    + pose proof (zlen_nonneg t). lia.
Qed.

Lemma view_under ns : forall skip hd i,
  0 <= i < skip -> i < zlen ns ->
  zget (view_cells ns skip hd) i = Some (head_disp hd (span hd - skip + i)).
Proof.
  induction ns as [|n t IH]; intros skip hd i Hi Hl; [rewrite zlen_nil in Hl; lia|].
  rewrite zlen_cons in Hl. cbn [RenderSpec.view_cells].
  destruct (0 <? skip) eqn:E; [|lia].
  destruct (Z.eq_dec i 0) as [->|Hne].
  - rewrite zget_cons_0. f_equal. f_equal. lia.
  - rewrite zget_cons_S by lia. rewrite IH by lia. f_equal. f_equal. lia.
Qed.

Lemma style_eqb_true a b : style_eqb a b = true -> a = b.
Proof.
  destruct a, b; unfold style_eqb; cbn. intros H.
  repeat (apply andb_prop in H as [H ?]).
  repeat match goal with
  | H : zlist_eqb _ _ = true |- _ => apply zlist_eqb_eq in H
  | H : (_ =? _) = true |- _ => apply Z.eqb_eq in H
  end. congruence.
Qed.

Lemma cell_eqb_true a b :
  cell_eqb a b = true ->
  c_g a = c_g b /\ c_w a = c_w b /\ c_st a = c_st b /\ c_sixel a = c_sixel b.
Proof.
  unfold cell_eqb. intros H.
  repeat (apply andb_prop in H as [H ?]).
  repeat match goal with
  | H : zlist_eqb _ _ = true |- _ => apply zlist_eqb_eq in H
  | H : (_ =? _) = true |- _ => apply Z.eqb_eq in H
  | H : Bool.eqb _ _ = true |- _ => apply Bool.eqb_prop in H
  | H : style_eqb _ _ = true |- _ => apply style_eqb_true in H
  end.
  repeat split; assumption.
Qed.

Lemma eq_cells_show a b :
  cell_eqb a b = true -> c_mw a = measure (c_g a) -> c_mw b = measure (c_g b) ->
  span a = span b /\ forall j, head_disp a j = head_disp b j.
Proof.
  intros H Ha Hb. apply cell_eqb_true in H as [Hg [Hw [Hs _]]].
  assert (He : eff_width a = eff_width b) by (unfold eff_width; rewrite Hw, Ha, Hb, Hg; reflexivity).
  split; [unfold span; now rewrite He|].
  intros j. unfold RenderSpec.head_disp, glyph_of, span. now rewrite He, Hg, Hs.
Qed.

(* ---------- interpreting the tokens of one written cell ---------- *)
Lemma clampz_id lo hi x : lo <= x <= hi -> clampz lo hi x = x.
Proof. unfold clampz; lia. Qed.

Definition placed (t : term) (row col : Z) (n : cell) : Z -> disp :=
  fun c' =>
    if (col <=? c') && (c' <? col + span n) then head_disp n (c' - col)
    else match tm_grid t row c' with
         | DCell _ w off _ _ => if overlaps (c' - off) w col (span n) then DPoison else tm_grid t row c'
         | DPoison => DPoison
         end.

Lemma put_cell t n row col :
  tm_row t = row -> tm_col t = col -> tracks t (c_st n) ->
  col + span n <= tm_cols t ->
  adv_ok tw cp n = true ->
  let t' := interp1 tw t (cell_text cp n) in
  stable t t' /\ tracks t' (c_st n) /\ tm_row t' = row /\ tm_col t' = col + span n /\
  (forall r, r <> row -> tm_grid t' r = tm_grid t r) /\
  (forall c', tm_grid t' row c' = placed t row col n c').
Proof.
  intros Hr Hc [Hp Hl] Hfit Hadv. cbv zeta.
  pose proof (span_pos n) as Hs.
  assert (G : forall g, g = glyph_of n ->
              let t' := put_glyph t g (span n) in
              stable t t' /\ tracks t' (c_st n) /\ tm_row t' = row /\ tm_col t' = col + span n /\
              (forall r, r <> row -> tm_grid t' r = tm_grid t r) /\
              (forall c', tm_grid t' row c' = placed t row col n c')).
  { intros g Hg. unfold put_glyph. rewrite Hr, Hc.
    destruct (span n <? 1) eqn:E1; [lia|].
    destruct (tm_cols t <? col + span n) eqn:E2; [lia|].
    cbn. repeat split; try assumption.
    - intros r Hne. destruct (r =? row) eqn:E; [lia|reflexivity].
    - intros c'. rewrite Z.eqb_refl. unfold placed.
      destruct ((col <=? c') && (c' <? col + span n)); [|reflexivity].
      unfold RenderSpec.head_disp. now rewrite Hp, Hl, Hg. }
  unfold adv_ok in Hadv. unfold cell_text in *. unfold glyph_of in G.
  destruct (eff_width n =? 0) eqn:E0.
  - cbn [interp1]. replace 1 with (span n) by (unfold span; lia). apply G. reflexivity.
  - destruct ((1 <? eff_width n) && cap_explicit_width cp) eqn:E1.
    + cbn [interp1]. replace (eff_width n) with (span n) by (unfold span; lia). apply G. reflexivity.
    + cbn [interp1]. apply Z.eqb_eq in Hadv. rewrite Hadv. apply G. reflexivity.
Qed.

Lemma with_pl_facts t pl :
  stable t (with_pl t pl) /\ tm_grid (with_pl t pl) = tm_grid t /\
  tm_row (with_pl t pl) = tm_row t /\ tm_col (with_pl t pl) = tm_col t /\
  tm_pen (with_pl t pl) = fst pl /\ tm_link (with_pl t pl) = snd pl.
Proof. repeat split. Qed.

(* the whole token group of a written cell *)
Lemma write_cell t row col (repos : bool) pen n :
  0 <= row < tm_rows t -> 0 <= col -> col + span n <= tm_cols t ->
  tracks t pen -> style_wf pen -> style_wf (c_st n) ->
  (repos = false -> tm_row t = row /\ tm_col t = col) ->
  adv_ok tw cp n = true ->
  let closing := repos && nonempty (s_link pen) in
  let pre := when repos (when closing [KLink [] []] ++ [KCup (row + 1) (col + 1)]) in
  let pen1 := if closing then clear_link pen else pen in
  let t' := interp tw t (pre ++ emit_delta cp pen1 (c_st n) ++ [cell_text cp n]) in
  stable t t' /\ tracks t' (c_st n) /\ tm_row t' = row /\ tm_col t' = col + span n /\
  (forall r, r <> row -> tm_grid t' r = tm_grid t r) /\
  (forall c', tm_grid t' row c' = placed t row col n c').
Proof.
  intros Hrow Hcol Hfit Htr Wp Wn Hcur Hadv. cbv zeta.
  pose proof (span_pos n) as Hs.
  rewrite !interp_app.
  set (closing := repos && nonempty (s_link pen)).
  set (pen1 := if closing then clear_link pen else pen).
  set (t1 := interp tw t (when repos (when closing [KLink [] []] ++ [KCup (row + 1) (col + 1)]))).
  assert (H1 : stable t t1 /\ tracks t1 pen1 /\ tm_row t1 = row /\ tm_col t1 = col /\ tm_grid t1 = tm_grid t).
  { unfold t1, pen1, closing. destruct Htr as [Hp Hl]. destruct repos; cbn [andb when].
    - destruct (nonempty (s_link pen)) eqn:En; unfold interp; cbn [when app fold_left interp1].
      + repeat split; cbn; try (rewrite Hp; reflexivity); unfold clampz; lia.
      + repeat split; cbn; try assumption; unfold clampz; lia.
    - unfold interp; cbn. destruct (Hcur eq_refl) as [-> ->]. repeat split; assumption. }
  destruct H1 as [S1 [T1 [R1 [C1 G1]]]].
  assert (W1 : style_wf pen1) by (unfold pen1; destruct closing; [exact Wp|exact Wp]).
  rewrite (delta_correct tw cp t1 pen1 (c_st n) W1 Wn T1).
  set (t2 := with_pl t1 (shown cp (c_st n), shown_link (c_st n))).
  destruct (with_pl_facts t1 (shown cp (c_st n), shown_link (c_st n))) as [S2 [G2 [R2 [C2 [P2 L2]]]]].
  fold t2 in S2, G2, R2, C2, P2, L2.
  assert (T2 : tracks t2 (c_st n)) by (split; assumption).
  unfold interp. cbn [fold_left].
  assert (Hfit2 : col + span n <= tm_cols t2).
  { destruct S1 as [_ [E1 _]]. destruct S2 as [_ [E2 _]]. rewrite E2, E1. exact Hfit. }
  pose proof (put_cell t2 n row col (eq_trans R2 R1) (eq_trans C2 C1) T2 Hfit2 Hadv) as H3.
  cbv zeta in H3. destruct H3 as [S3 [T3 [R3 [C3 [O3 P3]]]]].
  split; [exact (stable_trans _ _ _ (stable_trans _ _ _ S1 S2) S3)|].
  split; [exact T3|]. split; [exact R3|]. split; [exact C3|].
  split.
  - intros r Hne. rewrite (O3 r Hne), G2, G1. reflexivity.
  - intros c'. rewrite P3. unfold placed. rewrite G2, G1. reflexivity.
Qed.

(* ---------- the loop over one row ---------- *)
Variable row : Z.
Variable refresh : bool.

Definition closed_left (T : Z -> disp) (b : Z) : Prop :=
  forall p g w off pn lk, 0 <= p < b -> T p = DCell g w off pn lk -> p - off + w <= b.

Lemma row_ok_head n ns :
  row_ok (n :: ns) 0 = true ->
  c_sixel n = false /\ adv_ok tw cp n = true /\ cell_wf n /\ row_ok ns (span n - 1) = true.
Proof.
  cbn [RenderSpec.row_ok]. cbn. intros H.
  repeat (apply andb_prop in H as [H ?]).
  apply negb_true_iff in H. unfold cell_wf. repeat split; try assumption; lia.
Qed.

Lemma placed_left t col n p :
  closed_left (tm_grid t row) col -> 0 <= p < col -> placed t row col n p = tm_grid t row p.
Proof.
  intros Hcl Hp. unfold placed. pose proof (span_pos n).
  destruct ((col <=? p) && (p <? col + span n)) eqn:E; [lia|].
  destruct (tm_grid t row p) as [g w off pn lk|] eqn:Eg; [|reflexivity].
  specialize (Hcl p g w off pn lk Hp Eg).
  unfold overlaps. destruct ((p - off <? col + span n) && (col <? p - off + w)) eqn:Eo; [lia|reflexivity].
Qed.

Lemma placed_in t col n p :
  col <= p < col + span n -> placed t row col n p = head_disp n (p - col).
Proof. intros H. unfold placed. destruct ((col <=? p) && (p <? col + span n)) eqn:E; [reflexivity|lia]. Qed.

Lemma placed_right t col n p l :
  col + span n <= p -> claim (tm_grid t row) p l ->
  forall j, 0 <= j < span l -> placed t row col n (p + j) = head_disp l j.
Proof.
  intros Hp [_ Hc] j Hj. unfold placed. pose proof (span_pos n).
  destruct ((col <=? p + j) && (p + j <? col + span n)) eqn:E; [lia|].
  rewrite (Hc j Hj). unfold RenderSpec.head_disp at 1. unfold overlaps.
  destruct ((p + j - j <? col + span n) && (col <? p + j - j + span l)) eqn:Eo; [lia|reflexivity].
Qed.

Lemma cells_correct : forall ns ls col skip repos pen t hd,
  length ns = length ls ->
  col + zlen ns = tm_cols t -> 0 <= col -> 0 <= skip -> 0 <= row < tm_rows t ->
  row_ok ns skip = true ->
  tracks t pen -> style_wf pen ->
  (repos = false -> tm_row t = row /\ tm_col t = col + skip) ->
  closed_left (tm_grid t row) (col + skip) ->
  (refresh = false -> forall i l, zget ls i = Some l -> skip <= i -> c_sixel l = false ->
                      claim (tm_grid t row) (col + i) l) ->
  let '(o, l', pen') := render_cells cp refresh row ns ls col skip repos pen in
  let t' := interp tw t o in
  stable t t' /\ tracks t' pen' /\ style_wf pen' /\
  (forall r, r <> row -> tm_grid t' r = tm_grid t r) /\
  (forall p, 0 <= p < col + skip -> tm_grid t' row p = tm_grid t row p) /\
  (forall i, skip <= i < zlen ns -> zget (view_cells ns skip hd) i = Some (tm_grid t' row (col + i))) /\
  length l' = length ls /\
  (forall i l, zget l' i = Some l -> c_sixel l = false -> skip <= i /\ claim (tm_grid t' row) (col + i) l).
Proof.
  induction ns as [|n ns IH]; intros ls col skip repos pen t hd Hlen Hcols Hcol Hskip Hrow Hok Htr Wp Hcur Hcl Hold.
  - destruct ls; [|discriminate]. cbn [render_cells]. cbv zeta. unfold interp; cbn [fold_left].
    split; [apply stable_refl|]. split; [assumption|]. split; [assumption|].
    split; [reflexivity|]. split; [reflexivity|].
    split; [intros i Hi; rewrite zlen_nil in Hi; lia|]. split; [reflexivity|].
    intros i l Hz. apply zget_some_range in Hz. change (zlen (@nil cell)) with 0 in Hz. lia.
  - destruct ls as [|l ls]; [discriminate|]. injection Hlen as Hlen.
    rewrite zlen_cons in Hcols. cbn [render_cells].
    destruct (0 <? skip) eqn:Es.
    + (* under a wide cell *)
      cbn [RenderSpec.row_ok] in Hok. rewrite Es in Hok.
      pose proof (IH ls (col + 1) (skip - 1) repos pen t hd Hlen ltac:(lia) ltac:(lia) ltac:(lia) Hrow Hok Htr Wp) as H.
      replace (col + 1 + (skip - 1)) with (col + skip) in H by lia.
      specialize (H Hcur Hcl).
      assert (Hold' : refresh = false -> forall i l0, zget ls i = Some l0 -> skip - 1 <= i -> c_sixel l0 = false ->
                                         claim (tm_grid t row) (col + 1 + i) l0).
      { intros Hr i l0 Hz Hi Hsx. replace (col + 1 + i) with (col + (i + 1)) by lia.
        apply (Hold Hr (i + 1) l0); [|lia|assumption].
        rewrite zget_cons_S by lia. now replace (i + 1 - 1) with i by lia. }
      specialize (H Hold').
      destruct (render_cells cp refresh row ns ls (col + 1) (skip - 1) repos pen) as [[o l'] p'].
      cbv zeta in H |- *. destruct H as [S [T [W [O [F [D [L C]]]]]]].
      split; [assumption|]. split; [assumption|]. split; [assumption|]. split; [assumption|].
      split; [assumption|]. split.
      * intros i Hi. rewrite zlen_cons in Hi. cbn [RenderSpec.view_cells]. rewrite Es.
        rewrite zget_cons_S by lia. rewrite (D (i - 1)) by lia. f_equal. f_equal. lia.
      * split; [cbn [length]; now rewrite L|].
        intros i l0 Hz Hsx. destruct (Z.eq_dec i 0) as [->|Hne].
        -- rewrite zget_cons_0 in Hz. injection Hz as <-. discriminate.
        -- assert (0 < i) by (apply zget_some_range in Hz; lia).
           rewrite zget_cons_S in Hz by lia. destruct (C (i - 1) l0 Hz Hsx) as [Hi Hc].
           split; [lia|]. now replace (col + i) with (col + 1 + (i - 1)) by lia.
    + assert (skip = 0) by lia. subst skip. clear Hskip Es. rewrite Z.add_0_r in *.
      destruct (row_ok_head n ns Hok) as [Hsx [Hadv [Hwf Hok']]].
      rewrite Hsx.
      pose proof (span_pos n) as Hsp.
      pose proof (row_ok_skip ns (span n - 1) ltac:(lia) Hok') as Hfit.
      destruct (cell_eqb n l && negb refresh) eqn:Eeq.
      * (* unchanged cell *)
        apply andb_prop in Eeq as [Eeq Eref]. apply negb_true_iff in Eref.
        assert (Hsl : c_sixel l = false).
        { apply cell_eqb_true in Eeq as [_ [_ [_ E]]]. congruence. }
        pose proof (Hold Eref 0 l (zget_cons_0 l ls) ltac:(lia) Hsl) as Hcl0.
        rewrite Z.add_0_r in Hcl0. destruct Hcl0 as [[Hmw Hat] Hshow].
        destruct (eq_cells_show n l Eeq (proj1 Hwf) Hmw) as [Hspan Hhd].
        pose proof (IH ls (col + 1) (span n - 1) true pen t n Hlen ltac:(lia) ltac:(lia) ltac:(lia) Hrow Hok' Htr Wp) as H.
        replace (col + 1 + (span n - 1)) with (col + span n) in H by lia.
        assert (Hcl' : closed_left (tm_grid t row) (col + span n)).
        { intros p g w off pn lk Hp Hg. destruct (Z_lt_le_dec p col) as [Hlt|Hge].
          - specialize (Hcl p g w off pn lk ltac:(lia) Hg). lia.
          - specialize (Hshow (p - col) ltac:(lia)). replace (col + (p - col)) with p in Hshow by lia.
            rewrite Hshow in Hg. rewrite <- Hhd in Hg. unfold RenderSpec.head_disp in Hg.
            injection Hg as _ Hw Ho _ _. lia. }
        assert (Hold' : refresh = false -> forall i l0, zget ls i = Some l0 -> span n - 1 <= i -> c_sixel l0 = false ->
                                           claim (tm_grid t row) (col + 1 + i) l0).
        { intros Hr i l0 Hz Hi Hs0. replace (col + 1 + i) with (col + (i + 1)) by lia.
          apply (Hold Hr (i + 1) l0); [|lia|assumption].
          rewrite zget_cons_S by lia. now replace (i + 1 - 1) with i by lia. }
        specialize (H ltac:(intros; discriminate) Hcl' Hold').
        destruct (render_cells cp refresh row ns ls (col + 1) (span n - 1) true pen) as [[o l'] p'].
        cbv zeta in H |- *. destruct H as [S [T [W [O [F [D [L C]]]]]]].
        split; [assumption|]. split; [assumption|]. split; [assumption|]. split; [assumption|].
        split; [intros p Hp; apply F; lia|]. split.
        -- intros i Hi. rewrite zlen_cons in Hi. cbn [RenderSpec.view_cells]. rewrite Z.ltb_irrefl.
           destruct (Z.eq_dec i 0) as [->|Hne].
           ++ rewrite zget_cons_0. rewrite Z.add_0_r. rewrite F by lia.
              specialize (Hshow 0 ltac:(lia)). rewrite Z.add_0_r in Hshow. rewrite Hshow, Hhd. reflexivity.
           ++ rewrite zget_cons_S by lia. destruct (Z_lt_le_dec (i - 1) (span n - 1)) as [Hlt|Hge].
              ** rewrite view_under by lia. rewrite F by lia.
                 rewrite (Hshow i) by lia. rewrite Hhd. f_equal. f_equal. lia.
              ** rewrite (D (i - 1)) by lia. f_equal. f_equal. lia.
        -- split; [cbn [length]; now rewrite L|].
           intros i l0 Hz Hs0. destruct (Z.eq_dec i 0) as [->|Hne].
           ++ rewrite zget_cons_0 in Hz. injection Hz as <-. split; [lia|].
              rewrite Z.add_0_r. split; [split; assumption|].
              intros j Hj. rewrite F by lia. apply Hshow. exact Hj.
           ++ assert (0 < i) by (apply zget_some_range in Hz; lia).
              rewrite zget_cons_S in Hz by lia. destruct (C (i - 1) l0 Hz Hs0) as [Hi Hc].
              split; [lia|]. now replace (col + i) with (col + 1 + (i - 1)) by lia.
      * (* the cell is written *)
        pose proof (write_cell t row col repos pen n Hrow Hcol ltac:(lia) Htr Wp (proj2 Hwf) Hcur Hadv) as Hw.
        cbv zeta in Hw.
        remember (interp tw t
                    (when repos (when (repos && nonempty (s_link pen)) [KLink [] []] ++ [KCup (row + 1) (col + 1)]) ++
                     emit_delta cp (if repos && nonempty (s_link pen) then clear_link pen else pen) (c_st n) ++
                     [cell_text cp n])) as t3 eqn:Et3.
        destruct Hw as [S3 [T3 [R3 [C3 [O3 P3]]]]].
        assert (Hcols3 : tm_cols t3 = tm_cols t) by (destruct S3 as [_ [E _]]; exact E).
        assert (Hrows3 : tm_rows t3 = tm_rows t) by (destruct S3 as [E _]; exact E).
        pose proof (IH ls (col + 1) (span n - 1) false (c_st n) t3 n Hlen ltac:(lia) ltac:(lia) ltac:(lia)
                       ltac:(lia) Hok' T3 (proj2 Hwf)) as H.
        replace (col + 1 + (span n - 1)) with (col + span n) in H by lia.
        assert (Hcl' : closed_left (tm_grid t3 row) (col + span n)).
        { intros p g w off pn lk Hp Hg. rewrite P3 in Hg. destruct (Z_lt_le_dec p col) as [Hlt|Hge].
          - rewrite (placed_left t col n p Hcl ltac:(lia)) in Hg.
            specialize (Hcl p g w off pn lk ltac:(lia) Hg). lia.
          - rewrite placed_in in Hg by lia. unfold RenderSpec.head_disp in Hg.
            injection Hg as _ Hw Ho _ _. lia. }
        assert (Hold' : refresh = false -> forall i l0, zget ls i = Some l0 -> span n - 1 <= i -> c_sixel l0 = false ->
                                           claim (tm_grid t3 row) (col + 1 + i) l0).
        { intros Hr i l0 Hz Hi Hs0.
          assert (Hc0 : claim (tm_grid t row) (col + (i + 1)) l0).
          { apply (Hold Hr (i + 1) l0); [|lia|assumption].
            rewrite zget_cons_S by lia. now replace (i + 1 - 1) with i by lia. }
          split; [exact (proj1 Hc0)|]. intros j Hj. rewrite P3.
          replace (col + 1 + i + j) with (col + (i + 1) + j) by lia.
          apply placed_right; [lia|exact Hc0|exact Hj]. }
        specialize (H ltac:(intros _; split; [exact R3|exact C3]) Hcl' Hold').
        destruct (render_cells cp refresh row ns ls (col + 1) (span n - 1) false (c_st n)) as [[o l'] p'].
        cbv zeta in H |- *. rewrite interp_app. rewrite <- Et3. clear Et3.
        destruct H as [S [T [W [O [F [D [L C]]]]]]].
        split; [exact (stable_trans _ _ _ S3 S)|]. split; [assumption|]. split; [assumption|].
        split; [intros r Hne; rewrite (O r Hne); apply O3; exact Hne|].
        split; [intros p Hp; rewrite F by lia; rewrite P3; apply placed_left; [exact Hcl|lia]|].
        split.
        -- intros i Hi. rewrite zlen_cons in Hi. cbn [RenderSpec.view_cells]. rewrite Z.ltb_irrefl.
           destruct (Z.eq_dec i 0) as [->|Hne].
           ++ rewrite zget_cons_0. rewrite Z.add_0_r. rewrite F by lia. rewrite P3, placed_in by lia.
              f_equal. f_equal. lia.
           ++ rewrite zget_cons_S by lia. destruct (Z_lt_le_dec (i - 1) (span n - 1)) as [Hlt|Hge].
              ** rewrite view_under by lia. rewrite F by lia. rewrite P3, placed_in by lia.
                 f_equal. f_equal. lia.
              ** rewrite (D (i - 1)) by lia. f_equal. f_equal. lia.
        -- split; [cbn [length]; now rewrite L|].
           intros i l0 Hz Hs0. destruct (Z.eq_dec i 0) as [->|Hne].
           ++ rewrite zget_cons_0 in Hz. injection Hz as <-. split; [lia|].
              rewrite Z.add_0_r. split; [exact Hwf|].
              intros j Hj. rewrite F by lia. rewrite P3, placed_in by lia. f_equal. lia.
           ++ assert (0 < i) by (apply zget_some_range in Hz; lia).
              rewrite zget_cons_S in Hz by lia. destruct (C (i - 1) l0 Hz Hs0) as [Hi Hc].
              split; [lia|]. now replace (col + i) with (col + 1 + (i - 1)) by lia.
Qed.
End Row.
