(* The translated tables of ansi/parser.go are the reference state machine of
   model/Vt500Spec.v, for every state and every rune (unbounded). *)
From Vx Require Import base.Prelude model.ParserTypes gen.GenParser model.Parser model.Vt500Spec.

Ltac solve_cmp :=
  repeat match goal with
  | |- context [Z.leb ?a ?b] =>
      first [ rewrite (proj2 (Z.leb_le a b)) by lia | rewrite (proj2 (Z.leb_gt a b)) by lia ]
  | |- context [Z.eqb ?a ?b] =>
      first [ rewrite (proj2 (Z.eqb_eq a b)) by lia | rewrite (proj2 (Z.eqb_neq a b)) by lia ]
  end.

(* split Z at every boundary the tables or the reference use *)
Ltac cut_at r k := destruct (Z_lt_le_dec r k).
Ltac leaf := solve_cmp; reflexivity.
Ltac intervals r :=
  cut_at r (-1); [leaf|]; cut_at r 0; [leaf|]; cut_at r 7; [leaf|]; cut_at r 8; [leaf|];
  cut_at r 24; [leaf|]; cut_at r 25; [leaf|]; cut_at r 26; [leaf|]; cut_at r 27; [leaf|];
  cut_at r 28; [leaf|]; cut_at r 32; [leaf|]; cut_at r 48; [leaf|]; cut_at r 58; [leaf|];
  cut_at r 59; [leaf|]; cut_at r 60; [leaf|]; cut_at r 64; [leaf|]; cut_at r 79; [leaf|];
  cut_at r 80; [leaf|]; cut_at r 81; [leaf|]; cut_at r 88; [leaf|]; cut_at r 89; [leaf|]; cut_at r 90; [leaf|];
  cut_at r 91; [leaf|]; cut_at r 92; [leaf|]; cut_at r 93; [leaf|]; cut_at r 94; [leaf|];
  cut_at r 95; [leaf|]; cut_at r 96; [leaf|]; cut_at r 127; [leaf|]; cut_at r 128; [leaf|]; leaf.

Ltac expose :=
  cbv -[Z.leb Z.eqb Z.ltb Z.add Z.sub Z.opp].

Lemma state_table_conforms s r :
  table_trans_fn (state_fn s) r = Some (spec_trans s r).
Proof.
  destruct s; expose; intervals r.
Qed.

Lemma state_post_conforms s : f_post (state_fn s) = spec_post s.
Proof. destruct s; reflexivity. Qed.

Lemma anywhere_conforms r :
  table_trans_fn fn_anywhere r = spec_anywhere r.
Proof. expose; intervals r. Qed.

Lemma anywhere_pre_post : f_pre fn_anywhere = [] /\ f_post fn_anywhere = [].
Proof. split; reflexivity. Qed.

