(* C06 - the emulator model (Term.v) refines the reference terminal (VtSpec.v): one
   simulation lemma per operation of the vocabulary, then induction over histories. *)
From Vx Require Import base.Prelude base.ListX model.Colour model.Sgr model.Term model.TermCheck
  model.VtSpec model.TermAbs proofs.SgrProofs proofs.TermProofs.
Require Import ZifyBool Lia.

Local Open Scope Z_scope.

(* destruct the condition of an [if] whose condition contains no other [if] *)
Ltac case_if :=
  match goal with
  | |- context[if ?b then _ else _] =>
      lazymatch b with
      | context[if _ then _ else _] => fail
      | _ => destruct b eqn:?
      end
  end.

(* lia treats [@zlen trow g] and [@zlen (list tcell) g] as different atoms *)
Ltac zl := unfold trow, grid, dline, dgrid in *; lia.

(* ------------------------------------------------------------------ pointwise reasoning on lists *)

Lemma zget_neg {A} (l : list A) i : i < 0 -> zget l i = None.
Proof. intros H; unfold zget; destruct (i <? 0) eqn:E; [reflexivity|lia]. Qed.

Lemma zget_beyond {A} (l : list A) i : zlen l <= i -> zget l i = None.
Proof.
  intros H; unfold zget; destruct (i <? 0) eqn:E; [reflexivity|].
  apply nth_error_None; unfold zlen in H; lia.
Qed.

Lemma list_ext_all {A} : forall (a b : list A), (forall i, zget a i = zget b i) -> a = b.
Proof.
  induction a as [|x a IH]; intros [|y b] H.
  - reflexivity.
  - specialize (H 0); discriminate.
  - specialize (H 0); discriminate.
  - pose proof (H 0) as H0; cbn in H0; inversion H0; subst. f_equal. apply IH.
    intros i. destruct (Z_lt_dec i 0); [rewrite !zget_neg; auto|].
    specialize (H (i + 1)). rewrite !zget_cons_S in H by lia.
    replace (i + 1 - 1) with i in H by lia. exact H.
Qed.

Lemma zget_app_if {A} (a b : list A) i :
  zget (a ++ b) i = if i <? zlen a then zget a i else zget b (i - zlen a).
Proof.
  destruct (i <? zlen a) eqn:E; [apply zget_app_l; lia | apply zget_app_r; lia].
Qed.

Lemma zget_map {A B} (f : A -> B) l i : zget (map f l) i = option_map f (zget l i).
Proof. unfold zget; destruct (i <? 0); [reflexivity|]. apply nth_error_map. Qed.

Lemma nth_error_firstn' {A} : forall (l : list A) n i, (i < n)%nat -> nth_error (firstn n l) i = nth_error l i.
Proof.
  induction l as [|x t IH]; intros [|n] [|i] H; simpl; auto; try lia. apply IH; lia.
Qed.

Lemma nth_error_skipn' {A} : forall (l : list A) n i, nth_error (skipn n l) i = nth_error l (n + i).
Proof.
  induction l as [|x t IH]; intros [|n] i; simpl; auto. now destruct i.
Qed.

Lemma nth_error_repeat' {A} (x : A) : forall n i, (i < n)%nat -> nth_error (repeat x n) i = Some x.
Proof.
  induction n as [|n IH]; intros [|i] H; simpl; auto; try lia. apply IH; lia.
Qed.

Lemma zget_zfirstn {A} (l : list A) n i : zget (zfirstn n l) i = if i <? n then zget l i else None.
Proof.
  unfold zfirstn. destruct (i <? n) eqn:E.
  - unfold zget. destruct (i <? 0) eqn:E0; [reflexivity|].
    apply nth_error_firstn'. lia.
  - destruct (Z_lt_dec i 0); [now rewrite zget_neg|].
    apply zget_beyond. unfold zlen; rewrite firstn_length; lia.
Qed.

Lemma zget_zskipn {A} (l : list A) n i : 0 <= n -> zget (zskipn n l) i = if i <? 0 then None else zget l (i + n).
Proof.
  intros Hn; unfold zskipn, zget. destruct (i <? 0) eqn:E; [reflexivity|].
  destruct (i + n <? 0) eqn:E2; [lia|].
  rewrite nth_error_skipn'. f_equal; lia.
Qed.

Lemma zget_zrepeat {A} (x : A) n i : zget (zrepeat x n) i = if (0 <=? i) && (i <? n) then Some x else None.
Proof.
  unfold zrepeat. destruct ((0 <=? i) && (i <? n)) eqn:E.
  - unfold zget. destruct (i <? 0) eqn:E2; [lia|].
    apply nth_error_repeat'. lia.
  - destruct (Z_lt_dec i 0); [now rewrite zget_neg|].
    apply zget_beyond. unfold zlen; rewrite repeat_length; lia.
Qed.

Lemma zget_single {A} (x : A) i : zget [x] i = if i =? 0 then Some x else None.
Proof.
  destruct (i =? 0) eqn:E; [assert (i = 0) by lia; subst; reflexivity|].
  destruct (Z_lt_dec i 0); [now rewrite zget_neg|]. apply zget_beyond; rewrite zlen_cons, zlen_nil; lia.
Qed.

Lemma zlen_zfirstn {A} (l : list A) n : zlen (zfirstn n l) = Z.min (Z.max 0 n) (zlen l).
Proof. unfold zfirstn, zlen; rewrite firstn_length; lia. Qed.

Lemma zlen_zskipn {A} (l : list A) n : zlen (zskipn n l) = Z.max 0 (zlen l - Z.max 0 n).
Proof. unfold zskipn, zlen; rewrite skipn_length; lia. Qed.

Lemma zlen_zrepeat {A} (x : A) n : zlen (zrepeat x n) = Z.max 0 n.
Proof. unfold zrepeat, zlen; rewrite repeat_length; lia. Qed.

Lemma zlen_single {A} (x : A) : zlen [x] = 1.
Proof. reflexivity. Qed.

Lemma zget_upd_nat {A} (l : list A) r x i :
  0 <= r < zlen l -> zget (upd_nat l (Z.to_nat r) x) i = if i =? r then Some x else zget l i.
Proof.
  intros Hr. destruct (zupd l r x) as [l'|] eqn:U.
  - assert (l' = upd_nat l (Z.to_nat r) x).
    { unfold zupd in U. destruct ((r <? 0) || (zlen l <=? r)); [discriminate|]. now inversion U. }
    subst l'. destruct (i =? r) eqn:E.
    + assert (i = r) by lia; subst. eapply zget_zupd_same; eauto.
    + eapply zget_zupd_other; eauto; lia.
  - unfold zupd in U. destruct ((r <? 0) || (zlen l <=? r)) eqn:E; [lia|discriminate].
Qed.

Lemma zlen_upd_nat {A} (l : list A) n x : zlen (upd_nat l n x) = zlen l.
Proof. unfold zlen; now rewrite upd_nat_length. Qed.

Lemma mapi_opt_zget {A} (f : Z -> A -> option A) : forall l k l',
  mapi_opt f k l = Some l' ->
  forall i, zget l' i = match zget l i with Some x => f (k + i) x | None => None end.
Proof.
  induction l as [|x t IH]; intros k l' H i; cbn [mapi_opt] in H.
  - inversion H; subst. destruct (Z_lt_dec i 0); [now rewrite !zget_neg|]. now rewrite !zget_beyond by (rewrite zlen_nil; lia).
  - destruct (f k x) as [y|] eqn:Fx; [|discriminate].
    destruct (mapi_opt f (k + 1) t) as [t'|] eqn:Ft; [|discriminate]. inversion H; subst.
    destruct (Z_lt_dec i 0); [now rewrite !zget_neg|].
    destruct (Z.eq_dec i 0); [subst; cbn; now rewrite Z.add_0_r|].
    rewrite !zget_cons_S by lia. rewrite (IH _ _ Ft). replace (k + 1 + (i - 1)) with (k + i) by lia. reflexivity.
Qed.

Lemma mapi_opt_zlen {A} (f : Z -> A -> option A) : forall l k l', mapi_opt f k l = Some l' -> zlen l' = zlen l.
Proof.
  induction l as [|x t IH]; intros k l' H; cbn [mapi_opt] in H.
  - now inversion H.
  - destruct (f k x); [|discriminate]. destruct (mapi_opt f (k + 1) t) eqn:Ft; [|discriminate].
    inversion H; subst. rewrite !zlen_cons. erewrite IH; eauto.
Qed.

Lemma zget_map_range {A} (f : A -> A) lo hi (l : list A) i :
  0 <= lo -> lo <= hi -> hi <= zlen l ->
  zget (map_range f lo hi l) i = if (lo <=? i) && (i <? hi) then option_map f (zget l i) else zget l i.
Proof.
  intros H1 H2 H3. unfold map_range.
  change (firstn (Z.to_nat lo) l) with (zfirstn lo l).
  change (skipn (Z.to_nat hi) l) with (zskipn hi l).
  change (firstn (Z.to_nat (hi - lo)) (skipn (Z.to_nat lo) l)) with (zfirstn (hi - lo) (zskipn lo l)).
  rewrite !zget_app_if, zlen_zfirstn, zlen_map, zlen_zfirstn, zlen_zskipn, zget_map, !zget_zfirstn.
  rewrite !zget_zskipn by lia.
  destruct (Z_lt_dec i 0).
  { rewrite !zget_neg by lia. repeat case_if; reflexivity. }
  repeat case_if; try lia; try reflexivity; try (f_equal; f_equal; lia); try (f_equal; lia).
  all: try (rewrite zget_beyond by lia; reflexivity).
  all: try (symmetry; apply zget_beyond; lia).
Qed.

Lemma zget_copy_row {A} (dst src : list A) i : zlen src = zlen dst -> zget (copy_row dst src) i = zget src i.
Proof.
  intros H. unfold copy_row.
  replace (firstn (length dst) src) with src.
  2:{ symmetry; apply firstn_all2. unfold zlen in H; lia. }
  replace (skipn (length src) dst) with (@nil A).
  2:{ symmetry; apply skipn_all2. unfold zlen in H; lia. }
  now rewrite app_nil_r.
Qed.

(* ------------------------------------------------------------------ the simulation invariant *)

Definition chars_plain (c : chars) : Prop := cs_ss c = false /\ des_of c = 0.
Definition saved_plain (s : saved) : Prop := s_awm s = true /\ chars_plain (s_cs s).

Record Inv (w h : Z) (t : term) : Prop := mkInv {
  inv_wf : WFs0 0 w h t;
  inv_w : 2 <= w <= 65535;
  inv_h : 2 <= h <= 65535;
  inv_irm : m_irm (t_md t) = false;
  inv_lnm : m_lnm (t_md t) = false;
  inv_awm : m_awm (t_md t) = true;
  inv_alt : m_smcup (t_md t) = t_onalt t;
  inv_cs : chars_plain (t_cs t);
  inv_svp : saved_plain (t_svp t);
  inv_sva : saved_plain (t_sva t)
}.

Lemma abs_cell_erase bgc c : abs_cell (erase_cell bgc c) = Blank bgc.
Proof. reflexivity. Qed.

Lemma abs_cell_blank bgc : abs_cell (blank_cell bgc) = Blank bgc.
Proof. reflexivity. Qed.

Lemma abs_cell_wrapped c : abs_cell (set_wrapped c) = abs_cell c.
Proof. reflexivity. Qed.

Definition abs_line (l : trow) : dline := map abs_cell l.

Lemma abs_grid_upd g r line :
  0 <= r < zlen g -> abs_grid (upd_nat g (Z.to_nat r) line) = put r (abs_line line) (abs_grid g).
Proof.
  intros Hr. apply list_ext_all; intros i. unfold abs_grid, put.
  rewrite zget_map, zget_upd_nat by assumption.
  rewrite !zget_app_if, zlen_zfirstn, zlen_single, zget_zfirstn, zget_single, zget_zskipn by lia.
  rewrite zlen_map, !zget_map.
  destruct (Z_lt_dec i 0); [rewrite !zget_neg by lia; repeat case_if; try (exfalso; zl); reflexivity|].
  repeat case_if; try (exfalso; zl); try reflexivity.
  - f_equal. f_equal. zl.
Qed.

Lemma at_abs_grid g r line : zget g r = Some line -> at_ [] r (abs_grid g) = abs_line line.
Proof.
  intros H. unfold at_, abs_grid. pose proof (zget_some_range _ _ _ H) as Hr.
  unfold zget in H. destruct (r <? 0) eqn:E; [discriminate|].
  unfold trow, grid in *. erewrite nth_error_nth; [reflexivity|]. rewrite nth_error_map, H. reflexivity.
Qed.

Lemma active_set_active t g : active (set_active t g) = g.
Proof. unfold set_active, active; destruct (t_onalt t) eqn:E; simpl; rewrite ?E; reflexivity. Qed.

Lemma on_row_eval e w h t r f line line' :
  WFs0 e w h t -> 0 <= r < h -> zget (active t) r = Some line -> f line = Some line' ->
  on_row t r f = TOk (set_active t (upd_nat (active t) (Z.to_nat r) line')).
Proof.
  intros H Hr Hg Hf; unfold on_row. rewrite Hg; cbn [of_opt tbind]. rewrite Hf; cbn [of_opt tbind].
  unfold zupd. destruct (WFs_active _ _ _ _ H) as [Hl _].
  destruct ((r <? 0) || (zlen (active t) <=? r)) eqn:E; [lia|]. reflexivity.
Qed.

(* ------------------------------------------------------------------ frames *)

Lemma Inv_frame w h t t' :
  Inv w h t -> WFs0 0 w h t' ->
  t_md t' = t_md t -> t_cs t' = t_cs t -> t_svp t' = t_svp t -> t_sva t' = t_sva t ->
  t_onalt t' = t_onalt t -> Inv w h t'.
Proof.
  intros [] W E1 E2 E3 E4 E5; constructor; try rewrite E1; try rewrite E2; try rewrite E3;
    try rewrite E4; try rewrite E5; auto.
Qed.

(* an operation that only moves the cursor *)
Lemma abs_move t t' r c p :
  t_prim t' = t_prim t -> t_alt t' = t_alt t -> t_onalt t' = t_onalt t -> t_pen t' = t_pen t ->
  t_top t' = t_top t -> t_bot t' = t_bot t -> t_svp t' = t_svp t -> t_sva t' = t_sva t ->
  t_row t' = r -> t_col t' = c -> t_last t' = p ->
  abs t' = set_pos (abs t) r c p.
Proof.
  intros E1 E2 E3 E4 E5 E6 E7 E8 E9 E10 E11.
  unfold abs, set_pos, height, width, active; cbn [v_rows v_cols v_grid v_hidden v_pen v_top v_bot v_saved_n v_saved_a].
  rewrite E1, E2, E3, E4, E5, E6, E7, E8, E9, E10, E11. reflexivity.
Qed.

Lemma Inv_WF w h t : Inv w h t -> WFs0 0 w h t.
Proof. intros []; assumption. Qed.

Lemma Inv_height w h t : Inv w h t -> height t = h.
Proof. intros H; apply (WFs_height 0 w h), H. Qed.
Lemma Inv_width w h t : Inv w h t -> width t = w.
Proof. intros H; apply (WFs_width 0 w h), H. Qed.

Lemma abs_rows w h t : Inv w h t -> v_rows (abs t) = h.
Proof. intros H; unfold abs; cbn; now apply (Inv_height w h). Qed.
Lemma abs_cols w h t : Inv w h t -> v_cols (abs t) = w.
Proof. intros H; unfold abs; cbn; now apply (Inv_width w h). Qed.

(* parameters *)
Lemma ps_of_p1 p : ps_of (p1 p) = TOk (clamp_ps (pval p)).
Proof. destruct p; reflexivity. Qed.

Lemma dflt1_dflt x : dflt1 x = dflt x.
Proof. reflexivity. Qed.

Definition pv_ok (x : Z) : Prop := 0 <= x < 9223372036854775808.

Lemma par_ok_pv p : par_ok p = true -> pv_ok (pval p).
Proof. destruct p; unfold par_ok, pv_ok; simpl; lia. Qed.

(* the 16-bit clamp of ps() is invisible on screens of at most 65535 rows and columns *)
Lemma clamp_small x : pv_ok x -> x <= 65535 -> clamp_ps x = x.
Proof. unfold pv_ok, clamp_ps; intros; case_if; lia. Qed.
Lemma clamp_big x : pv_ok x -> 65535 < x -> clamp_ps x = 65535.
Proof. unfold pv_ok, clamp_ps; intros; case_if; lia. Qed.

Ltac split_pv x H :=
  let B := fresh "B" in
  destruct (Z_le_dec x 65535) as [B|B];
  [ rewrite (clamp_small x H B) in * | rewrite (clamp_big x H ltac:(lia)) in * ].

(* ------------------------------------------------------------------ cursor motion *)

Section Moves.
Variables (w h : Z) (t : term).
Hypothesis HI : Inv w h t.

Let HW := Inv_WF w h t HI.

Lemma sim_cr : Inv w h (cr t) /\ abs (cr t) = spec_op (abs t) CR.
Proof.
  split.
  - apply (Inv_frame w h t); auto. now apply cr_ok.
  - cbn [spec_op]. apply abs_move; try reflexivity. cbn. apply HW.
Qed.

Lemma sim_cuu x : pv_ok x ->
  Inv w h (cuu t (clamp_ps x)) /\ abs (cuu t (clamp_ps x)) = move_up (abs t) (dflt x).
Proof.
  intros Hx. pose proof (clamp_ps_range x). split.
  - apply (Inv_frame w h t); auto. apply cuu_ok; auto; lia.
  - unfold move_up. apply abs_move; try reflexivity. cbn.
    destruct HI as [[] ? ?]. unfold dflt1, dflt.
    split_pv x Hx; repeat case_if; lia.
Qed.

Lemma sim_cud x : pv_ok x ->
  Inv w h (cud t (clamp_ps x)) /\ abs (cud t (clamp_ps x)) = move_down (abs t) (dflt x).
Proof.
  intros Hx. pose proof (clamp_ps_range x). split.
  - apply (Inv_frame w h t); auto. apply cud_ok; auto; lia.
  - unfold move_down. apply abs_move; try reflexivity. cbn.
    change (height (set_last t false)) with (height t). rewrite (Inv_height w h t HI).
    destruct HI as [[] ? ?]. unfold dflt1, dflt.
    split_pv x Hx; repeat case_if; lia.
Qed.

Lemma sim_cuf x : pv_ok x ->
  Inv w h (cuf t (clamp_ps x)) /\
  abs (cuf t (clamp_ps x)) = set_pos (abs t) (t_row t) (Z.min (t_col t + dflt x) (w - 1)) false.
Proof.
  intros Hx. pose proof (clamp_ps_range x). split.
  - apply (Inv_frame w h t); auto. apply cuf_ok; auto; lia.
  - apply abs_move; try reflexivity. cbn.
    destruct HI as [[] ? ?]. unfold dflt1, dflt.
    split_pv x Hx; repeat case_if; lia.
Qed.

Lemma sim_cub x : pv_ok x ->
  Inv w h (cub t (clamp_ps x)) /\
  abs (cub t (clamp_ps x)) = set_pos (abs t) (t_row t) (Z.max (t_col t - dflt x) 0) false.
Proof.
  intros Hx. pose proof (clamp_ps_range x). split.
  - apply (Inv_frame w h t); auto. apply cub_ok; auto; lia.
  - apply abs_move; try reflexivity. cbn.
    destruct HI as [[] ? ?]. unfold dflt1, dflt.
    split_pv x Hx; repeat case_if; lia.
Qed.

Lemma sim_cha x : pv_ok x ->
  Inv w h (cha t (clamp_ps x)) /\
  abs (cha t (clamp_ps x)) = set_pos (abs t) (t_row t) (Z.min (dflt x - 1) (w - 1)) false.
Proof.
  intros Hx. pose proof (clamp_ps_range x). split.
  - apply (Inv_frame w h t); auto. apply cha_ok; auto; lia.
  - apply abs_move; try reflexivity. cbn.
    destruct HI as [[] ? ?]. unfold dflt1, dflt.
    split_pv x Hx; repeat case_if; lia.
Qed.

Lemma sim_hpa x : pv_ok x ->
  Inv w h (hpa t (clamp_ps x)) /\
  abs (hpa t (clamp_ps x)) = set_pos (abs t) (t_row t) (Z.min (dflt x - 1) (w - 1)) false.
Proof.
  intros Hx. pose proof (clamp_ps_range x). split.
  - apply (Inv_frame w h t); auto. apply hpa_ok; auto; lia.
  - apply abs_move; try reflexivity. cbn.
    change (width (set_last t false)) with (width t). rewrite (Inv_width w h t HI).
    destruct HI as [[] ? ?]. unfold dflt1, dflt.
    split_pv x Hx; repeat case_if; lia.
Qed.

Lemma sim_hpr x : pv_ok x ->
  Inv w h (hpr t (clamp_ps x)) /\
  abs (hpr t (clamp_ps x)) = set_pos (abs t) (t_row t) (Z.min (t_col t + dflt x) (w - 1)) false.
Proof.
  intros Hx. pose proof (clamp_ps_range x). split.
  - apply (Inv_frame w h t); auto. apply hpr_ok; auto; lia.
  - apply abs_move; try reflexivity. cbn.
    change (width (set_last t false)) with (width t). rewrite (Inv_width w h t HI).
    destruct HI as [[] ? ?]. unfold dflt1, dflt.
    split_pv x Hx; repeat case_if; lia.
Qed.

Lemma sim_vpa x : pv_ok x ->
  Inv w h (vpa t (clamp_ps x)) /\
  abs (vpa t (clamp_ps x)) = set_pos (abs t) (Z.min (dflt x - 1) (h - 1)) (t_col t) false.
Proof.
  intros Hx. pose proof (clamp_ps_range x). split.
  - apply (Inv_frame w h t); auto. apply vpa_ok; auto; lia.
  - apply abs_move; try reflexivity. cbn.
    change (height (set_last t false)) with (height t). rewrite (Inv_height w h t HI).
    destruct HI as [[] ? ?]. unfold dflt1, dflt.
    split_pv x Hx; repeat case_if; lia.
Qed.

Lemma sim_vpr x : pv_ok x ->
  Inv w h (vpr t (clamp_ps x)) /\
  abs (vpr t (clamp_ps x)) = set_pos (abs t) (Z.min (t_row t + dflt x) (h - 1)) (t_col t) false.
Proof.
  intros Hx. pose proof (clamp_ps_range x). split.
  - apply (Inv_frame w h t); auto. apply vpr_ok; auto; lia.
  - apply abs_move; try reflexivity. cbn.
    change (height (set_last t false)) with (height t). rewrite (Inv_height w h t HI).
    destruct HI as [[] ? ?]. unfold dflt1, dflt.
    split_pv x Hx; repeat case_if; lia.
Qed.

End Moves.

Lemma i64_id y : -9223372036854775808 <= y < 9223372036854775808 -> i64 y = y.
Proof.
  intros H; unfold i64.
  destruct (Z_lt_dec y 0).
  - rewrite <- (Z_mod_plus_full y 1 18446744073709551616).
    rewrite Z.mod_small by lia. case_if; lia.
  - rewrite Z.mod_small by lia. case_if; lia.
Qed.

Section Moves2.
Variables (w h : Z) (t : term).
Hypothesis HI : Inv w h t.
Let HW := Inv_WF w h t HI.

Lemma sim_cnl x : pv_ok x ->
  Inv w h (cnl t (clamp_ps x)) /\
  abs (cnl t (clamp_ps x)) = spec_op (abs t) (CNL (Ex x)).
Proof.
  intros Hx. destruct (sim_cud w h t HI x Hx) as [I1 A1]. pose proof (clamp_ps_range x). split.
  - apply (Inv_frame w h t); auto. apply cnl_ok; auto; lia.
  - cbn [spec_op pval]. rewrite <- A1. unfold cnl. apply abs_move; try reflexivity.
    destruct I1 as [[] ? ?]. assumption.
Qed.

Lemma sim_cpl x : pv_ok x ->
  Inv w h (cpl t (clamp_ps x)) /\
  abs (cpl t (clamp_ps x)) = spec_op (abs t) (CPL (Ex x)).
Proof.
  intros Hx. destruct (sim_cuu w h t HI x Hx) as [I1 A1]. pose proof (clamp_ps_range x). split.
  - apply (Inv_frame w h t); auto. apply cpl_ok; auto; lia.
  - cbn [spec_op pval]. rewrite <- A1. unfold cpl. apply abs_move; try reflexivity.
    destruct I1 as [[] ? ?]. assumption.
Qed.

(* cup with the three shapes of parameters the parser delivers *)
Definition cup_fin (t1 : term) : term :=
  let t2 := if t_col t1 >? width t1 - 1 then set_col t1 (width t1 - 1) else t1 in
  let t3 := if t_row t2 >? height t2 - 1 then set_row t2 (height t2 - 1) else t2 in
  let t4 := if t_col t3 <? 0 then set_col t3 0 else t3 in
  if t_row t4 <? 0 then set_row t4 0 else t4.

Lemma cup_eval0 : cup t [] = TOk (cup_fin (set_cursor (set_last t false) 0 0)).
Proof. reflexivity. Qed.
Lemma cup_eval1 x : cup t [[x]] = TOk (cup_fin (set_cursor (set_last t false) (i64 (x - 1)) 0)).
Proof. reflexivity. Qed.
Lemma cup_eval2 x y : cup t [[x]; [y]] = TOk (cup_fin (set_cursor (set_last t false) (i64 (x - 1)) (i64 (y - 1)))).
Proof. reflexivity. Qed.

Lemma cup_fin_sim r c R C :
  pv_ok (pval r) -> pv_ok (pval c) ->
  R = pval r - 1 \/ (R = 0 /\ pval r = 0) -> C = pval c - 1 \/ (C = 0 /\ pval c = 0) ->
  Inv w h (cup_fin (set_cursor (set_last t false) R C)) /\
  abs (cup_fin (set_cursor (set_last t false) R C))
  = set_pos (abs t) (Z.min (dflt (pval r) - 1) (h - 1)) (Z.min (dflt (pval c) - 1) (w - 1)) false.
Proof.
  intros Hr Hc ER EC. unfold pv_ok in *.
  pose proof (Inv_height w h t HI) as Hh. pose proof (Inv_width w h t HI) as Hw.
  unfold cup_fin; cbv zeta.
  change (width (set_cursor (set_last t false) R C)) with (width t). rewrite Hw.
  cbn [t_col t_row set_cursor].
  assert (E : forall b : bool, (if b then set_col (set_cursor (set_last t false) R C) (w - 1) else set_cursor (set_last t false) R C)
           = set_cursor (set_last t false) R (if b then w - 1 else C)) by (intros []; reflexivity).
  rewrite E. change (height (set_cursor (set_last t false) R (if C >? w - 1 then w - 1 else C))) with (height t). rewrite Hh.
  cbn [t_col t_row set_cursor].
  set (C1 := if C >? w - 1 then w - 1 else C).
  assert (E2 : forall b : bool, (if b then set_row (set_cursor (set_last t false) R C1) (h - 1) else set_cursor (set_last t false) R C1)
           = set_cursor (set_last t false) (if b then h - 1 else R) C1) by (intros []; reflexivity).
  rewrite E2. cbn [t_col t_row set_cursor].
  set (R1 := if R >? h - 1 then h - 1 else R).
  assert (E3 : forall b : bool, (if b then set_col (set_cursor (set_last t false) R1 C1) 0 else set_cursor (set_last t false) R1 C1)
           = set_cursor (set_last t false) R1 (if b then 0 else C1)) by (intros []; reflexivity).
  rewrite E3. cbn [t_col t_row set_cursor].
  set (C2 := if C1 <? 0 then 0 else C1).
  assert (E4 : forall b : bool, (if b then set_row (set_cursor (set_last t false) R1 C2) 0 else set_cursor (set_last t false) R1 C2)
           = set_cursor (set_last t false) (if b then 0 else R1) C2) by (intros []; reflexivity).
  rewrite E4.
  set (R2 := if R1 <? 0 then 0 else R1).
  assert (HR2 : R2 = Z.min (dflt (pval r) - 1) (h - 1)).
  { unfold R2, R1, dflt. destruct HI as [? ? ?]. repeat case_if; lia. }
  assert (HC2 : C2 = Z.min (dflt (pval c) - 1) (w - 1)).
  { unfold C2, C1, dflt. destruct HI as [? ? ?]. repeat case_if; lia. }
  rewrite HR2, HC2. clear HR2 HC2 R2 C2 E4 E3 E2 E R1 C1.
  split.
  - apply (Inv_frame w h t); auto.
    apply WFs_set_cursor; [now apply WFs_set_last | |]; destruct HI as [? ? ?]; unfold dflt in *; repeat case_if; lia.
  - apply abs_move; auto.
Qed.

Lemma sim_cup r c : par_ok r = true -> par_ok c = true ->
  exists t', cup t (p2 r c) = TOk t' /\ Inv w h t' /\
    abs t' = set_pos (abs t) (Z.min (dflt (pval r) - 1) (h - 1)) (Z.min (dflt (pval c) - 1) (w - 1)) false.
Proof.
  intros Hr Hc. apply par_ok_pv in Hr; apply par_ok_pv in Hc.
  destruct r as [|x]; destruct c as [|y]; cbn [p2 pval] in *; unfold pv_ok in *.
  - rewrite cup_eval0. eexists; split; [reflexivity|].
    apply (cup_fin_sim Om Om); unfold pv_ok; cbn [pval]; try lia; first [left; reflexivity | right; split; reflexivity].
  - rewrite cup_eval2, !i64_id by lia. eexists; split; [reflexivity|].
    apply (cup_fin_sim Om (Ex y)); unfold pv_ok; cbn [pval]; try lia; first [left; reflexivity | right; split; reflexivity].
  - rewrite cup_eval1, !i64_id by lia. eexists; split; [reflexivity|].
    apply (cup_fin_sim (Ex x) Om); unfold pv_ok; cbn [pval]; try lia; first [left; reflexivity | right; split; reflexivity].
  - rewrite cup_eval2, !i64_id by lia. eexists; split; [reflexivity|].
    apply (cup_fin_sim (Ex x) (Ex y)); unfold pv_ok; cbn [pval]; try lia; first [left; reflexivity | right; split; reflexivity].
Qed.

End Moves2.

Lemma width_set_cursor t r c : width (set_cursor t r c) = width t. Proof. reflexivity. Qed.
Lemma height_set_cursor t r c : height (set_cursor t r c) = height t. Proof. reflexivity. Qed.
Lemma width_set_row t r : width (set_row t r) = width t. Proof. reflexivity. Qed.
Lemma height_set_row t r : height (set_row t r) = height t. Proof. reflexivity. Qed.
Lemma width_set_col t r : width (set_col t r) = width t. Proof. reflexivity. Qed.
Lemma height_set_col t r : height (set_col t r) = height t. Proof. reflexivity. Qed.
Lemma width_set_last t r : width (set_last t r) = width t. Proof. reflexivity. Qed.
Lemma height_set_last t r : height (set_last t r) = height t. Proof. reflexivity. Qed.

Ltac wh_norm :=
  repeat first [ rewrite width_set_cursor | rewrite height_set_cursor | rewrite width_set_row
               | rewrite height_set_row | rewrite width_set_col | rewrite height_set_col
               | rewrite width_set_last | rewrite height_set_last ].

Lemma abs_fields t t' :
  t_prim t' = t_prim t -> t_alt t' = t_alt t -> t_onalt t' = t_onalt t ->
  t_top t' = t_top t -> t_bot t' = t_bot t -> t_svp t' = t_svp t -> t_sva t' = t_sva t ->
  abs t' = set_vpen (set_pos (abs t) (t_row t') (t_col t') (t_last t')) (t_pen t').
Proof.
  intros E1 E2 E3 E5 E6 E7 E8.
  unfold abs, set_pos, set_vpen, height, width, active;
    cbn [v_rows v_cols v_grid v_hidden v_pen v_top v_bot v_saved_n v_saved_a v_row v_col v_pending].
  rewrite E1, E2, E3, E5, E6, E7, E8. reflexivity.
Qed.

Section Moves3.
Variables (w h : Z) (t : term).
Hypothesis HI : Inv w h t.
Let HW := Inv_WF w h t HI.

Definition decstbm_fin (top bot : Z) : tres term :=
  let hh := height t in
  let top := if top <? 0 then 0 else top in
  let bot := if (bot <? 0) || (bot >? hh - 1) then hh - 1 else bot in
  if top >=? bot then TOk t
  else TOk (set_cursor (set_margins (set_last t false) top bot (t_left t) (t_right t)) 0 0).

Lemma decstbm_eval0 : decstbm t [] = decstbm_fin 0 (height t - 1).
Proof. reflexivity. Qed.
Lemma decstbm_eval1 a : decstbm t [[a]] = decstbm_fin (i64 (a - 1)) (height t - 1).
Proof. reflexivity. Qed.
Lemma decstbm_eval2 a b : decstbm t [[a]; [b]] = decstbm_fin (i64 (a - 1)) (i64 (b - 1)).
Proof. reflexivity. Qed.

Lemma decstbm_fin_sim a b T B :
  pv_ok a -> pv_ok b ->
  T = a - 1 \/ (T = 0 /\ a = 0) -> B = b - 1 \/ (B = h - 1 /\ b = 0) ->
  exists t', decstbm_fin T B = TOk t' /\ Inv w h t' /\ abs t' = set_margins_tb (abs t) a b.
Proof.
  intros Ha Hb ET EB. unfold pv_ok in *. unfold decstbm_fin; cbv zeta.
  rewrite (Inv_height w h t HI).
  unfold set_margins_tb. rewrite (abs_rows w h t HI).
  set (T1 := if T <? 0 then 0 else T).
  set (B1 := if (B <? 0) || (B >? h - 1) then h - 1 else B).
  set (b' := if b =? 0 then h else Z.min b h).
  assert (HT1 : T1 = dflt a - 1) by (unfold T1, dflt; repeat case_if; lia).
  assert (Hb' : 1 <= b' <= h) by (unfold b'; destruct HI as [? ? ?]; case_if; lia).
  assert (HB1 : B1 = b' - 1).
  { unfold B1, b'. destruct HI as [? ? ?]. repeat case_if; lia. }
  assert (Hd : 1 <= dflt a) by (unfold dflt; case_if; lia).
  clearbody T1 B1 b'. subst T1 B1.
  destruct (dflt a <? b') eqn:C.
  - destruct (dflt a - 1 >=? b' - 1) eqn:C2; [exfalso; lia|].
    eexists; split; [reflexivity|]. split.
    + apply (Inv_frame w h t); auto.
      apply WFs_set_cursor; [| destruct HI as [? ? ?]; lia | destruct HI as [? ? ?]; lia].
      apply (WFs_set_margins 0 w h (set_last t false)); [now apply WFs_set_last | | |]; lia.
    + reflexivity.
  - destruct (dflt a - 1 >=? b' - 1) eqn:C2; [|exfalso; lia].
    eexists; split; [reflexivity|]. split; [assumption | reflexivity].
Qed.

Lemma sim_decstbm a b : par_ok a = true -> par_ok b = true ->
  exists t', decstbm t (p2 a b) = TOk t' /\ Inv w h t' /\ abs t' = set_margins_tb (abs t) (pval a) (pval b).
Proof.
  intros Ha Hb. apply par_ok_pv in Ha; apply par_ok_pv in Hb.
  pose proof (Inv_height w h t HI) as Hh.
  destruct a as [|x]; destruct b as [|y]; cbn [p2 pval] in *; unfold pv_ok in *.
  - rewrite decstbm_eval0, Hh. apply decstbm_fin_sim; unfold pv_ok; try lia;
      first [left; reflexivity | right; split; reflexivity].
  - rewrite decstbm_eval2, !i64_id by lia. apply decstbm_fin_sim; unfold pv_ok; try lia;
      first [left; reflexivity | right; split; reflexivity].
  - rewrite decstbm_eval1, Hh, !i64_id by lia. apply decstbm_fin_sim; unfold pv_ok; try lia;
      first [left; reflexivity | right; split; reflexivity].
  - rewrite decstbm_eval2, !i64_id by lia. apply decstbm_fin_sim; unfold pv_ok; try lia;
      first [left; reflexivity | right; split; reflexivity].
Qed.

Lemma on_alt_abs : on_alt (abs t) = t_onalt t.
Proof. unfold on_alt, abs; cbn. destruct (t_onalt t); reflexivity. Qed.

Lemma sim_decsc : Inv w h (decsc t) /\ abs (decsc t) = save_cursor (abs t).
Proof.
  pose proof HI as [? ? ? ? ? Hawm Halt [Hss Hdes] ? ?].
  assert (Hsp : saved_plain (save_of t)).
  { split; [exact Hawm|]. split; [reflexivity|]. exact Hdes. }
  split.
  - unfold decsc. rewrite Halt. destruct (t_onalt t) eqn:E.
    + constructor; cbn [t_md t_cs t_svp t_sva t_onalt set_sva]; try assumption.
      * apply WFs_set_sva; [assumption | apply (save_of_ok 0 w h); assumption].
      * rewrite E; assumption.
      * split; assumption.
    + constructor; cbn [t_md t_cs t_svp t_sva t_onalt set_svp]; try assumption.
      * apply WFs_set_svp; [assumption | apply (save_of_ok 0 w h); assumption].
      * rewrite E; assumption.
      * split; assumption.
  - unfold save_cursor. rewrite on_alt_abs. unfold decsc. rewrite Halt.
    destruct (t_onalt t) eqn:E; unfold abs, height, width, active; cbn; rewrite E; reflexivity.
Qed.

Lemma sim_decrc : Inv w h (decrc t) /\ abs (decrc t) = restore_cursor (abs t).
Proof.
  pose proof HI as [? ? ? Hirm Hlnm Hawm Halt [Hss Hdes] [Hpa Hpc] [Haa Hac]].
  pose proof (Inv_height w h t HI) as Hh. pose proof (Inv_width w h t HI) as Hw.
  split.
  - constructor; auto.
    + now apply decrc_ok.
    + unfold decrc; cbv zeta; repeat case_if; cbn; assumption.
    + unfold decrc; cbv zeta; repeat case_if; cbn; assumption.
    + unfold decrc; cbv zeta. rewrite Halt. destruct (t_onalt t); repeat case_if; cbn; assumption.
    + unfold decrc; cbv zeta; repeat case_if; cbn; congruence.
    + unfold decrc; cbv zeta. rewrite Halt.
      destruct (t_onalt t); repeat case_if; cbn;
        first [destruct Hac as [? Hd]; split; [reflexivity | exact Hd]
              | destruct Hpc as [? Hd]; split; [reflexivity | exact Hd]].
    + unfold decrc; cbv zeta; repeat case_if; cbn; split; assumption.
    + unfold decrc; cbv zeta; repeat case_if; cbn; split; assumption.
  - unfold restore_cursor. rewrite on_alt_abs.
    rewrite (abs_fields t (decrc t)); try (unfold decrc; cbv zeta; repeat case_if; reflexivity).
    unfold clamp_pos. rewrite (abs_rows w h t HI), (abs_cols w h t HI).
    unfold decrc; cbv zeta. rewrite Halt.
    destruct (t_onalt t) eqn:E; cbn [abs v_saved_a v_saved_n abs_saved].
    all: wh_norm; rewrite ?Hh, ?Hw.
    all: cbn [t_row t_col set_cursor].
    all: match goal with |- context[s_row ?s >? h - 1] => destruct (s_row s >? h - 1) eqn:C1 end.
    all: wh_norm; rewrite ?Hh, ?Hw.
    all: cbn [t_row t_col set_cursor set_row set_col].
    all: match goal with |- context[s_col ?s >? w - 1] => destruct (s_col s >? w - 1) eqn:C2 end.
    all: cbn.
    all: unfold set_vpen, set_pos; cbn; f_equal; lia.
Qed.

End Moves3.

(* ------------------------------------------------------------------ grids: tools *)

Lemma zget_zskipn' {A} (l : list A) n i : zget (zskipn n l) i = if i <? 0 then None else zget l (i + Z.max 0 n).
Proof.
  destruct (Z_le_dec 0 n).
  - rewrite zget_zskipn by lia. replace (Z.max 0 n) with n by lia. reflexivity.
  - unfold zskipn. replace (Z.to_nat n) with O by lia. cbn [skipn].
    replace (i + Z.max 0 n) with i by lia. case_if; [now rewrite zget_neg by lia | reflexivity].
Qed.

#[local] Hint Rewrite @zget_app_if @zget_map @zget_zfirstn @zget_zskipn' @zget_zrepeat @zget_single
  @zlen_app @zlen_map @zlen_zfirstn @zlen_zskipn @zlen_zrepeat @zlen_single : zg.

(* the end game of a pointwise proof: split on every index test, close by arithmetic *)
Ltac pw_finish :=
  repeat case_if; try (exfalso; zl); try reflexivity;
  try (f_equal; zl); try (f_equal; f_equal; zl).

Lemma abs_set_active w h t g' :
  Inv w h t -> grid_ok w h g' -> abs (set_active t g') = set_grid (abs t) (abs_grid g').
Proof.
  intros HI Hg.
  assert (Hh : height (set_active t g') = height t).
  { unfold height. rewrite active_set_active. destruct Hg as [Hl _]. rewrite Hl. symmetry. apply (Inv_height w h t HI). }
  assert (Hw : width (set_active t g') = width t).
  { unfold width at 1. rewrite active_set_active. rewrite (Inv_width w h t HI).
    destruct Hg as [Hl HF]. destruct g' as [|r g']; [rewrite zlen_nil in Hl; destruct HI; lia|].
    inversion HF as [|? ? Hr]; subst; apply Hr. }
  unfold abs at 1. rewrite Hh, Hw, active_set_active.
  unfold set_active. destruct (t_onalt t) eqn:E; unfold abs, set_grid; cbn; rewrite E; reflexivity.
Qed.

Lemma cur_line_abs w h t line : Inv w h t -> zget (active t) (t_row t) = Some line ->
  cur_line (abs t) = abs_line line.
Proof. intros HI Hg. unfold cur_line, abs; cbn [v_row v_grid]. now apply at_abs_grid. Qed.

(* an operation that rewrites the cursor's line *)
Lemma abs_row_op w h t line line' :
  Inv w h t -> zget (active t) (t_row t) = Some line -> row_ok w line' ->
  abs (set_active t (upd_nat (active t) (Z.to_nat (t_row t)) line'))
  = set_cur_line (abs t) (abs_line line').
Proof.
  intros HI Hg Hl'.
  pose proof (Inv_WF w h t HI) as HW. destruct (WFs_active _ _ _ _ HW) as [Hlen HF].
  assert (Hr : 0 <= t_row t < zlen (active t)) by (destruct HW; lia).
  rewrite (abs_set_active w h); auto.
  - unfold set_cur_line. f_equal. rewrite abs_grid_upd by assumption. reflexivity.
  - split; [rewrite zlen_upd_nat; assumption | now apply upd_nat_Forall].
Qed.

Lemma Inv_set_active w h t g' : Inv w h t -> grid_ok w h g' -> Inv w h (set_active t g').
Proof.
  intros HI Hg. apply (Inv_frame w h t); auto.
  - apply WFs_set_active; [apply HI | assumption].
  - unfold set_active; destruct (t_onalt t); reflexivity.
  - unfold set_active; destruct (t_onalt t); reflexivity.
  - unfold set_active; destruct (t_onalt t); reflexivity.
  - unfold set_active; destruct (t_onalt t); reflexivity.
  - unfold set_active; destruct (t_onalt t) eqn:E; cbn; rewrite ?E; reflexivity.
Qed.

Lemma Inv_set_last w h t b : Inv w h t -> Inv w h (set_last t b).
Proof. intros HI. apply (Inv_frame w h t); auto. apply WFs_set_last, HI. Qed.

Lemma abs_set_last_false t : t_last t = false -> abs (set_last t false) = abs t.
Proof. intros H. unfold abs; cbn. rewrite H. reflexivity. Qed.

(* the cursor's line exists *)
Lemma cur_row w h t : Inv w h t -> exists line, zget (active t) (t_row t) = Some line /\ row_ok w line.
Proof.
  intros HI. pose proof (Inv_WF w h t HI) as HW. destruct (WFs_active _ _ _ _ HW) as [Hlen HF].
  apply zget_ok; [destruct HW; lia | assumption].
Qed.

(* erasing a range of a line *)
Lemma abs_line_erase bgc lo hi (l : trow) :
  0 <= lo -> lo <= hi -> hi <= zlen l ->
  abs_line (map_range (erase_cell bgc) lo hi l)
  = zfirstn lo (abs_line l) ++ zrepeat (Blank bgc) (hi - lo) ++ zskipn hi (abs_line l).
Proof.
  intros H1 H2 H3. apply list_ext_all; intros i. unfold abs_line.
  rewrite zget_map, zget_map_range by assumption. autorewrite with zg.
  destruct (Z_lt_dec i 0); [rewrite !zget_neg by lia; pw_finish|].
  destruct (zget l i) as [c|] eqn:G.
  - pose proof (zget_some_range _ _ _ G). pw_finish.
    all: try (rewrite G; reflexivity).
    all: try (replace (i - Z.min (Z.max 0 lo) (zlen l) - Z.max 0 (hi - lo) + Z.max 0 hi) with i by zl; rewrite G; reflexivity).
  - apply zget_none_range in G. pw_finish.
    all: try (rewrite zget_beyond by zl; reflexivity).
Qed.

Lemma zskipn_all {A} (l : list A) n : zlen l <= n -> zskipn n l = [].
Proof. intros H; unfold zskipn; apply skipn_all2; unfold zlen in H; lia. Qed.

Lemma zfirstn_all {A} (l : list A) n : zlen l <= n -> zfirstn n l = l.
Proof. intros H; unfold zfirstn; apply firstn_all2; unfold zlen in H; lia. Qed.

Lemma zfirstn_zskipn {A} (l : list A) n : zfirstn n l ++ zskipn n l = l.
Proof. unfold zfirstn, zskipn; apply firstn_skipn. Qed.

Lemma zlen_abs_line l : zlen (abs_line l) = zlen l.
Proof. unfold abs_line; apply zlen_map. Qed.

Lemma put_same {A} (d : A) (g : list A) r : 0 <= r < zlen g -> put r (at_ d r g) g = g.
Proof.
  intros Hr. apply list_ext_all; intros i. unfold put. autorewrite with zg.
  destruct (Z_lt_dec i 0); [rewrite !zget_neg by lia; pw_finish|].
  pw_finish.
  - assert (i = r) by lia; subst. unfold at_, zget. destruct (r <? 0) eqn:E; [lia|].
    symmetry. apply nth_error_nth'. unfold zlen in Hr; lia.
Qed.

Lemma set_cur_line_same w h t : Inv w h t -> set_cur_line (abs t) (cur_line (abs t)) = abs t.
Proof.
  intros HI. unfold set_cur_line, cur_line, set_grid.
  rewrite put_same.
  - unfold abs; reflexivity.
  - unfold abs; cbn [v_row v_grid]. unfold abs_grid. rewrite zlen_map.
    pose proof (Inv_WF w h t HI) as HW. destruct (WFs_active _ _ _ _ HW) as [Hlen _]. destruct HW; zl.
Qed.

Section RowOps.
Variables (w h : Z) (t : term).
Hypothesis HI : Inv w h t.
Hypothesis Hlast : t_last t = false.
Let HW := Inv_WF w h t HI.

(* erase_in_row on the cursor's line, in the reference terminal's terms *)
Lemma erase_in_row_sim lo hi :
  0 <= lo -> lo <= hi -> hi <= w ->
  exists t', erase_in_row (set_last t false) (t_row t) lo hi = TOk t' /\ Inv w h t' /\
    abs t' = set_cur_line (abs t)
               (zfirstn lo (cur_line (abs t)) ++ blanks (abs t) (hi - lo) ++ zskipn hi (cur_line (abs t))).
Proof.
  intros H1 H2 H3.
  pose proof (Inv_set_last w h t false HI) as HI1.
  destruct (cur_row w h t HI) as [line [Hg [Hl HF]]].
  rewrite (cur_line_abs w h t line HI Hg).
  unfold erase_in_row, range_in_row. destruct (lo <? hi) eqn:E.
  - erewrite (on_row_eval 0 w h (set_last t false)); [| apply HI1 | destruct HW; cbn; lia | exact Hg |].
    2:{ unfold upd_range. rewrite E. destruct ((lo <? 0) || (zlen line <? hi)) eqn:E2; [lia|]. reflexivity. }
    eexists; split; [reflexivity|]. split.
    + apply Inv_set_active; auto. split.
      * rewrite zlen_upd_nat. apply (WFs_active _ _ _ _ HW).
      * apply upd_nat_Forall; [apply (WFs_active _ _ _ _ HW)|].
        split; [rewrite map_range_length; lia|]. apply map_range_Forall; auto.
        intros c _; unfold cell_ok; simpl; lia.
    + change (t_row t) with (t_row (set_last t false)) at 1.
      rewrite (abs_row_op w h (set_last t false) line); auto.
      * rewrite (abs_set_last_false t Hlast). f_equal. now apply abs_line_erase; lia.
      * split; [rewrite map_range_length; lia|]. apply map_range_Forall; auto.
        intros c _; unfold cell_ok; simpl; lia.
  - assert (lo = hi) by lia; subst hi. exists (set_last t false). split; [reflexivity|]. split; auto.
    rewrite (abs_set_last_false t Hlast). replace (lo - lo) with 0 by lia.
    unfold blanks; cbn [zrepeat Z.to_nat repeat app]. rewrite zfirstn_zskipn.
    rewrite <- (cur_line_abs w h t line HI Hg). symmetry. now apply (set_cur_line_same w h).
Qed.

Lemma sim_el x : pv_ok x ->
  exists t', el t (clamp_ps x) = TOk t' /\ Inv w h t' /\ abs t' = erase_line (abs t) x.
Proof.
  intros Hx. unfold el; cbv zeta. change (width (set_last t false)) with (width t). rewrite (Inv_width w h t HI).
  change (t_col (set_last t false)) with (t_col t).
  destruct (cur_row w h t HI) as [line [Hg [Hl HF]]].
  assert (HL : zlen (cur_line (abs t)) = w) by (rewrite (cur_line_abs w h t line HI Hg), zlen_abs_line; exact Hl).
  unfold erase_line. rewrite (abs_cols w h t HI). change (v_col (abs t)) with (t_col t).
  split_pv x Hx.
  - destruct (x =? 0) eqn:E0; [|destruct (x =? 1) eqn:E1; [|destruct (x =? 2) eqn:E2]].
    + destruct (erase_in_row_sim (t_col t) w) as [t' [E [I A]]]; [destruct HW; lia | destruct HW; lia | lia|].
      exists t'; split; [exact E|]; split; [exact I|]. rewrite A. f_equal.
      rewrite (zskipn_all (cur_line (abs t)) w) by lia. now rewrite app_nil_r.
    + destruct (erase_in_row_sim 0 (t_col t + 1)) as [t' [E [I A]]]; [lia | destruct HW; lia | destruct HW; lia|].
      exists t'; split; [exact E|]; split; [exact I|]. rewrite A. f_equal. replace (t_col t + 1 - 0) with (t_col t + 1) by lia. reflexivity.
    + destruct (erase_in_row_sim 0 w) as [t' [E [I A]]]; [lia | destruct HI; lia | lia|].
      exists t'; split; [exact E|]; split; [exact I|]. rewrite A. f_equal.
      rewrite (zskipn_all (cur_line (abs t)) w) by lia. rewrite app_nil_r. replace (w - 0) with w by lia.
      unfold blank_line. rewrite (abs_cols w h t HI). reflexivity.
    + exists (set_last t false). split; [reflexivity|]. split; [now apply Inv_set_last | now apply abs_set_last_false].
  - assert (x =? 0 = false) as -> by lia. assert (x =? 1 = false) as -> by lia. assert (x =? 2 = false) as -> by lia.
    cbn. exists (set_last t false). split; [reflexivity|]. split; [now apply Inv_set_last | now apply abs_set_last_false].
Qed.

Lemma sim_ech x : pv_ok x ->
  exists t', ech t (clamp_ps x) = TOk t' /\ Inv w h t' /\ abs t' = erase_chars (abs t) (dflt x).
Proof.
  intros Hx. unfold ech; cbv zeta. change (width (set_last t false)) with (width t). rewrite (Inv_width w h t HI).
  change (t_col (set_last t false)) with (t_col t). change (t_row (set_last t false)) with (t_row t).
  unfold erase_chars. rewrite (abs_cols w h t HI). change (v_col (abs t)) with (t_col t).
  assert (Hc : (t_col t <=? w) = true) by (destruct HW; lia). rewrite Hc.
  set (k := Z.min (dflt x) (w - t_col t)).
  assert (Hk : Z.min (t_col t + dflt1 (clamp_ps x)) w = t_col t + k).
  { unfold k, dflt1, dflt. destruct HI as [[] ? ?]. split_pv x Hx; repeat case_if; lia. }
  rewrite Hk.
  assert (Hk0 : 0 <= k) by (pose proof Hx as Hx'; unfold pv_ok in Hx'; unfold k, dflt; destruct HW; case_if; lia).
  destruct (erase_in_row_sim (t_col t) (t_col t + k)) as [t' [E [I A]]]; [destruct HW; lia | lia | unfold k; lia|].
  exists t'; split; [exact E|]; split; [exact I|]. rewrite A. f_equal. replace (t_col t + k - t_col t) with k by lia. reflexivity.
Qed.

End RowOps.
