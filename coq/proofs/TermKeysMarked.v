(* C13: the sentinel variant of the host's read (host_read_marked, what the key / paste / mouse / child / hist
   streams compare against) is host_read up to the marker.
   The marker ESC [ I is delivered as one focus-in report from EVERY parser state: the ESC ends whatever was
   pending exactly as the end of input would have ended it. *)
From Vx Require Import base.Prelude gen.GenKeys gen.GenTermKeys model.Keys model.ParserTypes gen.GenParser model.Parser model.Vt500Spec
  model.TermMouse model.TermKeys proofs.ParserTable proofs.ParserConform proofs.ParserSem proofs.ParserLife.
Local Open Scope Z_scope.

(* what the end of a pending string delivers *)
Definition pending_body (p : pst) : list item :=
  match exitf p with Some e => snd (run_exit e p) | None => [] end.

Lemma sentinel_any p :
  snd (fst (feed p [27; 91; 73])) = pending_body p ++ [ICsi [] [] 73] /\
  snd (feed p [27; 91; 73]) = true /\
  finish (fst (fst (feed p [27; 91; 73]))) = [IEof] /\
  finish p = pending_body p ++ [IEof].
Proof.
  destruct p as [s e i pa ig od ad d tm].
  destruct s; destruct e as [[]|]; cbv; repeat split; reflexivity.
Qed.

Lemma canon_app_marker i ps f l : canon (l ++ [ICsi i ps f; IEof]) = canon l ++ [ICsi i ps f; IEof].
Proof.
  induction l as [|x t IH]; [reflexivity|].
  destruct x; cbn [app canon]; rewrite ?IH; try reflexivity.
  destruct (canon t) as [|y t']; [reflexivity|]. destruct y; reflexivity.
Qed.

Lemma canon_app_eof' l : canon (l ++ [IEof]) = canon l ++ [IEof].
Proof.
  induction l as [|x t IH]; [reflexivity|].
  destruct x; cbn [app canon]; rewrite ?IH; try reflexivity.
  destruct (canon t) as [|y t']; [reflexivity|]. destruct y; reflexivity.
Qed.

Lemma host_items_marker u seg : forall l paste,
  host_items u seg paste (l ++ [ICsi [] [] 73; IEof]) = host_items u seg paste l ++ [HFocusIn].
Proof.
  induction l as [|x t IH]; intros paste.
  - destruct paste; reflexivity.
  - destruct x as [rs|c|ei ef|c|ci cps cf|pl|df di dp dd|ad| | |]; cbn [app host_items]; rewrite ?IH; try reflexivity.
    + now rewrite app_assoc.
    + destruct (host_csi u paste ci cps cf) as [evs paste']. rewrite IH. now rewrite app_assoc.
Qed.

Lemma host_items_eof u seg : forall l paste,
  host_items u seg paste (l ++ [IEof]) = host_items u seg paste l.
Proof.
  induction l as [|x t IH]; intros paste.
  - reflexivity.
  - destruct x as [rs|c|ei ef|c|ci cps cf|pl|df di dp dd|ad| | |]; cbn [app host_items]; rewrite ?IH; try reflexivity.
    destruct (host_csi u paste ci cps cf) as [evs paste']. now rewrite IH.
Qed.

(* the read loop is still running after the bytes (it stops only on the end-of-input rune) *)
Definition reads_on (bs : list Z) : bool := let '(_, _, go) := feed pinit (decode_all bs) in go.
(* ... and the Escape timer is not armed (the bytes do not end in a lone ESC) *)
Definition timer_off (bs : list Z) : bool := let '(p, _, _) := feed pinit (decode_all bs) in negb (timer p).

(* with a pause before the marker: for EVERY byte string *)
Theorem marked_paused u seg bs : reads_on bs = true ->
  host_read_marked u seg true bs = Some (host_read u seg bs).
Proof.
  unfold reads_on, host_read_marked, host_read, parse_segments. cbn [feed_segments].
  change (decode_all sentinel) with [27; 91; 73]. change (decode_all []) with (@nil Z).
  destruct (feed pinit (decode_all bs)) as [[p1 o1] go]. intros ->.
  destruct (timer_fire p1) as [p2 o2].
  destruct (sentinel_any p2) as (Ho & Hgo & Hf3 & Hf2).
  destruct (feed p2 [27; 91; 73]) as [[p3 o3] go3]. cbn [fst snd] in Ho, Hgo, Hf3. subst go3 o3. cbn [feed].
  rewrite Hf3, Hf2.
  replace ((o1 ++ o2 ++ pending_body p2 ++ [ICsi [] [] 73]) ++ [IEof])
    with ((o1 ++ o2 ++ pending_body p2) ++ [ICsi [] [] 73; IEof])
    by (rewrite <- !app_assoc; reflexivity).
  replace ((o1 ++ o2 ++ []) ++ pending_body p2 ++ [IEof])
    with ((o1 ++ o2 ++ pending_body p2) ++ [IEof])
    by (rewrite app_nil_r, <- !app_assoc; reflexivity).
  rewrite canon_app_marker, canon_app_eof', host_items_marker, host_items_eof.
  rewrite rev_app_distr. cbn [rev app]. now rewrite rev_involutive.
Qed.

(* ---------- the marker in the same read (no pause) ---------- *)
(* the marker's bytes are no continuation bytes: decoding does not run into it *)
Lemma decode1_marker b0 t :
  exists r rest, decode1 (b0 :: t) = Some (r, rest) /\ (length rest <= length t)%nat /\
                 decode1 ((b0 :: t) ++ [27; 91; 73]) = Some (r, rest ++ [27; 91; 73]).
Proof.
  unfold decode1. cbn [app].
  destruct (b0 <? 128); [do 2 eexists; repeat split; auto|].
  destruct (in_range b0 194 223).
  { destruct t as [|b1 t1]; cbn [app].
    - do 2 eexists; repeat split; auto.
    - destruct (cont b1); do 2 eexists; repeat split; cbn [length]; auto; lia. }
  destruct (in_range b0 224 239).
  { destruct t as [|b1 [|b2 t2]]; cbn [app].
    - replace (cont 91) with false by reflexivity. rewrite andb_false_r. do 2 eexists; repeat split; auto.
    - replace (cont 27) with false by reflexivity. rewrite andb_false_r. do 2 eexists; repeat split; auto.
    - destruct (in_range b1 _ _ && cont b2); do 2 eexists; repeat split; cbn [length]; auto; lia. }
  destruct (in_range b0 240 244).
  { destruct t as [|b1 [|b2 [|b3 t3]]]; cbn [app].
    - replace (cont 73) with false by reflexivity. rewrite andb_false_r. do 2 eexists; repeat split; auto.
    - replace (cont 91) with false by reflexivity. rewrite andb_false_r. do 2 eexists; repeat split; auto.
    - replace (cont 27) with false by reflexivity. rewrite andb_false_r. do 2 eexists; repeat split; auto.
    - destruct (in_range b1 _ _ && cont b2 && cont b3); do 2 eexists; repeat split; cbn [length]; auto; lia. }
  do 2 eexists; repeat split; auto.
Qed.

Lemma decode_fuel_marker : forall n bs, (length bs <= n)%nat ->
  decode_fuel (n + 3) (bs ++ [27; 91; 73]) = decode_fuel n bs ++ [27; 91; 73].
Proof.
  induction n as [|n IH]; intros bs Hl.
  - destruct bs; [reflexivity|cbn [length] in Hl; lia].
  - destruct bs as [|b0 t].
    + cbn [app]. replace (S n + 3)%nat with (S (S (S (S n)))) by lia.
      cbn. destruct n; reflexivity.
    + destruct (decode1_marker b0 t) as (r & rest & Hd & Hlen & Hm).
      cbn [length] in Hl. cbn [Nat.add decode_fuel]. rewrite Hm, Hd. rewrite IH by lia. reflexivity.
Qed.

Lemma decode_all_marker bs : decode_all (bs ++ [27; 91; 73]) = decode_all bs ++ [27; 91; 73].
Proof. unfold decode_all. rewrite app_length. cbn [length]. apply decode_fuel_marker. lia. Qed.

(* the marker in the same read: whenever the Escape timer is not armed after the bytes *)
Theorem marked_unpaused u seg bs : reads_on bs = true -> timer_off bs = true ->
  host_read_marked u seg false bs = Some (host_read u seg bs).
Proof.
  unfold reads_on, timer_off, host_read_marked, host_read, parse_segments. cbn [feed_segments].
  unfold sentinel. rewrite decode_all_marker, feed_app. change (decode_all []) with (@nil Z).
  destruct (feed pinit (decode_all bs)) as [[p1 o1] go]. intros -> Ht.
  unfold timer_fire. destruct (timer p1); [discriminate|].
  destruct (sentinel_any p1) as (Ho & Hgo & Hf3 & Hf2).
  destruct (feed p1 [27; 91; 73]) as [[p3 o3] go3]. cbn [fst snd] in Ho, Hgo, Hf3. subst go3 o3. cbn [feed].
  rewrite Hf3, Hf2.
  replace ((o1 ++ pending_body p1 ++ [ICsi [] [] 73]) ++ [IEof])
    with ((o1 ++ pending_body p1) ++ [ICsi [] [] 73; IEof])
    by (rewrite <- !app_assoc; reflexivity).
  replace ((o1 ++ [] ++ []) ++ pending_body p1 ++ [IEof])
    with ((o1 ++ pending_body p1) ++ [IEof])
    by (cbn [app]; rewrite app_nil_r, <- !app_assoc; reflexivity).
  rewrite canon_app_marker, canon_app_eof', host_items_marker, host_items_eof.
  rewrite rev_app_distr. cbn [rev app]. now rewrite rev_involutive.
Qed.

(* the harness's rule: pause exactly when needed is not required — a pause is always sound; no pause is
   sound when the timer is off *)
Definition marker_sound (pause : bool) (bs : list Z) : bool := reads_on bs && (pause || timer_off bs).

Theorem marked_is_read u seg pause bs : marker_sound pause bs = true ->
  host_read_marked u seg pause bs = Some (host_read u seg bs).
Proof.
  unfold marker_sound. intros H. apply andb_prop in H as [Hr Hp]. destruct pause.
  - apply marked_paused; exact Hr.
  - apply marked_unpaused; [exact Hr|exact Hp].
Qed.

(* ---------- every byte string, with the harness's pause rule ---------- *)
(* the read loop stops only on the end-of-input rune *)
Lemma step_goes p r : r <> eof_rune -> let '(p', o, go) := step p r in go = true.
Proof.
  intros Hr. rewrite step_is_spec_step. unfold spec_step. cbn [andb]. cbv zeta.
  change (st (set_timer p false)) with (st p).
  assert (E : (r =? eof_rune) = false) by (apply Z.eqb_neq; exact Hr).
  unfold spec_anywhere. rewrite E.
  destruct ((r =? 24) || (r =? 26)).
  { unfold run_trans; cbn -[in_range]. destruct (exitf p) as [[]|]; reflexivity. }
  destruct (r =? 27).
  { unfold run_trans; cbn -[in_range]. destruct (exitf p) as [[]|]; reflexivity. }
  destruct (st p); unfold spec_trans, spec_post, c0exec; rewrite ?E; break_ifs;
    unfold run_trans; cbn -[in_range csi_params dcs_params];
    try (destruct (ignoreST p); cbn -[in_range csi_params dcs_params]);
    try (destruct (params p); cbn -[in_range csi_params dcs_params]);
    try (match goal with |- context [dcs_params ?a ?b ?c] => destruct (dcs_params a b c) end; cbn -[in_range csi_params dcs_params]);
    try (destruct (exitf p) as [[]|]; cbn -[in_range csi_params dcs_params]);
    reflexivity.
Qed.

Definition nonneg (bs : list Z) : bool := forallb (fun b => 0 <=? b) bs.

(* one decoded rune: it is not the end-of-input rune, what is left is a proper suffix, and the rune is ESC
   only for the byte ESC *)
Lemma decode1_shape b0 t : 0 <= b0 ->
  exists r rest pre, decode1 (b0 :: t) = Some (r, rest) /\ b0 :: t = pre ++ rest /\ pre <> [] /\
                     (length rest <= length t)%nat /\ 0 <= r /\ (r = 27 -> pre = [27]).
Proof.
  intros Hb. unfold decode1, cont, in_range.
  destruct (b0 <? 128) eqn:E0.
  { exists b0, t, [b0]. repeat split; auto; try discriminate. intros ->. reflexivity. }
  assert (128 <= b0) by lia.
  assert (Hraw : exists r rest pre, Some (b0, t) = Some (r, rest) /\ b0 :: t = pre ++ rest /\ pre <> [] /\
                     (length rest <= length t)%nat /\ 0 <= r /\ (r = 27 -> pre = [27])).
  { exists b0, t, [b0]. repeat split; auto; try discriminate; lia. }
  destruct ((194 <=? b0) && (b0 <=? 223)) eqn:E1.
  { destruct t as [|b1 t1]; [exact Hraw|].
    destruct ((128 <=? b1) && (b1 <=? 191)) eqn:C1; [|exact Hraw].
    exists ((b0 - 192) * 64 + (b1 - 128)), t1, [b0; b1]. repeat split; auto; try discriminate; cbn [length]; lia. }
  destruct ((224 <=? b0) && (b0 <=? 239)) eqn:E2.
  { destruct t as [|b1 [|b2 t2]]; try exact Hraw.
    match goal with |- context [if ?c then _ else _] => destruct c eqn:C end; [|exact Hraw].
    exists ((b0 - 224) * 4096 + (b1 - 128) * 64 + (b2 - 128)), t2, [b0; b1; b2].
    repeat split; auto; try discriminate; cbn [length]; try lia;
      destruct (b0 =? 224) eqn:E224; destruct (b0 =? 237) eqn:E237; lia. }
  destruct ((240 <=? b0) && (b0 <=? 244)) eqn:E3.
  { destruct t as [|b1 [|b2 [|b3 t3]]]; try exact Hraw.
    match goal with |- context [if ?c then _ else _] => destruct c eqn:C end; [|exact Hraw].
    exists ((b0 - 240) * 262144 + (b1 - 128) * 4096 + (b2 - 128) * 64 + (b3 - 128)), t3, [b0; b1; b2; b3].
    repeat split; auto; try discriminate; cbn [length]; try lia;
      destruct (b0 =? 240) eqn:E240; destruct (b0 =? 244) eqn:E244; lia. }
  exact Hraw.
Qed.

Lemma last_app_ne {A} (a b : list A) d : b <> [] -> last (a ++ b) d = last b d.
Proof.
  intros Hb. induction a as [|x a IH]; [reflexivity|].
  cbn [app]. destruct (a ++ b) eqn:E; [destruct a; [contradiction|discriminate]|].
  change (last (x :: a0 :: l) d) with (last (a0 :: l) d). exact IH.
Qed.

Lemma decode_fuel_nil n : decode_fuel n [] = [].
Proof. destruct n; reflexivity. Qed.

Lemma decode_fuel_props : forall n bs, (length bs <= n)%nat -> nonneg bs = true ->
  Forall (fun r => r <> eof_rune) (decode_fuel n bs) /\
  (bs <> [] -> last bs 0 <> 27 -> decode_fuel n bs <> [] /\ last (decode_fuel n bs) 0 <> 27).
Proof.
  induction n as [|n IH]; intros bs Hl Hn.
  - destruct bs; [|cbn [length] in Hl; lia]. split; [constructor|intros H; contradiction].
  - destruct bs as [|b0 t]; [split; [constructor|intros H; contradiction]|].
    unfold nonneg in Hn. cbn [forallb] in Hn. apply andb_prop in Hn as [Hb0 Ht].
    destruct (decode1_shape b0 t ltac:(lia)) as (r & rest & pre & Hd & Hsplit & Hpre & Hlen & Hr & H27).
    cbn [decode_fuel]. rewrite Hd. cbn [length] in Hl.
    assert (Hnr : nonneg rest = true).
    { assert (Hall : forallb (fun b => 0 <=? b) (b0 :: t) = true) by (cbn [forallb]; rewrite Hb0, Ht; reflexivity).
      rewrite Hsplit, forallb_app in Hall. apply andb_prop in Hall as [_ H]. exact H. }
    destruct (IH rest ltac:(lia) Hnr) as [IHa IHl]. split.
    + constructor; [unfold eof_rune; lia|exact IHa].
    + intros _ Hlast. split; [discriminate|].
      destruct rest as [|x rest'].
      * rewrite decode_fuel_nil. cbn [last]. intros Hr27. specialize (H27 Hr27).
        rewrite H27 in Hsplit. cbn in Hsplit. rewrite Hsplit in Hlast. cbn in Hlast. lia.
      * rewrite Hsplit in Hlast. rewrite last_app_ne in Hlast by discriminate.
        destruct (IHl ltac:(discriminate) Hlast) as [Hne Hl27].
        destruct (decode_fuel n (x :: rest')) eqn:Edf; [contradiction|]. cbn [last]. cbn [last] in Hl27. exact Hl27.
Qed.

Lemma feed_goes : forall rs p, Forall (fun r => r <> eof_rune) rs -> let '(_, _, go) := feed p rs in go = true.
Proof.
  induction rs as [|r t IH]; intros p H; [reflexivity|].
  inversion H as [|? ? Hr Ht]; subst. cbn [feed].
  pose proof (step_goes p r Hr) as Hs. destruct (step p r) as [[p1 o1] go]. subst go.
  specialize (IH p1 Ht). destruct (feed p1 t) as [[p2 o2] go2]. exact IH.
Qed.

Lemma feed_timer : forall rs p, rs <> [] -> last rs 0 <> 27 ->
  let '(p', _, go) := feed p rs in go = true -> timer p' = false.
Proof.
  induction rs as [|r t IH]; intros p Hne Hl; [contradiction|].
  cbn [feed]. destruct t as [|r2 t'].
  - cbn [last] in Hl. pose proof (non_esc_disarms p r Hl) as Hs.
    destruct (step p r) as [[p1 o1] go]. destruct go; cbn [feed]; [intros _; exact Hs|discriminate].
  - destruct (step p r) as [[p1 o1] go]. destruct go; [|discriminate].
    specialize (IH p1 ltac:(discriminate) Hl). destruct (feed p1 (r2 :: t')) as [[p2 o2] go2]. exact IH.
Qed.

(* the harness pauses before the marker exactly when the bytes end in ESC *)
Definition ends_esc (bs : list Z) : bool := match bs with [] => false | _ => last bs 0 =? 27 end.

Lemma nonneg_reads_on bs : nonneg bs = true -> reads_on bs = true.
Proof.
  intros Hn. unfold reads_on, decode_all.
  destruct (decode_fuel_props (length bs) bs (le_n _) Hn) as [Ha _].
  pose proof (feed_goes _ pinit Ha) as H. destruct (feed pinit (decode_fuel (length bs) bs)) as [[p o] go]. exact H.
Qed.

Lemma no_esc_timer_off bs : nonneg bs = true -> ends_esc bs = false -> timer_off bs = true.
Proof.
  intros Hn He. unfold timer_off, decode_all. destruct bs as [|b t]; [reflexivity|].
  unfold ends_esc in He. apply Z.eqb_neq in He.
  destruct (decode_fuel_props (length (b :: t)) (b :: t) (le_n _) Hn) as [Ha Hl].
  destruct (Hl ltac:(discriminate) He) as [Hne Hl27].
  pose proof (feed_timer _ pinit Hne Hl27) as Ht. pose proof (feed_goes _ pinit Ha) as Hg.
  destruct (feed pinit (decode_fuel (length (b :: t)) (b :: t))) as [[p o] go]. subst go. now rewrite Ht.
Qed.

Theorem marked_is_read_bytes u seg bs : nonneg bs = true ->
  host_read_marked u seg (ends_esc bs) bs = Some (host_read u seg bs).
Proof.
  intros Hn. apply marked_is_read. unfold marker_sound. rewrite (nonneg_reads_on bs Hn). cbn [andb].
  destruct (ends_esc bs) eqn:E; [reflexivity|]. cbn [orb]. apply no_esc_timer_off; assumption.
Qed.
