(* C06 - SGR, dispatch of the encoded operations, and the refinement theorem. *)
From Vx Require Import base.Prelude base.ListX model.Colour model.Sgr model.Term model.TermCheck
  model.VtSpec model.TermAbs proofs.SgrProofs proofs.TermProofs proofs.TermRefine proofs.TermRefine2
  proofs.TermRefine3 proofs.TermRefine4 proofs.TermSafe.
Require Import ZifyBool Lia.

Local Open Scope Z_scope.

(* ------------------------------------------------------------------ SGR *)

Lemma u8_small n : 0 <= n <= 255 -> u8 n = n.
Proof. intros H; unfold u8; apply Z.mod_small; lia. Qed.

Lemma zlen_ge3 {A} (a b c : A) rest : (zlen (a :: b :: c :: rest) <? 3) = false.
Proof. rewrite !zlen_cons. pose proof (zlen_nonneg rest). lia. Qed.
Lemma zlen_ge5 {A} (a b c d e : A) rest : (zlen (a :: b :: c :: d :: e :: rest) <? 5) = false.
Proof. rewrite !zlen_cons. pose proof (zlen_nonneg rest). lia. Qed.

Lemma ext_idx st (set : Z -> pen) k n rest : 0 <= n <= 255 ->
  ext_colour st set ([k] :: [5] :: [n] :: rest) [k] = SCont (set (index_color n)) 2.
Proof.
  intros Hn. unfold ext_colour. change (zlen [k] =? 1) with true. cbv iota.
  rewrite zlen_ge3. unfold sub. simpl. rewrite u8_small by lia. reflexivity.
Qed.

Lemma ext_rgb st (set : Z -> pen) k r g b rest : 0 <= r <= 255 -> 0 <= g <= 255 -> 0 <= b <= 255 ->
  ext_colour st set ([k] :: [2] :: [r] :: [g] :: [b] :: rest) [k] = SCont (set (rgb_color r g b)) 4.
Proof.
  intros Hr Hg Hb. unfold ext_colour. change (zlen [k] =? 1) with true. cbv iota.
  rewrite zlen_ge3. unfold sub. simpl. rewrite zlen_ge5. simpl. rewrite !u8_small by lia. reflexivity.
Qed.

Lemma sgr_step_38 st rest : sgr_step st ([38] :: rest) = ext_colour st (set_fg st) ([38] :: rest) [38].
Proof. reflexivity. Qed.
Lemma sgr_step_48 st rest : sgr_step st ([48] :: rest) = ext_colour st (set_bg st) ([48] :: rest) [48].
Proof. reflexivity. Qed.

Lemma sgr_cmd c rest st : sgrc_ok c = true ->
  sgr_loop 0 st (enc_sgrc c ++ rest) = sgr_loop 0 (spec_sgr1 st c) rest.
Proof.
  intros Hok. destruct c; cbn [enc_sgrc app spec_sgr1 sgrc_ok] in *; try reflexivity.
  - (* SFg *) assert (Hn : n = 0 \/ n = 1 \/ n = 2 \/ n = 3 \/ n = 4 \/ n = 5 \/ n = 6 \/ n = 7) by (unfold in_range in Hok; lia).
    destruct Hn as [->|[->|[->|[->|[->|[->|[->| ->]]]]]]]; reflexivity.
  - assert (Hn : n = 0 \/ n = 1 \/ n = 2 \/ n = 3 \/ n = 4 \/ n = 5 \/ n = 6 \/ n = 7) by (unfold in_range in Hok; lia).
    destruct Hn as [->|[->|[->|[->|[->|[->|[->| ->]]]]]]]; reflexivity.
  - assert (Hn : n = 0 \/ n = 1 \/ n = 2 \/ n = 3 \/ n = 4 \/ n = 5 \/ n = 6 \/ n = 7) by (unfold in_range in Hok; lia).
    destruct Hn as [->|[->|[->|[->|[->|[->|[->| ->]]]]]]]; reflexivity.
  - assert (Hn : n = 0 \/ n = 1 \/ n = 2 \/ n = 3 \/ n = 4 \/ n = 5 \/ n = 6 \/ n = 7) by (unfold in_range in Hok; lia).
    destruct Hn as [->|[->|[->|[->|[->|[->|[->| ->]]]]]]]; reflexivity.
  - (* SFgIdx *) cbn [sgr_loop]. rewrite sgr_step_38, ext_idx by (unfold in_range in Hok; lia). reflexivity.
  - cbn [sgr_loop]. rewrite sgr_step_48, ext_idx by (unfold in_range in Hok; lia). reflexivity.
  - cbn [sgr_loop]. rewrite sgr_step_38, ext_rgb by (unfold in_range in Hok; lia). reflexivity.
  - cbn [sgr_loop]. rewrite sgr_step_48, ext_rgb by (unfold in_range in Hok; lia). reflexivity.
Qed.

Lemma sgr_cmds cs : Forall (fun c => sgrc_ok c = true) cs -> forall st,
  sgr_loop 0 st (flat_map enc_sgrc cs) = Ok (fold_left spec_sgr1 cs st).
Proof.
  induction 1 as [|c cs Hc Hcs IH]; intros st; cbn [flat_map fold_left]; [reflexivity|].
  rewrite sgr_cmd by assumption. apply IH.
Qed.

Lemma enc_sgrc_nonnil c : enc_sgrc c <> [].
Proof. destruct c; discriminate. Qed.

Lemma sim_sgr_pen cs st : forallb sgrc_ok cs = true ->
  term_sgr (flat_map enc_sgrc cs) st = Ok (spec_sgr st cs).
Proof.
  intros H. unfold term_sgr, sgr_run, spec_sgr.
  destruct cs as [|c cs]; [reflexivity|].
  assert (HF : Forall (fun c => sgrc_ok c = true) (c :: cs)) by (apply Forall_forall; apply forallb_forall; exact H).
  rewrite <- (sgr_cmds (c :: cs) HF st).
  destruct (flat_map enc_sgrc (c :: cs)) eqn:E; [|reflexivity].
  cbn [flat_map] in E. apply app_eq_nil in E. destruct E as [E _]. now apply enc_sgrc_nonnil in E.
Qed.

(* ------------------------------------------------------------------ hyperlinks (OSC 8) *)

(* cutString(s, ";") cuts at the FIRST ';': params has none, so everything after the
   separator - further ';' included - is the URI *)
Lemma cut59_first a b : existsb (Z.eqb 59) a = false -> cut59 (a ++ 59 :: b) = (a, b, true).
Proof.
  induction a as [|x a IH]; intros H; cbn [app cut59]; [reflexivity|].
  cbn [existsb] in H. apply orb_false_elim in H. destruct H as [Hx Ha].
  rewrite Z.eqb_sym in Hx. rewrite Hx, (IH Ha). reflexivity.
Qed.

Lemma sim_link_osc t ps uri : no_semicolon ps = true ->
  osc t ([56; 59] ++ ps ++ [59] ++ uri) = TOk (set_pen t (mkStyle (spen (t_pen t)) uri ps)).
Proof.
  intros Hps. unfold no_semicolon in Hps. apply negb_true_iff in Hps.
  unfold osc. change (cut59 ([56; 59] ++ ps ++ [59] ++ uri)) with ([56], ps ++ 59 :: uri, true).
  cbv iota beta. cbn [negb].
  change (key_is [56] [48]) with false. change (key_is [56] [50]) with false.
  change (key_is [56] [56]) with true. cbv iota. cbn [orb].
  rewrite (cut59_first ps uri Hps). reflexivity.
Qed.

(* ------------------------------------------------------------------ dispatch *)

Lemma with_ps_p1 p f : with_ps (p1 p) f = f (clamp_ps (pval p)).
Proof. unfold with_ps. rewrite ps_of_p1. reflexivity. Qed.

Ltac finish_pure L :=
  destruct L as [I A]; eexists; split; [reflexivity|]; split; [exact I | exact A].
Ltac finish_ex L :=
  let t' := fresh "t'" in let E := fresh "E" in let I := fresh "I" in let A := fresh "A" in
  destruct L as [t' [E [I A]]]; exists t'; split; [exact E|]; split; [exact I | exact A].

Lemma set_pos_idem v r c p r' c' p' : set_pos (set_pos v r c p) r' c' p' = set_pos v r' c' p'.
Proof. reflexivity. Qed.

(* one operation of the vocabulary: the emulator, fed with its encoding, does what the
   reference terminal does *)
Lemma sim_step w h t o :
  Inv w h t -> vop_ok o = true -> (t_last t = true -> allowed_pending o = true) ->
  exists t', update t (enc o) = TOk t' /\ Inv w h t' /\ abs t' = spec_op (abs t) o.
Proof.
  intros HI Hok Hpend.
  assert (HL : allowed_pending o = false -> t_last t = false).
  { intros Ha. destruct (t_last t); [|reflexivity]. rewrite Hpend in Ha by reflexivity. discriminate. }
  destruct o; cbn [enc update vop_ok allowed_pending spec_op csi1] in *.
  - (* Print *) apply andb_prop in Hok; destruct Hok as [Hw _]. now apply sim_print.
  - (* CR *) change (c0 t 13) with (TOk (cr t)). finish_pure (sim_cr w h t HI).
  - (* LF *) change (c0 t 10) with (lf t). finish_ex (sim_lf w h t HI (HL eq_refl)).
  - (* IND *) change (esc t [] 68) with (ind t). finish_ex (sim_ind w h t HI (HL eq_refl)).
  - (* RI *) change (esc t [] 77) with (ri t). finish_ex (sim_ri w h t HI (HL eq_refl)).
  - (* NEL *) change (esc t [] 69) with (nel t). finish_ex (sim_nel w h t HI (HL eq_refl)).
  - (* CUU *) change (csi t [] (p1 p) 65) with (with_ps (p1 p) (fun v => TOk (cuu t v))). rewrite with_ps_p1.
    finish_pure (sim_cuu w h t HI (pval p) (par_ok_pv p Hok)).
  - (* CUD *) change (csi t [] (p1 p) 66) with (with_ps (p1 p) (fun v => TOk (cud t v))). rewrite with_ps_p1.
    finish_pure (sim_cud w h t HI (pval p) (par_ok_pv p Hok)).
  - (* CUF *) change (csi t [] (p1 p) 67) with (with_ps (p1 p) (fun v => TOk (cuf t v))). rewrite with_ps_p1.
    destruct (sim_cuf w h t HI (pval p) (par_ok_pv p Hok)) as [I A].
    eexists; split; [reflexivity|]; split; [exact I|]. rewrite A, (abs_cols w h t HI). reflexivity.
  - (* CUB *) change (csi t [] (p1 p) 68) with (with_ps (p1 p) (fun v => TOk (cub t v))). rewrite with_ps_p1.
    destruct (sim_cub w h t HI (pval p) (par_ok_pv p Hok)) as [I A].
    eexists; split; [reflexivity|]; split; [exact I|]. rewrite A. reflexivity.
  - (* CNL *) change (csi t [] (p1 p) 69) with (with_ps (p1 p) (fun v => TOk (cnl t v))). rewrite with_ps_p1.
    finish_pure (sim_cnl w h t HI (pval p) (par_ok_pv p Hok)).
  - (* CPL *) change (csi t [] (p1 p) 70) with (with_ps (p1 p) (fun v => TOk (cpl t v))). rewrite with_ps_p1.
    finish_pure (sim_cpl w h t HI (pval p) (par_ok_pv p Hok)).
  - (* CHA *) change (csi t [] (p1 p) 71) with (with_ps (p1 p) (fun v => TOk (cha t v))). rewrite with_ps_p1.
    destruct (sim_cha w h t HI (pval p) (par_ok_pv p Hok)) as [I A].
    eexists; split; [reflexivity|]; split; [exact I|]. rewrite A, (abs_cols w h t HI). reflexivity.
  - (* HPA *) change (csi t [] (p1 p) 96) with (with_ps (p1 p) (fun v => TOk (hpa t v))). rewrite with_ps_p1.
    destruct (sim_hpa w h t HI (pval p) (par_ok_pv p Hok)) as [I A].
    eexists; split; [reflexivity|]; split; [exact I|]. rewrite A, (abs_cols w h t HI). reflexivity.
  - (* VPA *) change (csi t [] (p1 p) 100) with (with_ps (p1 p) (fun v => TOk (vpa t v))). rewrite with_ps_p1.
    destruct (sim_vpa w h t HI (pval p) (par_ok_pv p Hok)) as [I A].
    eexists; split; [reflexivity|]; split; [exact I|]. rewrite A, (abs_rows w h t HI). reflexivity.
  - (* HPR *) change (csi t [] (p1 p) 97) with (with_ps (p1 p) (fun v => TOk (hpr t v))). rewrite with_ps_p1.
    destruct (sim_hpr w h t HI (pval p) (par_ok_pv p Hok)) as [I A].
    eexists; split; [reflexivity|]; split; [exact I|]. rewrite A, (abs_cols w h t HI). reflexivity.
  - (* VPR *) change (csi t [] (p1 p) 101) with (with_ps (p1 p) (fun v => TOk (vpr t v))). rewrite with_ps_p1.
    destruct (sim_vpr w h t HI (pval p) (par_ok_pv p Hok)) as [I A].
    eexists; split; [reflexivity|]; split; [exact I|]. rewrite A, (abs_rows w h t HI). reflexivity.
  - (* CUP *) apply andb_prop in Hok; destruct Hok as [Hr Hc].
    change (csi t [] (p2 r c) 72) with (cup t (p2 r c)).
    destruct (sim_cup w h t HI r c Hr Hc) as [t' [E [I A]]]. exists t'; split; [exact E|]; split; [exact I|].
    rewrite A, (abs_rows w h t HI), (abs_cols w h t HI). reflexivity.
  - (* HVP *) apply andb_prop in Hok; destruct Hok as [Hr Hc].
    change (csi t [] (p2 r c) 102) with (cup t (p2 r c)).
    destruct (sim_cup w h t HI r c Hr Hc) as [t' [E [I A]]]. exists t'; split; [exact E|]; split; [exact I|].
    rewrite A, (abs_rows w h t HI), (abs_cols w h t HI). reflexivity.
  - (* ED *) change (csi t [] (p1 p) 74) with (with_ps (p1 p) (ed t)). rewrite with_ps_p1.
    finish_ex (sim_ed w h t HI (HL eq_refl) (pval p) (par_ok_pv p Hok)).
  - (* EL *) change (csi t [] (p1 p) 75) with (with_ps (p1 p) (el t)). rewrite with_ps_p1.
    finish_ex (sim_el w h t HI (HL eq_refl) (pval p) (par_ok_pv p Hok)).
  - (* ECH *) change (csi t [] (p1 p) 88) with (with_ps (p1 p) (ech t)). rewrite with_ps_p1.
    finish_ex (sim_ech w h t HI (HL eq_refl) (pval p) (par_ok_pv p Hok)).
  - (* ICH *) change (csi t [] (p1 p) 64) with (with_ps (p1 p) (ich t)). rewrite with_ps_p1.
    finish_ex (sim_ich w h t HI (HL eq_refl) (pval p) (par_ok_pv p Hok)).
  - (* DCH *) change (csi t [] (p1 p) 80) with (with_ps (p1 p) (dch t)). rewrite with_ps_p1.
    finish_ex (sim_dch w h t HI (HL eq_refl) (pval p) (par_ok_pv p Hok)).
  - (* IL *) change (csi t [] (p1 p) 76) with (with_ps (p1 p) (il t)). rewrite with_ps_p1.
    finish_ex (sim_il w h t HI (HL eq_refl) (pval p) (par_ok_pv p Hok)).
  - (* DL *) change (csi t [] (p1 p) 77) with (with_ps (p1 p) (dl t)). rewrite with_ps_p1.
    finish_ex (sim_dl w h t HI (HL eq_refl) (pval p) (par_ok_pv p Hok)).
  - (* SU *) change (csi t [] (p1 p) 83) with (with_ps (p1 p) (fun v => scroll_up t (dflt1 v))). rewrite with_ps_p1.
    finish_ex (sim_su w h t HI (HL eq_refl) (pval p) (par_ok_pv p Hok)).
  - (* SD *)
    assert (E : csi t [] (p1 p) 84 = with_ps (p1 p) (fun v => scroll_down t (dflt1 v))).
    { destruct p; reflexivity. }
    rewrite E, with_ps_p1. finish_ex (sim_sd w h t HI (HL eq_refl) (pval p) (par_ok_pv p Hok)).
  - (* DECSTBM *) apply andb_prop in Hok; destruct Hok as [Ha Hb].
    change (csi t [] (p2 t0 b) 114) with (decstbm t (p2 t0 b)).
    finish_ex (sim_decstbm w h t HI t0 b Ha Hb).
  - (* DECSC *) change (esc t [] 55) with (TOk (decsc t)). finish_pure (sim_decsc w h t HI).
  - (* DECRC *) change (esc t [] 56) with (TOk (decrc t)). finish_pure (sim_decrc w h t HI).
  - (* AltOn *) change (csi t [63] [[1049]] 104) with (t1 <- decset1 t 1049 ;; TOk t1).
    destruct (sim_alt_on w h t HI (HL eq_refl)) as [t' [E [I A]]]. rewrite E; cbn [tbind].
    exists t'; split; [reflexivity|]; split; assumption.
  - (* AltOff *) change (csi t [63] [[1049]] 108) with (t1 <- decrst1 t 1049 ;; TOk t1).
    destruct (sim_alt_off w h t HI (HL eq_refl)) as [t' [E [I A]]]. rewrite E; cbn [tbind].
    exists t'; split; [reflexivity|]; split; assumption.
  - (* SGR *) change (csi t [] (flat_map enc_sgrc cs) 109) with (sgr t (flat_map enc_sgrc cs)).
    unfold sgr. rewrite (sim_sgr_pen cs (spen (t_pen t)) Hok).
    eexists; split; [reflexivity|]. split.
    + apply (Inv_frame w h t); auto. apply WFs_set_pen, HI.
    + rewrite (abs_fields t); reflexivity.
  - (* Link *) apply andb_prop in Hok; destruct Hok as [Hok _]. apply andb_prop in Hok; destruct Hok as [Hps _].
    rewrite (sim_link_osc t params uri Hps).
    eexists; split; [reflexivity|]. split.
    + apply (Inv_frame w h t); auto. apply WFs_set_pen, HI.
    + rewrite (abs_fields t); reflexivity.
Qed.

(* ------------------------------------------------------------------ the refinement theorem *)

Definition start_state (w h : Z) : term :=
  mkTerm (blank_grid w h) (blank_grid w h) false 0 0 style0 0 false 0 (h - 1) 0 (w - 1)
         default_tabs modes0 chars0 saved0 saved0 0.

Lemma term_start_eq w h : 0 <= w -> 0 <= h -> term_start w h = TOk (start_state w h).
Proof.
  intros Hw Hh. unfold term_start, resize, make_grid; cbv zeta.
  destruct (h <? 0) eqn:E1; [lia|]. destruct ((0 <? h) && (w <? 0)) eqn:E2; [lia|]. reflexivity.
Qed.

Lemma map_zrepeat {A B} (f : A -> B) x n : map f (zrepeat x n) = zrepeat (f x) n.
Proof. unfold zrepeat. induction (Z.to_nat n); simpl; congruence. Qed.

Lemma start_inv w h : 2 <= w <= 65535 -> 2 <= h <= 65535 ->
  Inv w h (start_state w h) /\ abs (start_state w h) = vt_init w h.
Proof.
  intros Hw Hh.
  assert (W : WFs0 0 w h (start_state w h)).
  { destruct (start_ok w h ltac:(lia) ltac:(lia)) as [t0 [E W]].
    rewrite term_start_eq in E by lia. inversion E; subst. exact W. }
  split.
  - constructor; auto; cbn; try reflexivity; repeat split; reflexivity.
  - unfold abs. rewrite (WFs_height 0 w h _ W), (WFs_width 0 w h _ W).
    unfold vt_init, start_state, active; cbn. unfold abs_grid, blank_grid.
    rewrite !map_zrepeat. reflexivity.
Qed.

Lemma drain_id t : t_ev t = 0 -> drain t = t.
Proof. intros H; unfold drain; rewrite H; reflexivity. Qed.

Lemma run_sim w h : forall ops t v,
  Inv w h t -> run_spec (abs t) ops = Some v ->
  exists t', run_term t ops = TOk t' /\ Inv w h t' /\ abs t' = v.
Proof.
  induction ops as [|o rest IH]; intros t v HI Hs; cbn [run_spec] in Hs.
  - inversion Hs; subst. exists t; split; [reflexivity|]; split; auto.
  - unfold spec_step in Hs.
    destruct (vop_ok o) eqn:Hok; cbn [negb] in Hs; [|discriminate].
    destruct (v_pending (abs t) && negb (allowed_pending o)) eqn:Hp; [discriminate|].
    assert (Hpend : t_last t = true -> allowed_pending o = true).
    { intros Hl. change (v_pending (abs t)) with (t_last t) in Hp. rewrite Hl in Hp.
      destruct (allowed_pending o); [reflexivity | discriminate]. }
    destruct (sim_step w h t o HI Hok Hpend) as [t1 [E1 [I1 A1]]].
    rewrite <- A1 in Hs. destruct (IH t1 v I1 Hs) as [t' [E' [I' A']]].
    exists t'; split; [|split; assumption].
    unfold run_term in *. cbn [map run hstep_run].
    assert (Hev : t_ev t = 0) by (destruct HI as [[? ? ? ? ? ? ? ? ? ? ? ? ? ? [He _]] ? ?]; exact He).
    rewrite (drain_id t Hev), E1. cbn [tbind]. exact E'.
Qed.

(* term_refines_vt: for every size from 2x2 (up to the 16-bit limit of a VT), every
   sequence of operations of the vocabulary, with omitted, zero and explicit parameters,
   and every prefix on which the reference terminal is defined: the emulator, started by
   New() and the first resize and fed with the encodings, does not fail and its abstraction
   is the reference terminal's state *)
Theorem term_refines_vt w h ops :
  2 <= w <= 65535 -> 2 <= h <= 65535 ->
  forall n v, run_spec (vt_init w h) (firstn n ops) = Some v ->
  exists t0 t, term_start w h = TOk t0 /\ run_term t0 (firstn n ops) = TOk t /\ abs t = v.
Proof.
  intros Hw Hh n v Hs. destruct (start_inv w h Hw Hh) as [I0 A0].
  rewrite <- A0 in Hs. destruct (run_sim w h (firstn n ops) _ v I0 Hs) as [t [E [I A]]].
  exists (start_state w h), t. split; [apply term_start_eq; lia|]. split; assumption.
Qed.
