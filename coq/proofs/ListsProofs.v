(* C19 - proofs about the models of model/Lists.v *)
From Vx Require Import base.Prelude base.ListX model.Lists.
Require Import ZifyBool.

Local Open Scope Z_scope.

(* ---------------------------------------------------------------------------------- *)
(* generalities                                                                        *)
(* ---------------------------------------------------------------------------------- *)

Lemma u64_range x : 0 <= u64 x < 18446744073709551616.
Proof. unfold u64; apply Z.mod_pos_bound; lia. Qed.

Lemma u64_small x : 0 <= x < 18446744073709551616 -> u64 x = x.
Proof. intros H; unfold u64; apply Z.mod_small; lia. Qed.

Lemma u16_small x : 0 <= x < 65536 -> u16 x = x.
Proof. intros H; unfold u16; apply Z.mod_small; lia. Qed.

Lemma zget_zupd_total {A} (l : list A) i (f : A -> A) :
  0 <= i < zlen l ->
  exists c l', zget l i = Some c /\ zupd l i (f c) = Some l' /\ zlen l' = zlen l.
Proof.
  intros Hi. destruct (zget_in_range l i Hi) as [c Hc].
  destruct (proj2 (zupd_some_iff l i (f c)) Hi) as [l' Hl'].
  exists c, l'; repeat split; auto. eapply zupd_length; eauto.
Qed.

(* ---------------------------------------------------------------------------------- *)
(* Dynamic: no panic                                                                   *)
(* ---------------------------------------------------------------------------------- *)

Lemma cursor_hit_range cur top2 (cs : list child) :
  cursor_hit cur top2 cs = true -> 0 <= u64 (cur - top2) < zlen cs.
Proof. unfold cursor_hit; intros H; pose proof (u64_range (cur - top2)); lia. Qed.

Lemma draw_cursor_total dc cur top2 cs :
  exists cs', draw_cursor dc cur top2 cs = Some cs' /\ zlen cs' = zlen cs.
Proof.
  unfold draw_cursor. destruct (dc && cursor_hit cur top2 cs) eqn:E; [|eauto].
  assert (Hh : cursor_hit cur top2 cs = true) by (destruct dc; simpl in E; [auto|discriminate]).
  apply cursor_hit_range in Hh.
  destruct (zget_zupd_total cs _ (fun c => mkC (c_idx c) (c_row c) 0 (c_h c)) Hh) as (c & l' & Hg & Hu & Hl).
  rewrite Hg; eauto.
Qed.

Lemma draw_follow_total wants cur top2 H cs :
  exists r, draw_follow wants cur top2 H cs = Some r.
Proof.
  unfold draw_follow. destruct (wants && cursor_hit cur top2 cs) eqn:E; [|eauto].
  assert (Hh : cursor_hit cur top2 cs = true) by (destruct wants; simpl in E; [auto|discriminate]).
  apply cursor_hit_range in Hh. destruct (zget_in_range cs _ Hh) as [c Hc]. rewrite Hc; eauto.
Qed.

Theorem draw_total gap dc hs W H st :
  W <> 65535 -> H <> 65535 -> exists cs st', draw gap dc hs W H st = Ok (cs, st').
Proof.
  intros HW HH. unfold draw.
  destruct ((H =? 65535) || (W =? 65535)) eqn:E; [lia|].
  destruct (draw_layout gap dc hs H st) as [[top2 off2] cs].
  destruct (draw_cursor_total dc (d_cur st) top2 cs) as (cs1 & -> & _).
  destruct (draw_follow_total (d_wants st) (d_cur st) top2 H cs1) as ([cs2 w2] & ->).
  destruct (reset_loop cs2 0 top2 off2) as [top3 off3]. eauto.
Qed.

(* ---------------------------------------------------------------------------------- *)
(* neighbour relations                                                                 *)
(* ---------------------------------------------------------------------------------- *)

Lemma adj_cons2 {A} (R : A -> A -> bool) a b t : adj R (a :: b :: t) = R a b && adj R (b :: t).
Proof. reflexivity. Qed.

Lemma adj_tail {A} (R : A -> A -> bool) a t : adj R (a :: t) = true -> adj R t = true.
Proof. destruct t as [|b t]; [reflexivity|]. rewrite adj_cons2. intros H; apply andb_prop in H; tauto. Qed.

Lemma adj_app {A} (R : A -> A -> bool) l1 l2 :
  adj R (l1 ++ l2) =
  adj R l1 && adj R l2 && match last_opt l1, l2 with Some a, b :: _ => R a b | _, _ => true end.
Proof.
  induction l1 as [|a t IH].
  - simpl. destruct (adj R l2); reflexivity.
  - destruct t as [|b t].
    + destruct l2 as [|b l2]; [reflexivity|]. simpl app. rewrite adj_cons2. simpl last_opt.
      change (adj R [a]) with true. destruct (R a b), (adj R (b :: l2)); reflexivity.
    + change ((a :: b :: t) ++ l2) with (a :: b :: (t ++ l2)). rewrite !adj_cons2.
      change (b :: t ++ l2) with ((b :: t) ++ l2). rewrite IH.
      change (last_opt (a :: b :: t)) with (last_opt (b :: t)).
      destruct (R a b); reflexivity.
Qed.

Lemma adj_imp {A} (R R' : A -> A -> bool) l :
  (forall a b, R a b = true -> R' a b = true) -> adj R l = true -> adj R' l = true.
Proof.
  intros HR. induction l as [|a t IH]; auto. destruct t as [|b t]; auto.
  rewrite !adj_cons2. intros H; apply andb_prop in H as [H1 H2].
  rewrite (HR _ _ H1); simpl. auto.
Qed.

Lemma adj_map {A B} (R : B -> B -> bool) (R' : A -> A -> bool) (f : A -> B) l :
  (forall a b, R (f a) (f b) = R' a b) -> adj R (map f l) = adj R' l.
Proof.
  intros HR. induction l as [|a t IH]; auto. destruct t as [|b t]; auto.
  change (map f (a :: b :: t)) with (f a :: f b :: map f t). rewrite !adj_cons2, HR.
  f_equal. exact IH.
Qed.

(* replacing one element by an R-equivalent one *)
Lemma adj_upd_nat {A} (R : A -> A -> bool) (E : A -> A -> Prop) l n c c' :
  (forall a a' b, E a a' -> R a b = R a' b) -> (forall a b b', E b b' -> R a b = R a b') ->
  nth_error l n = Some c -> E c c' -> adj R (upd_nat l n c') = adj R l.
Proof.
  intros HL HR. revert n. induction l as [|a t IH]; intros n Hn HE; [destruct n; discriminate|].
  destruct n as [|n].
  - simpl in Hn. injection Hn as ->. simpl upd_nat. destruct t as [|b t]; [reflexivity|].
    rewrite !adj_cons2. now rewrite (HL c c' b HE).
  - simpl in Hn. simpl upd_nat. destruct t as [|b t]; [destruct n; discriminate|].
    destruct n as [|n].
    + simpl in Hn. injection Hn as ->. simpl upd_nat. rewrite !adj_cons2.
      rewrite <- (HR a c c' HE). f_equal.
      specialize (IH 0%nat eq_refl HE). simpl upd_nat in IH. exact IH.
    + specialize (IH (S n) Hn HE). simpl upd_nat in IH |- *. rewrite !adj_cons2. now rewrite IH.
Qed.

Lemma last_opt_cons_ne {A} (a : A) l : l <> [] -> last_opt (a :: l) = last_opt l.
Proof. destruct l; [congruence|reflexivity]. Qed.

Lemma last_opt_some {A} (l : list A) : l <> [] -> exists x, last_opt l = Some x.
Proof.
  induction l as [|a t IH]; [congruence|]. destruct t as [|b t]; [intros _; exists a; reflexivity|].
  intros _. assert (Hne : b :: t <> []) by discriminate. destruct (IH Hne) as [x Hx]. exists x. exact Hx.
Qed.

Lemma last_opt_none {A} (l : list A) : last_opt l = None -> l = [].
Proof.
  destruct l as [|a t]; [reflexivity|]. intros H.
  assert (Hne : a :: t <> []) by discriminate. destruct (last_opt_some (a :: t) Hne) as [x Hx]. congruence.
Qed.

Lemma last_opt_In {A} (l : list A) x : last_opt l = Some x -> In x l.
Proof.
  induction l as [|a t IH]; [discriminate|]. destruct t as [|b t].
  - simpl. intros H; injection H as ->. auto.
  - intros H. right. apply IH. exact H.
Qed.

(* ---------------------------------------------------------------------------------- *)
(* the item oracle                                                                     *)
(* ---------------------------------------------------------------------------------- *)

Definition sumz (l : list Z) : Z := fold_right Z.add 0 l.

(* items: heights are uint16 values whose total fits a uint16 (the widget's own totalHeight is
   a uint16), and there are fewer than 2^64 of them (indices are Go uint) *)
Definition wf_items (hs : list Z) : Prop :=
  Forall (fun h => 0 <= h) hs /\ sumz hs < 65536 /\ zlen hs < 18446744073709551616.

Lemma sumz_app a b : sumz (a ++ b) = sumz a + sumz b.
Proof. induction a as [|x a IH]; simpl; lia. Qed.

Lemma sumz_rev a : sumz (rev a) = sumz a.
Proof. induction a as [|x a IH]; simpl; [reflexivity|]. rewrite sumz_app; simpl; lia. Qed.

Lemma sumz_nonneg l : Forall (fun h => 0 <= h) l -> 0 <= sumz l.
Proof. induction 1; simpl; lia. Qed.

Lemma sumz_firstn k l : Forall (fun h => 0 <= h) l -> sumz (firstn k l) <= sumz l.
Proof.
  intros H; revert k; induction H as [|x l Hx Hl IH]; intros [|k]; simpl; try lia.
  - pose proof (sumz_nonneg l Hl); lia.
  - specialize (IH k); lia.
Qed.

Lemma skipn_cons_nth {A} (l : list A) k h rest :
  skipn k l = h :: rest -> nth_error l k = Some h /\ skipn (S k) l = rest.
Proof.
  revert k; induction l as [|a l IH]; intros [|k]; simpl; try discriminate.
  - intros H; injection H as -> ->; auto.
  - apply IH.
Qed.

Lemma firstn_snoc {A} (l : list A) k x :
  nth_error l k = Some x -> firstn (S k) l = firstn k l ++ [x].
Proof.
  revert k; induction l as [|a l IH]; intros [|k]; simpl; try discriminate.
  - intros H; injection H as ->; reflexivity.
  - intros H. f_equal. apply IH. exact H.
Qed.

Lemma builder_some hs i h : builder hs i = Some h -> 0 <= i < zlen hs.
Proof. unfold builder. destruct (zlen hs <=? i); [discriminate|]. apply zget_some_range. Qed.

Lemma builder_none hs i : 0 <= i -> builder hs i = None -> zlen hs <= i.
Proof.
  unfold builder. destruct (zlen hs <=? i) eqn:E; [lia|]. intros Hi H.
  apply zget_none_range in H. lia.
Qed.

Lemma items_from_nil hs i : 0 <= i -> items_from hs i = [] -> zlen hs <= i.
Proof.
  unfold items_from. intros Hi. destruct ((i <? 0) || (zlen hs <=? i)) eqn:E; [lia|].
  intros H. assert (Hl : length (skipn (Z.to_nat i) hs) = 0%nat) by (rewrite H; reflexivity).
  rewrite skipn_length in Hl. unfold zlen in E. lia.
Qed.

Lemma items_from_cons hs i h rest :
  items_from hs i = h :: rest ->
  0 <= i < zlen hs /\ builder hs i = Some h /\ rest = items_from hs (i + 1).
Proof.
  unfold items_from. destruct ((i <? 0) || (zlen hs <=? i)) eqn:E; [discriminate|].
  intros H. apply skipn_cons_nth in H as [H1 H2].
  split; [lia|]. split.
  - unfold builder, zget. destruct (zlen hs <=? i) eqn:E1; [lia|]. destruct (i <? 0) eqn:E2; [lia|]. exact H1.
  - destruct ((i + 1 <? 0) || (zlen hs <=? i + 1)) eqn:E3.
    + rewrite <- H2. apply skipn_all2. unfold zlen in E3. lia.
    + rewrite <- H2. f_equal. lia.
Qed.

Lemma items_back_nil hs t : 0 <= t -> items_back hs t = [] -> zlen hs <= t.
Proof.
  unfold items_back. intros Ht. destruct ((t <? 0) || (zlen hs <=? t)) eqn:E; [lia|].
  intros H. assert (Hl : length (rev (firstn (Z.to_nat (t + 1)) hs)) = 0%nat) by (rewrite H; reflexivity).
  rewrite rev_length, firstn_length in Hl. unfold zlen in E. lia.
Qed.

Lemma items_back_cons hs t h rest :
  items_back hs t = h :: rest ->
  0 <= t < zlen hs /\ builder hs t = Some h /\ rest = (if t =? 0 then [] else items_back hs (t - 1)).
Proof.
  unfold items_back. destruct ((t <? 0) || (zlen hs <=? t)) eqn:E; [discriminate|].
  intros H. assert (Ht : 0 <= t < zlen hs) by lia.
  destruct (zget_in_range hs t Ht) as [x Hx].
  assert (Hn : nth_error hs (Z.to_nat t) = Some x).
  { unfold zget in Hx. destruct (t <? 0); [discriminate|exact Hx]. }
  replace (Z.to_nat (t + 1)) with (S (Z.to_nat t)) in H by lia.
  rewrite (firstn_snoc _ _ _ Hn), rev_unit in H. injection H as -> <-.
  split; [lia|]. split.
  - unfold builder. destruct (zlen hs <=? t) eqn:E1; [lia|]. exact Hx.
  - destruct (t =? 0) eqn:E0.
    + replace (Z.to_nat t) with 0%nat by lia. reflexivity.
    + destruct ((t - 1 <? 0) || (zlen hs <=? t - 1)) eqn:E2; [lia|].
      do 2 f_equal. lia.
Qed.

Lemma sumz_items_back hs t : Forall (fun h => 0 <= h) hs -> 0 <= sumz (items_back hs t) <= sumz hs.
Proof.
  intros H. unfold items_back. destruct ((t <? 0) || (zlen hs <=? t)).
  - simpl. pose proof (sumz_nonneg hs H); lia.
  - rewrite sumz_rev. split; [|apply sumz_firstn; auto].
    apply sumz_nonneg. apply Forall_forall. intros x Hx. apply firstn_In in Hx.
    rewrite Forall_forall in H; auto.
Qed.
