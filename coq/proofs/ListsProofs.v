(* C19 - proofs about the models of model/Lists.v *)
From Vx Require Import base.Prelude base.ListX model.Lists.
Require Import ZifyBool.

Local Open Scope Z_scope.

(* ---------------------------------------------------------------------------------- *)
(* generalities                                                                        *)
(* ---------------------------------------------------------------------------------- *)

Lemma u64_range x : 0 <= u64 x < 18446744073709551616.
Proof. unfold u64; apply Z.mod_pos_bound; lia. Qed.

Lemma u64_small x : 0 <= x < 18446744073709551616 -> u64 x = x.
Proof. intros H; unfold u64; apply Z.mod_small; lia. Qed.

Lemma u16_small x : 0 <= x < 65536 -> u16 x = x.
Proof. intros H; unfold u16; apply Z.mod_small; lia. Qed.

Lemma zget_zupd_total {A} (l : list A) i (f : A -> A) :
  0 <= i < zlen l ->
  exists c l', zget l i = Some c /\ zupd l i (f c) = Some l' /\ zlen l' = zlen l.
Proof.
  intros Hi. destruct (zget_in_range l i Hi) as [c Hc].
  destruct (proj2 (zupd_some_iff l i (f c)) Hi) as [l' Hl'].
  exists c, l'; repeat split; auto. eapply zupd_length; eauto.
Qed.

(* ---------------------------------------------------------------------------------- *)
(* Dynamic: no panic                                                                   *)
(* ---------------------------------------------------------------------------------- *)

Lemma cursor_hit_range cur top2 (cs : list child) :
  cursor_hit cur top2 cs = true -> 0 <= u64 (cur - top2) < zlen cs.
Proof. unfold cursor_hit; intros H; pose proof (u64_range (cur - top2)); lia. Qed.

Lemma draw_cursor_total dc cur top2 cs :
  exists cs', draw_cursor dc cur top2 cs = Some cs' /\ zlen cs' = zlen cs.
Proof.
  unfold draw_cursor. destruct (dc && cursor_hit cur top2 cs) eqn:E; [|eauto].
  assert (Hh : cursor_hit cur top2 cs = true) by (destruct dc; simpl in E; [auto|discriminate]).
  apply cursor_hit_range in Hh.
  destruct (zget_zupd_total cs _ (fun c => mkC (c_idx c) (c_row c) 0 (c_h c)) Hh) as (c & l' & Hg & Hu & Hl).
  rewrite Hg; eauto.
Qed.

Lemma draw_follow_total wants cur top2 H cs :
  exists r, draw_follow wants cur top2 H cs = Some r.
Proof.
  unfold draw_follow. destruct (wants && cursor_hit cur top2 cs) eqn:E; [|eauto].
  assert (Hh : cursor_hit cur top2 cs = true) by (destruct wants; simpl in E; [auto|discriminate]).
  apply cursor_hit_range in Hh. destruct (zget_in_range cs _ Hh) as [c Hc]. rewrite Hc; eauto.
Qed.

Theorem draw_total gap dc hs W H st :
  W <> 65535 -> H <> 65535 -> exists cs st', draw gap dc hs W H st = Ok (cs, st').
Proof.
  intros HW HH. unfold draw.
  destruct ((H =? 65535) || (W =? 65535)) eqn:E; [lia|].
  destruct (draw_layout gap dc hs H st) as [[top2 off2] cs].
  destruct (draw_cursor_total dc (d_cur st) top2 cs) as (cs1 & -> & _).
  destruct (draw_follow_total (d_wants st) (d_cur st) top2 H cs1) as ([cs2 w2] & ->).
  destruct (reset_loop gap cs2 0 top2 off2) as [top3 off3]. eauto.
Qed.

(* ---------------------------------------------------------------------------------- *)
(* neighbour relations                                                                 *)
(* ---------------------------------------------------------------------------------- *)

Lemma adj_cons2 {A} (R : A -> A -> bool) a b t : adj R (a :: b :: t) = R a b && adj R (b :: t).
Proof. reflexivity. Qed.

Lemma adj_tail {A} (R : A -> A -> bool) a t : adj R (a :: t) = true -> adj R t = true.
Proof. destruct t as [|b t]; [reflexivity|]. rewrite adj_cons2. intros H; apply andb_prop in H; tauto. Qed.

Lemma adj_app {A} (R : A -> A -> bool) l1 l2 :
  adj R (l1 ++ l2) =
  adj R l1 && adj R l2 && match last_opt l1, l2 with Some a, b :: _ => R a b | _, _ => true end.
Proof.
  induction l1 as [|a t IH].
  - simpl. destruct (adj R l2); reflexivity.
  - destruct t as [|b t].
    + destruct l2 as [|b l2]; [reflexivity|]. simpl app. rewrite adj_cons2. simpl last_opt.
      change (adj R [a]) with true. destruct (R a b), (adj R (b :: l2)); reflexivity.
    + change ((a :: b :: t) ++ l2) with (a :: b :: (t ++ l2)). rewrite !adj_cons2.
      change (b :: t ++ l2) with ((b :: t) ++ l2). rewrite IH.
      change (last_opt (a :: b :: t)) with (last_opt (b :: t)).
      destruct (R a b); reflexivity.
Qed.

Lemma adj_imp {A} (R R' : A -> A -> bool) l :
  (forall a b, R a b = true -> R' a b = true) -> adj R l = true -> adj R' l = true.
Proof.
  intros HR. induction l as [|a t IH]; auto. destruct t as [|b t]; auto.
  rewrite !adj_cons2. intros H; apply andb_prop in H as [H1 H2].
  rewrite (HR _ _ H1); simpl. auto.
Qed.

Lemma adj_map {A B} (R : B -> B -> bool) (R' : A -> A -> bool) (f : A -> B) l :
  (forall a b, R (f a) (f b) = R' a b) -> adj R (map f l) = adj R' l.
Proof.
  intros HR. induction l as [|a t IH]; auto. destruct t as [|b t]; auto.
  change (map f (a :: b :: t)) with (f a :: f b :: map f t). rewrite !adj_cons2, HR.
  f_equal. exact IH.
Qed.

(* replacing one element by an R-equivalent one *)
Lemma adj_upd_nat {A} (R : A -> A -> bool) (E : A -> A -> Prop) l n c c' :
  (forall a a' b, E a a' -> R a b = R a' b) -> (forall a b b', E b b' -> R a b = R a b') ->
  nth_error l n = Some c -> E c c' -> adj R (upd_nat l n c') = adj R l.
Proof.
  intros HL HR. revert n. induction l as [|a t IH]; intros n Hn HE; [destruct n; discriminate|].
  destruct n as [|n].
  - simpl in Hn. injection Hn as ->. simpl upd_nat. destruct t as [|b t]; [reflexivity|].
    rewrite !adj_cons2. now rewrite (HL c c' b HE).
  - simpl in Hn. simpl upd_nat. destruct t as [|b t]; [destruct n; discriminate|].
    destruct n as [|n].
    + simpl in Hn. injection Hn as ->. simpl upd_nat. rewrite !adj_cons2.
      rewrite <- (HR a c c' HE). f_equal.
      specialize (IH 0%nat eq_refl HE). simpl upd_nat in IH. exact IH.
    + specialize (IH (S n) Hn HE). simpl upd_nat in IH |- *. rewrite !adj_cons2. now rewrite IH.
Qed.

Lemma last_opt_cons_ne {A} (a : A) l : l <> [] -> last_opt (a :: l) = last_opt l.
Proof. destruct l; [congruence|reflexivity]. Qed.

Lemma last_opt_some {A} (l : list A) : l <> [] -> exists x, last_opt l = Some x.
Proof.
  induction l as [|a t IH]; [congruence|]. destruct t as [|b t]; [intros _; exists a; reflexivity|].
  intros _. assert (Hne : b :: t <> []) by discriminate. destruct (IH Hne) as [x Hx]. exists x. exact Hx.
Qed.

Lemma last_opt_none {A} (l : list A) : last_opt l = None -> l = [].
Proof.
  destruct l as [|a t]; [reflexivity|]. intros H.
  assert (Hne : a :: t <> []) by discriminate. destruct (last_opt_some (a :: t) Hne) as [x Hx]. congruence.
Qed.

Lemma last_opt_In {A} (l : list A) x : last_opt l = Some x -> In x l.
Proof.
  induction l as [|a t IH]; [discriminate|]. destruct t as [|b t].
  - simpl. intros H; injection H as ->. auto.
  - intros H. right. apply IH. exact H.
Qed.

(* ---------------------------------------------------------------------------------- *)
(* the item oracle                                                                     *)
(* ---------------------------------------------------------------------------------- *)

Definition sumz (l : list Z) : Z := fold_right Z.add 0 l.

(* items and gap: heights are uint16 values, the gap is not negative, the total height
   (gaps included) fits a uint16 (the widget's own totalHeight is a uint16), and there are fewer
   than 2^64 items (indices are Go uint) *)
Definition wf_items (gap : Z) (hs : list Z) : Prop :=
  Forall (fun h => 0 <= h) hs /\ 0 <= gap /\ sumz hs + gap * zlen hs < 65536 /\
  zlen hs < 18446744073709551616.

Lemma sumz_app a b : sumz (a ++ b) = sumz a + sumz b.
Proof. induction a as [|x a IH]; simpl; lia. Qed.

Lemma sumz_rev a : sumz (rev a) = sumz a.
Proof. induction a as [|x a IH]; simpl; [reflexivity|]. rewrite sumz_app; simpl; lia. Qed.

Lemma sumz_nonneg l : Forall (fun h => 0 <= h) l -> 0 <= sumz l.
Proof. induction 1; simpl; lia. Qed.

Lemma sumz_firstn k l : Forall (fun h => 0 <= h) l -> sumz (firstn k l) <= sumz l.
Proof.
  intros H; revert k; induction H as [|x l Hx Hl IH]; intros [|k]; simpl; try lia.
  - pose proof (sumz_nonneg l Hl); lia.
  - specialize (IH k); lia.
Qed.

Lemma skipn_cons_nth {A} (l : list A) k h rest :
  skipn k l = h :: rest -> nth_error l k = Some h /\ skipn (S k) l = rest.
Proof.
  revert k; induction l as [|a l IH]; intros [|k]; simpl; try discriminate.
  - intros H; injection H as -> ->; auto.
  - apply IH.
Qed.

Lemma firstn_snoc {A} (l : list A) k x :
  nth_error l k = Some x -> firstn (S k) l = firstn k l ++ [x].
Proof.
  revert k; induction l as [|a l IH]; intros [|k]; simpl; try discriminate.
  - intros H; injection H as ->; reflexivity.
  - intros H. f_equal. apply IH. exact H.
Qed.

Lemma builder_some hs i h : builder hs i = Some h -> 0 <= i < zlen hs.
Proof. unfold builder. destruct (zlen hs <=? i); [discriminate|]. apply zget_some_range. Qed.

Lemma builder_none hs i : 0 <= i -> builder hs i = None -> zlen hs <= i.
Proof.
  unfold builder. destruct (zlen hs <=? i) eqn:E; [lia|]. intros Hi H.
  apply zget_none_range in H. lia.
Qed.

Lemma items_from_nil hs i : 0 <= i -> items_from hs i = [] -> zlen hs <= i.
Proof.
  unfold items_from. intros Hi. destruct ((i <? 0) || (zlen hs <=? i)) eqn:E; [lia|].
  intros H. assert (Hl : length (skipn (Z.to_nat i) hs) = 0%nat) by (rewrite H; reflexivity).
  rewrite skipn_length in Hl. unfold zlen in E. lia.
Qed.

Lemma items_from_cons hs i h rest :
  items_from hs i = h :: rest ->
  0 <= i < zlen hs /\ builder hs i = Some h /\ rest = items_from hs (i + 1).
Proof.
  unfold items_from. destruct ((i <? 0) || (zlen hs <=? i)) eqn:E; [discriminate|].
  intros H. apply skipn_cons_nth in H as [H1 H2].
  split; [lia|]. split.
  - unfold builder, zget. destruct (zlen hs <=? i) eqn:E1; [lia|]. destruct (i <? 0) eqn:E2; [lia|]. exact H1.
  - destruct ((i + 1 <? 0) || (zlen hs <=? i + 1)) eqn:E3.
    + rewrite <- H2. apply skipn_all2. unfold zlen in E3. lia.
    + rewrite <- H2. f_equal. lia.
Qed.

Lemma items_back_nil hs t : 0 <= t -> items_back hs t = [] -> zlen hs <= t.
Proof.
  unfold items_back. intros Ht. destruct ((t <? 0) || (zlen hs <=? t)) eqn:E; [lia|].
  intros H. assert (Hl : length (rev (firstn (Z.to_nat (t + 1)) hs)) = 0%nat) by (rewrite H; reflexivity).
  rewrite rev_length, firstn_length in Hl. unfold zlen in E. lia.
Qed.

Lemma items_back_cons hs t h rest :
  items_back hs t = h :: rest ->
  0 <= t < zlen hs /\ builder hs t = Some h /\ rest = (if t =? 0 then [] else items_back hs (t - 1)).
Proof.
  unfold items_back. destruct ((t <? 0) || (zlen hs <=? t)) eqn:E; [discriminate|].
  intros H. assert (Ht : 0 <= t < zlen hs) by lia.
  destruct (zget_in_range hs t Ht) as [x Hx].
  assert (Hn : nth_error hs (Z.to_nat t) = Some x).
  { unfold zget in Hx. destruct (t <? 0); [discriminate|exact Hx]. }
  replace (Z.to_nat (t + 1)) with (S (Z.to_nat t)) in H by lia.
  rewrite (firstn_snoc _ _ _ Hn), rev_unit in H. injection H as -> <-.
  split; [lia|]. split.
  - unfold builder. destruct (zlen hs <=? t) eqn:E1; [lia|]. exact Hx.
  - destruct (t =? 0) eqn:E0.
    + replace (Z.to_nat t) with 0%nat by lia. reflexivity.
    + destruct ((t - 1 <? 0) || (zlen hs <=? t - 1)) eqn:E2; [lia|].
      do 2 f_equal. lia.
Qed.

Lemma Forall_firstn {A} (P : A -> Prop) k l : Forall P l -> Forall P (firstn k l).
Proof. intros H; revert k; induction H; intros [|k]; simpl; auto. Qed.

Lemma sumz_items_back hs t : Forall (fun h => 0 <= h) hs -> 0 <= sumz (items_back hs t) <= sumz hs.
Proof.
  intros H. unfold items_back. destruct ((t <? 0) || (zlen hs <=? t)).
  - simpl. pose proof (sumz_nonneg hs H); lia.
  - rewrite sumz_rev. split; [|apply sumz_firstn; auto].
    apply sumz_nonneg. apply Forall_firstn. exact H.
Qed.

(* ---------------------------------------------------------------------------------- *)
(* Dynamic: geometry of the drawn children                                             *)
(* ---------------------------------------------------------------------------------- *)

Definition geom_ok (gap : Z) (hs : list Z) (cs : list child) : Prop :=
  heights_ok hs cs = true /\ consecutive cs = true /\ spacing gap cs = true.

Definition hd_is (i ah : Z) (cs : list child) : Prop :=
  match cs with [] => True | c :: _ => c_idx c = i /\ c_row c = ah end.

Lemma geom_nil gap hs : geom_ok gap hs [].
Proof. repeat split. Qed.

Lemma geom_cons gap hs c cs :
  builder hs (c_idx c) = Some (c_h c) -> geom_ok gap hs cs ->
  hd_is (c_idx c + 1) (c_row c + c_h c + gap) cs ->
  geom_ok gap hs (c :: cs).
Proof.
  intros Hb (H1 & H2 & H3) Hh. unfold geom_ok, heights_ok, consecutive, spacing in *.
  split; [|split].
  - simpl. rewrite Hb. simpl. rewrite Z.eqb_refl. exact H1.
  - destruct cs as [|b t]; [reflexivity|]. rewrite adj_cons2, H2. destruct Hh as [Hi _]. lia.
  - destruct cs as [|b t]; [reflexivity|]. rewrite adj_cons2, H3. destruct Hh as [_ Hr]. lia.
Qed.

Lemma down_loop_props gap hs wants cur H co :
  zlen hs < 18446744073709551616 ->
  forall suffix i ah, suffix = items_from hs i -> 0 <= i ->
  let cs := down_loop suffix i ah wants cur H gap co in
  geom_ok gap hs cs /\ hd_is i ah cs /\ Forall (fun c => c_col c = co) cs /\
  (suffix <> [] -> cs <> []).
Proof.
  intros Hn. induction suffix as [|h rest IH]; intros i ah Hs Hi.
  - simpl. split; [apply geom_nil|]. split; [exact I|]. split; [constructor|congruence].
  - symmetry in Hs. apply items_from_cons in Hs as (Hr & Hb & Hrest).
    assert (Hu : u64 (i + 1) = i + 1) by (apply u64_small; lia).
    specialize (IH (i + 1) (ah + h + gap) Hrest ltac:(lia)).
    cbn zeta in IH. destruct IH as (G & Hh & Hc & _).
    assert (Gc : geom_ok gap hs (mkC i ah co h :: down_loop rest (i + 1) (ah + h + gap) wants cur H gap co)).
    { apply geom_cons; [simpl; exact Hb|exact G|]. simpl. exact Hh. }
    cbn [down_loop]. rewrite Hu. cbn zeta.
    destruct (wants && (i + 1 <=? cur)).
    + split; [exact Gc|]. split; [simpl; auto|]. split; [constructor; auto|congruence].
    + destruct (H <=? ah + h + gap).
      * split; [apply geom_cons; [simpl; exact Hb|apply geom_nil|exact I]|].
        split; [simpl; auto|]. split; [repeat constructor|congruence].
      * split; [exact Gc|]. split; [simpl; auto|]. split; [constructor; auto|congruence].
Qed.

Lemma geom_hd_builder gap hs c cs : geom_ok gap hs (c :: cs) -> builder hs (c_idx c) = Some (c_h c).
Proof.
  intros (H & _ & _). unfold heights_ok in H. simpl in H. apply andb_prop in H as [H _].
  destruct (builder hs (c_idx c)) as [x|]; simpl in H; [|discriminate]. f_equal. lia.
Qed.

Definition sumh (cs : list child) : Z := sumz (map c_h cs).

Lemma ins_loop_props gap hs co :
  forall before t ah acc,
    before = items_back hs t -> Forall (fun h => 0 <= h) before ->
    0 <= t < 18446744073709551616 ->
    geom_ok gap hs acc -> hd_is (t + 1) ah acc -> Forall (fun c => c_col c = co) acc ->
    let '(t', ah', cs) := ins_loop gap before t ah co acc in
    geom_ok gap hs cs /\ hd_is t' ah' cs /\ Forall (fun c => c_col c = co) cs /\
    0 <= t' <= t /\
    (acc <> [] -> last_opt cs = last_opt acc) /\
    (acc = [] -> before <> [] -> exists l, last_opt cs = Some l /\ c_idx l = t) /\
    (before = [] -> cs = acc) /\
    sumh cs <= sumh acc + sumz before /\ zlen cs <= zlen acc + zlen before /\
    (before <> [] -> t' = 0 \/ ah' <= 0).
Proof.
  induction before as [|h rest IH]; intros t ah acc Hb Hnn Ht G Hh Hc.
  - simpl. split; [exact G|]. split.
    { destruct acc as [|c acc]; [exact I|]. exfalso.
      apply geom_hd_builder in G. apply builder_some in G. destruct Hh as [Hi _].
      symmetry in Hb. apply items_back_nil in Hb; lia. }
    split; [exact Hc|]. split; [lia|]. split; [auto|]. split; [congruence|]. split; [auto|].
    split; [simpl; lia|]. split; [rewrite zlen_nil; lia|congruence].
  - symmetry in Hb. apply items_back_cons in Hb as (Hr & Hbd & Hrest).
    pose proof (Forall_inv Hnn) as Hh0. pose proof (Forall_inv_tail Hnn) as Hnn'. cbv beta in Hh0.
    set (c := mkC t (ah - (h + gap)) co h).
    assert (G' : geom_ok gap hs (c :: acc)).
    { apply geom_cons; [exact Hbd|exact G|]. simpl.
      replace (ah - (h + gap) + h + gap) with ah by lia. exact Hh. }
    assert (Hc' : Forall (fun c => c_col c = co) (c :: acc)) by (constructor; [reflexivity|exact Hc]).
    assert (Hsum : sumh (c :: acc) = h + sumh acc) by reflexivity.
    pose proof (sumz_nonneg _ Hnn') as Hrn. pose proof (zlen_nonneg rest) as Hrl.
    cbn [ins_loop]. fold c. destruct ((t =? 0) || (ah - (h + gap) <=? 0)) eqn:E.
    + split; [exact G'|]. split; [simpl; auto|]. split; [exact Hc'|]. split; [lia|].
      split; [intros Hne; apply last_opt_cons_ne; exact Hne|].
      split; [intros -> _; exists c; auto|]. split; [discriminate|].
      split; [rewrite Hsum; simpl; lia|]. split; [rewrite !zlen_cons; lia|]. intros _. lia.
    + assert (Hu : u64 (t - 1) = t - 1) by (apply u64_small; lia). rewrite Hu.
      destruct (t =? 0) eqn:E0; [simpl in E; discriminate|].
      specialize (IH (t - 1) (ah - (h + gap)) (c :: acc) Hrest Hnn' ltac:(lia) G').
      replace (t - 1 + 1) with t in IH by lia.
      specialize (IH (conj eq_refl eq_refl) Hc').
      destruct (ins_loop gap rest (t - 1) (ah - (h + gap)) co (c :: acc)) as [[t' ah'] cs].
      destruct IH as (I1 & I2 & I3 & I4 & I5 & _ & I7 & I8 & I9 & I10).
      split; [exact I1|]. split; [exact I2|]. split; [exact I3|]. split; [lia|].
      assert (Hl : last_opt cs = last_opt (c :: acc)) by (apply I5; discriminate).
      split; [intros Hne; rewrite Hl; apply last_opt_cons_ne; exact Hne|].
      split; [intros -> _; rewrite Hl; exists c; auto|]. split; [discriminate|].
      split; [rewrite Hsum in I8; simpl; lia|]. split; [rewrite !zlen_cons in *; lia|].
      intros _. destruct rest as [|r0 rest'].
      * (* rest = [] is impossible: t <> 0 *)
        exfalso. symmetry in Hrest. apply items_back_nil in Hrest; lia.
      * apply I10. discriminate.
Qed.

Lemma heights_nonneg hs cs :
  Forall (fun h => 0 <= h) hs -> heights_ok hs cs = true -> Forall (fun c => 0 <= c_h c) cs.
Proof.
  intros Hn H. unfold heights_ok in H. rewrite forallb_forall in H. apply Forall_forall.
  intros c Hc. specialize (H c Hc). destruct (builder hs (c_idx c)) as [x|] eqn:E; simpl in H; [|discriminate].
  assert (x = c_h c) by lia. subst x. unfold builder in E. destruct (zlen hs <=? c_idx c); [discriminate|].
  apply zget_In in E. rewrite Forall_forall in Hn. auto.
Qed.

Lemma sumh_nonneg cs : Forall (fun c => 0 <= c_h c) cs -> 0 <= sumh cs.
Proof. induction 1; unfold sumh in *; simpl; lia. Qed.

Lemma geom_tail gap hs c cs : geom_ok gap hs (c :: cs) -> geom_ok gap hs cs.
Proof.
  intros (G1 & G2 & G3). unfold geom_ok, heights_ok, consecutive, spacing in *.
  simpl in G1. apply andb_prop in G1 as [_ G1]. apply adj_tail in G2. apply adj_tail in G3. auto.
Qed.

Lemma rerow_props gap hs :
  0 <= gap ->
  forall cs row,
    geom_ok gap hs cs -> Forall (fun c => 0 <= c_h c) cs ->
    0 <= row -> row + sumh cs + gap * zlen cs < 65536 ->
    geom_ok gap hs (rerow gap cs row) /\
    map c_idx (rerow gap cs row) = map c_idx cs /\ map c_col (rerow gap cs row) = map c_col cs /\
    hd_is (match cs with [] => 0 | c :: _ => c_idx c end) row (rerow gap cs row).
Proof.
  intros Hg. induction cs as [|c cs IH]; intros row G Hh Hr Hs.
  - simpl. split; [apply geom_nil|]. auto.
  - pose proof (Forall_inv Hh) as Hh0. pose proof (Forall_inv_tail Hh) as Hh'. cbv beta in Hh0.
    pose proof (sumh_nonneg cs Hh') as Hsn. pose proof (zlen_nonneg cs) as Hln.
    assert (Hsum : sumh (c :: cs) = c_h c + sumh cs) by reflexivity.
    rewrite Hsum, zlen_cons in Hs.
    pose proof (geom_tail _ _ _ _ G) as Gt.
    assert (Hu : u16 (row + c_h c + gap) = row + c_h c + gap) by (apply u16_small; nia).
    specialize (IH (row + c_h c + gap) Gt Hh' ltac:(lia) ltac:(nia)).
    destruct IH as (I1 & I2 & I3 & I4).
    cbn [rerow]. rewrite Hu. split; [|split; [|split]].
    + apply geom_cons; [simpl; eapply geom_hd_builder; exact G|exact I1|].
      simpl. destruct cs as [|b cs]; [exact I|]. simpl. split; [|reflexivity].
      destruct G as (_ & G2 & _). unfold consecutive in G2. rewrite adj_cons2 in G2. lia.
    + simpl. f_equal. exact I2.
    + simpl. f_equal. exact I3.
    + simpl. auto.
Qed.

Lemma last_opt_map {A B} (f : A -> B) l : last_opt (map f l) = option_map f (last_opt l).
Proof.
  induction l as [|a t IH]; [reflexivity|]. destruct t as [|b t]; [reflexivity|].
  change (map f (a :: b :: t)) with (f a :: f b :: map f t).
  change (last_opt (f a :: f b :: map f t)) with (last_opt (map f (b :: t))). rewrite IH. reflexivity.
Qed.

Lemma Forall_by_map {A B} (f : A -> B) (P : B -> Prop) l l' :
  map f l' = map f l -> Forall (fun x => P (f x)) l -> Forall (fun x => P (f x)) l'.
Proof. intros E H. apply Forall_map. rewrite E. apply Forall_map. exact H. Qed.

Definition hd_idx_is (t : Z) (cs : list child) : Prop :=
  match cs with [] => True | c :: _ => c_idx c = t end.

Definition hd_row_le0 (cs : list child) : Prop :=
  match cs with [] => True | c :: _ => c_row c <= 0 end.

Lemma zlen_items_back hs t : zlen (items_back hs t) <= zlen hs.
Proof.
  unfold items_back. destruct ((t <? 0) || (zlen hs <=? t)); [rewrite zlen_nil; apply zlen_nonneg|].
  unfold zlen. rewrite rev_length, firstn_length. lia.
Qed.

Lemma insert_children_props gap hs co top ah :
  wf_items gap hs -> 1 <= top < 18446744073709551616 ->
  let '(t, o, cs) := insert_children gap hs co top ah in
  geom_ok gap hs cs /\ hd_idx_is t cs /\ hd_row_le0 cs /\ Forall (fun c => c_col c = co) cs /\
  0 <= t < top /\
  (cs = [] -> zlen hs <= top - 1) /\
  (forall l, last_opt cs = Some l -> c_idx l = top - 1).
Proof.
  intros (Hnn & Hg & Hsum & Hlen) Ht. unfold insert_children.
  assert (Hu : u64 (top - 1) = top - 1) by (apply u64_small; lia). rewrite Hu.
  pose proof (ins_loop_props gap hs co (items_back hs (top - 1)) (top - 1) ah [] eq_refl) as P.
  assert (Hbn : Forall (fun h => 0 <= h) (items_back hs (top - 1))).
  { unfold items_back. destruct ((top - 1 <? 0) || (zlen hs <=? top - 1)); [constructor|].
    apply Forall_rev. apply Forall_firstn. exact Hnn. }
  specialize (P Hbn ltac:(lia) (geom_nil _ _) I (Forall_nil _)).
  destruct (ins_loop gap (items_back hs (top - 1)) (top - 1) ah co []) as [[t ah'] cs].
  destruct P as (P1 & P2 & P3 & P4 & _ & P6 & P7 & P8 & P9 & P10).
  assert (Hnil : cs = [] -> zlen hs <= top - 1).
  { intros ->. destruct (items_back hs (top - 1)) as [|hb0 hbt] eqn:E.
    - apply items_back_nil in E; lia.
    - destruct P6 as (l & Hl & _); [reflexivity|discriminate|discriminate]. }
  assert (Hlast : forall l, last_opt cs = Some l -> c_idx l = top - 1).
  { intros l Hl. destruct (items_back hs (top - 1)) as [|hb0 hbt] eqn:E.
    - rewrite (P7 eq_refl) in Hl. discriminate.
    - destruct P6 as (l' & Hl' & Hi); [reflexivity|discriminate|]. congruence. }
  destruct ((t =? 0) && (0 <? ah')) eqn:E.
  - pose proof (heights_nonneg hs cs Hnn (proj1 P1)) as Hh.
    pose proof (sumz_items_back hs (top - 1) Hnn) as Hsb. pose proof (zlen_items_back hs (top - 1)) as Hlb.
    unfold sumh in P8 at 2. simpl in P8. rewrite zlen_nil in P9. pose proof (zlen_nonneg cs) as Hcl.
    destruct (rerow_props gap hs Hg cs 0 P1 Hh ltac:(lia) ltac:(nia)) as (R1 & R2 & R3 & R4).
    split; [exact R1|]. split.
    { destruct cs as [|c cs]; [exact I|]. simpl in R4 |- *. simpl in P2. lia. }
    split.
    { destruct cs as [|c cs]; [exact I|]. simpl in R4 |- *. lia. }
    split; [exact (Forall_by_map c_col (fun x => x = co) _ _ R3 P3)|].
    split; [lia|]. split.
    { intros Hr. apply Hnil. destruct cs; [reflexivity|discriminate]. }
    intros l Hl. assert (Hm : option_map c_idx (last_opt (rerow gap cs 0)) = option_map c_idx (last_opt cs))
      by (rewrite <- !last_opt_map; f_equal; exact R2).
    rewrite Hl in Hm. simpl in Hm. destruct (last_opt cs) as [l0|] eqn:El; [|discriminate].
    simpl in Hm. injection Hm as ->. apply Hlast. reflexivity.
  - split; [exact P1|]. split.
    { destruct cs as [|c cs]; [exact I|]. simpl in P2 |- *. tauto. }
    split.
    { destruct cs as [|c cs]; [exact I|]. simpl in P2 |- *. destruct P2 as [_ ->].
      destruct (items_back hs (top - 1)) as [|hb0 hbt] eqn:Eb.
      - pose proof (P7 eq_refl) as X. discriminate X.
      - destruct P10 as [Ht0|Ha]; [discriminate| |exact Ha]. destruct (0 <? ah') eqn:E2; lia. }
    split; [exact P3|]. split; [lia|]. split; [exact Hnil|exact Hlast].
Qed.

Lemma geom_app gap hs a b :
  geom_ok gap hs a -> geom_ok gap hs b ->
  (forall l, last_opt a = Some l -> hd_is (c_idx l + 1) (c_row l + c_h l + gap) b) ->
  geom_ok gap hs (a ++ b).
Proof.
  intros (A1 & A2 & A3) (B1 & B2 & B3) J. unfold geom_ok, heights_ok, consecutive, spacing in *.
  rewrite forallb_app, !adj_app, A1, A2, A3, B1, B2, B3. simpl.
  destruct (last_opt a) as [l|]; [|auto]. specialize (J l eq_refl).
  destruct b as [|c b]; [auto|]. simpl in J. destruct J as [J1 J2].
  repeat split; lia.
Qed.

Definition wf_state (st : dstate) : Prop :=
  0 <= d_cur st < 18446744073709551616 /\ 0 <= d_top st < 18446744073709551616.

Lemma draw_layout_props gap dc hs H st :
  wf_items gap hs -> wf_state st ->
  let '(top2, off2, cs) := draw_layout gap dc hs H st in
  geom_ok gap hs cs /\ hd_idx_is top2 cs /\ hd_row_le0 cs /\ Forall (fun c => c_col c = coloff dc) cs /\
  0 <= top2 <= d_top st.
Proof.
  intros Hw (Hcur & Htop). pose proof Hw as (Hnn & Hg & Hsum & Hlen). unfold draw_layout.
  set (ah0 := - (d_off st + d_pend st)).
  destruct ((0 <? ah0) && (d_top st =? 0)) eqn:E0.
  - (* at the top already: ah = 0 *)
    change (0 <? 0) with false. cbv iota. cbn [app].
    pose proof (down_loop_props gap hs (d_wants st) (d_cur st) H (coloff dc) Hlen
                  (items_from hs (d_top st)) (d_top st) 0 eq_refl ltac:(lia)) as P.
    cbv zeta in P. destruct P as (P1 & P2 & P3 & _).
    split; [exact P1|]. 
    destruct (down_loop _ _ _ _ _ _ _ _) as [|c cs]; simpl in P2 |- *; [repeat split; auto; lia|].
    repeat split; try tauto; try lia.
  - destruct (0 <? ah0) eqn:E1.
    + (* upward insertion *)
      assert (Ht1 : 1 <= d_top st < 18446744073709551616) by lia.
      pose proof (insert_children_props gap hs (coloff dc) (d_top st) ah0 Hw Ht1) as P.
      destruct (insert_children gap hs (coloff dc) (d_top st) ah0) as [[t o] ins].
      destruct P as (P1 & P2 & P2r & P3 & P4 & P5 & P6).
      destruct (last_opt ins) as [l|] eqn:El.
      * pose proof (down_loop_props gap hs (d_wants st) (d_cur st) H (coloff dc) Hlen
                      (items_from hs (d_top st)) (d_top st) (c_row l + c_h l + gap) eq_refl ltac:(lia)) as Q.
        cbv zeta in Q. destruct Q as (Q1 & Q2 & Q3 & _).
        split; [|split; [|split; [|split; [apply Forall_app; auto|lia]]]].
        -- apply geom_app; auto. intros l' Hl'. assert (l' = l) by congruence. subst l'.
           rewrite (P6 l eq_refl). replace (d_top st - 1 + 1) with (d_top st) by lia. exact Q2.
        -- destruct ins as [|c ins]; [discriminate|]. exact P2.
        -- destruct ins as [|c ins]; [discriminate|]. exact P2r.
      * apply last_opt_none in El. subst ins. specialize (P5 eq_refl).
        assert (Hf : items_from hs (d_top st) = []).
        { unfold items_from. destruct ((d_top st <? 0) || (zlen hs <=? d_top st)) eqn:E2; [reflexivity|lia]. }
        rewrite Hf. simpl. split; [apply geom_nil|]. split; [exact I|]. split; [exact I|]. split; [constructor|lia].
    + cbn [app].
      pose proof (down_loop_props gap hs (d_wants st) (d_cur st) H (coloff dc) Hlen
                    (items_from hs (d_top st)) (d_top st) ah0 eq_refl ltac:(lia)) as P.
      cbv zeta in P. destruct P as (P1 & P2 & P3 & _).
      split; [exact P1|].
      destruct (down_loop _ _ _ _ _ _ _ _) as [|c cs]; simpl in P2 |- *; [repeat split; auto; lia|].
      repeat split; try tauto; try lia.
Qed.

(* ---------------------------------------------------------------------------------- *)
(* Dynamic: the cursor gutter, cursor following and the anchor                         *)
(* ---------------------------------------------------------------------------------- *)

Lemma zget_of_nat {A} (l : list A) n : zget l (Z.of_nat n) = nth_error l n.
Proof. unfold zget. destruct (Z.of_nat n <? 0) eqn:E; [lia|]. now rewrite Nat2Z.id. Qed.

Lemma In_zget {A} (l : list A) x : In x l -> exists k, zget l k = Some x.
Proof. intros H. apply In_nth_error in H as [n Hn]. exists (Z.of_nat n). now rewrite zget_of_nat. Qed.

Lemma forallb_upd_nat {A} (f : A -> bool) l n c c' :
  nth_error l n = Some c -> f c' = f c -> forallb f (upd_nat l n c') = forallb f l.
Proof.
  revert n; induction l as [|a t IH]; intros [|n] Hn Hf; simpl in *; try discriminate.
  - injection Hn as ->. now rewrite Hf.
  - now rewrite (IH n Hn Hf).
Qed.

Lemma forallb_map' {A B} (f : B -> bool) (g : A -> B) l : forallb f (map g l) = forallb (fun x => f (g x)) l.
Proof. induction l as [|a t IH]; simpl; [reflexivity|]. now rewrite IH. Qed.

Definition same_geom (a b : child) : Prop := c_idx a = c_idx b /\ c_row a = c_row b /\ c_h a = c_h b.

Lemma geom_upd gap hs cs k c cs1 :
  zget cs k = Some c -> zupd cs k (mkC (c_idx c) (c_row c) 0 (c_h c)) = Some cs1 ->
  (geom_ok gap hs cs -> geom_ok gap hs cs1) /\ map c_idx cs1 = map c_idx cs.
Proof.
  intros Hg Hu. unfold zupd in Hu. destruct ((k <? 0) || (zlen cs <=? k)) eqn:E; [discriminate|].
  injection Hu as <-. unfold zget in Hg. destruct (k <? 0); [discriminate|].
  set (c' := mkC (c_idx c) (c_row c) 0 (c_h c)).
  assert (HE : same_geom c c') by (repeat split).
  split.
  - intros (G1 & G2 & G3). unfold geom_ok, heights_ok, consecutive, spacing in *.
    rewrite (forallb_upd_nat _ _ _ c c' Hg) by reflexivity.
    rewrite (adj_upd_nat _ same_geom cs _ c c'), (adj_upd_nat _ same_geom cs _ c c'); auto;
      intros a a' b (Ha & Hb & Hc); rewrite ?Ha, ?Hb, ?Hc; reflexivity.
  - clear E. revert Hg. generalize (Z.to_nat k). induction cs as [|a t IH]; intros [|n] Hn; simpl in *; try discriminate.
    + injection Hn as ->. reflexivity.
    + f_equal. apply IH. exact Hn.
Qed.

Lemma geom_shift gap hs adj cs : geom_ok gap hs cs -> geom_ok gap hs (shift adj cs).
Proof.
  intros (G1 & G2 & G3). unfold geom_ok, heights_ok, consecutive, spacing, shift in *.
  rewrite forallb_map'. simpl. split; [exact G1|]. split.
  - erewrite adj_map; [exact G2|]. reflexivity.
  - erewrite adj_map; [exact G3|]. intros a b. simpl. lia.
Qed.

Lemma hd_idx_by_map t cs cs' : map c_idx cs' = map c_idx cs -> hd_idx_is t cs -> hd_idx_is t cs'.
Proof. destruct cs, cs'; simpl; try discriminate; auto. intros E; injection E as E _. congruence. Qed.

Lemma consecutive_nth cs : forall t k c,
  consecutive cs = true -> hd_idx_is t cs -> zget cs k = Some c -> c_idx c = t + k.
Proof.
  induction cs as [|a cs IH]; intros t k c Hc Hh Hg; [destruct (zget_some_range _ _ _ Hg); simpl in *; unfold zlen in *; simpl in *; lia|].
  pose proof (zget_some_range _ _ _ Hg) as Hr. simpl in Hh.
  destruct (Z.eq_dec k 0) as [->|Hk].
  - rewrite zget_cons_0 in Hg. injection Hg as <-. lia.
  - rewrite zget_cons_S in Hg by lia.
    assert (Hc' : consecutive cs = true) by (eapply adj_tail; exact Hc).
    rewrite (IH (t + 1) (k - 1) c Hc'); [lia| |exact Hg].
    destruct cs as [|b cs]; [exact I|]. simpl. unfold consecutive in Hc. rewrite adj_cons2 in Hc. lia.
Qed.

Lemma consecutive_by_map cs cs' : map c_idx cs' = map c_idx cs -> consecutive cs = consecutive cs'.
Proof.
  intros E. unfold consecutive.
  rewrite <- (adj_map (fun a b => b =? a + 1) (fun a b : child => c_idx b =? c_idx a + 1) c_idx cs) by reflexivity.
  rewrite <- (adj_map (fun a b => b =? a + 1) (fun a b : child => c_idx b =? c_idx a + 1) c_idx cs') by reflexivity.
  now rewrite E.
Qed.

Lemma draw_cursor_cols dc cur top2 cs cs1 :
  0 <= cur < 18446744073709551616 -> 0 <= top2 ->
  consecutive cs = true -> hd_idx_is top2 cs -> Forall (fun c => c_col c = coloff dc) cs ->
  draw_cursor dc cur top2 cs = Some cs1 -> cols_ok dc cur cs1 = true.
Proof.
  intros Hcur Ht Hc Hh Hcol. unfold draw_cursor. rewrite Forall_forall in Hcol.
  destruct (dc && cursor_hit cur top2 cs) eqn:E.
  - destruct dc; [|discriminate]. simpl in E. unfold cursor_hit in E.
    assert (Hu : u64 (cur - top2) = cur - top2) by (apply u64_small; lia). rewrite Hu in *.
    destruct (zget cs (cur - top2)) as [c|] eqn:Eg; [|discriminate]. intros Hu1.
    unfold cols_ok. apply forallb_forall. intros x Hx. apply In_zget in Hx as [k Hk].
    destruct (Z.eq_dec (cur - top2) k) as [<-|Hne].
    + rewrite (zget_zupd_same _ _ _ _ Hu1) in Hk. injection Hk as <-. simpl.
      rewrite (consecutive_nth cs top2 _ c Hc Hh Eg). replace (top2 + (cur - top2) =? cur) with true by lia. reflexivity.
    + rewrite (zget_zupd_other _ _ _ _ _ Hu1 Hne) in Hk.
      rewrite (consecutive_nth cs top2 _ x Hc Hh Hk). replace (top2 + k =? cur) with false by lia. simpl.
      rewrite (Hcol x (zget_In _ _ _ Hk)). simpl. lia.
  - intros Hs; injection Hs as <-. unfold cols_ok. apply forallb_forall. intros x Hx.
    rewrite (Hcol x Hx). destruct dc; simpl; [|lia]. simpl in E. unfold cursor_hit in E.
    apply In_zget in Hx as [k Hk]. rewrite (consecutive_nth cs top2 _ x Hc Hh Hk).
    pose proof (zget_some_range _ _ _ Hk) as Hr.
    destruct (top2 <=? cur) eqn:E1; simpl in E.
    + assert (Hu : u64 (cur - top2) = cur - top2) by (apply u64_small; lia). rewrite Hu in E.
      replace (top2 + k =? cur) with false by lia. lia.
    + replace (top2 + k =? cur) with false by lia. lia.
Qed.

Lemma cols_ok_shift dc cur adj cs : cols_ok dc cur (shift adj cs) = cols_ok dc cur cs.
Proof. unfold cols_ok, shift. rewrite forallb_map'. reflexivity. Qed.

Lemma reset_loop_nocover gap cs : forall k top off,
  (forall c, In c cs -> covers0 gap c = false) -> reset_loop gap cs k top off = (top, off).
Proof.
  induction cs as [|a cs IH]; intros k top off Hn; [reflexivity|].
  cbn [reset_loop]. rewrite (Hn a (or_introl eq_refl)). apply IH. intros c Hc; apply Hn; right; exact Hc.
Qed.

Lemma spacing_after gap cs : forall a,
  0 <= gap -> spacing gap (a :: cs) = true -> Forall (fun c => 0 <= c_h c) (a :: cs) ->
  forall x, In x cs -> c_row a + c_h a + gap <= c_row x.
Proof.
  induction cs as [|b cs IH]; intros a Hg Hn Hh x Hx; [destruct Hx|].
  unfold spacing in Hn. rewrite adj_cons2 in Hn. apply andb_prop in Hn as [H1 H2].
  pose proof (Forall_inv_tail Hh) as Hh'. pose proof (Forall_inv Hh') as Hb. cbv beta in Hb.
  destruct Hx as [<-|Hx]; [lia|]. specialize (IH b Hg H2 Hh' x Hx). lia.
Qed.

Lemma reset_loop_anchor gap cs : forall k top off t,
  0 <= gap ->
  consecutive cs = true -> spacing gap cs = true -> Forall (fun c => 0 <= c_h c) cs ->
  Forall (fun c => 0 <= c_idx c < 18446744073709551616) cs ->
  hd_idx_is t cs -> t = top + k ->
  let '(top3, off3) := reset_loop gap cs k top off in
  forallb (fun c => negb (covers0 gap c) || ((top3 =? c_idx c) && (off3 =? - c_row c))) cs = true /\
  (top3 = top \/ 0 <= top3 < 18446744073709551616).
Proof.
  induction cs as [|a cs IH]; intros k top off t Hg Hc Hn Hh Hi Ht Htk; [simpl; auto|].
  cbn [reset_loop]. simpl in Ht.
  pose proof (Forall_inv Hi) as Hia. cbv beta in Hia.
  destruct (covers0 gap a) eqn:Ea.
  - assert (Hno : forall c, In c cs -> covers0 gap c = false).
    { intros c Hin. pose proof (spacing_after gap cs a Hg Hn Hh c Hin). unfold covers0 in *. lia. }
    rewrite (reset_loop_nocover gap cs _ _ _ Hno).
    assert (Hu : u64 (top + k) = c_idx a) by (rewrite u64_small; lia).
    split; [|right; rewrite Hu; exact Hia].
    cbn [forallb]. rewrite Ea, Hu. simpl. replace (c_idx a =? c_idx a) with true by lia.
    replace (- c_row a =? - c_row a) with true by lia. simpl.
    apply forallb_forall. intros c Hin. rewrite (Hno c Hin). reflexivity.
  - specialize (IH (k + 1) top off (t + 1) Hg (adj_tail _ _ _ Hc) (adj_tail _ _ _ Hn)
                   (Forall_inv_tail Hh) (Forall_inv_tail Hi)).
    assert (Hh1 : hd_idx_is (t + 1) cs).
    { destruct cs as [|b cs]; [exact I|]. simpl. unfold consecutive in Hc. rewrite adj_cons2 in Hc. lia. }
    specialize (IH Hh1 ltac:(lia)).
    destruct (reset_loop gap cs (k + 1) top off) as [top3 off3]. destruct IH as [I1 I2].
    split; [|exact I2]. cbn [forallb]. rewrite Ea. simpl. exact I1.
Qed.

Lemma spacing_no_overlap gap cs :
  0 <= gap -> spacing gap cs = true -> no_overlap cs = true.
Proof. intros Hg. unfold spacing, no_overlap. apply adj_imp. intros a b. lia. Qed.

(* the children and the gaps below them tile the rows from the first child's row on: if the first
   child starts at or above row 0, either one of them is on row 0 or everything ends above it *)
Lemma covers_or_past_end gap cs : forall a,
  spacing gap (a :: cs) = true -> c_row a <= 0 ->
  existsb (covers0 gap) (a :: cs) || past_end gap (a :: cs) = true.
Proof.
  induction cs as [|b cs IH]; intros a Hs Hh.
  - unfold past_end, covers0. simpl. lia.
  - unfold spacing in Hs. rewrite adj_cons2 in Hs. apply andb_prop in Hs as [H1 H2].
    cbn [existsb]. unfold past_end. change (last_opt (a :: b :: cs)) with (last_opt (b :: cs)).
    destruct (covers0 gap a) eqn:Ec; [reflexivity|]. simpl.
    apply (IH b H2). unfold covers0 in Ec. lia.
Qed.

Lemma scroll_kept_or_past_end gap cs :
  spacing gap cs = true -> hd_row_le0 cs -> scroll_kept gap cs || past_end gap cs = true.
Proof.
  destruct cs as [|a cs]; [reflexivity|]. intros Hs Hh. apply covers_or_past_end; assumption.
Qed.

Lemma heights_idx_range hs cs :
  heights_ok hs cs = true -> Forall (fun c => 0 <= c_idx c < zlen hs) cs.
Proof.
  intros H. unfold heights_ok in H. rewrite forallb_forall in H. apply Forall_forall.
  intros c Hc. specialize (H c Hc). destruct (builder hs (c_idx c)) as [x|] eqn:E; simpl in H; [|discriminate].
  eapply builder_some; exact E.
Qed.

Lemma draw_cursor_shape gap hs dc cur top2 cs cs1 :
  draw_cursor dc cur top2 cs = Some cs1 ->
  (geom_ok gap hs cs -> geom_ok gap hs cs1) /\ map c_idx cs1 = map c_idx cs /\
  (hd_row_le0 cs -> hd_row_le0 cs1).
Proof.
  unfold draw_cursor. destruct (dc && cursor_hit cur top2 cs).
  - destruct (zget cs (u64 (cur - top2))) as [c|] eqn:Eg; [|discriminate]. intros Hu.
    destruct (geom_upd gap hs cs _ c cs1 Eg Hu) as [G1 G2]. split; [exact G1|]. split; [exact G2|].
    (* the first row is unchanged *)
    unfold zupd in Hu. destruct ((u64 (cur - top2) <? 0) || (zlen cs <=? u64 (cur - top2))); [discriminate|].
    injection Hu as <-. unfold zget in Eg. destruct (u64 (cur - top2) <? 0); [discriminate|].
    destruct cs as [|a cs]; [destruct (Z.to_nat _); discriminate|].
    destruct (Z.to_nat (u64 (cur - top2))) as [|n]; simpl in *; [injection Eg as ->; auto|auto].
  - intros Hs; injection Hs as <-. auto.
Qed.

Lemma shift_idx adj cs : map c_idx (shift adj cs) = map c_idx cs.
Proof. unfold shift. rewrite map_map. reflexivity. Qed.

Lemma draw_follow_shape wants cur top2 H cs1 cs2 w2 :
  draw_follow wants cur top2 H cs1 = Some (cs2, w2) ->
  cs2 = cs1 \/ exists adj, adj <= 0 /\ cs2 = shift adj cs1.
Proof.
  unfold draw_follow. destruct (wants && cursor_hit cur top2 cs1).
  - destruct (zget cs1 (u64 (cur - top2))) as [c|]; [|discriminate].
    destruct (H <? c_row c + c_h c) eqn:E; intros Hs; injection Hs as <- _; [right|left; reflexivity].
    exists (H - (c_row c + c_h c)). split; [lia|reflexivity].
  - intros Hs; injection Hs as <- _; auto.
Qed.

Lemma reset_loop_range gap cs : forall k top off,
  0 <= top < 18446744073709551616 -> 0 <= fst (reset_loop gap cs k top off) < 18446744073709551616.
Proof.
  induction cs as [|a cs IH]; intros k top off Ht; [exact Ht|].
  cbn [reset_loop]. destruct (covers0 gap a); apply IH; [apply u64_range|exact Ht].
Qed.

Theorem draw_props gap dc hs W H st cs st' :
  wf_items gap hs -> wf_state st -> draw gap dc hs W H st = Ok (cs, st') ->
  geom_ok gap hs cs /\ cols_ok dc (d_cur st) cs = true /\
  d_pend st' = 0 /\ d_cur st' = d_cur st /\ wf_state st' /\
  anchor_ok gap st' cs = true /\ hd_row_le0 cs.
Proof.
  intros Hw Hs. pose proof Hw as (Hnn & Hg & Hsum & Hlen). pose proof Hs as (Hcur & Htop). unfold draw.
  destruct ((H =? 65535) || (W =? 65535)); [discriminate|].
  pose proof (draw_layout_props gap dc hs H st Hw Hs) as L.
  destruct (draw_layout gap dc hs H st) as [[top2 off2] cs0]. destruct L as (L1 & L2 & L2r & L3 & L4).
  destruct (draw_cursor dc (d_cur st) top2 cs0) as [cs1|] eqn:E1; [|discriminate].
  destruct (draw_follow (d_wants st) (d_cur st) top2 H cs1) as [[cs2 w2]|] eqn:E2; [|discriminate].
  pose proof (draw_cursor_shape gap hs _ _ _ _ _ E1) as (C1 & C2 & C2r).
  pose proof (draw_cursor_cols dc (d_cur st) top2 cs0 cs1 Hcur ltac:(lia) (proj1 (proj2 L1)) L2 L3 E1) as C3.
  specialize (C1 L1). specialize (C2r L2r).
  assert (G2 : geom_ok gap hs cs2 /\ cols_ok dc (d_cur st) cs2 = true /\ map c_idx cs2 = map c_idx cs0 /\ hd_row_le0 cs2).
  { destruct (draw_follow_shape _ _ _ _ _ _ _ E2) as [->|(adj & Ha & ->)].
    - auto.
    - split; [apply geom_shift; exact C1|]. split; [rewrite cols_ok_shift; exact C3|].
      split; [rewrite shift_idx; exact C2|]. destruct cs1 as [|a cs1]; [exact I|]. simpl in C2r |- *. lia. }
  destruct G2 as (G2 & G3 & G4 & G5).
  assert (Hhd : hd_idx_is top2 cs2) by (eapply hd_idx_by_map; [exact G4|exact L2]).
  pose proof (heights_nonneg hs cs2 Hnn (proj1 G2)) as Hh.
  assert (Hir : Forall (fun c => 0 <= c_idx c < 18446744073709551616) cs2).
  { eapply Forall_impl; [|exact (heights_idx_range hs cs2 (proj1 G2))]. cbv beta. intros c Hc. lia. }
  destruct (reset_loop gap cs2 0 top2 off2) as [top3 off3] eqn:E3.
  intros Hok. injection Hok as <- <-. simpl.
  split; [exact G2|]. split; [exact G3|]. split; [reflexivity|]. split; [reflexivity|].
  pose proof (reset_loop_range gap cs2 0 top2 off2 ltac:(lia)) as Hr3. rewrite E3 in Hr3. simpl in Hr3.
  split; [split; simpl; lia|]. split; [|exact G5].
  pose proof (reset_loop_anchor gap cs2 0 top2 off2 top2 Hg (proj1 (proj2 G2)) (proj2 (proj2 G2)) Hh Hir Hhd ltac:(lia)) as A.
  rewrite E3 in A. exact (proj1 A).
Qed.

(* ---------------------------------------------------------------------------------- *)
(* Dynamic: the cursor is visible after a selection change and a draw                  *)
(* ---------------------------------------------------------------------------------- *)

Lemma down_loop_cursor gap hs cur H co :
  Forall (fun h => 0 <= h) hs -> 0 <= gap -> cur < zlen hs -> zlen hs < 18446744073709551616 ->
  forall suffix i ah wants, suffix = items_from hs i -> 0 <= i <= cur -> (i < cur -> wants = true) ->
  exists c, zget (down_loop suffix i ah wants cur H gap co) (cur - i) = Some c /\
            c_idx c = cur /\ builder hs cur = Some (c_h c) /\
            (i = cur -> c_row c = ah) /\
            (forall h0, i < cur -> builder hs i = Some h0 -> ah + h0 + gap <= c_row c).
Proof.
  intros Hnn Hg Hcur Hlen. induction suffix as [|h rest IH]; intros i ah wants Hs Hi Hw.
  - symmetry in Hs. apply items_from_nil in Hs; lia.
  - symmetry in Hs. apply items_from_cons in Hs as (Hr & Hb & Hrest).
    assert (Hu : u64 (i + 1) = i + 1) by (apply u64_small; lia).
    cbn [down_loop]. rewrite Hu. cbv zeta.
    destruct (Z.eq_dec i cur) as [->|Hne].
    + exists (mkC cur ah co h). replace (cur - cur) with 0 by lia.
      assert (Hz : forall l, zget (mkC cur ah co h :: l) 0 = Some (mkC cur ah co h)) by reflexivity.
      split.
      { destruct (wants && (cur + 1 <=? cur)); [apply Hz|]. destruct (H <=? ah + h + gap); apply Hz. }
      simpl. split; [reflexivity|]. split; [exact Hb|]. split; [reflexivity|]. intros; lia.
    + rewrite (Hw ltac:(lia)). replace (i + 1 <=? cur) with true by lia. simpl.
      destruct (IH (i + 1) (ah + h + gap) true Hrest ltac:(lia) ltac:(reflexivity)) as (c & Hc1 & Hc2 & Hc3 & Hc4 & Hc5).
      exists c. rewrite zget_cons_S by lia. replace (cur - i - 1) with (cur - (i + 1)) by lia.
      split; [exact Hc1|]. split; [exact Hc2|]. split; [exact Hc3|]. split; [lia|].
      intros h0 _ Hb0. assert (h0 = h) by congruence. subst h0.
      destruct (Z.eq_dec (i + 1) cur) as [He|Hn1].
      * specialize (Hc4 He). lia.
      * destruct (builder hs (i + 1)) as [h1|] eqn:Eb.
        -- specialize (Hc5 h1 ltac:(lia) eq_refl).
           assert (0 <= h1). { unfold builder in Eb. destruct (zlen hs <=? i + 1); [discriminate|].
                               apply zget_In in Eb. rewrite Forall_forall in Hnn. auto. }
           lia.
        -- apply builder_none in Eb; lia.
Qed.

Definition after_select (st : dstate) : Prop :=
  (d_top st < d_cur st /\ d_wants st = true) \/ (d_top st = d_cur st /\ d_off st = 0).

Lemma visible_ok_bottom h H : 0 <= h -> 0 < H -> visible_ok (H - h) h H = true.
Proof. intros. unfold visible_ok. destruct (h <=? H) eqn:E; lia. Qed.

Lemma visible_ok_inside r h H : 0 <= r -> r + h <= H -> 0 <= h -> visible_ok r h H = true.
Proof. intros. unfold visible_ok. destruct (h <=? H) eqn:E; lia. Qed.

Theorem draw_cursor_visible gap dc hs W H st cs st' :
  wf_items gap hs -> wf_state st -> 0 < H ->
  d_pend st = 0 -> ioff gap hs st = true -> d_cur st < zlen hs -> after_select st ->
  draw gap dc hs W H st = Ok (cs, st') -> cursor_visible H (d_cur st) cs = true.
Proof.
  intros (Hnn & Hg & Hsum & Hlen) (Hcur & Htop) HH Hp Hio Hcn Has. unfold draw.
  destruct ((H =? 65535) || (W =? 65535)); [discriminate|].
  unfold ioff in Hio. apply andb_prop in Hio as [Ho1 Ho2].
  unfold draw_layout. rewrite Hp.
  replace ((0 <? - (d_off st + 0)) && (d_top st =? 0)) with false by lia.
  replace (0 <? - (d_off st + 0)) with false by lia. cbn [app].
  assert (Htc : d_top st <= d_cur st) by (destruct Has; lia).
  destruct (down_loop_cursor gap hs (d_cur st) H (coloff dc) Hnn Hg Hcn Hlen
              (items_from hs (d_top st)) (d_top st) (- (d_off st + 0)) (d_wants st) eq_refl ltac:(lia))
    as (c & Hc1 & Hc2 & Hc3 & Hc4 & Hc5).
  { intros Hlt. destruct Has as [[_ Hw]|[He _]]; [exact Hw|lia]. }
  set (cs0 := down_loop (items_from hs (d_top st)) (d_top st) (- (d_off st + 0)) (d_wants st) (d_cur st) H gap (coloff dc)) in *.
  assert (Hu : u64 (d_cur st - d_top st) = d_cur st - d_top st) by (apply u64_small; lia).
  assert (Hch : 0 <= c_h c). { unfold builder in Hc3. destruct (zlen hs <=? d_cur st); [discriminate|].
                               apply zget_In in Hc3. rewrite Forall_forall in Hnn. auto. }
  (* row of the cursored child before following *)
  assert (Hrow : 0 <= c_row c /\ (d_wants st = false -> c_row c = 0)).
  { destruct Has as [[Hlt Hw]|[He Ho]].
    - split; [|congruence]. destruct (builder hs (d_top st)) as [ht|] eqn:Eb.
      + specialize (Hc5 ht Hlt eq_refl).
        assert (0 <= ht). { unfold builder in Eb. destruct (zlen hs <=? d_top st); [discriminate|].
                            apply zget_In in Eb. rewrite Forall_forall in Hnn. auto. }
        lia.
      + apply builder_none in Eb; lia.
    - specialize (Hc4 He). lia. }
  (* the gutter keeps the geometry of the cursored child *)
  destruct (draw_cursor dc (d_cur st) (d_top st) cs0) as [cs1|] eqn:E1; [|discriminate].
  assert (Hc1' : exists c1, zget cs1 (d_cur st - d_top st) = Some c1 /\ same_geom c c1).
  { unfold draw_cursor in E1. rewrite Hu, Hc1 in E1. destruct (dc && cursor_hit (d_cur st) (d_top st) cs0).
    - exists (mkC (c_idx c) (c_row c) 0 (c_h c)). split; [eapply zget_zupd_same; exact E1|repeat split].
    - injection E1 as <-. exists c. split; [exact Hc1|repeat split]. }
  destruct Hc1' as (c1 & Hg1 & Hi1 & Hr1 & Hh1).
  pose proof (zget_some_range _ _ _ Hg1) as Hrg.
  assert (Hhit : cursor_hit (d_cur st) (d_top st) cs1 = true) by (unfold cursor_hit; rewrite Hu; lia).
  unfold draw_follow. rewrite Hhit, Hu, Hg1.
  destruct (d_wants st) eqn:Ew; simpl.
  - destruct (H <? c_row c1 + c_h c1) eqn:Eb.
    + destruct (reset_loop _ _ _ _ _). intros Hok; injection Hok as <- _.
      unfold cursor_visible. apply existsb_exists.
      exists (mkC (c_idx c1) (c_row c1 + (H - (c_row c1 + c_h c1))) (c_col c1) (c_h c1)). split.
      * unfold shift. apply in_map_iff. exists c1. split; [reflexivity|eapply zget_In; exact Hg1].
      * simpl. replace (c_row c1 + (H - (c_row c1 + c_h c1))) with (H - c_h c1) by lia.
        rewrite visible_ok_bottom by lia. lia.
    + destruct (reset_loop _ _ _ _ _). intros Hok; injection Hok as <- _.
      unfold cursor_visible. apply existsb_exists. exists c1. split; [eapply zget_In; exact Hg1|].
      rewrite visible_ok_inside by lia. lia.
  - destruct (reset_loop _ _ _ _ _). intros Hok; injection Hok as <- _.
    unfold cursor_visible. apply existsb_exists. exists c1. split; [eapply zget_In; exact Hg1|].
    destruct Hrow as [_ Hr0]. specialize (Hr0 eq_refl).
    assert (Hv : visible_ok (c_row c1) (c_h c1) H = true).
    { unfold visible_ok. destruct (c_h c1 <=? H) eqn:E; lia. }
    rewrite Hv. lia.
Qed.

(* ---------------------------------------------------------------------------------- *)
(* Dynamic: operation sequences                                                        *)
(* ---------------------------------------------------------------------------------- *)

Definition wf_op (gap : Z) (op : dop) : Prop :=
  match op with
  | DSetCursor c => 0 <= c < 18446744073709551616
  | DSetItems hs' => wf_items gap hs'
  | DDraw w h => w <> 65535 /\ h <> 65535
  | _ => True
  end.

Lemma state_tuple_roundtrip st : state_of_tuple (tuple_of_state st) = st.
Proof. destruct st; reflexivity. Qed.

Lemma child_tuple_roundtrip cs : map child_of_tuple (map tuple_of_child cs) = cs.
Proof. induction cs as [|c cs IH]; [reflexivity|]. simpl. rewrite IH. destruct c; reflexivity. Qed.

Lemma ensure_scroll_after st : after_select (ensure_scroll st).
Proof. unfold ensure_scroll, after_select. destruct (d_top st <? d_cur st) eqn:E; simpl; [left|right]; split; auto; lia. Qed.

Lemma ensure_scroll_cur st : d_cur (ensure_scroll st) = d_cur st.
Proof. unfold ensure_scroll. destruct (d_top st <? d_cur st); reflexivity. Qed.

Lemma ensure_scroll_wf st : wf_state st -> wf_state (ensure_scroll st).
Proof. unfold ensure_scroll, wf_state. destruct (d_top st <? d_cur st); simpl; lia. Qed.

(* index_valid for Dynamic: next/prev/wheel/pending-scroll/draw keep a valid cursor valid *)
Lemma next_item_valid hs st :
  valid_index (d_cur st) (zlen hs) = true -> valid_index (d_cur (next_item hs st)) (zlen hs) = true.
Proof.
  unfold next_item. destruct (builder hs (u64 (d_cur st + 1))) eqn:E; [|auto].
  intros _. rewrite ensure_scroll_cur. simpl. apply builder_some in E. unfold valid_index. lia.
Qed.

Lemma prev_item_valid hs st :
  valid_index (d_cur st) (zlen hs) = true -> valid_index (d_cur (prev_item hs st)) (zlen hs) = true.
Proof.
  unfold prev_item. destruct (d_cur st =? 0); [auto|].
  destruct (builder hs (u64 (d_cur st - 1))) eqn:E; [|auto].
  intros _. rewrite ensure_scroll_cur. simpl. apply builder_some in E. unfold valid_index. lia.
Qed.

Lemma dstep_wf gap dc hs st op hs' st' cs :
  wf_items gap hs -> wf_state st -> wf_op gap op -> dstep gap dc hs st op = Ok (hs', st', cs) ->
  wf_items gap hs' /\ wf_state st'.
Proof.
  intros Hw Hs Ho. destruct op; simpl in *.
  - intros E; injection E as <- <- _. split; [auto|]. unfold next_item.
    destruct (builder hs (u64 (d_cur st + 1))); [|auto]. apply ensure_scroll_wf.
    destruct Hs as [_ Ht]. split; simpl; [apply u64_range|exact Ht].
  - intros E; injection E as <- <- _. split; [auto|]. unfold prev_item. destruct (d_cur st =? 0); [auto|].
    destruct (builder hs (u64 (d_cur st - 1))); [|auto]. apply ensure_scroll_wf.
    destruct Hs as [_ Ht]. split; simpl; [apply u64_range|exact Ht].
  - intros E; injection E as <- <- _. split; [auto|]. apply ensure_scroll_wf. destruct Hs as [_ Ht]. split; simpl; auto.
  - intros E; injection E as <- <- _. auto.
  - intros E; injection E as <- <- _. split; [auto|]. unfold wheel_up. destruct ((0 <? d_off st) && (0 <? d_top st)); auto.
  - intros E; injection E as <- <- _. auto.
  - intros E; injection E as <- <- _. auto.
  - destruct (draw gap dc hs w h st) as [[cs0 st0]|] eqn:E; [|discriminate].
    intros E'; injection E' as <- <- <-. split; [auto|].
    destruct (draw_props _ _ _ _ _ _ _ _ Hw Hs E) as (_ & _ & _ & _ & Hwf & _). exact Hwf.
Qed.

Lemma dstep_select gap dc hs st op hs' st' cs :
  dstep gap dc hs st op = Ok (hs', st', cs) -> is_select op st st' = true -> after_select st'.
Proof.
  destruct op; simpl; try discriminate.
  - intros E; injection E as _ <- _. unfold next_item. destruct (builder hs (u64 (d_cur st + 1))).
    + intros _. apply ensure_scroll_after.
    + intros H. lia.
  - intros E; injection E as _ <- _. unfold prev_item. destruct (d_cur st =? 0); [intros H; lia|].
    destruct (builder hs (u64 (d_cur st - 1))).
    + intros _. apply ensure_scroll_after.
    + intros H. lia.
  - intros E; injection E as _ <- _. intros _. apply ensure_scroll_after.
Qed.

Lemma dstep_index gap dc hs st op hs' st' cs :
  wf_items gap hs -> wf_state st ->
  dstep gap dc hs st op = Ok (hs', st', cs) -> index_step_ok op hs st st' = true.
Proof.
  intros Hw Hs. destruct op; simpl.
  - intros E; injection E as _ <- _. pose proof (next_item_valid hs st).
    destruct (valid_index (d_cur st) (zlen hs)); simpl; auto.
  - intros E; injection E as _ <- _. pose proof (prev_item_valid hs st).
    destruct (valid_index (d_cur st) (zlen hs)); simpl; auto.
  - intros E; injection E as _ <- _. unfold set_cursor. rewrite ensure_scroll_cur. simpl. lia.
  - intros E; injection E as _ <- _. simpl. destruct (valid_index (d_cur st) (zlen hs)); reflexivity.
  - intros E; injection E as _ <- _. unfold wheel_up. destruct ((0 <? d_off st) && (0 <? d_top st)); simpl;
      destruct (valid_index (d_cur st) (zlen hs)); reflexivity.
  - intros E; injection E as _ <- _. simpl. destruct (valid_index (d_cur st) (zlen hs)); reflexivity.
  - intros E; injection E as _ <- _. lia.
  - destruct (draw gap dc hs w h st) as [[cs0 st0]|] eqn:E; [|discriminate].
    intros E'; injection E' as _ <- _.
    destruct (draw_props _ _ _ _ _ _ _ _ Hw Hs E) as (_ & _ & _ & Hc & _). rewrite Hc.
    destruct (valid_index (d_cur st) (zlen hs)); reflexivity.
Qed.

Lemma draw_obs_model_ok gap dc hs W H st sel cs st' :
  wf_items gap hs -> wf_state st -> (sel = true -> after_select st) ->
  draw gap dc hs W H st = Ok (cs, st') -> draw_obs_ok true gap dc hs H st sel st' cs = true.
Proof.
  intros Hw Hs Hsel E. destruct (draw_props _ _ _ _ _ _ _ _ Hw Hs E) as ((G1 & G2 & G3) & C & P & Cu & _ & A & R).
  pose proof Hw as (_ & Hg & _ & _).
  unfold draw_obs_ok. rewrite G1, G2, G3, C, P, Cu, A, (spacing_no_overlap gap cs Hg G3). simpl.
  replace (d_cur st =? d_cur st) with true by lia. simpl.
  rewrite (scroll_kept_or_past_end gap cs G3 R). simpl.
  destruct (sel && (d_pend st =? 0) && ioff gap hs st && (d_cur st <? zlen hs) && (0 <? H)) eqn:Ev; [|reflexivity].
  apply andb_prop in Ev as [Ev E6]. apply andb_prop in Ev as [Ev E5]. apply andb_prop in Ev as [Ev E4].
  apply andb_prop in Ev as [Ev E2].
  eapply draw_cursor_visible with (W := W) (gap := gap) (hs := hs) (dc := dc) (st' := st');
    [exact Hw|exact Hs|lia|lia|exact E4|lia|apply Hsel; exact Ev|exact E].
Qed.

Theorem dyn_trace_model_ok gap dc : forall ops hs st sel,
  wf_items gap hs -> wf_state st -> Forall (wf_op gap) ops -> (sel = true -> after_select st) ->
  dyn_trace_ok true gap dc hs st sel (dyn_run gap dc hs st ops) = true.
Proof.
  induction ops as [|op ops IH]; intros hs st sel Hw Hs Ho Hsel; [reflexivity|].
  pose proof (Forall_inv Ho) as Ho1. pose proof (Forall_inv_tail Ho) as Ho'.
  cbn [dyn_run].
  assert (Hok : exists hs' st' cs, dstep gap dc hs st op = Ok (hs', st', cs)).
  { destruct op; simpl; eauto. simpl in Ho1. destruct Ho1 as [Hw1 Hh1].
    destruct (draw_total gap dc hs w h st Hw1 Hh1) as (cs & st' & ->). eauto. }
  destruct Hok as (hs' & st' & cs & E). rewrite E.
  destruct (dstep_wf _ _ _ _ _ _ _ _ Hw Hs Ho1 E) as [Hw' Hs'].
  cbn [dyn_trace_ok]. rewrite state_tuple_roundtrip, child_tuple_roundtrip.
  rewrite (dstep_index _ _ _ _ _ _ _ _ Hw Hs E). simpl.
  assert (Hhs : match op with DSetItems h' => h' | _ => hs end = hs').
  { destruct op; simpl in E; try (injection E as <- _ _; reflexivity).
    destruct (draw gap dc hs w h st) as [[? ?]|]; [injection E as <- _ _; reflexivity|discriminate]. }
  rewrite Hhs.
  rewrite (IH hs' st' (is_select op st st') Hw' Hs' Ho' (dstep_select _ _ _ _ _ _ _ _ E)).
  destruct op; try reflexivity.
  simpl in E. destruct (draw gap dc hs w h st) as [[cs0 st0]|] eqn:Ed; [|discriminate].
  injection E as <- <- <-. rewrite (draw_obs_model_ok _ _ _ _ _ _ _ _ _ Hw Hs Hsel Ed). reflexivity.
Qed.

(* ====================================================================================== *)
(* widgets/list.List                                                                       *)
(* ====================================================================================== *)

Definition l_wf (n : Z) (st : lstate) : Prop :=
  valid_index (l_index st) n = true /\ 0 <= l_offset st.

Definition lop_wf (op : lop) : Prop :=
  match op with LPageUp h => 0 <= h | _ => True end.

Lemma firstn_zlen_zero {A} (w : Z) (t : list A) :
  (zlen (firstn (Z.to_nat w) t) =? 0) = negb ((0 <? w) && negb (zlen t =? 0)).
Proof.
  unfold zlen. rewrite firstn_length. destruct t as [|a t]; simpl length.
  - rewrite Nat.min_0_r. simpl. destruct (0 <? w); reflexivity.
  - destruct (0 <? w) eqn:E; simpl; lia.
Qed.

Lemma l_rows_ok items w index off : forall hN tail i,
  0 <= i -> tail = (if zlen items <=? i then [] else skipn (Z.to_nat i) items) ->
  rows_ok items w index i (l_rows w (index - off) (i - off) hN tail) = true.
Proof.
  induction hN as [|hN IH]; intros tail i Hi Ht; [reflexivity|].
  cbn [l_rows]. destruct tail as [|t tail'].
  - cbn [rows_ok]. assert (Hz : zget items i = None).
    { destruct (zlen items <=? i) eqn:E.
      - destruct (zget items i) eqn:Eg; [apply zget_some_range in Eg; lia|reflexivity].
      - assert (Hl : length (skipn (Z.to_nat i) items) = 0%nat) by (rewrite <- Ht; reflexivity).
        rewrite skipn_length in Hl. unfold zlen in E. lia. }
    rewrite Hz. simpl. replace (i - off + 1) with (i + 1 - off) by lia.
    apply IH; [lia|]. destruct (zlen items <=? i + 1) eqn:E1; [reflexivity|].
    destruct (zlen items <=? i) eqn:E; [lia|]. exfalso. symmetry in Ht.
    assert (Hl : length (skipn (Z.to_nat i) items) = 0%nat) by (rewrite Ht; reflexivity).
    rewrite skipn_length in Hl. unfold zlen in E. lia.
  - cbn [rows_ok]. destruct (zlen items <=? i) eqn:E; [discriminate|]. symmetry in Ht.
    apply skipn_cons_nth in Ht as [Hn Hs].
    assert (Hz : zget items i = Some t). { unfold zget. destruct (i <? 0) eqn:E0; [lia|exact Hn]. }
    rewrite Hz. unfold println_w1.
    assert (Hl : zlist_eqb (firstn (Z.to_nat w) t) (firstn (Z.to_nat w) t) = true).
    { unfold zlist_eqb. generalize (firstn (Z.to_nat w) t). intros l. induction l as [|x l IHl]; simpl; [reflexivity|].
      rewrite Z.eqb_refl. exact IHl. }
    rewrite Hl, firstn_zlen_zero. simpl.
    replace (i - off =? index - off) with (i =? index) by lia.
    rewrite negb_involutive.
    assert (Hb : Bool.eqb ((i =? index) && ((0 <? w) && negb (zlen t =? 0))) ((i =? index) && (0 <? w) && negb (zlen t =? 0)) = true).
    { destruct (i =? index), (0 <? w), (zlen t =? 0); reflexivity. }
    rewrite Hb. simpl. replace (i - off + 1) with (i + 1 - off) by lia.
    apply IH; [lia|]. destruct (zlen items <=? i + 1) eqn:E1.
    + rewrite <- Hs. apply skipn_all2. unfold zlen in E1. lia.
    + rewrite <- Hs. f_equal. lia.
Qed.

Lemma l_rows_len w sel : forall hN r tail, length (l_rows w sel r hN tail) = hN.
Proof. induction hN as [|hN IH]; intros r tail; [reflexivity|]. simpl. destruct tail; simpl; now rewrite IH. Qed.

Lemma l_draw_ok items w h st :
  l_wf (zlen items) st ->
  exists rows st', l_draw items w h st = Ok (rows, st') /\ l_wf (zlen items) st' /\
                   l_index st' = l_index st /\
                   wl_draw_obs_ok items w h (l_index st') (l_offset st') rows = true.
Proof.
  intros [Hv Ho]. pose proof Hv as Hv0. unfold l_draw, wl_draw_obs_ok. unfold valid_index in Hv. pose proof (zlen_nonneg items) as Hn.
  destruct (h <=? 0) eqn:Eh.
  - exists [], st. split; [reflexivity|]. split; [split; [exact Hv0|exact Ho]|]. split; reflexivity.
  - set (off' := if l_offset st + h <=? l_index st then l_index st - h + 1
                 else if l_index st <? l_offset st then l_index st else l_offset st).
    assert (Hoff : 0 <= off' <= zlen items /\ off' <= l_index st < off' + h).
    { unfold off'. destruct (l_offset st + h <=? l_index st) eqn:E1; [lia|].
      destruct (l_index st <? l_offset st) eqn:E2; lia. }
    unfold zslice. destruct ((off' <? 0) || (zlen items <? off') || (zlen items <? zlen items)) eqn:E; [lia|].
    eexists _, _. split; [reflexivity|]. split; [split; [exact Hv0|cbn [l_offset]; lia]|]. cbn [l_index l_offset]. split; [reflexivity|].
    replace (off' <=? l_index st) with true by lia. replace (l_index st <? off' + h) with true by lia.
    replace (0 <=? off') with true by lia. simpl.
    unfold zlen at 1. rewrite l_rows_len. replace (Z.of_nat (Z.to_nat h) =? h) with true by lia. simpl.
    replace 0 with (off' - off') at 1 by lia. apply l_rows_ok; [lia|].
    destruct (zlen items <=? off') eqn:E3.
    + replace (Z.to_nat (zlen items - off')) with 0%nat by lia. reflexivity.
    + apply firstn_all2. rewrite skipn_length. unfold zlen. lia.
Qed.

Lemma lstep_ok items st op :
  l_wf (zlen items) st -> lop_wf op ->
  exists items' st' rows, lstep items st op = Ok (items', st', rows) /\ l_wf (zlen items') st' /\
    match op with
    | LDraw w h => wl_draw_obs_ok items w h (l_index st') (l_offset st') rows = true
    | _ => True
    end.
Proof.
  intros Hw Ho. pose proof Hw as [Hv Hoff]. unfold valid_index in Hv. pose proof (zlen_nonneg items) as Hn.
  destruct op as [| | | |hh|hh|its|w h]; simpl in Ho |- *;
    try (eexists _, _, _; split; [reflexivity|]; split; [|exact I]; split; [unfold valid_index; simpl; lia|simpl; lia]).
  - pose proof (zlen_nonneg its). eexists _, _, _; split; [reflexivity|]; split; [|exact I].
    split; [unfold valid_index, l_setitems; cbn [l_index l_set_index]; lia|simpl; lia].
  - destruct (l_draw_ok items w h st Hw) as (rows & st' & -> & H1 & _ & H3). exists items, st', rows. split; [reflexivity|]. split; assumption.
Qed.

Theorem wl_trace_model_ok : forall ops items st,
  l_wf (zlen items) st -> Forall lop_wf ops -> wl_trace_ok items (wl_run items st ops) = true.
Proof.
  induction ops as [|op ops IH]; intros items st Hw Ho; [reflexivity|].
  pose proof (Forall_inv Ho) as Ho1. pose proof (Forall_inv_tail Ho) as Ho'.
  destruct (lstep_ok items st op Hw Ho1) as (items' & st' & rows & E & Hw' & Hd).
  cbn [wl_run]. rewrite E. cbn [wl_trace_ok].
  assert (Hit : match op with LSetItems it' => it' | _ => items end = items').
  { destruct op; simpl in E; try (injection E as <- _ _; reflexivity).
    destruct (l_draw items w h st) as [[? ?]|]; [injection E as <- _ _; reflexivity|discriminate]. }
  rewrite Hit. rewrite (proj1 Hw'). simpl. rewrite (IH items' st' Hw' Ho').
  destruct op; try reflexivity. rewrite Hd. reflexivity.
Qed.

(* ====================================================================================== *)
(* widgets/pager.Model                                                                     *)
(* ====================================================================================== *)

Definition not_nl (c : pchar) : bool := negb (is_nl c).

Definition wf_chars (cs : list pchar) : Prop := Forall (fun c => 0 <= pc_width c) cs.

Lemma pchar_eqb_refl c : pchar_eqb c c = true.
Proof.
  unfold pchar_eqb, zlist_eqb. rewrite Z.eqb_refl, andb_true_r.
  induction (fst c) as [|x l IH]; simpl; [reflexivity|]. now rewrite Z.eqb_refl.
Qed.

Lemma list_eqb_refl {A} (e : A -> A -> bool) l : (forall x, e x x = true) -> list_eqb e l l = true.
Proof. intros He. induction l as [|x l IH]; simpl; [reflexivity|]. now rewrite He. Qed.

Lemma plines_eqb_refl l : plines_eqb l l = true.
Proof. apply list_eqb_refl. intros x. apply list_eqb_refl. apply pchar_eqb_refl. Qed.

(* pager_complete: the lines, concatenated, are the text without its newline characters
   (the unterminated last line included) *)
Lemma layout_go_concat w : forall cs cur col,
  concat (layout_go w cs cur col) = rev cur ++ filter not_nl cs.
Proof.
  induction cs as [|c t IH]; intros cur col.
  - simpl. destruct cur as [|x cur]; [reflexivity|]. simpl. now rewrite !app_nil_r.
  - cbn [layout_go filter]. unfold not_nl at 1. destruct (is_nl c) eqn:En; simpl negb; cbv iota.
    + simpl concat. now rewrite IH.
    + destruct (w <=? col + pc_width c).
      * simpl concat. rewrite IH. simpl. now rewrite <- app_assoc.
      * rewrite IH. simpl. now rewrite <- app_assoc.
Qed.

Theorem layout_complete w cs : concat (layout w cs) = filter not_nl cs.
Proof. unfold layout. now rewrite layout_go_concat. Qed.

Lemma layout_go_no_nl w : forall cs cur col,
  forallb not_nl cur = true ->
  forallb (fun l => forallb not_nl l) (layout_go w cs cur col) = true.
Proof.
  assert (Hrev : forall l, forallb not_nl l = true -> forallb not_nl (rev l) = true).
  { intros l H. rewrite forallb_forall in *. intros x Hx. apply H. now apply in_rev. }
  induction cs as [|c t IH]; intros cur col Hc.
  - simpl. destruct cur as [|x cur]; [reflexivity|]. cbn [forallb]. rewrite (Hrev _ Hc). reflexivity.
  - cbn [layout_go]. destruct (is_nl c) eqn:En.
    + cbn [forallb]. rewrite (Hrev _ Hc), IH; reflexivity.
    + assert (Hc' : forallb not_nl (c :: cur) = true) by (simpl; unfold not_nl at 1; rewrite En; exact Hc).
      destruct (w <=? col + pc_width c).
      * cbn [forallb]. rewrite (Hrev _ Hc'), IH; reflexivity.
      * apply IH. exact Hc'.
Qed.

Lemma wrap_ok_rev w x cur :
  0 <= pc_width x -> (line_width cur < w \/ cur = []) -> wrap_ok w (rev (x :: cur)) = true.
Proof.
  intros Hx Hc. unfold wrap_ok. rewrite rev_involutive.
  destruct Hc as [Hc| ->]; [lia|]. apply orb_true_r.
Qed.

Lemma layout_go_wrap w : forall cs cur col,
  wf_chars cs -> wf_chars cur -> col = line_width cur -> (line_width cur < w \/ cur = []) ->
  forallb (wrap_ok w) (layout_go w cs cur col) = true.
Proof.
  assert (Hline : forall cur, wf_chars cur -> (line_width cur < w \/ cur = []) -> wrap_ok w (rev cur) = true).
  { intros cur Hw Hc. destruct cur as [|x cur]; [reflexivity|].
    pose proof (Forall_inv Hw) as Hx. pose proof (Forall_inv_tail Hw) as Hw'. cbv beta in Hx.
    apply wrap_ok_rev; [exact Hx|]. destruct Hc as [Hc|Hc]; [|discriminate]. left.
    simpl in Hc. assert (0 <= line_width cur).
    { clear - Hw'. induction Hw' as [|y l Hy Hl IH]; simpl; lia. }
    lia. }
  induction cs as [|c t IH]; intros cur col Hcs Hcur Hcol Hfit.
  - simpl. destruct cur as [|x cur]; [reflexivity|]. cbn [forallb]. rewrite Hline; auto.
  - pose proof (Forall_inv Hcs) as Hc. pose proof (Forall_inv_tail Hcs) as Hcs'. cbv beta in Hc.
    cbn [layout_go]. destruct (is_nl c).
    + cbn [forallb]. rewrite Hline by auto. apply IH; [exact Hcs'|constructor|reflexivity|right; reflexivity].
    + destruct (w <=? col + pc_width c) eqn:Ew.
      * cbn [forallb]. rewrite wrap_ok_rev by auto. apply IH; [exact Hcs'|constructor|reflexivity|right; reflexivity].
      * apply IH; [exact Hcs'|constructor; assumption|simpl; unfold pc_width in *; lia|left; simpl; unfold pc_width in *; lia].
Qed.

(* pager_presents: every logical line of the text has its rows *)

Lemma zlist_eqb_eq : forall a b : list Z, zlist_eqb a b = true -> a = b.
Proof.
  unfold zlist_eqb. induction a as [|x a IH]; intros [|y b] E; simpl in E; try discriminate; [reflexivity|].
  apply andb_true_iff in E as [E1 E2]. apply Z.eqb_eq in E1. subst y. f_equal. apply IH; exact E2.
Qed.

Lemma pchar_eqb_eq (a b : pchar) : pchar_eqb a b = true -> a = b.
Proof.
  destruct a as [g w], b as [g' w']. unfold pchar_eqb. cbn [fst snd]. intros E.
  apply andb_true_iff in E as [E1 E2]. apply zlist_eqb_eq in E1. apply Z.eqb_eq in E2. now subst.
Qed.

Lemma strip_row_app : forall r rest, forallb not_nl r = true -> strip_row r (r ++ rest) = Some rest.
Proof.
  induction r as [|x r IH]; intros rest Hr; [reflexivity|].
  cbn [forallb] in Hr. apply andb_true_iff in Hr as [Hx Hr]. unfold not_nl in Hx.
  cbn [strip_row app]. rewrite Hx, pchar_eqb_refl. cbn [andb]. apply IH; exact Hr.
Qed.

Lemma strip_row_inv : forall r cs rest,
  strip_row r cs = Some rest -> cs = r ++ rest /\ forallb not_nl r = true.
Proof.
  induction r as [|x r IH]; intros cs rest E.
  - cbn [strip_row] in E. injection E as <-. split; reflexivity.
  - cbn [strip_row] in E. destruct cs as [|c t]; [discriminate|].
    destruct (negb (is_nl c) && pchar_eqb x c) eqn:Ec; [|discriminate].
    apply andb_true_iff in Ec as [Ec1 Ec2]. apply pchar_eqb_eq in Ec2. subst c.
    destruct (IH _ _ E) as [-> Hr]. split; [reflexivity|]. cbn [forallb]. unfold not_nl at 1. now rewrite Ec1.
Qed.

(* an empty row more in front never hurts (the row Layout adds for a newline that follows a row
   which was flushed at the width) *)
Lemma presents_nil_rows : forall rows, presents [] rows = true -> forallb row_empty rows = true.
Proof.
  intros [|r rows] E; [reflexivity|]. cbn [presents] in E. destruct r as [|x r]; [|discriminate E].
  cbn [strip_row] in E. exact E.
Qed.

Lemma presents_cons_empty : forall rows cs, presents cs rows = true -> presents cs ([] :: rows) = true.
Proof.
  induction rows as [|r rows IH]; intros cs E.
  - destruct cs; [reflexivity|discriminate E].
  - cbn [presents strip_row]. destruct cs as [|c t].
    + apply presents_nil_rows. exact E.
    + destruct (is_nl c) eqn:En; [|exact E].
      cbn [presents] in E. destruct r as [|x r].
      * cbn [strip_row] in E. rewrite En in E. apply IH. exact E.
      * cbn [strip_row] in E. rewrite En in E. discriminate E.
Qed.

Lemma layout_go_presents w : forall cs cur col,
  forallb not_nl cur = true -> presents (rev cur ++ cs) (layout_go w cs cur col) = true.
Proof.
  assert (Hrev : forall l, forallb not_nl l = true -> forallb not_nl (rev l) = true).
  { intros l Hl. rewrite forallb_forall in *. intros x Hx. apply Hl. now apply in_rev. }
  induction cs as [|c t IH]; intros cur col Hc.
  - cbn [layout_go]. rewrite app_nil_r. destruct cur as [|x cur]; [reflexivity|].
    cbn [presents]. rewrite <- (app_nil_r (rev (x :: cur))) at 2. rewrite strip_row_app by (apply Hrev; exact Hc).
    reflexivity.
  - cbn [layout_go]. destruct (is_nl c) eqn:En.
    + cbn [presents]. rewrite strip_row_app by (apply Hrev; exact Hc). rewrite En.
      apply (IH [] 0 eq_refl).
    + assert (Hc' : forallb not_nl (c :: cur) = true) by (cbn [forallb]; unfold not_nl at 1; rewrite En; exact Hc).
      destruct (w <=? col + pc_width c).
      * cbn [presents]. replace (rev cur ++ c :: t) with (rev (c :: cur) ++ t) by (cbn [rev]; now rewrite <- app_assoc).
        rewrite strip_row_app by (apply Hrev; exact Hc').
        pose proof (IH [] 0 eq_refl) as IH0. cbn [rev app] in IH0.
        destruct t as [|c' t']; [reflexivity|].
        destruct (is_nl c') eqn:En'; [|exact IH0].
        cbn [layout_go] in IH0 |- *. rewrite En' in IH0 |- *. cbn [rev] in IH0 |- *.
        cbn [presents strip_row] in IH0. rewrite En' in IH0.
        apply presents_cons_empty. exact IH0.
      * replace (rev cur ++ c :: t) with (rev (c :: cur) ++ t) by (cbn [rev]; now rewrite <- app_assoc).
        apply IH. exact Hc'.
Qed.

Theorem layout_presents w cs : presents cs (layout w cs) = true.
Proof. unfold layout. apply (layout_go_presents w cs [] 0 eq_refl). Qed.

(* what the decision procedure means: [presents] implies the declarative [presented] *)
Lemma logical_lines_app : forall r rest, forallb not_nl r = true ->
  logical_lines (r ++ rest) =
  match logical_lines rest with
  | [] => match r with [] => [] | _ => [r] end
  | l :: ls => (r ++ l) :: ls
  end.
Proof.
  induction r as [|x r IH]; intros rest Hr.
  - cbn [app]. destruct (logical_lines rest); reflexivity.
  - cbn [forallb] in Hr. apply andb_true_iff in Hr as [Hx Hr]. unfold not_nl in Hx.
    apply negb_true_iff in Hx. cbn [app logical_lines]. rewrite Hx, (IH rest Hr).
    destruct (logical_lines rest) as [|l ls]; [destruct r; reflexivity|reflexivity].
Qed.

Lemma logical_lines_nl c t : is_nl c = true -> logical_lines (c :: t) = [] :: logical_lines t.
Proof. intros E. cbn [logical_lines]. now rewrite E. Qed.

Lemma logical_lines_nonempty c t : logical_lines (c :: t) <> [].
Proof. cbn [logical_lines]. destruct (is_nl c); [discriminate|]. destruct (logical_lines t); discriminate. Qed.

Lemma forallb_row_empty rows : forallb row_empty rows = true -> Forall (fun r : list pchar => r = []) rows.
Proof.
  intros E. apply Forall_forall. intros r Hr. rewrite forallb_forall in E. specialize (E r Hr).
  destruct r; [reflexivity|discriminate E].
Qed.

Theorem presents_sound : forall rows cs, presents cs rows = true -> presented cs rows.
Proof.
  induction rows as [|r rows IH]; intros cs E.
  - destruct cs; [|discriminate E]. exists [], []. repeat split; constructor.
  - cbn [presents] in E. destruct (strip_row r cs) as [rest|] eqn:Es; [|discriminate E].
    destruct (strip_row_inv _ _ _ Es) as [-> Hr].
    destruct rest as [|c t].
    + apply forallb_row_empty in E. rewrite app_nil_r. destruct r as [|x r].
      * exists [], ([] :: rows). repeat split; [constructor|constructor; [reflexivity|exact E]].
      * exists [[x :: r]], rows. split; [reflexivity|]. split; [|exact E].
        pose proof (logical_lines_app (x :: r) [] Hr) as HL. rewrite app_nil_r in HL. rewrite HL. cbn [logical_lines].
        constructor; [|constructor]. split; [discriminate|]. cbn [concat]. now rewrite app_nil_r.
    + destruct (is_nl c) eqn:En.
      * destruct (IH _ E) as (groups & extra & -> & HF & Hx).
        exists ([r] :: groups), extra. split; [reflexivity|]. split; [|exact Hx].
        rewrite logical_lines_app by exact Hr. rewrite (logical_lines_nl c t En).
        constructor; [|exact HF]. split; [discriminate|]. cbn [concat]. now rewrite !app_nil_r.
      * destruct (IH _ E) as (groups & extra & -> & HF & Hx).
        unfold presented. rewrite logical_lines_app by exact Hr.
        destruct (logical_lines (c :: t)) as [|l ls] eqn:El; [exfalso; eapply logical_lines_nonempty; exact El|].
        inversion HF as [|l0 g ls0 gs [Hg1 Hg2] HF' E1 E2]. subst.
        exists ((r :: g) :: gs), extra. split; [reflexivity|]. split; [|exact Hx].
        constructor; [|exact HF']. split; [discriminate|]. reflexivity.
Qed.

Theorem layout_presented w cs : presented cs (layout w cs).
Proof. apply presents_sound, layout_presents. Qed.

Theorem layout_lines_ok w cs : wf_chars cs -> lines_ok w cs (layout w cs) = true.
Proof.
  intros Hw. unfold lines_ok. rewrite layout_presents, andb_true_r. rewrite layout_complete.
  fold not_nl. rewrite (list_eqb_refl pchar_eqb _ pchar_eqb_refl). simpl.
  unfold layout. rewrite layout_go_wrap; auto; [|constructor]. simpl.
  apply (layout_go_no_nl w cs [] 0 eq_refl).
Qed.

(* pager_offset_clamped *)
Lemma p_clamp_spec n h off : p_clamp n h off = Z.max 0 (Z.min off (n - h)).
Proof. unfold p_clamp. destruct (n - off <? h) eqn:E1; destruct (_ <? 0) eqn:E2; lia. Qed.

Lemma p_clamp_range n h off : 0 <= h -> 0 <= n ->
  0 <= p_clamp n h off <= Z.max 0 (n - h).
Proof. intros. rewrite p_clamp_spec. lia. Qed.

(* every line can be scrolled into the window *)
Lemma p_clamp_reach n h j : 1 <= h -> 0 <= j < n -> p_clamp n h j <= j < p_clamp n h j + h.
Proof. intros. rewrite p_clamp_spec. lia. Qed.

Definition pop_wf (op : pop) : Prop :=
  match op with PSetText cs => wf_chars cs | _ => True end.

Lemma pager_trace_model_ok' : forall ops cs lines off width fresh,
  wf_chars cs -> Forall pop_wf ops ->
  (fresh = true -> lines = layout width cs) ->
  pager_trace_ok cs fresh off width (p_run (mkP cs lines off width) ops) = true.
Proof.
  induction ops as [|op ops IH]; intros cs lines off width fresh Hw Ho Hf; [reflexivity|].
  pose proof (Forall_inv Ho) as Ho1. pose proof (Forall_inv_tail Ho) as Ho'.
  assert (Hfr : (if fresh then lines_ok width cs lines else true) = true).
  { destruct fresh; [|reflexivity]. rewrite (Hf eq_refl). apply layout_lines_ok; exact Hw. }
  cbn [p_run]. destruct op as [w h| | |k|cs'|]; cbn [pstep].
  - (* draw *)
    unfold p_draw. cbn [p_offset p_width p_lines p_chars]. destruct (w =? width) eqn:Ew.
    + cbn [pager_trace_ok p_offset p_width p_lines p_chars].
      assert (Hww : width = w) by lia. subst w.
      replace (fresh || negb (width =? width)) with fresh by (rewrite Ew; destruct fresh; reflexivity).
      rewrite plines_eqb_refl, p_clamp_spec, Hfr, Ew, Z.eqb_refl, orb_true_r.
      rewrite (IH cs lines _ width fresh Hw Ho' Hf). reflexivity.
    + cbn [pager_trace_ok p_offset p_width p_lines p_chars].
      replace (fresh || negb (w =? width)) with true by (rewrite Ew; destruct fresh; reflexivity).
      rewrite plines_eqb_refl, p_clamp_spec, layout_lines_ok, !Z.eqb_refl, orb_true_r by auto.
      rewrite (IH cs (layout w cs) _ w true Hw Ho' (fun _ => eq_refl)). reflexivity.
  - cbn [pager_trace_ok p_offset p_width p_lines p_chars].
    rewrite Hfr, (IH cs lines (off + 1) width fresh Hw Ho' Hf). reflexivity.
  - cbn [pager_trace_ok p_offset p_width p_lines p_chars].
    rewrite Hfr, (IH cs lines (off - 1) width fresh Hw Ho' Hf). reflexivity.
  - cbn [pager_trace_ok p_offset p_width p_lines p_chars].
    rewrite Hfr, (IH cs lines k width fresh Hw Ho' Hf). reflexivity.
  - cbn [pager_trace_ok p_offset p_width p_lines p_chars].
    rewrite (IH cs' lines off width false Ho1 Ho'); [reflexivity|discriminate].
  - cbn [pager_trace_ok p_offset p_width p_lines p_chars].
    rewrite layout_lines_ok by auto.
    rewrite (IH cs (layout width cs) off width true Hw Ho' (fun _ => eq_refl)). reflexivity.
Qed.

Theorem pager_trace_model_ok cs ops :
  wf_chars cs -> Forall pop_wf ops ->
  pager_case_ok (cs, p_run (p_init cs) ops) = true.
Proof. intros Hw Ho. unfold pager_case_ok, p_init. apply pager_trace_model_ok'; auto. discriminate. Qed.

(* ====================================================================================== *)
(* widgets/scrollbar.Model                                                                 *)
(* ====================================================================================== *)

Lemma contiguous_from_seq bt : forall n s,
  contiguous_from (bt + Z.of_nat s) (map (fun i => bt + Z.of_nat i) (seq s n)) = true.
Proof.
  induction n as [|n IH]; intros s; [reflexivity|]. simpl. rewrite Z.eqb_refl. simpl.
  replace (bt + Z.of_nat s + 1) with (bt + Z.of_nat (S s)) by lia. apply IH.
Qed.

Lemma filter_all {A} (f : A -> bool) l : (forall x, In x l -> f x = true) -> filter f l = l.
Proof.
  induction l as [|a l IH]; intros H; [reflexivity|]. simpl. rewrite (H a (or_introl eq_refl)).
  f_equal. apply IH. intros x Hx. apply H. right; exact Hx.
Qed.

Theorem sb_model_ok total view top w h :
  sb_case_ok ((total, view, top, w, h), sb_rows total view top w h) = true.
Proof.
  unfold sb_case_ok.
  destruct ((1 <=? view) && (view <? total) && (0 <=? top) && (top <=? total - view) && (1 <=? h) && (1 <=? w)) eqn:E; [|reflexivity].
  assert (Hv : 1 <= view < total) by lia. assert (Ht : 0 <= top <= total - view) by lia.
  assert (Hh : 1 <= h) by lia. assert (Hw : 1 <= w) by lia. clear E.
  unfold sb_rows, sb_bar. destruct (total <? 1) eqn:E1; [lia|]. destruct (total <=? view) eqn:E2; [lia|].
  rewrite !Z.quot_div_nonneg by nia.
  set (bt := top * h / total). set (q := view * h / total).
  assert (Hbt : bt * total <= top * h < (bt + 1) * total).
  { unfold bt. pose proof (Z.mul_div_le (top * h) total ltac:(lia)).
    pose proof (Z.mul_succ_div_gt (top * h) total ltac:(lia)). nia. }
  assert (Hq : q * total <= view * h).
  { unfold q. pose proof (Z.mul_div_le (view * h) total ltac:(lia)). nia. }
  assert (Hq0 : 0 <= q) by (unfold q; apply Z.div_pos; nia).
  assert (Hbt0 : 0 <= bt) by (unfold bt; apply Z.div_pos; nia).
  set (bh := if q <? 1 then 1 else q).
  assert (Hbh : 1 <= bh /\ bt + bh <= h).
  { unfold bh. destruct (q <? 1) eqn:Eq; split; try lia; nia. }
  rewrite filter_all.
  2:{ intros x Hx. apply in_map_iff in Hx as (i & <- & Hi). apply in_seq in Hi. lia. }
  destruct (Z.to_nat bh) as [|n] eqn:En; [lia|].
  cbn [seq map]. replace (bt + Z.of_nat 0) with bt by lia.
  pose proof (contiguous_from_seq bt (S n) 0) as Hc. cbn [seq map] in Hc.
  replace (bt + Z.of_nat 0) with bt in Hc by lia. rewrite Hc. simpl andb.
  assert (Hl : zlen (bt :: map (fun i => bt + Z.of_nat i) (seq 1 n)) = bh).
  { unfold zlen. simpl length. rewrite map_length, seq_length. lia. }
  rewrite Hl. lia.
Qed.

(* ---------------------------------------------------------------------------------- *)
(* Dynamic: no operation sequence panics (any items, any state)                        *)
(* ---------------------------------------------------------------------------------- *)

Definition bounded_draw (op : dop) : Prop :=
  match op with DDraw w h => w <> 65535 /\ h <> 65535 | _ => True end.

Theorem dyn_run_total gap dc : forall ops hs st,
  Forall bounded_draw ops ->
  length (dyn_run gap dc hs st ops) = length ops /\
  Forall (fun x : dop * dobs => fst (fst (snd x)) = 0) (dyn_run gap dc hs st ops).
Proof.
  induction ops as [|op ops IH]; intros hs st Ho; [split; [reflexivity|constructor]|].
  pose proof (Forall_inv Ho) as Ho1. pose proof (Forall_inv_tail Ho) as Ho'.
  cbn [dyn_run].
  assert (Hok : exists hs' st' cs, dstep gap dc hs st op = Ok (hs', st', cs)).
  { destruct op; simpl; eauto. simpl in Ho1. destruct Ho1 as [Hw1 Hh1].
    destruct (draw_total gap dc hs w h st Hw1 Hh1) as (cs & st' & ->). eauto. }
  destruct Hok as (hs' & st' & cs & ->). destruct (IH hs' st' Ho') as [I1 I2].
  split; [simpl; now rewrite I1|constructor; [reflexivity|exact I2]].
Qed.

(* a Draw that finds a child (or the gap below it) on row 0 leaves the scroll state anchored
   there: the precondition [ioff] of the visibility theorem *)
Theorem draw_establishes_ioff gap dc hs W H st cs st' :
  wf_items gap hs -> wf_state st -> draw gap dc hs W H st = Ok (cs, st') ->
  (exists c, In c cs /\ covers0 gap c = true) -> ioff gap hs st' = true.
Proof.
  intros Hw Hs E (c & Hin & Hc).
  destruct (draw_props _ _ _ _ _ _ _ _ Hw Hs E) as ((G1 & _ & _) & _ & _ & _ & _ & A & _).
  unfold anchor_ok in A. rewrite forallb_forall in A. specialize (A c Hin).
  rewrite Hc in A. simpl in A. unfold heights_ok in G1. rewrite forallb_forall in G1. specialize (G1 c Hin).
  unfold ioff. replace (d_top st') with (c_idx c) by lia.
  destruct (builder hs (c_idx c)) as [h|]; simpl in G1; [|discriminate].
  unfold covers0 in Hc. lia.
Qed.

(* ... and every Draw either does so or has drawn everything above row 0 (scroll past the end) *)
Theorem draw_scroll_kept_or_past_end gap dc hs W H st cs st' :
  wf_items gap hs -> wf_state st -> draw gap dc hs W H st = Ok (cs, st') ->
  scroll_kept gap cs || past_end gap cs = true.
Proof.
  intros Hw Hs E.
  destruct (draw_props _ _ _ _ _ _ _ _ Hw Hs E) as ((_ & _ & G3) & _ & _ & _ & _ & _ & R).
  apply scroll_kept_or_past_end; assumption.
Qed.
