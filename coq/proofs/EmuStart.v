(* C12 - the start state: the emulator after New() and the first resize (StartWithSize), then
   Vaxis' start-up (enterAltScreen: mode 1049 set, cursor hidden), for every size from 1x1, is
   well formed, in Vaxis' modes, has the default pen, a hidden cursor, and is on the alternate
   screen over a primary screen in the default style - the hypotheses of the history theorems. *)
From Vx Require Import base.Prelude base.ListX model.Colour model.RenderTypes model.Render model.RefTerm
  model.RenderSpec model.RenderCheck model.Gate model.EmuSpec model.EmuBridge model.EmuWire model.RenderBytes
  model.EmuBytes.
From Vx Require Import proofs.RenderHistory proofs.EmuRefine proofs.EmuResize proofs.EmuHistory proofs.EmuBytesHistory.
Require Import ZifyBool Lia.
Local Open Scope Z_scope.

Definition start0 (cols rows : Z) : T.term :=
  T.mkTerm (T.blank_grid cols rows) (T.blank_grid cols rows) false 0 0 S.style0 0 false 0 (rows - 1) 0 (cols - 1)
           T.default_tabs T.modes0 T.chars0 T.saved0 T.saved0 0.

Lemma term_start_eq cols rows : 1 <= cols -> 1 <= rows -> T.term_start cols rows = T.TOk (start0 cols rows).
Proof.
  intros Hc Hr. unfold T.term_start, T.resize, T.make_grid. cbv zeta.
  destruct (rows <? 0) eqn:E1; [lia|]. destruct ((0 <? rows) && (cols <? 0)) eqn:E2; [lia|].
  reflexivity.
Qed.

Lemma start0_wf cols rows : 1 <= cols -> 1 <= rows -> TP.WFs0 0 cols rows (start0 cols rows).
Proof.
  intros Hc Hr. pose proof (TP.blank_grid_ok cols rows ltac:(lia) ltac:(lia)) as Hg.
  assert (Ht : Forall (fun x => 0 <= x) T.default_tabs).
  { unfold T.default_tabs. apply Forall_forall. intros x Hx. apply in_map_iff in Hx as [k [<- _]]. lia. }
  constructor; try exact Ht; try exact Hg; cbn -[T.default_tabs]; auto; try lia; split; cbn; lia.
Qed.

Lemma blank_plain cols rows : forallb (forallb cell_plainb) (T.blank_grid cols rows) = true.
Proof.
  apply forallb_forall. intros row Hrow. apply zrepeat_In in Hrow. subst row.
  apply forallb_forall. intros c Hc. apply zrepeat_In in Hc. subst c. reflexivity.
Qed.

Theorem emu_start_ready cols rows : 1 <= cols -> 1 <= rows ->
  let t := emu_start cols rows in
  TP.WFs0 0 cols rows t /\ vaxis_modes t = true /\ start_ok t = true /\ alt_plainb t = true.
Proof.
  intros Hc Hr. cbv zeta. unfold emu_start, emu_start_pre.
  rewrite (term_start_eq cols rows Hc Hr). cbn [T.tbind].
  change (emu_bytes (fun _ => []) (start0 cols rows) []) with (T.TOk (start0 cols rows)).
  pose proof (start0_wf cols rows Hc Hr) as W0.
  set (t0 := start0 cols rows) in *.
  cbv beta iota.
  assert (Eu : T.update t0 (T.TCsi [63] [[1049]] 104) = T.tbind (T.decset1 t0 1049) (fun t' => T.TOk t')) by reflexivity.
  rewrite Eu. clear Eu.
  unfold T.decset1. cbv zeta.
  change (1049 =? 6) with false. change (1049 =? 7) with false. change (1049 =? 25) with false.
  change (1049 =? 1049) with true. cbv iota.
  set (t1 := T.set_onalt (T.decsc t0) true).
  assert (W1 : TP.WFs0 0 cols rows t1) by (apply TP.WFs_set_onalt, TP.decsc_ok; exact W0).
  change (T.m_smcup (T.t_md t1)) with false. cbv iota.
  destruct (TP.ed_ok 0 cols rows t1 2 W1) as [t2 [E2 W2]]. rewrite E2. cbn [T.tbind].
  (* what ed 2 did *)
  assert (F : exists g', t2 = T.set_active (T.set_last t1 false) g').
  { unfold T.ed in E2. cbv zeta in E2.
    change (2 =? 0) with false in E2. change (2 =? 1) with false in E2. change (2 =? 2) with true in E2.
    cbv iota in E2. apply tbind_ok in E2 as [g' [_ E2]]. inversion E2. eauto. }
  destruct F as [g' ->].
  set (t2 := T.set_active (T.set_last t1 false) g') in *.
  set (t3 := T.set_md t2 (T.md_smcup (T.t_md t2) true)).
  assert (W3 : TP.WFs0 0 cols rows t3) by (apply TP.WFs_set_md; exact W2).
  change (T.update t3 (T.TCsi [63] [[25]] 108)) with (T.TOk (T.set_md t3 (T.md_tcem (T.t_md t3) false))).
  set (t4 := T.set_md t3 (T.md_tcem (T.t_md t3) false)).
  assert (W4 : TP.WFs0 0 cols rows t4) by (apply TP.WFs_set_md; exact W3).
  split; [exact W4|].
  assert (Hh : T.height t4 = rows) by (apply (TP.WFs_height 0 cols rows t4 W4)).
  split; [|split].
  - unfold vaxis_modes. rewrite Hh. unfold t4, t3, t2, t1, t0, start0, T.set_active. cbn. lia.
  - unfold start_ok. rewrite (TP.WFs_width 0 cols rows t4 W4).
    unfold t4, t3, t2, t1, t0, start0, T.set_active. cbn. reflexivity.
  - unfold alt_plainb, t4, t3, t2, t1, t0, start0, T.set_active. cbn. apply blank_plain.
Qed.

(* every history, from the start state, at every size: nothing is assumed but content *)
Theorem app_in_term_from_start tw measure rows cols fs :
  1 <= rows -> 1 <= cols -> size_ok rows cols ->
  emu_history_resize (fun _ => True) tw measure (vinit term_caps rows cols) rows cols (emu_start cols rows) fs.
Proof.
  intros Hr Hc Hsz. destruct (emu_start_ready cols rows Hc Hr) as (W & M & S & A).
  exact (app_in_term_resize tw measure rows cols _ 0 fs Hr Hc Hsz W M S A).
Qed.

(* ... and from bytes *)
Theorem app_in_term_bytes_from_start tw measure seg rows cols fs :
  1 <= rows -> 1 <= cols -> size_ok rows cols ->
  emu_history_bytes (fun _ => True) tw measure seg (vinit term_caps rows cols) rows cols (emu_start cols rows) fs.
Proof.
  intros Hr Hc Hsz. destruct (emu_start_ready cols rows Hc Hr) as (W & M & S & A).
  exact (app_in_term_bytes tw measure seg rows cols _ 0 fs Hr Hc Hsz W M S A).
Qed.
