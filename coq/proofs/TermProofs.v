(* C05 - proofs about the emulator model (model/Term.v): every control function preserves
   the well-formedness invariant and never panics; histories by induction. *)
From Vx Require Import base.Prelude base.ListX model.Colour model.Sgr model.Term model.TermCheck proofs.SgrProofs.
Require Import ZifyBool Lia.

Local Open Scope Z_scope.

(* ------------------------------------------------------------------ lists *)

Lemma zlen_firstn {A} (l : list A) n : 0 <= n <= zlen l -> zlen (firstn (Z.to_nat n) l) = n.
Proof. intros H; unfold zlen in *; rewrite firstn_length; lia. Qed.

Lemma zlen_skipn {A} (l : list A) n : 0 <= n -> zlen (skipn (Z.to_nat n) l) = Z.max 0 (zlen l - n).
Proof. intros H; unfold zlen in *; rewrite skipn_length; lia. Qed.

Lemma zlen_map {A B} (f : A -> B) l : zlen (map f l) = zlen l.
Proof. unfold zlen; now rewrite map_length. Qed.

Lemma map_range_length {A} (f : A -> A) lo hi (l : list A) :
  0 <= lo -> lo <= hi -> hi <= zlen l -> zlen (map_range f lo hi l) = zlen l.
Proof.
  intros H1 H2 H3; unfold map_range, zlen in *.
  rewrite !app_length, map_length, !firstn_length, !skipn_length; lia.
Qed.

Lemma upd_range_ok {A} (f : A -> A) lo hi (l : list A) :
  (lo < hi -> 0 <= lo /\ hi <= zlen l) ->
  exists l', upd_range f lo hi l = Some l' /\ zlen l' = zlen l.
Proof.
  intros H; unfold upd_range. destruct (lo <? hi) eqn:E; [|eauto].
  destruct H as [H1 H2]; [lia|].
  destruct ((lo <? 0) || (zlen l <? hi)) eqn:E2; [lia|].
  eexists; split; [reflexivity|]. apply map_range_length; lia.
Qed.

Lemma In_firstn' {A} n (l : list A) x : In x (firstn n l) -> In x l.
Proof.
  revert l; induction n; intros [|h t]; simpl; intros H; auto; destruct H; auto.
Qed.

Lemma Forall_firstn' {A} (P : A -> Prop) n (l : list A) : Forall P l -> Forall P (firstn n l).
Proof.
  intros H; apply Forall_forall; intros x Hx; rewrite Forall_forall in H; apply H.
  eapply In_firstn'; eauto.
Qed.

Lemma In_skipn' {A} n (l : list A) x : In x (skipn n l) -> In x l.
Proof.
  revert l; induction n; intros [|h t]; simpl; intros H; auto.
Qed.

Lemma Forall_skipn' {A} (P : A -> Prop) n (l : list A) : Forall P l -> Forall P (skipn n l).
Proof.
  intros H; apply Forall_forall; intros x Hx; rewrite Forall_forall in H; apply H.
  eapply In_skipn'; eauto.
Qed.

Lemma map_range_Forall {A} (P : A -> Prop) (f : A -> A) lo hi (l : list A) :
  Forall P l -> (forall x, P x -> P (f x)) -> Forall P (map_range f lo hi l).
Proof.
  intros HP Hf; unfold map_range. repeat (apply Forall_app; split).
  - now apply Forall_firstn'.
  - apply Forall_forall; intros y Hy. apply in_map_iff in Hy; destruct Hy as [x [<- Hx]].
    apply Hf. rewrite Forall_forall in HP; apply HP.
    eapply In_skipn'; eapply In_firstn'; eauto.
  - now apply Forall_skipn'.
Qed.

Lemma upd_range_Forall {A} (P : A -> Prop) (f : A -> A) lo hi (l l' : list A) :
  upd_range f lo hi l = Some l' -> Forall P l -> (forall x, P x -> P (f x)) -> Forall P l'.
Proof.
  unfold upd_range; intros H HP Hf. destruct (lo <? hi); [|now inversion H; subst].
  destruct ((lo <? 0) || (zlen l <? hi)); [discriminate|]. inversion H; subst.
  now apply map_range_Forall.
Qed.

Lemma copy_row_Forall {A} (P : A -> Prop) (dst src : list A) :
  Forall P dst -> Forall P src -> Forall P (copy_row dst src).
Proof.
  intros Hd Hs; unfold copy_row; apply Forall_app; split;
    [now apply Forall_firstn' | now apply Forall_skipn'].
Qed.

Lemma copy_row_length {A} (dst src : list A) : zlen (copy_row dst src) = zlen dst.
Proof.
  unfold copy_row, zlen; rewrite app_length, firstn_length, skipn_length; lia.
Qed.

Lemma mapi_opt_ok {A} (P Q : A -> Prop) (f : Z -> A -> option A) :
  forall l i,
  Forall P l ->
  (forall j x, i <= j < i + zlen l -> P x -> exists y, f j x = Some y /\ Q y) ->
  exists l', mapi_opt f i l = Some l' /\ zlen l' = zlen l /\ Forall Q l'.
Proof.
  induction l as [|x t IH]; intros i HP Hf.
  - exists []; simpl; auto.
  - inversion HP as [|? ? Hx Ht]; subst.
    destruct (Hf i x) as [y [Hy Qy]]; [rewrite zlen_cons; pose proof (zlen_nonneg t); lia | assumption |].
    destruct (IH (i + 1) Ht) as [t' [Ht' [Hl HQ]]].
    { intros j z Hj Pz; apply Hf; [rewrite zlen_cons; lia | assumption]. }
    exists (y :: t'); cbn [mapi_opt]; rewrite Hy, Ht'; repeat split; auto.
    rewrite !zlen_cons; lia.
Qed.

Lemma upd_nat_Forall {A} (P : A -> Prop) l n x : Forall P l -> P x -> Forall P (upd_nat l n x).
Proof.
  revert n; induction l as [|h t IH]; intros [|n] Hl Hx; simpl; auto;
    inversion Hl; subst; constructor; auto.
Qed.

Lemma zupd_ok {A} (P : A -> Prop) (l : list A) i x :
  0 <= i < zlen l -> Forall P l -> P x ->
  exists l', zupd l i x = Some l' /\ zlen l' = zlen l /\ Forall P l'.
Proof.
  intros Hi HP Hx; unfold zupd.
  destruct ((i <? 0) || (zlen l <=? i)) eqn:E; [lia|].
  eexists; split; [reflexivity|]; split.
  - unfold zlen; now rewrite upd_nat_length.
  - now apply upd_nat_Forall.
Qed.

Lemma zget_ok {A} (P : A -> Prop) (l : list A) i :
  0 <= i < zlen l -> Forall P l -> exists x, zget l i = Some x /\ P x.
Proof.
  intros Hi HP; destruct (zget_in_range l i Hi) as [x Hx]; exists x; split; auto.
  rewrite Forall_forall in HP; apply HP; eapply zget_In; eauto.
Qed.

Lemma Forall_repeat {A} (P : A -> Prop) x n : P x -> Forall P (repeat x n).
Proof. intros H; induction n; simpl; constructor; auto. Qed.

(* ------------------------------------------------------------------ grids *)

Definition cell_ok (c : tcell) : Prop := 0 <= c_w c.
Definition row_ok (w : Z) (l : trow) : Prop := zlen l = w /\ Forall cell_ok l.
Definition grid_ok (w h : Z) (g : grid) : Prop := zlen g = h /\ Forall (row_ok w) g.

Lemma blank_grid_ok w h : 0 <= w -> 0 <= h -> grid_ok w h (blank_grid w h).
Proof.
  intros Hw Hh; unfold blank_grid, grid_ok; split.
  - now apply zlen_repeat.
  - unfold zrepeat at 1; apply Forall_repeat; unfold row_ok; split; [now apply zlen_repeat|].
    unfold zrepeat; apply Forall_repeat; unfold cell_ok; simpl; lia.
Qed.

(* ------------------------------------------------------------------ the invariant *)

Definition saved_ok (s : saved) : Prop := 0 <= s_row s /\ 0 <= s_col s.

(* e: the number of raised events not yet consumed *)
Record WFs0 (e w h : Z) (t : term) : Prop := mkWFs {
  wf_w : 1 <= w;
  wf_h : 1 <= h;
  wf_prim : grid_ok w h (t_prim t);
  wf_alt : grid_ok w h (t_alt t);
  wf_row : 0 <= t_row t < h;
  wf_col : 0 <= t_col t < w;
  wf_top : 0 <= t_top t;
  wf_tb : t_top t <= t_bot t;
  wf_bot : t_bot t < h;
  wf_left : t_left t = 0;
  wf_right : t_right t = w - 1;
  wf_tabs : Forall (fun x => 0 <= x) (t_tabs t);
  wf_svp : saved_ok (t_svp t);
  wf_sva : saved_ok (t_sva t);
  wf_ev : t_ev t = e /\ 0 <= e <= 2
}.

Definition WF (t : term) : Prop := exists e w h, WFs0 e w h t.

(* everything up to the event-raising functions keeps the number of pending events *)
Section FixedEvents.
Variable e : Z.
Notation WFs := (WFs0 e).

Lemma WFs_active w h t : WFs w h t -> grid_ok w h (active t).
Proof. intros H; unfold active; destruct (t_onalt t); apply H. Qed.

Lemma WFs_height w h t : WFs w h t -> height t = h.
Proof. intros H; unfold height; apply (WFs_active _ _ _ H). Qed.

Lemma WFs_width w h t : WFs w h t -> width t = w.
Proof.
  intros H; unfold width. destruct (WFs_active _ _ _ H) as [Hl HF].
  destruct (active t) as [|r g]; [rewrite zlen_nil in Hl; destruct H; lia|].
  inversion HF as [|? ? Hr]; subst; apply Hr.
Qed.

(* setters that do not touch what the invariant speaks about *)
Lemma WFs_set_last w h t b : WFs w h t -> WFs w h (set_last t b).
Proof. intros []; constructor; assumption. Qed.
Lemma WFs_set_pen w h t p : WFs w h t -> WFs w h (set_pen t p).
Proof. intros []; constructor; assumption. Qed.
Lemma WFs_set_shape w h t p : WFs w h t -> WFs w h (set_shape t p).
Proof. intros []; constructor; assumption. Qed.
Lemma WFs_set_md w h t p : WFs w h t -> WFs w h (set_md t p).
Proof. intros []; constructor; assumption. Qed.
Lemma WFs_set_cs w h t p : WFs w h t -> WFs w h (set_cs t p).
Proof. intros []; constructor; assumption. Qed.
Lemma WFs_set_onalt w h t b : WFs w h t -> WFs w h (set_onalt t b).
Proof. intros []; constructor; assumption. Qed.

Lemma WFs_set_cursor w h t r c :
  WFs w h t -> 0 <= r < h -> 0 <= c < w -> WFs w h (set_cursor t r c).
Proof. intros [] Hr Hc; constructor; assumption. Qed.
Lemma WFs_set_row w h t r : WFs w h t -> 0 <= r < h -> WFs w h (set_row t r).
Proof. intros H Hr; apply WFs_set_cursor; auto; apply H. Qed.
Lemma WFs_set_col w h t c : WFs w h t -> 0 <= c < w -> WFs w h (set_col t c).
Proof. intros H Hc; apply WFs_set_cursor; auto; apply H. Qed.

Lemma WFs_set_tabs w h t x : WFs w h t -> Forall (fun x => 0 <= x) x -> WFs w h (set_tabs t x).
Proof. intros [] Hx; constructor; assumption. Qed.
Lemma WFs_set_svp w h t s : WFs w h t -> saved_ok s -> WFs w h (set_svp t s).
Proof. intros [] Hx; constructor; assumption. Qed.
Lemma WFs_set_sva w h t s : WFs w h t -> saved_ok s -> WFs w h (set_sva t s).
Proof. intros [] Hx; constructor; assumption. Qed.
Lemma WFs_set_margins w h t tp bt :
  WFs w h t -> 0 <= tp -> tp <= bt -> bt < h -> WFs w h (set_margins t tp bt (t_left t) (t_right t)).
Proof. intros [] H1 H2 H3; constructor; assumption. Qed.

Lemma WFs_set_active w h t g : WFs w h t -> grid_ok w h g -> WFs w h (set_active t g).
Proof.
  intros [] Hg; unfold set_active; destruct (t_onalt t); constructor; assumption.
Qed.

Lemma t_left_set_active t g : t_left (set_active t g) = t_left t.
Proof. unfold set_active; destruct (t_onalt t); reflexivity. Qed.

Lemma active_set_last t b : active (set_last t b) = active t.
Proof. reflexivity. Qed.

(* ------------------------------------------------------------------ rows of the active screen *)

Definition okres (w h : Z) (r : tres term) : Prop := exists t', r = TOk t' /\ WFs w h t'.

Lemma okres_ok w h t : WFs w h t -> okres w h (TOk t).
Proof. intros H; exists t; auto. Qed.

(* a function applied to one valid row, keeping its length, keeps the invariant; the
   rest of the state is untouched *)
Definition same_but_grids (t t' : term) : Prop :=
  t_onalt t' = t_onalt t /\ t_row t' = t_row t /\ t_col t' = t_col t /\ t_pen t' = t_pen t /\
  t_shape t' = t_shape t /\ t_last t' = t_last t /\ t_top t' = t_top t /\ t_bot t' = t_bot t /\
  t_left t' = t_left t /\ t_right t' = t_right t /\ t_tabs t' = t_tabs t /\ t_md t' = t_md t /\
  t_cs t' = t_cs t /\ t_svp t' = t_svp t /\ t_sva t' = t_sva t /\ t_ev t' = t_ev t.

Lemma same_but_grids_refl t : same_but_grids t t.
Proof. repeat split. Qed.

Lemma same_but_grids_set_active t g : same_but_grids t (set_active t g).
Proof. unfold set_active; destruct (t_onalt t) eqn:E; repeat split; simpl; auto. Qed.

Lemma on_row_ok w h t r f :
  WFs w h t -> 0 <= r < h ->
  (forall line, row_ok w line -> exists line', f line = Some line' /\ row_ok w line') ->
  exists t', on_row t r f = TOk t' /\ WFs w h t' /\ same_but_grids t t'.
Proof.
  intros H Hr Hf; unfold on_row.
  destruct (WFs_active _ _ _ H) as [Hl HF].
  destruct (zget_ok (row_ok w) (active t) r) as [line [Hg Hline]]; [lia | assumption |].
  rewrite Hg; cbn [of_opt tbind].
  destruct (Hf line Hline) as [line' [Hf' Hlen]]; rewrite Hf'; cbn [of_opt tbind].
  destruct (zupd_ok (row_ok w) (active t) r line') as [g' [Hu [Hgl HgF]]]; [lia | assumption | exact Hlen |].
  rewrite Hu; cbn [of_opt tbind].
  eexists; split; [reflexivity|]; split.
  - apply WFs_set_active; [assumption | split; [lia | assumption]].
  - apply same_but_grids_set_active.
Qed.

Lemma range_in_row_ok w h t r f lo hi :
  WFs w h t -> 0 <= r < h -> (lo < hi -> 0 <= lo /\ hi <= w) ->
  (forall c, cell_ok c -> cell_ok (f c)) ->
  exists t', range_in_row t r f lo hi = TOk t' /\ WFs w h t' /\ same_but_grids t t'.
Proof.
  intros H Hr Hb Hf; unfold range_in_row. destruct (lo <? hi) eqn:E.
  - apply on_row_ok; auto. intros line [Hl HF].
    destruct (upd_range_ok f lo hi line) as [l' [Hu Hl']]; [rewrite Hl; auto|].
    exists l'; split; auto; split; [lia|]. eapply upd_range_Forall; eauto.
  - exists t; split; [reflexivity|]; split; [assumption | apply same_but_grids_refl].
Qed.

Lemma erase_in_row_ok w h t r lo hi :
  WFs w h t -> 0 <= r < h -> (lo < hi -> 0 <= lo /\ hi <= w) ->
  exists t', erase_in_row t r lo hi = TOk t' /\ WFs w h t' /\ same_but_grids t t'.
Proof. intros; unfold erase_in_row; apply range_in_row_ok; auto. intros c _; unfold cell_ok; simpl; lia. Qed.

(* a whole-grid loop whose per-row function keeps row lengths *)
Lemma grid_loop_ok w h t (f : Z -> trow -> option trow) :
  WFs w h t ->
  (forall r line, 0 <= r < h -> row_ok w line -> exists line', f r line = Some line' /\ row_ok w line') ->
  exists g', @mapi_opt trow f 0 (active t) = Some g' /\ grid_ok w h g'.
Proof.
  intros H Hf. destruct (WFs_active _ _ _ H) as [Hl HF].
  destruct (mapi_opt_ok (row_ok w) (row_ok w) f (active t) 0 HF) as [g' [Hm [Hlen HQ]]].
  - intros j x Hj Hx; apply Hf; [lia | exact Hx].
  - exists g'; split; auto; split; [lia | assumption].
Qed.

Lemma grid_loop_gen w h (g : grid) (f : Z -> trow -> option trow) :
  grid_ok w h g ->
  (forall r line, 0 <= r < h -> row_ok w line -> exists line', f r line = Some line' /\ row_ok w line') ->
  exists g', @mapi_opt trow f 0 g = Some g' /\ grid_ok w h g'.
Proof.
  intros [Hl HF] Hf.
  destruct (mapi_opt_ok (row_ok w) (row_ok w) f g 0 HF) as [g' [Hm [Hlen HQ]]].
  - intros j x Hj Hx; apply Hf; [lia | exact Hx].
  - exists g'; split; auto; split; [lia | assumption].
Qed.

Lemma line_loop_ok (f : Z -> tcell -> option tcell) (l : trow) w :
  row_ok w l ->
  (forall i x, 0 <= i < w -> cell_ok x -> exists y, f i x = Some y /\ cell_ok y) ->
  exists l', mapi_opt f 0 l = Some l' /\ row_ok w l'.
Proof.
  intros [Hl HF] Hf.
  destruct (mapi_opt_ok cell_ok cell_ok f l 0 HF) as [l' [Hm [Hlen HQ]]].
  - intros j x Hj Hx; apply Hf; [lia | exact Hx].
  - exists l'; split; auto; split; [lia | assumption].
Qed.

Lemma erase_cells_ok bgc lo hi (line : trow) w :
  row_ok w line -> (lo < hi -> 0 <= lo /\ hi <= w) ->
  exists l', erase_cells bgc lo hi line = Some l' /\ row_ok w l'.
Proof.
  intros [Hl HF] Hb; unfold erase_cells.
  destruct (upd_range_ok (erase_cell bgc) lo hi line) as [l' [Hu Hl']]; [rewrite Hl; auto|].
  exists l'; split; auto; split; [lia|].
  eapply upd_range_Forall; eauto. intros c _; unfold cell_ok; simpl; lia.
Qed.

Lemma copy_row_ok w (line src : trow) : row_ok w line -> row_ok w src -> row_ok w (copy_row line src).
Proof.
  intros [Hl HF] [Hs HFs]; split; [rewrite copy_row_length; assumption | now apply copy_row_Forall].
Qed.

(* ------------------------------------------------------------------ tactics *)

Ltac case_if :=
  match goal with
  | |- context[if ?b then _ else _] => destruct b eqn:?
  end.

Ltac use_ok H :=
  let t' := fresh "t" in let E := fresh "E" in let W := fresh "W" in
  destruct H as [t' [E W]]; rewrite E; cbn [tbind].

Ltac rw_loop Hm :=
  match goal with
  | |- context[of_opt ?m] =>
      match type of Hm with
      | _ = Some ?g => replace m with (Some g) by (symmetry; exact Hm)
      end
  end; cbn [of_opt tbind].

Lemma okres_bind w h (m : tres term) (k : term -> tres term) :
  okres w h m -> (forall t, WFs w h t -> okres w h (k t)) -> okres w h (tbind m k).
Proof. intros [t [E W]] Hk; rewrite E; cbn [tbind]; auto. Qed.

(* ------------------------------------------------------------------ scrolling *)

Lemma scroll_up_ok w h t n : WFs w h t -> 0 <= n -> okres w h (scroll_up t n).
Proof.
  intros H Hn; unfold scroll_up; cbv zeta.
  match goal with |- context[mapi_opt ?f 0 (active t)] =>
    destruct (grid_loop_ok w h t f H) as [g' [Hm Hg]] end.
  - intros r line Hr Hl. destruct H.
    destruct ((r >? t_bot t) || (r <? t_top t)) eqn:E1; [eauto|].
    destruct (r + n >? t_bot t) eqn:E2.
    + apply erase_cells_ok; auto; lia.
    + destruct (zget_ok (row_ok w) (active t) (r + n)) as [src [Hs Hsok]].
      { unfold active; destruct (t_onalt t); [destruct wf_alt0 | destruct wf_prim0]; lia. }
      { unfold active; destruct (t_onalt t); [apply wf_alt0 | apply wf_prim0]. }
      rewrite Hs; eexists; split; [reflexivity|]; now apply copy_row_ok.
  - rewrite Hm; cbn [of_opt tbind]. apply okres_ok, WFs_set_active; assumption.
Qed.

Lemma scroll_down_ok w h t n : WFs w h t -> 0 <= n -> okres w h (scroll_down t n).
Proof.
  intros H Hn; unfold scroll_down; cbv zeta.
  assert (Hlen : zlen (active t) = h) by apply (WFs_active _ _ _ H).
  destruct ((t_top t <=? t_bot t) && ((t_top t <? 0) || (zlen (active t) <=? t_bot t))) eqn:E0.
  { destruct H; lia. }
  match goal with |- context[mapi_opt ?f 0 (active t)] =>
    destruct (grid_loop_ok w h t f H) as [g' [Hm Hg]] end.
  - intros r line Hr Hl. destruct H.
    destruct ((r >? t_bot t) || (r <? t_top t)) eqn:E1; [eauto|].
    destruct (r - n <? t_top t) eqn:E2.
    + apply erase_cells_ok; auto; lia.
    + destruct (zget_ok (row_ok w) (active t) (r - n)) as [src [Hs Hsok]]; [lia | |].
      { unfold active; destruct (t_onalt t); [apply wf_alt0 | apply wf_prim0]. }
      rewrite Hs; eexists; split; [reflexivity|]; now apply copy_row_ok.
  - rewrite Hm; cbn [of_opt tbind]. apply okres_ok, WFs_set_active; assumption.
Qed.

(* ------------------------------------------------------------------ esc.go, c0.go *)

Lemma ind_ok w h t : WFs w h t -> okres w h (ind t).
Proof.
  intros H; unfold ind.
  pose proof (WFs_set_last w h t false H) as H1.
  case_if; [apply scroll_up_ok; auto; lia|].
  case_if; [apply okres_ok; assumption|].
  apply okres_ok, WFs_set_row; auto.
  rewrite (WFs_height _ _ _ H1) in *. destruct H1; simpl in *; lia.
Qed.

Lemma nel_ok w h t : WFs w h t -> okres w h (nel t).
Proof.
  intros H; unfold nel. apply okres_bind; [now apply ind_ok|].
  intros t1 W; apply okres_ok, WFs_set_col; auto. destruct W; lia.
Qed.

Lemma hts_ok w h t : WFs w h t -> WFs w h (hts t).
Proof.
  intros H; unfold hts; apply WFs_set_tabs; auto.
  apply Forall_app; split; [apply H | constructor; [apply H | constructor]].
Qed.

Lemma ri_ok w h t : WFs w h t -> okres w h (ri t).
Proof.
  intros H; unfold ri.
  pose proof (WFs_set_last w h t false H) as H1.
  case_if; [apply okres_ok; assumption|].
  case_if; [apply scroll_down_ok; auto; lia|].
  case_if; [|apply okres_ok; assumption].
  apply okres_ok, WFs_set_row; auto. destruct H1; simpl in *; lia.
Qed.

Lemma save_of_ok w h t : WFs w h t -> saved_ok (save_of t).
Proof. intros H; split; simpl; apply H. Qed.

Lemma decsc_ok w h t : WFs w h t -> WFs w h (decsc t).
Proof.
  intros H; unfold decsc; case_if;
    [apply WFs_set_sva | apply WFs_set_svp]; auto; eapply save_of_ok; eauto.
Qed.

Lemma decrc_ok w h t : WFs w h t -> WFs w h (decrc t).
Proof.
  intros H; unfold decrc.
  set (s := if m_smcup (t_md t) then t_sva t else t_svp t).
  assert (Hs : saved_ok s) by (unfold s; case_if; apply H).
  destruct Hs as [Hs1 Hs2].
  pose proof (WFs_height _ _ _ H) as Hh. pose proof (WFs_width _ _ _ H) as Hw.
  apply WFs_set_last, WFs_set_md, WFs_set_cs, WFs_set_shape, WFs_set_pen.
  assert (Hh1 : height (set_cursor t (s_row s) (s_col s)) = h) by exact Hh.
  assert (Hw1 : width (set_cursor t (s_row s) (s_col s)) = w) by exact Hw.
  destruct H. rewrite Hh1.
  destruct (t_row (set_cursor t (s_row s) (s_col s)) >? h - 1) eqn:E1;
  [ assert (Hw2 : width (set_row (set_cursor t (s_row s) (s_col s)) (h - 1)) = w) by exact Hw
  | ]; simpl in E1; try rewrite Hw2; try rewrite Hw1; case_if; simpl in *;
  constructor; simpl; auto; lia.
Qed.

Lemma ris_ok w h t : WFs w h t -> okres w h (ris t).
Proof.
  intros H; unfold ris.
  rewrite (WFs_height _ _ _ H), (WFs_width _ _ _ H).
  unfold make_grid. destruct H.
  destruct (h <? 0) eqn:E1; [lia|]. destruct ((0 <? h) && (w <? 0)) eqn:E2; [lia|].
  cbn [tbind]. apply okres_ok.
  pose proof (blank_grid_ok w h ltac:(lia) ltac:(lia)) as Hg.
  constructor; simpl; auto; try lia.
  - unfold default_tabs. apply Forall_forall; intros x Hx.
    apply in_map_iff in Hx; destruct Hx as [k [<- _]]; lia.
Qed.

Lemma bs_ok w h t : WFs w h t -> WFs w h (bs t).
Proof.
  intros H; unfold bs.
  pose proof (WFs_set_last w h t false H) as H1.
  destruct H1; repeat case_if; simpl in *; constructor; simpl; auto; lia.
Qed.

Lemma cht_loop_ge tabs : forall n ps col, col <= cht_loop tabs n ps col.
Proof.
  induction tabs as [|ts rest IH]; intros n ps col; simpl; [lia|].
  repeat case_if; try lia; [apply IH | etransitivity; [|apply IH]; lia].
Qed.

Lemma cht_ok w h t ps : WFs w h t -> WFs w h (cht t ps).
Proof.
  intros H; unfold cht.
  pose proof (WFs_set_last w h t false H) as H1.
  apply WFs_set_col; auto.
  pose proof (cht_loop_ge (t_tabs (set_last t false)) 0 (dflt1 ps) (t_col (set_last t false))).
  destruct H1; case_if; simpl in *; lia.
Qed.

Lemma lf_ok w h t : WFs w h t -> okres w h (lf t).
Proof.
  intros H; unfold lf. apply okres_bind; [now apply ind_ok|].
  intros t1 W; apply okres_ok. case_if; auto. apply WFs_set_col; auto. destruct W; lia.
Qed.

Lemma cr_ok w h t : WFs w h t -> WFs w h (cr t).
Proof.
  intros H; unfold cr. apply WFs_set_col; [now apply WFs_set_last|]. destruct H; simpl; lia.
Qed.

(* ------------------------------------------------------------------ csi.go: cursor motion *)

Lemma dflt1_pos ps : 0 <= ps -> 1 <= dflt1 ps.
Proof. unfold dflt1; case_if; lia. Qed.

Ltac start_last H H1 :=
  pose proof (WFs_set_last _ _ _ false H) as H1;
  pose proof (WFs_height _ _ _ H1); pose proof (WFs_width _ _ _ H1).

Lemma cuu_ok w h t ps : WFs w h t -> 0 <= ps -> WFs w h (cuu t ps).
Proof.
  intros H Hp; unfold cuu; cbv zeta. start_last H H1. pose proof (dflt1_pos ps Hp).
  apply WFs_set_row; auto. destruct H1; case_if; simpl in *; lia.
Qed.

Lemma cud_ok w h t ps : WFs w h t -> 0 <= ps -> WFs w h (cud t ps).
Proof.
  intros H Hp; unfold cud; cbv zeta. start_last H H1. pose proof (dflt1_pos ps Hp).
  apply WFs_set_row; auto. destruct H1; case_if; simpl in *; lia.
Qed.

Lemma cuf_ok w h t ps : WFs w h t -> 0 <= ps -> WFs w h (cuf t ps).
Proof.
  intros H Hp; unfold cuf; cbv zeta. start_last H H1. pose proof (dflt1_pos ps Hp).
  apply WFs_set_col; auto. destruct H1; simpl in *; lia.
Qed.

Lemma cub_ok w h t ps : WFs w h t -> 0 <= ps -> WFs w h (cub t ps).
Proof.
  intros H Hp; unfold cub; cbv zeta. start_last H H1. pose proof (dflt1_pos ps Hp).
  apply WFs_set_col; auto. destruct H1; simpl in *; lia.
Qed.

Lemma cnl_ok w h t ps : WFs w h t -> 0 <= ps -> WFs w h (cnl t ps).
Proof.
  intros H Hp; unfold cnl; cbv zeta. pose proof (cud_ok w h t ps H Hp) as H1.
  apply WFs_set_col; auto. destruct H1; lia.
Qed.

Lemma cpl_ok w h t ps : WFs w h t -> 0 <= ps -> WFs w h (cpl t ps).
Proof.
  intros H Hp; unfold cpl; cbv zeta. pose proof (cuu_ok w h t ps H Hp) as H1.
  apply WFs_set_col; auto. destruct H1; lia.
Qed.

Lemma cha_ok w h t ps : WFs w h t -> 0 <= ps -> WFs w h (cha t ps).
Proof.
  intros H Hp; unfold cha; cbv zeta. start_last H H1. pose proof (dflt1_pos ps Hp).
  apply WFs_set_col; auto. destruct H1; repeat case_if; simpl in *; lia.
Qed.

Lemma vpa_ok w h t ps : WFs w h t -> 0 <= ps -> WFs w h (vpa t ps).
Proof.
  intros H Hp; unfold vpa; cbv zeta. start_last H H1. pose proof (dflt1_pos ps Hp).
  apply WFs_set_row; auto. destruct H1; simpl in *; lia.
Qed.

Lemma vpr_ok w h t ps : WFs w h t -> 0 <= ps -> WFs w h (vpr t ps).
Proof.
  intros H Hp; unfold vpr; cbv zeta. start_last H H1. pose proof (dflt1_pos ps Hp).
  apply WFs_set_row; auto. destruct H1; simpl in *; lia.
Qed.

Lemma hpa_ok w h t ps : WFs w h t -> 0 <= ps -> WFs w h (hpa t ps).
Proof.
  intros H Hp; unfold hpa; cbv zeta. start_last H H1. pose proof (dflt1_pos ps Hp).
  apply WFs_set_col; auto. destruct H1; simpl in *; lia.
Qed.

Lemma hpr_ok w h t ps : WFs w h t -> 0 <= ps -> WFs w h (hpr t ps).
Proof.
  intros H Hp; unfold hpr; cbv zeta. start_last H H1. pose proof (dflt1_pos ps Hp).
  apply WFs_set_col; auto. destruct H1; simpl in *; lia.
Qed.

Lemma cbt_loop_range rtabs : forall n ps col,
  Forall (fun x => 0 <= x) rtabs -> 0 <= col -> 0 <= cbt_loop rtabs n ps col <= col.
Proof.
  induction rtabs as [|ts rest IH]; intros n ps col HF Hc; simpl; [lia|].
  inversion HF; subst. repeat case_if; try lia.
  specialize (IH (n + 1) ps ts H2 H1); lia.
Qed.

Lemma cbt_ok w h t ps : WFs w h t -> WFs w h (cbt t ps).
Proof.
  intros H; unfold cbt; cbv zeta. start_last H H1.
  apply WFs_set_col; auto.
  pose proof (cbt_loop_range (rev (t_tabs (set_last t false))) 0 (dflt1 ps) (t_col (set_last t false))) as Hr.
  destruct H1. simpl in *.
  assert (HF : Forall (fun x => 0 <= x) (rev (t_tabs t))) by (apply Forall_rev; assumption).
  specialize (Hr HF ltac:(lia)); lia.
Qed.

Lemma tbc_ok w h t ps : WFs w h t -> WFs w h (tbc t ps).
Proof.
  intros H; unfold tbc. repeat case_if; auto; apply WFs_set_tabs; auto.
  apply Forall_forall; intros x Hx; apply filter_In in Hx; destruct Hx as [Hx _].
  destruct H. rewrite Forall_forall in wf_tabs0; auto.
Qed.

(* cup: any parameters at all *)
Lemma cup_ok w h t pm :
  WFs w h t -> Forall nonempty pm -> okres w h (cup t pm).
Proof.
  intros H Hne; unfold cup; cbv zeta. start_last H H1.
  assert (Hpm : forall i, 0 <= i < zlen pm -> exists v, pm_at pm i = TOk v).
  { intros i Hi; unfold pm_at. destruct (zget_ok nonempty pm i Hi Hne) as [p [Hp Hn]].
    rewrite Hp; cbn [of_opt tbind]. destruct (zget_0_nonempty p Hn) as [v Hv]; rewrite Hv; cbn [of_opt]; eauto. }
  assert (Hfin : forall t1, WFs w h (set_last t false) ->
     (forall t2 : term, t2 = t1 -> True) ->
     t_prim t1 = t_prim t -> t_alt t1 = t_alt t -> t_onalt t1 = t_onalt t ->
     t_top t1 = t_top t -> t_bot t1 = t_bot t -> t_left t1 = t_left t -> t_right t1 = t_right t ->
     t_tabs t1 = t_tabs t -> t_svp t1 = t_svp t -> t_sva t1 = t_sva t -> t_ev t1 = t_ev t ->
     okres w h
       (let t := if t_col t1 >? width t1 - 1 then set_col t1 (width t1 - 1) else t1 in
        let t := if t_row t >? height t - 1 then set_row t (height t - 1) else t in
        let t := if t_col t <? 0 then set_col t 0 else t in
        TOk (if t_row t <? 0 then set_row t 0 else t))).
  { intros t1 W _ E1 E2 E3 E4 E5 E6 E7 E8 E9 E10 E11.
    assert (Hh : height t1 = h) by (unfold height, active; rewrite E1, E2, E3; apply (WFs_height _ _ _ H)).
    assert (Hw : width t1 = w) by (unfold width, active; rewrite E1, E2, E3; apply (WFs_width _ _ _ H)).
    cbv zeta. apply okres_ok.
    destruct H.
    assert (G : forall t3, t_prim t3 = t_prim t -> t_alt t3 = t_alt t -> t_onalt t3 = t_onalt t ->
       t_top t3 = t_top t -> t_bot t3 = t_bot t -> t_left t3 = t_left t -> t_right t3 = t_right t ->
       t_tabs t3 = t_tabs t -> t_svp t3 = t_svp t -> t_sva t3 = t_sva t -> t_ev t3 = t_ev t ->
       0 <= t_row t3 < h -> 0 <= t_col t3 < w -> WFs w h t3).
    { intros t3 F1 F2 F3 F4 F5 F6 F7 F8 F9 F10 F11 Hr Hc.
      constructor; try rewrite F1; try rewrite F2; try rewrite F4; try rewrite F5; try rewrite F6;
        try rewrite F7; try rewrite F8; try rewrite F9; try rewrite F10; try rewrite F11; auto. }
    rewrite Hw.
    destruct (t_col t1 >? w - 1) eqn:C1.
    - change (height (set_col t1 (w - 1))) with (height t1); rewrite Hh.
      destruct (t_row (set_col t1 (w - 1)) >? h - 1) eqn:C2; simpl in C2 |- *;
        repeat case_if; simpl in *; apply G; simpl; auto; lia.
    - rewrite Hh.
      destruct (t_row t1 >? h - 1) eqn:C2; simpl in C2 |- *;
        repeat case_if; simpl in *; apply G; simpl; auto; lia. }
  destruct (zlen pm =? 0) eqn:Z0.
  { cbn [tbind]. apply Hfin; auto. }
  destruct (zlen pm =? 1) eqn:Z1.
  { destruct (Hpm 0 ltac:(lia)) as [r Hr]; rewrite Hr; cbn [tbind]. apply Hfin; auto. }
  destruct (zlen pm =? 2) eqn:Z2.
  { destruct (Hpm 0 ltac:(lia)) as [r Hr]; rewrite Hr; cbn [tbind].
    destruct (Hpm 1 ltac:(lia)) as [c Hc]; rewrite Hc; cbn [tbind]. apply Hfin; auto. }
  cbn [tbind]. apply Hfin; auto.
Qed.

(* ------------------------------------------------------------------ csi.go: erasing and editing *)

Lemma ed_ok w h t ps : WFs w h t -> okres w h (ed t ps).
Proof.
  intros H; unfold ed; cbv zeta.
  pose proof (WFs_height _ _ _ H) as Hh. pose proof (WFs_width _ _ _ H) as Hw.
  rewrite Hh, Hw.
  destruct (ps =? 0) eqn:P0.
  { start_last H H1. cbn [t_row t_col set_last].
    destruct ((t_row t <? 0) && ((t_row t <? -1) && (0 <? w) || (Z.max 0 (t_col t) <? w))) eqn:G.
    { destruct H; lia. }
    match goal with |- context[mapi_opt ?f 0 (active t)] =>
      destruct (grid_loop_ok w h t f H) as [g' [Hm Hg]] end.
    - intros r line Hr Hl. destruct H.
      repeat case_if; eauto; apply erase_cells_ok; auto; lia.
    - rewrite Hm; cbn [of_opt tbind]. apply okres_ok, WFs_set_active; assumption. }
  destruct (ps =? 1) eqn:P1.
  { start_last H H1. cbn [t_row t_col set_last].
    destruct ((h <? t_row t) && (0 <? w) || (h <=? t_row t) && (0 <? Z.min (t_col t + 1) w)) eqn:G.
    { destruct H; lia. }
    match goal with |- context[mapi_opt ?f 0 (active t)] =>
      destruct (grid_loop_ok w h t f H) as [g' [Hm Hg]] end.
    - intros r line Hr Hl. destruct H.
      repeat case_if; eauto; apply erase_cells_ok; auto; lia.
    - rewrite Hm; cbn [of_opt tbind]. apply okres_ok, WFs_set_active; assumption. }
  destruct (ps =? 2) eqn:P2.
  { start_last H H1.
    match goal with |- context[mapi_opt ?f 0 (active t)] =>
      destruct (grid_loop_ok w h t f H) as [g' [Hm Hg]] end.
    - intros r line Hr Hl. destruct H. apply erase_cells_ok; auto; lia.
    - rewrite Hm; cbn [of_opt tbind]. apply okres_ok, WFs_set_active; assumption. }
  apply okres_ok; assumption.
Qed.

Lemma okres_of_row w h t r : (exists t', r = TOk t' /\ WFs w h t' /\ same_but_grids t t') -> okres w h r.
Proof. intros [t' [E [W _]]]; exists t'; auto. Qed.

Lemma el_ok w h t ps : WFs w h t -> okres w h (el t ps).
Proof.
  intros H; unfold el; cbv zeta. start_last H H1.
  rewrite H2. destruct H1. cbn [t_row t_col set_last] in *.
  repeat case_if; try (apply okres_ok; constructor; assumption);
    eapply okres_of_row; apply erase_in_row_ok; try (constructor; assumption); simpl; lia.
Qed.

Lemma in_margins_true t : in_margins t = true -> t_top t <= t_row t <= t_bot t.
Proof. unfold in_margins; lia. Qed.

Lemma il_ok w h t ps0 : WFs w h t -> 0 <= ps0 -> okres w h (il t ps0).
Proof.
  intros H Hp; unfold il; cbv zeta. start_last H H1. pose proof (dflt1_pos ps0 Hp) as Hd.
  destruct (negb (in_margins (set_last t false))) eqn:M; [apply okres_ok; assumption|].
  apply Bool.negb_false_iff, in_margins_true in M.
  set (t1 := set_last t false) in *.
  set (ps := if t_bot t1 - t_row t1 <? dflt1 ps0 - 1 then t_bot t1 - t_row t1 + 1 else dflt1 ps0).
  assert (Hps : 1 <= ps <= t_bot t1 - t_row t1 + 1) by (unfold ps; case_if; lia).
  pose proof (WFs_active _ _ _ H1) as Hact. destruct Hact as [Hlen HF].
  destruct ((t_row t1 + ps <=? t_bot t1) && ((t_row t1 + ps <? 0) || (zlen (active t1) <=? t_bot t1))) eqn:G1.
  { destruct H1; lia. }
  match goal with |- context[mapi_opt ?f 0 (active t1)] =>
    destruct (grid_loop_ok w h t1 f H1) as [g' [Hm Hg]] end.
  { intros r line Hr Hl. destruct H1. case_if; eauto.
    destruct (zget_ok (row_ok w) (active t1) (r - ps)) as [src [Hs Hsok]]; [lia | assumption |].
    rewrite Hs; eexists; split; [reflexivity|]; now apply copy_row_ok. }
  rw_loop Hm.
  destruct ((0 <? ps) && ((t_row t1 <? 0) || (zlen (active t1) <? t_row t1 + ps))) eqn:G2.
  { destruct H1; lia. }
  match goal with |- context[mapi_opt ?f 0 g'] =>
    destruct (grid_loop_gen w h g' f Hg) as [g'' [Hm2 Hg2]] end.
  { intros r line Hr Hl. destruct H1. case_if; eauto. apply erase_cells_ok; auto; lia. }
  rw_loop Hm2. apply okres_ok.
  apply WFs_set_col; [apply WFs_set_active; assumption|]. destruct H1; lia.
Qed.

Lemma dl_ok w h t ps0 : WFs w h t -> 0 <= ps0 -> okres w h (dl t ps0).
Proof.
  intros H Hp; unfold dl; cbv zeta. start_last H H1. pose proof (dflt1_pos ps0 Hp) as Hd.
  destruct (negb (in_margins (set_last t false))) eqn:M; [apply okres_ok; assumption|].
  apply Bool.negb_false_iff, in_margins_true in M.
  set (t1 := set_last t false) in *.
  set (ps := if t_bot t1 - t_row t1 <? dflt1 ps0 - 1 then t_bot t1 - t_row t1 + 1 else dflt1 ps0).
  assert (Hps : 1 <= ps <= t_bot t1 - t_row t1 + 1) by (unfold ps; case_if; lia).
  pose proof (WFs_active _ _ _ H1) as Hact. destruct Hact as [Hlen HF].
  destruct ((t_row t1 <? 0) || (zlen (active t1) <=? t_bot t1)) eqn:G1.
  { destruct H1; lia. }
  match goal with |- context[mapi_opt ?f 0 (active t1)] =>
    destruct (grid_loop_ok w h t1 f H1) as [g' [Hm Hg]] end.
  { intros r line Hr Hl. destruct H1. case_if; eauto. case_if.
    - destruct (zget_ok (row_ok w) (active t1) (r + ps)) as [src [Hs Hsok]]; [lia | assumption |].
      rewrite Hs; eexists; split; [reflexivity|]; now apply copy_row_ok.
    - apply erase_cells_ok; auto; lia. }
  rw_loop Hm. apply okres_ok.
  apply WFs_set_col; [apply WFs_set_active; assumption|]. destruct H1; lia.
Qed.

Lemma zget_cell_ok w (line : trow) i : row_ok w line -> 0 <= i < w -> exists c, zget line i = Some c /\ cell_ok c.
Proof. intros [Hl HF] Hi; apply zget_ok; auto; lia. Qed.

Lemma dch_ok w h t ps0 : WFs w h t -> 0 <= ps0 -> okres w h (dch t ps0).
Proof.
  intros H Hp; unfold dch; cbv zeta. start_last H H1. pose proof (dflt1_pos ps0 Hp) as Hd.
  set (t1 := set_last t false) in *.
  case_if; [apply okres_ok; assumption|].
  eapply okres_of_row; apply on_row_ok; auto; [destruct H1; lia|].
  intros line Hl. destruct H1.
  destruct ((t_col t1 <? 0) || (zlen line <=? t_right t1)) eqn:G; [destruct Hl; lia|].
  apply line_loop_ok; auto. intros i x Hi Hx.
  repeat case_if; eauto.
  - eexists; split; [reflexivity|]; unfold cell_ok; simpl; lia.
  - apply (zget_cell_ok w); auto; lia.
Qed.

Lemma ich_ok w h t ps0 : WFs w h t -> 0 <= ps0 -> okres w h (ich t ps0).
Proof.
  intros H Hp; unfold ich; cbv zeta. pose proof (dflt1_pos ps0 Hp) as Hd.
  destruct (on_row_ok w h t (t_row t)
    (fun line =>
       if (t_col t <? t_right t) && (dflt1 ps0 <=? t_right t) && (zlen line <=? t_right t) then None
       else mapi_opt (fun i c => if (t_col t <? i) && (i <=? t_right t) && (0 <=? i - dflt1 ps0)
                                 then zget line (i - dflt1 ps0) else Some c) 0 line) H)
    as [t1 [E [W S]]].
  { destruct H; lia. }
  { intros line Hl. destruct H.
    case_if; [destruct Hl; lia|].
    apply line_loop_ok; auto. intros i x Hi Hx. case_if; eauto.
    apply (zget_cell_ok w); auto; lia. }
  rewrite E; cbn [tbind].
  eapply okres_of_row; apply on_row_ok; auto; [destruct W; lia|].
  intros line [Hl HF].
  destruct (upd_range_ok (fun _ : tcell => blank_cell (pen_bg t1)) (t_col t)
              (Z.min (t_col t + dflt1 ps0) (width t1)) line) as [l' [Hu Hl']].
  { rewrite (WFs_width _ _ _ W), Hl. destruct H; lia. }
  exists l'; split; auto; split; [lia|].
  eapply upd_range_Forall; eauto. intros c _; unfold cell_ok; simpl; lia.
Qed.

Lemma ech_ok w h t ps0 : WFs w h t -> 0 <= ps0 -> okres w h (ech t ps0).
Proof.
  intros H Hp; unfold ech; cbv zeta. start_last H H1. pose proof (dflt1_pos ps0 Hp) as Hd.
  eapply okres_of_row; apply erase_in_row_ok; auto; [destruct H1; lia|].
  rewrite H2. destruct H1. cbn [t_col set_last] in *. case_if; lia.
Qed.

Lemma rep_ok w h t ps : WFs w h t -> okres w h (rep t ps).
Proof.
  intros H; unfold rep; cbv zeta. start_last H H1.
  set (t1 := set_last t false) in *.
  case_if; [apply okres_ok; assumption|].
  pose proof (WFs_active _ _ _ H1) as [Hlen HF].
  destruct (zget_ok (row_ok w) (active t1) (t_row t1)) as [line [Hg Hline]]; [destruct H1; lia | assumption |].
  rewrite Hg; cbn [of_opt tbind].
  destruct (zget_cell_ok w line (t_col t1 - 1) Hline) as [ch [Hc Hch]]; [destruct H1; lia|].
  rewrite Hc; cbn [of_opt tbind].
  eapply okres_of_row; apply range_in_row_ok; auto.
  - destruct H1; lia.
  - destruct H1. case_if; lia.
Qed.

Lemma decstbm_ok w h t pm : WFs w h t -> Forall nonempty pm -> okres w h (decstbm t pm).
Proof.
  intros H Hne; unfold decstbm; cbv zeta.
  pose proof (WFs_height _ _ _ H) as Hh. rewrite Hh.
  assert (Hpm : forall i, 0 <= i < zlen pm -> exists v, pm_at pm i = TOk v).
  { intros i Hi; unfold pm_at. destruct (zget_ok nonempty pm i Hi Hne) as [p [Hp Hn]].
    rewrite Hp; cbn [of_opt tbind]. destruct (zget_0_nonempty p Hn) as [v Hv]; rewrite Hv; cbn [of_opt]; eauto. }
  assert (Hfin : forall top bot,
    okres w h (let top := if top <? 0 then 0 else top in
               let bot := if (bot <? 0) || (bot >? h - 1) then h - 1 else bot in
               if top >=? bot then TOk t else
               let t := set_last t false in
               let t := set_margins t top bot (t_left t) (t_right t) in
               TOk (set_cursor t 0 0))).
  { intros top bot; cbv zeta. case_if; [apply okres_ok; assumption|].
    apply okres_ok. apply WFs_set_cursor; [| destruct H; lia | destruct H; lia].
    apply (WFs_set_margins w h (set_last t false)); [now apply WFs_set_last | | |]; repeat case_if; lia. }
  destruct (zlen pm =? 0) eqn:Z0; [cbn [tbind]; apply Hfin|].
  destruct (zlen pm =? 1) eqn:Z1.
  { destruct (Hpm 0 ltac:(lia)) as [a Ha]; rewrite Ha; cbn [tbind]. apply Hfin. }
  destruct (zlen pm =? 2) eqn:Z2.
  { destruct (Hpm 0 ltac:(lia)) as [a Ha]; rewrite Ha; cbn [tbind].
    destruct (Hpm 1 ltac:(lia)) as [b Hb]; rewrite Hb; cbn [tbind]. apply Hfin. }
  cbn [tbind]. apply Hfin.
Qed.

(* ------------------------------------------------------------------ print *)

Lemma print_advance_ok w h t pw : WFs w h t -> 0 <= pw ->
  WFs w h (let t6 := if negb (m_awm (t_md t)) && (t_col t + pw >? t_right t) then t
                     else set_col t (t_col t + pw) in
           if (t_col t6 >=? t_right t6 + 1) && m_awm (t_md t6)
           then set_col (set_last t6 true) (t_right t6) else t6).
Proof.
  intros H Hp; cbv zeta. destruct H.
  destruct (negb (m_awm (t_md t)) && (t_col t + pw >? t_right t)) eqn:E1.
  - destruct ((t_col t >=? t_right t + 1) && m_awm (t_md t)) eqn:E2; constructor; simpl; auto; lia.
  - cbn [t_col t_right t_md set_col set_cursor].
    destruct ((t_col t + pw >=? t_right t + 1) && m_awm (t_md t)) eqn:E2;
      constructor; simpl; auto; try lia.
Qed.

Lemma sbg_trans a b c : same_but_grids a b -> same_but_grids b c -> same_but_grids a c.
Proof.
  unfold same_but_grids; intros H1 H2; decompose [and] H1; decompose [and] H2; repeat split; congruence.
Qed.

Lemma print_ok w h t g pw : WFs w h t -> 0 <= pw -> okres w h (print t g pw).
Proof.
  intros H Hp; unfold print; cbv zeta.
  set (g' := shift_grapheme (t_cs t) g). clearbody g'.
  set (t1 := if cs_ss (t_cs t) then _ else t).
  assert (W1 : WFs w h t1) by (unfold t1; case_if; [apply WFs_set_cs|]; auto).
  clearbody t1. clear H.
  apply okres_bind.
  { case_if; [|apply okres_ok; assumption].
    pose proof (WFs_set_last w h t1 false W1) as W1'.
    destruct (on_row_ok w h (set_last t1 false) (t_row (set_last t1 false))
      (fun line => upd_range set_wrapped (width (set_last t1 false) - 1) (width (set_last t1 false)) line) W1')
      as [t2 [E [W2 _]]].
    - destruct W1'; lia.
    - intros line [Hl HF]. rewrite (WFs_width _ _ _ W1').
      destruct (upd_range_ok set_wrapped (w - 1) w line) as [l' [Hu Hl']]; [destruct W1; lia|].
      exists l'; split; auto; split; [lia|].
      eapply upd_range_Forall; eauto.
    - rewrite E; cbn [tbind]. now apply nel_ok. }
  intros t2 W2.
  (* insert mode *)
  assert (Hirm : exists t3, (if m_irm (t_md t2)
                  then on_row t2 (t_row t2) (fun line => irm_shift line (t_col t2) (t_right t2) pw)
                  else TOk t2) = TOk t3 /\ WFs w h t3 /\ same_but_grids t2 t3).
  { case_if; [|exists t2; split; [reflexivity|split; [assumption|apply same_but_grids_refl]]].
    apply on_row_ok; auto; [destruct W2; lia|].
    intros line Hl. unfold irm_shift. destruct W2.
    case_if; [destruct Hl; lia|].
    apply line_loop_ok; auto. intros i x Hi Hx. case_if; eauto.
    apply (zget_cell_ok w); auto; lia. }
  destruct Hirm as [t3 [E3 [W3 S3]]]. rewrite E3; cbn [tbind].
  rewrite (WFs_width _ _ _ W3), (WFs_height _ _ _ W3).
  assert (Hc : (if t_col t2 >? w - 1 then w - 1 else t_col t2) = t_col t2) by (destruct W2; case_if; lia).
  assert (Hr : (if t_row t2 >? h - 1 then h - 1 else t_row t2) = t_row t2) by (destruct W2; case_if; lia).
  rewrite Hc, Hr.
  case_if; [apply okres_ok; assumption|].
  destruct (on_row_ok w h t3 (t_row t2)
      (fun line => zupd line (t_col t2) (mkCell g' pw (t_pen t3) false)) W3)
      as [t4 [E4 [W4 S4]]].
  { destruct W2; lia. }
  { intros line [Hl HF].
    destruct (zupd_ok cell_ok line (t_col t2) (mkCell g' pw (t_pen t3) false))
      as [l' [Hu [Hl' HF']]]; [destruct W2; lia | assumption | unfold cell_ok; simpl; lia |].
    exists l'; split; auto; split; [lia | assumption]. }
  rewrite E4; cbn [tbind].
  destruct (range_in_row_ok w h t4 (t_row t2) (set_space (t_pen t4)) (t_col t2 + 1)
              (Z.min (t_col t2 + pw) (t_right t4 + 1)) W4) as [t5 [E5 [W5 S5]]].
  { destruct W2; lia. }
  { destruct W2, W4; lia. }
  { intros c _; unfold cell_ok; simpl; lia. }
  rewrite E5; cbn [tbind].
  apply okres_ok. apply (print_advance_ok w h t5 pw W5 Hp).
Qed.


(* ------------------------------------------------------------------ esc, modes, sgr *)

Lemma esc_ok w h t i f : WFs w h t -> okres w h (esc t i f).
Proof.
  intros H; unfold esc; cbv zeta.
  repeat case_if;
    lazymatch goal with
    | |- okres _ _ (ind _) => now apply ind_ok
    | |- okres _ _ (nel _) => now apply nel_ok
    | |- okres _ _ (ri _) => now apply ri_ok
    | |- okres _ _ (ris _) => now apply ris_ok
    | |- okres _ _ (TOk (decsc _)) => apply okres_ok, decsc_ok; assumption
    | |- okres _ _ (TOk (decrc _)) => apply okres_ok, decrc_ok; assumption
    | |- okres _ _ (TOk (hts _)) => apply okres_ok, hts_ok; assumption
    | |- okres _ _ (TOk (set_cs _ _)) => apply okres_ok, WFs_set_cs; assumption
    | |- okres _ _ (TOk (set_des _ _ _)) => apply okres_ok; unfold set_des; apply WFs_set_cs; assumption
    | |- okres _ _ (TOk _) => apply okres_ok; assumption
    end.
Qed.

Lemma fold_params_ok w h (f : term -> Z -> tres term) params :
  (forall t k, WFs w h t -> okres w h (f t k)) ->
  Forall nonempty params -> forall t, WFs w h t -> okres w h (fold_params f params t).
Proof.
  intros Hf; induction params as [|p rest IH]; intros Hne t H; cbn [fold_params].
  - now apply okres_ok.
  - inversion Hne as [|? ? Hp Hrest]; subst.
    destruct (zget_0_nonempty p Hp) as [k Hk]; rewrite Hk; cbn [of_opt tbind].
    apply okres_bind; [now apply Hf | intros t1 W1; now apply IH].
Qed.

Lemma sm1_ok w h v t k : WFs w h t -> okres w h (sm1 v t k).
Proof. intros H; unfold sm1; repeat case_if; apply okres_ok; auto using WFs_set_md. Qed.

Lemma decset1_ok w h t k : WFs w h t -> okres w h (decset1 t k).
Proof.
  intros H; unfold decset1; cbv zeta; repeat case_if;
    try solve [apply okres_ok; auto using WFs_set_md, WFs_set_last]; cbn [tbind].
  - apply okres_ok, WFs_set_md. now apply WFs_set_onalt, decsc_ok.
  - apply okres_bind.
    + apply ed_ok. now apply WFs_set_onalt, decsc_ok.
    + intros t1 W1; apply okres_ok; now apply WFs_set_md.
Qed.

Lemma decrst1_ok w h t k : WFs w h t -> okres w h (decrst1 t k).
Proof.
  intros H; unfold decrst1; cbv zeta; repeat case_if;
    try solve [apply okres_ok; auto using WFs_set_md, WFs_set_last]; cbn [tbind].
  - apply okres_bind; [now apply ed_ok|].
    intros t1 W1; apply okres_ok, decrc_ok, WFs_set_md. now apply WFs_set_onalt.
  - apply okres_ok, decrc_ok, WFs_set_md. now apply WFs_set_onalt.
Qed.

Lemma sgr_ok w h t params : WFs w h t -> Forall nonempty params -> okres w h (sgr t params).
Proof.
  intros H Hne; unfold sgr, term_sgr.
  pose proof (sgr_run_total params (spen (t_pen t)) Hne) as Hn.
  destruct (sgr_run params (spen (t_pen t))) as [p|]; [|congruence].
  apply okres_ok; now apply WFs_set_pen.
Qed.

(* ------------------------------------------------------------------ csi dispatch *)

Lemma clamp_ps_range v : 0 <= clamp_ps v <= 65535.
Proof. unfold clamp_ps; case_if; lia. Qed.

Lemma ps_of_ok params : Forall nonempty params -> exists v, ps_of params = TOk v /\ 0 <= v <= 65535.
Proof.
  intros Hne; unfold ps_of. destruct params as [|p rest]; [exists 0; split; [reflexivity|lia]|].
  inversion Hne as [|? ? Hp _]; subst.
  destruct (zget_0_nonempty p Hp) as [k Hk]; rewrite Hk; cbn [of_opt tbind].
  eexists; split; [reflexivity | apply clamp_ps_range].
Qed.

Ltac csi_branch :=
  lazymatch goal with
  | |- okres _ _ (ich _ _) => now apply ich_ok
  | |- okres _ _ (cup _ _) => now apply cup_ok
  | |- okres _ _ (ed _ _) => now apply ed_ok
  | |- okres _ _ (el _ _) => now apply el_ok
  | |- okres _ _ (il _ _) => now apply il_ok
  | |- okres _ _ (dl _ _) => now apply dl_ok
  | |- okres _ _ (dch _ _) => now apply dch_ok
  | |- okres _ _ (ech _ _) => now apply ech_ok
  | |- okres _ _ (rep _ _) => now apply rep_ok
  | |- okres _ _ (decstbm _ _) => now apply decstbm_ok
  | |- okres _ _ (sgr _ _) => now apply sgr_ok
  | |- okres _ _ (scroll_up _ _) => apply scroll_up_ok; assumption
  | |- okres _ _ (scroll_down _ _) => apply scroll_down_ok; assumption
  | |- okres _ _ (fold_params (sm1 _) _ _) => apply fold_params_ok; auto; intros; now apply sm1_ok
  | |- okres _ _ (fold_params decset1 _ _) => apply fold_params_ok; auto; intros; now apply decset1_ok
  | |- okres _ _ (fold_params decrst1 _ _) => apply fold_params_ok; auto; intros; now apply decrst1_ok
  | |- okres _ _ (TOk (cuu _ _)) => apply okres_ok, cuu_ok; assumption
  | |- okres _ _ (TOk (cud _ _)) => apply okres_ok, cud_ok; assumption
  | |- okres _ _ (TOk (cuf _ _)) => apply okres_ok, cuf_ok; assumption
  | |- okres _ _ (TOk (cub _ _)) => apply okres_ok, cub_ok; assumption
  | |- okres _ _ (TOk (cnl _ _)) => apply okres_ok, cnl_ok; assumption
  | |- okres _ _ (TOk (cpl _ _)) => apply okres_ok, cpl_ok; assumption
  | |- okres _ _ (TOk (cha _ _)) => apply okres_ok, cha_ok; assumption
  | |- okres _ _ (TOk (hpa _ _)) => apply okres_ok, hpa_ok; assumption
  | |- okres _ _ (TOk (hpr _ _)) => apply okres_ok, hpr_ok; assumption
  | |- okres _ _ (TOk (vpa _ _)) => apply okres_ok, vpa_ok; assumption
  | |- okres _ _ (TOk (vpr _ _)) => apply okres_ok, vpr_ok; assumption
  | |- okres _ _ (TOk (cht _ _)) => apply okres_ok, cht_ok; assumption
  | |- okres _ _ (TOk (cbt _ _)) => apply okres_ok, cbt_ok; assumption
  | |- okres _ _ (TOk (tbc _ _)) => apply okres_ok, tbc_ok; assumption
  | |- okres _ _ (TOk (decsc _)) => apply okres_ok, decsc_ok; assumption
  | |- okres _ _ (TOk (decrc _)) => apply okres_ok, decrc_ok; assumption
  | |- okres _ _ (TOk (set_shape _ _)) => apply okres_ok, WFs_set_shape; assumption
  | |- okres _ _ (TOk _) => apply okres_ok; assumption
  end.

Lemma csi_ok w h t inter params final :
  WFs w h t -> Forall nonempty params -> okres w h (csi t inter params final).
Proof.
  intros H Hne; unfold csi, with_ps; cbv zeta.
  destruct (ps_of_ok params Hne) as [v [Ev Hv]]; rewrite Ev; cbn [tbind].
  assert (Hd : 0 <= dflt1 v) by (pose proof (dflt1_pos v); lia).
  assert (Hv0 : 0 <= v) by lia.
  repeat case_if; csi_branch.
Qed.

(* ------------------------------------------------------------------ resize *)

Lemma reprint_cells_ok w h cells : Forall cell_ok cells ->
  forall t wr, WFs w h t -> exists t' b, reprint_cells cells t wr = TOk (t', b) /\ WFs w h t'.
Proof.
  induction cells as [|c rest IH]; intros HF t wr H; cbn [reprint_cells]; [eauto|].
  inversion HF as [|? ? Hc Hrest]; subst.
  destruct (print_ok w h (set_pen t (c_st c)) (c_g c) (c_w c)) as [t1 [E1 W1]];
    [now apply WFs_set_pen | exact Hc |].
  rewrite E1; cbn [tbind]. now apply IH.
Qed.

Lemma reprint_rows_ok w h n0 rows : Forall (fun l => zlen l = n0 /\ Forall cell_ok l) rows ->
  forall r last t, WFs w h t -> okres w h (reprint_rows n0 rows r last t).
Proof.
  induction rows as [|line rest IH]; intros HF r last t H; cbn [reprint_rows]; [now apply okres_ok|].
  inversion HF as [|? ? [Hl Hc] Hrest]; subst.
  case_if; [now apply okres_ok|].
  case_if; [lia|].
  destruct (reprint_cells_ok w h (firstn (Z.to_nat (zlen line)) line) (Forall_firstn' _ _ _ Hc) t false H)
    as [t1 [b [E1 W1]]].
  rewrite E1; cbn [tbind].
  apply okres_bind; [case_if; [now apply okres_ok | now apply nel_ok]|].
  intros t2 W2; now apply IH.
Qed.

(* what resize needs of the state it starts from: a fresh Model or a well-formed one *)
Definition resizable (t : term) : Prop :=
  t_left t = 0 /\ Forall (fun x => 0 <= x) (t_tabs t) /\ saved_ok (t_svp t) /\ saved_ok (t_sva t) /\
  (t_ev t = e /\ 0 <= e <= 2) /\
  exists n, Forall (fun l => zlen l = n /\ Forall cell_ok l) (t_prim t).

Lemma WFs_resizable w h t : WFs w h t -> resizable t.
Proof.
  intros []; repeat split; auto; try apply wf_svp0; try apply wf_sva0; try lia.
  exists w. destruct wf_prim0 as [_ HF]. exact HF.
Qed.

Lemma resize_ok t w h : resizable t -> 1 <= w -> 1 <= h -> okres w h (resize t w h).
Proof.
  intros (Hleft & Htabs & Hsvp & Hsva & Hev & [n Hn]) Hw Hh; unfold resize; cbv zeta.
  unfold make_grid. destruct (h <? 0) eqn:E1; [lia|]. destruct ((0 <? h) && (w <? 0)) eqn:E2; [lia|].
  cbn [tbind].
  pose proof (blank_grid_ok w h ltac:(lia) ltac:(lia)) as Hg.
  apply okres_bind.
  - apply reprint_rows_ok.
    + destruct (t_prim t) as [|l rest]; [constructor|].
      inversion Hn as [|? ? [Hl _] _]; subst. exact Hn.
    + constructor; simpl; auto; lia.
  - intros t1 W1; apply okres_ok; now apply WFs_set_onalt, WFs_set_pen.
Qed.

End FixedEvents.

