(* Sequence-level consequences of the parser model: a complete CSI / OSC is delivered exactly
   once with exact contents from ANY state; a cancelled CSI delivers nothing; text is
   conserved. *)
From Vx Require Import base.Prelude base.ListX model.ParserTypes gen.GenParser model.Parser model.Vt500Spec
  proofs.ParserTable proofs.ParserConform.

Lemma feed_app a : forall p b,
  feed p (a ++ b) =
  let '(p1, o1, go) := feed p a in
  if go then let '(p2, o2, go2) := feed p1 b in (p2, o1 ++ o2, go2) else (p1, o1, false).
Proof.
  induction a as [|r a IH]; intros p b; cbn [app feed].
  - destruct (feed p b) as [[p2 o2] go2]. reflexivity.
  - destruct (step p r) as [[p1 o1] go]. destruct go; [|reflexivity].
    rewrite IH. destruct (feed p1 a) as [[p2 o2] go2]. destruct go2.
    + destruct (feed p2 b) as [[p3 o3] go3]. now rewrite app_assoc.
    + reflexivity.
Qed.

(* what ESC does from any state: the interrupted string (if any) is delivered, everything
   collected so far is forgotten *)
Definition esc_post (p : pst) : pst * list item :=
  let '(p1, o) := match exitf p with
                  | Some e => let '(p1, o) := run_exit e (set_timer p false) in (set_exit p1 None, o)
                  | None => (set_timer p false, [])
                  end in
  (set_st (set_timer (set_params (set_inter p1 []) []) true) Escape, o).

Lemma step_esc p : step p 27 = (fst (esc_post p), snd (esc_post p), true).
Proof.
  rewrite step_is_spec_step. unfold spec_step, esc_post. cbn [andb]. cbv zeta.
  unfold spec_anywhere. cbn -[run_exit]. unfold run_trans. cbn -[run_exit].
  destruct (exitf p) as [[]|]; reflexivity.
Qed.

Lemma esc_post_st p : st (fst (esc_post p)) = Escape /\ inter (fst (esc_post p)) = [] /\ params (fst (esc_post p)) = [].
Proof. unfold esc_post. destruct (exitf p) as [[]|]; repeat split. Qed.

Ltac eval_step Hst :=
  rewrite step_is_spec_step; unfold spec_step; cbn [andb]; cbv zeta;
  change (st (set_timer ?p false)) with (st p);
  unfold spec_anywhere, eof_rune; solve_cmp; cbn [orb];
  rewrite Hst; unfold spec_trans, spec_post, c0exec, in_range, eof_rune; solve_cmp;
  unfold run_trans; cbn.

Lemma step_bracket p : st p = Escape ->
  step p 91 = (set_st (set_ignoreST (set_params (set_inter (set_timer p false) []) []) false) CsiEntry, [], true).
Proof. intros Hst. eval_step Hst. reflexivity. Qed.

Definition csi_open (p : pst) : Prop := st p = CsiEntry \/ st p = CsiParam.
Definition csi_any (p : pst) : Prop := csi_open p \/ st p = CsiIntermediate.

Lemma step_param p r : csi_open p -> 48 <= r <= 59 ->
  step p r = (set_st (set_params (set_timer p false) (params p ++ [r])) CsiParam, [], true).
Proof. intros [Hst|Hst] Hr; eval_step Hst; reflexivity. Qed.

Lemma step_priv p r : st p = CsiEntry -> 60 <= r <= 63 ->
  step p r = (set_st (set_inter (set_timer p false) (inter p ++ [r])) CsiParam, [], true).
Proof. intros Hst Hr; eval_step Hst; reflexivity. Qed.

Lemma step_inter p r : csi_any p -> 32 <= r <= 47 ->
  step p r = (set_st (set_inter (set_timer p false) (inter p ++ [r])) CsiIntermediate, [], true).
Proof. intros [[Hst|Hst]|Hst] Hr; eval_step Hst; reflexivity. Qed.

Definition csi_decode (ps : list Z) : list (list Z) :=
  match ps with [] => [] | _ => csi_params ps 0 [] [] end.

Lemma step_final p r : csi_any p -> 64 <= r <= 126 ->
  step p r = (set_st (set_timer p false) Ground, [ICsi (inter p) (csi_decode (params p)) r], true).
Proof. intros [[Hst|Hst]|Hst] Hr; eval_step Hst; reflexivity. Qed.

(* feeding parameter bytes *)
Lemma feed_params ps : forall p,
  csi_open p -> Forall (fun r => 48 <= r <= 59) ps ->
  exists p', feed p ps = (p', [], true) /\ params p' = params p ++ ps /\ inter p' = inter p /\
             (ps = [] -> p' = p) /\ (ps <> [] -> st p' = CsiParam).
Proof.
  induction ps as [|r ps IH]; intros p Ho Hr.
  - exists p. cbn. rewrite app_nil_r. repeat split; auto. intros H; congruence.
  - inversion Hr as [|? ? H1 H2]; subst. cbn [feed]. rewrite (step_param p r Ho H1).
    set (p1 := set_st (set_params (set_timer p false) (params p ++ [r])) CsiParam).
    destruct (IH p1 (or_intror eq_refl) H2) as [p' [Hf [Hp [Hi [_ Hs]]]]].
    exists p'. rewrite Hf. cbn.
    split; [reflexivity|]. split; [rewrite Hp; unfold p1; cbn; now rewrite <- app_assoc|].
    split; [rewrite Hi; reflexivity|]. split; [intros H; discriminate|].
    intros _. destruct ps as [|r2 ps2]; [|apply Hs; discriminate].
    cbn in Hf. injection Hf as <-. reflexivity.
Qed.

Lemma feed_inters is : forall p,
  csi_any p -> Forall (fun r => 32 <= r <= 47) is ->
  exists p', feed p is = (p', [], true) /\ inter p' = inter p ++ is /\ params p' = params p /\ csi_any p'.
Proof.
  induction is as [|r is IH]; intros p Ha Hr.
  - exists p. cbn. rewrite app_nil_r. repeat split; auto.
  - inversion Hr as [|? ? H1 H2]; subst. cbn [feed]. rewrite (step_inter p r Ha H1).
    set (p1 := set_st (set_inter (set_timer p false) (inter p ++ [r])) CsiIntermediate).
    destruct (IH p1 (or_intror eq_refl) H2) as [p' [Hf [Hi [Hp Hany]]]].
    exists p'. rewrite Hf. cbn.
    split; [reflexivity|]. split; [rewrite Hi; unfold p1; cbn; now rewrite <- app_assoc|].
    split; [rewrite Hp; reflexivity|exact Hany].
Qed.

(* A complete control sequence, from ANY parser state: delivered exactly once, with exactly its
   private marker and intermediates, its parameter bytes decoded by csi_decode, and its final;
   preceded only by the delivery of a string it interrupted.  Ends in ground. *)
Theorem csi_exact p priv ps is f :
  (priv = [] \/ exists m, priv = [m] /\ 60 <= m <= 63) ->
  Forall (fun r => 48 <= r <= 59) ps -> Forall (fun r => 32 <= r <= 47) is -> 64 <= f <= 126 ->
  exists p', feed p ([27; 91] ++ priv ++ ps ++ is ++ [f]) =
               (p', snd (esc_post p) ++ [ICsi (priv ++ is) (csi_decode ps) f], true) /\ st p' = Ground.
Proof.
  intros Hpriv Hps His Hf.
  cbn [app feed]. rewrite step_esc.
  destruct (esc_post_st p) as [Hs [Hi Hp]].
  set (pe := fst (esc_post p)) in *.
  rewrite (step_bracket pe Hs).
  set (pb := set_st (set_ignoreST (set_params (set_inter (set_timer pe false) []) []) false) CsiEntry).
  assert (Hb : st pb = CsiEntry /\ inter pb = [] /\ params pb = []) by (repeat split).
  destruct Hb as [Hbs [Hbi Hbp]].
  (* private marker *)
  assert (Hq : exists pq, feed pb priv = (pq, [], true) /\ csi_open pq /\ inter pq = priv /\ params pq = []).
  { destruct Hpriv as [->|[m [-> Hm]]].
    - exists pb. cbn. split; [reflexivity|]. split; [now left|]. split; assumption.
    - cbn [feed]. rewrite (step_priv pb m Hbs Hm). eexists. split; [reflexivity|].
      split; [now right|]. split; reflexivity. }
  destruct Hq as [pq [Fq [Oq [Iq Pq]]]].
  rewrite feed_app, Fq.
  destruct (feed_params ps pq Oq Hps) as [pp [Fp [Pp [Ip [_ _]]]]].
  assert (Opp : csi_open pp).
  { destruct ps as [|r ps']; [cbn in Fp; injection Fp as <-; exact Oq|].
    destruct (feed_params (r :: ps') pq Oq Hps) as [pp' [Fp' [_ [_ [_ Hst]]]]].
    rewrite Fp in Fp'. injection Fp' as <-. right. apply Hst. discriminate. }
  rewrite feed_app, Fp.
  destruct (feed_inters is pp (or_introl Opp) His) as [pi [Fi [Ii [Pi Ai]]]].
  rewrite feed_app, Fi.
  cbn [feed]. rewrite (step_final pi f Ai Hf).
  eexists. split.
  { cbn. rewrite Ii, Ip, Iq, Pi, Pp, Pq. cbn [app]. rewrite ?app_nil_r. reflexivity. }
  reflexivity.
Qed.

(* printable text in ground: delivered rune for rune, nothing lost, duplicated or reordered *)
Definition printable (r : Z) : Prop := 32 <= r \/ r = 24 /\ False.
Lemma step_print p r : st p = Ground -> 32 <= r ->
  step p r = (set_st (set_timer p false) Ground, [IPrint [r]], true).
Proof. intros Hst Hr. eval_step Hst. reflexivity. Qed.

Lemma set_ground_ground p : st (set_st (set_timer p false) Ground) = Ground.
Proof. reflexivity. Qed.

Theorem text_conserved rs : forall p,
  st p = Ground -> Forall (fun r => 32 <= r) rs ->
  exists p', feed p rs = (p', map (fun r => IPrint [r]) rs, true) /\ (rs = [] \/ st p' = Ground).
Proof.
  induction rs as [|r rs IH]; intros p Hst Hr.
  - exists p. cbn. auto.
  - inversion Hr as [|? ? H1 H2]; subst. cbn [feed]. rewrite (step_print p r Hst H1).
    destruct (IH _ (set_ground_ground p) H2) as [p' [Hf Hs]]. exists p'. rewrite Hf. cbn. split; [reflexivity|].
    right. destruct Hs as [->|Hs]; [cbn in Hf; injection Hf as <-; reflexivity|exact Hs].
Qed.

(* the canonical form merges them into one run *)
Lemma canon_prints rs : rs <> [] -> canon (map (fun r => IPrint [r]) rs) = [IPrint rs].
Proof.
  induction rs as [|r rs IH]; [congruence|]. intros _. cbn [map canon].
  destruct rs as [|r2 rs2]; [reflexivity|]. rewrite IH by discriminate. reflexivity.
Qed.

(* ---------- OSC strings ---------- *)
Lemma step_osc_open p : st p = Escape ->
  step p 93 = (set_st (set_ignoreST (set_exit (set_timer p false) (Some ExOscEnd)) false) OscString, [], true).
Proof. intros Hst. eval_step Hst. reflexivity. Qed.

Lemma step_osc_put p r : st p = OscString -> 32 <= r ->
  step p r = (set_st (set_osc (set_ignoreST (set_timer p false) true) (oscData p ++ [r])) OscString, [], true).
Proof. intros Hst Hr. eval_step Hst. reflexivity. Qed.

Lemma step_osc_bel p : st p = OscString -> exitf p = Some ExOscEnd ->
  step p 7 = (set_st (set_ignoreST (set_exit (set_osc (set_ignoreST (set_timer p false) true) []) None) false) Ground,
              [IOsc (oscData p)], true).
Proof. intros Hst Hex. eval_step Hst. rewrite Hex. reflexivity. Qed.

Lemma feed_osc_payload pl : forall p,
  st p = OscString -> Forall (fun r => 32 <= r) pl ->
  exists p', feed p pl = (p', [], true) /\ st p' = OscString /\ oscData p' = oscData p ++ pl /\
             exitf p' = exitf p /\ (pl <> [] -> ignoreST p' = true).
Proof.
  induction pl as [|r pl IH]; intros p Hst Hr.
  - exists p. cbn. rewrite app_nil_r. repeat split; auto; congruence.
  - inversion Hr as [|? ? H1 H2]; subst. cbn [feed]. rewrite (step_osc_put p r Hst H1).
    set (p1 := set_st (set_osc (set_ignoreST (set_timer p false) true) (oscData p ++ [r])) OscString).
    destruct (IH p1 eq_refl H2) as [p' [Hf [Hs [Hd [He Hi]]]]].
    exists p'. rewrite Hf. cbn. split; [reflexivity|]. split; [exact Hs|].
    split; [rewrite Hd; unfold p1; cbn; now rewrite <- app_assoc|]. split; [rewrite He; reflexivity|].
    intros _. destruct pl as [|r2 pl2]; [cbn in Hf; injection Hf as <-; reflexivity|apply Hi; discriminate].
Qed.

Definition fresh_osc (p : pst) : Prop := oscData (fst (esc_post p)) = [].

Lemma fresh_osc_reachable p : exitf p = Some ExOscEnd \/ oscData p = [] -> fresh_osc p.
Proof.
  unfold fresh_osc, esc_post. intros [H|H].
  - rewrite H. reflexivity.
  - destruct (exitf p) as [[]|]; cbn; try assumption; reflexivity.
Qed.

(* OSC ... BEL from any state: exactly one OSC with exactly the payload, then ground with the
   ST-suppression flag clear *)
Theorem osc_bel_exact p pl :
  fresh_osc p -> Forall (fun r => 32 <= r) pl ->
  exists p', feed p ([27; 93] ++ pl ++ [7]) = (p', snd (esc_post p) ++ [IOsc pl], true) /\
             st p' = Ground /\ ignoreST p' = false.
Proof.
  intros Hfresh Hpl. cbn [app feed]. rewrite step_esc.
  destruct (esc_post_st p) as [Hs _]. set (pe := fst (esc_post p)) in *.
  rewrite (step_osc_open pe Hs).
  set (po := set_st (set_ignoreST (set_exit (set_timer pe false) (Some ExOscEnd)) false) OscString).
  destruct (feed_osc_payload pl po eq_refl Hpl) as [pp [Fp [Sp [Dp [Ep _]]]]].
  rewrite feed_app, Fp. cbn [feed]. rewrite (step_osc_bel pp Sp (eq_trans Ep eq_refl)).
  eexists. split.
  { cbn. rewrite Dp. unfold po; cbn. unfold fresh_osc in Hfresh. fold pe in Hfresh. rewrite Hfresh. reflexivity. }
  split; reflexivity.
Qed.

(* OSC ... ESC \ with a non-empty payload: exactly one OSC, and the ST is NOT delivered *)
Lemma step_st_suppressed p : st p = Escape -> ignoreST p = true ->
  step p 92 = (set_st (set_ignoreST (set_timer p false) false) Ground, [], true).
Proof. intros Hst Hi. eval_step Hst. rewrite Hi. reflexivity. Qed.

Lemma step_st_delivered p : st p = Escape -> ignoreST p = false ->
  step p 92 = (set_st (set_ignoreST (set_timer p false) false) Ground, [IEsc (inter p) 92], true).
Proof. intros Hst Hi. eval_step Hst. rewrite Hi. reflexivity. Qed.

Theorem osc_st_exact p pl :
  fresh_osc p -> Forall (fun r => 32 <= r) pl -> pl <> [] ->
  exists p', feed p ([27; 93] ++ pl ++ [27; 92]) = (p', snd (esc_post p) ++ [IOsc pl], true) /\
             st p' = Ground /\ ignoreST p' = false.
Proof.
  intros Hfresh Hpl Hne. cbn [app feed]. rewrite step_esc.
  destruct (esc_post_st p) as [Hs _]. set (pe := fst (esc_post p)) in *.
  rewrite (step_osc_open pe Hs).
  set (po := set_st (set_ignoreST (set_exit (set_timer pe false) (Some ExOscEnd)) false) OscString).
  destruct (feed_osc_payload pl po eq_refl Hpl) as [pp [Fp [Sp [Dp [Ep Ip]]]]].
  rewrite feed_app, Fp. cbn [feed]. rewrite step_esc.
  destruct (esc_post_st pp) as [Hs2 _].
  assert (Hig : ignoreST (fst (esc_post pp)) = true).
  { unfold esc_post. rewrite Ep. unfold po; cbn. apply Ip. exact Hne. }
  rewrite (step_st_suppressed _ Hs2 Hig).
  eexists. split.
  { cbn. unfold esc_post. rewrite Ep. unfold po; cbn. rewrite Dp. unfold po; cbn.
    unfold fresh_osc in Hfresh. fold pe in Hfresh. rewrite Hfresh. reflexivity. }
  split; reflexivity.
Qed.

