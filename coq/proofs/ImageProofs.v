(* Proofs about model/Image.v (property C20). *)
From Vx Require Import base.Prelude base.ListX model.Image.
From Coq Require Import ZifyBool.

Local Open Scope Z_scope.

(* ================================================================== rounding *)

Definition U : Z := 2 ^ 53.

Lemma U_val : U = 9007199254740992.
Proof. reflexivity. Qed.

Lemma pow2_pos (k : Z) : 0 <= k -> 0 < 2 ^ k.
Proof. intros Hk; apply Z.pow_pos_nonneg; lia. Qed.

Lemma scaleP_pos p e : 0 < p -> 0 < scaleP p e.
Proof. intros Hp; unfold scaleP; apply Z.mul_pos_pos; [lia | apply pow2_pos; lia]. Qed.

Lemma scaleQ_pos q e : 0 < q -> 0 < scaleQ q e.
Proof. intros Hq; unfold scaleQ; apply Z.mul_pos_pos; [lia | apply pow2_pos; lia]. Qed.

(* lowering the exponent by one doubles the scaled fraction *)
Lemma scale_step p q e : scaleP p (e - 1) * scaleQ q e = 2 * scaleP p e * scaleQ q (e - 1).
Proof.
  unfold scaleP, scaleQ.
  destruct (Z_le_gt_dec e 0) as [He | He].
  - replace (Z.max (- (e - 1)) 0) with (Z.succ (- e)) by lia.
    replace (Z.max (- e) 0) with (- e) by lia.
    replace (Z.max e 0) with 0 by lia. replace (Z.max (e - 1) 0) with 0 by lia.
    rewrite Z.pow_succ_r by lia. ring.
  - replace (Z.max (- (e - 1)) 0) with 0 by lia.
    replace (Z.max (- e) 0) with 0 by lia.
    replace (Z.max e 0) with (Z.succ (e - 1)) by lia. replace (Z.max (e - 1) 0) with (e - 1) by lia.
    rewrite Z.pow_succ_r by lia. ring.
Qed.

(* with e0 = log2 p - log2 q - 52 the scaled fraction lies in (2^51, 2^53) *)
Lemma scale_e0_bounds p q :
  0 < p -> 0 < q ->
  let e0 := Z.log2 p - Z.log2 q - 52 in
  2 ^ 51 * scaleQ q e0 < scaleP p e0 /\ scaleP p e0 < 2 ^ 53 * scaleQ q e0.
Proof.
  intros Hp Hq e0.
  pose proof (Z.log2_spec p Hp) as [Hp1 Hp2].
  pose proof (Z.log2_spec q Hq) as [Hq1 Hq2].
  pose proof (Z.log2_nonneg p) as Hlp. pose proof (Z.log2_nonneg q) as Hlq.
  set (lp := Z.log2 p) in *. set (lq := Z.log2 q) in *.
  unfold scaleP, scaleQ.
  destruct (Z_le_gt_dec 0 e0) as [He | He].
  - replace (Z.max (- e0) 0) with 0 by lia. replace (Z.max e0 0) with e0 by lia.
    rewrite Z.pow_0_r, Z.mul_1_r.
    assert (E1 : 2 ^ lp = 2 ^ 51 * (2 ^ Z.succ lq * 2 ^ e0)).
    { rewrite <- !Z.pow_add_r by lia. f_equal. unfold e0. lia. }
    assert (E2 : 2 ^ Z.succ lp = 2 ^ 53 * (2 ^ lq * 2 ^ e0)).
    { rewrite <- !Z.pow_add_r by lia. f_equal. unfold e0. lia. }
    pose proof (pow2_pos e0 He) as He0.
    split.
    + apply Z.lt_le_trans with (2 ^ lp); [|exact Hp1]. rewrite E1.
      apply Z.mul_lt_mono_pos_l; [reflexivity|]. apply Z.mul_lt_mono_pos_r; assumption.
    + apply Z.lt_le_trans with (2 ^ Z.succ lp); [exact Hp2|]. rewrite E2.
      apply Z.mul_le_mono_nonneg_l; [discriminate|]. apply Z.mul_le_mono_nonneg_r; lia.
  - replace (Z.max (- e0) 0) with (- e0) by lia. replace (Z.max e0 0) with 0 by lia.
    rewrite Z.pow_0_r, Z.mul_1_r.
    assert (E1 : 2 ^ lp * 2 ^ (- e0) = 2 ^ 51 * 2 ^ Z.succ lq).
    { rewrite <- !Z.pow_add_r by lia. f_equal. unfold e0. lia. }
    assert (E2 : 2 ^ Z.succ lp * 2 ^ (- e0) = 2 ^ 53 * 2 ^ lq).
    { rewrite <- !Z.pow_add_r by lia. f_equal. unfold e0. lia. }
    assert (He0 : 0 < 2 ^ (- e0)) by (apply pow2_pos; lia).
    split.
    + apply Z.lt_le_trans with (2 ^ 51 * 2 ^ Z.succ lq).
      * apply Z.mul_lt_mono_pos_l; [reflexivity | exact Hq2].
      * rewrite <- E1. apply Z.mul_le_mono_nonneg_r; lia.
    + apply Z.lt_le_trans with (2 ^ Z.succ lp * 2 ^ (- e0)).
      * apply Z.mul_lt_mono_pos_r; assumption.
      * rewrite E2. apply Z.mul_le_mono_nonneg_l; [discriminate | exact Hq1].
Qed.

(* the chosen exponent normalises: 2^52 <= (p/q)/2^e < 2^53 *)
Lemma rn_exp_normal p q :
  0 < p -> 0 < q ->
  2 ^ 52 * scaleQ q (rn_exp p q) <= scaleP p (rn_exp p q) /\
  scaleP p (rn_exp p q) < 2 ^ 53 * scaleQ q (rn_exp p q).
Proof.
  intros Hp Hq. unfold rn_exp.
  pose proof (scale_e0_bounds p q Hp Hq) as [B1 B2]. cbv zeta in B1, B2.
  set (e0 := Z.log2 p - Z.log2 q - 52) in *.
  destruct (scaleP p e0 <? 2 ^ 52 * scaleQ q e0) eqn:E.
  - apply Z.ltb_lt in E.
    pose proof (scale_step p q e0) as S.
    pose proof (scaleQ_pos q e0 Hq) as Q0. pose proof (scaleQ_pos q (e0 - 1) Hq) as Q1.
    pose proof (scaleP_pos p e0 Hp) as P0. pose proof (scaleP_pos p (e0 - 1) Hp) as P1.
    set (a := scaleP p e0) in *. set (b := scaleQ q e0) in *.
    set (a1 := scaleP p (e0 - 1)) in *. set (b1 := scaleQ q (e0 - 1)) in *.
    change (2 ^ 51) with 2251799813685248 in *. change (2 ^ 52) with 4503599627370496 in *.
    change (2 ^ 53) with 9007199254740992 in *.
    split.
    + apply Z.mul_le_mono_pos_r with (p := b); [exact Q0|]. rewrite S. nia.
    + apply Z.mul_lt_mono_pos_r with (p := b); [exact Q0|]. rewrite S. nia.
  - apply Z.ltb_ge in E. split; [exact E | exact B2].
Qed.

(* nearest integer: |m - P/Q| <= 1/2 *)
Lemma round_half_even_spec P Q :
  0 <= P -> 0 < Q ->
  let m := round_half_even P Q in
  0 <= m /\ - Q <= 2 * (m * Q - P) <= Q.
Proof.
  intros HP HQ. unfold round_half_even.
  pose proof (Z.div_mod P Q ltac:(lia)) as D.
  pose proof (Z.mod_pos_bound P Q HQ) as M.
  pose proof (Z.div_pos P Q HP HQ) as Dp.
  set (m := P / Q) in *. set (r := P mod Q) in *.
  destruct (2 * r <? Q) eqn:E1; [apply Z.ltb_lt in E1; cbv zeta; nia|].
  apply Z.ltb_ge in E1.
  destruct (Q <? 2 * r) eqn:E2; [apply Z.ltb_lt in E2; cbv zeta; nia|].
  apply Z.ltb_ge in E2.
  destruct (Z.even m); cbv zeta; nia.
Qed.

(* the value of rn p q is within a factor 1 +- 2^-53 of p/q *)
Lemma rn_rel p q :
  0 < p -> 0 < q ->
  let n := fst (rn p q) in let d := snd (rn p q) in
  0 < d /\ 0 <= n /\ - (p * d) <= U * (n * q - p * d) <= p * d.
Proof.
  intros Hp Hq. unfold rn.
  destruct (p =? 0) eqn:E0; [apply Z.eqb_eq in E0; lia|].
  pose proof (rn_exp_normal p q Hp Hq) as [N1 _].
  set (e := rn_exp p q) in *.
  pose proof (scaleP_pos p e Hp) as PP. pose proof (scaleQ_pos q e Hq) as QQ.
  pose proof (round_half_even_spec (scaleP p e) (scaleQ q e) ltac:(lia) QQ) as [Hm R].
  cbv zeta in Hm, R.
  set (m := round_half_even (scaleP p e) (scaleQ q e)) in *.
  cbn [fst snd].
  assert (Ha : 0 < 2 ^ Z.max e 0) by (apply pow2_pos; lia).
  assert (Hb : 0 < 2 ^ Z.max (- e) 0) by (apply pow2_pos; lia).
  unfold scaleP, scaleQ in *.
  set (A := 2 ^ Z.max e 0) in *. set (B := 2 ^ Z.max (- e) 0) in *.
  split; [exact Hb|]. split; [nia|].
  replace (m * A * q - p * B) with (m * (q * A) - p * B) by ring.
  unfold U. change (2 ^ 53) with 9007199254740992. change (2 ^ 52) with 4503599627370496 in N1.
  lia.
Qed.

(* the same with a common factor J on both sides of the fraction *)
Lemma rn_rel_scaled p q J :
  0 < p -> 0 < q -> 0 < J ->
  let n := fst (rn (p * J) (q * J)) in let d := snd (rn (p * J) (q * J)) in
  0 < d /\ 0 <= n /\ - (p * d) <= U * (n * q - p * d) <= p * d.
Proof.
  intros Hp Hq HJ.
  pose proof (rn_rel (p * J) (q * J) ltac:(nia) ltac:(nia)) as [Hd [Hn R]].
  cbv zeta in *.
  set (n := fst (rn (p * J) (q * J))) in *. set (d := snd (rn (p * J) (q * J))) in *.
  split; [exact Hd|]. split; [exact Hn|].
  replace (U * (n * (q * J) - p * J * d)) with (U * (n * q - p * d) * J) in R by ring.
  replace (p * J * d) with (p * d * J) in R by ring.
  replace (- (p * d * J)) with (- (p * d) * J) in R by ring.
  split; apply Z.mul_le_mono_pos_r with (p := J); lia.
Qed.

(* small integers convert exactly *)
Lemma f_of_int_exact k :
  0 < k < U ->
  0 < snd (f_of_int k) /\ fst (f_of_int k) = k * snd (f_of_int k).
Proof.
  intros Hk. unfold f_of_int, rn.
  destruct (k =? 0) eqn:E0; [apply Z.eqb_eq in E0; lia|].
  pose proof (rn_exp_normal k 1 ltac:(lia) ltac:(lia)) as [N1 _].
  set (e := rn_exp k 1) in *.
  assert (He : e <= 0).
  { destruct (Z_le_gt_dec e 0) as [|G]; [assumption|]. exfalso.
    unfold scaleP, scaleQ in N1.
    replace (Z.max (- e) 0) with 0 in N1 by lia. replace (Z.max e 0) with (Z.succ (e - 1)) in N1 by lia.
    rewrite Z.pow_succ_r in N1 by lia.
    assert (0 < 2 ^ (e - 1)) by (apply pow2_pos; lia).
    unfold U in Hk. change (2 ^ 53) with 9007199254740992 in Hk. change (2 ^ 52) with 4503599627370496 in N1.
    rewrite Z.pow_0_r in N1. nia. }
  unfold scaleP, scaleQ.
  replace (Z.max e 0) with 0 by lia. rewrite Z.pow_0_r, !Z.mul_1_r.
  cbn [fst snd].
  assert (Hb : 0 < 2 ^ Z.max (- e) 0) by (apply pow2_pos; lia).
  split; [exact Hb|].
  unfold round_half_even. rewrite Z.div_1_r, Z.mod_1_r.
  destruct (2 * 0 <? 1) eqn:E; [reflexivity|]. apply Z.ltb_ge in E. lia.
Qed.

(* ------------------------------------------------------------------ the two float steps *)

(* sf = float64(a) / float64(c):  (1 - u) a/c <= sf <= (1 + u) a/c *)
Lemma scale_factor_rel a c :
  0 < a < U -> 0 < c < U ->
  let sf := f_div (f_of_int a) (f_of_int c) in
  0 < snd sf /\ 0 <= fst sf /\
  fst sf * c * U <= (U + 1) * a * snd sf /\ (U - 1) * a * snd sf <= fst sf * c * U.
Proof.
  intros Ha Hc.
  pose proof (f_of_int_exact a Ha) as [Da Ea]. pose proof (f_of_int_exact c Hc) as [Dc Ec].
  cbv zeta. unfold f_div. rewrite Ea, Ec.
  set (da := snd (f_of_int a)) in *. set (dc := snd (f_of_int c)) in *.
  replace (a * da * dc) with (a * (da * dc)) by ring.
  replace (da * (c * dc)) with (c * (da * dc)) by ring.
  pose proof (rn_rel_scaled a c (da * dc) ltac:(lia) ltac:(lia) ltac:(nia)) as [Hd [Hn R]].
  cbv zeta in *.
  set (n := fst (rn (a * (da * dc)) (c * (da * dc)))) in *.
  set (d := snd (rn (a * (da * dc)) (c * (da * dc)))) in *.
  split; [exact Hd|]. split; [exact Hn|]. split; lia.
Qed.

(* x = sf * float64(v):  (1 - u) sf v <= x <= (1 + u) sf v  (for sf > 0) *)
Lemma product_rel (sf : fl) v :
  0 < fst sf -> 0 < snd sf -> 0 < v < U ->
  let x := f_mul sf (f_of_int v) in
  0 < snd x /\ 0 <= fst x /\
  fst x * snd sf * U <= (U + 1) * (fst sf * v) * snd x /\
  (U - 1) * (fst sf * v) * snd x <= fst x * snd sf * U.
Proof.
  intros Hn Hd Hv.
  pose proof (f_of_int_exact v Hv) as [Dv Ev].
  cbv zeta. unfold f_mul. rewrite Ev.
  set (dv := snd (f_of_int v)) in *.
  replace (fst sf * (v * dv)) with ((fst sf * v) * dv) by ring.
  pose proof (rn_rel_scaled (fst sf * v) (snd sf) dv ltac:(nia) Hd Dv) as [Hd' [Hn' R]].
  cbv zeta in *.
  set (n' := fst (rn (fst sf * v * dv) (snd sf * dv))) in *.
  set (d' := snd (rn (fst sf * v * dv) (snd sf * dv))) in *.
  split; [exact Hd'|]. split; [exact Hn'|]. split; lia.
Qed.

(* a zero scale factor (an empty box) gives zero *)
Lemma product_zero (sf : fl) v : fst sf = 0 -> f_trunc (f_mul sf (f_of_int v)) = 0.
Proof. intros H. unfold f_mul, f_trunc. rewrite H. reflexivity. Qed.

(* ================================================================== arithmetic of resizeImage *)

Lemma U_pos : 0 < U.
Proof. reflexivity. Qed.

(* t <= x, x <= (1+u) sf v, sf <= (1+u) w/c   ==>   t c <= (1+u)^2 w v *)
Lemma chain_up t n d n' d' c v w :
  0 < c -> 0 < d -> 0 < d' -> 0 <= n -> 0 <= v ->
  t * d' <= n' ->
  n' * d * U <= (U + 1) * (n * v) * d' ->
  n * c * U <= (U + 1) * w * d ->
  t * c * (U * U) <= (U + 1) * (U + 1) * (w * v).
Proof.
  intros Hc Hd Hd' Hn Hv H1 H2 H3. pose proof U_pos as HU.
  assert (S1 : t * d * U <= (U + 1) * (n * v)).
  { apply Z.mul_le_mono_pos_r with (p := d'); [exact Hd'|].
    apply Z.le_trans with (n' * d * U); [|lia].
    replace (t * d * U * d') with (t * d' * (d * U)) by ring.
    replace (n' * d * U) with (n' * (d * U)) by ring.
    apply Z.mul_le_mono_nonneg_r; [nia | exact H1]. }
  apply Z.mul_le_mono_pos_r with (p := d); [exact Hd|].
  apply Z.le_trans with ((U + 1) * (n * v) * (c * U)).
  - replace (t * c * (U * U) * d) with (t * d * U * (c * U)) by ring.
    apply Z.mul_le_mono_nonneg_r; [nia | exact S1].
  - replace ((U + 1) * (n * v) * (c * U)) with ((U + 1) * v * (n * c * U)) by ring.
    replace ((U + 1) * (U + 1) * (w * v) * d) with ((U + 1) * v * ((U + 1) * w * d)) by ring.
    apply Z.mul_le_mono_nonneg_l; [nia | exact H3].
Qed.

(* x < t+1, (1-u) sf v <= x, (1-u) w/c <= sf   ==>   (1-u)^2 w v < (t+1) c *)
Lemma chain_lo t n d n' d' c v w :
  0 < c -> 0 < d -> 0 < d' -> 0 <= n -> 0 <= v ->
  n' < (t + 1) * d' ->
  (U - 1) * (n * v) * d' <= n' * d * U ->
  (U - 1) * w * d <= n * c * U ->
  (U - 1) * (U - 1) * (w * v) < (t + 1) * c * (U * U).
Proof.
  intros Hc Hd Hd' Hn Hv H1 H2 H3. pose proof U_pos as HU.
  assert (HU1 : 0 <= U - 1) by (unfold U; cbn; lia).
  assert (S1 : (U - 1) * (n * v) < (t + 1) * d * U).
  { apply Z.mul_lt_mono_pos_r with (p := d'); [exact Hd'|].
    apply Z.le_lt_trans with (n' * d * U); [exact H2|].
    replace ((t + 1) * d * U * d') with ((t + 1) * d' * (d * U)) by ring.
    replace (n' * d * U) with (n' * (d * U)) by ring.
    apply Z.mul_lt_mono_pos_r; [nia | exact H1]. }
  apply Z.mul_lt_mono_pos_r with (p := d); [exact Hd|].
  apply Z.le_lt_trans with ((U - 1) * (n * v) * (c * U)).
  - replace ((U - 1) * (U - 1) * (w * v) * d) with ((U - 1) * v * ((U - 1) * w * d)) by ring.
    replace ((U - 1) * (n * v) * (c * U)) with ((U - 1) * v * (n * c * U)) by ring.
    apply Z.mul_le_mono_nonneg_l; [nia | exact H3].
  - replace ((t + 1) * c * (U * U) * d) with ((t + 1) * d * U * (c * U)) by ring.
    apply Z.mul_lt_mono_pos_r; [nia | exact S1].
Qed.

(* ------------------------------------------------------------------ ceil_div *)

Lemma ceil_div_spec a b :
  0 <= a -> 0 < b -> a <= ceil_div a b * b < a + b /\ 0 <= ceil_div a b.
Proof.
  intros Ha Hb. unfold ceil_div.
  pose proof (Z.div_mod a b ltac:(lia)) as D. pose proof (Z.mod_pos_bound a b Hb) as M.
  pose proof (Z.div_pos a b Ha Hb) as P.
  destruct (a mod b =? 0) eqn:E; nia.
Qed.

Lemma ceil_div_le a b k : 0 <= a -> 0 < b -> a <= k * b -> ceil_div a b <= k.
Proof. intros Ha Hb H. pose proof (ceil_div_spec a b Ha Hb) as [S _]. nia. Qed.

Lemma ceil_div_pos a b : 0 < a -> 0 < b -> 0 < ceil_div a b.
Proof. intros Ha Hb. pose proof (ceil_div_spec a b ltac:(lia) Hb) as [S _]. nia. Qed.

Lemma ceil_div_mono a a' b : 0 <= a <= a' -> 0 < b -> ceil_div a b <= ceil_div a' b.
Proof.
  intros Ha Hb. apply ceil_div_le; [lia | lia |].
  pose proof (ceil_div_spec a' b ltac:(lia) Hb) as [S _]. lia.
Qed.

Lemma ceil_div_bound a b : 0 < a -> 0 < b -> ceil_div a b <= a.
Proof. intros Ha Hb. apply ceil_div_le; nia. Qed.

(* ------------------------------------------------------------------ truncated products *)

Definition fle (a b : fl) : Prop := fst a * snd b <= fst b * snd a.

Lemma f_leb_fle a b : f_leb a b = true <-> fle a b.
Proof. unfold f_leb, fle. apply Z.leb_le. Qed.

Lemma f_trunc_spec (x : fl) :
  0 < snd x -> f_trunc x * snd x <= fst x < (f_trunc x + 1) * snd x.
Proof.
  intros Hd. unfold f_trunc.
  pose proof (Z.div_mod (fst x) (snd x) ltac:(lia)) as D. pose proof (Z.mod_pos_bound (fst x) (snd x) Hd) as M.
  nia.
Qed.

Lemma f_trunc_nonneg (x : fl) : 0 <= fst x -> 0 < snd x -> 0 <= f_trunc x.
Proof. intros. unfold f_trunc. apply Z.div_pos; assumption. Qed.

(* upper side: the truncated product is at most (1+u)^2 times the exact one;
   sf may be any float not above g, where g <= (1+u) a/c *)
Lemma trunc_up (sf g : fl) a c v :
  0 <= fst sf -> 0 < snd sf -> 0 < snd g -> fle sf g ->
  0 < c -> 0 < v < U ->
  fst g * c * U <= (U + 1) * a * snd g ->
  f_trunc (f_mul sf (f_of_int v)) * c * (U * U) <= (U + 1) * (U + 1) * (a * v).
Proof.
  intros Hn Hd Hd2 Hle Hc Hv Hg.
  destruct (Z.eq_dec (fst sf) 0) as [Z0 | NZ].
  - rewrite product_zero by exact Z0. pose proof U_pos.
    assert (0 <= fst g) by (unfold fle in Hle; rewrite Z0 in Hle; nia).
    assert (0 <= a) by nia. nia.
  - pose proof (product_rel sf v ltac:(lia) Hd Hv) as [Hd' [Hn' [R1 _]]]. cbv zeta in *.
    set (x := f_mul sf (f_of_int v)) in *.
    pose proof (f_trunc_spec x Hd') as [T1 _].
    unfold fle in Hle. pose proof U_pos as HU.
    assert (0 <= fst g) by nia.
    apply chain_up with (n := fst g) (d := snd g) (n' := fst x) (d' := snd x); try lia; try exact T1.
    apply Z.mul_le_mono_pos_r with (p := snd sf); [exact Hd|].
    apply Z.le_trans with ((U + 1) * (fst sf * v) * snd x * snd g).
    + replace (fst x * snd g * U * snd sf) with (fst x * snd sf * U * snd g) by ring.
      apply Z.mul_le_mono_nonneg_r; [lia | exact R1].
    + replace ((U + 1) * (fst sf * v) * snd x * snd g) with ((U + 1) * v * snd x * (fst sf * snd g)) by ring.
      replace ((U + 1) * (fst g * v) * snd x * snd sf) with ((U + 1) * v * snd x * (fst g * snd sf)) by ring.
      apply Z.mul_le_mono_nonneg_l; [nia | exact Hle].
Qed.

(* lower side, for the scale factor itself *)
Lemma trunc_lo (sf : fl) a c v :
  0 < fst sf -> 0 < snd sf ->
  0 < c -> 0 < v < U ->
  (U - 1) * a * snd sf <= fst sf * c * U ->
  (U - 1) * (U - 1) * (a * v) < (f_trunc (f_mul sf (f_of_int v)) + 1) * c * (U * U).
Proof.
  intros Hn Hd Hc Hv Hg.
  pose proof (product_rel sf v Hn Hd Hv) as [Hd' [Hn' [_ R2]]]. cbv zeta in *.
  set (x := f_mul sf (f_of_int v)) in *.
  pose proof (f_trunc_spec x Hd') as [_ T2].
  apply chain_lo with (n := fst sf) (d := snd sf) (n' := fst x) (d' := snd x); try lia.
Qed.


(* f >= (1-u) a/c,  g <= (1+u) b/l,  f <= g   ==>   (1-u) a l <= (1+u) b c *)
Lemma gap (f g : fl) a c b l :
  0 < snd f -> 0 < snd g -> 0 < c -> 0 < l -> 0 <= fst g ->
  (U - 1) * a * snd f <= fst f * c * U ->
  fst g * l * U <= (U + 1) * b * snd g ->
  fle f g ->
  (U - 1) * (a * l) <= (U + 1) * (b * c).
Proof.
  intros Hdf Hdg Hc Hl Hng H1 H2 H3. unfold fle in H3. pose proof U_pos as HU.
  apply Z.mul_le_mono_pos_r with (p := snd f * snd g); [nia|].
  apply Z.le_trans with (fst f * c * U * (snd g * l)).
  - replace ((U - 1) * (a * l) * (snd f * snd g)) with ((U - 1) * a * snd f * (snd g * l)) by ring.
    apply Z.mul_le_mono_nonneg_r; [nia | exact H1].
  - apply Z.le_trans with (fst g * snd f * (c * U * l)).
    + replace (fst f * c * U * (snd g * l)) with (fst f * snd g * (c * U * l)) by ring.
      apply Z.mul_le_mono_nonneg_r; [nia | exact H3].
    + replace (fst g * snd f * (c * U * l)) with (fst g * l * U * (snd f * c)) by ring.
      replace ((U + 1) * (b * c) * (snd f * snd g)) with ((U + 1) * b * snd g * (snd f * c)) by ring.
      apply Z.mul_le_mono_nonneg_r; [nia | exact H2].
Qed.

Lemma fle_refl (a : fl) : fle a a.
Proof. unfold fle; lia. Qed.

(* from the two-sided error bounds to "within one pixel below the exact scaling" *)
Lemma within_one_from_bounds a c v t :
  0 < c -> 0 <= a -> 0 <= v -> a * v < 2 ^ 48 ->
  t * c * (U * U) <= (U + 1) * (U + 1) * (a * v) ->
  (U - 1) * (U - 1) * (a * v) < (t + 1) * c * (U * U) ->
  scaled_within_one a c v t = true.
Proof.
  intros Hc Ha Hv B H1 H2. unfold scaled_within_one.
  assert (0 <= a * v) by nia.
  set (N := a * v) in *. set (M := t * c) in *.
  replace ((t + 1) * c) with (M + c) in * by (unfold M; ring).
  change (2 ^ 48) with 281474976710656 in B.
  unfold U in *. change (2 ^ 53) with 9007199254740992 in *.
  apply andb_true_intro; split; apply Z.leb_le; lia.
Qed.

(* ------------------------------------------------------------------ the branches of resizeImage *)

Definition dom (x : Z) : Prop := 0 < x < 2 ^ 24.

Lemma dom_U x : dom x -> 0 < x < U.
Proof. unfold dom, U. change (2 ^ 24) with 16777216. change (2 ^ 53) with 9007199254740992. lia. Qed.

Section Resize.
  Variables wPix hPix w h cw ch : Z.
  Hypothesis DwPix : dom wPix.
  Hypothesis DhPix : dom hPix.
  Hypothesis Dw : dom w.
  Hypothesis Dh : dom h.
  Hypothesis Dcw : dom cw.
  Hypothesis Dch : dom ch.

  Let columns := ceil_div wPix cw.
  Let lines := ceil_div hPix ch.
  Let sfX := f_div (f_of_int w) (f_of_int columns).
  Let sfY := f_div (f_of_int h) (f_of_int lines).
  Let sf := if f_leb sfX sfY then sfX else sfY.

  Lemma columns_dom : dom columns /\ wPix <= columns * cw /\ (columns - 1) * cw < wPix.
  Proof.
    unfold dom in *.
    assert (S1 : wPix <= columns * cw < wPix + cw) by (apply ceil_div_spec; lia).
    assert (S2 : 0 < columns) by (apply ceil_div_pos; lia).
    assert (S3 : columns <= wPix) by (apply ceil_div_bound; lia).
    repeat split; nia.
  Qed.

  Lemma lines_dom : dom lines /\ hPix <= lines * ch /\ (lines - 1) * ch < hPix.
  Proof.
    unfold dom in *.
    assert (S1 : hPix <= lines * ch < hPix + ch) by (apply ceil_div_spec; lia).
    assert (S2 : 0 < lines) by (apply ceil_div_pos; lia).
    assert (S3 : lines <= hPix) by (apply ceil_div_bound; lia).
    repeat split; nia.
  Qed.

  Lemma resize_dims_eq :
    resize_dims wPix hPix w h cw ch =
    if (columns <=? w) && (lines <=? h) then RDims wPix hPix
    else RDims (f_trunc (f_mul sf (f_of_int wPix))) (f_trunc (f_mul sf (f_of_int hPix))).
  Proof.
    unfold resize_dims, dom in *.
    replace ((cw =? 0) || (ch =? 0)) with false by lia.
    replace ((wPix <=? 0) || (hPix <=? 0) || (w <? 0) || (h <? 0) || (cw <? 0) || (ch <? 0)) with false by lia.
    reflexivity.
  Qed.

  Lemma sfX_rel :
    0 < snd sfX /\ 0 <= fst sfX /\
    fst sfX * columns * U <= (U + 1) * w * snd sfX /\ (U - 1) * w * snd sfX <= fst sfX * columns * U.
  Proof. apply scale_factor_rel; apply dom_U; [exact Dw | apply columns_dom]. Qed.

  Lemma sfY_rel :
    0 < snd sfY /\ 0 <= fst sfY /\
    fst sfY * lines * U <= (U + 1) * h * snd sfY /\ (U - 1) * h * snd sfY <= fst sfY * lines * U.
  Proof. apply scale_factor_rel; apply dom_U; [exact Dh | apply lines_dom]. Qed.

  Lemma sf_min : 0 < snd sf /\ 0 <= fst sf /\ fle sf sfX /\ fle sf sfY.
  Proof.
    pose proof sfX_rel as [X1 [X2 _]]. pose proof sfY_rel as [Y1 [Y2 _]].
    unfold sf. destruct (f_leb sfX sfY) eqn:E.
    - apply f_leb_fle in E. repeat split; try assumption. unfold fle; lia.
    - assert (~ fle sfX sfY) by (intros F; apply f_leb_fle in F; congruence).
      unfold fle in *. repeat split; try assumption; lia.
  Qed.

  (* a positive scale factor is positive as a float *)
  Lemma sf_pos : 0 < fst sf.
  Proof.
    pose proof sfX_rel as [X1 [X2 [_ X4]]]. pose proof sfY_rel as [Y1 [Y2 [_ Y4]]].
    pose proof columns_dom as [[C1 _] _]. pose proof lines_dom as [[L1 _] _].
    pose proof (dom_U _ Dw). pose proof (dom_U _ Dh). pose proof U_pos.
    assert (0 < fst sfX) by (unfold U in *; change (2 ^ 53) with 9007199254740992 in *; nia).
    assert (0 < fst sfY) by (unfold U in *; change (2 ^ 53) with 9007199254740992 in *; nia).
    unfold sf. destruct (f_leb sfX sfY); assumption.
  Qed.

  (* ---------------- fits the box *)

  Lemma width_fits : f_trunc (f_mul sf (f_of_int wPix)) <= w * cw.
  Proof.
    pose proof sf_min as [S1 [S2 [S3 _]]]. pose proof sfX_rel as [X1 [X2 [X3 _]]].
    pose proof columns_dom as [[C1 C2] [C3 _]].
    pose proof (trunc_up sf sfX w columns wPix S2 S1 X1 S3 C1 (dom_U _ DwPix) X3) as T.
    set (t := f_trunc (f_mul sf (f_of_int wPix))) in *.
    unfold dom in *. change (2 ^ 24) with 16777216 in *.
    assert (B : t * columns * (U * U) <= (U + 1) * (U + 1) * (w * cw) * columns) by (unfold U in *; nia).
    assert (B2 : t * (U * U) <= (U + 1) * (U + 1) * (w * cw)).
    { apply Z.mul_le_mono_pos_r with (p := columns); [lia|]. lia. }
    assert (N : 0 < w * cw < 2 ^ 48) by (change (2 ^ 48) with (16777216 * 16777216); nia).
    change (2 ^ 48) with 281474976710656 in N.
    unfold U in B2. change (2 ^ 53) with 9007199254740992 in B2. lia.
  Qed.

  Lemma height_fits : f_trunc (f_mul sf (f_of_int hPix)) <= h * ch.
  Proof.
    pose proof sf_min as [S1 [S2 [_ S3]]]. pose proof sfY_rel as [X1 [X2 [X3 _]]].
    pose proof lines_dom as [[C1 C2] [C3 _]].
    pose proof (trunc_up sf sfY h lines hPix S2 S1 X1 S3 C1 (dom_U _ DhPix) X3) as T.
    set (t := f_trunc (f_mul sf (f_of_int hPix))) in *.
    unfold dom in *. change (2 ^ 24) with 16777216 in *.
    assert (B : t * lines * (U * U) <= (U + 1) * (U + 1) * (h * ch) * lines) by (unfold U in *; nia).
    assert (B2 : t * (U * U) <= (U + 1) * (U + 1) * (h * ch)).
    { apply Z.mul_le_mono_pos_r with (p := lines); [lia|]. lia. }
    assert (N : 0 < h * ch < 2 ^ 48) by (change (2 ^ 48) with (16777216 * 16777216); nia).
    change (2 ^ 48) with 281474976710656 in N.
    unfold U in B2. change (2 ^ 53) with 9007199254740992 in B2. lia.
  Qed.

  Lemma trunc_nonneg v : 0 < v < U -> 0 <= f_trunc (f_mul sf (f_of_int v)).
  Proof.
    intros Hv. pose proof sf_min as [S1 _]. pose proof sf_pos as S2.
    pose proof (product_rel sf v S2 S1 Hv) as [Hd [Hn _]].
    apply f_trunc_nonneg; assumption.
  Qed.

  Lemma fits_box_s :
    exists nw nh, resize_dims wPix hPix w h cw ch = RDims nw nh /\
                  0 <= nw /\ 0 <= nh /\ ceil_div nw cw <= w /\ ceil_div nh ch <= h.
  Proof.
    rewrite resize_dims_eq.
    destruct ((columns <=? w) && (lines <=? h)) eqn:E.
    - exists wPix, hPix. unfold dom in *. split; [reflexivity|].
      apply andb_prop in E. destruct E as [E1 E2]. apply Z.leb_le in E1, E2.
      repeat split; try lia; assumption.
    - eexists; eexists; split; [reflexivity|].
      pose proof (trunc_nonneg wPix (dom_U _ DwPix)). pose proof (trunc_nonneg hPix (dom_U _ DhPix)).
      unfold dom in *.
      repeat split; try assumption.
      + apply ceil_div_le; [assumption | lia | apply width_fits].
      + apply ceil_div_le; [assumption | lia | apply height_fits].
  Qed.

  (* ---------------- never upscales *)

  Lemma sf_le_one : (columns <=? w) && (lines <=? h) = false -> fst sf <= snd sf.
  Proof.
    intros E. pose proof sf_min as [S1 [S2 [SX SY]]].
    pose proof sfX_rel as [X1 [X2 [X3 _]]]. pose proof sfY_rel as [Y1 [Y2 [Y3 _]]].
    pose proof columns_dom as [[C1 C2] _]. pose proof lines_dom as [[L1 L2] _].
    pose proof (dom_U _ Dw) as Uw. pose proof (dom_U _ Dh) as Uh.
    unfold fle in SX, SY. change (2 ^ 24) with 16777216 in *.
    apply andb_false_iff in E. destruct E as [E | E]; apply Z.leb_gt in E.
    - assert (K : fst sfX <= snd sfX).
      { destruct (Z_le_gt_dec (fst sfX) (snd sfX)) as [|G]; [assumption|exfalso].
        unfold U in *. change (2 ^ 53) with 9007199254740992 in *.
        assert (columns * snd sfX <= 16777216 * snd sfX) by nia. nia. }
      apply Z.mul_le_mono_pos_r with (p := snd sfX); [exact X1|]. nia.
    - assert (K : fst sfY <= snd sfY).
      { destruct (Z_le_gt_dec (fst sfY) (snd sfY)) as [|G]; [assumption|exfalso].
        unfold U in *. change (2 ^ 53) with 9007199254740992 in *.
        assert (lines * snd sfY <= 16777216 * snd sfY) by nia. nia. }
      apply Z.mul_le_mono_pos_r with (p := snd sfY); [exact Y1|]. nia.
  Qed.

  Lemma shrink v : dom v -> fst sf <= snd sf -> f_trunc (f_mul sf (f_of_int v)) <= v.
  Proof.
    intros Dv Hle. pose proof sf_min as [S1 [S2 _]].
    pose proof (trunc_up sf (1, 1) 1 1 v S2 S1 ltac:(cbn [snd]; lia) ltac:(unfold fle; cbn [fst snd]; lia) ltac:(lia)
                  (dom_U _ Dv) ltac:(cbn [fst snd]; lia)) as T.
    set (t := f_trunc (f_mul sf (f_of_int v))) in *.
    unfold dom in Dv. change (2 ^ 24) with 16777216 in Dv.
    unfold U in T. change (2 ^ 53) with 9007199254740992 in T. lia.
  Qed.

  Lemma never_upscales_s :
    forall nw nh, resize_dims wPix hPix w h cw ch = RDims nw nh -> nw <= wPix /\ nh <= hPix.
  Proof.
    intros nw nh. rewrite resize_dims_eq.
    destruct ((columns <=? w) && (lines <=? h)) eqn:E; intros H; injection H as H1 H2; rewrite <- H1, <- H2; clear H1 H2.
    - lia.
    - pose proof (sf_le_one E). split; apply shrink; assumption.
  Qed.

  (* ---------------- aspect *)

  Lemma prod48 a b : dom a -> dom b -> a * b < 2 ^ 48.
  Proof. unfold dom. change (2 ^ 24) with 16777216. change (2 ^ 48) with (16777216 * 16777216). nia. Qed.

  (* the branch taken on the rounded factors is the branch of the exact comparison *)
  Lemma branch_X : f_leb sfX sfY = true -> w * lines <= h * columns.
  Proof.
    intros E. apply f_leb_fle in E.
    pose proof sfX_rel as [X1 [X2 [_ X4]]]. pose proof sfY_rel as [Y1 [Y2 [Y3 _]]].
    pose proof columns_dom as [C _]. pose proof lines_dom as [L _].
    pose proof (gap sfX sfY w columns h lines X1 Y1 ltac:(unfold dom in C; lia) ltac:(unfold dom in L; lia) Y2 X4 Y3 E) as G.
    pose proof (prod48 h columns Dh C) as B. unfold dom in *.
    change (2 ^ 48) with 281474976710656 in B.
    set (A := w * lines) in *. set (B' := h * columns) in *.
    unfold U in G. change (2 ^ 53) with 9007199254740992 in G. lia.
  Qed.

  Lemma branch_Y : f_leb sfX sfY = false -> h * columns <= w * lines.
  Proof.
    intros E. assert (F : fle sfY sfX).
    { unfold fle. assert (~ fle sfX sfY) by (intros F; apply f_leb_fle in F; congruence). unfold fle in *. lia. }
    pose proof sfX_rel as [X1 [X2 [X3 _]]]. pose proof sfY_rel as [Y1 [Y2 [_ Y4]]].
    pose proof columns_dom as [C _]. pose proof lines_dom as [L _].
    pose proof (gap sfY sfX h lines w columns Y1 X1 ltac:(unfold dom in L; lia) ltac:(unfold dom in C; lia) X2 Y4 X3 F) as G.
    pose proof (prod48 w lines Dw L) as B. unfold dom in *.
    change (2 ^ 48) with 281474976710656 in B.
    set (A := w * lines) in *. set (B' := h * columns) in *.
    unfold U in G. change (2 ^ 53) with 9007199254740992 in G. lia.
  Qed.

  Lemma within_X v : dom v -> f_leb sfX sfY = true ->
    scaled_within_one w columns v (f_trunc (f_mul sf (f_of_int v))) = true.
  Proof.
    intros Dv E. pose proof sf_pos as P. unfold sf in *. rewrite E in *.
    pose proof sfX_rel as [X1 [X2 [X3 X4]]]. pose proof columns_dom as [C _].
    apply within_one_from_bounds; try (unfold dom in *; lia).
    - apply prod48; assumption.
    - apply trunc_up with (g := sfX); try assumption; try (unfold dom in *; lia).
      + apply fle_refl.
      + apply dom_U; assumption.
    - apply trunc_lo; try assumption; try (unfold dom in *; lia). apply dom_U; assumption.
  Qed.

  Lemma within_Y v : dom v -> f_leb sfX sfY = false ->
    scaled_within_one h lines v (f_trunc (f_mul sf (f_of_int v))) = true.
  Proof.
    intros Dv E. pose proof sf_pos as P. unfold sf in *. rewrite E in *.
    pose proof sfY_rel as [X1 [X2 [X3 X4]]]. pose proof lines_dom as [C _].
    apply within_one_from_bounds; try (unfold dom in *; lia).
    - apply prod48; assumption.
    - apply trunc_up with (g := sfY); try assumption; try (unfold dom in *; lia).
      + apply fle_refl.
      + apply dom_U; assumption.
    - apply trunc_lo; try assumption; try (unfold dom in *; lia). apply dom_U; assumption.
  Qed.

  (* equal exact factors: being within one of one scaling is being within one of the other *)
  Lemma within_transfer a c b l v t :
    0 < c -> 0 < l -> a * l = b * c ->
    scaled_within_one b l v t = true -> scaled_within_one a c v t = true.
  Proof.
    intros Hc Hl E H. unfold scaled_within_one in *.
    apply andb_prop in H. destruct H as [H1 H2]. apply Z.leb_le in H1, H2.
    assert (EQ : a * v * l = b * v * c) by (replace (a * v * l) with (a * l * v) by ring; rewrite E; ring).
    apply andb_true_intro; split; apply Z.leb_le.
    - apply Z.mul_le_mono_pos_r with (p := l); [exact Hl|].
      replace (t * c * l) with (t * l * c) by ring. rewrite EQ.
      apply Z.mul_le_mono_nonneg_r; lia.
    - apply Z.mul_le_mono_pos_r with (p := l); [exact Hl|].
      replace ((t + 1) * c * l) with ((t + 1) * l * c) by ring. rewrite EQ.
      apply Z.mul_le_mono_nonneg_r; lia.
  Qed.

  Lemma aspect_s :
    forall nw nh, resize_dims wPix hPix w h cw ch = RDims nw nh ->
                  aspect_ok wPix hPix w h cw ch nw nh = true.
  Proof.
    intros nw nh. rewrite resize_dims_eq. unfold aspect_ok. fold columns lines.
    pose proof columns_dom as [C _]. pose proof lines_dom as [L _].
    destruct ((columns <=? w) && (lines <=? h)) eqn:E; intros H; injection H as H1 H2; rewrite <- H1, <- H2; clear H1 H2.
    - rewrite !Z.eqb_refl. reflexivity.
    - assert (BB : f_leb sfX sfY = true \/ f_leb sfX sfY = false) by (destruct (f_leb sfX sfY); auto).
      destruct BB as [B | B].
      + pose proof (branch_X B) as BX. apply Z.leb_le in BX. rewrite BX.
        rewrite !within_X by assumption. reflexivity.
      + pose proof (branch_Y B) as BY.
        destruct (w * lines <=? h * columns) eqn:T.
        * apply Z.leb_le in T. assert (EQ : w * lines = h * columns) by lia.
          rewrite (within_transfer w columns h lines wPix _ ltac:(unfold dom in C; lia) ltac:(unfold dom in L; lia) EQ (within_Y wPix DwPix B)).
          rewrite (within_transfer w columns h lines hPix _ ltac:(unfold dom in C; lia) ltac:(unfold dom in L; lia) EQ (within_Y hPix DhPix B)).
          reflexivity.
        * rewrite !within_Y by assumption. reflexivity.
  Qed.
End Resize.

Theorem fits_box wPix hPix w h cw ch :
  dom wPix -> dom hPix -> dom w -> dom h -> dom cw -> dom ch ->
  exists nw nh, resize_dims wPix hPix w h cw ch = RDims nw nh /\
                0 <= nw /\ 0 <= nh /\ ceil_div nw cw <= w /\ ceil_div nh ch <= h.
Proof. intros; apply fits_box_s; assumption. Qed.

Theorem never_upscales wPix hPix w h cw ch nw nh :
  dom wPix -> dom hPix -> dom w -> dom h -> dom cw -> dom ch ->
  resize_dims wPix hPix w h cw ch = RDims nw nh -> nw <= wPix /\ nh <= hPix.
Proof. intros; eapply (never_upscales_s wPix hPix w h cw ch); eassumption. Qed.

Theorem aspect_within_one wPix hPix w h cw ch nw nh :
  dom wPix -> dom hPix -> dom w -> dom h -> dom cw -> dom ch ->
  resize_dims wPix hPix w h cw ch = RDims nw nh -> aspect_ok wPix hPix w h cw ch nw nh = true.
Proof. intros; eapply (aspect_s wPix hPix w h cw ch); eassumption. Qed.

Theorem resize_ok_model wPix hPix w h cw ch nw nh :
  dom wPix -> dom hPix -> dom w -> dom h -> dom cw -> dom ch ->
  resize_dims wPix hPix w h cw ch = RDims nw nh -> resize_ok wPix hPix w h cw ch nw nh = true.
Proof.
  intros D1 D2 D3 D4 D5 D6 H.
  destruct (fits_box wPix hPix w h cw ch D1 D2 D3 D4 D5 D6) as [nw' [nh' [E [P1 [P2 [F1 F2]]]]]].
  rewrite H in E. injection E as <- <-.
  destruct (never_upscales wPix hPix w h cw ch nw nh D1 D2 D3 D4 D5 D6 H) as [N1 N2].
  unfold resize_ok, fits_ok, no_upscale_ok.
  rewrite (aspect_within_one wPix hPix w h cw ch nw nh D1 D2 D3 D4 D5 D6 H).
  repeat (apply andb_true_intro; split); try apply Z.leb_le; try assumption; reflexivity.
Qed.

(* the aspect ratio itself: cross-multiplied, exact up to one pixel of one side *)
Theorem aspect_cross wPix hPix w h cw ch nw nh :
  dom wPix -> dom hPix -> dom w -> dom h -> dom cw -> dom ch ->
  resize_dims wPix hPix w h cw ch = RDims nw nh ->
  - hPix <= nw * hPix - nh * wPix <= wPix.
Proof.
  intros D1 D2 D3 D4 D5 D6 H.
  pose proof (aspect_within_one wPix hPix w h cw ch nw nh D1 D2 D3 D4 D5 D6 H) as A.
  unfold aspect_ok in A.
  assert (G : forall a c, 0 < c -> scaled_within_one a c wPix nw && scaled_within_one a c hPix nh = true ->
                          - hPix <= nw * hPix - nh * wPix <= wPix).
  { intros a c Hc S. apply andb_prop in S. destruct S as [S1 S2]. unfold scaled_within_one in *.
    apply andb_prop in S1, S2. destruct S1 as [A1 A2]. destruct S2 as [B1 B2].
    apply Z.leb_le in A1, A2, B1, B2. unfold dom in D1, D2.
    split.
    - (* nh c wPix <= a hPix wPix <= (nw+1) c hPix *)
      assert (nh * wPix <= (nw + 1) * hPix); [|lia].
      apply Z.mul_le_mono_pos_r with (p := c); [exact Hc|].
      apply Z.le_trans with (a * hPix * wPix).
      + replace (nh * wPix * c) with (nh * c * wPix) by ring. apply Z.mul_le_mono_nonneg_r; lia.
      + replace (a * hPix * wPix) with (a * wPix * hPix) by ring.
        replace ((nw + 1) * hPix * c) with ((nw + 1) * c * hPix) by ring. apply Z.mul_le_mono_nonneg_r; lia.
    - assert (nw * hPix <= (nh + 1) * wPix); [|lia].
      apply Z.mul_le_mono_pos_r with (p := c); [exact Hc|].
      apply Z.le_trans with (a * wPix * hPix).
      + replace (nw * hPix * c) with (nw * c * hPix) by ring. apply Z.mul_le_mono_nonneg_r; lia.
      + replace (a * wPix * hPix) with (a * hPix * wPix) by ring.
        replace ((nh + 1) * wPix * c) with ((nh + 1) * c * wPix) by ring. apply Z.mul_le_mono_nonneg_r; lia. }
  assert (C : 0 < ceil_div wPix cw) by (unfold dom in *; apply ceil_div_pos; lia).
  assert (L : 0 < ceil_div hPix ch) by (unfold dom in *; apply ceil_div_pos; lia).
  destruct ((ceil_div wPix cw <=? w) && (ceil_div hPix ch <=? h)).
  - apply andb_prop in A. destruct A as [A1 A2]. apply Z.eqb_eq in A1, A2. subst. unfold dom in *. lia.
  - destruct (w * ceil_div hPix ch <=? h * ceil_div wPix cw);
      [apply (G w (ceil_div wPix cw) C A) | apply (G h (ceil_div hPix ch) L A)].
Qed.

(* cell sizes of the four image kinds *)
Lemma block_cells_pix nw nh : 0 <= nh -> block_cells nw nh = pix_cells nw nh 1 2.
Proof.
  intros H. unfold block_cells, pix_cells, ceil_div. f_equal.
  - rewrite Z.div_1_r, Z.mod_1_r. cbn. lia.
  - pose proof (Z.div_mod nh 2 ltac:(lia)) as D. pose proof (Z.mod_pos_bound nh 2 ltac:(lia)) as M.
    destruct (nh mod 2 =? 0) eqn:E.
    + lia.
    + assert (nh mod 2 = 1) by lia.
      replace (nh + 1) with (nh / 2 * 2 + 2) by lia.
      replace (nh / 2 * 2 + 2) with ((nh / 2 + 1) * 2) by ring. rewrite Z.div_mul by lia. reflexivity.
Qed.

Lemma dom_1 : dom 1. Proof. unfold dom. cbn. lia. Qed.
Lemma dom_2 : dom 2. Proof. unfold dom. cbn. lia. Qed.

Theorem kitty_cells_fit wPix hPix w h cw ch :
  dom wPix -> dom hPix -> dom w -> dom h -> dom cw -> dom ch ->
  exists cw' ch', kitty_cell_size wPix hPix w h cw ch = Some (cw', ch') /\
                  0 <= cw' <= w /\ 0 <= ch' <= h /\
                  cw' <= ceil_div wPix cw /\ ch' <= ceil_div hPix ch.
Proof.
  intros D1 D2 D3 D4 D5 D6.
  destruct (fits_box wPix hPix w h cw ch D1 D2 D3 D4 D5 D6) as [nw [nh [E [P1 [P2 [F1 F2]]]]]].
  destruct (never_upscales wPix hPix w h cw ch nw nh D1 D2 D3 D4 D5 D6 E) as [N1 N2].
  unfold kitty_cell_size. rewrite E. unfold pix_cells.
  eexists; eexists; split; [reflexivity|]. unfold dom in *.
  pose proof (ceil_div_spec nw cw P1 ltac:(lia)) as [_ Q1]. pose proof (ceil_div_spec nh ch P2 ltac:(lia)) as [_ Q2].
  repeat split; try assumption; apply ceil_div_mono; lia.
Qed.

Theorem block_cells_fit wPix hPix w h :
  dom wPix -> dom hPix -> dom w -> dom h ->
  exists cw' ch', block_cell_size wPix hPix w h = Some (cw', ch') /\
                  0 <= cw' <= w /\ 0 <= ch' <= h /\
                  cw' <= wPix /\ ch' <= (hPix + 1) / 2.
Proof.
  intros D1 D2 D3 D4.
  destruct (fits_box wPix hPix w h 1 2 D1 D2 D3 D4 dom_1 dom_2) as [nw [nh [E [P1 [P2 [F1 F2]]]]]].
  destruct (never_upscales wPix hPix w h 1 2 nw nh D1 D2 D3 D4 dom_1 dom_2 E) as [N1 N2].
  unfold block_cell_size. rewrite E. rewrite block_cells_pix by assumption. unfold pix_cells.
  eexists; eexists; split; [reflexivity|].
  pose proof (ceil_div_spec nw 1 P1 ltac:(lia)) as [Q1 Q1']. pose proof (ceil_div_spec nh 2 P2 ltac:(lia)) as [Q2 Q2'].
  repeat split; try assumption; try lia.
  apply Z.div_le_lower_bound; lia.
Qed.

(* ================================================================== placements *)

Lemma same_placement_eq a b : same_placement a b = true <-> a = b.
Proof.
  destruct a as [i c r w h], b as [i' c' r' w' h']. unfold same_placement; cbn [p_id p_col p_row p_w p_h].
  split.
  - destruct (i =? i') eqn:E1; cbn [negb]; [|discriminate].
    destruct (c =? c') eqn:E2; cbn [negb]; [|discriminate].
    destruct (r =? r') eqn:E3; cbn [negb]; [|discriminate].
    destruct (w =? w') eqn:E4; cbn [negb]; [|discriminate].
    destruct (h =? h') eqn:E5; cbn [negb]; [|discriminate].
    intros _. apply Z.eqb_eq in E1, E2, E3, E4, E5. congruence.
  - intros E. injection E as -> -> -> -> ->. rewrite !Z.eqb_refl. reflexivity.
Qed.

Lemma has_same_mem p l : has_same p l = mem_p p l.
Proof.
  induction l as [|q t IH]; [reflexivity|]. cbn [has_same mem_p existsb].
  destruct (same_placement p q); [reflexivity | exact IH].
Qed.

Lemma mem_p_In p l : mem_p p l = true <-> In p l.
Proof.
  unfold mem_p. rewrite existsb_exists. split.
  - intros [q [Hq E]]. apply same_placement_eq in E. subst. exact Hq.
  - intros H. exists p. split; [exact H | apply same_placement_eq; reflexivity].
Qed.

(* what one render() is specified to emit: deletions first, then writes *)
Definition frame_events (refresh : bool) (prev cur : list placement) : list gevent :=
  map GDelete (filter (fun p => refresh || negb (mem_p p cur)) prev) ++
  map GWrite (filter (fun p => refresh || negb (mem_p p prev)) cur).

Lemma delete_loop_spec refresh gnext glast :
  delete_loop refresh gnext glast = map GDelete (filter (fun p => refresh || negb (mem_p p gnext)) glast).
Proof.
  induction glast as [|p t IH]; [reflexivity|]. cbn [delete_loop filter].
  rewrite has_same_mem. destruct refresh; cbn [orb].
  - cbn [map]. f_equal. exact IH.
  - destruct (mem_p p gnext); cbn [negb map]; [exact IH | f_equal; exact IH].
Qed.

Lemma write_loop_spec glast gnext :
  write_loop glast gnext = map GWrite (filter (fun p => negb (mem_p p glast)) gnext).
Proof.
  induction gnext as [|p t IH]; [reflexivity|]. cbn [write_loop filter].
  rewrite has_same_mem. destruct (mem_p p glast); cbn [negb map]; [exact IH | f_equal; exact IH].
Qed.

Lemma render_graphics_spec refresh glast gnext :
  render_graphics refresh glast gnext = (frame_events refresh glast gnext, gnext).
Proof.
  unfold render_graphics, frame_events. rewrite delete_loop_spec, write_loop_spec.
  destruct refresh; reflexivity.
Qed.

(* the frames of a history: (full refresh?, graphicsNext at that render).  A frame is a full refresh
   when it is a Refresh or the first frame after a change of the terminal size ([rf] = vx.refresh is
   set when the history starts). *)
Fixpoint frames_from (rf : bool) (gnext : list placement) (ops : list gop) : list (bool * list placement) :=
  match ops with
  | [] => []
  | OClear :: t => frames_from rf [] t
  | ODraw p ww wh :: t => frames_from rf (draw_into gnext p ww wh) t
  | ORender :: t => (rf, gnext) :: frames_from false gnext t
  | ORefresh :: t => (true, gnext) :: frames_from false gnext t
  | OResize _ :: t => frames_from rf gnext t
  | OTermResize :: t => frames_from true gnext t
  end.
Definition frames_of (gnext : list placement) (ops : list gop) : list (bool * list placement) :=
  frames_from false gnext ops.

Fixpoint spec_events (prev : list placement) (frames : list (bool * list placement)) : list (list gevent) :=
  match frames with
  | [] => []
  | (r, cur) :: t => frame_events r prev cur :: spec_events cur t
  end.

Lemma run_ops_spec s ops :
  run_ops s ops = spec_events (g_last s) (frames_from (g_refresh s) (g_next s) ops).
Proof.
  revert s. induction ops as [|o t IH]; intros s; [reflexivity|].
  destruct o; cbn [run_ops frames_from spec_events].
  - rewrite IH. reflexivity.
  - rewrite IH. reflexivity.
  - rewrite render_graphics_spec. rewrite IH. reflexivity.
  - rewrite render_graphics_spec. rewrite IH. reflexivity.
  - apply IH.
  - rewrite IH. reflexivity.
Qed.

(* a placement shown in some frame was drawn into a window at least as large as the image *)
Lemma frames_of_inside ops :
  forall (Q : placement -> Prop) rf gnext, (forall p, In p gnext -> Q p) ->
  forall i r cur p, nth_error (frames_from rf gnext ops) i = Some (r, cur) -> In p cur ->
  Q p \/ exists ww wh, In (ODraw p ww wh) ops /\ p_w p <= ww /\ p_h p <= wh.
Proof.
  induction ops as [|o t IH]; intros Q rf gnext HQ i r cur p H I.
  - destruct i; discriminate.
  - destruct o as [|q ww wh| | |j0|]; cbn [frames_from] in H.
    + destruct (IH Q rf [] ltac:(intros ? []) i r cur p H I) as [L|[a [b [J K]]]]; [left; exact L|].
      right. exists a, b. split; [right; exact J | exact K].
    + set (Q' := fun p' => Q p' \/ (p' = q /\ p_w q <= ww /\ p_h q <= wh)).
      assert (HQ' : forall p', In p' (draw_into gnext q ww wh) -> Q' p').
      { intros p' I'. unfold draw_into, draw_fits in I'.
        destruct ((ww <? p_w q) || (wh <? p_h q)) eqn:E; cbn [negb] in I'.
        - left. apply HQ. exact I'.
        - apply in_app_iff in I'. destruct I' as [I' | [<- | []]]; [left; apply HQ; exact I'|].
          right. split; [reflexivity|]. lia. }
      destruct (IH Q' rf _ HQ' i r cur p H I) as [[L | [-> L]] | [a [b [J K]]]].
      * left; exact L.
      * right. exists ww, wh. split; [left; reflexivity | exact L].
      * right. exists a, b. split; [right; exact J | exact K].
    + destruct i as [|j]; cbn [nth_error] in H.
      * injection H as <- <-. left. apply HQ. exact I.
      * destruct (IH Q false gnext HQ j r cur p H I) as [L | [a [b [J K]]]]; [left; exact L|].
        right. exists a, b. split; [right; exact J | exact K].
    + destruct i as [|j]; cbn [nth_error] in H.
      * injection H as <- <-. left. apply HQ. exact I.
      * destruct (IH Q false gnext HQ j r cur p H I) as [L | [a [b [J K]]]]; [left; exact L|].
        right. exists a, b. split; [right; exact J | exact K].
    + destruct (IH Q rf gnext HQ i r cur p H I) as [L | [a [b [J K]]]]; [left; exact L|].
      right. exists a, b. split; [right; exact J | exact K].
    + destruct (IH Q true gnext HQ i r cur p H I) as [L | [a [b [J K]]]]; [left; exact L|].
      right. exists a, b. split; [right; exact J | exact K].
Qed.

Theorem placement_inside_window ops i r cur p :
  nth_error (frames_of [] ops) i = Some (r, cur) -> In p cur ->
  exists ww wh, In (ODraw p ww wh) ops /\ p_w p <= ww /\ p_h p <= wh.
Proof.
  intros H I.
  destruct (frames_of_inside ops (fun _ => False) false [] ltac:(intros ? []) i r cur p H I) as [[] | E]. exact E.
Qed.

(* graphicsNext of the previous frame (nothing before the first) *)
Definition prev_frame (frames : list (bool * list placement)) (i : nat) : list placement :=
  match i with
  | O => []
  | S j => match nth_error frames j with Some (_, c) => c | None => [] end
  end.

Lemma spec_events_nth prev frames i r cur :
  nth_error frames i = Some (r, cur) ->
  nth_error (spec_events prev frames) i =
  Some (frame_events r (match i with O => prev | S _ => prev_frame frames i end) cur).
Proof.
  revert prev i. induction frames as [|[r0 c0] t IH]; intros prev i H.
  - destruct i; discriminate.
  - destruct i as [|j]; cbn [nth_error spec_events] in *.
    + injection H as -> ->. reflexivity.
    + rewrite (IH c0 j H). f_equal. f_equal.
      destruct j as [|k]; cbn [prev_frame nth_error]; reflexivity.
Qed.

Lemma frame_events_write r prev cur p :
  In (GWrite p) (frame_events r prev cur) <-> In p cur /\ (r = true \/ ~ In p prev).
Proof.
  unfold frame_events. rewrite in_app_iff, !in_map_iff. split.
  - intros [[q [E _]] | [q [E F]]]; [discriminate|]. injection E as ->.
    apply filter_In in F. destruct F as [F1 F2]. split; [exact F1|].
    destruct r; [left; reflexivity|right]. cbn [orb] in F2.
    intros I. apply mem_p_In in I. rewrite I in F2. discriminate.
  - intros [I C]. right. exists p. split; [reflexivity|]. apply filter_In. split; [exact I|].
    destruct C as [-> | N]; [reflexivity|]. destruct r; [reflexivity|]. cbn [orb].
    destruct (mem_p p prev) eqn:M; [|reflexivity]. apply mem_p_In in M. contradiction.
Qed.

Lemma frame_events_delete r prev cur p :
  In (GDelete p) (frame_events r prev cur) <-> In p prev /\ (r = true \/ ~ In p cur).
Proof.
  unfold frame_events. rewrite in_app_iff, !in_map_iff. split.
  - intros [[q [E F]] | [q [E _]]]; [|discriminate]. injection E as ->.
    apply filter_In in F. destruct F as [F1 F2]. split; [exact F1|].
    destruct r; [left; reflexivity|right]. cbn [orb] in F2.
    intros I. apply mem_p_In in I. rewrite I in F2. discriminate.
  - intros [I C]. left. exists p. split; [reflexivity|]. apply filter_In. split; [exact I|].
    destruct C as [-> | N]; [reflexivity|]. destruct r; [reflexivity|]. cbn [orb].
    destruct (mem_p p cur) eqn:M; [|reflexivity]. apply mem_p_In in M. contradiction.
Qed.

(* the protocol over all histories *)
Theorem placement_protocol ops i r cur :
  nth_error (frames_of [] ops) i = Some (r, cur) ->
  exists evs, nth_error (run_ops g_init ops) i = Some evs /\
    evs = frame_events r (prev_frame (frames_of [] ops) i) cur /\
    (forall p, In (GWrite p) evs <-> In p cur /\ (r = true \/ ~ In p (prev_frame (frames_of [] ops) i))) /\
    (forall p, In (GDelete p) evs <-> In p (prev_frame (frames_of [] ops) i) /\ (r = true \/ ~ In p cur)).
Proof.
  intros H. rewrite run_ops_spec. cbn [g_init g_last g_next g_refresh]. fold (frames_of [] ops).
  rewrite (spec_events_nth [] _ i r cur H).
  assert (E : match i with O => [] | S _ => prev_frame (frames_of [] ops) i end = prev_frame (frames_of [] ops) i)
    by (destruct i; reflexivity).
  rewrite E. eexists; split; [reflexivity|]. split; [reflexivity|].
  split; intros p; [apply frame_events_write | apply frame_events_delete].
Qed.

Lemma run_ops_length ops : length (run_ops g_init ops) = length (frames_of [] ops).
Proof.
  rewrite run_ops_spec. cbn [g_init g_last g_next g_refresh]. fold (frames_of [] ops).
  generalize (@nil placement) at 1. induction (frames_of [] ops) as [|[r c] t IH]; intros prev; [reflexivity|].
  cbn [spec_events length]. f_equal. apply IH.
Qed.

(* the violation predicate of the placement stream accepts what the model does *)
Lemma list_eqb_refl {A} (eqb : A -> A -> bool) (l : list A) :
  (forall x, eqb x x = true) -> list_eqb eqb l l = true.
Proof. intros R. induction l as [|x t IH]; [reflexivity|]. cbn [list_eqb]. rewrite R, IH. reflexivity. Qed.

Lemma gevent_eqb_refl e : gevent_eqb e e = true.
Proof. destruct e; cbn [gevent_eqb]; apply same_placement_eq; reflexivity. Qed.

Theorem frames_ok_model prev frames :
  frames_ok prev (map (fun '(rc, ev) => (fst rc, snd rc, ev))
                      (combine frames (spec_events prev frames))) = true.
Proof.
  revert prev. induction frames as [|[r c] t IH]; intros prev; [reflexivity|].
  cbn [spec_events combine map frames_ok fst snd].
  rewrite IH, andb_true_r. unfold frame_ok. apply list_eqb_refl. exact gevent_eqb_refl.
Qed.

(* ================================================================== block images *)

Lemma In_zseq n k : In k (zseq n) <-> 0 <= k < n.
Proof.
  unfold zseq. rewrite in_map_iff. split.
  - intros [j [E I]]. apply in_seq in I. lia.
  - intros H. exists (Z.to_nat k). split; [lia|]. apply in_seq. lia.
Qed.

Lemma zlen_zseq n : 0 <= n -> zlen (zseq n) = n.
Proof. intros H. unfold zlen, zseq. rewrite map_length, seq_length. lia. Qed.

Lemma zget_map_zseq {A} (f : Z -> A) n i : 0 <= i < n -> zget (map f (zseq n)) i = Some (f i).
Proof.
  intros H. unfold zget. destruct (i <? 0) eqn:E; [lia|].
  unfold zseq. rewrite map_map.
  rewrite nth_error_map.
  assert (S : nth_error (seq 0 (Z.to_nat n)) (Z.to_nat i) = Some (Z.to_nat i)).
  { rewrite nth_error_nth' with (d := O) by (rewrite seq_length; lia).
    rewrite seq_nth by lia. reflexivity. }
  rewrite S. cbn [option_map]. f_equal. f_equal. lia.
Qed.

Lemma cell_index w x y : 0 <= x < w -> (y * w + x) / w = y /\ (y * w + x) - (y * w + x) / w * w = x.
Proof.
  intros H. assert (E : (y * w + x) / w = y).
  { rewrite Z.div_add_l by lia. rewrite Z.div_small by lia. lia. }
  rewrite E. lia.
Qed.

Lemma block_height nw nh : 0 <= nh -> snd (block_cells nw nh) = (nh + 1) / 2.
Proof.
  intros H. unfold block_cells; cbn [snd].
  pose proof (Z.div_mod nh 2 ltac:(lia)) as D. pose proof (Z.mod_pos_bound nh 2 ltac:(lia)) as M.
  destruct (nh mod 2 =? 0) eqn:E; [|reflexivity].
  apply Z.eqb_eq in E.
  rewrite (Z.div_unique (nh + 1) 2 (nh / 2) 1) by lia. reflexivity.
Qed.

(* every cell of the encoding is computed from the two pixels it covers *)
Lemma block_encode_get cell im x y :
  0 <= iw im -> 0 <= ih im ->
  0 <= x < iw im -> 0 <= y < (ih im + 1) / 2 ->
  zget (block_encode cell im) (y * iw im + x) = Some (cell (img_at im x (2 * y)) (img_at im x (2 * y + 1))).
Proof.
  intros Hw Hh Hx Hy. unfold block_encode.
  pose proof (block_height (iw im) (ih im) Hh) as BH.
  rewrite BH. cbn [block_cells fst].
  rewrite zget_map_zseq by nia.
  destruct (cell_index (iw im) x y Hx) as [E1 E2]. cbv beta zeta. rewrite E2, E1.
  replace (y * 2) with (2 * y) by ring. reflexivity.
Qed.

Lemma block_encode_len cell im :
  0 <= iw im -> 0 <= ih im -> zlen (block_encode cell im) = iw im * ((ih im + 1) / 2).
Proof.
  intros Hw Hh. unfold block_encode, zlen. rewrite map_length. fold (zlen (zseq (snd (block_cells (iw im) (ih im)) * fst (block_cells (iw im) (ih im))))).
  pose proof (block_height (iw im) (ih im) Hh) as BH.
  rewrite BH. cbn [block_cells fst].
  assert (0 <= (ih im + 1) / 2) by (apply Z.div_pos; lia).
  rewrite zlen_zseq by nia. ring.
Qed.

(* half block: what the two halves of the cell show *)
Lemma hb_cell_shows t b :
  glyph_ok (hb_cell t b) = true /\
  shown_top (hb_cell t b) = px_colour t /\ shown_bottom (hb_cell t b) = px_colour b.
Proof.
  unfold hb_cell, px_colour.
  destruct (to_rgb t) as [[[tr tg] tb] ta]. destruct (to_rgb b) as [[[br bg] bb] ba].
  cbv beta iota zeta.
  destruct (ta <? transparent_enough); destruct (ba <? transparent_enough); cbn [andb];
    repeat split; reflexivity.
Qed.

Lemma fb_cell_shows t b : fb_cell t b = (g_space, 0, avg_colour t b).
Proof.
  unfold fb_cell, avg_colour. destruct (average2 t b) as [[[r g] bl] a].
  change transparent_enough with 50. destruct (a <? 50); reflexivity.
Qed.

Theorem half_block_pixels im x y :
  0 <= iw im -> 0 <= ih im -> 0 <= x < iw im -> 0 <= y < (ih im + 1) / 2 ->
  exists c, zget (block_encode hb_cell im) (y * iw im + x) = Some c /\ glyph_ok c = true /\
            shown_top c = px_colour (img_at im x (2 * y)) /\
            shown_bottom c = px_colour (img_at im x (2 * y + 1)).
Proof.
  intros Hw Hh Hx Hy. eexists. split; [apply block_encode_get; assumption|]. apply hb_cell_shows.
Qed.

Theorem full_block_pixels im x y :
  0 <= iw im -> 0 <= ih im -> 0 <= x < iw im -> 0 <= y < (ih im + 1) / 2 ->
  zget (block_encode fb_cell im) (y * iw im + x) =
  Some (g_space, 0, avg_colour (img_at im x (2 * y)) (img_at im x (2 * y + 1))).
Proof. intros Hw Hh Hx Hy. rewrite block_encode_get by assumption. rewrite fb_cell_shows. reflexivity. Qed.

(* the predicates of the pixel stream accept the encoders' output *)
Lemma forallb_zseq n f : (forall k, 0 <= k < n -> f k = true) -> forallb f (zseq n) = true.
Proof. intros H. apply forallb_forall. intros k I. apply In_zseq in I. auto. Qed.

Theorem half_cells_ok_model im :
  0 <= iw im -> 0 <= ih im ->
  half_cells_ok im (iw im) ((ih im + 1) / 2) (block_encode hb_cell im) = true.
Proof.
  intros Hw Hh. unfold half_cells_ok. rewrite !Z.eqb_refl. rewrite block_encode_len by assumption. rewrite Z.eqb_refl.
  cbn [andb]. apply forallb_zseq. intros y Hy. apply forallb_zseq. intros x Hx.
  destruct (half_block_pixels im x y Hw Hh Hx Hy) as [c [G [K [T B]]]]. rewrite G, K, T, B, !Z.eqb_refl. reflexivity.
Qed.

Theorem full_cells_ok_model im :
  0 <= iw im -> 0 <= ih im ->
  full_cells_ok im (iw im) ((ih im + 1) / 2) (block_encode fb_cell im) = true.
Proof.
  intros Hw Hh. unfold full_cells_ok. rewrite !Z.eqb_refl. rewrite block_encode_len by assumption. rewrite Z.eqb_refl.
  cbn [andb]. apply forallb_zseq. intros y Hy. apply forallb_zseq. intros x Hx.
  rewrite full_block_pixels by assumption. rewrite !Z.eqb_refl. reflexivity.
Qed.

(* ---------------- colours: opaque 8-bit pixels are reproduced exactly, transparent ones vanish *)

Lemma to_rgb_opaque r g b :
  0 <= r <= 255 -> 0 <= g <= 255 -> 0 <= b <= 255 ->
  to_rgb (r * 257, g * 257, b * 257, 65535) = (r, g, b, 255).
Proof.
  intros Hr Hg Hb. unfold to_rgb. cbn [Z.eqb]. unfold u8, u32.
  assert (C : forall v, 0 <= v <= 255 -> ((v * 257 * 255) mod 4294967296 / 65535) mod 256 = v).
  { intros v Hv. rewrite (Z.mod_small (v * 257 * 255)) by lia.
    replace (v * 257 * 255) with (v * 65535) by ring. rewrite Z.div_mul by lia. apply Z.mod_small. lia. }
  rewrite !C by assumption. reflexivity.
Qed.

Theorem opaque_pixel_colour r g b :
  0 <= r <= 255 -> 0 <= g <= 255 -> 0 <= b <= 255 ->
  px_colour (r * 257, g * 257, b * 257, 65535) = rgb_color r g b.
Proof. intros Hr Hg Hb. unfold px_colour. rewrite to_rgb_opaque by assumption. reflexivity. Qed.

Theorem alpha_threshold pr pg pb pa :
  0 <= pa <= 65535 ->
  (pa < 50 * 256 -> px_colour (pr, pg, pb, pa) = 0) /\
  (50 * 256 <= pa -> tag_rgb <= px_colour (pr, pg, pb, pa)).
Proof.
  intros Ha. unfold px_colour, to_rgb.
  destruct (pa =? 0) eqn:E0.
  - apply Z.eqb_eq in E0. subst. split; [reflexivity | lia].
  - apply Z.eqb_neq in E0. unfold transparent_enough.
    assert (A : u8 (pa / 256) = pa / 256).
    { unfold u8. apply Z.mod_small. split; [apply Z.div_pos; lia | apply Z.div_lt_upper_bound; lia]. }
    rewrite A. split; intros H.
    + assert (L : pa / 256 < 50) by (apply Z.div_lt_upper_bound; lia).
      apply Z.ltb_lt in L. rewrite L. reflexivity.
    + assert (L : 50 <= pa / 256) by (apply Z.div_le_lower_bound; lia).
      apply Z.ltb_ge in L. rewrite L. unfold rgb_color, u8.
      pose proof (Z.mod_pos_bound (u32 (pr * 255) / pa) 256 ltac:(lia)).
      pose proof (Z.mod_pos_bound (u32 (pg * 255) / pa) 256 ltac:(lia)).
      pose proof (Z.mod_pos_bound (u32 (pb * 255) / pa) 256 ltac:(lia)). lia.
Qed.

Theorem full_block_uniform r g b :
  0 <= r <= 255 -> 0 <= g <= 255 -> 0 <= b <= 255 ->
  let p := (r * 257, g * 257, b * 257, 65535) in
  fb_cell p p = (g_space, 0, rgb_color r g b).
Proof.
  intros Hr Hg Hb p. rewrite fb_cell_shows. unfold avg_colour, average2, p.
  rewrite to_rgb_opaque by assumption. unfold u8.
  assert (C : forall v, 0 <= v <= 255 -> ((v + v) / 2) mod 256 = v).
  { intros v Hv. replace (v + v) with (v * 2) by ring. rewrite Z.div_mul by lia. apply Z.mod_small; lia. }
  rewrite !C by (assumption || lia). reflexivity.
Qed.

(* ---------------- nearest-neighbour sampling stays inside the source *)

Lemma nn_src_range n s i : 0 < n -> 0 < s -> 0 <= i < n -> 0 <= nn_src n s i < s.
Proof.
  intros Hn Hs Hi. unfold nn_src. split.
  - apply Z.div_pos; nia.
  - apply Z.div_lt_upper_bound; nia.
Qed.

Lemma img_at_nn_scale src nw nh x y :
  0 <= x < nw -> 0 <= y < nh ->
  img_at (nn_scale src nw nh) x y = to8 (img_at src (nn_src nw (iw src) x) (nn_src nh (ih src) y)).
Proof.
  intros Hx Hy. unfold img_at at 1, nn_scale; cbn [iw ih irows].
  replace ((0 <=? x) && (x <? nw) && (0 <=? y) && (y <? nh)) with true by lia.
  rewrite zget_map_zseq by lia. rewrite zget_map_zseq by lia. reflexivity.
Qed.

Theorem scaled_pixels_from_source src nw nh x y :
  0 < iw src -> 0 < ih src -> 0 <= x < nw -> 0 <= y < nh ->
  img_at (nn_scale src nw nh) x y = to8 (img_at src (nn_src nw (iw src) x) (nn_src nh (ih src) y)) /\
  0 <= nn_src nw (iw src) x < iw src /\ 0 <= nn_src nh (ih src) y < ih src.
Proof.
  intros Hw Hh Hx Hy.
  split; [apply img_at_nn_scale; assumption|]. split; apply nn_src_range; lia.
Qed.

(* ---------------- Draw: the SetCell calls cover exactly the cell rectangle *)

Lemma draw_from_In width i cells x y c :
  In (x, y, c) (draw_from width i cells) ->
  exists k, 0 <= k < zlen cells /\ y = (i + k) / width /\ x = (i + k) - y * width /\ zget cells k = Some c.
Proof.
  revert i. induction cells as [|c0 t IH]; intros i H; [destruct H|].
  cbn [draw_from] in H. destruct H as [E | H].
  - injection E as <- <- <-. exists 0. rewrite zlen_cons. pose proof (zlen_nonneg t).
    rewrite Z.add_0_r. repeat split; try lia.
  - destruct (IH (i + 1) H) as [k [K1 [K2 [K3 K4]]]]. exists (k + 1). rewrite zlen_cons.
    replace (i + (k + 1)) with (i + 1 + k) by ring. repeat split; try lia.
    unfold zget in *. destruct (k <? 0) eqn:E; [lia|]. destruct (k + 1 <? 0) eqn:E'; [lia|].
    replace (Z.to_nat (k + 1)) with (S (Z.to_nat k)) by lia. exact K4.
Qed.

Theorem block_draw_inside width height cells x y c :
  0 < width -> zlen cells = width * height ->
  In (x, y, c) (block_draw width cells) ->
  0 <= x < width /\ 0 <= y < height /\ zget cells (y * width + x) = Some c.
Proof.
  intros Hw Hl H. unfold block_draw in H.
  destruct (draw_from_In width 0 cells x y c H) as [k [K1 [K2 [K3 K4]]]].
  rewrite Z.add_0_l in *.
  pose proof (Z.div_mod k width ltac:(lia)) as D. pose proof (Z.mod_pos_bound k width Hw) as M.
  assert (Y : 0 <= y) by (subst y; apply Z.div_pos; lia).
  assert (Y2 : y < height) by (subst y; apply Z.div_lt_upper_bound; lia).
  assert (X : x = k mod width) by (subst x y; lia).
  repeat split; try lia.
  replace (y * width + x) with k by (subst x y; lia). exact K4.
Qed.

Theorem sixel_draw_inside sw sh winw winh x y :
  In (x, y) (sixel_draw sw sh winw winh) -> 0 <= x < sw /\ 0 <= y < sh /\ sw <= winw /\ sh <= winh.
Proof.
  unfold sixel_draw. destruct ((winw <? sw) || (winh <? sh)) eqn:E; [intros []|].
  intros H. apply in_flat_map in H. destruct H as [y' [Iy H]]. apply in_map_iff in H.
  destruct H as [x' [Ex Ix]]. injection Ex as <- <-. apply In_zseq in Iy, Ix. lia.
Qed.

(* ================================================================== rn is binary64 round-to-nearest-even *)

(* rn p q = m * 2^e with a 53-bit significand m (2^52 <= m <= 2^53, the upper end being the
   carry into the next binade), m the integer nearest to (p/q)/2^e, ties to the even one *)
Theorem rn_nearest_even p q :
  0 < p -> 0 < q ->
  exists m e,
    fst (rn p q) = m * 2 ^ Z.max e 0 /\ snd (rn p q) = 2 ^ Z.max (- e) 0 /\
    2 ^ 52 <= m <= 2 ^ 53 /\
    let P := scaleP p e in let Q := scaleQ q e in
    2 ^ 52 * Q <= P < 2 ^ 53 * Q /\
    - Q <= 2 * (m * Q - P) <= Q /\
    (Z.abs (2 * (m * Q - P)) = Q -> Z.even m = true).
Proof.
  intros Hp Hq. unfold rn.
  destruct (p =? 0) eqn:E0; [apply Z.eqb_eq in E0; lia|].
  pose proof (rn_exp_normal p q Hp Hq) as [N1 N2].
  set (e := rn_exp p q) in *.
  pose proof (scaleP_pos p e Hp) as PP. pose proof (scaleQ_pos q e Hq) as QQ.
  pose proof (round_half_even_spec (scaleP p e) (scaleQ q e) ltac:(lia) QQ) as [Hm R]. cbv zeta in Hm, R.
  exists (round_half_even (scaleP p e) (scaleQ q e)), e. cbn [fst snd].
  split; [reflexivity|]. split; [reflexivity|].
  set (P := scaleP p e) in *. set (Q := scaleQ q e) in *.
  set (m := round_half_even P Q) in *.
  change (2 ^ 52) with 4503599627370496 in *. change (2 ^ 53) with 9007199254740992 in *.
  split; [nia|]. cbv zeta. split; [lia|]. split; [exact R|].
  intros T. unfold m, round_half_even.
  pose proof (Z.div_mod P Q ltac:(lia)) as D. pose proof (Z.mod_pos_bound P Q QQ) as M.
  unfold m, round_half_even in T.
  destruct (2 * (P mod Q) <? Q) eqn:E1.
  { apply Z.ltb_lt in E1. exfalso. nia. }
  apply Z.ltb_ge in E1.
  destruct (Q <? 2 * (P mod Q)) eqn:E2.
  { apply Z.ltb_lt in E2. exfalso. nia. }
  destruct (Z.even (P / Q)) eqn:E3; [exact E3|].
  rewrite Z.even_add, E3. reflexivity.
Qed.

(* ================================================================== image data *)

Lemma mem_id_In i l : mem_id i l = true <-> In i l.
Proof.
  unfold mem_id. rewrite existsb_exists. split.
  - intros [j [I E]]. apply Z.eqb_eq in E. subst. exact I.
  - intros I. exists i. split; [exact I | apply Z.eqb_refl].
Qed.

Lemma remove_id_In i j l : In j (remove_id i l) <-> In j l /\ j <> i.
Proof.
  unfold remove_id. rewrite filter_In. split; intros [A B]; split; try assumption.
  - intros ->. rewrite Z.eqb_refl in B. discriminate.
  - destruct (j =? i) eqn:E; [apply Z.eqb_eq in E; contradiction | reflexivity].
Qed.

(* without the image data the wire events are the placement events *)
Lemma send_events_erase pending evs : filter not_data (send_events pending evs) = map ev_key evs.
Proof.
  revert pending. induction evs as [|e t IH]; intros pending; [reflexivity|].
  destruct e as [p | p]; cbn [send_events map ev_key].
  - cbn [filter not_data Z.eqb Pos.eqb negb]. f_equal. apply IH.
  - destruct (mem_id (p_id p) pending); cbn [filter not_data Z.eqb Pos.eqb negb]; f_equal; apply IH.
Qed.

Theorem kitty_frames_erase ops : forall s pending,
  map (fun f => filter not_data (snd f)) (kitty_frames s pending ops) = map (map ev_key) (run_ops s ops).
Proof.
  induction ops as [|o t IH]; intros s pending; [reflexivity|].
  destruct o; cbn [kitty_frames run_ops].
  - apply IH.
  - apply IH.
  - rewrite render_graphics_spec. cbn [fst map snd]. rewrite send_events_erase. f_equal. apply IH.
  - rewrite render_graphics_spec. cbn [fst map snd]. rewrite send_events_erase. f_equal. apply IH.
  - apply IH.
  - apply IH.
Qed.

(* data is sent only for pending images ... *)
Lemma uploads_pending evs : forall pending i,
  In i (upload_ids (send_events pending evs)) -> In i pending.
Proof.
  induction evs as [|e t IH]; intros pending i H; [destruct H|].
  destruct e as [p | p]; cbn [send_events] in H.
  - cbn [upload_ids flat_map Z.eqb Pos.eqb app] in H. apply IH. exact H.
  - destruct (mem_id (p_id p) pending) eqn:M.
    + cbn [upload_ids flat_map Z.eqb Pos.eqb app] in H. destruct H as [<- | H]; [apply mem_id_In; exact M|].
      apply IH in H. apply remove_id_In in H. apply H.
    + cbn [upload_ids flat_map Z.eqb Pos.eqb app] in H. apply IH. exact H.
Qed.

(* ... at most once per frame ... *)
Lemma uploads_nodup evs : forall pending, nodup_ids (upload_ids (send_events pending evs)) = true.
Proof.
  induction evs as [|e t IH]; intros pending; [reflexivity|].
  destruct e as [p | p]; cbn [send_events].
  - cbn [upload_ids flat_map Z.eqb Pos.eqb app]. apply IH.
  - destruct (mem_id (p_id p) pending) eqn:M.
    + cbn [upload_ids flat_map Z.eqb Pos.eqb app nodup_ids].
      fold (upload_ids (send_events (remove_id (p_id p) pending) t)).
      rewrite IH, andb_true_r.
      destruct (mem_id (p_id p) (upload_ids (send_events (remove_id (p_id p) pending) t))) eqn:N; [|reflexivity].
      apply mem_id_In in N. apply uploads_pending in N. apply remove_id_In in N. destruct N as [_ N]. contradiction.
    + cbn [upload_ids flat_map Z.eqb Pos.eqb app]. apply IH.
Qed.

(* ... and with the first write of a placement of that image *)
Lemma uploads_written evs : forall pending p,
  In (GWrite p) evs -> In (p_id p) pending -> In (p_id p) (upload_ids (send_events pending evs)).
Proof.
  induction evs as [|e t IH]; intros pending p H I; [destruct H|].
  destruct e as [q | q]; cbn [send_events].
  - cbn [upload_ids flat_map Z.eqb Pos.eqb app]. destruct H as [E | H]; [discriminate|]. apply IH; assumption.
  - destruct (mem_id (p_id q) pending) eqn:M.
    + cbn [upload_ids flat_map Z.eqb Pos.eqb app].
      destruct (Z.eq_dec (p_id q) (p_id p)) as [E | NE]; [left; exact E|]. right.
      destruct H as [E | H]; [injection E as ->; contradiction|].
      apply IH; [exact H|]. apply remove_id_In. split; [exact I | congruence].
    + cbn [upload_ids flat_map Z.eqb Pos.eqb app].
      destruct H as [E | H].
      * injection E as ->. apply mem_id_In in I. congruence.
      * apply IH; assumption.
Qed.

Lemma frame_trans_ok r pending prev cur :
  stale_frame r pending prev cur = false ->
  trans_frame_ok pending cur (send_events pending (frame_events r prev cur)) = true.
Proof.
  intros G. unfold trans_frame_ok.
  apply andb_true_intro; split; [apply andb_true_intro; split|].
  - apply forallb_forall. intros p I.
    destruct (mem_id (p_id p) pending) eqn:M; [|reflexivity]. cbn [negb orb].
    apply mem_id_In. apply uploads_written; [|apply mem_id_In; exact M].
    apply frame_events_write. split; [exact I|].
    destruct r; [left; reflexivity|right]. intros P.
    unfold stale_frame in G. cbn [negb andb] in G.
    assert (E : existsb (fun p0 => mem_id (p_id p0) pending && mem_p p0 prev) cur = true).
    { apply existsb_exists. exists p. split; [exact I|]. rewrite M. apply mem_p_In in P. rewrite P. reflexivity. }
    congruence.
  - apply forallb_forall. intros i I. apply mem_id_In. eapply uploads_pending. exact I.
  - apply uploads_nodup.
Qed.

(* Outside the guard of the recorded finding, every history transmits the image data as the
   property demands *)
Theorem transmission_guarded ops : forall s pending,
  stale_guard s pending ops = false ->
  trans_ok pending ops (kitty_frames s pending ops) = true.
Proof.
  induction ops as [|o t IH]; intros s pending G; [reflexivity|].
  destruct o; cbn [stale_guard kitty_frames trans_ok] in *.
  - apply IH. exact G.
  - apply IH. exact G.
  - apply orb_false_iff in G. destruct G as [G1 G2].
    rewrite render_graphics_spec in *. cbn [fst] in *.
    rewrite (frame_trans_ok (g_refresh s) pending (g_last s) (g_next s) G1). cbn [andb]. apply IH. exact G2.
  - rewrite render_graphics_spec in *. cbn [fst] in *.
    rewrite (frame_trans_ok true pending (g_last s) (g_next s) eq_refl). cbn [andb]. apply IH. exact G.
  - apply IH. exact G.
  - apply IH. exact G.
Qed.

(* ================================================================== the terminal's placement table *)

Lemma pkey_eqb_eq a b : pkey_eqb a b = true <-> a = b.
Proof.
  destruct a as [[i c] r], b as [[i' c'] r']. unfold pkey_eqb. rewrite !andb_true_iff, !Z.eqb_eq.
  split; [intros [[-> ->] ->]; reflexivity | intros E; injection E as -> -> ->; auto].
Qed.

Lemma pkey_eqb_refl a : pkey_eqb a a = true.
Proof. apply pkey_eqb_eq. reflexivity. Qed.

Lemma mem_key_In k l : mem_key k l = true <-> In k l.
Proof.
  unfold mem_key. rewrite existsb_exists. split.
  - intros [j [I E]]. apply pkey_eqb_eq in E. subst. exact I.
  - intros I. exists k. split; [exact I | apply pkey_eqb_refl].
Qed.

(* the terminal shows exactly the placements of cur *)
Definition shows (live : list pkey) (cur : list placement) : Prop :=
  forall k, In k live <-> In k (map key_of cur).

Lemma shows_exactly_spec live cur : shows_exactly live cur = true <-> shows live cur.
Proof.
  unfold shows_exactly, shows. rewrite andb_true_iff, !forallb_forall. split.
  - intros [A B] k. split; intros I.
    + apply mem_key_In. apply A. exact I.
    + apply in_map_iff in I. destruct I as [p [<- I]]. apply mem_key_In. apply B. exact I.
  - intros H. split.
    + intros k I. apply mem_key_In. apply H. exact I.
    + intros p I. apply mem_key_In. apply H. apply in_map. exact I.
Qed.

(* image data does not touch the placements *)
Lemma term_run_send pending evs : forall live,
  term_run live (send_events pending evs) = term_run live (map ev_key evs).
Proof.
  revert pending. induction evs as [|e t IH]; intros pending live; [reflexivity|].
  destruct e as [p | p]; cbn [send_events map ev_key].
  - unfold term_run in *. cbn [fold_left]. apply IH.
  - destruct (mem_id (p_id p) pending); unfold term_run in *; cbn [fold_left]; [|apply IH].
    cbn [term_apply Z.eqb Pos.eqb]. apply IH.
Qed.

Lemma term_run_app live a b : term_run live (a ++ b) = term_run (term_run live a) b.
Proof. unfold term_run. apply fold_left_app. Qed.

Lemma term_run_deletes D : forall live k,
  In k (term_run live (map ev_key (map GDelete D))) <-> In k live /\ ~ In k (map key_of D).
Proof.
  induction D as [|p t IH]; intros live k.
  - cbn. tauto.
  - cbn [map ev_key]. unfold term_run in *. cbn [fold_left]. rewrite IH.
    cbn [term_apply Z.eqb]. rewrite filter_In. cbn [map In]. fold (key_of p).
    split.
    + intros [[A B] C]. split; [exact A|]. intros [E | E]; [|contradiction].
      subst k. rewrite pkey_eqb_refl in B. discriminate.
    + intros [A B]. split; [split; [exact A|] | tauto].
      destruct (pkey_eqb k (key_of p)) eqn:E; [|reflexivity].
      apply pkey_eqb_eq in E. subst k. exfalso. apply B. left. reflexivity.
Qed.

Lemma term_run_writes W : forall live k,
  In k (term_run live (map ev_key (map GWrite W))) <-> In k live \/ In k (map key_of W).
Proof.
  induction W as [|p t IH]; intros live k.
  - cbn. tauto.
  - cbn [map ev_key]. unfold term_run in *. cbn [fold_left]. rewrite IH.
    cbn [term_apply Z.eqb Pos.eqb]. cbn [map In]. fold (key_of p). tauto.
Qed.

Lemma keys_functional_spec l : keys_functional l = true ->
  forall p q, In p l -> In q l -> key_of p = key_of q -> p = q.
Proof.
  unfold keys_functional. rewrite forallb_forall. intros H p q Ip Iq E.
  specialize (H p Ip). rewrite forallb_forall in H. specialize (H q Iq).
  rewrite E, pkey_eqb_refl in H. cbn [negb orb] in H. apply same_placement_eq. exact H.
Qed.

(* one frame: the deletions remove exactly the placements that are dropped (or all of them on a full
   refresh), the writes add the new ones (or all) *)
Lemma frame_shows r pending live prev cur :
  shows live prev -> keys_functional prev = true ->
  shows (term_run live (send_events pending (frame_events r prev cur))) cur.
Proof.
  intros S F k. rewrite term_run_send. unfold frame_events. rewrite map_app, term_run_app.
  rewrite term_run_writes, term_run_deletes. rewrite (S k). split.
  - intros [[A B] | A].
    + apply in_map_iff in A. destruct A as [q [<- Iq]].
      destruct r; cbn [orb] in B.
      * exfalso. apply B. apply in_map. apply filter_In. split; [exact Iq | reflexivity].
      * destruct (mem_p q cur) eqn:M.
        -- apply in_map. apply mem_p_In. exact M.
        -- exfalso. apply B. apply in_map. apply filter_In. split; [exact Iq|]. rewrite M. reflexivity.
    + apply in_map_iff in A. destruct A as [q [<- Iq]]. apply filter_In in Iq. apply in_map. apply Iq.
  - intros A. apply in_map_iff in A. destruct A as [p [<- Ip]].
    destruct (r || negb (mem_p p prev)) eqn:W.
    + right. apply in_map. apply filter_In. split; assumption.
    + left. apply orb_false_iff in W. destruct W as [-> W]. apply negb_false_iff in W. apply mem_p_In in W.
      split; [apply in_map; exact W|]. intros B. apply in_map_iff in B. destruct B as [q [E Iq]].
      apply filter_In in Iq. destruct Iq as [Iq Dq]. cbn [orb] in Dq.
      assert (q = p) by (apply (keys_functional_spec prev F); assumption). subst q.
      apply mem_p_In in Ip. rewrite Ip in Dq. discriminate.
Qed.

Lemma kitty_frames_next ops : forall s pending,
  map fst (kitty_frames s pending ops) = next_at_renders (g_next s) ops.
Proof.
  induction ops as [|o t IH]; intros s pending; [reflexivity|].
  destruct o; cbn [kitty_frames next_at_renders map fst].
  - rewrite IH. reflexivity.
  - rewrite IH. reflexivity.
  - rewrite IH. reflexivity.
  - rewrite IH. reflexivity.
  - apply IH.
  - rewrite IH. reflexivity.
Qed.

(* the invariant over all histories, changes of the terminal size included *)
Theorem terminal_invariant ops : forall s pending live,
  shows live (g_last s) -> keys_functional (g_last s) = true ->
  forallb keys_functional (next_at_renders (g_next s) ops) = true ->
  term_frames_ok live (kitty_frames s pending ops) = true.
Proof.
  induction ops as [|o t IH]; intros s pending live S F N; [reflexivity|].
  destruct o; cbn [kitty_frames next_at_renders term_frames_ok forallb] in *.
  - apply IH; assumption.
  - apply IH; assumption.
  - apply andb_true_iff in N. destruct N as [N1 N2]. rewrite render_graphics_spec. cbn [fst].
    assert (S' := frame_shows (g_refresh s) pending live (g_last s) (g_next s) S F).
    apply andb_true_intro. split; [apply shows_exactly_spec; exact S'|].
    apply IH; [exact S' | exact N1 | exact N2].
  - apply andb_true_iff in N. destruct N as [N1 N2]. rewrite render_graphics_spec. cbn [fst].
    assert (S' := frame_shows true pending live (g_last s) (g_next s) S F).
    apply andb_true_intro. split; [apply shows_exactly_spec; exact S'|].
    apply IH; [exact S' | exact N1 | exact N2].
  - apply IH; assumption.
  - apply IH; assumption.
Qed.

Theorem terminal_shows_last_frame ops :
  forallb keys_functional (next_at_renders [] ops) = true ->
  term_frames_ok [] (kitty_frames g_init [] ops) = true.
Proof.
  intros N. apply terminal_invariant; [intros k; cbn; tauto | reflexivity | exact N].
Qed.

Lemma forallb_map' {A B} (f : A -> B) (g : B -> bool) l : forallb g (map f l) = forallb (fun x => g (f x)) l.
Proof. induction l as [|x t IH]; [reflexivity|]. cbn [map forallb]. rewrite IH. reflexivity. Qed.

(* the predicate of the placement stream accepts what the model does, on every history *)
Theorem term_shows_last_frame_model ops : term_shows_last_frame (kitty_frames g_init [] ops) = true.
Proof.
  unfold term_shows_last_frame.
  destruct (forallb (fun f => keys_functional (fst f)) (kitty_frames g_init [] ops)) eqn:E; [|reflexivity].
  cbn [negb orb]. apply terminal_shows_last_frame.
  pose proof (kitty_frames_next ops g_init []) as K. cbn [g_init g_next] in K.
  rewrite <- K. rewrite forallb_map'. exact E.
Qed.

(* the same, frame by frame: replaying everything written up to and including frame i leaves the
   terminal with exactly the placements of frame i *)
Definition term_after (frames : list (list placement * list wire)) (i : nat) : list pkey :=
  fold_left term_run (map snd (firstn (S i) frames)) [].

Lemma term_frames_ok_nth frames : forall live i cur ev,
  term_frames_ok live frames = true -> nth_error frames i = Some (cur, ev) ->
  shows (fold_left term_run (map snd (firstn (S i) frames)) live) cur.
Proof.
  induction frames as [|[c0 e0] t IH]; intros live i cur ev H N.
  - destruct i; discriminate.
  - cbn [term_frames_ok] in H. apply andb_true_iff in H. destruct H as [H1 H2].
    destruct i as [|j]; cbn [nth_error] in N.
    + injection N as -> ->. cbn [firstn map snd fold_left]. apply shows_exactly_spec. exact H1.
    + cbn [firstn map snd fold_left]. exact (IH _ j cur ev H2 N).
Qed.

Theorem terminal_shows_frame ops i cur ev :
  forallb keys_functional (next_at_renders [] ops) = true ->
  nth_error (kitty_frames g_init [] ops) i = Some (cur, ev) ->
  forall k, In k (term_after (kitty_frames g_init [] ops) i) <-> exists p, In p cur /\ key_of p = k.
Proof.
  intros N H k. unfold term_after.
  rewrite (term_frames_ok_nth _ [] i cur ev (terminal_shows_last_frame ops N) H k).
  rewrite in_map_iff. split; intros [p [A B]]; exists p; tauto.
Qed.

(* the flags: which frames are full refreshes *)
Lemma refresh_at_renders_frames ops : forall rf gnext,
  refresh_at_renders rf ops = map fst (frames_from rf gnext ops).
Proof.
  induction ops as [|o t IH]; intros rf gnext; [reflexivity|].
  destruct o; cbn [refresh_at_renders frames_from map fst]; try apply IH; f_equal; apply IH.
Qed.

(* ================================================================== kitty transmissions: chunking *)

Lemma chunks_fuel_zero f : chunks_fuel f 0 = [].
Proof. destruct f; reflexivity. Qed.

Lemma div_sub_chunk n : (n - 1 - chunk_size) / chunk_size = (n - 1) / chunk_size - 1.
Proof.
  unfold chunk_size. replace (n - 1 - 4096) with (n - 1 + (-1) * 4096) by lia.
  rewrite Z.div_add by lia. lia.
Qed.

Lemma chunks_fuel_closed fuel : forall n,
  1 <= n -> (n - 1) / chunk_size < Z.of_nat fuel ->
  chunks_fuel fuel n =
  repeat (1, chunk_size) (Z.to_nat ((n - 1) / chunk_size)) ++ [(0, n - chunk_size * ((n - 1) / chunk_size))].
Proof.
  induction fuel as [|f IH]; intros n Hn Hf.
  - assert (0 <= (n - 1) / chunk_size) by (apply Z.div_pos; unfold chunk_size; lia). lia.
  - cbn [chunks_fuel]. destruct (n <=? 0) eqn:E0; [apply Z.leb_le in E0; lia|].
    destruct (Z_le_gt_dec n chunk_size) as [Le | Gt].
    + rewrite Z.min_l by exact Le. replace (n - n) with 0 by lia. cbn [Z.eqb]. rewrite chunks_fuel_zero.
      assert (D : (n - 1) / chunk_size = 0) by (apply Z.div_small; unfold chunk_size in *; lia).
      rewrite D. cbn [Z.to_nat repeat app]. replace (n - chunk_size * 0) with n by lia. reflexivity.
    + rewrite Z.min_r by lia.
      destruct (n - chunk_size =? 0) eqn:E1; [apply Z.eqb_eq in E1; lia|].
      assert (Q : (n - chunk_size - 1) / chunk_size = (n - 1) / chunk_size - 1).
      { replace (n - chunk_size - 1) with (n - 1 - chunk_size) by lia. apply div_sub_chunk. }
      assert (P : 1 <= (n - 1) / chunk_size).
      { apply Z.div_le_lower_bound; unfold chunk_size in *; lia. }
      rewrite (IH (n - chunk_size)) by lia. rewrite Q.
      replace (Z.to_nat ((n - 1) / chunk_size)) with (S (Z.to_nat ((n - 1) / chunk_size - 1))) by lia.
      cbn [repeat app].
      replace (n - chunk_size - chunk_size * ((n - 1) / chunk_size - 1))
        with (n - chunk_size * ((n - 1) / chunk_size)) by (unfold chunk_size; lia).
      reflexivity.
Qed.

(* for every n >= 1: (n-1)/4096 full chunks with m=1, then the rest with m=0 *)
Theorem kitty_chunks_closed_form n : 1 <= n ->
  kitty_chunks n =
  repeat (1, chunk_size) (Z.to_nat ((n - 1) / chunk_size)) ++ [(0, n - chunk_size * ((n - 1) / chunk_size))].
Proof.
  intros Hn. unfold kitty_chunks. apply chunks_fuel_closed; [exact Hn|].
  assert (0 <= n / chunk_size) by (apply Z.div_pos; unfold chunk_size; lia).
  rewrite Z2Nat.id by lia.
  assert ((n - 1) / chunk_size <= n / chunk_size) by (apply Z.div_le_mono; unfold chunk_size; lia). lia.
Qed.

Lemma last_chunk_range n : 1 <= n -> 0 < n - chunk_size * ((n - 1) / chunk_size) <= chunk_size.
Proof.
  intros Hn. pose proof (Z.div_mod (n - 1) chunk_size ltac:(unfold chunk_size; lia)) as D.
  pose proof (Z.mod_pos_bound (n - 1) chunk_size ltac:(unfold chunk_size; lia)) as B.
  unfold chunk_size in *. lia.
Qed.

Lemma ceil_div_chunks n : 1 <= n -> ceil_div n chunk_size = (n - 1) / chunk_size + 1.
Proof.
  intros Hn. unfold ceil_div, chunk_size.
  pose proof (Z.div_mod n 4096 ltac:(lia)) as D. pose proof (Z.mod_pos_bound n 4096 ltac:(lia)) as B.
  pose proof (Z.div_mod (n - 1) 4096 ltac:(lia)) as D'. pose proof (Z.mod_pos_bound (n - 1) 4096 ltac:(lia)) as B'.
  destruct (n mod 4096 =? 0) eqn:E; [apply Z.eqb_eq in E | apply Z.eqb_neq in E]; lia.
Qed.

(* ceil(n/4096) chunks *)
Theorem kitty_chunks_count n : 1 <= n -> zlen (kitty_chunks n) = ceil_div n chunk_size.
Proof.
  intros Hn. rewrite kitty_chunks_closed_form by exact Hn. unfold zlen.
  rewrite app_length, repeat_length. cbn [length]. rewrite ceil_div_chunks by exact Hn.
  assert (0 <= (n - 1) / chunk_size) by (apply Z.div_pos; unfold chunk_size; lia). lia.
Qed.

Lemma sum_sizes_app a b : sum_sizes (a ++ b) = sum_sizes a + sum_sizes b.
Proof.
  unfold sum_sizes. induction a as [|x t IH]; cbn [app fold_right]; [lia|]. rewrite IH. lia.
Qed.

Lemma sum_sizes_repeat m k j : sum_sizes (repeat (m, k) j) = k * Z.of_nat j.
Proof.
  unfold sum_sizes. induction j as [|j IH]; [cbn [repeat fold_right]; lia|].
  cbn [repeat fold_right snd]. rewrite IH. lia.
Qed.

(* the chunks are the payload, cut: their sizes add up to n *)
Theorem kitty_chunks_sum n : 1 <= n -> sum_sizes (kitty_chunks n) = n.
Proof.
  intros Hn. rewrite kitty_chunks_closed_form by exact Hn. rewrite sum_sizes_app, sum_sizes_repeat.
  assert (0 <= (n - 1) / chunk_size) by (apply Z.div_pos; unfold chunk_size; lia).
  rewrite Z2Nat.id by lia. unfold sum_sizes. cbn [fold_right snd]. lia.
Qed.

(* every chunk but the last: m = 1 and 4096 bytes; the last: m = 0 and 1..4096 bytes *)
Theorem kitty_chunks_flags n : 1 <= n ->
  exists body k, kitty_chunks n = body ++ [(0, k)] /\ 0 < k <= chunk_size /\
                 forall c, In c body -> c = (1, chunk_size).
Proof.
  intros Hn. eexists; eexists. split; [apply kitty_chunks_closed_form; exact Hn|].
  split; [apply last_chunk_range; exact Hn|]. intros c I. apply repeat_spec in I. exact I.
Qed.

Lemma framing_ok_closed j k : 0 < k <= chunk_size -> framing_ok (repeat (1, chunk_size) j ++ [(0, k)]) = true.
Proof.
  intros Hk. induction j as [|j IH].
  - cbn [repeat app framing_ok]. rewrite Z.eqb_refl. cbn [andb].
    apply andb_true_intro; split; [apply Z.ltb_lt | apply Z.leb_le]; lia.
  - cbn [repeat app]. remember (repeat (1, chunk_size) j ++ [(0, k)]) as t eqn:E.
    destruct t as [|c t'].
    + destruct j; discriminate.
    + change (framing_ok ((1, chunk_size) :: c :: t'))
        with ((1 =? 1) && (0 <? chunk_size) && (chunk_size <=? chunk_size) && (chunk_size mod 4 =? 0) &&
              framing_ok (c :: t')).
      rewrite IH. reflexivity.
Qed.

Lemma tx_chunks_model l : tx_chunks (map (fun c : Z * Z => (0, fst c, snd c)) l ++ [(1, 0, 0)]) = Some l.
Proof.
  induction l as [|[m k] t IH]; [reflexivity|].
  cbn [map app tx_chunks fst snd Z.eqb]. rewrite IH. reflexivity.
Qed.

Theorem framing_ok_model n : 1 <= n -> framing_ok (kitty_chunks n) = true.
Proof.
  intros Hn. rewrite kitty_chunks_closed_form by exact Hn. apply framing_ok_closed. apply last_chunk_range. exact Hn.
Qed.

(* the model's transmission satisfies the predicate of the kittytx stream, for every payload length *)
Theorem tx_model_ok n : 1 <= n -> tx_ok (n, tx_model n, 1) = true.
Proof.
  intros Hn. unfold tx_ok, tx_model. rewrite tx_chunks_model.
  rewrite framing_ok_model, kitty_chunks_sum by exact Hn. rewrite Z.eqb_refl. reflexivity.
Qed.

(* what the predicate means: an accepted transmission is chunks then the placement command, the last
   chunk - and only it - closes the transfer *)
Lemma framing_ok_last l : framing_ok l = true ->
  exists body k, l = body ++ [(0, k)] /\ forall c, In c body -> fst c = 1.
Proof.
  induction l as [|[m k] t IH]; [discriminate|]. cbn [framing_ok]. destruct t as [|c t'].
  - intros H. apply andb_true_iff in H. destruct H as [H _]. apply andb_true_iff in H. destruct H as [H _].
    apply Z.eqb_eq in H. subst m. exists [], k. split; [reflexivity | intros ? []].
  - intros H. apply andb_true_iff in H. destruct H as [H F].
    apply andb_true_iff in H. destruct H as [H _]. apply andb_true_iff in H. destruct H as [H _].
    apply andb_true_iff in H. destruct H as [H _]. apply Z.eqb_eq in H. subst m.
    destruct (IH F) as [body [k' [E B]]]. exists ((1, k) :: body), k'. split; [rewrite E; reflexivity|].
    intros c0 [<- | I]; [reflexivity | apply B; exact I].
Qed.

Lemma tx_chunks_shape toks : forall l, tx_chunks toks = Some l ->
  exists a b, toks = map (fun c : Z * Z => (0, fst c, snd c)) l ++ [(1, a, b)].
Proof.
  induction toks as [|[[tag m] sz] t IH]; intros l E; [discriminate|].
  cbn [tx_chunks] in E. destruct (tag =? 0) eqn:T0.
  - apply Z.eqb_eq in T0. subst tag. destruct (tx_chunks t) as [l'|] eqn:E'; [|discriminate].
    injection E as <-. destruct (IH l' eq_refl) as [a [b ->]]. exists a, b. reflexivity.
  - destruct (tag =? 1) eqn:T1; [|discriminate]. apply Z.eqb_eq in T1. subst tag.
    destruct t; [|discriminate]. injection E as <-. exists m, sz. reflexivity.
Qed.

(* an accepted transmission: data chunks of the image, all open (m=1) but the last, which closes the
   transfer (m=0); then, and only then, the placement command; the payload is complete *)
Theorem tx_ok_meaning n toks same : tx_ok (n, toks, same) = true ->
  exists body k a b,
    toks = map (fun c : Z * Z => (0, fst c, snd c)) (body ++ [(0, k)]) ++ [(1, a, b)] /\
    (forall c, In c body -> fst c = 1) /\ sum_sizes (body ++ [(0, k)]) = n /\ same = 1.
Proof.
  unfold tx_ok. destruct (tx_chunks toks) as [l|] eqn:E; [|discriminate]. intros H.
  apply andb_true_iff in H. destruct H as [H S]. apply andb_true_iff in H. destruct H as [F Sm].
  apply Z.eqb_eq in S, Sm. destruct (framing_ok_last l F) as [body [k [El B]]].
  destruct (tx_chunks_shape toks l E) as [a [b T]].
  exists body, k, a, b. rewrite <- El. repeat split; assumption.
Qed.
