(* Proofs about model/Image.v (property C20). *)
From Vx Require Import base.Prelude base.ListX model.Image.
From Coq Require Import ZifyBool.

Local Open Scope Z_scope.

(* ================================================================== rounding *)

Definition U : Z := 2 ^ 53.

Lemma U_val : U = 9007199254740992.
Proof. reflexivity. Qed.

Lemma pow2_pos (k : Z) : 0 <= k -> 0 < 2 ^ k.
Proof. intros Hk; apply Z.pow_pos_nonneg; lia. Qed.

Lemma scaleP_pos p e : 0 < p -> 0 < scaleP p e.
Proof. intros Hp; unfold scaleP; apply Z.mul_pos_pos; [lia | apply pow2_pos; lia]. Qed.

Lemma scaleQ_pos q e : 0 < q -> 0 < scaleQ q e.
Proof. intros Hq; unfold scaleQ; apply Z.mul_pos_pos; [lia | apply pow2_pos; lia]. Qed.

(* lowering the exponent by one doubles the scaled fraction *)
Lemma scale_step p q e : scaleP p (e - 1) * scaleQ q e = 2 * scaleP p e * scaleQ q (e - 1).
Proof.
  unfold scaleP, scaleQ.
  destruct (Z_le_gt_dec e 0) as [He | He].
  - replace (Z.max (- (e - 1)) 0) with (Z.succ (- e)) by lia.
    replace (Z.max (- e) 0) with (- e) by lia.
    replace (Z.max e 0) with 0 by lia. replace (Z.max (e - 1) 0) with 0 by lia.
    rewrite Z.pow_succ_r by lia. ring.
  - replace (Z.max (- (e - 1)) 0) with 0 by lia.
    replace (Z.max (- e) 0) with 0 by lia.
    replace (Z.max e 0) with (Z.succ (e - 1)) by lia. replace (Z.max (e - 1) 0) with (e - 1) by lia.
    rewrite Z.pow_succ_r by lia. ring.
Qed.

(* with e0 = log2 p - log2 q - 52 the scaled fraction lies in (2^51, 2^53) *)
Lemma scale_e0_bounds p q :
  0 < p -> 0 < q ->
  let e0 := Z.log2 p - Z.log2 q - 52 in
  2 ^ 51 * scaleQ q e0 < scaleP p e0 /\ scaleP p e0 < 2 ^ 53 * scaleQ q e0.
Proof.
  intros Hp Hq e0.
  pose proof (Z.log2_spec p Hp) as [Hp1 Hp2].
  pose proof (Z.log2_spec q Hq) as [Hq1 Hq2].
  pose proof (Z.log2_nonneg p) as Hlp. pose proof (Z.log2_nonneg q) as Hlq.
  set (lp := Z.log2 p) in *. set (lq := Z.log2 q) in *.
  unfold scaleP, scaleQ.
  destruct (Z_le_gt_dec 0 e0) as [He | He].
  - replace (Z.max (- e0) 0) with 0 by lia. replace (Z.max e0 0) with e0 by lia.
    rewrite Z.pow_0_r, Z.mul_1_r.
    assert (E1 : 2 ^ lp = 2 ^ 51 * (2 ^ Z.succ lq * 2 ^ e0)).
    { rewrite <- !Z.pow_add_r by lia. f_equal. unfold e0. lia. }
    assert (E2 : 2 ^ Z.succ lp = 2 ^ 53 * (2 ^ lq * 2 ^ e0)).
    { rewrite <- !Z.pow_add_r by lia. f_equal. unfold e0. lia. }
    pose proof (pow2_pos e0 He) as He0.
    split.
    + apply Z.lt_le_trans with (2 ^ lp); [|exact Hp1]. rewrite E1.
      apply Z.mul_lt_mono_pos_l; [reflexivity|]. apply Z.mul_lt_mono_pos_r; assumption.
    + apply Z.lt_le_trans with (2 ^ Z.succ lp); [exact Hp2|]. rewrite E2.
      apply Z.mul_le_mono_nonneg_l; [discriminate|]. apply Z.mul_le_mono_nonneg_r; lia.
  - replace (Z.max (- e0) 0) with (- e0) by lia. replace (Z.max e0 0) with 0 by lia.
    rewrite Z.pow_0_r, Z.mul_1_r.
    assert (E1 : 2 ^ lp * 2 ^ (- e0) = 2 ^ 51 * 2 ^ Z.succ lq).
    { rewrite <- !Z.pow_add_r by lia. f_equal. unfold e0. lia. }
    assert (E2 : 2 ^ Z.succ lp * 2 ^ (- e0) = 2 ^ 53 * 2 ^ lq).
    { rewrite <- !Z.pow_add_r by lia. f_equal. unfold e0. lia. }
    assert (He0 : 0 < 2 ^ (- e0)) by (apply pow2_pos; lia).
    split.
    + apply Z.lt_le_trans with (2 ^ 51 * 2 ^ Z.succ lq).
      * apply Z.mul_lt_mono_pos_l; [reflexivity | exact Hq2].
      * rewrite <- E1. apply Z.mul_le_mono_nonneg_r; lia.
    + apply Z.lt_le_trans with (2 ^ Z.succ lp * 2 ^ (- e0)).
      * apply Z.mul_lt_mono_pos_r; assumption.
      * rewrite E2. apply Z.mul_le_mono_nonneg_l; [discriminate | exact Hq1].
Qed.

(* the chosen exponent normalises: 2^52 <= (p/q)/2^e < 2^53 *)
Lemma rn_exp_normal p q :
  0 < p -> 0 < q ->
  2 ^ 52 * scaleQ q (rn_exp p q) <= scaleP p (rn_exp p q) /\
  scaleP p (rn_exp p q) < 2 ^ 53 * scaleQ q (rn_exp p q).
Proof.
  intros Hp Hq. unfold rn_exp.
  pose proof (scale_e0_bounds p q Hp Hq) as [B1 B2]. cbv zeta in B1, B2.
  set (e0 := Z.log2 p - Z.log2 q - 52) in *.
  destruct (scaleP p e0 <? 2 ^ 52 * scaleQ q e0) eqn:E.
  - apply Z.ltb_lt in E.
    pose proof (scale_step p q e0) as S.
    pose proof (scaleQ_pos q e0 Hq) as Q0. pose proof (scaleQ_pos q (e0 - 1) Hq) as Q1.
    pose proof (scaleP_pos p e0 Hp) as P0. pose proof (scaleP_pos p (e0 - 1) Hp) as P1.
    set (a := scaleP p e0) in *. set (b := scaleQ q e0) in *.
    set (a1 := scaleP p (e0 - 1)) in *. set (b1 := scaleQ q (e0 - 1)) in *.
    change (2 ^ 51) with 2251799813685248 in *. change (2 ^ 52) with 4503599627370496 in *.
    change (2 ^ 53) with 9007199254740992 in *.
    split.
    + apply Z.mul_le_mono_pos_r with (p := b); [exact Q0|]. rewrite S. nia.
    + apply Z.mul_lt_mono_pos_r with (p := b); [exact Q0|]. rewrite S. nia.
  - apply Z.ltb_ge in E. split; [exact E | exact B2].
Qed.

(* nearest integer: |m - P/Q| <= 1/2 *)
Lemma round_half_even_spec P Q :
  0 <= P -> 0 < Q ->
  let m := round_half_even P Q in
  0 <= m /\ - Q <= 2 * (m * Q - P) <= Q.
Proof.
  intros HP HQ. unfold round_half_even.
  pose proof (Z.div_mod P Q ltac:(lia)) as D.
  pose proof (Z.mod_pos_bound P Q HQ) as M.
  pose proof (Z.div_pos P Q HP HQ) as Dp.
  set (m := P / Q) in *. set (r := P mod Q) in *.
  destruct (2 * r <? Q) eqn:E1; [apply Z.ltb_lt in E1; cbv zeta; nia|].
  apply Z.ltb_ge in E1.
  destruct (Q <? 2 * r) eqn:E2; [apply Z.ltb_lt in E2; cbv zeta; nia|].
  apply Z.ltb_ge in E2.
  destruct (Z.even m); cbv zeta; nia.
Qed.

(* the value of rn p q is within a factor 1 +- 2^-53 of p/q *)
Lemma rn_rel p q :
  0 < p -> 0 < q ->
  let n := fst (rn p q) in let d := snd (rn p q) in
  0 < d /\ 0 <= n /\ - (p * d) <= U * (n * q - p * d) <= p * d.
Proof.
  intros Hp Hq. unfold rn.
  destruct (p =? 0) eqn:E0; [apply Z.eqb_eq in E0; lia|].
  pose proof (rn_exp_normal p q Hp Hq) as [N1 _].
  set (e := rn_exp p q) in *.
  pose proof (scaleP_pos p e Hp) as PP. pose proof (scaleQ_pos q e Hq) as QQ.
  pose proof (round_half_even_spec (scaleP p e) (scaleQ q e) ltac:(lia) QQ) as [Hm R].
  cbv zeta in Hm, R.
  set (m := round_half_even (scaleP p e) (scaleQ q e)) in *.
  cbn [fst snd].
  assert (Ha : 0 < 2 ^ Z.max e 0) by (apply pow2_pos; lia).
  assert (Hb : 0 < 2 ^ Z.max (- e) 0) by (apply pow2_pos; lia).
  unfold scaleP, scaleQ in *.
  set (A := 2 ^ Z.max e 0) in *. set (B := 2 ^ Z.max (- e) 0) in *.
  split; [exact Hb|]. split; [nia|].
  replace (m * A * q - p * B) with (m * (q * A) - p * B) by ring.
  unfold U. change (2 ^ 53) with 9007199254740992. change (2 ^ 52) with 4503599627370496 in N1.
  lia.
Qed.

(* the same with a common factor J on both sides of the fraction *)
Lemma rn_rel_scaled p q J :
  0 < p -> 0 < q -> 0 < J ->
  let n := fst (rn (p * J) (q * J)) in let d := snd (rn (p * J) (q * J)) in
  0 < d /\ 0 <= n /\ - (p * d) <= U * (n * q - p * d) <= p * d.
Proof.
  intros Hp Hq HJ.
  pose proof (rn_rel (p * J) (q * J) ltac:(nia) ltac:(nia)) as [Hd [Hn R]].
  cbv zeta in *.
  set (n := fst (rn (p * J) (q * J))) in *. set (d := snd (rn (p * J) (q * J))) in *.
  split; [exact Hd|]. split; [exact Hn|].
  replace (U * (n * (q * J) - p * J * d)) with (U * (n * q - p * d) * J) in R by ring.
  replace (p * J * d) with (p * d * J) in R by ring.
  replace (- (p * d * J)) with (- (p * d) * J) in R by ring.
  split; apply Z.mul_le_mono_pos_r with (p := J); lia.
Qed.

(* small integers convert exactly *)
Lemma f_of_int_exact k :
  0 < k < U ->
  0 < snd (f_of_int k) /\ fst (f_of_int k) = k * snd (f_of_int k).
Proof.
  intros Hk. unfold f_of_int, rn.
  destruct (k =? 0) eqn:E0; [apply Z.eqb_eq in E0; lia|].
  pose proof (rn_exp_normal k 1 ltac:(lia) ltac:(lia)) as [N1 _].
  set (e := rn_exp k 1) in *.
  assert (He : e <= 0).
  { destruct (Z_le_gt_dec e 0) as [|G]; [assumption|]. exfalso.
    unfold scaleP, scaleQ in N1.
    replace (Z.max (- e) 0) with 0 in N1 by lia. replace (Z.max e 0) with (Z.succ (e - 1)) in N1 by lia.
    rewrite Z.pow_succ_r in N1 by lia.
    assert (0 < 2 ^ (e - 1)) by (apply pow2_pos; lia).
    unfold U in Hk. change (2 ^ 53) with 9007199254740992 in Hk. change (2 ^ 52) with 4503599627370496 in N1.
    rewrite Z.pow_0_r in N1. nia. }
  unfold scaleP, scaleQ.
  replace (Z.max e 0) with 0 by lia. rewrite Z.pow_0_r, !Z.mul_1_r.
  cbn [fst snd].
  assert (Hb : 0 < 2 ^ Z.max (- e) 0) by (apply pow2_pos; lia).
  split; [exact Hb|].
  unfold round_half_even. rewrite Z.div_1_r, Z.mod_1_r.
  destruct (2 * 0 <? 1) eqn:E; [reflexivity|]. apply Z.ltb_ge in E. lia.
Qed.

(* ------------------------------------------------------------------ the two float steps *)

(* sf = float64(a) / float64(c):  (1 - u) a/c <= sf <= (1 + u) a/c *)
Lemma scale_factor_rel a c :
  0 < a < U -> 0 < c < U ->
  let sf := f_div (f_of_int a) (f_of_int c) in
  0 < snd sf /\ 0 <= fst sf /\
  fst sf * c * U <= (U + 1) * a * snd sf /\ (U - 1) * a * snd sf <= fst sf * c * U.
Proof.
  intros Ha Hc.
  pose proof (f_of_int_exact a Ha) as [Da Ea]. pose proof (f_of_int_exact c Hc) as [Dc Ec].
  cbv zeta. unfold f_div. rewrite Ea, Ec.
  set (da := snd (f_of_int a)) in *. set (dc := snd (f_of_int c)) in *.
  replace (a * da * dc) with (a * (da * dc)) by ring.
  replace (da * (c * dc)) with (c * (da * dc)) by ring.
  pose proof (rn_rel_scaled a c (da * dc) ltac:(lia) ltac:(lia) ltac:(nia)) as [Hd [Hn R]].
  cbv zeta in *.
  set (n := fst (rn (a * (da * dc)) (c * (da * dc)))) in *.
  set (d := snd (rn (a * (da * dc)) (c * (da * dc)))) in *.
  split; [exact Hd|]. split; [exact Hn|]. split; lia.
Qed.

(* x = sf * float64(v):  (1 - u) sf v <= x <= (1 + u) sf v  (for sf > 0) *)
Lemma product_rel (sf : fl) v :
  0 < fst sf -> 0 < snd sf -> 0 < v < U ->
  let x := f_mul sf (f_of_int v) in
  0 < snd x /\ 0 <= fst x /\
  fst x * snd sf * U <= (U + 1) * (fst sf * v) * snd x /\
  (U - 1) * (fst sf * v) * snd x <= fst x * snd sf * U.
Proof.
  intros Hn Hd Hv.
  pose proof (f_of_int_exact v Hv) as [Dv Ev].
  cbv zeta. unfold f_mul. rewrite Ev.
  set (dv := snd (f_of_int v)) in *.
  replace (fst sf * (v * dv)) with ((fst sf * v) * dv) by ring.
  pose proof (rn_rel_scaled (fst sf * v) (snd sf) dv ltac:(nia) Hd Dv) as [Hd' [Hn' R]].
  cbv zeta in *.
  set (n' := fst (rn (fst sf * v * dv) (snd sf * dv))) in *.
  set (d' := snd (rn (fst sf * v * dv) (snd sf * dv))) in *.
  split; [exact Hd'|]. split; [exact Hn'|]. split; lia.
Qed.

(* a zero scale factor (an empty box) gives zero *)
Lemma product_zero (sf : fl) v : fst sf = 0 -> f_trunc (f_mul sf (f_of_int v)) = 0.
Proof. intros H. unfold f_mul, f_trunc. rewrite H. reflexivity. Qed.

(* ================================================================== arithmetic of resizeImage *)

Lemma U_pos : 0 < U.
Proof. reflexivity. Qed.

(* t <= x, x <= (1+u) sf v, sf <= (1+u) w/c   ==>   t c <= (1+u)^2 w v *)
Lemma chain_up t n d n' d' c v w :
  0 < c -> 0 < d -> 0 < d' -> 0 <= n -> 0 <= v ->
  t * d' <= n' ->
  n' * d * U <= (U + 1) * (n * v) * d' ->
  n * c * U <= (U + 1) * w * d ->
  t * c * (U * U) <= (U + 1) * (U + 1) * (w * v).
Proof.
  intros Hc Hd Hd' Hn Hv H1 H2 H3. pose proof U_pos as HU.
  assert (S1 : t * d * U <= (U + 1) * (n * v)).
  { apply Z.mul_le_mono_pos_r with (p := d'); [exact Hd'|].
    apply Z.le_trans with (n' * d * U); [|lia].
    replace (t * d * U * d') with (t * d' * (d * U)) by ring.
    replace (n' * d * U) with (n' * (d * U)) by ring.
    apply Z.mul_le_mono_nonneg_r; [nia | exact H1]. }
  apply Z.mul_le_mono_pos_r with (p := d); [exact Hd|].
  apply Z.le_trans with ((U + 1) * (n * v) * (c * U)).
  - replace (t * c * (U * U) * d) with (t * d * U * (c * U)) by ring.
    apply Z.mul_le_mono_nonneg_r; [nia | exact S1].
  - replace ((U + 1) * (n * v) * (c * U)) with ((U + 1) * v * (n * c * U)) by ring.
    replace ((U + 1) * (U + 1) * (w * v) * d) with ((U + 1) * v * ((U + 1) * w * d)) by ring.
    apply Z.mul_le_mono_nonneg_l; [nia | exact H3].
Qed.

(* x < t+1, (1-u) sf v <= x, (1-u) w/c <= sf   ==>   (1-u)^2 w v < (t+1) c *)
Lemma chain_lo t n d n' d' c v w :
  0 < c -> 0 < d -> 0 < d' -> 0 <= n -> 0 <= v ->
  n' < (t + 1) * d' ->
  (U - 1) * (n * v) * d' <= n' * d * U ->
  (U - 1) * w * d <= n * c * U ->
  (U - 1) * (U - 1) * (w * v) < (t + 1) * c * (U * U).
Proof.
  intros Hc Hd Hd' Hn Hv H1 H2 H3. pose proof U_pos as HU.
  assert (HU1 : 0 <= U - 1) by (unfold U; cbn; lia).
  assert (S1 : (U - 1) * (n * v) < (t + 1) * d * U).
  { apply Z.mul_lt_mono_pos_r with (p := d'); [exact Hd'|].
    apply Z.le_lt_trans with (n' * d * U); [exact H2|].
    replace ((t + 1) * d * U * d') with ((t + 1) * d' * (d * U)) by ring.
    replace (n' * d * U) with (n' * (d * U)) by ring.
    apply Z.mul_lt_mono_pos_r; [nia | exact H1]. }
  apply Z.mul_lt_mono_pos_r with (p := d); [exact Hd|].
  apply Z.le_lt_trans with ((U - 1) * (n * v) * (c * U)).
  - replace ((U - 1) * (U - 1) * (w * v) * d) with ((U - 1) * v * ((U - 1) * w * d)) by ring.
    replace ((U - 1) * (n * v) * (c * U)) with ((U - 1) * v * (n * c * U)) by ring.
    apply Z.mul_le_mono_nonneg_l; [nia | exact H3].
  - replace ((t + 1) * c * (U * U) * d) with ((t + 1) * d * U * (c * U)) by ring.
    apply Z.mul_lt_mono_pos_r; [nia | exact S1].
Qed.

(* ------------------------------------------------------------------ ceil_div *)

Lemma ceil_div_spec a b :
  0 <= a -> 0 < b -> a <= ceil_div a b * b < a + b /\ 0 <= ceil_div a b.
Proof.
  intros Ha Hb. unfold ceil_div.
  pose proof (Z.div_mod a b ltac:(lia)) as D. pose proof (Z.mod_pos_bound a b Hb) as M.
  pose proof (Z.div_pos a b Ha Hb) as P.
  destruct (a mod b =? 0) eqn:E; nia.
Qed.

Lemma ceil_div_le a b k : 0 <= a -> 0 < b -> a <= k * b -> ceil_div a b <= k.
Proof. intros Ha Hb H. pose proof (ceil_div_spec a b Ha Hb) as [S _]. nia. Qed.

Lemma ceil_div_pos a b : 0 < a -> 0 < b -> 0 < ceil_div a b.
Proof. intros Ha Hb. pose proof (ceil_div_spec a b ltac:(lia) Hb) as [S _]. nia. Qed.

Lemma ceil_div_mono a a' b : 0 <= a <= a' -> 0 < b -> ceil_div a b <= ceil_div a' b.
Proof.
  intros Ha Hb. apply ceil_div_le; [lia | lia |].
  pose proof (ceil_div_spec a' b ltac:(lia) Hb) as [S _]. lia.
Qed.

Lemma ceil_div_bound a b : 0 < a -> 0 < b -> ceil_div a b <= a.
Proof. intros Ha Hb. apply ceil_div_le; nia. Qed.

(* ------------------------------------------------------------------ truncated products *)

Definition fle (a b : fl) : Prop := fst a * snd b <= fst b * snd a.

Lemma f_leb_fle a b : f_leb a b = true <-> fle a b.
Proof. unfold f_leb, fle. apply Z.leb_le. Qed.

Lemma f_trunc_spec (x : fl) :
  0 < snd x -> f_trunc x * snd x <= fst x < (f_trunc x + 1) * snd x.
Proof.
  intros Hd. unfold f_trunc.
  pose proof (Z.div_mod (fst x) (snd x) ltac:(lia)) as D. pose proof (Z.mod_pos_bound (fst x) (snd x) Hd) as M.
  nia.
Qed.

Lemma f_trunc_nonneg (x : fl) : 0 <= fst x -> 0 < snd x -> 0 <= f_trunc x.
Proof. intros. unfold f_trunc. apply Z.div_pos; assumption. Qed.

(* upper side: the truncated product is at most (1+u)^2 times the exact one;
   sf may be any float not above g, where g <= (1+u) a/c *)
Lemma trunc_up (sf g : fl) a c v :
  0 <= fst sf -> 0 < snd sf -> 0 < snd g -> fle sf g ->
  0 < c -> 0 < v < U ->
  fst g * c * U <= (U + 1) * a * snd g ->
  f_trunc (f_mul sf (f_of_int v)) * c * (U * U) <= (U + 1) * (U + 1) * (a * v).
Proof.
  intros Hn Hd Hd2 Hle Hc Hv Hg.
  destruct (Z.eq_dec (fst sf) 0) as [Z0 | NZ].
  - rewrite product_zero by exact Z0. pose proof U_pos.
    assert (0 <= fst g) by (unfold fle in Hle; rewrite Z0 in Hle; nia).
    assert (0 <= a) by nia. nia.
  - pose proof (product_rel sf v ltac:(lia) Hd Hv) as [Hd' [Hn' [R1 _]]]. cbv zeta in *.
    set (x := f_mul sf (f_of_int v)) in *.
    pose proof (f_trunc_spec x Hd') as [T1 _].
    unfold fle in Hle. pose proof U_pos as HU.
    assert (0 <= fst g) by nia.
    apply chain_up with (n := fst g) (d := snd g) (n' := fst x) (d' := snd x); try lia; try exact T1.
    apply Z.mul_le_mono_pos_r with (p := snd sf); [exact Hd|].
    apply Z.le_trans with ((U + 1) * (fst sf * v) * snd x * snd g).
    + replace (fst x * snd g * U * snd sf) with (fst x * snd sf * U * snd g) by ring.
      apply Z.mul_le_mono_nonneg_r; [lia | exact R1].
    + replace ((U + 1) * (fst sf * v) * snd x * snd g) with ((U + 1) * v * snd x * (fst sf * snd g)) by ring.
      replace ((U + 1) * (fst g * v) * snd x * snd sf) with ((U + 1) * v * snd x * (fst g * snd sf)) by ring.
      apply Z.mul_le_mono_nonneg_l; [nia | exact Hle].
Qed.

(* lower side, for the scale factor itself *)
Lemma trunc_lo (sf : fl) a c v :
  0 < fst sf -> 0 < snd sf ->
  0 < c -> 0 < v < U ->
  (U - 1) * a * snd sf <= fst sf * c * U ->
  (U - 1) * (U - 1) * (a * v) < (f_trunc (f_mul sf (f_of_int v)) + 1) * c * (U * U).
Proof.
  intros Hn Hd Hc Hv Hg.
  pose proof (product_rel sf v Hn Hd Hv) as [Hd' [Hn' [_ R2]]]. cbv zeta in *.
  set (x := f_mul sf (f_of_int v)) in *.
  pose proof (f_trunc_spec x Hd') as [_ T2].
  apply chain_lo with (n := fst sf) (d := snd sf) (n' := fst x) (d' := snd x); try lia.
Qed.


(* f >= (1-u) a/c,  g <= (1+u) b/l,  f <= g   ==>   (1-u) a l <= (1+u) b c *)
Lemma gap (f g : fl) a c b l :
  0 < snd f -> 0 < snd g -> 0 < c -> 0 < l -> 0 <= fst g ->
  (U - 1) * a * snd f <= fst f * c * U ->
  fst g * l * U <= (U + 1) * b * snd g ->
  fle f g ->
  (U - 1) * (a * l) <= (U + 1) * (b * c).
Proof.
  intros Hdf Hdg Hc Hl Hng H1 H2 H3. unfold fle in H3. pose proof U_pos as HU.
  apply Z.mul_le_mono_pos_r with (p := snd f * snd g); [nia|].
  apply Z.le_trans with (fst f * c * U * (snd g * l)).
  - replace ((U - 1) * (a * l) * (snd f * snd g)) with ((U - 1) * a * snd f * (snd g * l)) by ring.
    apply Z.mul_le_mono_nonneg_r; [nia | exact H1].
  - apply Z.le_trans with (fst g * snd f * (c * U * l)).
    + replace (fst f * c * U * (snd g * l)) with (fst f * snd g * (c * U * l)) by ring.
      apply Z.mul_le_mono_nonneg_r; [nia | exact H3].
    + replace (fst g * snd f * (c * U * l)) with (fst g * l * U * (snd f * c)) by ring.
      replace ((U + 1) * (b * c) * (snd f * snd g)) with ((U + 1) * b * snd g * (snd f * c)) by ring.
      apply Z.mul_le_mono_nonneg_r; [nia | exact H2].
Qed.

Lemma fle_refl (a : fl) : fle a a.
Proof. unfold fle; lia. Qed.

(* from the two-sided error bounds to "within one pixel below the exact scaling" *)
Lemma within_one_from_bounds a c v t :
  0 < c -> 0 <= a -> 0 <= v -> a * v < 2 ^ 48 ->
  t * c * (U * U) <= (U + 1) * (U + 1) * (a * v) ->
  (U - 1) * (U - 1) * (a * v) < (t + 1) * c * (U * U) ->
  scaled_within_one a c v t = true.
Proof.
  intros Hc Ha Hv B H1 H2. unfold scaled_within_one.
  assert (0 <= a * v) by nia.
  set (N := a * v) in *. set (M := t * c) in *.
  replace ((t + 1) * c) with (M + c) in * by (unfold M; ring).
  change (2 ^ 48) with 281474976710656 in B.
  unfold U in *. change (2 ^ 53) with 9007199254740992 in *.
  apply andb_true_intro; split; apply Z.leb_le; lia.
Qed.

(* ------------------------------------------------------------------ the branches of resizeImage *)

Definition dom (x : Z) : Prop := 0 < x < 2 ^ 24.

Lemma dom_U x : dom x -> 0 < x < U.
Proof. unfold dom, U. change (2 ^ 24) with 16777216. change (2 ^ 53) with 9007199254740992. lia. Qed.

Section Resize.
  Variables wPix hPix w h cw ch : Z.
  Hypothesis DwPix : dom wPix.
  Hypothesis DhPix : dom hPix.
  Hypothesis Dw : dom w.
  Hypothesis Dh : dom h.
  Hypothesis Dcw : dom cw.
  Hypothesis Dch : dom ch.

  Let columns := ceil_div wPix cw.
  Let lines := ceil_div hPix ch.
  Let sfX := f_div (f_of_int w) (f_of_int columns).
  Let sfY := f_div (f_of_int h) (f_of_int lines).
  Let sf := if f_leb sfX sfY then sfX else sfY.

  Lemma columns_dom : dom columns /\ wPix <= columns * cw /\ (columns - 1) * cw < wPix.
  Proof.
    unfold dom in *.
    assert (S1 : wPix <= columns * cw < wPix + cw) by (apply ceil_div_spec; lia).
    assert (S2 : 0 < columns) by (apply ceil_div_pos; lia).
    assert (S3 : columns <= wPix) by (apply ceil_div_bound; lia).
    repeat split; nia.
  Qed.

  Lemma lines_dom : dom lines /\ hPix <= lines * ch /\ (lines - 1) * ch < hPix.
  Proof.
    unfold dom in *.
    assert (S1 : hPix <= lines * ch < hPix + ch) by (apply ceil_div_spec; lia).
    assert (S2 : 0 < lines) by (apply ceil_div_pos; lia).
    assert (S3 : lines <= hPix) by (apply ceil_div_bound; lia).
    repeat split; nia.
  Qed.

  Lemma resize_dims_eq :
    resize_dims wPix hPix w h cw ch =
    if (columns <=? w) && (lines <=? h) then RDims wPix hPix
    else RDims (f_trunc (f_mul sf (f_of_int wPix))) (f_trunc (f_mul sf (f_of_int hPix))).
  Proof.
    unfold resize_dims, dom in *.
    replace ((cw =? 0) || (ch =? 0)) with false by lia.
    replace ((wPix <=? 0) || (hPix <=? 0) || (w <? 0) || (h <? 0) || (cw <? 0) || (ch <? 0)) with false by lia.
    reflexivity.
  Qed.

  Lemma sfX_rel :
    0 < snd sfX /\ 0 <= fst sfX /\
    fst sfX * columns * U <= (U + 1) * w * snd sfX /\ (U - 1) * w * snd sfX <= fst sfX * columns * U.
  Proof. apply scale_factor_rel; apply dom_U; [exact Dw | apply columns_dom]. Qed.

  Lemma sfY_rel :
    0 < snd sfY /\ 0 <= fst sfY /\
    fst sfY * lines * U <= (U + 1) * h * snd sfY /\ (U - 1) * h * snd sfY <= fst sfY * lines * U.
  Proof. apply scale_factor_rel; apply dom_U; [exact Dh | apply lines_dom]. Qed.

  Lemma sf_min : 0 < snd sf /\ 0 <= fst sf /\ fle sf sfX /\ fle sf sfY.
  Proof.
    pose proof sfX_rel as [X1 [X2 _]]. pose proof sfY_rel as [Y1 [Y2 _]].
    unfold sf. destruct (f_leb sfX sfY) eqn:E.
    - apply f_leb_fle in E. repeat split; try assumption. unfold fle; lia.
    - assert (~ fle sfX sfY) by (intros F; apply f_leb_fle in F; congruence).
      unfold fle in *. repeat split; try assumption; lia.
  Qed.

  (* a positive scale factor is positive as a float *)
  Lemma sf_pos : 0 < fst sf.
  Proof.
    pose proof sfX_rel as [X1 [X2 [_ X4]]]. pose proof sfY_rel as [Y1 [Y2 [_ Y4]]].
    pose proof columns_dom as [[C1 _] _]. pose proof lines_dom as [[L1 _] _].
    pose proof (dom_U _ Dw). pose proof (dom_U _ Dh). pose proof U_pos.
    assert (0 < fst sfX) by (unfold U in *; change (2 ^ 53) with 9007199254740992 in *; nia).
    assert (0 < fst sfY) by (unfold U in *; change (2 ^ 53) with 9007199254740992 in *; nia).
    unfold sf. destruct (f_leb sfX sfY); assumption.
  Qed.

  (* ---------------- fits the box *)

  Lemma width_fits : f_trunc (f_mul sf (f_of_int wPix)) <= w * cw.
  Proof.
    pose proof sf_min as [S1 [S2 [S3 _]]]. pose proof sfX_rel as [X1 [X2 [X3 _]]].
    pose proof columns_dom as [[C1 C2] [C3 _]].
    pose proof (trunc_up sf sfX w columns wPix S2 S1 X1 S3 C1 (dom_U _ DwPix) X3) as T.
    set (t := f_trunc (f_mul sf (f_of_int wPix))) in *.
    unfold dom in *. change (2 ^ 24) with 16777216 in *.
    assert (B : t * columns * (U * U) <= (U + 1) * (U + 1) * (w * cw) * columns) by (unfold U in *; nia).
    assert (B2 : t * (U * U) <= (U + 1) * (U + 1) * (w * cw)).
    { apply Z.mul_le_mono_pos_r with (p := columns); [lia|]. lia. }
    assert (N : 0 < w * cw < 2 ^ 48) by (change (2 ^ 48) with (16777216 * 16777216); nia).
    change (2 ^ 48) with 281474976710656 in N.
    unfold U in B2. change (2 ^ 53) with 9007199254740992 in B2. lia.
  Qed.

  Lemma height_fits : f_trunc (f_mul sf (f_of_int hPix)) <= h * ch.
  Proof.
    pose proof sf_min as [S1 [S2 [_ S3]]]. pose proof sfY_rel as [X1 [X2 [X3 _]]].
    pose proof lines_dom as [[C1 C2] [C3 _]].
    pose proof (trunc_up sf sfY h lines hPix S2 S1 X1 S3 C1 (dom_U _ DhPix) X3) as T.
    set (t := f_trunc (f_mul sf (f_of_int hPix))) in *.
    unfold dom in *. change (2 ^ 24) with 16777216 in *.
    assert (B : t * lines * (U * U) <= (U + 1) * (U + 1) * (h * ch) * lines) by (unfold U in *; nia).
    assert (B2 : t * (U * U) <= (U + 1) * (U + 1) * (h * ch)).
    { apply Z.mul_le_mono_pos_r with (p := lines); [lia|]. lia. }
    assert (N : 0 < h * ch < 2 ^ 48) by (change (2 ^ 48) with (16777216 * 16777216); nia).
    change (2 ^ 48) with 281474976710656 in N.
    unfold U in B2. change (2 ^ 53) with 9007199254740992 in B2. lia.
  Qed.

  Lemma trunc_nonneg v : 0 < v < U -> 0 <= f_trunc (f_mul sf (f_of_int v)).
  Proof.
    intros Hv. pose proof sf_min as [S1 _]. pose proof sf_pos as S2.
    pose proof (product_rel sf v S2 S1 Hv) as [Hd [Hn _]].
    apply f_trunc_nonneg; assumption.
  Qed.

  Lemma fits_box_s :
    exists nw nh, resize_dims wPix hPix w h cw ch = RDims nw nh /\
                  0 <= nw /\ 0 <= nh /\ ceil_div nw cw <= w /\ ceil_div nh ch <= h.
  Proof.
    rewrite resize_dims_eq.
    destruct ((columns <=? w) && (lines <=? h)) eqn:E.
    - exists wPix, hPix. unfold dom in *. split; [reflexivity|].
      apply andb_prop in E. destruct E as [E1 E2]. apply Z.leb_le in E1, E2.
      repeat split; try lia; assumption.
    - eexists; eexists; split; [reflexivity|].
      pose proof (trunc_nonneg wPix (dom_U _ DwPix)). pose proof (trunc_nonneg hPix (dom_U _ DhPix)).
      unfold dom in *.
      repeat split; try assumption.
      + apply ceil_div_le; [assumption | lia | apply width_fits].
      + apply ceil_div_le; [assumption | lia | apply height_fits].
  Qed.

  (* ---------------- never upscales *)

  Lemma sf_le_one : (columns <=? w) && (lines <=? h) = false -> fst sf <= snd sf.
  Proof.
    intros E. pose proof sf_min as [S1 [S2 [SX SY]]].
    pose proof sfX_rel as [X1 [X2 [X3 _]]]. pose proof sfY_rel as [Y1 [Y2 [Y3 _]]].
    pose proof columns_dom as [[C1 C2] _]. pose proof lines_dom as [[L1 L2] _].
    pose proof (dom_U _ Dw) as Uw. pose proof (dom_U _ Dh) as Uh.
    unfold fle in SX, SY. change (2 ^ 24) with 16777216 in *.
    apply andb_false_iff in E. destruct E as [E | E]; apply Z.leb_gt in E.
    - assert (K : fst sfX <= snd sfX).
      { destruct (Z_le_gt_dec (fst sfX) (snd sfX)) as [|G]; [assumption|exfalso].
        unfold U in *. change (2 ^ 53) with 9007199254740992 in *.
        assert (columns * snd sfX <= 16777216 * snd sfX) by nia. nia. }
      apply Z.mul_le_mono_pos_r with (p := snd sfX); [exact X1|]. nia.
    - assert (K : fst sfY <= snd sfY).
      { destruct (Z_le_gt_dec (fst sfY) (snd sfY)) as [|G]; [assumption|exfalso].
        unfold U in *. change (2 ^ 53) with 9007199254740992 in *.
        assert (lines * snd sfY <= 16777216 * snd sfY) by nia. nia. }
      apply Z.mul_le_mono_pos_r with (p := snd sfY); [exact Y1|]. nia.
  Qed.

  Lemma shrink v : dom v -> fst sf <= snd sf -> f_trunc (f_mul sf (f_of_int v)) <= v.
  Proof.
    intros Dv Hle. pose proof sf_min as [S1 [S2 _]].
    pose proof (trunc_up sf (1, 1) 1 1 v S2 S1 ltac:(cbn [snd]; lia) ltac:(unfold fle; cbn [fst snd]; lia) ltac:(lia)
                  (dom_U _ Dv) ltac:(cbn [fst snd]; lia)) as T.
    set (t := f_trunc (f_mul sf (f_of_int v))) in *.
    unfold dom in Dv. change (2 ^ 24) with 16777216 in Dv.
    unfold U in T. change (2 ^ 53) with 9007199254740992 in T. lia.
  Qed.

  Lemma never_upscales_s :
    forall nw nh, resize_dims wPix hPix w h cw ch = RDims nw nh -> nw <= wPix /\ nh <= hPix.
  Proof.
    intros nw nh. rewrite resize_dims_eq.
    destruct ((columns <=? w) && (lines <=? h)) eqn:E; intros H; injection H as H1 H2; rewrite <- H1, <- H2; clear H1 H2.
    - lia.
    - pose proof (sf_le_one E). split; apply shrink; assumption.
  Qed.

  (* ---------------- aspect *)

  Lemma prod48 a b : dom a -> dom b -> a * b < 2 ^ 48.
  Proof. unfold dom. change (2 ^ 24) with 16777216. change (2 ^ 48) with (16777216 * 16777216). nia. Qed.

  (* the branch taken on the rounded factors is the branch of the exact comparison *)
  Lemma branch_X : f_leb sfX sfY = true -> w * lines <= h * columns.
  Proof.
    intros E. apply f_leb_fle in E.
    pose proof sfX_rel as [X1 [X2 [_ X4]]]. pose proof sfY_rel as [Y1 [Y2 [Y3 _]]].
    pose proof columns_dom as [C _]. pose proof lines_dom as [L _].
    pose proof (gap sfX sfY w columns h lines X1 Y1 ltac:(unfold dom in C; lia) ltac:(unfold dom in L; lia) Y2 X4 Y3 E) as G.
    pose proof (prod48 h columns Dh C) as B. unfold dom in *.
    change (2 ^ 48) with 281474976710656 in B.
    set (A := w * lines) in *. set (B' := h * columns) in *.
    unfold U in G. change (2 ^ 53) with 9007199254740992 in G. lia.
  Qed.

  Lemma branch_Y : f_leb sfX sfY = false -> h * columns <= w * lines.
  Proof.
    intros E. assert (F : fle sfY sfX).
    { unfold fle. assert (~ fle sfX sfY) by (intros F; apply f_leb_fle in F; congruence). unfold fle in *. lia. }
    pose proof sfX_rel as [X1 [X2 [X3 _]]]. pose proof sfY_rel as [Y1 [Y2 [_ Y4]]].
    pose proof columns_dom as [C _]. pose proof lines_dom as [L _].
    pose proof (gap sfY sfX h lines w columns Y1 X1 ltac:(unfold dom in L; lia) ltac:(unfold dom in C; lia) X2 Y4 X3 F) as G.
    pose proof (prod48 w lines Dw L) as B. unfold dom in *.
    change (2 ^ 48) with 281474976710656 in B.
    set (A := w * lines) in *. set (B' := h * columns) in *.
    unfold U in G. change (2 ^ 53) with 9007199254740992 in G. lia.
  Qed.

  Lemma within_X v : dom v -> f_leb sfX sfY = true ->
    scaled_within_one w columns v (f_trunc (f_mul sf (f_of_int v))) = true.
  Proof.
    intros Dv E. pose proof sf_pos as P. unfold sf in *. rewrite E in *.
    pose proof sfX_rel as [X1 [X2 [X3 X4]]]. pose proof columns_dom as [C _].
    apply within_one_from_bounds; try (unfold dom in *; lia).
    - apply prod48; assumption.
    - apply trunc_up with (g := sfX); try assumption; try (unfold dom in *; lia).
      + apply fle_refl.
      + apply dom_U; assumption.
    - apply trunc_lo; try assumption; try (unfold dom in *; lia). apply dom_U; assumption.
  Qed.

  Lemma within_Y v : dom v -> f_leb sfX sfY = false ->
    scaled_within_one h lines v (f_trunc (f_mul sf (f_of_int v))) = true.
  Proof.
    intros Dv E. pose proof sf_pos as P. unfold sf in *. rewrite E in *.
    pose proof sfY_rel as [X1 [X2 [X3 X4]]]. pose proof lines_dom as [C _].
    apply within_one_from_bounds; try (unfold dom in *; lia).
    - apply prod48; assumption.
    - apply trunc_up with (g := sfY); try assumption; try (unfold dom in *; lia).
      + apply fle_refl.
      + apply dom_U; assumption.
    - apply trunc_lo; try assumption; try (unfold dom in *; lia). apply dom_U; assumption.
  Qed.

  (* equal exact factors: being within one of one scaling is being within one of the other *)
  Lemma within_transfer a c b l v t :
    0 < c -> 0 < l -> a * l = b * c ->
    scaled_within_one b l v t = true -> scaled_within_one a c v t = true.
  Proof.
    intros Hc Hl E H. unfold scaled_within_one in *.
    apply andb_prop in H. destruct H as [H1 H2]. apply Z.leb_le in H1, H2.
    assert (EQ : a * v * l = b * v * c) by (replace (a * v * l) with (a * l * v) by ring; rewrite E; ring).
    apply andb_true_intro; split; apply Z.leb_le.
    - apply Z.mul_le_mono_pos_r with (p := l); [exact Hl|].
      replace (t * c * l) with (t * l * c) by ring. rewrite EQ.
      apply Z.mul_le_mono_nonneg_r; lia.
    - apply Z.mul_le_mono_pos_r with (p := l); [exact Hl|].
      replace ((t + 1) * c * l) with ((t + 1) * l * c) by ring. rewrite EQ.
      apply Z.mul_le_mono_nonneg_r; lia.
  Qed.

  Lemma aspect_s :
    forall nw nh, resize_dims wPix hPix w h cw ch = RDims nw nh ->
                  aspect_ok wPix hPix w h cw ch nw nh = true.
  Proof.
    intros nw nh. rewrite resize_dims_eq. unfold aspect_ok. fold columns lines.
    pose proof columns_dom as [C _]. pose proof lines_dom as [L _].
    destruct ((columns <=? w) && (lines <=? h)) eqn:E; intros H; injection H as H1 H2; rewrite <- H1, <- H2; clear H1 H2.
    - rewrite !Z.eqb_refl. reflexivity.
    - destruct (f_leb sfX sfY) eqn:B.
      + pose proof (branch_X B) as BX. apply Z.leb_le in BX. rewrite BX.
        rewrite !within_X by assumption. reflexivity.
      + pose proof (branch_Y B) as BY.
        destruct (w * lines <=? h * columns) eqn:T.
        * apply Z.leb_le in T. assert (EQ : w * lines = h * columns) by lia.
          rewrite (within_transfer w columns h lines wPix _ ltac:(unfold dom in C; lia) ltac:(unfold dom in L; lia) EQ (within_Y wPix DwPix B)).
          rewrite (within_transfer w columns h lines hPix _ ltac:(unfold dom in C; lia) ltac:(unfold dom in L; lia) EQ (within_Y hPix DhPix B)).
          reflexivity.
        * rewrite !within_Y by assumption. reflexivity.
  Qed.
End Resize.

Theorem fits_box wPix hPix w h cw ch :
  dom wPix -> dom hPix -> dom w -> dom h -> dom cw -> dom ch ->
  exists nw nh, resize_dims wPix hPix w h cw ch = RDims nw nh /\
                0 <= nw /\ 0 <= nh /\ ceil_div nw cw <= w /\ ceil_div nh ch <= h.
Proof. intros; apply fits_box_s; assumption. Qed.

Theorem never_upscales wPix hPix w h cw ch nw nh :
  dom wPix -> dom hPix -> dom w -> dom h -> dom cw -> dom ch ->
  resize_dims wPix hPix w h cw ch = RDims nw nh -> nw <= wPix /\ nh <= hPix.
Proof. intros; eapply never_upscales_s; eassumption. Qed.

Theorem aspect_within_one wPix hPix w h cw ch nw nh :
  dom wPix -> dom hPix -> dom w -> dom h -> dom cw -> dom ch ->
  resize_dims wPix hPix w h cw ch = RDims nw nh -> aspect_ok wPix hPix w h cw ch nw nh = true.
Proof. intros; eapply aspect_s; eassumption. Qed.
