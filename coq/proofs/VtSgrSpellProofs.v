(* C06 - SGR in every spelling of the extended colours (model/VtSgrSpell.v): the emulator
   model's SGR on the spelled parameters is the reference terminal's pen, whatever the
   spelling; the simulation step, the refinement theorem and "no mismatch => no violation"
   for the extended vocabulary. *)
From Vx Require Import base.Prelude base.ListX model.Colour model.Sgr model.Term model.TermCheck
  model.VtSpec model.TermAbs model.VtCheck model.VtSgrSpell proofs.SgrProofs proofs.TermProofs proofs.TermRefine
  proofs.TermRefine2 proofs.TermRefine3 proofs.TermRefine4 proofs.TermSafe proofs.TermRefine5 proofs.TermRefine6.
Require Import ZifyBool Lia List.
Import ListNotations.
Local Open Scope Z_scope.

Lemma byte_u8 n : byte_ok n = true -> u8 n = n.
Proof. unfold byte_ok, in_range. intros H. apply u8_small. lia. Qed.

Lemma sgr_step_58 st rest : sgr_step st ([58] :: rest) = ext_colour st (set_ul st) ([58] :: rest) [58].
Proof. reflexivity. Qed.

(* the head parameter decides the target, whatever its sub-parameters *)
Lemma sgr_step_target t st l rest :
  sgr_step st ((tcode t :: l) :: rest) = ext_colour st (tset t st) ((tcode t :: l) :: rest) (tcode t :: l).
Proof. destruct t; reflexivity. Qed.

Lemma xcmd_step x rest st : xsgr_ok x = true -> is_cut x = false ->
  sgr_loop 0 st (xenc x ++ rest) = sgr_loop 0 (xspec1 st x) rest.
Proof.
  intros Hok Hc. destruct x as [c|t colon n|t sp r g b| |t l|t l]; cbn [xsgr_ok xenc xspec1 is_cut] in *.
  - apply sgr_cmd; exact Hok.
  - apply byte_u8 in Hok. destruct colon; cbn [app sgr_loop]; rewrite sgr_step_target.
    + unfold ext_colour. change (zlen [tcode t; 5; n]) with 3. simpl. rewrite Hok. reflexivity.
    + rewrite ext_idx by (unfold u8 in Hok; pose proof (Z.mod_pos_bound n 256); lia). reflexivity.
  - rewrite !Bool.andb_true_iff in Hok. destruct Hok as [[[Hr Hg] Hb] Hcs].
    apply byte_u8 in Hr, Hg, Hb.
    destruct sp as [| |cs]; cbn [app sgr_loop]; rewrite sgr_step_target.
    + rewrite ext_rgb by (unfold u8 in *; pose proof (Z.mod_pos_bound r 256); pose proof (Z.mod_pos_bound g 256); pose proof (Z.mod_pos_bound b 256); lia). reflexivity.
    + unfold ext_colour. change (zlen [tcode t; 2; r; g; b]) with 5. simpl. rewrite Hr, Hg, Hb. reflexivity.
    + unfold ext_colour. change (zlen [tcode t; 2; cs; r; g; b]) with 6. simpl. rewrite Hr, Hg, Hb. reflexivity.
  - reflexivity.
  - rewrite Bool.andb_true_iff in Hok. destruct Hok as [_ Hl].
    cbn [app sgr_loop]. rewrite sgr_step_target. unfold ext_colour. rewrite zlen_cons.
    assert (E : zlen l = 1 \/ zlen l = 3) by lia.
    destruct E as [E|E]; rewrite E; reflexivity.
  - discriminate.
Qed.

Lemma xcut_last t l st : xsgr_ok (XCut t l) = true -> sgr_loop 0 st (xenc (XCut t l)) = Ok st.
Proof.
  cbn [xsgr_ok xenc]. intros H.
  destruct l as [|a [|b [|c [|d l]]]].
  - cbn [map sgr_loop]. rewrite sgr_step_target. reflexivity.
  - assert (E : a = 5 \/ a = 2) by (destruct a as [|p|p]; try discriminate; repeat (destruct p as [p|p|]; try discriminate); auto).
    destruct E as [-> | ->]; cbn [map sgr_loop]; rewrite sgr_step_target; reflexivity.
  - assert (E : a = 2) by (destruct a as [|p|p]; try discriminate; repeat (destruct p as [p|p|]; try discriminate); auto).
    subst a. cbn [map sgr_loop]. rewrite sgr_step_target. reflexivity.
  - assert (E : a = 2) by (destruct a as [|p|p]; try discriminate; repeat (destruct p as [p|p|]; try discriminate); auto).
    subst a. cbn [map sgr_loop]. rewrite sgr_step_target. reflexivity.
  - exfalso. destruct a as [|p|p]; try discriminate; repeat (destruct p as [p|p|]; try discriminate).
Qed.

Lemma xenc_nonnil x : xenc x <> [].
Proof. destruct x as [c|t [|] n|t [| |cs] r g b| |t l|t l]; try discriminate. apply enc_sgrc_nonnil. Qed.

Lemma xsgr_cmds xs : xsgrs_ok xs = true -> forall st,
  sgr_loop 0 st (flat_map xenc xs) = Ok (fold_left xspec1 xs st).
Proof.
  induction xs as [|x xs IH]; intros Hok st; [reflexivity|].
  destruct xs as [|y xs].
  - cbn [xsgrs_ok] in Hok. cbn [flat_map fold_left]. rewrite app_nil_r.
    destruct (is_cut x) eqn:Ec.
    + destruct x; try discriminate. rewrite xcut_last by exact Hok. reflexivity.
    + rewrite <- (app_nil_r (xenc x)). rewrite xcmd_step by assumption. reflexivity.
  - change (xsgrs_ok (x :: y :: xs)) with (xsgr_ok x && negb (is_cut x) && xsgrs_ok (y :: xs)) in Hok.
    rewrite !Bool.andb_true_iff in Hok. destruct Hok as [[Hx Hc] Hr].
    change (flat_map xenc (x :: y :: xs)) with (xenc x ++ flat_map xenc (y :: xs)).
    assert (Hc' : is_cut x = false) by (destruct (is_cut x); [discriminate|reflexivity]).
    rewrite (xcmd_step x _ st Hx Hc'). rewrite IH by assumption. reflexivity.
Qed.

(* every spelling means its command: the emulator model's SGR on the spelled parameters is
   the reference terminal's pen *)
Theorem xsgr_pen xs st : xsgrs_ok xs = true ->
  term_sgr (flat_map xenc xs) st = Ok (xspec_sgr st xs).
Proof.
  intros H. unfold term_sgr, sgr_run, xspec_sgr.
  destruct xs as [|x xs]; [reflexivity|].
  rewrite <- (xsgr_cmds (x :: xs) H st).
  destruct (flat_map xenc (x :: xs)) eqn:E; [|reflexivity].
  cbn [flat_map] in E. apply app_eq_nil in E. destruct E as [E _]. now apply xenc_nonnil in E.
Qed.

(* ------------------------------------------------------------------ simulation *)

(* one operation of the extended vocabulary, from any state the emulator can be in *)
Lemma xsim_step w h t o v : Inv w h t -> xspec_step (abs t) o = Some v ->
  exists t', update t (xenc_op o) = TOk t' /\ Inv w h t' /\ abs t' = v.
Proof.
  intros HI Hs. destruct o as [o|xs]; cbn [xspec_step xenc_op] in *.
  - unfold spec_step in Hs.
    destruct (vop_ok o) eqn:Hok; cbn [negb] in Hs; [|discriminate].
    destruct (v_pending (abs t) && negb (allowed_pending o)) eqn:Hp; [discriminate|].
    assert (Hpend : t_last t = true -> allowed_pending o = true).
    { intros Hl. change (v_pending (abs t)) with (t_last t) in Hp. rewrite Hl in Hp.
      destruct (allowed_pending o); [reflexivity | discriminate]. }
    destruct (sim_step w h t o HI Hok Hpend) as [t1 [E1 [I1 A1]]].
    exists t1. split; [exact E1|]. split; [exact I1|]. inversion Hs; subst v. exact A1.
  - destruct (xsgrs_ok xs) eqn:Hok; cbn [negb] in Hs; [|discriminate].
    inversion Hs; subst v; clear Hs.
    change (update t (TCsi [] (flat_map xenc xs) 109)) with (sgr t (flat_map xenc xs)).
    unfold sgr. rewrite (xsgr_pen xs (spen (t_pen t)) Hok).
    eexists; split; [reflexivity|]. split.
    + apply (Inv_frame w h t); auto. apply WFs_set_pen, HI.
    + rewrite (abs_fields t); reflexivity.
Qed.

Definition xrun_term (t : term) (ops : list xop) : tres term :=
  run t (map (fun o => HFeed true (xenc_op o)) ops).

Lemma xrun_sim w h : forall ops t v,
  Inv w h t -> xrun_spec (abs t) ops = Some v ->
  exists t', xrun_term t ops = TOk t' /\ Inv w h t' /\ abs t' = v.
Proof.
  induction ops as [|o rest IH]; intros t v HI Hs; cbn [xrun_spec] in Hs.
  - inversion Hs; subst. exists t; split; [reflexivity|]; split; auto.
  - destruct (xspec_step (abs t) o) as [v1|] eqn:Es; [|discriminate].
    destruct (xsim_step w h t o v1 HI Es) as [t1 [E1 [I1 A1]]].
    rewrite <- A1 in Hs. destruct (IH t1 v I1 Hs) as [t' [E' [I' A']]].
    exists t'; split; [|split; assumption].
    unfold xrun_term in *. cbn [map run hstep_run].
    assert (Hev : t_ev t = 0) by (destruct (wf_ev _ _ _ _ (Inv_WF w h t HI)) as [Hev _]; exact Hev).
    rewrite (drain_id t Hev), E1. cbn [tbind]. exact E'.
Qed.

(* the refinement theorem with SGR in every spelling *)
Theorem xterm_refines_vt w h ops :
  2 <= w <= 65535 -> 2 <= h <= 65535 ->
  forall n v, xrun_spec (vt_init w h) (firstn n ops) = Some v ->
  exists t0 t, term_start w h = TOk t0 /\ xrun_term t0 (firstn n ops) = TOk t /\ abs t = v.
Proof.
  intros Hw Hh n v Hs. destruct (start_inv w h Hw Hh) as [I0 A0].
  rewrite <- A0 in Hs. destruct (xrun_sim w h (firstn n ops) _ v I0 Hs) as [t [E [I A]]].
  exists (start_state w h), t. split; [apply term_start_eq; lia|]. split; assumption.
Qed.

(* ------------------------------------------------------------------ no mismatch => no violation *)

Definition xenc_ok (s : xop * titem * obs) : bool := let '(o, it, _) := s in titem_eqb it (xenc_op o).
Definition xfeed_of (s : xop * titem * obs) : hstep * obs := let '(_, it, o) := s in (HFeed true it, o).

Lemma xcheck_every_none steps : forallb xenc_ok steps = true -> xspec_check_every None steps = true.
Proof.
  induction steps as [|[[o it] ob] rest IH]; intros H; cbn in *; [reflexivity|].
  apply andb_prop in H; destruct H as [H1 H2]. rewrite H1. cbn. apply IH, H2.
Qed.

Lemma xcheck_every_of_model w h : forall steps t,
  Inv w h t -> forallb xenc_ok steps = true ->
  check_steps t (map xfeed_of steps) = true ->
  xspec_check_every (Some (abs t)) steps = true.
Proof.
  induction steps as [|[[o it] ob] rest IH]; intros t HI Henc Hc; [reflexivity|].
  cbn [forallb xenc_ok] in Henc. apply andb_prop in Henc; destruct Henc as [He Henc].
  cbn [xspec_check_every]. rewrite He. cbn [andb].
  apply r6_titem_true in He; subst it.
  destruct (xspec_step (abs t) o) as [v1|] eqn:Es; [|apply xcheck_every_none, Henc].
  destruct (xsim_step w h t o v1 HI Es) as [t1 [E1 [I1 A1]]].
  assert (Hev : t_ev t = 0) by (destruct (wf_ev _ _ _ _ (Inv_WF w h t HI)) as [Hev _]; exact Hev).
  cbn [map xfeed_of check_steps hstep_run] in Hc. rewrite (drain_id t Hev), E1 in Hc.
  apply andb_prop in Hc; destruct Hc as [Hc Hrest]. apply andb_prop in Hc; destruct Hc as [Hout Hm].
  apply Z.eqb_eq in Hout.
  rewrite <- A1.
  rewrite (obs_matches_shows 0 w h t1 ob (Inv_WF w h t1 I1) Hout Hm). cbn [andb].
  apply IH; assumption.
Qed.

Lemma xvt_history_eq cols rows o0 steps :
  xvt_history (cols, rows, o0, steps) = (HResize cols rows, o0) :: map xfeed_of steps.
Proof. reflexivity. Qed.

Theorem x_no_mismatch_no_violation (c : xvt_case) :
  xvt_case_wf c = true -> hist_model_ok (xvt_history c) = true -> xvt_holds_every c = true.
Proof.
  destruct c as [[[cols rows] o0] steps]. intros Hwf Hm.
  unfold xvt_case_wf in Hwf.
  repeat (apply andb_prop in Hwf; destruct Hwf as [Hwf ?]).
  assert (Hw : 2 <= cols <= 65535) by lia. assert (Hh : 2 <= rows <= 65535) by lia.
  destruct (start_inv cols rows Hw Hh) as [I0 A0].
  rewrite xvt_history_eq in Hm. unfold hist_model_ok in Hm. cbn [check_steps hstep_run] in Hm.
  change (resize term_new cols rows) with (term_start cols rows) in Hm.
  rewrite (term_start_eq cols rows) in Hm by lia.
  apply andb_prop in Hm; destruct Hm as [Hm Hrest]. apply andb_prop in Hm; destruct Hm as [Hout Hm0].
  apply Z.eqb_eq in Hout.
  unfold xvt_holds_every.
  replace (2 <=? cols) with true by lia. replace (2 <=? rows) with true by lia. cbn [andb].
  rewrite <- A0.
  rewrite (obs_matches_shows 0 cols rows _ o0 (Inv_WF _ _ _ I0) Hout Hm0). cbn [andb].
  match goal with Hf : match o_full o0 with _ => _ end = true |- _ => rewrite Hf end. cbn [andb].
  apply (xcheck_every_of_model cols rows); [exact I0| |exact Hrest].
  match goal with Hf : forallb _ steps = true |- _ => exact Hf end.
Qed.
