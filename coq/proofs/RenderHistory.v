(* Histories of frames: drawing calls, Render, Refresh, size changes. *)
From Vx Require Import base.Prelude base.ListX model.Colour model.RenderTypes model.Render model.RefTerm
  model.RenderSpec proofs.RenderDelta proofs.RenderRow proofs.RenderFrame.

Section History.
Variable tw : list Z -> Z.
Variable measure : list Z -> Z.
Variable cp : caps.

Notation settled := (settled).
Notation in_sync := (in_sync measure cp).
Notation content_ok := (content_ok tw measure cp).
Notation shows_next := (shows_next cp).

(* ---------- drawing calls keep the shape of the screen and touch nothing else ---------- *)
Lemma upd_nat_In {A} (l : list A) n x y : In y (upd_nat l n x) -> y = x \/ In y l.
Proof.
  revert n; induction l as [|h t IH]; intros [|n] H; cbn in *; try tauto.
  - destruct H as [<-|H]; auto.
  - destruct H as [<-|H]; auto. destruct (IH n H); auto.
Qed.

Lemma grid_upd_dims g col row f cols :
  (forall r, In r g -> zlen r = cols) ->
  length (grid_upd g col row f) = length g /\ (forall r, In r (grid_upd g col row f) -> zlen r = cols).
Proof.
  intros H. unfold grid_upd.
  destruct (zget g row) as [r|] eqn:Er; [|split; [reflexivity|exact H]].
  destruct (zget r col) as [c|] eqn:Ec; [|split; [reflexivity|exact H]].
  destruct (zupd r col (f c)) as [r'|] eqn:Eu; [|split; [reflexivity|exact H]].
  destruct (zupd g row r') as [g'|] eqn:Eg; [|split; [reflexivity|exact H]].
  pose proof (zupd_length _ _ _ _ Eu) as Lr. pose proof (zupd_length _ _ _ _ Eg) as Lg.
  split; [unfold zlen in Lg; lia|].
  intros x Hin. unfold zupd in Eg. destruct ((row <? 0) || (zlen g <=? row)); [discriminate|].
  injection Eg as <-. apply upd_nat_In in Hin as [->|Hin]; [|now apply H].
  rewrite Lr. apply H. eapply zget_In; eassumption.
Qed.

Lemma apply_op_keeps s o :
  v_caps (apply_op s o) = v_caps s /\ v_last (apply_op s o) = v_last s /\
  v_clast (apply_op s o) = v_clast s /\ v_refresh (apply_op s o) = v_refresh s /\
  v_mlast (apply_op s o) = v_mlast s /\
  length (v_next (apply_op s o)) = length (v_next s) /\
  (forall cols, (forall r, In r (v_next s) -> zlen r = cols) ->
                forall r, In r (v_next (apply_op s o)) -> zlen r = cols).
Proof.
  destruct o; cbn; repeat split; try reflexivity;
    try (intros cols H; exact H);
    try (apply grid_upd_dims with (cols := 0); intros r Hin; exfalso; revert Hin; fail).
  - pose proof (grid_upd_dims (v_next s) col row (fun _ => c)) as G.
    (* length *)
    unfold grid_upd. destruct (zget (v_next s) row) as [r|]; [|reflexivity].
    destruct (zget r col); [|reflexivity]. destruct (zupd r col c) as [r'|]; [|reflexivity].
    destruct (zupd (v_next s) row r') as [g'|] eqn:Eg; [|reflexivity].
    apply zupd_length in Eg. unfold zlen in Eg. lia.
  - intros cols H. exact (proj2 (grid_upd_dims (v_next s) col row (fun _ => c) cols H)).
  - unfold grid_upd. destruct (zget (v_next s) row) as [r|]; [|reflexivity].
    destruct (zget r col) as [c0|]; [|reflexivity]. destruct (zupd r col (with_style st c0)) as [r'|]; [|reflexivity].
    destruct (zupd (v_next s) row r') as [g'|] eqn:Eg; [|reflexivity].
    apply zupd_length in Eg. unfold zlen in Eg. lia.
  - intros cols H. exact (proj2 (grid_upd_dims (v_next s) col row (with_style st) cols H)).
  - now rewrite map_length.
  - intros cols H r Hin. apply in_map_iff in Hin as [r0 [<- Hin0]].
    unfold zlen. rewrite map_length. exact (H r0 Hin0).
Qed.

Lemma ops_keep ops : forall s,
  let s1 := fold_left apply_op ops s in
  v_caps s1 = v_caps s /\ v_last s1 = v_last s /\ v_clast s1 = v_clast s /\
  v_refresh s1 = v_refresh s /\ v_mlast s1 = v_mlast s /\
  length (v_next s1) = length (v_next s) /\
  (forall cols, (forall r, In r (v_next s) -> zlen r = cols) -> forall r, In r (v_next s1) -> zlen r = cols).
Proof.
  induction ops as [|o ops IH]; intros s; cbn [fold_left]; [repeat split; auto|].
  destruct (apply_op_keeps s o) as [A [B [C [D [E [F G]]]]]].
  destruct (IH (apply_op s o)) as [A' [B' [C' [D' [E' [F' G']]]]]]. cbv zeta in *.
  repeat split; try congruence. intros cols H. apply G'. now apply G.
Qed.

Lemma ops_settled ops s t :
  settled s t -> settled (fold_left apply_op ops s) t.
Proof.
  intros [[Hnr [Hnl [Hnc Hlc]]] [R [C [P [L [V M]]]]]].
  destruct (ops_keep ops s) as [A [B [Cc [D [E [F G]]]]]]. cbv zeta in *.
  split.
  - split; [unfold zlen in *; lia|]. split; [congruence|]. split; [now apply G|]. now rewrite B.
  - repeat split; try assumption; congruence.
Qed.

Lemma ops_in_sync ops s t : in_sync s t -> in_sync (fold_left apply_op ops s) t.
Proof.
  destruct (ops_keep ops s) as [A [B [Cc _]]]. cbv zeta in *.
  unfold RenderFrame.in_sync, shows_last. now rewrite B, Cc.
Qed.

(* ---------- a size change ---------- *)
(* whatever the terminal shows after the change: only what a resize cannot disturb is kept *)
Definition resized (t t2 : term) (rows cols : Z) : Prop :=
  tm_rows t2 = rows /\ tm_cols t2 = cols /\ tm_pen t2 = tm_pen t /\ tm_link t2 = tm_link t /\
  tm_vis t2 = tm_vis t /\ tm_sync t2 = tm_sync t /\ tm_mouse t2 = tm_mouse t.

Lemma zrepeat_In {A} (x y : A) n : In y (zrepeat x n) -> y = x.
Proof. unfold zrepeat. apply repeat_spec. Qed.

Lemma resize_settled s t t2 rows cols :
  1 <= rows -> 1 <= cols -> settled s t -> resized t t2 rows cols -> settled (do_resize s rows cols) t2.
Proof.
  intros Hr Hc [_ [_ [_ [P [L [V M]]]]]] [R2 [C2 [P2 [L2 [V2 [_ M2]]]]]].
  unfold do_resize, blank_grid. split.
  - unfold dims_ok. cbn [v_next v_last].
    split; [rewrite zlen_repeat by lia; congruence|]. split; [reflexivity|].
    split; intros r Hin; apply zrepeat_In in Hin; subst r; rewrite zlen_repeat by lia; congruence.
  - cbn [v_clast v_mlast]. repeat split; try lia; congruence.
Qed.

(* ---------- histories ---------- *)
Definition frame := (list op * frame_end)%type.

(* what the property promises, frame after frame, as long as the content hypotheses hold *)
Fixpoint history_ok (s : vstate) (t : term) (fs : list frame) : Prop :=
  match fs with
  | [] => True
  | (ops, e) :: rest =>
      let s1 := fold_left apply_op ops s in
      match e with
      | FResize rows cols =>
          1 <= rows -> 1 <= cols ->
          forall t2, resized t t2 rows cols -> history_ok (do_resize s1 rows cols) t2 rest
      | _ =>
          content_ok s1 ->
          let '(s', o) := do_frame s ops e in
          let t' := interp tw t o in
          (shows_next s1 t' /\ cursor_rel (v_cnext s1) t' /\ tm_pen t' = tpen0 /\
           tm_link t' = ([], []) /\ tm_sync t' = tm_sync t) /\
          history_ok s' t' rest
      end
  end.

Lemma set_refresh_settled s t : settled s t -> settled (set_refresh s) t.
Proof. intros H. exact H. Qed.

Theorem history_correct fs : forall s t,
  v_caps s = cp -> settled s t -> (v_refresh s = false -> in_sync s t) -> history_ok s t fs.
Proof.
  induction fs as [|[ops e] rest IH]; intros s t Hcp Hs Hsy; cbn [history_ok]; [exact I|].
  cbv zeta. destruct (ops_keep ops s) as [A [B [Cc [D [E [F G]]]]]]. cbv zeta in *.
  set (s1 := fold_left apply_op ops s) in *.
  pose proof (ops_settled ops s t Hs) as Hs1. fold s1 in Hs1.
  assert (Hsy1 : v_refresh s1 = false -> in_sync s1 t).
  { intros Hr. rewrite D in Hr. exact (ops_in_sync ops s t (Hsy Hr)). }
  assert (Hcp1 : v_caps s1 = cp) by congruence.
  destruct e as [| |rows cols].
  - (* Render *)
    intros Hok. unfold do_frame. fold s1.
    pose proof (render_correct tw measure cp s1 t Hcp1 Hs1 Hsy1 Hok) as H.
    destruct (do_render s1) as [s' o]. cbv zeta in H |- *.
    destruct H as [S' [Y' [R' [N' [C' [SN [CR SY]]]]]]].
    split.
    { split; [exact SN|]. split; [exact CR|].
      destruct S' as [_ [_ [_ [P [L _]]]]]. split; [exact P|]. split; [exact L|exact SY]. }
    apply IH; [exact C'|exact S'|intros _; exact Y'].
  - (* Refresh *)
    intros Hok. unfold do_frame, do_refresh. fold s1.
    pose proof (render_correct tw measure cp (set_refresh s1) t Hcp1 Hs1
                  ltac:(intros Hr; discriminate) Hok) as H.
    destruct (do_render (set_refresh s1)) as [s' o]. cbv zeta in H |- *.
    destruct H as [S' [Y' [R' [N' [C' [SN [CR SY]]]]]]].
    split.
    { split; [exact SN|]. split; [exact CR|].
      destruct S' as [_ [_ [_ [P [L _]]]]]. split; [exact P|]. split; [exact L|exact SY]. }
    apply IH; [exact C'|exact S'|intros _; exact Y'].
  - (* size change *)
    intros Hr Hc t2 Hres. apply IH.
    + cbn. exact Hcp1.
    + exact (resize_settled s1 t t2 rows cols Hr Hc Hs1 Hres).
    + cbn. intros Hf; discriminate.
Qed.
End History.
