(* C18 - proofs about the SGR codec model (model/Sgr.v). *)
From Vx Require Import base.Prelude base.ListX model.Colour model.Sgr.
Require Import ZifyBool.

(* ------------------------------------------------------------------ *)
(* small facts                                                          *)

Lemma zlen_cons' {A} (x : A) l : zlen (x :: l) = 1 + zlen l.
Proof. rewrite zlen_cons; lia. Qed.

Lemma zget_0_nonempty {A} (l : list A) : l <> [] -> exists x, zget l 0 = Some x.
Proof. destruct l as [|x t]; [congruence | intros _; exists x; reflexivity]. Qed.

Definition nonempty (p : list Z) : Prop := p <> [].

Lemma nonempty_subs_spec ps : nonempty_subs ps = true <-> Forall nonempty ps.
Proof.
  unfold nonempty_subs; rewrite forallb_forall, Forall_forall; split; intros H p Hp; specialize (H p Hp).
  - intros ->; discriminate.
  - destruct p; [exfalso; apply H; reflexivity | reflexivity].
Qed.

Lemma sub_some ps i : Forall nonempty ps -> 0 <= i < zlen ps -> exists v, sub ps i 0 = Some v.
Proof.
  intros Hne Hi; unfold sub.
  destruct (zget_in_range ps i Hi) as [p Hp]; rewrite Hp.
  apply zget_0_nonempty; rewrite Forall_forall in Hne; apply Hne; eapply zget_In; eauto.
Qed.

(* ------------------------------------------------------------------ *)
(* parse_total                                                          *)

Lemma ext_colour_total st set ps p : Forall nonempty ps -> ext_colour st set ps p <> SPanic.
Proof.
  intros Hne; unfold ext_colour.
  destruct (zlen p =? 1) eqn:E1.
  { destruct (zlen ps <? 3) eqn:L3; [discriminate|].
    destruct (sub_some ps 1 Hne) as [k Hk]; [lia|]; rewrite Hk; cbn [opt_step].
    destruct (k =? 2) eqn:K2.
    - destruct (zlen ps <? 5) eqn:L5; [discriminate|].
      destruct (sub_some ps 2 Hne) as [r Hr]; [lia|]; destruct (sub_some ps 3 Hne) as [g Hg]; [lia|].
      destruct (sub_some ps 4 Hne) as [b Hb]; [lia|]; rewrite Hr, Hg, Hb; cbn [opt_step]; discriminate.
    - destruct (k =? 5); [|discriminate].
      destruct (sub_some ps 2 Hne) as [i Hi]; [lia|]; rewrite Hi; cbn [opt_step]; discriminate. }
  assert (G : forall j, 0 <= j < zlen p -> exists v, zget p j = Some v) by (intros; now apply zget_in_range).
  destruct (zlen p =? 3) eqn:E3.
  { destruct (G 1) as [k Hk]; [lia|]; destruct (G 2) as [i Hi]; [lia|]; rewrite Hk; cbn [opt_step].
    destruct (negb (k =? 5)); [discriminate|]; rewrite Hi; cbn [opt_step]; discriminate. }
  destruct (zlen p =? 5) eqn:E5.
  { destruct (G 1) as [k Hk]; [lia|]; destruct (G 2) as [r Hr]; [lia|]; destruct (G 3) as [g Hg]; [lia|].
    destruct (G 4) as [b Hb]; [lia|]; rewrite Hk; cbn [opt_step].
    destruct (negb (k =? 2)); [discriminate|]; rewrite Hr, Hg, Hb; cbn [opt_step]; discriminate. }
  destruct (zlen p =? 6) eqn:E6; [|discriminate].
  destruct (G 1) as [k Hk]; [lia|]; destruct (G 3) as [r Hr]; [lia|]; destruct (G 4) as [g Hg]; [lia|].
  destruct (G 5) as [b Hb]; [lia|]; rewrite Hk; cbn [opt_step].
  destruct (negb (k =? 2)); [discriminate|]; rewrite Hr, Hg, Hb; cbn [opt_step]; discriminate.
Qed.

Ltac split_ifs :=
  repeat match goal with
         | |- (if ?b then _ else _) <> _ => destruct b eqn:?
         end.

Lemma sgr_step_total st p rest : Forall nonempty (p :: rest) -> sgr_step st (p :: rest) <> SPanic.
Proof.
  intros Hne; pose proof Hne as Hne'; inversion Hne' as [|? ? Hp _]; subst.
  destruct p as [|k p']; [exfalso; apply Hp; reflexivity|].
  unfold sgr_step. rewrite zget_cons_0; cbn [opt_step]. rewrite zget_cons_0; cbn [opt_step].
  split_ifs; try discriminate; try (apply ext_colour_total; assumption).
  (* 4 with one sub-param *)
  destruct (zget_in_range (k :: p') 1) as [s Hs]; [lia|]; rewrite Hs; cbn [opt_step]; discriminate.
Qed.

Lemma sgr_loop_total ps : Forall nonempty ps -> forall skip st, sgr_loop skip st ps <> Panic.
Proof.
  induction ps as [|p rest IH]; intros Hne skip st; [discriminate|].
  pose proof Hne as Hne'; inversion Hne' as [|? ? _ Hrest]; subst.
  cbn [sgr_loop]; destruct skip as [|k]; [|apply IH; assumption].
  pose proof (sgr_step_total st p rest Hne) as Hs.
  destruct (sgr_step st (p :: rest)); [apply IH; assumption | discriminate | congruence].
Qed.

Lemma sgr_run_total ps st : Forall nonempty ps -> sgr_run ps st <> Panic.
Proof.
  intros Hne; unfold sgr_run; apply sgr_loop_total.
  destruct ps; [constructor; [discriminate | constructor] | assumption].
Qed.

Lemma styled_ext_total st set subs : styled_ext st set subs <> Panic.
Proof.
  unfold styled_ext.
  assert (G : forall j, 0 <= j < zlen subs -> exists v, zget subs j = Some v) by (intros; now apply zget_in_range).
  destruct (zlen subs =? 3) eqn:E3.
  { destruct (G 2) as [i Hi]; [lia|]; rewrite Hi; discriminate. }
  destruct (zlen subs =? 5) eqn:E5; [|discriminate].
  destruct (G 2) as [r Hr]; [lia|]; destruct (G 3) as [g Hg]; [lia|]; destruct (G 4) as [b Hb]; [lia|].
  rewrite Hr, Hg, Hb; discriminate.
Qed.

Lemma styled_param_total dflt st subs : nonempty subs -> styled_param dflt st subs <> Panic.
Proof.
  intros Hne; destruct subs as [|k t]; [exfalso; apply Hne; reflexivity|].
  unfold styled_param; rewrite zget_cons_0.
  split_ifs; try discriminate; try apply styled_ext_total.
  destruct (zget_in_range (k :: t) 1) as [s Hs]; [lia|]; rewrite Hs; discriminate.
Qed.

Lemma styled_params_total dflt ps : Forall nonempty ps -> forall st, styled_params dflt st ps <> Panic.
Proof.
  induction ps as [|p t IH]; intros Hne st; [discriminate|].
  inversion Hne as [|? ? Hp Ht]; subst; cbn [styled_params].
  pose proof (styled_param_total dflt st p Hp) as H1.
  destruct (styled_param dflt st p); [apply IH; assumption | congruence].
Qed.

Lemma styled_sgr_total dflt ps st : Forall nonempty ps -> styled_sgr dflt ps st <> Panic.
Proof.
  intros Hne; unfold styled_sgr; destruct ps; [discriminate|]; apply styled_params_total; assumption.
Qed.

(* ------------------------------------------------------------------ *)
(* colours                                                              *)

Inductive colour_shape : Z -> Prop :=
| CsDefault : colour_shape 0
| CsIndex n : 0 <= n < 256 -> colour_shape (index_color n)
| CsRgb r g b : 0 <= r < 256 -> 0 <= g < 256 -> 0 <= b < 256 -> colour_shape (rgb_color r g b).

Lemma wf_colour_shape c : wf_colourb c = true -> colour_shape c.
Proof.
  unfold wf_colourb, tag_indexed, tag_rgb; intros H.
  destruct (c =? 0) eqn:E0; [replace c with 0 by lia; constructor|].
  destruct ((16777216 <=? c) && (c <? 16777216 + 256)) eqn:E1.
  - replace c with (index_color (c - 16777216)) by (unfold index_color, tag_indexed; lia).
    constructor; lia.
  - cbn [orb] in H.
    set (v := c - 33554432).
    replace c with (rgb_color (v / 65536) ((v / 256) mod 256) (v mod 256)).
    + constructor; subst v; try (apply Z.mod_pos_bound; lia).
      split; [apply Z.div_pos; lia | apply Z.div_lt_upper_bound; lia].
    + unfold rgb_color, tag_rgb; subst v.
      pose proof (Z.div_mod (c - 33554432) 256 ltac:(lia)) as D1.
      pose proof (Z.div_mod ((c - 33554432) / 256) 256 ltac:(lia)) as D2.
      rewrite Z.div_div in D2 by lia. change (256 * 256) with 65536 in D2. lia.
Qed.

Lemma shape_wf c : colour_shape c -> wf_colourb c = true.
Proof.
  intros [| n Hn | r g b Hr Hg Hb]; unfold wf_colourb, index_color, rgb_color, tag_indexed, tag_rgb; lia.
Qed.

Lemma params_default : color_params 0 = [].
Proof. reflexivity. Qed.

Lemma params_index n : 0 <= n < 256 -> color_params (index_color n) = [n].
Proof.
  intros Hn; unfold color_params, is_indexed, index_color, tag_indexed, u8.
  replace ((n + 16777216) / 16777216) with 1 by (apply Z.div_unique with n; lia).
  cbn [Z.odd]. f_equal. symmetry; apply Z.mod_unique with 65536; lia.
Qed.

Lemma params_rgb r g b : 0 <= r < 256 -> 0 <= g < 256 -> 0 <= b < 256 ->
  color_params (rgb_color r g b) = [r; g; b].
Proof.
  intros Hr Hg Hb; unfold color_params, is_indexed, is_rgb, rgb_color, tag_indexed, tag_rgb, chR, chG, chB.
  set (c := r * 65536 + g * 256 + b + 33554432).
  replace (c / 16777216) with 2 by (apply Z.div_unique with (r * 65536 + g * 256 + b); subst c; lia).
  replace (c / 33554432) with 1 by (apply Z.div_unique with (r * 65536 + g * 256 + b); subst c; lia).
  cbn [Z.odd].
  replace (c / 65536) with (r + 512) by (apply Z.div_unique with (g * 256 + b); subst c; lia).
  replace (c / 256) with (r * 256 + g + 131072) by (apply Z.div_unique with b; subst c; lia).
  f_equal; [|f_equal; [|f_equal]].
  - symmetry; apply Z.mod_unique with 2; lia.
  - symmetry; apply Z.mod_unique with (r + 512); lia.
  - symmetry; apply Z.mod_unique with (r * 256 + g + 131072); subst c; lia.
Qed.

Lemma u8_small n : 0 <= n < 256 -> u8 n = n.
Proof. intros H; unfold u8; apply Z.mod_small; lia. Qed.

Lemma u8_range n : 0 <= u8 n < 256.
Proof. unfold u8; apply Z.mod_pos_bound; lia. Qed.

(* the colour render sends without the rgb capability is again a constructor value *)
Lemma as_index_shape c : colour_shape c -> colour_shape (as_index c).
Proof.
  intros Hc; unfold as_index, as_index_pal.
  destruct (negb (is_rgb c)); [assumption|].
  destruct (scan (split3 c) colorIndex3 0 None) as [[i d]|]; [|constructor].
  constructor; apply u8_range.
Qed.

Lemma eff_colour_shape rgb c : colour_shape c -> colour_shape (eff_colour rgb c).
Proof. destruct rgb; [trivial | apply as_index_shape]. Qed.

(* ------------------------------------------------------------------ *)
(* what a consumer must do with each sequence a producer can write      *)

Record consumer_ok (run : sgrseq -> pen -> res pen) : Prop := {
  c_fg_basic : forall n p, 0 <= n < 8 -> run [[30 + n]] p = Ok (set_fg p (index_color n));
  c_fg_bright : forall n p, 8 <= n < 16 -> run [[90 + (n - 8)]] p = Ok (set_fg p (index_color n));
  c_fg_index : forall n p, 0 <= n < 256 -> run [[38; 5; n]] p = Ok (set_fg p (index_color n));
  c_fg_rgb : forall r g b p, 0 <= r < 256 -> 0 <= g < 256 -> 0 <= b < 256 ->
             run [[38; 2; r; g; b]] p = Ok (set_fg p (rgb_color r g b));
  c_fg_reset : forall p, run [[39]] p = Ok (set_fg p 0);
  c_bg_basic : forall n p, 0 <= n < 8 -> run [[40 + n]] p = Ok (set_bg p (index_color n));
  c_bg_bright : forall n p, 8 <= n < 16 -> run [[100 + (n - 8)]] p = Ok (set_bg p (index_color n));
  c_bg_index : forall n p, 0 <= n < 256 -> run [[48; 5; n]] p = Ok (set_bg p (index_color n));
  c_bg_rgb : forall r g b p, 0 <= r < 256 -> 0 <= g < 256 -> 0 <= b < 256 ->
             run [[48; 2; r; g; b]] p = Ok (set_bg p (rgb_color r g b));
  c_bg_reset : forall p, run [[49]] p = Ok (set_bg p 0);
  c_ul_index : forall n p, 0 <= n < 256 -> run [[58; 5; n]] p = Ok (set_ul p (index_color n));
  c_ul_rgb : forall r g b p, 0 <= r < 256 -> 0 <= g < 256 -> 0 <= b < 256 ->
             run [[58; 2; r; g; b]] p = Ok (set_ul p (rgb_color r g b));
  c_ul_reset : forall p, run [[59]] p = Ok (set_ul p 0);
  c_uls_sub : forall k p, 0 <= k <= 5 -> run [[4; k]] p = Ok (set_uls p k);
  c_uls_single : forall p, run [[4]] p = Ok (set_uls p 1);
  c_uls_off : forall p, run [[24]] p = Ok (set_uls p 0);
  c_attr : forall a b f g u s, wf_attrb a = true -> wf_attrb b = true ->
           run_seqs run (attr_sgr a b) (mkPen f g u s a) = Ok (mkPen f g u s b)
}.

(* the 128 attribute masks and all their ordered pairs *)
Definition evens : list Z := map (fun i => 2 * Z.of_nat i) (seq 0 128).
Definition attr_pairs : list (Z * Z) := list_prod evens evens.

Lemma wf_attr_in a : wf_attrb a = true -> In a evens.
Proof.
  unfold wf_attrb; intros H.
  assert (He : Z.even a = true) by lia.
  apply Z.even_spec in He; destruct He as [m Hm].
  apply in_map_iff; exists (Z.to_nat m); split; [lia | apply in_seq; lia].
Qed.

Lemma map_eq_pointwise {A B} (f g : A -> B) l : map f l = map g l -> forall x, In x l -> f x = g x.
Proof.
  induction l as [|h t IH]; intros H x Hx; [destruct Hx|].
  cbn [map] in H; injection H as H1 H2; destruct Hx as [<-|Hx]; auto.
Qed.

Lemma attr_exhaustive_sgr f g u s :
  map (fun ab => run_seqs sgr_run (attr_sgr (fst ab) (snd ab)) (mkPen f g u s (fst ab))) attr_pairs
  = map (fun ab => Ok (mkPen f g u s (snd ab))) attr_pairs.
Proof. vm_compute. reflexivity. Qed.

Lemma attr_exhaustive_styled d f g u s :
  map (fun ab => run_seqs (styled_sgr d) (attr_sgr (fst ab) (snd ab)) (mkPen f g u s (fst ab))) attr_pairs
  = map (fun ab => Ok (mkPen f g u s (snd ab))) attr_pairs.
Proof. vm_compute. reflexivity. Qed.

Ltac enum_range n lo :=
  let H := fresh in
  assert (H : n = lo \/ n = lo + 1 \/ n = lo + 2 \/ n = lo + 3 \/ n = lo + 4 \/ n = lo + 5 \/ n = lo + 6 \/ n = lo + 7) by lia;
  cbn in H; repeat (destruct H as [H|H]; [subst n; reflexivity|]); subst n; reflexivity.

Lemma in_range_true k a b : a <= k <= b -> in_range k a b = true.
Proof. unfold in_range; lia. Qed.

Lemma attr_pair_in a b : wf_attrb a = true -> wf_attrb b = true -> In (a, b) attr_pairs.
Proof. intros Ha Hb; apply in_prod; apply wf_attr_in; assumption. Qed.

Lemma sgr_run_ok : consumer_ok sgr_run.
Proof.
  constructor.
  - intros n p H; enum_range n 0.
  - intros n p H; enum_range n 8.
  - intros n p H; rewrite <- (u8_small n H) at 2; reflexivity.
  - intros r g b p Hr Hg Hb.
    change (sgr_run [[38; 2; r; g; b]] p) with (Ok (set_fg p (rgb_color (u8 r) (u8 g) (u8 b)))).
    now rewrite !u8_small.
  - reflexivity.
  - intros n p H; enum_range n 0.
  - intros n p H; enum_range n 8.
  - intros n p H; rewrite <- (u8_small n H) at 2; reflexivity.
  - intros r g b p Hr Hg Hb.
    change (sgr_run [[48; 2; r; g; b]] p) with (Ok (set_bg p (rgb_color (u8 r) (u8 g) (u8 b)))).
    now rewrite !u8_small.
  - reflexivity.
  - intros n p H; rewrite <- (u8_small n H) at 2; reflexivity.
  - intros r g b p Hr Hg Hb.
    change (sgr_run [[58; 2; r; g; b]] p) with (Ok (set_ul p (rgb_color (u8 r) (u8 g) (u8 b)))).
    now rewrite !u8_small.
  - reflexivity.
  - intros k p H. change (sgr_run [[4; k]] p) with (Ok (uls_of_sub p k)).
    unfold uls_of_sub; now rewrite in_range_true.
  - reflexivity.
  - reflexivity.
  - intros a b f g u s Ha Hb.
    exact (map_eq_pointwise _ _ _ (attr_exhaustive_sgr f g u s) (a, b) (attr_pair_in a b Ha Hb)).
Qed.

Lemma styled_sgr_ok d : consumer_ok (styled_sgr d).
Proof.
  constructor.
  - intros n p H; enum_range n 0.
  - intros n p H; enum_range n 8.
  - intros n p H; rewrite <- (u8_small n H) at 2; reflexivity.
  - intros r g b p Hr Hg Hb.
    change (styled_sgr d [[38; 2; r; g; b]] p) with (Ok (set_fg p (rgb_color (u8 r) (u8 g) (u8 b)))).
    now rewrite !u8_small.
  - reflexivity.
  - intros n p H; enum_range n 0.
  - intros n p H; enum_range n 8.
  - intros n p H; rewrite <- (u8_small n H) at 2; reflexivity.
  - intros r g b p Hr Hg Hb.
    change (styled_sgr d [[48; 2; r; g; b]] p) with (Ok (set_bg p (rgb_color (u8 r) (u8 g) (u8 b)))).
    now rewrite !u8_small.
  - reflexivity.
  - intros n p H; rewrite <- (u8_small n H) at 2; reflexivity.
  - intros r g b p Hr Hg Hb.
    change (styled_sgr d [[58; 2; r; g; b]] p) with (Ok (set_ul p (rgb_color (u8 r) (u8 g) (u8 b)))).
    now rewrite !u8_small.
  - reflexivity.
  - intros k p H. change (styled_sgr d [[4; k]] p) with (Ok (uls_of_sub p k)).
    unfold uls_of_sub; now rewrite in_range_true.
  - reflexivity.
  - reflexivity.
  - intros a b f g u s Ha Hb.
    exact (map_eq_pointwise _ _ _ (attr_exhaustive_styled d f g u s) (a, b) (attr_pair_in a b Ha Hb)).
Qed.

(* the semicolon forms of the legacy quirk: parseSGR and the emulator read them *)
Record consumer_legacy_ok (run : sgrseq -> pen -> res pen) : Prop := {
  l_fg_index : forall n p, 0 <= n < 256 -> run [[38]; [5]; [n]] p = Ok (set_fg p (index_color n));
  l_fg_rgb : forall r g b p, 0 <= r < 256 -> 0 <= g < 256 -> 0 <= b < 256 ->
             run [[38]; [2]; [r]; [g]; [b]] p = Ok (set_fg p (rgb_color r g b));
  l_bg_index : forall n p, 0 <= n < 256 -> run [[48]; [5]; [n]] p = Ok (set_bg p (index_color n));
  l_bg_rgb : forall r g b p, 0 <= r < 256 -> 0 <= g < 256 -> 0 <= b < 256 ->
             run [[48]; [2]; [r]; [g]; [b]] p = Ok (set_bg p (rgb_color r g b))
}.

Lemma sgr_run_legacy_ok : consumer_legacy_ok sgr_run.
Proof.
  constructor.
  - intros n p H; rewrite <- (u8_small n H) at 2; reflexivity.
  - intros r g b p Hr Hg Hb.
    change (sgr_run [[38]; [2]; [r]; [g]; [b]] p) with (Ok (set_fg p (rgb_color (u8 r) (u8 g) (u8 b)))).
    now rewrite !u8_small.
  - intros n p H; rewrite <- (u8_small n H) at 2; reflexivity.
  - intros r g b p Hr Hg Hb.
    change (sgr_run [[48]; [2]; [r]; [g]; [b]] p) with (Ok (set_bg p (rgb_color (u8 r) (u8 g) (u8 b)))).
    now rewrite !u8_small.
Qed.

(* ------------------------------------------------------------------ *)
(* delta_correct                                                        *)

Lemma run_seqs_app run l1 l2 p :
  run_seqs run (l1 ++ l2) p = match run_seqs run l1 p with Ok p' => run_seqs run l2 p' | Panic => Panic end.
Proof.
  revert p; induction l1 as [|s t IH]; intros p; [reflexivity|].
  cbn [app run_seqs]; destruct (run s p); [apply IH | reflexivity].
Qed.

Lemma run_seqs_app_ok run l1 l2 p p1 :
  run_seqs run l1 p = Ok p1 -> run_seqs run (l1 ++ l2) p = run_seqs run l2 p1.
Proof. intros H; rewrite run_seqs_app, H; reflexivity. Qed.

Section Delta.
  Variable run : sgrseq -> pen -> res pen.
  Hypothesis Hok : consumer_ok run.
  (* the legacy quirk is either off or the consumer reads the semicolon forms *)
  Variable legacy : bool.
  Hypothesis Hleg : legacy = true -> consumer_legacy_ok run.

  Lemma fg_part c p : colour_shape c ->
    run_seqs run (fgbg_sgr legacy 30 90 38 39 (color_params c)) p = Ok (set_fg p c).
  Proof.
    intros [|n Hn|r g b Hr Hg Hb].
    - rewrite params_default; cbn [fgbg_sgr run_seqs]; now rewrite (c_fg_reset _ Hok).
    - rewrite params_index by assumption; cbn [fgbg_sgr].
      destruct (n <? 8) eqn:E8; [cbn [run_seqs]; now rewrite (c_fg_basic _ Hok) by lia|].
      destruct (n <? 16) eqn:E16; [cbn [run_seqs]; now rewrite (c_fg_bright _ Hok) by lia|].
      destruct legacy; cbn [run_seqs];
        [now rewrite (l_fg_index _ (Hleg eq_refl)) by lia | now rewrite (c_fg_index _ Hok) by lia].
    - rewrite params_rgb by assumption; cbn [fgbg_sgr]; destruct legacy; cbn [run_seqs];
        [now rewrite (l_fg_rgb _ (Hleg eq_refl)) | now rewrite (c_fg_rgb _ Hok)].
  Qed.

  Lemma bg_part c p : colour_shape c ->
    run_seqs run (fgbg_sgr legacy 40 100 48 49 (color_params c)) p = Ok (set_bg p c).
  Proof.
    intros [|n Hn|r g b Hr Hg Hb].
    - rewrite params_default; cbn [fgbg_sgr run_seqs]; now rewrite (c_bg_reset _ Hok).
    - rewrite params_index by assumption; cbn [fgbg_sgr].
      destruct (n <? 8) eqn:E8; [cbn [run_seqs]; now rewrite (c_bg_basic _ Hok) by lia|].
      destruct (n <? 16) eqn:E16; [cbn [run_seqs]; now rewrite (c_bg_bright _ Hok) by lia|].
      destruct legacy; cbn [run_seqs];
        [now rewrite (l_bg_index _ (Hleg eq_refl)) by lia | now rewrite (c_bg_index _ Hok) by lia].
    - rewrite params_rgb by assumption; cbn [fgbg_sgr]; destruct legacy; cbn [run_seqs];
        [now rewrite (l_bg_rgb _ (Hleg eq_refl)) | now rewrite (c_bg_rgb _ Hok)].
  Qed.

  Lemma ul_part c p : colour_shape c ->
    run_seqs run (ul_sgr (color_params c)) p = Ok (set_ul p c).
  Proof.
    intros [|n Hn|r g b Hr Hg Hb].
    - rewrite params_default; cbn [ul_sgr run_seqs]; now rewrite (c_ul_reset _ Hok).
    - rewrite params_index by assumption; cbn [ul_sgr run_seqs]; now rewrite (c_ul_index _ Hok).
    - rewrite params_rgb by assumption; cbn [ul_sgr run_seqs]; now rewrite (c_ul_rgb _ Hok).
  Qed.

  (* For ALL previous and next pens over the named constants (every ordered pair of the 128
     attribute masks, every colour, every underline style) and all capability combinations:
     the consumer, started on what the terminal holds for [prev], ends on what it must hold
     for [next]. *)
  Theorem delta_correct rgb smulx prev next :
    wf_penb prev = true -> wf_penb next = true ->
    run_seqs run (pen_delta legacy rgb smulx prev next) (eff_pen rgb smulx prev) = Ok (eff_pen rgb smulx next).
  Proof.
    destruct prev as [fp bp up sp ap], next as [fn bn un sn an].
    unfold wf_penb; cbn [fg bg ul uls attr]; intros Hp Hn.
    assert (Hfn : colour_shape fn) by (apply wf_colour_shape; lia).
    assert (Hbn : colour_shape bn) by (apply wf_colour_shape; lia).
    assert (Hun : colour_shape un) by (apply wf_colour_shape; lia).
    assert (Hap : wf_attrb ap = true) by lia.
    assert (Han : wf_attrb an = true) by lia.
    unfold pen_delta, eff_pen; cbn [fg bg ul uls attr].
    assert (Sfg : forall b u s a,
      run_seqs run (if fp =? fn then [] else fgbg_sgr legacy 30 90 38 39 (color_params (eff_colour rgb fn)))
        (mkPen (eff_colour rgb fp) b u s a) = Ok (mkPen (eff_colour rgb fn) b u s a)).
    { intros; destruct (Z.eqb_spec fp fn) as [->|_]; [reflexivity|].
      rewrite fg_part by apply eff_colour_shape, Hfn; reflexivity. }
    assert (Sbg : forall f u s a,
      run_seqs run (if bp =? bn then [] else fgbg_sgr legacy 40 100 48 49 (color_params (eff_colour rgb bn)))
        (mkPen f (eff_colour rgb bp) u s a) = Ok (mkPen f (eff_colour rgb bn) u s a)).
    { intros; destruct (Z.eqb_spec bp bn) as [->|_]; [reflexivity|].
      rewrite bg_part by apply eff_colour_shape, Hbn; reflexivity. }
    assert (Sul : forall f b s a,
      run_seqs run (if up =? un then [] else ul_sgr (color_params (eff_colour rgb un)))
        (mkPen f b (eff_colour rgb up) s a) = Ok (mkPen f b (eff_colour rgb un) s a)).
    { intros; destruct (Z.eqb_spec up un) as [->|_]; [reflexivity|].
      rewrite ul_part by apply eff_colour_shape, Hun; reflexivity. }
    destruct smulx.
    - erewrite run_seqs_app_ok by apply Sfg.
      erewrite run_seqs_app_ok by apply Sbg.
      erewrite run_seqs_app_ok by apply Sul.
      erewrite run_seqs_app_ok by (apply (c_attr _ Hok); assumption).
      destruct (Z.eqb_spec sp sn) as [->|Hne]; [reflexivity|].
      cbn [run_seqs]; rewrite (c_uls_sub _ Hok) by lia; reflexivity.
    - erewrite run_seqs_app_ok by apply Sfg.
      erewrite run_seqs_app_ok by apply Sbg.
      cbn [app].
      erewrite run_seqs_app_ok by (apply (c_attr _ Hok); assumption).
      destruct (Z.eqb_spec sp sn) as [->|Hne]; [reflexivity|].
      destruct (Z.eqb_spec sn 0) as [->|Hn0]; cbn [run_seqs].
      + rewrite (c_uls_off _ Hok). destruct (Z.eqb_spec sp 0); [lia | reflexivity].
      + rewrite (c_uls_single _ Hok). destruct (sp =? 0); reflexivity.
  Qed.
End Delta.

(* ------------------------------------------------------------------ *)
(* round trip and final reset                                           *)

Lemma decode_sgrs run st seqs toks :
  decode run st (map TSgr seqs ++ toks)
  = match run_seqs run seqs st with Ok st' => decode run st' toks | Panic => Panic end.
Proof.
  revert st; induction seqs as [|s t IH]; intros st; [reflexivity|].
  cbn [map app decode run_seqs]; destruct (run s st); [apply IH | reflexivity].
Qed.

Lemma decode_link run st a b toks : decode run st (link_delta a b ++ toks) = decode run st toks.
Proof. unfold link_delta; destruct (zlist_eqb (link a) (link b)); reflexivity. Qed.

Lemma decode_text run st g toks : g <> [] ->
  decode run st (TText g :: toks)
  = match decode run st toks with Ok (cs, fin) => Ok ((g, st) :: cs, fin) | Panic => Panic end.
Proof. destruct g; [congruence | reflexivity]. Qed.

Lemma list_eqb_Z_eq a b : zlist_eqb a b = true -> a = b.
Proof.
  revert b; induction a as [|x a IH]; intros [|y b] H; try discriminate; [reflexivity|].
  cbn in H. apply andb_prop in H as [H1 H2]. apply Z.eqb_eq in H1. f_equal; auto.
Qed.

Lemma list_eqb_Z_refl a : zlist_eqb a a = true.
Proof. induction a as [|x a IH]; [reflexivity|]; cbn; rewrite Z.eqb_refl; exact IH. Qed.

Lemma pen_eqb_eq a b : pen_eqb a b = true -> a = b.
Proof.
  destruct a as [a1 a2 a3 a4 a5], b as [b1 b2 b3 b4 b5]; unfold pen_eqb; cbn [fg bg ul uls attr]; intros H.
  repeat (apply andb_prop in H as [H ?]). f_equal; lia.
Qed.

Lemma pen_eqb_refl a : pen_eqb a a = true.
Proof. unfold pen_eqb; rewrite !Z.eqb_refl; reflexivity. Qed.

Lemma style_eqb_pen a b : style_eqb a b = true -> spen a = spen b.
Proof.
  unfold style_eqb; intros H; apply andb_prop in H as [H _]; apply andb_prop in H as [H _].
  now apply pen_eqb_eq.
Qed.

Definition wf_cell (c : cell) : Prop := wf_cellb c = true.
Definition wf_pcell (c : pcell) : Prop := wf_pcellb c = true.

Lemma wf_cell_inv g st : wf_cell (g, st) -> wf_penb (spen st) = true /\ g <> [].
Proof.
  unfold wf_cell, wf_cellb; cbn [fst snd]; intros H; apply andb_prop in H as [H1 H2]; split; [assumption|].
  intros ->; discriminate.
Qed.

Definition wf_scell (c : cell) : Prop := wf_scellb c = true.
Definition wf_spcell (c : pcell) : Prop := wf_spcellb c = true.

Lemma wf_cells_scells cs : Forall wf_cell cs -> Forall wf_scell cs.
Proof.
  apply Forall_impl; intros [g st] H; apply wf_cell_inv in H as [H _]; exact H.
Qed.

Lemma wf_pcells_spcells cs : Forall wf_pcell cs -> Forall wf_spcell cs.
Proof.
  apply Forall_impl; intros [g p]; unfold wf_pcell, wf_spcell, wf_pcellb, wf_spcellb; cbn [fst snd].
  intros H; apply andb_prop in H as [H _]; exact H.
Qed.

(* without blank cells nothing is dropped / nothing is drawn as a space *)
Lemma shown_cells_wf cs : Forall wf_cell cs -> shown_cells cs = map pcell_of cs.
Proof.
  unfold shown_cells; induction 1 as [|[g st] t Hc Ht IH]; [reflexivity|].
  apply wf_cell_inv in Hc as [_ Hg]. cbn [filter]; unfold nonblank at 1; cbn [fst].
  destruct g as [|r g]; [congruence|]. cbn [zlist_eqb list_eqb negb map]. f_equal; exact IH.
Qed.

Lemma shown_wf_pcells rgb smulx cs : Forall wf_pcell cs ->
  map (fun c : pcell => (shown (fst c), eff_pen rgb smulx (snd c))) cs
  = map (fun c : pcell => (fst c, eff_pen rgb smulx (snd c))) cs.
Proof.
  induction 1 as [|[g p] t Hc Ht IH]; [reflexivity|]. cbn [map fst snd]; rewrite IH.
  unfold wf_pcell, wf_pcellb in Hc; cbn [fst snd] in Hc; apply andb_prop in Hc as [_ Hg].
  destruct g; [discriminate | reflexivity].
Qed.

Lemma eff_pen_id p : eff_pen true true p = p.
Proof. destruct p as [a1 a2 a3 a4 a5]; reflexivity. Qed.

Section RoundTrip.
  Variable run : sgrseq -> pen -> res pen.
  Hypothesis Hok : consumer_ok run.
  Hypothesis Hreset : forall p, run [] p = Ok pen0.
  Variable legacy : bool.
  Hypothesis Hleg : legacy = true -> consumer_legacy_ok run.

  (* the encoder loop from any reachable cursor: every cell comes back with its own pen and
     the string ends with the pen reset (enc_loop_decode, below, for lists without blank cells) *)

  (* ... and with blank cells (empty grapheme) anywhere in the list: the pen of a blank cell is
     carried like any other, so every cell that has a grapheme still comes back with its own
     pen and the string still ends reset *)
  Lemma enc_loop_decode_blank cs : Forall wf_scell cs -> forall cur, wf_penb (spen cur) = true ->
    decode run (spen cur) (enc_loop legacy cur cs) = Ok (shown_cells cs, pen0).
  Proof.
    induction cs as [|[g st] t IH]; intros Hwf cur Hcur.
    - cbn [enc_loop]; unfold shown_cells; cbn [filter map]; destruct (style_eqb cur style0) eqn:E.
      + apply style_eqb_pen in E; cbn [decode]; rewrite E; reflexivity.
      + cbn [decode]; rewrite Hreset; reflexivity.
    - inversion Hwf as [|? ? Hc Ht]; subst. unfold wf_scell, wf_scellb in Hc; cbn [snd] in Hc.
      cbn [enc_loop]. rewrite decode_sgrs.
      pose proof (delta_correct run Hok legacy Hleg true true (spen cur) (spen st) Hcur Hc) as D.
      rewrite !eff_pen_id in D; rewrite D. rewrite decode_link.
      destruct g as [|r g].
      + change (shown_cells (([], st) :: t)) with (shown_cells t).
        cbn [decode]. exact (IH Ht st Hc).
      + change (shown_cells ((r :: g, st) :: t)) with ((r :: g, spen st) :: shown_cells t).
        rewrite decode_text by discriminate. rewrite (IH Ht st Hc); reflexivity.
  Qed.

  Lemma enc_loop_decode cs : Forall wf_cell cs -> forall cur, wf_penb (spen cur) = true ->
    decode run (spen cur) (enc_loop legacy cur cs) = Ok (map pcell_of cs, pen0).
  Proof.
    intros Hwf cur Hcur. rewrite <- (shown_cells_wf cs Hwf).
    apply enc_loop_decode_blank; [apply wf_cells_scells; assumption | assumption].
  Qed.

  Lemma render_loop_decode_blank rgb smulx cs : Forall wf_spcell cs -> forall cur, wf_penb cur = true ->
    decode run (eff_pen rgb smulx cur) (render_loop legacy rgb smulx cur cs)
    = Ok (map (fun c => (shown (fst c), eff_pen rgb smulx (snd c))) cs, pen0).
  Proof.
    induction cs as [|[g p] t IH]; intros Hwf cur Hcur.
    - cbn [render_loop decode map]; rewrite Hreset; reflexivity.
    - inversion Hwf as [|? ? Hp Ht]; subst.
      unfold wf_spcell, wf_spcellb in Hp; cbn [snd] in Hp.
      cbn [render_loop]. rewrite decode_sgrs, (delta_correct run Hok legacy Hleg rgb smulx cur p Hcur Hp).
      rewrite decode_text by (destruct g; discriminate). rewrite (IH Ht p Hp); reflexivity.
  Qed.

  Lemma render_loop_decode rgb smulx cs : Forall wf_pcell cs -> forall cur, wf_penb cur = true ->
    decode run (eff_pen rgb smulx cur) (render_loop legacy rgb smulx cur cs)
    = Ok (map (fun c => (fst c, eff_pen rgb smulx (snd c))) cs, pen0).
  Proof.
    intros Hwf cur Hcur. rewrite render_loop_decode_blank; [|apply wf_pcells_spcells; assumption | assumption].
    exact (f_equal (fun l => Ok (l, pen0)) (shown_wf_pcells rgb smulx cs Hwf)).
  Qed.
End RoundTrip.

Lemma wf_pen0 : wf_penb pen0 = true.
Proof. reflexivity. Qed.

Lemma eff_pen0 rgb smulx : eff_pen rgb smulx pen0 = pen0.
Proof. destruct rgb, smulx; reflexivity. Qed.

Lemma sgr_run_reset p : sgr_run [] p = Ok pen0.
Proof. reflexivity. Qed.

Lemma styled_reset p : styled_sgr pen0 [] p = Ok pen0.
Proof. reflexivity. Qed.

Lemma no_legacy run : false = true -> consumer_legacy_ok run.
Proof. discriminate. Qed.

Lemma sgr_legacy legacy : legacy = true -> consumer_legacy_ok sgr_run.
Proof. intros _; exact sgr_run_legacy_ok. Qed.

(* ------------------------------------------------------------------ *)
(* the producer vocabulary; consumers agree on it                       *)

Definition vocab (s : sgrseq) : Prop := in_vocab s = true.

Ltac by_codes H :=
  unfold mem in H; cbn [existsb basic_codes] in H;
  repeat (apply orb_prop in H as [H|H]; [apply Z.eqb_eq in H; subst; reflexivity|]); discriminate.

(* every sequence of the vocabulary means the same to parseSGR / the emulator and to
   NewStyledString; [d] is NewStyledString's default style, which only ESC[m refers to *)
Lemma agree_on_vocab s d p : vocab s -> (s = [] -> d = pen0) -> sgr_run s p = styled_sgr d s p.
Proof.
  unfold vocab; intros H Hd.
  destruct s as [|q [|q' s']]; [rewrite Hd by reflexivity; reflexivity | | discriminate].
  destruct q as [|k [|x [|y [|z [|w [|v q]]]]]]; cbn [in_vocab] in H; try discriminate.
  - by_codes H.
  - apply Z.eqb_eq in H; subst; reflexivity.
  - apply andb_prop in H as [H1 H2]; apply Z.eqb_eq in H2; subst; by_codes H1.
  - apply andb_prop in H as [H1 H2]; apply Z.eqb_eq in H2; subst; by_codes H1.
Qed.

Ltac enum_vocab n lo :=
  let H := fresh in
  assert (H : n = lo \/ n = lo + 1 \/ n = lo + 2 \/ n = lo + 3 \/ n = lo + 4 \/ n = lo + 5 \/ n = lo + 6 \/ n = lo + 7) by lia;
  cbn in H; repeat (destruct H as [H|H]; [rewrite H; repeat constructor|]); rewrite H; repeat constructor.

Lemma fg_vocab c : Forall vocab (fgbg_sgr false 30 90 38 39 (color_params c)).
Proof.
  unfold color_params; destruct (is_indexed c); [|destruct (is_rgb c); repeat constructor].
  pose proof (u8_range c) as R; set (n := u8 c) in *; cbn [fgbg_sgr].
  destruct (n <? 8) eqn:E8; [enum_vocab n 0|].
  destruct (n <? 16) eqn:E16; [enum_vocab n 8 | repeat constructor].
Qed.

Lemma bg_vocab c : Forall vocab (fgbg_sgr false 40 100 48 49 (color_params c)).
Proof.
  unfold color_params; destruct (is_indexed c); [|destruct (is_rgb c); repeat constructor].
  pose proof (u8_range c) as R; set (n := u8 c) in *; cbn [fgbg_sgr].
  destruct (n <? 8) eqn:E8; [enum_vocab n 0|].
  destruct (n <? 16) eqn:E16; [enum_vocab n 8 | repeat constructor].
Qed.

Lemma ul_vocab c : Forall vocab (ul_sgr (color_params c)).
Proof. unfold color_params; destruct (is_indexed c); [|destruct (is_rgb c)]; repeat constructor. Qed.

Lemma attr_vocab a b : Forall vocab (attr_sgr a b).
Proof.
  unfold attr_sgr; destruct (a =? b); [constructor|].
  repeat (apply Forall_app; split);
    repeat match goal with
           | |- Forall _ (opt ?c _) => destruct c; cbn [opt]
           | |- Forall _ (if ?c then _ else _) => destruct c
           | |- Forall _ (_ :: opt ?c _) => destruct c; cbn [opt]
           end; repeat constructor.
Qed.

(* whatever the pens (named constants or not) and capabilities: only vocabulary is written *)
Lemma pen_delta_vocab rgb smulx prev next : Forall vocab (pen_delta false rgb smulx prev next).
Proof.
  unfold pen_delta; repeat (apply Forall_app; split).
  - destruct (fg prev =? fg next); [constructor | apply fg_vocab].
  - destruct (bg prev =? bg next); [constructor | apply bg_vocab].
  - destruct smulx; [|constructor]. destruct (ul prev =? ul next); [constructor | apply ul_vocab].
  - apply attr_vocab.
  - destruct (uls prev =? uls next); [constructor|].
    destruct smulx; [repeat constructor|]. destruct (uls next =? 0); repeat constructor.
Qed.

Definition tok_vocab (t : tok) : Prop := match t with TSgr s => vocab s | _ => True end.

Lemma sgr_toks_vocab l toks : Forall vocab l -> Forall tok_vocab toks -> Forall tok_vocab (map TSgr l ++ toks).
Proof.
  intros Hl Ht; apply Forall_app; split; [|assumption].
  apply Forall_forall; intros t Hin; apply in_map_iff in Hin as [s [<- Hs]].
  rewrite Forall_forall in Hl; apply Hl, Hs.
Qed.

Lemma enc_loop_vocab cs : forall cur, Forall tok_vocab (enc_loop false cur cs).
Proof.
  induction cs as [|[g st] t IH]; intros cur; cbn [enc_loop].
  - destruct (style_eqb cur style0); repeat constructor.
  - apply sgr_toks_vocab; [apply pen_delta_vocab|].
    apply Forall_app; split; [|constructor; [exact I | apply IH]].
    unfold link_delta; destruct (zlist_eqb (link cur) (link st)); repeat constructor.
Qed.

Lemma render_loop_vocab rgb smulx cs : forall cur, Forall tok_vocab (render_loop false rgb smulx cur cs).
Proof.
  induction cs as [|[g p] t IH]; intros cur; cbn [render_loop]; [repeat constructor|].
  apply sgr_toks_vocab; [apply pen_delta_vocab | constructor; [exact I | apply IH]].
Qed.

Lemma decode_agree run1 run2 :
  (forall s p, vocab s -> run1 s p = run2 s p) ->
  forall toks, Forall tok_vocab toks -> forall st, decode run1 st toks = decode run2 st toks.
Proof.
  intros Hag toks; induction toks as [|t toks IH]; intros Hv st; [reflexivity|].
  inversion Hv as [|? ? Ht Hts]; subst; destruct t as [s|p l|g]; cbn [decode].
  - rewrite (Hag s st Ht); destruct (run2 s st); [apply IH; assumption | reflexivity].
  - apply IH; assumption.
  - destruct g; [apply IH; assumption | rewrite (IH Hts st); reflexivity].
Qed.

Lemma decode_agree_sgr_styled toks : Forall tok_vocab toks -> forall st,
  decode sgr_run st toks = decode (styled_sgr pen0) st toks.
Proof. apply decode_agree; intros s p Hs; apply agree_on_vocab; auto. Qed.

(* with the legacy quirk the vocabulary grows by the semicolon forms *)
Definition vocab_l (s : sgrseq) : Prop := in_vocab_legacy s = true.

Lemma vocab_incl s : vocab s -> vocab_l s.
Proof. unfold vocab, vocab_l, in_vocab_legacy; intros ->; reflexivity. Qed.

Lemma fgbg_vocab_l legacy b0 br ext rst c :
  Forall vocab (fgbg_sgr false b0 br ext rst (color_params c)) -> (ext = 38 \/ ext = 48) ->
  Forall vocab_l (fgbg_sgr legacy b0 br ext rst (color_params c)).
Proof.
  intros H Hext; destruct legacy; [|eapply Forall_impl; [apply vocab_incl | exact H]].
  revert H; unfold color_params; destruct (is_indexed c); [|destruct (is_rgb c)]; cbn [fgbg_sgr].
  - destruct (u8 c <? 8); [intros H; eapply Forall_impl; [apply vocab_incl | exact H]|].
    destruct (u8 c <? 16); [intros H; eapply Forall_impl; [apply vocab_incl | exact H]|].
    intros _; destruct Hext as [-> | ->]; repeat constructor.
  - intros _; destruct Hext as [-> | ->]; repeat constructor.
  - intros H; eapply Forall_impl; [apply vocab_incl | exact H].
Qed.

Lemma pen_delta_vocab_l legacy rgb smulx prev next : Forall vocab_l (pen_delta legacy rgb smulx prev next).
Proof.
  pose proof (pen_delta_vocab rgb smulx prev next) as H; unfold pen_delta in *.
  apply Forall_app in H as [H1 H]; apply Forall_app in H as [H2 H].
  apply Forall_app; split; [|apply Forall_app; split].
  - destruct (fg prev =? fg next); [constructor|]. apply fgbg_vocab_l; [apply fg_vocab | auto].
  - destruct (bg prev =? bg next); [constructor|]. apply fgbg_vocab_l; [apply bg_vocab | auto].
  - eapply Forall_impl; [apply vocab_incl | exact H].
Qed.

(* vocabulary sequences have no empty sub-list *)
Lemma vocab_nonempty s : vocab s -> Forall nonempty s.
Proof.
  unfold vocab; destruct s as [|q [|q' s']]; intros H; [constructor | | discriminate].
  destruct q; [discriminate|]; repeat constructor; discriminate.
Qed.

(* ------------------------------------------------------------------ *)
(* the model satisfies the predicates the differential run evaluates    *)

Lemma pcell_eqb_eq a b : pcell_eqb a b = true -> a = b.
Proof.
  destruct a as [g p], b as [g' p']; unfold pcell_eqb; cbn [fst snd]; intros H.
  apply andb_prop in H as [H1 H2]; apply list_eqb_Z_eq in H1; apply pen_eqb_eq in H2; congruence.
Qed.

Lemma pcells_eqb_eq a b : pcells_eqb a b = true -> a = b.
Proof.
  revert b; induction a as [|x a IH]; intros [|y b] H; try discriminate; [reflexivity|].
  cbn in H; apply andb_prop in H as [H1 H2]; apply pcell_eqb_eq in H1; f_equal; auto.
Qed.

Lemma pcells_eqb_refl a : pcells_eqb a a = true.
Proof.
  induction a as [|[g p] a IH]; [reflexivity|].
  cbn; unfold pcell_eqb; cbn [fst snd]; rewrite list_eqb_Z_refl, pen_eqb_refl; exact IH.
Qed.

(* the round-trip predicate of the differential run *)
Lemma cells_match_shown cs : cells_match (map pcell_of cs) (shown_cells cs) = true.
Proof.
  induction cs as [|[g st] t IH]; [reflexivity|].
  destruct g as [|r g].
  - change (shown_cells (([], st) :: t)) with (shown_cells t).
    cbn [map pcell_of fst snd cells_match zlist_eqb list_eqb]. rewrite IH; reflexivity.
  - change (shown_cells ((r :: g, st) :: t)) with ((r :: g, spen st) :: shown_cells t).
    cbn [map pcell_of fst snd cells_match zlist_eqb list_eqb].
    unfold pcell_eqb; cbn [fst snd]; rewrite list_eqb_Z_refl, pen_eqb_refl, IH; reflexivity.
Qed.

(* without blank cells it is plain equality of the cell lists (the predicate used before) *)
Lemma cells_match_nonblank want : forallb nonblank want = true ->
  forall got, cells_match want got = pcells_eqb got want.
Proof.
  induction want as [|[g p] t IH]; intros Hn got.
  - destruct got; reflexivity.
  - cbn [forallb] in Hn; apply andb_prop in Hn as [Hg Ht]; unfold nonblank in Hg; cbn [fst] in Hg.
    cbn [cells_match]. destruct (zlist_eqb g []); [discriminate|].
    destruct got as [|c got]; [reflexivity|]. cbn [pcells_eqb list_eqb]. rewrite (IH Ht got); reflexivity.
Qed.

Lemma forallb_Forall {A} (f : A -> bool) l : forallb f l = true -> Forall (fun x => f x = true) l.
Proof. intros H; apply Forall_forall; apply forallb_forall; exact H. Qed.

Lemma res_cells_eqb_ok want fin cs f :
  res_cells_eqb (Ok (want, fin)) cs f = true -> cs = want /\ f = fin.
Proof.
  unfold res_cells_eqb; intros H; apply andb_prop in H as [H1 H2].
  apply pcells_eqb_eq in H1; apply pen_eqb_eq in H2; auto.
Qed.

Lemma res_only_cells_eqb_ok want fin cs :
  res_only_cells_eqb (Ok (want, fin)) cs = true -> cs = want.
Proof. unfold res_only_cells_eqb; intros H; apply pcells_eqb_eq in H; auto. Qed.

Ltac use_eqs :=
  repeat match goal with
         | X : res_cells_eqb (Ok _) _ _ = true |- _ => apply res_cells_eqb_ok in X as [? ?]
         | X : res_only_cells_eqb (Ok _) _ = true |- _ => apply res_only_cells_eqb_ok in X
         end;
  repeat match goal with
         | X : _ = shown_cells _ |- _ => rewrite X
         | X : _ = map _ _ |- _ => rewrite X
         | X : _ = pen0 |- _ => rewrite X
         end; rewrite ?cells_match_shown, ?pcells_eqb_refl; try reflexivity.

(* An observation that equals the model's prediction satisfies the property predicate:
   completely when the legacy quirk is off, and up to NewStyledString-on-EncodeCells when on.
   The cells may be blank (empty grapheme) anywhere. *)
Theorem codec_model_holds c : codec_model_ok c = true ->
  codec_holds_gen false c = true /\ (fst (fst c) = false -> codec_holds c = true).
Proof.
  destruct c as [[legacy cells] o]; unfold codec_holds, codec_model_ok, codec_holds_gen; cbn [fst].
  destruct (forallb wf_scellb cells) eqn:W; [|split; reflexivity].
  apply forallb_Forall in W. intros H.
  unfold parse_styled_string, term_feed, new_styled_string, encode_cells, ss_encode in H.
  change (decode parse_sgr) with (decode sgr_run) in H; change (decode term_sgr) with (decode sgr_run) in H.
  pose proof (enc_loop_decode_blank sgr_run sgr_run_ok sgr_run_reset legacy (sgr_legacy legacy) cells W style0 wf_pen0) as R1.
  pose proof (enc_loop_decode_blank (styled_sgr pen0) (styled_sgr_ok pen0) styled_reset false (no_legacy _) cells W style0 wf_pen0) as R2.
  change (spen style0) with pen0 in R1, R2. rewrite R1, R2 in H.
  repeat (apply andb_prop in H as [H ?]).
  split; [|intros ->; rewrite R2 in *];
    (destruct (forallb no_link cells);
     [ match goal with X : _ && _ = true |- _ => apply andb_prop in X as [? ?] end | ]; use_eqs).
Qed.

Theorem render_model_holds c : render_model_ok c = true ->
  render_holds_gen false c = true /\ (fst (fst (fst (fst c))) = false -> render_holds c = true).
Proof.
  destruct c as [[[[legacy rgb] smulx] cells] o]; unfold render_holds, render_model_ok, render_holds_gen; cbn [fst].
  destruct (forallb wf_spcellb cells) eqn:W; [|split; reflexivity].
  apply forallb_Forall in W. intros H.
  unfold parse_styled_string, term_feed, new_styled_string, render_row in H.
  change (decode parse_sgr) with (decode sgr_run) in H; change (decode term_sgr) with (decode sgr_run) in H.
  pose proof (render_loop_decode_blank sgr_run sgr_run_ok sgr_run_reset legacy (sgr_legacy legacy) rgb smulx cells W pen0 wf_pen0) as R1.
  rewrite eff_pen0 in R1. rewrite R1 in H.
  split.
  - repeat (apply andb_prop in H as [H ?]). use_eqs.
  - intros ->.
    pose proof (render_loop_decode_blank (styled_sgr pen0) (styled_sgr_ok pen0) styled_reset false (no_legacy _) rgb smulx cells W pen0 wf_pen0) as R2.
    rewrite eff_pen0 in R2. rewrite R2 in H.
    repeat (apply andb_prop in H as [H ?]). use_eqs.
Qed.

Lemma obs_eqb_ok r o : obs_eqb r o = true -> r <> Panic -> fst o = 0 /\ r = Ok (snd o).
Proof.
  destruct r as [p|]; [|congruence]; cbn [obs_eqb]; intros H _.
  apply andb_prop in H as [H1 H2]; apply pen_eqb_eq in H2; split; [lia | congruence].
Qed.

Theorem sgr_model_holds c : sgr_model_ok c = true -> sgr_holds c = true.
Proof.
  destruct c as [[st ps] o]; unfold sgr_model_ok, sgr_holds.
  destruct (nonempty_subs ps) eqn:N; [|reflexivity].
  apply nonempty_subs_spec in N. intros H.
  apply andb_prop in H as [H H3]; apply andb_prop in H as [H1 H2].
  apply obs_eqb_ok in H1 as [C0 C1]; [|apply sgr_run_total; assumption].
  apply obs_eqb_ok in H2 as [T0 T1]; [|apply sgr_run_total; assumption].
  unfold parse_sgr in C1; unfold term_sgr in T1.
  rewrite C0, T0; cbn [Z.eqb andb].
  destruct (s_printable o); [|rewrite andb_false_r; reflexivity].
  apply andb_prop in H3 as [H3 H4].
  apply obs_eqb_ok in H3 as [S0 S1]; [|apply styled_sgr_total; assumption].
  apply obs_eqb_ok in H4 as [P0 P1]; [|apply sgr_run_total; assumption].
  rewrite S0, P0; cbn [Z.eqb andb]. rewrite andb_true_r.
  destruct (forallb in_vocab [ps]) eqn:V; [|reflexivity].
  cbn [forallb] in V; rewrite andb_true_r in V.
  assert (E : snd (s_cell o) = snd (s_term o)) by congruence.
  rewrite E, pen_eqb_refl; cbn [andb].
  destruct (pen_eqb st pen0 || negb (zlen ps =? 0)) eqn:G; [|reflexivity].
  assert (Hd : ps = [] -> st = pen0).
  { intros ->; cbn in G; rewrite orb_false_r in G; now apply pen_eqb_eq. }
  rewrite (agree_on_vocab ps st st V Hd) in T1.
  assert (E2 : snd (s_term o) = snd (s_styled o)) by congruence.
  rewrite E2; apply pen_eqb_refl.
Qed.
