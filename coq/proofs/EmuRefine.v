(* C12 - the embedded terminal emulator (model/Term.v) simulates the reference terminal
   (model/RefTerm.v) on the vocabulary the renderer writes under term_caps. *)
From Vx Require Import base.Prelude base.ListX model.Colour model.RenderTypes model.Render model.RefTerm
  model.RenderSpec model.RenderCheck model.Gate model.EmuSpec model.EmuBridge.
From Vx Require model.Sgr model.Term model.VtSpec model.TermAbs proofs.SgrProofs proofs.TermProofs proofs.TermRefine
  proofs.TermRefine3 proofs.TermRefine4 proofs.TermRefine5.
Require Import ZifyBool Lia.

Local Open Scope Z_scope.

Module TP := Vx.proofs.TermProofs.
Module TR := Vx.proofs.TermRefine.
Module TR3 := Vx.proofs.TermRefine3.
Module TR4 := Vx.proofs.TermRefine4.
Module SP := Vx.proofs.SgrProofs.
Module TR5 := Vx.proofs.TermRefine5.
Module VS := Vx.model.VtSpec.
Module TA := Vx.model.TermAbs.

Ltac case_if :=
  match goal with
  | |- context[if ?b then _ else _] =>
      lazymatch b with
      | context[if _ then _ else _] => fail
      | _ => destruct b eqn:?
      end
  end.

(* ------------------------------------------------------------------ small facts *)

Lemma zlist_eqb_refl l : zlist_eqb l l = true.
Proof. unfold zlist_eqb. induction l; simpl; auto. rewrite Z.eqb_refl; auto. Qed.

Lemma tpen_eqb_refl p : tpen_eqb p p = true.
Proof. unfold tpen_eqb. rewrite !zlist_eqb_refl, !Z.eqb_refl. reflexivity. Qed.

Lemma tlink_eqb_refl l : tlink_eqb l l = true.
Proof. unfold tlink_eqb. rewrite !zlist_eqb_refl. reflexivity. Qed.

Lemma color_params_index n : 0 <= n <= 255 -> color_params (index_color n) = [n].
Proof.
  intros H. unfold color_params, index_color, is_indexed, tag_indexed, u8.
  replace ((n + 16777216) / 16777216) with 1 by (apply (Z.div_unique _ _ 1 n); lia).
  cbn [Z.odd]. f_equal. rewrite <- (Z.mod_small n 256) at 2 by lia.
  replace 16777216 with (65536 * 256) by reflexivity. now rewrite Z.mod_add by lia.
Qed.

(* the modes, unpacked *)
Lemma vaxis_modes_facts t : vaxis_modes t = true ->
  T.m_awm (T.t_md t) = true /\ T.m_irm (T.t_md t) = false /\ T.cs_ss (T.t_cs t) = false /\
  T.des_of (T.t_cs t) = 0 /\ T.t_top t = 0 /\ T.t_bot t = T.height t - 1.
Proof. unfold vaxis_modes. intros H. repeat (apply andb_prop in H; destruct H as [H ?]). repeat split; lia. Qed.

(* a step that leaves the screens, modes, character sets and margins alone keeps the modes *)
Lemma vaxis_modes_frame t t' :
  T.t_md t' = T.t_md t -> T.t_cs t' = T.t_cs t -> T.t_top t' = T.t_top t -> T.t_bot t' = T.t_bot t ->
  T.height t' = T.height t -> vaxis_modes t = true -> vaxis_modes t' = true.
Proof. intros E1 E2 E3 E4 E5 H. unfold vaxis_modes in *. now rewrite E1, E2, E3, E4, E5. Qed.

Definition okstep (e w h : Z) (res : T.tres T.term) (r' : term) : Prop :=
  exists t', res = T.TOk t' /\ TP.WFs0 e w h t' /\ vaxis_modes t' = true /\ emu_rel t' r'.

(* ------------------------------------------------------------------ SGR arithmetic *)

Lemma byte_ind (P : Z -> bool) :
  forallb P (map Z.of_nat (seq 0 256)) = true -> forall a, 0 <= a < 256 -> P a = true.
Proof.
  intros H a Ha. rewrite forallb_forall in H. apply H.
  apply in_map_iff. exists (Z.to_nat a). split; [lia|]. apply in_seq. lia.
Qed.

(* what the five SGR-controlled fields of the emulator's pen show *)
Definition shown_pen (p : S.pen) : tpen :=
  {| t_fg := color_params (S.fg p); t_bg := color_params (S.bg p); t_ul := color_params (S.ul p);
     t_uls := S.uls p; t_attr := S.attr p - S.attr p mod 2 |}.

Lemma shown_to p l lp : shown cp_full (to_rstyle (S.mkStyle p l lp)) = shown_pen p.
Proof. reflexivity. Qed.

Lemma shown_link_to p l lp : shown_link (to_rstyle (S.mkStyle p l lp)) = if nonempty l then (lp, l) else ([], []).
Proof. reflexivity. Qed.

(* the attribute a plain SGR code leaves in the emulator's mask *)
Definition emu_attr (n a : Z) : Z :=
  if n =? 1 then Z.lor a 2 else if n =? 2 then Z.lor a 4 else if n =? 3 then Z.lor a 8
  else if n =? 5 then Z.lor a 16 else if n =? 7 then Z.lor a 32 else if n =? 8 then Z.lor a 64
  else if n =? 9 then Z.lor a 128 else if n =? 22 then Z.ldiff (Z.ldiff a 2) 4
  else if n =? 23 then Z.ldiff a 8 else if n =? 25 then Z.ldiff a 16 else if n =? 27 then Z.ldiff a 32
  else if n =? 28 then Z.ldiff a 64 else if n =? 29 then Z.ldiff a 128 else a.
Definition emu_uls (n u : Z) : Z := if n =? 4 then 1 else if n =? 24 then 0 else u.

Definition plain_codes : list Z := [1; 2; 3; 4; 5; 7; 8; 9; 22; 23; 24; 25; 27; 28; 29].

Lemma attr_bits_ok a : 0 <= a < 256 ->
  forallb (fun n =>
    (t_attr (sgr_plain {| t_fg := []; t_bg := []; t_ul := []; t_uls := 0; t_attr := a - a mod 2 |} n)
       =? emu_attr n a - emu_attr n a mod 2) && (0 <=? emu_attr n a) && (emu_attr n a <? 256)) plain_codes = true.
Proof.
  intros Ha.
  apply (byte_ind (fun a => forallb (fun n =>
    (t_attr (sgr_plain {| t_fg := []; t_bg := []; t_ul := []; t_uls := 0; t_attr := a - a mod 2 |} n)
       =? emu_attr n a - emu_attr n a mod 2) && (0 <=? emu_attr n a) && (emu_attr n a <? 256)) plain_codes));
    [vm_compute; reflexivity | exact Ha].
Qed.

(* sgr_plain touches the attribute mask and the underline style only, each by itself *)
Lemma sgr_plain_fields p n : In n plain_codes ->
  sgr_plain p n =
  {| t_fg := t_fg p; t_bg := t_bg p; t_ul := t_ul p; t_uls := emu_uls n (t_uls p);
     t_attr := t_attr (sgr_plain {| t_fg := []; t_bg := []; t_ul := []; t_uls := 0; t_attr := t_attr p |} n) |}.
Proof.
  intros Hn. destruct p. unfold plain_codes in Hn. cbn [In] in Hn.
  repeat (destruct Hn as [<-|Hn]; [reflexivity|]). destruct Hn.
Qed.

(* the emulator's SGR consumer on one plain code *)
Lemma emu_plain n p : In n plain_codes ->
  S.term_sgr [[n]] p = S.Ok (S.mkPen (S.fg p) (S.bg p) (S.ul p) (emu_uls n (S.uls p)) (emu_attr n (S.attr p))).
Proof.
  intros Hn. destruct p. unfold plain_codes in Hn. cbn [In] in Hn.
  repeat (destruct Hn as [<-|Hn]; [reflexivity|]). destruct Hn.
Qed.

Lemma plain_code n p : In n plain_codes -> 0 <= S.attr p < 256 ->
  exists p', S.term_sgr [[n]] p = S.Ok p' /\ shown_pen p' = sgr_plain (shown_pen p) n /\ 0 <= S.attr p' < 256.
Proof.
  intros Hn Ha. eexists; split; [apply (emu_plain n p Hn)|].
  pose proof (attr_bits_ok (S.attr p) Ha) as Hb. rewrite forallb_forall in Hb. specialize (Hb n Hn).
  apply andb_prop in Hb; destruct Hb as [Hb H3]. apply andb_prop in Hb; destruct Hb as [H1 H2].
  split; [|cbn; lia].
  rewrite (sgr_plain_fields (shown_pen p) n Hn). unfold shown_pen; cbn [S.fg S.bg S.ul S.uls S.attr t_fg t_bg t_ul t_uls t_attr].
  f_equal. symmetry. apply Z.eqb_eq. exact H1.
Qed.

(* colours of at most one parameter *)
Lemma colon_fg st n : 0 <= n <= 255 -> S.term_sgr [[38; 5; n]] st = S.Ok (S.set_fg st (index_color n)).
Proof.
  intros Hn. unfold S.term_sgr, S.sgr_run. cbn [S.sgr_loop].
  assert (E : S.sgr_step st [[38; 5; n]] = S.SCont (S.set_fg st (index_color (u8 n))) 0) by reflexivity.
  rewrite E, TR5.u8_small by lia. reflexivity.
Qed.
Lemma colon_bg st n : 0 <= n <= 255 -> S.term_sgr [[48; 5; n]] st = S.Ok (S.set_bg st (index_color n)).
Proof.
  intros Hn. unfold S.term_sgr, S.sgr_run. cbn [S.sgr_loop].
  assert (E : S.sgr_step st [[48; 5; n]] = S.SCont (S.set_bg st (index_color (u8 n))) 0) by reflexivity.
  rewrite E, TR5.u8_small by lia. reflexivity.
Qed.

Lemma emu_fg st ps : colour_ok ps = true ->
  exists params, enc_colour 30 90 38 39 ps = [T.TCsi [] params 109] /\
    S.term_sgr params st = S.Ok (S.set_fg st (match ps with [n] => index_color n | _ => 0 end)).
Proof.
  intros Hc. destruct ps as [|n [|m rest]]; cbn in Hc; try discriminate.
  - eexists; split; reflexivity.
  - unfold enc_colour. destruct (n <? 8) eqn:E8; [|destruct (n <? 16) eqn:E16].
    + eexists; split; [reflexivity|]. apply (TR5.sim_sgr_pen [VS.SFg n] st). cbn. unfold in_range. lia.
    + eexists; split; [reflexivity|]. replace n with (n - 8 + 8) at 2 by lia.
      apply (TR5.sim_sgr_pen [VS.SFgBright (n - 8)] st). cbn. unfold in_range. lia.
    + eexists; split; [reflexivity|]. apply colon_fg. lia.
Qed.

Lemma emu_bg st ps : colour_ok ps = true ->
  exists params, enc_colour 40 100 48 49 ps = [T.TCsi [] params 109] /\
    S.term_sgr params st = S.Ok (S.set_bg st (match ps with [n] => index_color n | _ => 0 end)).
Proof.
  intros Hc. destruct ps as [|n [|m rest]]; cbn in Hc; try discriminate.
  - eexists; split; reflexivity.
  - unfold enc_colour. destruct (n <? 8) eqn:E8; [|destruct (n <? 16) eqn:E16].
    + eexists; split; [reflexivity|]. apply (TR5.sim_sgr_pen [VS.SBg n] st). cbn. unfold in_range. lia.
    + eexists; split; [reflexivity|]. replace n with (n - 8 + 8) at 2 by lia.
      apply (TR5.sim_sgr_pen [VS.SBgBright (n - 8)] st). cbn. unfold in_range. lia.
    + eexists; split; [reflexivity|]. apply colon_bg. lia.
Qed.

Lemma colour_shown ps : colour_ok ps = true ->
  color_params (match ps with [n] => index_color n | _ => 0 end) = ps.
Proof.
  intros Hc. destruct ps as [|n [|m rest]]; cbn in Hc; try discriminate; [reflexivity|].
  apply color_params_index. lia.
Qed.

(* ------------------------------------------------------------------ the pen *)

Section Steps.
Variables (tw : list Z -> Z) (e w h : Z) (t : T.term) (r : term).
Hypothesis HW : TP.WFs0 e w h t.
Hypothesis HM : vaxis_modes t = true.
Hypothesis HR : emu_rel t r.

Lemma dims : tm_rows r = h /\ tm_cols r = w.
Proof.
  destruct HR as [Hr Hc _ _ _ _ _ _]. rewrite <- Hr, <- Hc.
  split; [apply (TP.WFs_height e w h t HW) | apply (TP.WFs_width e w h t HW)].
Qed.

(* a step that only changes the pen *)
Lemma pen_step p' tp tl :
  pen_shows (S.mkStyle p' (S.link (T.t_pen t)) (S.linkp (T.t_pen t))) tp tl ->
  okstep e w h (T.TOk (T.set_pen t (S.mkStyle p' (S.link (T.t_pen t)) (S.linkp (T.t_pen t)))))
         (set_link (set_pen r tp) tl).
Proof.
  intros Hp. eexists; split; [reflexivity|]. split; [now apply TP.WFs_set_pen|].
  split; [eapply vaxis_modes_frame; try exact HM; reflexivity|].
  destruct HR. constructor; auto.
Qed.

Lemma sgr_step params p' :
  S.term_sgr params (S.spen (T.t_pen t)) = S.Ok p' ->
  forall tp, pen_shows (S.mkStyle p' (S.link (T.t_pen t)) (S.linkp (T.t_pen t))) tp (tm_link r) ->
  okstep e w h (T.update t (T.TCsi [] params 109)) (set_pen r tp).
Proof.
  intros Hs tp Hp.
  change (T.update t (T.TCsi [] params 109)) with (T.sgr t params). unfold T.sgr. rewrite Hs.
  replace (set_pen r tp) with (set_link (set_pen r tp) (tm_link r)) by (destruct r; reflexivity).
  now apply pen_step.
Qed.


(* the pen relation, unpacked *)
Lemma pen_facts :
  shown_pen (S.spen (T.t_pen t)) = tm_pen r /\
  (if nonempty (S.link (T.t_pen t)) then (S.linkp (T.t_pen t), S.link (T.t_pen t)) else ([], [])) = tm_link r /\
  0 <= S.attr (S.spen (T.t_pen t)) < 256.
Proof. destruct HR as [_ _ _ _ _ [H1 [H2 H3]] _ _]. destruct (T.t_pen t) as [sp l lp]. auto. Qed.

Lemma pen_shows_new p' tp :
  shown_pen p' = tp -> 0 <= S.attr p' < 256 ->
  pen_shows (S.mkStyle p' (S.link (T.t_pen t)) (S.linkp (T.t_pen t))) tp (tm_link r).
Proof.
  intros H1 H2. destruct pen_facts as [_ [Hl _]].
  split; [rewrite shown_to; exact H1|]. split; [rewrite shown_link_to; exact Hl | exact H2].
Qed.

Lemma step_sgr_reset : okstep e w h (emu_toks tw t [KSgrReset]) (interp1 tw r KSgrReset).
Proof.
  unfold emu_toks. cbn [flat_map enc_tok app emu_feed interp1].
  destruct (sgr_step [] S.pen0 eq_refl tpen0) as [t' [E H]].
  - apply pen_shows_new; [reflexivity | cbn; lia].
  - rewrite E. cbn [T.tbind emu_feed]. exists t'; auto.
Qed.

Lemma step_fg ps : colour_ok ps = true -> zlen ps <= 1 ->
  okstep e w h (emu_toks tw t [KFg ps]) (interp1 tw r (KFg ps)).
Proof.
  intros Hc _. unfold emu_toks. cbn [flat_map enc_tok app interp1]. rewrite app_nil_r.
  destruct (emu_fg (S.spen (T.t_pen t)) ps Hc) as [params [Ee Hf]]. rewrite Ee.
  destruct pen_facts as [Hp [_ Ha]].
  destruct (sgr_step params _ Hf (pen_fg (tm_pen r) ps)) as [t' [E H]].
  - apply pen_shows_new; [|cbn; exact Ha].
    rewrite <- Hp. unfold shown_pen, pen_fg; cbn. rewrite (colour_shown ps Hc). reflexivity.
  - cbn [emu_feed]. rewrite E. cbn [T.tbind emu_feed]. exists t'; auto.
Qed.


Lemma step_bg ps : colour_ok ps = true ->
  okstep e w h (emu_toks tw t [KBg ps]) (interp1 tw r (KBg ps)).
Proof.
  intros Hc. unfold emu_toks. cbn [flat_map enc_tok app interp1]. rewrite app_nil_r.
  destruct (emu_bg (S.spen (T.t_pen t)) ps Hc) as [params [Ee Hf]]. rewrite Ee.
  destruct pen_facts as [Hp [_ Ha]].
  destruct (sgr_step params _ Hf (pen_bg (tm_pen r) ps)) as [t' [E H]].
  - apply pen_shows_new; [|cbn; exact Ha].
    rewrite <- Hp. unfold shown_pen, pen_bg; cbn. rewrite (colour_shown ps Hc). reflexivity.
  - cbn [emu_feed]. rewrite E. cbn [T.tbind emu_feed]. exists t'; auto.
Qed.

Lemma step_sgr n : In n plain_codes ->
  okstep e w h (emu_toks tw t [KSgr n]) (interp1 tw r (KSgr n)).
Proof.
  intros Hn. unfold emu_toks. cbn [flat_map enc_tok app interp1 emu_feed]. unfold sgr1.
  destruct pen_facts as [Hp [_ Ha]].
  destruct (plain_code n (S.spen (T.t_pen t)) Hn Ha) as [p' [Hs [Hsh Ha']]].
  destruct (sgr_step [[n]] p' Hs (sgr_plain (tm_pen r) n)) as [t' [E H]].
  - apply pen_shows_new; [|exact Ha']. rewrite Hsh, Hp. reflexivity.
  - rewrite E. cbn [T.tbind emu_feed]. exists t'; auto.
Qed.

(* OSC 8 *)
Lemma cut59_app a b : existsb (Z.eqb 59) a = false -> T.cut59 (a ++ 59 :: b) = (a, b, true).
Proof.
  induction a as [|x a IH]; intros H; cbn [app T.cut59]; [reflexivity|].
  cbn [existsb] in H. apply Bool.orb_false_iff in H. destruct H as [H1 H2].
  assert ((x =? 59) = false) as -> by lia. rewrite (IH H2). reflexivity.
Qed.

Lemma step_link ps url : existsb (Z.eqb 59) ps = false ->
  okstep e w h (emu_toks tw t [KLink ps url]) (interp1 tw r (KLink ps url)).
Proof.
  intros Hps. unfold emu_toks. cbn [flat_map enc_tok app interp1 emu_feed T.update].
  assert (Eo : T.osc t (56 :: 59 :: ps ++ 59 :: url) = T.TOk (T.set_pen t (S.mkStyle (S.spen (T.t_pen t)) url ps))).
  { unfold T.osc. change (T.cut59 (56 :: 59 :: ps ++ 59 :: url)) with ([56], ps ++ 59 :: url, true).
    cbn [negb]. change (T.key_is [56] [48] || T.key_is [56] [50]) with false.
    change (T.key_is [56] [56]) with true. cbv iota. rewrite (cut59_app ps url Hps). reflexivity. }
  rewrite Eo. cbn [T.tbind].
  destruct pen_facts as [Hp [_ Ha]].
  eexists; split; [reflexivity|]. split; [now apply TP.WFs_set_pen|].
  split; [eapply vaxis_modes_frame; try exact HM; reflexivity|].
  destruct HR. constructor; auto.
  cbn [T.t_pen T.set_pen]. unfold pen_shows.
  split; [rewrite shown_to; exact Hp|]. split; [|exact Ha].
  rewrite shown_link_to. cbn [interp1 tm_link set_link]. destruct url; reflexivity.
Qed.

(* cursor visibility, shape, mouse shape *)
Lemma step_show : okstep e w h (emu_toks tw t [KShowCursor]) (interp1 tw r KShowCursor).
Proof.
  unfold emu_toks. cbn [flat_map enc_tok app interp1 emu_feed].
  change (T.update t (T.TCsi [63] [[25]] 104)) with (T.TOk (T.set_md t (T.md_tcem (T.t_md t) true))).
  cbn [T.tbind]. eexists; split; [reflexivity|]. split; [now apply TP.WFs_set_md|].
  split.
  - destruct (vaxis_modes_facts t HM) as (A & B & C & D & E & F). unfold vaxis_modes. cbn.
    change (T.height (T.set_md t (T.md_tcem (T.t_md t) true))) with (T.height t). rewrite A, B, C, D, E, F.
    rewrite !Z.eqb_refl. reflexivity.
  - destruct HR. constructor; auto.
Qed.

Lemma step_hide : okstep e w h (emu_toks tw t [KHideCursor]) (interp1 tw r KHideCursor).
Proof.
  unfold emu_toks. cbn [flat_map enc_tok app interp1 emu_feed].
  change (T.update t (T.TCsi [63] [[25]] 108)) with (T.TOk (T.set_md t (T.md_tcem (T.t_md t) false))).
  cbn [T.tbind]. eexists; split; [reflexivity|]. split; [now apply TP.WFs_set_md|].
  split.
  - destruct (vaxis_modes_facts t HM) as (A & B & C & D & E & F). unfold vaxis_modes. cbn.
    change (T.height (T.set_md t (T.md_tcem (T.t_md t) false))) with (T.height t). rewrite A, B, C, D, E, F.
    rewrite !Z.eqb_refl. reflexivity.
  - destruct HR. constructor; auto.
Qed.

Lemma step_shape n : 0 <= n <= 65535 ->
  okstep e w h (emu_toks tw t [KCursorStyle n]) (interp1 tw r (KCursorStyle n)).
Proof.
  intros Hn. unfold emu_toks. cbn [flat_map enc_tok app interp1 emu_feed].
  assert (Eu : T.update t (T.TCsi [32] [[n]] 113) = T.TOk (T.set_shape t n)).
  { change (T.update t (T.TCsi [32] [[n]] 113)) with (T.TOk (T.set_shape t (T.clamp_ps n))).
    unfold T.clamp_ps. case_if; [lia|reflexivity]. }
  rewrite Eu. cbn [T.tbind]. eexists; split; [reflexivity|]. split; [now apply TP.WFs_set_shape|].
  split; [eapply vaxis_modes_frame; try exact HM; reflexivity|].
  destruct HR. constructor; auto.
Qed.

Lemma step_mouse m : okstep e w h (emu_toks tw t [KMouseShape m]) (interp1 tw r (KMouseShape m)).
Proof.
  unfold emu_toks. cbn [flat_map enc_tok app interp1 emu_feed T.update].
  assert (Eo : T.osc t (50 :: 50 :: 59 :: m) = T.TOk t).
  { unfold T.osc. change (T.cut59 (50 :: 50 :: 59 :: m)) with ([50; 50], m, true). reflexivity. }
  rewrite Eo. cbn [T.tbind]. exists t; split; [reflexivity|]. split; [assumption|]. split; [assumption|].
  destruct HR. constructor; auto.
Qed.

End Steps.
