(* C12 - the embedded terminal emulator (model/Term.v) simulates the reference terminal
   (model/RefTerm.v) on the vocabulary the renderer writes under term_caps. *)
From Vx Require Import base.Prelude base.ListX model.Colour model.RenderTypes model.Render model.RefTerm
  model.RenderSpec model.RenderCheck model.Gate model.EmuSpec model.EmuBridge.
From Vx Require model.Sgr model.Term model.VtSpec model.TermAbs proofs.SgrProofs proofs.TermProofs proofs.TermRefine
  proofs.TermRefine3 proofs.TermRefine4 proofs.TermRefine5.
Require Import ZifyBool Lia.

Local Open Scope Z_scope.

Module TP := Vx.proofs.TermProofs.
Module TR := Vx.proofs.TermRefine.
Module TR3 := Vx.proofs.TermRefine3.
Module TR4 := Vx.proofs.TermRefine4.
Module SP := Vx.proofs.SgrProofs.
Module TR5 := Vx.proofs.TermRefine5.
Module VS := Vx.model.VtSpec.
Module TA := Vx.model.TermAbs.

Ltac case_if :=
  match goal with
  | |- context[if ?b then _ else _] =>
      lazymatch b with
      | context[if _ then _ else _] => fail
      | _ => destruct b eqn:?
      end
  end.

(* ------------------------------------------------------------------ small facts *)

Lemma zlist_eqb_refl l : zlist_eqb l l = true.
Proof. unfold zlist_eqb. induction l; simpl; auto. rewrite Z.eqb_refl; auto. Qed.

Lemma tpen_eqb_refl p : tpen_eqb p p = true.
Proof. unfold tpen_eqb. rewrite !zlist_eqb_refl, !Z.eqb_refl. reflexivity. Qed.

Lemma tlink_eqb_refl l : tlink_eqb l l = true.
Proof. unfold tlink_eqb. rewrite !zlist_eqb_refl. reflexivity. Qed.

Lemma color_params_index n : 0 <= n <= 255 -> color_params (index_color n) = [n].
Proof.
  intros H. unfold color_params, index_color, is_indexed, tag_indexed, u8.
  replace ((n + 16777216) / 16777216) with 1 by (apply (Z.div_unique _ _ 1 n); lia).
  cbn [Z.odd]. f_equal. rewrite <- (Z.mod_small n 256) at 2 by lia.
  replace 16777216 with (65536 * 256) by reflexivity. now rewrite Z.mod_add by lia.
Qed.

(* the modes, unpacked *)
Lemma vaxis_modes_facts t : vaxis_modes t = true ->
  T.m_awm (T.t_md t) = true /\ T.m_irm (T.t_md t) = false /\ T.cs_ss (T.t_cs t) = false /\
  T.des_of (T.t_cs t) = 0 /\ T.t_top t = 0 /\ T.t_bot t = T.height t - 1.
Proof. unfold vaxis_modes. intros H. repeat (apply andb_prop in H; destruct H as [H ?]). repeat split; lia. Qed.

(* a step that leaves the screens, modes, character sets and margins alone keeps the modes *)
Lemma vaxis_modes_frame t t' :
  T.t_md t' = T.t_md t -> T.t_cs t' = T.t_cs t -> T.t_top t' = T.t_top t -> T.t_bot t' = T.t_bot t ->
  T.height t' = T.height t -> vaxis_modes t = true -> vaxis_modes t' = true.
Proof. intros E1 E2 E3 E4 E5 H. unfold vaxis_modes in *. now rewrite E1, E2, E3, E4, E5. Qed.

(* what a step of the vocabulary never touches: which screen is active, mode 1049, and - while
   the alternate screen is active - the primary screen (what a later resize re-prints) *)
Definition keeps_prim (t t' : T.term) : Prop :=
  T.t_onalt t' = T.t_onalt t /\ T.m_smcup (T.t_md t') = T.m_smcup (T.t_md t) /\
  (T.t_onalt t = true -> T.t_prim t' = T.t_prim t).

Lemma keeps_prim_refl t : keeps_prim t t.
Proof. repeat split. Qed.

Lemma keeps_prim_trans a b c : keeps_prim a b -> keeps_prim b c -> keeps_prim a c.
Proof.
  intros (A1 & A2 & A3) (B1 & B2 & B3). split; [congruence|]. split; [congruence|].
  intros H. rewrite B3 by congruence. now apply A3.
Qed.

Lemma keeps_prim_set_active t g : keeps_prim t (T.set_active t g).
Proof. unfold keeps_prim, T.set_active. destruct (T.t_onalt t) eqn:E; cbn; repeat split; auto; intros; discriminate. Qed.

Ltac kp := first [ apply keeps_prim_refl | split; [reflexivity|split; [reflexivity|intros _; reflexivity]] ].

Definition okstep (e w h : Z) (t : T.term) (res : T.tres T.term) (r' : term) : Prop :=
  exists t', res = T.TOk t' /\ TP.WFs0 e w h t' /\ vaxis_modes t' = true /\ emu_rel t' r' /\ keeps_prim t t'.

(* ------------------------------------------------------------------ SGR arithmetic *)

Lemma byte_ind (P : Z -> bool) :
  forallb P (map Z.of_nat (seq 0 256)) = true -> forall a, 0 <= a < 256 -> P a = true.
Proof.
  intros H a Ha. rewrite forallb_forall in H. apply H.
  apply in_map_iff. exists (Z.to_nat a). split; [lia|]. apply in_seq. lia.
Qed.

(* what the five SGR-controlled fields of the emulator's pen show *)
Definition shown_pen (p : S.pen) : tpen :=
  {| t_fg := color_params (S.fg p); t_bg := color_params (S.bg p); t_ul := color_params (S.ul p);
     t_uls := S.uls p; t_attr := S.attr p - S.attr p mod 2 |}.

Lemma shown_to p l lp : shown cp_full (to_rstyle (S.mkStyle p l lp)) = shown_pen p.
Proof. reflexivity. Qed.

Lemma shown_link_to p l lp : shown_link (to_rstyle (S.mkStyle p l lp)) = if nonempty l then (lp, l) else ([], []).
Proof. reflexivity. Qed.

(* the attribute a plain SGR code leaves in the emulator's mask *)
Definition emu_attr (n a : Z) : Z :=
  if n =? 1 then Z.lor a 2 else if n =? 2 then Z.lor a 4 else if n =? 3 then Z.lor a 8
  else if n =? 5 then Z.lor a 16 else if n =? 7 then Z.lor a 32 else if n =? 8 then Z.lor a 64
  else if n =? 9 then Z.lor a 128 else if n =? 22 then Z.ldiff (Z.ldiff a 2) 4
  else if n =? 23 then Z.ldiff a 8 else if n =? 25 then Z.ldiff a 16 else if n =? 27 then Z.ldiff a 32
  else if n =? 28 then Z.ldiff a 64 else if n =? 29 then Z.ldiff a 128 else a.
Definition emu_uls (n u : Z) : Z := if n =? 4 then 1 else if n =? 24 then 0 else u.

Definition plain_codes : list Z := [1; 2; 3; 4; 5; 7; 8; 9; 22; 23; 24; 25; 27; 28; 29].

Lemma attr_bits_ok a : 0 <= a < 256 ->
  forallb (fun n =>
    (t_attr (sgr_plain {| t_fg := []; t_bg := []; t_ul := []; t_uls := 0; t_attr := a - a mod 2 |} n)
       =? emu_attr n a - emu_attr n a mod 2) && (0 <=? emu_attr n a) && (emu_attr n a <? 256)) plain_codes = true.
Proof.
  intros Ha.
  apply (byte_ind (fun a => forallb (fun n =>
    (t_attr (sgr_plain {| t_fg := []; t_bg := []; t_ul := []; t_uls := 0; t_attr := a - a mod 2 |} n)
       =? emu_attr n a - emu_attr n a mod 2) && (0 <=? emu_attr n a) && (emu_attr n a <? 256)) plain_codes));
    [vm_compute; reflexivity | exact Ha].
Qed.

(* sgr_plain touches the attribute mask and the underline style only, each by itself *)
Lemma sgr_plain_fields p n : In n plain_codes ->
  sgr_plain p n =
  {| t_fg := t_fg p; t_bg := t_bg p; t_ul := t_ul p; t_uls := emu_uls n (t_uls p);
     t_attr := t_attr (sgr_plain {| t_fg := []; t_bg := []; t_ul := []; t_uls := 0; t_attr := t_attr p |} n) |}.
Proof.
  intros Hn. destruct p. unfold plain_codes in Hn. cbn [In] in Hn.
  repeat (destruct Hn as [<-|Hn]; [reflexivity|]). destruct Hn.
Qed.

(* the emulator's SGR consumer on one plain code *)
Lemma emu_plain n p : In n plain_codes ->
  S.term_sgr [[n]] p = S.Ok (S.mkPen (S.fg p) (S.bg p) (S.ul p) (emu_uls n (S.uls p)) (emu_attr n (S.attr p))).
Proof.
  intros Hn. destruct p. unfold plain_codes in Hn. cbn [In] in Hn.
  repeat (destruct Hn as [<-|Hn]; [reflexivity|]). destruct Hn.
Qed.

Lemma plain_code n p : In n plain_codes -> 0 <= S.attr p < 256 ->
  exists p', S.term_sgr [[n]] p = S.Ok p' /\ shown_pen p' = sgr_plain (shown_pen p) n /\ 0 <= S.attr p' < 256.
Proof.
  intros Hn Ha. eexists; split; [apply (emu_plain n p Hn)|].
  pose proof (attr_bits_ok (S.attr p) Ha) as Hb. rewrite forallb_forall in Hb. specialize (Hb n Hn).
  apply andb_prop in Hb; destruct Hb as [Hb H3]. apply andb_prop in Hb; destruct Hb as [H1 H2].
  split; [|cbn; lia].
  rewrite (sgr_plain_fields (shown_pen p) n Hn). unfold shown_pen; cbn [S.fg S.bg S.ul S.uls S.attr t_fg t_bg t_ul t_uls t_attr].
  f_equal. symmetry. apply Z.eqb_eq. exact H1.
Qed.

(* colours of at most one parameter *)
Lemma colon_fg st n : 0 <= n <= 255 -> S.term_sgr [[38; 5; n]] st = S.Ok (S.set_fg st (index_color n)).
Proof.
  intros Hn. unfold S.term_sgr, S.sgr_run. cbn [S.sgr_loop].
  assert (E : S.sgr_step st [[38; 5; n]] = S.SCont (S.set_fg st (index_color (u8 n))) 0) by reflexivity.
  rewrite E, TR5.u8_small by lia. reflexivity.
Qed.
Lemma colon_bg st n : 0 <= n <= 255 -> S.term_sgr [[48; 5; n]] st = S.Ok (S.set_bg st (index_color n)).
Proof.
  intros Hn. unfold S.term_sgr, S.sgr_run. cbn [S.sgr_loop].
  assert (E : S.sgr_step st [[48; 5; n]] = S.SCont (S.set_bg st (index_color (u8 n))) 0) by reflexivity.
  rewrite E, TR5.u8_small by lia. reflexivity.
Qed.

Lemma emu_fg st ps : colour_ok ps = true ->
  exists params, enc_colour 30 90 38 39 ps = [T.TCsi [] params 109] /\
    S.term_sgr params st = S.Ok (S.set_fg st (match ps with [n] => index_color n | _ => 0 end)).
Proof.
  intros Hc. destruct ps as [|n [|m rest]]; cbn in Hc; try discriminate.
  - eexists; split; reflexivity.
  - unfold enc_colour. destruct (n <? 8) eqn:E8; [|destruct (n <? 16) eqn:E16].
    + eexists; split; [reflexivity|]. apply (TR5.sim_sgr_pen [VS.SFg n] st). cbn. unfold in_range. lia.
    + eexists; split; [reflexivity|]. replace n with (n - 8 + 8) at 2 by lia.
      apply (TR5.sim_sgr_pen [VS.SFgBright (n - 8)] st). cbn. unfold in_range. lia.
    + eexists; split; [reflexivity|]. apply colon_fg. lia.
Qed.

Lemma emu_bg st ps : colour_ok ps = true ->
  exists params, enc_colour 40 100 48 49 ps = [T.TCsi [] params 109] /\
    S.term_sgr params st = S.Ok (S.set_bg st (match ps with [n] => index_color n | _ => 0 end)).
Proof.
  intros Hc. destruct ps as [|n [|m rest]]; cbn in Hc; try discriminate.
  - eexists; split; reflexivity.
  - unfold enc_colour. destruct (n <? 8) eqn:E8; [|destruct (n <? 16) eqn:E16].
    + eexists; split; [reflexivity|]. apply (TR5.sim_sgr_pen [VS.SBg n] st). cbn. unfold in_range. lia.
    + eexists; split; [reflexivity|]. replace n with (n - 8 + 8) at 2 by lia.
      apply (TR5.sim_sgr_pen [VS.SBgBright (n - 8)] st). cbn. unfold in_range. lia.
    + eexists; split; [reflexivity|]. apply colon_bg. lia.
Qed.

Lemma colour_shown ps : colour_ok ps = true ->
  color_params (match ps with [n] => index_color n | _ => 0 end) = ps.
Proof.
  intros Hc. destruct ps as [|n [|m rest]]; cbn in Hc; try discriminate; [reflexivity|].
  apply color_params_index. lia.
Qed.

(* ------------------------------------------------------------------ the pen *)

Section Steps.
Variables (tw : list Z -> Z) (e w h : Z) (t : T.term) (r : term).
Hypothesis HW : TP.WFs0 e w h t.
Hypothesis HM : vaxis_modes t = true.
Hypothesis HR : emu_rel t r.

Lemma dims : tm_rows r = h /\ tm_cols r = w.
Proof.
  destruct HR as [Hr Hc _ _ _ _ _ _]. rewrite <- Hr, <- Hc.
  split; [apply (TP.WFs_height e w h t HW) | apply (TP.WFs_width e w h t HW)].
Qed.

(* a step that only changes the pen *)
Lemma pen_step p' tp tl :
  pen_shows (S.mkStyle p' (S.link (T.t_pen t)) (S.linkp (T.t_pen t))) tp tl ->
  okstep e w h t (T.TOk (T.set_pen t (S.mkStyle p' (S.link (T.t_pen t)) (S.linkp (T.t_pen t)))))
         (set_link (set_pen r tp) tl).
Proof.
  intros Hp. eexists; split; [reflexivity|]. split; [now apply TP.WFs_set_pen|].
  split; [eapply vaxis_modes_frame; try exact HM; reflexivity|].
  split; [destruct HR; constructor; auto | kp].
Qed.

Lemma sgr_step params p' :
  S.term_sgr params (S.spen (T.t_pen t)) = S.Ok p' ->
  forall tp, pen_shows (S.mkStyle p' (S.link (T.t_pen t)) (S.linkp (T.t_pen t))) tp (tm_link r) ->
  okstep e w h t (T.update t (T.TCsi [] params 109)) (set_pen r tp).
Proof.
  intros Hs tp Hp.
  change (T.update t (T.TCsi [] params 109)) with (T.sgr t params). unfold T.sgr. rewrite Hs.
  replace (set_pen r tp) with (set_link (set_pen r tp) (tm_link r)) by (destruct r; reflexivity).
  now apply pen_step.
Qed.


(* the pen relation, unpacked *)
Lemma pen_facts :
  shown_pen (S.spen (T.t_pen t)) = tm_pen r /\
  (if nonempty (S.link (T.t_pen t)) then (S.linkp (T.t_pen t), S.link (T.t_pen t)) else ([], [])) = tm_link r /\
  0 <= S.attr (S.spen (T.t_pen t)) < 256.
Proof. destruct HR as [_ _ _ _ _ [H1 [H2 H3]] _ _]. destruct (T.t_pen t) as [sp l lp]. auto. Qed.

Lemma pen_shows_new p' tp :
  shown_pen p' = tp -> 0 <= S.attr p' < 256 ->
  pen_shows (S.mkStyle p' (S.link (T.t_pen t)) (S.linkp (T.t_pen t))) tp (tm_link r).
Proof.
  intros H1 H2. destruct pen_facts as [_ [Hl _]].
  split; [rewrite shown_to; exact H1|]. split; [rewrite shown_link_to; exact Hl | exact H2].
Qed.

Lemma step_sgr_reset : okstep e w h t (emu_toks tw t [KSgrReset]) (interp1 tw r KSgrReset).
Proof.
  unfold emu_toks. cbn [flat_map enc_tok app emu_feed interp1].
  destruct (sgr_step [] S.pen0 eq_refl tpen0) as [t' [E H]].
  - apply pen_shows_new; [reflexivity | cbn; lia].
  - rewrite E. cbn [T.tbind emu_feed]. exists t'; auto.
Qed.

Lemma step_fg ps : colour_ok ps = true -> zlen ps <= 1 ->
  okstep e w h t (emu_toks tw t [KFg ps]) (interp1 tw r (KFg ps)).
Proof.
  intros Hc _. unfold emu_toks. cbn [flat_map enc_tok app interp1]. rewrite app_nil_r.
  destruct (emu_fg (S.spen (T.t_pen t)) ps Hc) as [params [Ee Hf]]. rewrite Ee.
  destruct pen_facts as [Hp [_ Ha]].
  destruct (sgr_step params _ Hf (pen_fg (tm_pen r) ps)) as [t' [E H]].
  - apply pen_shows_new; [|cbn; exact Ha].
    rewrite <- Hp. unfold shown_pen, pen_fg; cbn. rewrite (colour_shown ps Hc). reflexivity.
  - cbn [emu_feed]. rewrite E. cbn [T.tbind emu_feed]. exists t'; auto.
Qed.


Lemma step_bg ps : colour_ok ps = true ->
  okstep e w h t (emu_toks tw t [KBg ps]) (interp1 tw r (KBg ps)).
Proof.
  intros Hc. unfold emu_toks. cbn [flat_map enc_tok app interp1]. rewrite app_nil_r.
  destruct (emu_bg (S.spen (T.t_pen t)) ps Hc) as [params [Ee Hf]]. rewrite Ee.
  destruct pen_facts as [Hp [_ Ha]].
  destruct (sgr_step params _ Hf (pen_bg (tm_pen r) ps)) as [t' [E H]].
  - apply pen_shows_new; [|cbn; exact Ha].
    rewrite <- Hp. unfold shown_pen, pen_bg; cbn. rewrite (colour_shown ps Hc). reflexivity.
  - cbn [emu_feed]. rewrite E. cbn [T.tbind emu_feed]. exists t'; auto.
Qed.

Lemma step_sgr n : In n plain_codes ->
  okstep e w h t (emu_toks tw t [KSgr n]) (interp1 tw r (KSgr n)).
Proof.
  intros Hn. unfold emu_toks. cbn [flat_map enc_tok app interp1 emu_feed]. unfold sgr1.
  destruct pen_facts as [Hp [_ Ha]].
  destruct (plain_code n (S.spen (T.t_pen t)) Hn Ha) as [p' [Hs [Hsh Ha']]].
  destruct (sgr_step [[n]] p' Hs (sgr_plain (tm_pen r) n)) as [t' [E H]].
  - apply pen_shows_new; [|exact Ha']. rewrite Hsh, Hp. reflexivity.
  - rewrite E. cbn [T.tbind emu_feed]. exists t'; auto.
Qed.

(* OSC 8 *)
Lemma cut59_app a b : existsb (Z.eqb 59) a = false -> T.cut59 (a ++ 59 :: b) = (a, b, true).
Proof.
  induction a as [|x a IH]; intros H; cbn [app T.cut59]; [reflexivity|].
  cbn [existsb] in H. apply Bool.orb_false_iff in H. destruct H as [H1 H2].
  assert ((x =? 59) = false) as -> by lia. rewrite (IH H2). reflexivity.
Qed.

Lemma step_link ps url : existsb (Z.eqb 59) ps = false ->
  okstep e w h t (emu_toks tw t [KLink ps url]) (interp1 tw r (KLink ps url)).
Proof.
  intros Hps. unfold emu_toks. cbn [flat_map enc_tok app interp1 emu_feed T.update].
  assert (Eo : T.osc t (56 :: 59 :: ps ++ 59 :: url) = T.TOk (T.set_pen t (S.mkStyle (S.spen (T.t_pen t)) url ps))).
  { unfold T.osc. change (T.cut59 (56 :: 59 :: ps ++ 59 :: url)) with ([56], ps ++ 59 :: url, true).
    cbn [negb]. change (T.key_is [56] [48] || T.key_is [56] [50]) with false.
    change (T.key_is [56] [56]) with true. cbv iota. rewrite (cut59_app ps url Hps). reflexivity. }
  rewrite Eo. cbn [T.tbind].
  destruct pen_facts as [Hp [_ Ha]].
  eexists; split; [reflexivity|]. split; [now apply TP.WFs_set_pen|].
  split; [eapply vaxis_modes_frame; try exact HM; reflexivity|].
  split; [|kp].
  destruct HR. constructor; auto.
  cbn [T.t_pen T.set_pen]. unfold pen_shows.
  split; [rewrite shown_to; exact Hp|]. split; [|exact Ha].
  rewrite shown_link_to. cbn [interp1 tm_link set_link]. destruct url; reflexivity.
Qed.

(* cursor visibility, shape, mouse shape *)
Lemma step_show : okstep e w h t (emu_toks tw t [KShowCursor]) (interp1 tw r KShowCursor).
Proof.
  unfold emu_toks. cbn [flat_map enc_tok app interp1 emu_feed].
  change (T.update t (T.TCsi [63] [[25]] 104)) with (T.TOk (T.set_md t (T.md_tcem (T.t_md t) true))).
  cbn [T.tbind]. eexists; split; [reflexivity|]. split; [now apply TP.WFs_set_md|].
  split.
  - destruct (vaxis_modes_facts t HM) as (A & B & C & D & E & F). unfold vaxis_modes. cbn.
    change (T.height (T.set_md t (T.md_tcem (T.t_md t) true))) with (T.height t). rewrite A, B, C, D, E, F.
    rewrite !Z.eqb_refl. reflexivity.
  - split; [destruct HR; constructor; auto | kp].
Qed.

Lemma step_hide : okstep e w h t (emu_toks tw t [KHideCursor]) (interp1 tw r KHideCursor).
Proof.
  unfold emu_toks. cbn [flat_map enc_tok app interp1 emu_feed].
  change (T.update t (T.TCsi [63] [[25]] 108)) with (T.TOk (T.set_md t (T.md_tcem (T.t_md t) false))).
  cbn [T.tbind]. eexists; split; [reflexivity|]. split; [now apply TP.WFs_set_md|].
  split.
  - destruct (vaxis_modes_facts t HM) as (A & B & C & D & E & F). unfold vaxis_modes. cbn.
    change (T.height (T.set_md t (T.md_tcem (T.t_md t) false))) with (T.height t). rewrite A, B, C, D, E, F.
    rewrite !Z.eqb_refl. reflexivity.
  - split; [destruct HR; constructor; auto | kp].
Qed.

Lemma step_shape n : 0 <= n <= 65535 ->
  okstep e w h t (emu_toks tw t [KCursorStyle n]) (interp1 tw r (KCursorStyle n)).
Proof.
  intros Hn. unfold emu_toks. cbn [flat_map enc_tok app interp1 emu_feed].
  assert (Eu : T.update t (T.TCsi [32] [[n]] 113) = T.TOk (T.set_shape t n)).
  { change (T.update t (T.TCsi [32] [[n]] 113)) with (T.TOk (T.set_shape t (T.clamp_ps n))).
    unfold T.clamp_ps. case_if; [lia|reflexivity]. }
  rewrite Eu. cbn [T.tbind]. eexists; split; [reflexivity|]. split; [now apply TP.WFs_set_shape|].
  split; [eapply vaxis_modes_frame; try exact HM; reflexivity|].
  split; [destruct HR; constructor; auto | kp].
Qed.

Lemma step_mouse m : okstep e w h t (emu_toks tw t [KMouseShape m]) (interp1 tw r (KMouseShape m)).
Proof.
  unfold emu_toks. cbn [flat_map enc_tok app interp1 emu_feed T.update].
  assert (Eo : T.osc t (50 :: 50 :: 59 :: m) = T.TOk t).
  { unfold T.osc. change (T.cut59 (50 :: 50 :: 59 :: m)) with ([50; 50], m, true). reflexivity. }
  rewrite Eo. cbn [T.tbind]. exists t; split; [reflexivity|]. split; [assumption|]. split; [assumption|].
  split; [destruct HR; constructor; auto | kp].
Qed.


(* CUP *)
Lemma cup_fin_eq R C : -1 <= R -> -1 <= C ->
  TR.cup_fin (T.set_cursor (T.set_last t false) R C)
  = T.set_cursor (T.set_last t false) (clampz 0 (h - 1) R) (clampz 0 (w - 1) C).
Proof.
  intros HR0 HC0.
  pose proof (TP.WFs_height e w h t HW) as Hh. pose proof (TP.WFs_width e w h t HW) as Hw.
  unfold TR.cup_fin; cbv zeta.
  change (T.width (T.set_cursor (T.set_last t false) R C)) with (T.width t). rewrite Hw.
  cbn [T.t_col T.t_row T.set_cursor].
  assert (E : forall b : bool, (if b then T.set_col (T.set_cursor (T.set_last t false) R C) (w - 1) else T.set_cursor (T.set_last t false) R C)
           = T.set_cursor (T.set_last t false) R (if b then w - 1 else C)) by (intros []; reflexivity).
  rewrite E. change (T.height (T.set_cursor (T.set_last t false) R (if C >? w - 1 then w - 1 else C))) with (T.height t). rewrite Hh.
  cbn [T.t_col T.t_row T.set_cursor].
  set (C1 := if C >? w - 1 then w - 1 else C).
  assert (E2 : forall b : bool, (if b then T.set_row (T.set_cursor (T.set_last t false) R C1) (h - 1) else T.set_cursor (T.set_last t false) R C1)
           = T.set_cursor (T.set_last t false) (if b then h - 1 else R) C1) by (intros []; reflexivity).
  rewrite E2. cbn [T.t_col T.t_row T.set_cursor].
  set (R1 := if R >? h - 1 then h - 1 else R).
  assert (E3 : forall b : bool, (if b then T.set_col (T.set_cursor (T.set_last t false) R1 C1) 0 else T.set_cursor (T.set_last t false) R1 C1)
           = T.set_cursor (T.set_last t false) R1 (if b then 0 else C1)) by (intros []; reflexivity).
  rewrite E3. cbn [T.t_col T.t_row T.set_cursor].
  set (C2 := if C1 <? 0 then 0 else C1).
  assert (E4 : forall b : bool, (if b then T.set_row (T.set_cursor (T.set_last t false) R1 C2) 0 else T.set_cursor (T.set_last t false) R1 C2)
           = T.set_cursor (T.set_last t false) (if b then 0 else R1) C2) by (intros []; reflexivity).
  rewrite E4.
  destruct HW as [Hw1 Hh1 _ _ _ _ _ _ _ _ _ _ _ _ _].
  f_equal; unfold C2, C1, R1, clampz; repeat case_if; lia.
Qed.

Lemma step_cup row col : small row = true -> small col = true ->
  okstep e w h t (emu_toks tw t [KCup row col]) (interp1 tw r (KCup row col)).
Proof.
  intros Hr Hc. unfold small in *. destruct dims as [Dr Dc].
  unfold emu_toks. cbn [flat_map enc_tok app interp1 emu_feed].
  change (T.update t (T.TCsi [] [[row]; [col]] 72)) with (T.cup t [[row]; [col]]).
  rewrite TR.cup_eval2, !TR.i64_id, cup_fin_eq by lia. cbn [T.tbind].
  assert (B1 : 0 <= clampz 0 (h - 1) (row - 1) < h) by (destruct HW; unfold clampz; lia).
  assert (B2 : 0 <= clampz 0 (w - 1) (col - 1) < w) by (destruct HW; unfold clampz; lia).
  eexists; split; [reflexivity|]. split; [apply TP.WFs_set_cursor; auto; now apply TP.WFs_set_last|].
  split; [eapply vaxis_modes_frame; try exact HM; reflexivity|].
  split; [|kp].
  destruct HR as [A1 A2 A3 A4 A5 A6 A7 A8]. rewrite Dr, Dc.
  constructor; auto; cbn [T.t_row T.t_col T.t_last T.set_cursor T.set_last tm_row tm_col tm_cols set_cur].
  left. rewrite Dc. repeat split; lia.
Qed.


(* text that fits before the right edge: no wrap, the glyph and the spaces after it *)
Lemma print_fit g k :
  T.t_last t = false -> 1 <= k -> T.t_col t + k <= w ->
  exists line lb,
    zget (T.active t) (T.t_row t) = Some line /\ TP.row_ok w lb /\
    (forall i, zget lb i = if i =? T.t_col t then Some (T.mkCell g k (T.t_pen t) false)
                           else if (T.t_col t <? i) && (i <? T.t_col t + k) then zget lb i
                           else zget line i) /\
    let t5 := T.set_active t (upd_nat (T.active t) (Z.to_nat (T.t_row t)) lb) in
    T.print t g k = T.TOk (if T.t_col t + k >=? w
                           then T.set_col (T.set_last (T.set_col t5 (T.t_col t + k)) true) (w - 1)
                           else T.set_col t5 (T.t_col t + k)).
Proof.
  intros Hlast Hk Hfit.
  destruct (vaxis_modes_facts t HM) as (Hawm & Hirm & Hss & Hdes & _ & _).
  pose proof HW as [? ? ? ? Hrow Hcol ? ? ? Hleft Hright ? ? ? ?].
  destruct (TP.WFs_active _ _ _ _ HW) as [Hlen HF].
  destruct (TP.zget_ok (TP.row_ok w) (T.active t) (T.t_row t)) as [line [Hg [Hl HFl]]]; [lia | assumption |].
  rewrite TR4.print_split; cbv zeta.
  rewrite (TR4.shift_plain _ g (conj Hss Hdes)), Hss.
  (* no wrap *)
  assert (Ew : TR4.print_wrap k t = T.TOk t).
  { unfold TR4.print_wrap; cbv zeta. rewrite Hlast, Hawm.
    assert ((T.t_col t + k - 1 >? T.t_right t) = false) as -> by lia. reflexivity. }
  rewrite Ew; cbn [T.tbind].
  unfold TR4.print_place; cbv zeta. rewrite Hirm; cbn [T.tbind].
  rewrite (TP.WFs_width e w h t HW), (TP.WFs_height e w h t HW).
  assert ((T.t_col t >? w - 1) = false) as -> by lia. assert ((T.t_row t >? h - 1) = false) as -> by lia.
  assert ((k =? 0) = false) as -> by lia.
  set (cell := T.mkCell g k (T.t_pen t) false).
  assert (Hf : zupd line (T.t_col t) cell = Some (upd_nat line (Z.to_nat (T.t_col t)) cell)).
  { unfold zupd. destruct ((T.t_col t <? 0) || (zlen line <=? T.t_col t)) eqn:E; [lia|]. reflexivity. }
  match goal with |- context[T.on_row t (T.t_row t) ?f0] =>
    rewrite (TR.on_row_eval e w h t (T.t_row t) f0 line _ HW Hrow Hg Hf) end. cbn [T.tbind].
  set (la := upd_nat line (Z.to_nat (T.t_col t)) cell).
  assert (Hla : TP.row_ok w la).
  { split; [unfold la; rewrite TR.zlen_upd_nat; assumption|]. apply TP.upd_nat_Forall; auto. unfold TP.cell_ok, cell; simpl; lia. }
  set (t4 := T.set_active t (upd_nat (T.active t) (Z.to_nat (T.t_row t)) la)).
  assert (Hg4 : TP.grid_ok w h (upd_nat (T.active t) (Z.to_nat (T.t_row t)) la)).
  { split; [rewrite TR.zlen_upd_nat; assumption | now apply TP.upd_nat_Forall]. }
  assert (W4 : TP.WFs0 e w h t4) by (apply TP.WFs_set_active; assumption).
  assert (Hp4 : T.t_pen t4 = T.t_pen t) by apply TR3.t_pen_set_active.
  assert (Ha4 : T.active t4 = upd_nat (T.active t) (Z.to_nat (T.t_row t)) la) by apply TR.active_set_active.
  assert (Hz4 : zget (T.active t4) (T.t_row t) = Some la).
  { rewrite Ha4, TR.zget_upd_nat by (unfold T.trow, T.grid in *; lia). rewrite Z.eqb_refl. reflexivity. }
  assert (Hright4 : T.t_right t4 = w - 1) by (destruct W4; assumption).
  rewrite Hright4, Hp4.
  set (hi := Z.min (T.t_col t + k) (w - 1 + 1)).
  assert (Hhi : hi = T.t_col t + k) by (unfold hi; lia).
  set (lb := if T.t_col t + 1 <? hi then T.map_range (T.set_space (T.t_pen t)) (T.t_col t + 1) hi la else la).
  assert (Hlb : TP.row_ok w lb).
  { unfold lb. case_if; [|assumption]. destruct Hla as [Hla1 Hla2].
    split; [rewrite TP.map_range_length; lia|]. apply TP.map_range_Forall; auto. intros c _; unfold TP.cell_ok; simpl; lia. }
  assert (E5 : T.range_in_row t4 (T.t_row t) (T.set_space (T.t_pen t)) (T.t_col t + 1) hi
               = T.TOk (T.set_active t (upd_nat (T.active t) (Z.to_nat (T.t_row t)) lb))).
  { unfold T.range_in_row, lb. destruct (T.t_col t + 1 <? hi) eqn:E.
    - assert (Hf5 : T.upd_range (T.set_space (T.t_pen t)) (T.t_col t + 1) hi la
                    = Some (T.map_range (T.set_space (T.t_pen t)) (T.t_col t + 1) hi la)).
      { unfold T.upd_range. rewrite E. destruct Hla as [Hla1 _].
        destruct ((T.t_col t + 1 <? 0) || (zlen la <? hi)) eqn:E2; [lia|]. reflexivity. }
      rewrite (TR.on_row_eval e w h t4 (T.t_row t) _ la _ W4 Hrow Hz4 Hf5).
      unfold t4 at 1. rewrite TR3.set_active_twice, Ha4, TR3.upd_nat_twice. reflexivity.
    - reflexivity. }
  rewrite E5; cbn [T.tbind].
  set (t5 := T.set_active t (upd_nat (T.active t) (Z.to_nat (T.t_row t)) lb)).
  assert (Hg5 : TP.grid_ok w h (upd_nat (T.active t) (Z.to_nat (T.t_row t)) lb)).
  { split; [rewrite TR.zlen_upd_nat; assumption | now apply TP.upd_nat_Forall]. }
  assert (W5 : TP.WFs0 e w h t5) by (apply TP.WFs_set_active; assumption).
  assert (Hmd5 : T.t_md t5 = T.t_md t) by apply TR3.t_md_set_active.
  assert (Hc5 : T.t_col t5 = T.t_col t) by (unfold t5, T.set_active; destruct (T.t_onalt t); reflexivity).
  assert (Hrt5 : T.t_right t5 = w - 1) by (destruct W5; assumption).
  rewrite Hmd5, Hawm, Hc5, Hrt5. cbn [negb andb].
  cbn [T.t_col T.t_right T.t_md T.set_col T.set_cursor]. rewrite Hmd5, Hawm, Hrt5, Bool.andb_true_r.
  exists line, lb. split; [exact Hg|]. split; [exact Hlb|]. split.
  - intros i. unfold lb. destruct (i =? T.t_col t) eqn:Ei.
    + assert (i = T.t_col t) by lia; subst i. destruct Hla as [Hla1 _].
      destruct (T.t_col t + 1 <? hi).
      * rewrite TR.zget_map_range by lia. assert (((T.t_col t + 1 <=? T.t_col t) && (T.t_col t <? hi)) = false) as -> by lia.
        unfold la. rewrite TR.zget_upd_nat by lia. rewrite Z.eqb_refl. reflexivity.
      * unfold la. rewrite TR.zget_upd_nat by lia. rewrite Z.eqb_refl. reflexivity.
    + destruct ((T.t_col t <? i) && (i <? T.t_col t + k)) eqn:Ein; [reflexivity|].
      destruct Hla as [Hla1 _].
      destruct (T.t_col t + 1 <? hi).
      * rewrite TR.zget_map_range by lia. assert (((T.t_col t + 1 <=? i) && (i <? hi)) = false) as -> by lia.
        unfold la. rewrite TR.zget_upd_nat by lia. rewrite Ei. reflexivity.
      * unfold la. rewrite TR.zget_upd_nat by lia. rewrite Ei. reflexivity.
  - cbv zeta. fold t5. assert ((T.t_col t + k >=? w - 1 + 1) = (T.t_col t + k >=? w)) as -> by lia. reflexivity.
Qed.


Lemma gget_upd (g : T.grid) r0 lb row col : 0 <= r0 < zlen g ->
  gget (upd_nat g (Z.to_nat r0) lb) row col = if row =? r0 then zget lb col else gget g row col.
Proof.
  intros Hr. unfold gget. rewrite TR.zget_upd_nat by assumption. destruct (row =? r0); reflexivity.
Qed.

Lemma step_glyph g k : 1 <= k -> tm_col r + k <= tm_cols r ->
  okstep e w h t (T.print t g k) (put_glyph r g k).
Proof.
  intros Hk Hfit. destruct dims as [Dr Dc].
  pose proof HR as [A1 A2 A3 A4 A5 A6 A7 A8].
  destruct A5 as [(B1 & B2 & B3)|(B1 & _)]; [|lia].
  destruct (print_fit g k B3 Hk ltac:(lia)) as (line & lb & Hg & Hlb & Hz & Hp).
  cbv zeta in Hp. rewrite Hp. clear Hp.
  pose proof HW as [? ? ? ? Hrow Hcol ? ? ? Hleft Hright ? ? ? ?].
  destruct (TP.WFs_active _ _ _ _ HW) as [Hlen HF].
  set (t5 := T.set_active t (upd_nat (T.active t) (Z.to_nat (T.t_row t)) lb)).
  assert (Hg5 : TP.grid_ok w h (upd_nat (T.active t) (Z.to_nat (T.t_row t)) lb)).
  { split; [rewrite TR.zlen_upd_nat; assumption | now apply TP.upd_nat_Forall]. }
  assert (W5 : TP.WFs0 e w h t5) by (apply TP.WFs_set_active; assumption).
  (* the reference step *)
  unfold put_glyph. assert ((k <? 1) = false) as -> by lia.
  assert ((tm_cols r <? tm_col r + k) = false) as -> by lia.
  set (t' := if T.t_col t + k >=? w then T.set_col (T.set_last (T.set_col t5 (T.t_col t + k)) true) (w - 1)
             else T.set_col t5 (T.t_col t + k)).
  assert (Fr : T.t_md t' = T.t_md t /\ T.t_cs t' = T.t_cs t /\ T.t_top t' = T.t_top t /\ T.t_bot t' = T.t_bot t /\
               T.t_pen t' = T.t_pen t /\ T.t_shape t' = T.t_shape t /\ T.t_row t' = T.t_row t /\
               T.active t' = upd_nat (T.active t) (Z.to_nat (T.t_row t)) lb).
  { unfold t', t5, T.set_active. destruct (T.t_col t + k >=? w); destruct (T.t_onalt t) eqn:Eo;
      cbn; unfold T.active; cbn; rewrite ?Eo; repeat split; reflexivity. }
  destruct Fr as (F1 & F2 & F3 & F4 & F5 & F6 & F7 & F8).
  assert (Hh' : T.height t' = h) by (unfold T.height; rewrite F8, TR.zlen_upd_nat; assumption).
  assert (Hw' : T.width t' = w).
  { unfold T.width. rewrite F8. destruct Hg5 as [Hl5 HF5].
    destruct (upd_nat (T.active t) (Z.to_nat (T.t_row t)) lb) as [|r0 g0]; [rewrite zlen_nil in Hl5; lia|].
    inversion HF5 as [|? ? Hr0]; subst; apply Hr0. }
  exists t'. split; [reflexivity|]. split.
  { unfold t'. case_if.
    - destruct W5. constructor; cbn; auto; lia.
    - apply TP.WFs_set_col; [exact W5 | lia]. }
  split.
  { eapply vaxis_modes_frame; try exact HM; auto. rewrite Hh'. symmetry. apply (TP.WFs_height e w h t HW). }
  split.
  2:{ unfold t', t5, keeps_prim, T.set_active. destruct (T.t_col t + k >=? w); destruct (T.t_onalt t); cbn;
        repeat split; auto; intros; discriminate. }
  constructor; cbn [tm_rows tm_cols tm_grid tm_row tm_col tm_pen tm_link tm_vis tm_shape set_cur set_grid].
  - rewrite Hh'. congruence.
  - rewrite Hw'. congruence.
  - (* the grid *)
    intros row col c. rewrite F8, gget_upd by (unfold T.trow, T.grid in *; lia).
    rewrite <- A4.
    destruct (row =? T.t_row t) eqn:Er.
    + assert (row = T.t_row t) by lia; subst row. rewrite Hz. rewrite <- B2.
      destruct (col =? T.t_col t) eqn:Ec.
      * assert (col = T.t_col t) by lia; subst col. intros Hc; inversion Hc; subst c. clear Hc.
        assert (((T.t_col t <=? T.t_col t) && (T.t_col t <? T.t_col t + k)) = true) as -> by lia.
        unfold cell_rel. intros _. unfold ecell_shows, ecell_of. cbn [T.c_g T.c_w T.c_st].
        replace (T.t_col t - T.t_col t) with 0 by lia. cbn [Z.eqb].
        destruct A6 as [P1 [P2 P3]]. rewrite P1, P2.
        rewrite zlist_eqb_refl, tpen_eqb_refl, tlink_eqb_refl. cbn [orb andb].
        assert ((k =? Z.max 1 k) = true) as -> by lia. reflexivity.
      * destruct ((T.t_col t <? col) && (col <? T.t_col t + k)) eqn:Ein.
        { intros _. assert (((T.t_col t <=? col) && (col <? T.t_col t + k)) = true) as -> by lia.
          unfold cell_rel. intros Hoff. lia. }
        intros Hc.
        assert (((T.t_col t <=? col) && (col <? T.t_col t + k)) = false) as -> by lia.
        assert (Hold : cell_rel (tm_grid r (T.t_row t) col) c).
        { apply A3. unfold gget. rewrite Hg. exact Hc. }
        destruct (tm_grid r (T.t_row t) col) as [g0 w0 off0 p0 l0|]; [|exact I].
        destruct (overlaps (col - off0) w0 (T.t_col t) k); [exact I | exact Hold].
    + intros Hc. apply A3. exact Hc.
  - rewrite F7. exact A4.
  - (* the cursor *)
    unfold t'. destruct (T.t_col t + k >=? w) eqn:Ew.
    + right. cbn. repeat split; lia.
    + left. cbn. unfold t5, T.set_active. destruct (T.t_onalt t); cbn; repeat split; try lia; exact B3.
  - rewrite F5. exact A6.
  - rewrite F1. exact A7.
  - rewrite F6. exact A8.
Qed.

Lemma step_text g : 1 <= tw g -> tm_col r + tw g <= tm_cols r ->
  okstep e w h t (emu_toks tw t [KText g]) (interp1 tw r (KText g)).
Proof.
  intros H1 H2. unfold emu_toks. cbn [flat_map enc_tok app interp1 emu_feed T.update].
  destruct (step_glyph g (tw g) H1 H2) as [t' [E H]]. rewrite E. cbn [T.tbind emu_feed]. exists t'; auto.
Qed.

Lemma step_space : tm_col r + 1 <= tm_cols r ->
  okstep e w h t (emu_toks tw t [KSpace]) (interp1 tw r KSpace).
Proof.
  intros H2. unfold emu_toks. cbn [flat_map enc_tok app interp1 emu_feed T.update].
  destruct (step_glyph [32] 1 ltac:(lia) H2) as [t' [E H]]. rewrite E. cbn [T.tbind emu_feed]. exists t'; auto.
Qed.

End Steps.

(* ------------------------------------------------------------------ one token, token lists *)

Lemma existsb_In n l : existsb (Z.eqb n) l = true -> In n l.
Proof. intros H. apply existsb_exists in H. destruct H as [x [Hx E]]. assert (n = x) by lia. now subst. Qed.

(* emu_simulates_refterm: every token the renderer may write under term_caps, from every
   well-formed emulator state in Vaxis' modes that holds what the reference terminal shows *)
Theorem emu_simulates_refterm tw e w h t r k :
  TP.WFs0 e w h t -> vaxis_modes t = true -> emu_rel t r -> step_ok tw r k ->
  okstep e w h t (emu_toks tw t [k]) (interp1 tw r k).
Proof.
  intros HW HM HR (Hal & Hok & Hfit).
  destruct k; cbn [allowed term_caps cap_rgb cap_styled_ul cap_sync cap_explicit_width orb andb tok_ok fits] in *;
    try discriminate.
  - apply andb_prop in Hok; destruct Hok. now apply step_cup.
  - now apply step_sgr_reset.
  - apply step_fg; auto. lia.
  - now apply step_bg.
  - apply step_sgr; auto. now apply existsb_In.
  - apply step_link; auto. now apply Bool.negb_true_iff.
  - destruct Hfit. now apply step_text.
  - now apply step_space.
  - now apply step_show.
  - now apply step_hide.
  - apply step_shape; auto. lia.
  - now apply step_mouse.
Qed.

Lemma emu_feed_app a : forall t b,
  emu_feed t (a ++ b) = T.tbind (emu_feed t a) (fun t' => emu_feed t' b).
Proof.
  induction a as [|x a IH]; intros t b; cbn [app emu_feed]; [reflexivity|].
  destruct (T.update t x); cbn [T.tbind]; auto.
Qed.

Theorem emu_simulates_refterm_list tw e w h : forall ks t r,
  TP.WFs0 e w h t -> vaxis_modes t = true -> emu_rel t r -> toks_ok tw r ks ->
  okstep e w h t (emu_toks tw t ks) (interp tw r ks).
Proof.
  induction ks as [|k ks IH]; intros t r HW HM HR Hok.
  - exists t. split; [reflexivity|]. split; [exact HW|]. split; [exact HM|]. split; [exact HR | apply keeps_prim_refl].
  - destruct Hok as [Hk Hrest].
    destruct (emu_simulates_refterm tw e w h t r k HW HM HR Hk) as [t1 [E1 [W1 [M1 [R1 K1]]]]].
    unfold emu_toks in *. cbn [flat_map] in *. rewrite app_nil_r in E1.
    rewrite emu_feed_app, E1. cbn [T.tbind].
    unfold interp. cbn [fold_left].
    destruct (IH t1 (interp1 tw r k) W1 M1 R1 Hrest) as [t2 [E2 [W2 [M2 [R2 K2]]]]].
    exists t2. split; [exact E2|]. split; [exact W2|]. split; [exact M2|]. split; [exact R2|].
    exact (keeps_prim_trans _ _ _ K1 K2).
Qed.

(* ------------------------------------------------------------------ whole frames and histories *)
From Vx Require Import proofs.RenderDelta proofs.RenderRow proofs.RenderFrame proofs.RenderHistory.

Lemma view_cells_length cp ns : forall skip hd, length (view_cells cp ns skip hd) = length ns.
Proof. induction ns as [|n ns IH]; intros skip hd; cbn [view_cells]; [reflexivity|]. case_if; cbn; now rewrite IH. Qed.

Lemma row_shows_pointwise : forall exp obs,
  length exp = length obs ->
  (forall i d c, zget exp i = Some d -> zget obs i = Some c -> ecell_shows d c = true) ->
  row_shows exp obs = true.
Proof.
  induction exp as [|d exp IH]; intros [|c obs] Hl H; try discriminate; [reflexivity|].
  cbn [row_shows]. rewrite (H 0 d c eq_refl eq_refl). cbn [andb]. apply IH; [cbn in Hl; lia|].
  intros i d' c' H1 H2. apply (H (i + 1)).
  - pose proof (zget_some_range _ _ _ H1). rewrite zget_cons_S by lia. now replace (i + 1 - 1) with i by lia.
  - pose proof (zget_some_range _ _ _ H2). rewrite zget_cons_S by lia. now replace (i + 1 - 1) with i by lia.
Qed.

Lemma grid_shows_pointwise cp : forall next obs,
  length next = length obs ->
  (forall k ns row, zget next k = Some ns -> zget obs k = Some row -> row_shows (view_row cp ns) row = true) ->
  grid_shows cp next obs = true.
Proof.
  induction next as [|ns next IH]; intros [|row obs] Hl H; try discriminate; [reflexivity|].
  cbn [grid_shows]. rewrite (H 0 ns row eq_refl eq_refl). cbn [andb]. apply IH; [cbn in Hl; lia|].
  intros k ns' row' H1 H2. apply (H (k + 1)).
  - pose proof (zget_some_range _ _ _ H1). rewrite zget_cons_S by lia. now replace (k + 1 - 1) with k by lia.
  - pose proof (zget_some_range _ _ _ H2). rewrite zget_cons_S by lia. now replace (k + 1 - 1) with k by lia.
Qed.

(* the emulator holds the view: what the differential run evaluates on the real emulator *)
Lemma emu_shows_view cp e w h s t r :
  TP.WFs0 e w h t -> emu_rel t r -> dims_ok s r -> shows_next cp s r ->
  grid_shows cp (v_next s) (grid_of t) = true.
Proof.
  intros HW HR [D1 [_ [D3 _]]] Hs.
  destruct (TP.WFs_active _ _ _ _ HW) as [Hlen HF].
  pose proof HR as [A1 A2 A3 _ _ _ _ _].
  pose proof (TP.WFs_height e w h t HW) as Hh. pose proof (TP.WFs_width e w h t HW) as Hw.
  apply grid_shows_pointwise.
  - unfold grid_of. rewrite map_length. unfold zlen, T.height in *. unfold T.trow, T.grid in *. lia.
  - intros k ns row Hk Hrow. unfold grid_of in Hrow. rewrite TR.zget_map in Hrow.
    unfold T.trow, T.grid in *.
    destruct (@zget (list T.tcell) (T.active t) k) as [line|] eqn:Gk; [|cbn in Hrow; discriminate]. cbn in Hrow. inversion Hrow; subst row. clear Hrow.
    assert (Hns : zlen ns = tm_cols r) by (apply D3; eapply zget_In; eauto).
    assert (Hline : zlen line = w).
    { assert (TP.row_ok w line) as [Hl _]; [|exact Hl]. rewrite Forall_forall in HF. apply HF. eapply zget_In; eauto. }
    apply row_shows_pointwise.
    + unfold view_row. rewrite view_cells_length, map_length. unfold zlen in *. lia.
    + intros i d c Hd Hc. rewrite TR.zget_map in Hc.
      destruct (zget line i) as [c0|] eqn:Gi; [|cbn in Hc; discriminate]. cbn in Hc. inversion Hc; subst c. clear Hc.
      pose proof (zget_some_range _ _ _ Gi) as Hi.
      rewrite (Hs k ns Hk i ltac:(lia)) in Hd. inversion Hd; subst d. clear Hd.
      assert (Hrel : cell_rel (tm_grid r k i) c0) by (apply A3; unfold gget; unfold T.trow, T.grid in *; rewrite Gk; exact Gi).
      pose proof (Hs k ns Hk i ltac:(lia)) as Hv.
      destruct (tm_grid r k i) as [g0 w0 off0 p0 l0|] eqn:Ed.
      * cbn [cell_rel] in Hrel. destruct (off0 =? 0) eqn:Eo.
        -- apply Hrel. lia.
        -- unfold ecell_shows. rewrite Eo. reflexivity.
      * exfalso. unfold view_row in Hv.
        assert (Hnp : forall ns skip hd j, zget (view_cells cp ns skip hd) j <> Some DPoison).
        { clear. induction ns as [|n ns IH]; intros skip hd j; cbn [view_cells].
          - destruct (Z_lt_dec j 0); [rewrite TR.zget_neg by lia; discriminate|]. rewrite TR.zget_beyond by (rewrite zlen_nil; lia). discriminate.
          - destruct (0 <? skip); (destruct (Z_lt_dec j 0); [rewrite TR.zget_neg by lia; discriminate|];
              destruct (Z.eq_dec j 0); [subst; cbn; unfold head_disp; discriminate|]; rewrite zget_cons_S by lia; apply IH). }
        exact (Hnp _ _ _ _ Hv).
Qed.

Lemma emu_shows_cursor t r c :
  1 <= tm_cols r -> emu_rel t r -> cursor_rel c r ->
  cursor_shows (tm_rows r) (tm_cols r) c (ecursor_of t) = true.
Proof.
  intros Hc1 HR [Hv Hat]. pose proof HR as [_ _ _ A4 A5 _ A7 A8].
  unfold cursor_shows, ecursor_of. rewrite A7, Hv.
  destruct (cu_vis c) eqn:Ev; [|reflexivity].
  destruct (Hat Ev) as [Hr [Hcl Hsh]].
  rewrite A4, A8, Hr, Hsh, !Z.eqb_refl. cbn [andb].
  destruct A5 as [(B1 & B2 & _)|(B1 & _)].
  - rewrite B2, Hcl, Z.eqb_refl. reflexivity.
  - exfalso. unfold clampz in Hcl. lia.
Qed.

(* the emulator along a history, with the reference terminal as a ghost: after every Render /
   Refresh the executable predicate of EmuSpec.v holds of the emulator's grid and cursor.
   [toks_ok] is the side condition of the simulation (numbers written with digits, glyphs
   fit before the right edge); after a size change the emulator may be in any well-formed
   state related to a reference terminal that kept what a resize cannot disturb *)
Fixpoint emu_history_ok (tw measure : list Z -> Z) (s : vstate) (r : term) (t : T.term) (fs : list frame) : Prop :=
  match fs with
  | [] => True
  | (ops, e) :: rest =>
      let s1 := fold_left apply_op ops s in
      match e with
      | FResize rows cols =>
          1 <= rows -> 1 <= cols ->
          forall r2 t2 e2, resized r r2 rows cols ->
            TP.WFs0 e2 cols rows t2 -> vaxis_modes t2 = true -> emu_rel t2 r2 ->
            emu_history_ok tw measure (do_resize s1 rows cols) r2 t2 rest
      | _ =>
          content_ok tw measure term_caps s1 ->
          let '(s', o) := do_frame s ops e in
          toks_ok tw r o ->
          exists t', emu_toks tw t o = T.TOk t' /\
            grid_shows term_caps (v_next s1) (grid_of t') = true /\
            cursor_shows (tm_rows r) (tm_cols r) (v_cnext s1) (ecursor_of t') = true /\
            emu_history_ok tw measure s' (interp tw r o) t' rest
      end
  end.

Theorem emu_history_correct tw measure : forall fs s r t e w h,
  v_caps s = term_caps -> settled s r -> (v_refresh s = false -> in_sync measure term_caps s r) ->
  TP.WFs0 e w h t -> vaxis_modes t = true -> emu_rel t r ->
  emu_history_ok tw measure s r t fs.
Proof.
  induction fs as [|[ops fe] rest IH]; intros s r t e w h Hcp Hs Hsy HW HM HR; cbn [emu_history_ok]; [exact I|].
  cbv zeta. destruct (ops_keep ops s) as [A [B [Cc [D [E [F G]]]]]]. cbv zeta in *.
  set (s1 := fold_left apply_op ops s) in *.
  pose proof (ops_settled ops s r Hs) as Hs1. fold s1 in Hs1.
  assert (Hsy1 : v_refresh s1 = false -> in_sync measure term_caps s1 r).
  { intros Hr. rewrite D in Hr. exact (ops_in_sync measure term_caps ops s r (Hsy Hr)). }
  assert (Hcp1 : v_caps s1 = term_caps) by congruence.
  assert (Frame : forall s2, v_caps s2 = term_caps -> settled s2 r ->
            (v_refresh s2 = false -> in_sync measure term_caps s2 r) -> v_next s2 = v_next s1 -> v_cnext s2 = v_cnext s1 ->
            content_ok tw measure term_caps s2 ->
            let '(s', o) := do_render s2 in
            toks_ok tw r o ->
            exists t', emu_toks tw t o = T.TOk t' /\
              grid_shows term_caps (v_next s1) (grid_of t') = true /\
              cursor_shows (tm_rows r) (tm_cols r) (v_cnext s1) (ecursor_of t') = true /\
              emu_history_ok tw measure s' (interp tw r o) t' rest).
  { intros s2 C2 S2 Y2 N2 CN2 Hok.
    pose proof (render_correct tw measure term_caps s2 r C2 S2 Y2 Hok) as H.
    destruct (do_render s2) as [s' o]. cbv zeta in H. intros Htok.
    destruct H as [S' [Y' [R' [N' [C' [SN [CR SY]]]]]]].
    destruct (emu_simulates_refterm_list tw e w h o t r HW HM HR Htok) as [t' [E' [W' [M' [Rl' _]]]]].
    exists t'. split; [exact E'|].
    assert (Hdims : tm_rows (interp tw r o) = tm_rows r /\ tm_cols (interp tw r o) = tm_cols r).
    { destruct S' as [[D1 _] _]. destruct S2 as [[D1' _] _]. rewrite N' in D1.
      destruct Rl' as [Q1 Q2 _ _ _ _ _ _]. destruct HR as [P1 P2 _ _ _ _ _ _].
      rewrite <- Q1, <- Q2, <- P1, <- P2.
      rewrite (TP.WFs_height e w h t' W'), (TP.WFs_width e w h t' W'), (TP.WFs_height e w h t HW), (TP.WFs_width e w h t HW).
      split; reflexivity. }
    destruct Hdims as [Hdr Hdc].
    split.
    { rewrite <- N2. apply (emu_shows_view term_caps e w h s2 t' (interp tw r o) W' Rl'); [|exact SN].
      destruct S' as [[D1 [D2 [D3 D4]]] _]. rewrite N' in D1, D3.
      split; [exact D1|]. split; [|split; [exact D3|]].
      - destruct S2 as [[_ [L2 _]] _]. exact L2.
      - destruct S2 as [[_ [_ [_ L4]]] _]. rewrite Hdc. exact L4. }
    split.
    { rewrite <- CN2, <- Hdr, <- Hdc. apply emu_shows_cursor; auto.
      destruct S' as [_ [_ [Hc1 _]]]. exact Hc1. }
    apply (IH s' (interp tw r o) t' e w h C' S' (fun _ => Y') W' M' Rl'). }
  destruct fe as [| |rows cols].
  - intros Hok. unfold do_frame. fold s1. apply (Frame s1); auto.
  - intros Hok. unfold do_frame, do_refresh. fold s1.
    apply (Frame (set_refresh s1)); auto. intros Hr; discriminate.
  - intros Hr Hc r2 t2 e2 Hres W2 M2 R2. apply (IH _ r2 t2 e2 cols rows); auto.
    + exact (resize_settled s1 r r2 rows cols Hr Hc Hs1 Hres).
    + cbn. intros Hf; discriminate.
Qed.

(* the decidable side condition implies the one of the theorems *)
Lemma toks_okb_ok tw : forall ks r, toks_okb tw r ks = true -> toks_ok tw r ks.
Proof.
  induction ks as [|k ks IH]; intros r H; cbn [toks_okb toks_ok] in *; [exact I|].
  apply andb_prop in H; destruct H as [H H4]. apply andb_prop in H; destruct H as [H H3].
  apply andb_prop in H; destruct H as [H1 H2].
  split; [|now apply IH]. split; [exact H1|]. split; [exact H2|].
  destruct k; cbn [fitsb fits] in *; try exact I; lia.
Qed.
